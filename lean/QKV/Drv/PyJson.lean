/-
  QKV.Drv.PyJson — JSON encoding of Python literal values / quantizer instances for the
  C09 and C10 drivers.
    None -> null, bool -> true/false, int -> {"i": n}, float -> {"f": [num, den]},
    str -> {"s": "..."}, list -> {"l": [{"i": n} | {"f": [num, den]}, ...]}
  Environments cross as arrays of [key, value] pairs (order preserved).
-/
import QKV.Drv.Json
import QKV.Model.Config
open Lean
namespace QKV.Drv
open QKV.Py

def numOfJson (j : Json) : Except String Num := do
  match j.getObjVal? "i" with
  | .ok v => pure (.int (← v.getInt?))
  | .error _ => pure (.float (← ratOfJson (← j.getObjVal? "f")))

def numToJson : Num → Json
  | .int i => Json.mkObj [("i", Json.num i)]
  | .float q => Json.mkObj [("f", ratToJson q)]

def pyValOfJson (j : Json) : Except String PyVal := do
  match j with
  | .null => pure .none
  | .bool b => pure (.bool b)
  | _ =>
    match j.getObjVal? "i" with
    | .ok v => pure (.int (← v.getInt?))
    | .error _ =>
      match j.getObjVal? "f" with
      | .ok v => pure (.float (← ratOfJson v))
      | .error _ =>
        match j.getObjVal? "s" with
        | .ok v => pure (.str (← v.getStr?))
        | .error _ =>
          let a ← (← j.getObjVal? "l").getArr?
          pure (.list (← a.toList.mapM numOfJson))

def pyValToJson : PyVal → Json
  | .none => Json.null
  | .bool b => Json.bool b
  | .int i => Json.mkObj [("i", Json.num i)]
  | .float q => Json.mkObj [("f", ratToJson q)]
  | .str s => Json.mkObj [("s", Json.str s)]
  | .list l => Json.mkObj [("l", Json.arr (l.map numToJson).toArray)]

def envOfJson (j : Json) : Except String Env := do
  let a ← j.getArr?
  a.toList.mapM fun p => do
    match p with
    | .arr #[k, v] => pure (← k.getStr?, ← pyValOfJson v)
    | _ => throw "bad env pair"

def envToJson (e : Env) : Json :=
  Json.arr (e.map fun p => Json.arr #[Json.str p.1, pyValToJson p.2]).toArray

def valsOfJson (j : Json) : Except String (List PyVal) := do
  (← j.getArr?).toList.mapM pyValOfJson

def clsOfJson (j : Json) (k : String) : Except String Cls := do
  let n ← getStr j k
  match lookup n with
  | some c => pure c
  | none => throw s!"unknown class {n}"

def resultToJson : Except Err Q → Json
  | .ok q => Json.mkObj [("ok", envToJson q.env), ("cls", Json.str q.cls.name)]
  | .error e => Json.mkObj [("err", Json.str e.tag)]

end QKV.Drv
