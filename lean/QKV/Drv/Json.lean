/-
  QKV.Drv.Json — line-protocol plumbing shared by all drivers.
  One JSON object per input line → one JSON object per output line.
-/
import Lean.Data.Json
import QKV.Model.Basic
open Lean
namespace QKV.Drv

/-- rationals cross the protocol as `[numerator, denominator]` (exact). -/
def ratOfJson (j : Json) : Except String Rat := do
  match j with
  | .arr #[n, d] =>
    let n ← n.getInt?
    let d ← d.getInt?
    if d = 0 then throw "zero denominator" else pure ((n : Rat) / (d : Rat))
  | .num _ =>
    let n ← j.getInt?
    pure (n : Rat)
  | _ => throw s!"bad rational {j}"

def ratToJson (q : Rat) : Json := .arr #[Json.num q.num, Json.num (q.den : Int)]

def optRatOfJson (j : Json) : Except String (Option Rat) :=
  match j with
  | .null => pure none
  | _ => (ratOfJson j).map some

def getInt (j : Json) (k : String) : Except String Int := do
  let v ← j.getObjVal? k
  match v with
  | .bool b => pure (if b then 1 else 0)
  | _ => v.getInt?

def getNat (j : Json) (k : String) : Except String Nat := do
  let i ← getInt j k
  if i < 0 then throw s!"negative {k}" else pure i.toNat

def getBool (j : Json) (k : String) : Except String Bool := do
  let v ← j.getObjVal? k
  match v with
  | .bool b => pure b
  | _ => do let i ← v.getInt?; pure (i ≠ 0)

def getStr (j : Json) (k : String) : Except String String := do
  (← j.getObjVal? k).getStr?

def getRat (j : Json) (k : String) : Except String Rat := do ratOfJson (← j.getObjVal? k)
def getOptRat (j : Json) (k : String) : Except String (Option Rat) := do
  match j.getObjVal? k with
  | .ok v => optRatOfJson v
  | .error _ => pure none

def getRatList (j : Json) (k : String) : Except String (List Rat) := do
  let a ← (← j.getObjVal? k).getArr?
  a.toList.mapM ratOfJson

def getNatList (j : Json) (k : String) : Except String (List Nat) := do
  let a ← (← j.getObjVal? k).getArr?
  a.toList.mapM fun v => do
    let i ← v.getInt?
    if i < 0 then throw "negative" else pure i.toNat

def getIntList (j : Json) (k : String) : Except String (List Int) := do
  let a ← (← j.getObjVal? k).getArr?
  a.toList.mapM fun v => v.getInt?

/-- run `f` on every stdin line, printing one compact JSON line per input line. -/
partial def lineLoop (f : Json → Except String Json) : IO Unit := do
  let stdin ← IO.getStdin
  let stdout ← IO.getStdout
  let rec go : IO Unit := do
    let line ← stdin.getLine
    if line.isEmpty then return ()
    let t := line.trimAscii.toString
    if t.isEmpty then go else
    let out :=
      match Json.parse t with
      | .error e => Json.mkObj [("drv_error", Json.str s!"parse: {e}")]
      | .ok j =>
        match f j with
        | .ok r => r
        | .error e => Json.mkObj [("drv_error", Json.str e)]
    stdout.putStrLn out.compress
    go
  go
  stdout.flush

end QKV.Drv
