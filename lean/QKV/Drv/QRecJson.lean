import QKV.Drv.Json
import QKV.Model.Accum
open Lean
namespace QKV.Drv

def qrecOfJson (j : Json) : Except String QRec := do
  let nm ← getStr j "name"
  let some name := QName.ofString? nm | throw s!"unknown name {nm}"
  pure { mode := ← getNat j "mode", name := name, bits := ← getInt j "bits",
         intBits := ← getInt j "int_bits", signed := ← getBool j "is_signed",
         isFloat := ← getBool j "is_floating_point", isPo2 := ← getBool j "is_po2",
         maxValPo2 := ← getOptRat j "max_val_po2", use01 := (getBool j "use_01").toOption.getD false }

def qrecToJson (q : QRec) : Json :=
  Json.mkObj [("mode", Json.num (q.mode : Int)), ("name", Json.str q.name.toString),
    ("bits", Json.num q.bits), ("int_bits", Json.num q.intBits),
    ("is_signed", Json.bool q.signed), ("is_floating_point", Json.bool q.isFloat),
    ("is_po2", Json.bool q.isPo2),
    ("max_val_po2", match q.maxValPo2 with | none => Json.null | some m => ratToJson m)]

end QKV.Drv
