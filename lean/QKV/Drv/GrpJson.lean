/- JSON plumbing shared by the C04 / C05 drivers: axis specs, float contexts, band detection -/
import QKV.Drv.Json
import QKV.Model.AutoFx
open Lean
namespace QKV.Drv
open QKV QKV.Tn QKV.BT

def axisOfJson (j : Json) : Except String AxisSpec :=
  match j with
  | .null => pure .none
  | .arr a => do
    let l ← a.toList.mapM fun v => do
      let i ← v.getInt?
      if i < 0 then throw "negative axis" else pure i.toNat
    pure (.many l)
  | v => do
    let i ← v.getInt?
    if i < 0 then throw "negative axis" else pure (.one i.toNat)

def epsOfJson (j : Json) : Except String EpsSpec := do
  match ← axisOfJson j with
  | .none => pure .none
  | .one e => pure (.one e)
  | .many l => pure (.many l)

def getOptInt (j : Json) (k : String) : Except String (Option Int) :=
  match j.getObjVal? k with
  | .ok .null => pure none
  | .ok v => do pure (some (← v.getInt?))
  | .error _ => pure none

def getAxis (j : Json) (k : String) : Except String AxisSpec :=
  match j.getObjVal? k with
  | .ok v => axisOfJson v
  | .error _ => pure .none

def getEps (j : Json) (k : String) : Except String EpsSpec :=
  match j.getObjVal? k with
  | .ok v => epsOfJson v
  | .error _ => pure .none

def alphaOfJson (j : Json) : Except String Alpha :=
  match j with
  | .null => pure .none
  | .str "auto" => pure .auto
  | .str "auto_po2" => pure .autoPo2
  | v => do pure (.const (← ratOfJson v))

def rats (l : List Rat) : Json := Json.arr (l.map ratToJson).toArray

def errJson (e : Err) : Json :=
  Json.mkObj [("err", Json.str (match e with | .assert => "assert" | .valueError => "value-error"))]

/-- `round(log2 v)` pushed to the upper / lower neighbour inside the band around √2·2^k -/
def lgUp (v : Rat) : Int :=
  let f := floorLog2Rat (v * v)
  if nearBreak v && f % 2 == 0 then nearestExp v + 1 else nearestExp v
def lgDn (v : Rat) : Int :=
  let f := floorLog2Rat (v * v)
  if nearBreak v && f % 2 == 1 then nearestExp v - 1 else nearestExp v

/-- the four contexts a case is evaluated in: exact; float32; float32 with the logarithm biased up /
    down inside the band (if those three agree no band was touched) -/
def ctxs (eps : Rat) : Fl × Fl × Fl × Fl :=
  (Fl.exact eps, Fl.f32 eps, { r := rnd32, lg := lgUp, eps := eps }, { r := rnd32, lg := lgDn, eps := eps })

end QKV.Drv
