/-
  QKV.Model.OpCount — qtools / estimate operation counts and the loop-nest specification.

  Mirrors (as written, defects included; after the fix: commits 86c5631, 89f0481, e54ac88, 2d53185,
  174b8b4 the defects left are the separable layers: no branch in `get_operation_count`, 1×1 stage
  without its input channels in estimate.py)
    qkeras/qtools/qtools_util.py   : is_shape_alternation_layers, is_merge_layers, get_operation_count
    qkeras/estimate.py             : extract_model_operations  (`number_of_operations`)
  and states, independently of those formulas, what a layer really does for one sample:
  the explicit loop nest {(output position, output channel, kernel tap, input channel in group)}
  built from a sliding-window index model (`positions`).  Core Lean only.
-/
import QKV.Model.Basic
namespace QKV.C19

/-! ## Python `sub in name` on class names -/

def isPrefixL : List Char → List Char → Bool
  | [], _ => true
  | _ :: _, [] => false
  | a :: as, b :: bs => a == b && isPrefixL as bs

def isInfixL (sub : List Char) : List Char → Bool
  | [] => sub.isEmpty
  | c :: cs => isPrefixL sub (c :: cs) || isInfixL sub cs

/-- Python `sub in s` -/
def strIn (sub s : String) : Bool := isInfixL sub.toList s.toList

/-! ## `get_operation_count` -/

/-- the branch of the `if / elif` chain of `get_operation_count` a class name selects -/
inductive Branch
  | elemwise     -- is_merge_layers or is_shape_alternation_layers : prod(input_shape[1:])
  | avgPool      -- (Global)AveragePooling2D family : channels_o * prod(pool_size)
  | upSampling   -- prod(output_shape[1:])
  | actBn        -- *Activation* / *BatchNormalization* : prod(input_shape[1:])
  | conv2d | conv1d | depthwise | dense
  | other        -- "defaulted to 0"
  deriving DecidableEq, Repr, Inhabited

/-- `is_merge_layers` -/
def isMergeName (n : String) : Bool :=
  ["Add", "Multiply", "Subtract", "Average", "Maximum", "Minimum", "Concatenate", "Dot"].contains n

/-- `is_shape_alternation_layers` (a class name is never empty) -/
def isShapeAlterationName (n : String) : Bool :=
  strIn "MaxPool" n || strIn "Reshape" n || strIn "Flatten" n

/-- the `if / elif` chain, in the order of the source -/
def classify (n : String) : Branch :=
  if isMergeName n || isShapeAlterationName n then .elemwise
  -- "QAveragePooling2D" joined the list with fix 2d53185
  else if ["AveragePooling2D", "AvgPool2D", "GlobalAvgPool2D", "GlobalAveragePooling2D",
           "QAveragePooling2D", "QGlobalAveragePooling2D"].contains n then .avgPool
  else if strIn "UpSampling" n then .upSampling
  else if strIn "Activation" n || strIn "BatchNormalization" n then .actBn
  else if ["QConv2D", "Conv2D", "QConv2DBatchnorm", "QConv2DTranspose", "Conv2DTranspose"].contains n
    then .conv2d
  else if ["QConv1D", "Conv1D"].contains n then .conv1d
  else if ["QDepthwiseConv2D", "DepthwiseConv2D"].contains n then .depthwise
  else if ["QDense", "Dense"].contains n then .dense
  else .other

def prodL (l : List Nat) : Nat := l.foldr (· * ·) 1

/-- what `get_operation_count(layer, input_shape)` looks at.  Shapes are WITHOUT the batch entry
    (the batch entry is `None` in every Keras model shape; `input_shape` is the first / largest
    input for multi-input layers, as chosen by the caller). -/
structure LayerInfo where
  inShape : List Nat            -- input_shape[1:]
  outShape : List Nat           -- layer.compute_output_shape(input_shape)[1:]
  wShape : List Nat             -- layer.get_weights()[0].shape  ([] if the layer has no weights)
  poolSize : Option (List Nat)  -- layer.pool_size if the attribute exists
  groups : Nat := 1             -- getattr(layer, "groups", 1)
  deriving Repr, Inhabited

/-- `sum(shape > 1) <= 1` over the non-`None` entries: the assertion of the dense branch -/
def atMostOneBig (l : List Nat) : Bool := (l.filter (fun d => decide (1 < d))).length ≤ 1
/-- `sum(shape > 1) == 1`: the assertion of estimate.py -/
def exactlyOneBig (l : List Nat) : Bool := (l.filter (fun d => decide (1 < d))).length = 1
/-- `np.max(shape)` (what the dense branches read before fix 174b8b4; kept for the regression
    witness) -/
def maxL (l : List Nat) : Nat := l.foldr max 0

/-- the dense formula shared by `get_operation_count` and estimate.py (fix 174b8b4):
    `np.prod(oshape[:-1]) * ishape[-1] * oshape[-1]` — the kernel contracts the LAST axis and is
    applied once per position of the remaining output axes; `none` = indexing an empty shape -/
def denseCount (inShape outShape : List Nat) : Option Nat :=
  match inShape.getLast?, outShape.getLast? with
  | some ni, some no => some (prodL outShape.dropLast * ni * no)
  | _, _ => none

/-- `get_operation_count`; `none` = the Python raises (tuple unpacking of a wrong rank, failed
    assertion, missing weights). -/
def opCountB (b : Branch) (L : LayerInfo) : Option Nat :=
  match b with
  | .elemwise => some (prodL L.inShape)
  | .avgPool =>
    let pool := match L.poolSize with
      | some p => p
      | none => L.inShape.dropLast               -- input_shape[1:-1]
    -- a pooling window is evaluated at every output position (output_shape[1:-1]); global
    -- pooling (no `pool_size` attribute) has a single one        [fix 86c5631]
    let positions := match L.poolSize with
      | some _ => prodL L.outShape.dropLast
      | none => 1
    match L.outShape.getLast? with
    | some co => some (positions * co * prodL pool)
    | none => none
  | .upSampling => some (prodL L.outShape)
  | .actBn => some (prodL L.inShape)
  | .conv2d =>
    match L.inShape, L.outShape, L.wShape with
    -- each output channel only sees the input channels of its group   [fix 86c5631]
    | [_, _, ci], [ho, wo, co], [kh, kw, _, _] => some (ho * wo * co * kh * kw * (ci / L.groups))
    | _, _, _ => none
  | .conv1d =>
    match L.inShape, L.outShape, L.wShape with
    | [_, ci], [to, co], [k, _, _] => some (to * co * k * (ci / L.groups))
    | _, _, _ => none
  | .depthwise =>
    match L.inShape, L.outShape, L.wShape with
    -- channels_o = channels_i * depth_multiplier                        [fix 86c5631]
    | [_, _, _], [ho, wo, co], [kh, kw, _, _] => some (kh * kw * ho * wo * co)
    | _, _, _ => none
  | .dense =>
    -- both assertions, then last axis × last axis × remaining positions     [fix 174b8b4]
    if atMostOneBig L.inShape && atMostOneBig L.outShape then denseCount L.inShape L.outShape
    else none
  | .other => some 0

def opCount (name : String) (L : LayerInfo) : Option Nat := opCountB (classify name) L

/-! ## `estimate.extract_model_operations` : `number_of_operations` -/

inductive EstClass
  | qconv2d | qconv1d | qdepthwise | qsepconv1d | qsepconv2d | qdense
  deriving DecidableEq, Repr, Inhabited

def estClass? : String → Option EstClass
  | "QConv2D" => some .qconv2d | "QConv1D" => some .qconv1d
  | "QDepthwiseConv2D" => some .qdepthwise | "QSeparableConv1D" => some .qsepconv1d
  | "QSeparableConv2D" => some .qsepconv2d | "QDense" => some .qdense
  | _ => none

/-- `number_of_operations`; `wShape` is `get_weights()[0].shape` (the depthwise kernel for the
    separable layers).  The dense assertion there is `== 1`, not `<= 1`. -/
def estOps (c : EstClass) (L : LayerInfo) : Option Nat :=
  match c with
  | .qconv2d =>
    match L.inShape, L.outShape, L.wShape with
    -- each output channel only sees the input channels of its group      [fix 89f0481]
    | [_, _, ci], [ho, wo, co], [kh, kw, _, _] => some (ho * wo * co * kh * kw * (ci / L.groups))
    | _, _, _ => none
  | .qconv1d =>
    match L.inShape, L.outShape, L.wShape with
    | [_, ci], [to, co], [k, _, _] => some (to * co * k * (ci / L.groups))
    | _, _, _ => none
  | .qdepthwise =>
    match L.inShape, L.outShape, L.wShape with
    -- channels_o = channels_i * depth_multiplier                          [fix e54ac88]
    | [_, _, _], [ho, wo, co], [kh, kw, _, _] => some (kh * kw * ho * wo * co)
    | _, _, _ => none
  | .qsepconv1d =>
    match L.inShape, L.outShape, L.wShape with
    -- (not repaired: the 1×1 stage lacks `* channels_i`, depth_multiplier is ignored)
    | [_, ci], [to, co], [k, _, _] => some (k * to * ci + to * co)
    | _, _, _ => none
  | .qsepconv2d =>
    match L.inShape, L.outShape, L.wShape with
    | [_, _, ci], [ho, wo, co], [kh, kw, _, _] => some (kh * kw * ho * wo * ci + ho * wo * co)
    | _, _, _ => none
  | .qdense =>
    if exactlyOneBig L.inShape && exactlyOneBig L.outShape then denseCount L.inShape L.outShape
    else none

/-! ## the specification: sliding-window index model and loop nests -/

inductive Padding | valid | same | causal
  deriving DecidableEq, Repr, Inhabited

/-- Output positions of a 1-D sliding window over `n` input samples, kernel `k`, stride `s`,
    dilation `d`.  Output `o` reads the (possibly padded) inputs anchored at `o * s`:
    * `valid`: `o` exists iff every tap `o*s + t*d`, `t < k`, is a real input sample, i.e. the
      last one `o*s + (k-1)*d < n`;
    * `same` / `causal`: the input is padded so that every anchor `o*s < n` produces an output
      (padded taps are computed like any other tap — the hardware convention of the count). -/
def positions (p : Padding) (n k s d : Nat) : List Nat :=
  match p with
  | .valid => (List.range n).filter (fun o => decide (o * s + (k - 1) * d < n))
  | .same | .causal => (List.range n).filter (fun o => decide (o * s < n))

/-- Keras `conv_utils.conv_output_length` (trusted Keras code, compared with the live
    `compute_output_shape` on every run); natural-number subtraction. -/
def convOutLen (p : Padding) (n k s d : Nat) : Nat :=
  match p with
  | .valid => (n + 1 - (k + (k - 1) * (d - 1)) + s - 1) / s
  | .same | .causal => (n + s - 1) / s

/-- MAC loop nest of a (grouped) 2-D convolution: one multiply-accumulate per
    (output row, output column, output channel, kernel row, kernel column, input channel of the
    group).  `cig` = input channels per group = `kernel.shape[2]`. -/
def conv2dNest (posH posW : List Nat) (co kh kw cig : Nat) :
    List (Nat × Nat × Nat × Nat × Nat × Nat) :=
  posH.flatMap fun oy => posW.flatMap fun ox => (List.range co).flatMap fun c =>
    (List.range kh).flatMap fun ky => (List.range kw).flatMap fun kx =>
      (List.range cig).map fun ci => (oy, ox, c, ky, kx, ci)

def conv1dNest (pos : List Nat) (co k cig : Nat) : List (Nat × Nat × Nat × Nat) :=
  pos.flatMap fun o => (List.range co).flatMap fun c => (List.range k).flatMap fun t =>
    (List.range cig).map fun ci => (o, c, t, ci)

/-- depthwise: (row, column, input channel, depth-multiplier index, kernel row, kernel column) -/
def depthwiseNest (posH posW : List Nat) (ci dm kh kw : Nat) :
    List (Nat × Nat × Nat × Nat × Nat × Nat) :=
  posH.flatMap fun oy => posW.flatMap fun ox => (List.range ci).flatMap fun c =>
    (List.range dm).flatMap fun m => (List.range kh).flatMap fun ky =>
      (List.range kw).map fun kx => (oy, ox, c, m, ky, kx)

/-- dense on a `(batch, n_in)` input: (output unit, input feature) -/
def denseNest (nIn units : Nat) : List (Nat × Nat) :=
  (List.range units).flatMap fun o => (List.range nIn).map fun i => (o, i)

/-- dense on a `(batch, d_1, …, d_k, n_in)` input: the kernel is applied at each of the
    `d_1 ⋯ d_k` positions of the leading axes: (position, output unit, input feature) -/
def denseNestAt (npos nIn units : Nat) : List (Nat × Nat × Nat) :=
  (List.range npos).flatMap fun q => (denseNest nIn units).map fun t => (q, t.1, t.2)

/-- average pooling: one accumulate per (row, column, channel, window row, window column) -/
def poolNest (posH posW : List Nat) (c ph pw : Nat) : List (Nat × Nat × Nat × Nat × Nat) :=
  posH.flatMap fun oy => posW.flatMap fun ox => (List.range c).flatMap fun ch =>
    (List.range ph).flatMap fun py => (List.range pw).map fun px => (oy, ox, ch, py, px)

/-- element-wise merge of two tensors of `shape`: one operation per output element -/
def mergeNest (shape : List Nat) : List Nat := List.range (prodL shape)

def macConv2d (p : Padding) (h w kh kw sh sw dh dw cig co : Nat) : Nat :=
  (conv2dNest (positions p h kh sh dh) (positions p w kw sw dw) co kh kw cig).length
def macConv1d (p : Padding) (n k s d cig co : Nat) : Nat :=
  (conv1dNest (positions p n k s d) co k cig).length
def macDepthwise (p : Padding) (h w kh kw sh sw dh dw ci dm : Nat) : Nat :=
  (depthwiseNest (positions p h kh sh dh) (positions p w kw sw dw) ci dm kh kw).length
def macDense (nIn units : Nat) : Nat := (denseNest nIn units).length
def macDenseAt (lead : List Nat) (nIn units : Nat) : Nat :=
  (denseNestAt (prodL lead) nIn units).length
def macAvgPool (p : Padding) (h w ph pw sh sw c : Nat) : Nat :=
  (poolNest (positions p h ph sh 1) (positions p w pw sw 1) c ph pw).length
/-- global average pooling: a single output position whose window is the whole map -/
def macGlobalAvgPool (h w c : Nat) : Nat := (poolNest [0] [0] c h w).length
def macMerge (shape : List Nat) : Nat := (mergeNest shape).length
/-- element-wise merge (Add / Multiply / …) of `n` operand tensors of one `shape`: the running
    result is combined with every operand after the first, element by element — one scalar
    operation per (extra operand `j = 1 … n-1`, element).  `operation_count` reports the per-operand
    slice `macMerge shape`; `energy_estimate` multiplies by `n - 1` (Model.Energy `opEnergy .merge`). -/
def mergeNaryNest (n : Nat) (shape : List Nat) : List (Nat × Nat) :=
  (List.range (n - 1)).flatMap fun j => (mergeNest shape).map fun e => (j + 1, e)
def opsMergeNary (n : Nat) (shape : List Nat) : Nat := (mergeNaryNest n shape).length
/-- separable convolution = depthwise (multiplier `dm`) followed by a 1×1 convolution -/
def macSepConv2d (p : Padding) (h w kh kw sh sw dh dw ci dm co : Nat) : Nat :=
  macDepthwise p h w kh kw sh sw dh dw ci dm
    + (conv2dNest (positions p h kh sh dh) (positions p w kw sw dw) co 1 1 (ci * dm)).length
def macSepConv1d (p : Padding) (n k s d ci dm co : Nat) : Nat :=
  (depthwiseNest [0] (positions p n k s d) ci dm 1 k).length
    + (conv1dNest (positions p n k s d) co 1 (ci * dm)).length

/-! ## the `LayerInfo` Keras hands to the code for a given geometry -/

def conv2dInfo (p : Padding) (h w kh kw sh sw dh dw ci co groups : Nat) : LayerInfo :=
  { inShape := [h, w, ci], outShape := [convOutLen p h kh sh dh, convOutLen p w kw sw dw, co],
    wShape := [kh, kw, ci / groups, co], poolSize := none, groups := groups }
def conv1dInfo (p : Padding) (n k s d ci co groups : Nat) : LayerInfo :=
  { inShape := [n, ci], outShape := [convOutLen p n k s d, co], wShape := [k, ci / groups, co],
    poolSize := none, groups := groups }
def depthwiseInfo (p : Padding) (h w kh kw sh sw dh dw ci dm : Nat) : LayerInfo :=
  { inShape := [h, w, ci], outShape := [convOutLen p h kh sh dh, convOutLen p w kw sw dw, ci * dm],
    wShape := [kh, kw, ci, dm], poolSize := none }
/-- dense on `(batch, d_1, …, d_k, n_in)`: `lead = [d_1, …, d_k]` before the feature axis -/
def denseInfo (lead : List Nat) (nIn units : Nat) : LayerInfo :=
  { inShape := lead ++ [nIn], outShape := lead ++ [units], wShape := [nIn, units], poolSize := none }
def avgPoolInfo (p : Padding) (h w ph pw sh sw c : Nat) : LayerInfo :=
  { inShape := [h, w, c], outShape := [convOutLen p h ph sh 1, convOutLen p w pw sw 1, c],
    wShape := [], poolSize := some [ph, pw] }
def globalAvgPoolInfo (h w c : Nat) : LayerInfo :=
  { inShape := [h, w, c], outShape := [c], wShape := [], poolSize := none }
def mergeInfo (shape : List Nat) : LayerInfo :=
  { inShape := shape, outShape := shape, wShape := [], poolSize := none }
def sepConv2dInfo (p : Padding) (h w kh kw sh sw dh dw ci dm co : Nat) : LayerInfo :=
  { inShape := [h, w, ci], outShape := [convOutLen p h kh sh dh, convOutLen p w kw sw dw, co],
    wShape := [kh, kw, ci, dm], poolSize := none }
def sepConv1dInfo (p : Padding) (n k s d ci dm co : Nat) : LayerInfo :=
  { inShape := [n, ci], outShape := [convOutLen p n k s d, co], wShape := [k, ci, dm],
    poolSize := none }


/-! ## which operand of a multi-input (merge) layer `generate_layer_data_type_map` hands to
    `get_operation_count` (strengthening round 4) -/

/-- the loop `maxsize = -1; for shape in inputs: if size > maxsize: take it` with a generic size `key`:
    the operand with the strictly largest key, the FIRST among ties.  The code's key is
    `np.prod(shape[1:])` = `prodL` (shapes here are without the batch entry). -/
def pickLargestByAux (key : List Nat → Nat) (best : List Nat) : List (List Nat) → List Nat
  | [] => best
  | s :: rest => if key s > key best then pickLargestByAux key s rest else pickLargestByAux key best rest
def pickLargestBy (key : List Nat → Nat) : List (List Nat) → List Nat
  | [] => []
  | s :: rest => pickLargestByAux key s rest
/-- the selection of the real code -/
def pickLargest : List (List Nat) → List Nat := pickLargestBy prodL
/-- numpy broadcasting of equal-rank shapes: every dimension of `s` equals that of `full` or is 1 -/
def bcastTo : List Nat → List Nat → Prop
  | [], [] => True
  | a :: s, b :: full => (a = b ∨ a = 1) ∧ bcastTo s full
  | _, _ => False


end QKV.C19
