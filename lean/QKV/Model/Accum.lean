/-
  QKV.Model.Accum — qtools accumulators, adders and merge types.

  Mirrors accumulator_impl.py / accumulator_factory.py, adder_impl.py /
  adder_factory.py and merge_factory.py of qkeras/qtools/quantized_operators.
-/
import QKV.Model.Mult
namespace QKV

/-! ### accumulators -/

/-- `int(np.ceil(np.log2(prod(kernel_shape[:-1]) + bias_add)))` -/
def logAddOps (kernelShape : List Nat) (useBias : Bool) : Int :=
  let n := (kernelShape.dropLast).foldl (· * ·) 1
  (clog2 (n + (if useBias then 1 else 0)) : Int)

/-- number of terms summed per output element (without the bias) -/
def kernelTerms (kernelShape : List Nat) : Nat := (kernelShape.dropLast).foldl (· * ·) 1

def accumulatorRec : QRec := tQuantizedBits

/-- `AccumulatorFactory().make_accumulator(kernel_shape, multiplier, use_bias).output`
    given the multiplier's output record. -/
def makeAccumulator (kernelShape : List Nat) (m : QRec) (useBias : Bool) : QRec :=
  if m.isFloat then
    { tFloat m.bits with intBits := -1, signed := m.signed, isFloat := true }
  else
    let l := logAddOps kernelShape useBias
    if m.isPo2 then
      let (b, i) := po2ToQbits m
      { tQuantizedBits with bits := l + b, intBits := l + i, signed := m.signed }
    else
      { tQuantizedBits with bits := l + m.bits, intBits := l + m.intBits, signed := m.signed }

/-! ### adders -/

def po2QbitsConverter (q : QRec) : QRec :=
  let (b, i) := po2ToQbits q
  { tQuantizedBits with bits := b, intBits := i, signed := q.signed }

def fixedPointAdder (a b : QRec) : QRec :=
  let intBits := imax a.intBits b.intBits + 1
  let f1 := a.bits - b2i a.signed - a.intBits
  let f2 := b.bits - b2i b.signed - b.intBits
  let signed := a.signed || b.signed
  { tQuantizedBits with intBits := intBits, signed := signed,
                        bits := intBits + b2i signed + imax f1 f2 }

def floatAdder (a b : QRec) : QRec := tFloat (imax a.bits b.bits)

def po2FixedAdder (a b : QRec) : QRec :=
  if a.isPo2 then fixedPointAdder (po2QbitsConverter a) b
  else fixedPointAdder (po2QbitsConverter b) a

def po2Adder (a b : QRec) : QRec :=
  fixedPointAdder (po2QbitsConverter a) (po2QbitsConverter b)

inductive AddImpl | fixed | po2Fixed | po2 | float
  deriving DecidableEq, Repr, Inhabited

/-- `IAdder.adder_impl_table[mode1][mode2]` -/
def addTable : Nat → Nat → Option AddImpl
  | 5, m => if m ≤ 5 then some .float else none
  | m, 5 => if m ≤ 5 then some .float else none
  | 1, 1 => some .po2
  | 1, m => if m ≤ 5 then some .po2Fixed else none
  | m, 1 => if m ≤ 5 then some .po2Fixed else none
  | a, b => if a ≤ 5 ∧ b ≤ 5 then some .fixed else none

def makeAdder (a b : QRec) : Option QRec :=
  match addTable a.mode b.mode with
  | some .fixed => some (fixedPointAdder a b)
  | some .po2Fixed => some (po2FixedAdder a b)
  | some .po2 => some (po2Adder a b)
  | some .float => some (floatAdder a b)
  | none => none

/-! ### merge layers -/

/-- po2 inputs are first converted to their fixed-point carrier -/
def asQbits (q : QRec) : QRec := if q.isPo2 then po2QbitsConverter q else q

/-- fractional bits of a fixed-point record -/
def fracOf (q : QRec) : Int := q.bits - b2i q.signed - q.intBits

def optMax (a : Option Int) (b : Int) : Option Int :=
  match a with | none => some b | some x => some (imax x b)

/-- `_fixed_point_envelope`: (max int_bits, max frac bits, any signed, any float, max float bits)
    over the inputs; po2 inputs through their fixed-point carrier -/
def mergeEnvelope (qs : List QRec) : Option Int × Option Int × Bool × Bool × Int :=
  qs.foldl (fun (mi, mf, sg, fl, fb) q =>
    if q.isFloat then (mi, mf, sg || q.signed, true, imax fb q.bits)
    else
      let c := asQbits q
      (optMax mi c.intBits, optMax mf (fracOf c), sg || q.signed, fl, fb))
    (none, none, false, false, 0)

/-- Add: `ceil(log2 n)` (at least one) more integer bits than the widest input, finest fraction -/
def mergeAdd (qs : List QRec) : QRec :=
  let (mi, mf, sg, fl, fb) := mergeEnvelope qs
  if fl then tFloat fb
  else
    let grow : Int := imax (clog2 (if qs.length = 0 then 1 else qs.length) : Int) 1
    let i := mi.getD 0 + grow
    { tQuantizedBits with intBits := i, signed := sg, bits := i + mf.getD 0 + b2i sg }

def sameType (a b : QRec) : Bool :=
  a.name = b.name && a.bits = b.bits && a.intBits = b.intBits && a.signed = b.signed &&
    a.maxValPo2 = b.maxValPo2

/-- Maximum / Minimum / Average / Concatenate -/
def mergeMax (qs : List QRec) : Option QRec :=
  match qs with
  | [] => none
  | q0 :: rest =>
    if rest.all (sameType q0) then some q0
    else
      let (mi, mf, sg, fl, fb) := mergeEnvelope qs
      if fl then some (tFloat fb)
      else
        let i := mi.getD 0
        some { tQuantizedBits with intBits := i, signed := sg, bits := i + mf.getD 0 + b2i sg }

/-- Multiply: left fold of the multiplier factory -/
def mergeMultiply (qs : List QRec) : Option QRec :=
  match qs with
  | [] => none
  | q0 :: rest =>
    rest.foldl (fun acc cur => acc.bind fun a => (makeMultiplier a cur).map (·.2)) (some q0)

/-! ### derivation histories

The factories are pure functions of the operand records.  `memoRun` models a factory that is fronted by
a process-wide table (a memo) keyed by `key`: the k-th request of a history is answered from the table
whenever an EARLIER request had the same key.  `Props.C17` proves that such a factory answers every
history like the pure one iff the key determines the result, and that the key
`(mode, bits, int_bits, is_signed)` does not (it forgets `max_val_po2`). -/

/-- first entry stored under `k` -/
def memoFind {κ β : Type} [DecidableEq κ] (k : κ) : List (κ × β) → Option β
  | [] => none
  | (k', b) :: t => if k' = k then some b else memoFind k t

/-- answers of a memoised factory along a history of requests, starting from table `tbl` -/
def memoRun {α β κ : Type} [DecidableEq κ] (key : α → κ) (f : α → β) :
    List (κ × β) → List α → List β
  | _, [] => []
  | tbl, a :: rest =>
    match memoFind (key a) tbl with
    | some b => b :: memoRun key f tbl rest
    | none => f a :: memoRun key f ((key a, f a) :: tbl) rest

/-- the operand signature `(mode, bits, int_bits, is_signed)` (what `merge_factory.Maximum` compares,
    without the name) -/
def opKey4 (q : QRec) : Nat × Int × Int × Bool := (q.mode, q.bits, q.intBits, q.signed)

/-- `IAdder().make_quantizer` over a history of operand pairs -/
def adderHistory (h : List (QRec × QRec)) : List (Option QRec) := h.map fun p => makeAdder p.1 p.2

end QKV
