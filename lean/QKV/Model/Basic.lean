/-
  QKV.Model.Basic — number helpers shared by every model.  Core Lean only
  (no Mathlib): these definitions are *run* by the driver and are the ones the
  theorems are about.
-/
namespace QKV

/-- `2^e` as an exact rational, any integer exponent. -/
def pow2 (e : Int) : Rat :=
  if 0 ≤ e then ((2 ^ e.toNat : Nat) : Rat) else 1 / ((2 ^ (-e).toNat : Nat) : Rat)

/-- smallest `e` with `n ≤ 2^e` (Python: `ceil(log2 n)` for `n ≥ 1`). -/
def clog2 (n : Nat) : Nat := if n ≤ 1 then 0 else (n - 1).log2 + 1

/-- `ceil(log2 q)` for a positive rational: smallest integer `e` with `q ≤ 2^e`. -/
def ceilLog2Rat (q : Rat) : Int :=
  let n := q.num.toNat
  let d := q.den
  if d ≤ n then (clog2 ((n + d - 1) / d) : Int)   -- q ≥ 1: clog2 ⌈q⌉
  else - ((d / n).log2 : Int)                      -- q < 1: −⌊log2 (1/q)⌋ … exact for all q

/-- `floor(log2 q)` for a positive rational: largest `e` with `2^e ≤ q`. -/
def floorLog2Rat (q : Rat) : Int :=
  let n := q.num.toNat
  let d := q.den
  if d ≤ n then ((n / d).log2 : Int)
  else - (clog2 ((d + n - 1) / n) : Int)

def imax (a b : Int) : Int := if a ≤ b then b else a
def imin (a b : Int) : Int := if a ≤ b then a else b

end QKV
