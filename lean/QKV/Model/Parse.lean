/-
  QKV.Model.Parse — qkeras/safe_eval.py (after the fix round: blanks after a keyword value are
  stripped, bracketed number lists `[1,2]` are one token, a repeated keyword is a SyntaxError)
  transcribed over `List Char`:
  `safe_eval` (split at "(", name lookup, call), `GetParams` (the pyparsing grammar
  `"(" [ item ("," item)* ] ")"`, item = `(?:L|[^=,)\s])+` optionally followed by `=` and
  `(?:L|[^,)])*` with `L = \[[0-9eE+\-.,\s]*\]`, whitespace skipped before every token, then the
  positional-after-keyword and repeated-keyword SyntaxErrors),
  `GetArg` and its helpers `IsBool/Bool/IsNum/Num/IsNone/_ListItems/IsListofNums/ListofNums/Str`.

  pyparsing itself is a library: its matching of this grammar is modelled by cutting the text
  at the first `)` outside a bracketed list into segments at the commas outside a bracketed
  list and matching one item per segment; the equivalence on malformed inputs is exercised by
  the tie's malformed stream.  Also here: the literal syntax tree `Lit` of Python literals with
  its text and its Python value (the reference reading), and `render`.
  Core Lean only.
-/
import QKV.Model.Config
namespace QKV.Py

/-! ### characters -/

/-- pyparsing's default skipped whitespace -/
def isWs (c : Char) : Bool := c == ' ' || c == '\t' || c == '\n' || c == '\r'

/-- regex `\s` / `str.strip()` whitespace (ASCII part) -/
def isReSpace (c : Char) : Bool :=
  isWs c || c == '\x0b' || c == '\x0c' || (0x1c ≤ c.toNat && c.toNat ≤ 0x1f)

/-- `[^=,)\s]` -/
def keyChar (c : Char) : Bool := !(c == '=' || c == ',' || c == ')' || isReSpace c)

def isDig (c : Char) : Bool := 48 ≤ c.toNat && c.toNat ≤ 57
def digitVal (c : Char) : Nat := c.toNat - 48
def digitsVal (cs : List Char) : Nat := cs.foldl (fun a c => 10 * a + digitVal c) 0

/-! ### `int(s)` / `float(s)` on decimal text -/

def stripWs (cs : List Char) : List Char :=
  ((cs.dropWhile isReSpace).reverse.dropWhile isReSpace).reverse

def splitSign : List Char → Bool × List Char
  | '-' :: r => (true, r)
  | '+' :: r => (false, r)
  | r => (false, r)

def allDigits (r : List Char) : Bool := !r.isEmpty && r.all isDig

/-- `int(s)`: optional surrounding whitespace, optional sign, ASCII decimal digits.
    (Python also accepts `_` between digits and non-ASCII digits; not modelled, never generated.) -/
def pyIntOf (s : List Char) : Option Int :=
  let p := splitSign (stripWs s)
  if allDigits p.2 then some (if p.1 then -(digitsVal p.2 : Int) else (digitsVal p.2 : Int))
  else none

def pow10z (e : Int) : Rat :=
  if 0 ≤ e then ((10 ^ e.toNat : Nat) : Rat) else 1 / ((10 ^ (-e).toNat : Nat) : Rat)

/-- the fraction part after the integer digits: `(digits, rest)` -/
def fracPart : List Char → List Char × List Char
  | '.' :: t => (t.takeWhile isDig, t.dropWhile isDig)
  | r => ([], r)

/-- the exponent suffix: `[] ↦ 0`, `e[sign]digits ↦ ±digits`, anything else fails -/
def expPart : List Char → Option Int
  | [] => some 0
  | c :: t =>
    if c == 'e' || c == 'E' then
      let p := splitSign t
      if allDigits p.2 then some (if p.1 then -(digitsVal p.2 : Int) else (digitsVal p.2 : Int))
      else none
    else none

/-- `float(s)` for finite decimal text `[sign] digits [. digits] [e [sign] digits]`; the value
    is the exact decimal (CPython rounds it to binary64).  `inf` / `nan` are not modelled. -/
def pyFloatOf (s : List Char) : Option Rat :=
  let p := splitSign (stripWs s)
  let ip := p.2.takeWhile isDig
  let f := fracPart (p.2.dropWhile isDig)
  if ip.isEmpty && f.1.isEmpty then none
  else match expPart f.2 with
    | none => none
    | some e =>
      let v : Rat := ((digitsVal ip : Nat) + (digitsVal f.1 : Nat) / ((10 ^ f.1.length : Nat) : Rat)) * pow10z e
      some (if p.1 then -v else v)

/-- `Num(s)` where `IsNum(s)`: `int(s)` first, then `float(s)` -/
def pyNum (s : List Char) : Option Num :=
  match pyIntOf s with
  | some i => some (.int i)
  | none => (pyFloatOf s).map .float

def Num.toVal : Num → PyVal
  | .int i => .int i
  | .float q => .float q

/-! ### GetArg -/

/-- `str.split(sep)` for a one-character separator (always at least one piece) -/
def splitOnChar (sep : Char) : List Char → List (List Char)
  | [] => [[]]
  | c :: cs =>
    if c == sep then [] :: splitOnChar sep cs
    else match splitOnChar sep cs with
      | [] => [[c]]
      | h :: t => (c :: h) :: t

def removeBrackets (s : List Char) : List Char := s.filter fun c => !(c == '[' || c == ']')

/-- `str.split(...)` at every character satisfying `p` (always at least one piece) -/
def splitOnP (p : Char → Bool) : List Char → List (List Char)
  | [] => [[]]
  | c :: cs =>
    if p c then [] :: splitOnP p cs
    else match splitOnP p cs with
      | [] => [[c]]
      | h :: t => (c :: h) :: t

/-- separators of `_ListItems`: a comma (replaced by a blank) or `str.split()` whitespace -/
def isItemSep (c : Char) : Bool := c == ',' || isReSpace c

/-- `_ListItems`: brackets removed, `s.replace(",", " ").split()` — the nonempty pieces
    between runs of commas and whitespace -/
def listItems (s : List Char) : List (List Char) :=
  (splitOnP isItemSep (removeBrackets s)).filter fun e => !e.isEmpty

/-- `s.startswith("[") and s.endswith("]")` -/
def isBracketed (s : List Char) : Bool := s.head? == some '[' && s.getLast? == some ']'

/-- `IsListofNums`: more than one item, or a bracketed text of any length; all items numbers -/
def isListOfNums (s : List Char) : Bool :=
  let l := listItems s
  (1 < l.length || isBracketed s) && l.all fun e => (pyNum e).isSome

/-- `ListofNums` -/
def listOfNums (s : List Char) : List Num := (listItems s).filterMap pyNum

/-- `GetArg`: bool, number, None, space-separated number list, otherwise `s[1:-1]` -/
def getArg (s : List Char) : PyVal :=
  if s = "True".toList then .bool true
  else if s = "False".toList then .bool false
  else match pyNum s with
    | some n => n.toVal
    | none =>
      if s = "None".toList then .none
      else if isListOfNums s then .list (listOfNums s)
      else .str (String.ofList (s.drop 1).dropLast)

/-! ### GetParams -/

inductive Item where
  | pos (k : List Char)
  | kw (k v : List Char)
  deriving DecidableEq, Repr

/-- `[0-9eE+\-.,\s]`: what may stand between the brackets of a number list -/
def numListChar (c : Char) : Bool :=
  isDig c || c == 'e' || c == 'E' || c == '+' || c == '-' || c == '.' || c == ',' || isReSpace c

/-- the text after a `[` completes the pattern `\[[0-9eE+\-.,\s]*\]` -/
def closesList (t : List Char) : Bool := (t.dropWhile numListChar).head? == some ']'

/-- greedy match of `(?:\[[0-9eE+\-.,\s]*\]|<class p>)*` at the head of the text:
    `(matched, rest)`.  First argument: inside a bracketed list (whose `]` is known to follow). -/
def scanTok (p : Char → Bool) : Bool → List Char → List Char × List Char
  | _, [] => ([], [])
  | true, c :: t => let r := scanTok p (c != ']') t; (c :: r.1, r.2)
  | false, c :: t =>
    if c == '[' && closesList t then let r := scanTok p true t; (c :: r.1, r.2)
    else if p c then let r := scanTok p false t; (c :: r.1, r.2)
    else ([], c :: t)

/-- prepend a character to the first segment -/
def consSeg (c : Char) : Option (List (List Char)) → Option (List (List Char))
  | some (seg :: segs) => some ((c :: seg) :: segs)
  | _ => none

/-- a comma opens a new segment, any other character joins the first segment -/
def stepSeg (c : Char) : Option (List (List Char)) → Option (List (List Char))
  | some (seg :: segs) => if c == ',' then some ([] :: seg :: segs) else some ((c :: seg) :: segs)
  | _ => none

/-- text up to the first `)` cut at commas, both outside a bracketed number list;
    `none` when there is no such `)`.  First argument: inside a bracketed list. -/
def splitBody : Bool → List Char → Option (List (List Char))
  | _, [] => none
  | true, c :: cs => consSeg c (splitBody (c != ']') cs)
  | false, c :: cs =>
    if c == '[' && closesList cs then consSeg c (splitBody true cs)
    else if c == ')' then some [[]]
    else stepSeg c (splitBody false cs)

/-- one `Group(Regex("(?:L|[^=,)\s])+") + Optional("=" + Regex("(?:L|[^,)])*")))` with whitespace
    skipping (inside a segment the value pattern runs to the end of the segment) -/
def parseSeg (seg : List Char) : Option Item :=
  let s1 := seg.dropWhile isWs
  let kr := scanTok keyChar false s1
  let r1 := kr.2.dropWhile isWs
  if kr.1.isEmpty then none
  else match r1 with
    | [] => some (.pos kr.1)
    | c :: v => if c == '=' then some (.kw kr.1 (v.dropWhile isWs)) else none

def mapOpt {α β : Type} (f : α → Option β) : List α → Option (List β)
  | [] => some []
  | a :: t => match f a, mapOpt f t with
    | some b, some bs => some (b :: bs)
    | _, _ => none

/-- `data.parseString(s).asList()` on the text after the opening parenthesis -/
def parseItems (body : List Char) : Except Err (List Item) :=
  match splitBody false body with
  | none => .error .parseException
  | some segs =>
    if segs.length == 1 && segs.all (fun s => s.all isWs) then .ok []
    else match mapOpt parseSeg segs with
      | none => .error .parseException
      | some items => .ok items

/-- a positional item directly after a keyword item -/
def badOrder : List Item → Bool
  | [] => false
  | [_] => false
  | a :: b :: rest =>
    (match a, b with
     | .kw _ _, .pos _ => true
     | _, _ => false) || badOrder (b :: rest)

/-- Python dict insertion: a repeated key keeps its first position and takes the last value
    (a repeated keyword is rejected afterwards, see `hasDup`) -/
def dictInsert (d : Env) (k : String) (v : PyVal) : Env :=
  if d.keys.contains k then d.set k v else d ++ [(k, v)]

def itemArgs : List Item → List PyVal
  | [] => []
  | .pos k :: t => getArg k :: itemArgs t
  | .kw _ _ :: t => itemArgs t

/-- `{i[0]: GetArg(i[1].strip()) …}` -/
def itemKwargs (d : Env) : List Item → Env
  | [] => d
  | .pos _ :: t => itemKwargs d t
  | .kw k v :: t => itemKwargs (dictInsert d (String.ofList k) (getArg (stripWs v))) t

/-- the keywords in order of appearance -/
def itemKeys : List Item → List (List Char)
  | [] => []
  | .pos _ :: t => itemKeys t
  | .kw k _ :: t => k :: itemKeys t

/-- `keywords.count(k) > 1` for some keyword -/
def hasDup : List (List Char) → Bool
  | [] => false
  | k :: t => t.contains k || hasDup t

/-- `str.expandtabs()` from a given column: pyparsing's `parseString` expands tabs before it
    matches anything (tab stops every 8 columns, the column restarts after a line break) -/
def expandTabsFrom : Nat → List Char → List Char
  | _, [] => []
  | col, c :: cs =>
    if c == '\t' then List.replicate (8 - col % 8) ' ' ++ expandTabsFrom (col + (8 - col % 8)) cs
    else if c == '\n' || c == '\r' then c :: expandTabsFrom 0 cs
    else c :: expandTabsFrom (col + 1) cs

/-- `GetParams("(" + body)` (the body starts in column 1, after the parenthesis) -/
def getParams (body : List Char) : Except Err (List PyVal × Env) :=
  match parseItems (expandTabsFrom 1 body) with
  | .error e => .error e
  | .ok items =>
    if badOrder items then .error .syntaxError
    else if hasDup (itemKeys items) then .error .syntaxError
    else .ok (itemArgs items, itemKwargs [] items)

/-- what `safe_eval` extracts from the text before it calls anything -/
structure Call where
  name : String
  args : List PyVal
  kwargs : Env
  /-- the text had exactly one `(`: the resolved object is called with the arguments -/
  called : Bool
  deriving DecidableEq, Repr

/-- `safe_eval` up to the call: `eval_str.split("(")`; exactly two pieces ⇒ `GetParams`,
    otherwise no arguments at all -/
def parseCall (s : List Char) : Except Err Call :=
  match splitOnChar '(' s with
  | [name, body] =>
    (match getParams body with
     | .error e => .error e
     | .ok r => .ok ⟨String.ofList name, r.1, r.2, true⟩)
  | name :: _ => .ok ⟨String.ofList name, [], [], false⟩
  | [] => .ok ⟨"", [], [], false⟩

/-- `for k in kwparams: kwargs[k] = kwparams[k]` — the keyword overrides of `safe_eval` written
    over the keywords of the text, in order (dict update: an existing key keeps its position) -/
def overrideKw (d : Env) : Env → Env
  | [] => d
  | (k, v) :: t => overrideKw (dictInsert d k v) t

/-- `safe_eval(text, table, *params, **kwparams)` up to the call: the arguments of the text, the
    extra positionals appended, the keyword overrides written over the keywords of the text; the
    resolved object is called when the text had its parenthesis or any argument is present.
    The arguments are built afresh from the text on every call: nothing a call receives or the
    caller does with the result is visible to a later call (the specification is stateless). -/
def parseCallWith (s : List Char) (params : List PyVal) (kw : Env) : Except Err Call :=
  match parseCall s with
  | .error e => .error e
  | .ok c =>
    let args := c.args ++ params
    let kwargs := overrideKw c.kwargs kw
    .ok ⟨c.name, args, kwargs, c.called || !args.isEmpty || !kwargs.isEmpty⟩

/-- one request of a history: a text with its overrides -/
structure Request where
  text : List Char
  params : List PyVal
  kw : Env
  deriving DecidableEq, Repr

def answer (r : Request) : Except Err Call := parseCallWith r.text r.params r.kw

/-- a history of requests in one process: every request is answered from its own text -/
def runSession (rs : List Request) : List (Except Err Call) := rs.map answer

/-- `get_quantizer(str)` for names of registered quantizer classes (other names of the module
    — plain functions such as `hard_sigmoid` — and Keras activations are opaque lookups) -/
def safeEval (s : List Char) : Except Err Q :=
  match parseCall s with
  | .error e => .error e
  | .ok c =>
    match lookup c.name with
    | none => .error .unknownName
    | some cls => construct cls c.args c.kwargs

/-! ### the literal grammar: syntax tree, text, Python value -/

/-- number literals (the elements of a list literal).  Digits are characters `'0'..'9'`. -/
inductive NumLit where
  | int (neg : Bool) (ds : List Char)
  /-- `[-] ip . fp [e [-] ex]` -/
  | float (neg : Bool) (ip fp : List Char) (ex : Option (Bool × List Char))
  deriving DecidableEq, Repr

/-- Python literals of the property's grammar. -/
inductive Lit where
  | none
  | bool (b : Bool)
  | int (neg : Bool) (ds : List Char)
  /-- `[-] ip . fp [e [-] ex]` -/
  | float (neg : Bool) (ip fp : List Char) (ex : Option (Bool × List Char))
  /-- quoted string; `dq` = double quotes -/
  | str (dq : Bool) (cs : List Char)
  /-- list of numbers `[a,b,…]` -/
  | list (ns : List NumLit)
  /-- list of numbers in the form `str(numpy.ndarray)` prints — what `__str__` emits for an
      array-valued option: `pre` blanks, then every item followed by its number of blanks (at
      least one between two items), no commas.  Not Python syntax (`wf` is false); it denotes
      the list of its items. -/
  | blist (pre : Nat) (ns : List (NumLit × Nat))
  deriving DecidableEq, Repr

def NumLit.toLit : NumLit → Lit
  | .int neg ds => .int neg ds
  | .float neg ip fp ex => .float neg ip fp ex

def joinComma : List (List Char) → List Char
  | [] => []
  | [a] => a
  | a :: b :: t => a ++ ',' :: joinComma (b :: t)

def signText (neg : Bool) : List Char := if neg then ['-'] else []

def expText : Option (Bool × List Char) → List Char
  | Option.none => []
  | some (eneg, ds) => 'e' :: (signText eneg ++ ds)

def quoteChar (dq : Bool) : Char := if dq then '"' else '\''

def NumLit.text : NumLit → List Char
  | .int neg ds => signText neg ++ ds
  | .float neg ip fp ex => signText neg ++ (ip ++ '.' :: (fp ++ expText ex))

def blanks (k : Nat) : List Char := List.replicate k ' '

/-- the items of a blank-separated list, each followed by its blanks -/
def bbody : List (NumLit × Nat) → List Char
  | [] => []
  | (n, g) :: t => n.text ++ (blanks g ++ bbody t)

/-- at least one blank between two items -/
def gapsOK : List (NumLit × Nat) → Bool
  | [] => true
  | [_] => true
  | (_, g) :: b :: t => decide (1 ≤ g) && gapsOK (b :: t)

def Lit.text : Lit → List Char
  | .none => "None".toList
  | .bool true => "True".toList
  | .bool false => "False".toList
  | .int neg ds => signText neg ++ ds
  | .float neg ip fp ex => signText neg ++ (ip ++ '.' :: (fp ++ expText ex))
  | .str dq cs => quoteChar dq :: (cs ++ [quoteChar dq])
  | .list ns => '[' :: (joinComma (ns.map NumLit.text) ++ [']'])
  | .blist pre ns => '[' :: ((blanks pre ++ bbody ns) ++ [']'])

def signed (neg : Bool) (n : Nat) : Int := if neg then -(n : Int) else (n : Int)

/-- the exact decimal value of `[-] ip . fp [e [-] ex]` -/
def floatVal (neg : Bool) (ip fp : List Char) (ex : Option (Bool × List Char)) : Rat :=
  let e : Int := match ex with
    | Option.none => 0
    | some (eneg, ds) => signed eneg (digitsVal ds)
  let v : Rat := ((digitsVal ip : Nat) + (digitsVal fp : Nat) / ((10 ^ fp.length : Nat) : Rat)) * pow10z e
  if neg then -v else v

/-- Python's reading of a number literal -/
def NumLit.num : NumLit → Num
  | .int neg ds => .int (signed neg (digitsVal ds))
  | .float neg ip fp ex => .float (floatVal neg ip fp ex)

/-- Python's own reading of the literal (floats: the exact decimal value) -/
def Lit.val : Lit → PyVal
  | .none => .none
  | .bool b => .bool b
  | .int neg ds => .int (signed neg (digitsVal ds))
  | .float neg ip fp ex => .float (floatVal neg ip fp ex)
  | .str _ cs => .str (String.ofList cs)
  | .list ns => .list (ns.map NumLit.num)
  | .blist _ ns => .list (ns.map fun p => p.1.num)

/-- characters allowed inside a quoted string of the grammar -/
def strChar (c : Char) : Bool :=
  keyChar c && !(c == '(' || c == '\'' || c == '"' || c == '\\')

/-- readable number literal: nonempty digit strings (leading zeros allowed: `int("08")` is 8),
    possibly empty fraction digits (`2.`) -/
def NumLit.rd : NumLit → Bool
  | .int _ ds => allDigits ds
  | .float _ ip fp ex =>
    -- the fraction digits may be empty: `2.` is a Python float literal, and what numpy prints
    allDigits ip && fp.all isDig &&
      (match ex with
       | Option.none => true
       | some (_, ds) => allDigits ds)

/-- Python rejects a leading zero in a decimal integer (part) of more than one digit -/
def noLeadingZero (ds : List Char) : Bool := ds.length == 1 || ds.head? != some '0'

def NumLit.wf : NumLit → Bool
  | .int neg ds => (NumLit.int neg ds).rd && noLeadingZero ds
  | .float neg ip fp ex => (NumLit.float neg ip fp ex).rd && noLeadingZero ip

/-- readable literal: everything the parser lemmas need (digit strings nonempty, string
    contents over the alphabet, list elements readable numbers) -/
def Lit.rd : Lit → Bool
  | .none => true
  | .bool _ => true
  | .int neg ds => (NumLit.int neg ds).rd
  | .float neg ip fp ex => (NumLit.float neg ip fp ex).rd
  | .str _ cs => cs.all strChar
  | .list ns => ns.all NumLit.rd
  | .blist _ ns => (ns.all fun p => p.1.rd) && gapsOK ns

/-- well-formed literal (Python accepts the text and reads it as `val`): readable, and no
    leading zero in an integer (part) -/
def Lit.wf : Lit → Bool
  | .int neg ds => (NumLit.int neg ds).wf
  | .float neg ip fp ex => (NumLit.float neg ip fp ex).wf
  | .list ns => ns.all NumLit.wf
  | .blist _ _ => false
  | l => l.rd

/-- one argument of a call -/
inductive Arg where
  | pos (l : Lit)
  | kw (k : String) (l : Lit)
  deriving DecidableEq, Repr

/-- ASCII letter, digit or underscore -/
def identChar (c : Char) : Bool :=
  (48 ≤ c.toNat && c.toNat ≤ 57) || (65 ≤ c.toNat && c.toNat ≤ 90) ||
    (97 ≤ c.toNat && c.toNat ≤ 122) || c.toNat == 95

/-- reserved words of Python 3 (not usable as a function or keyword-argument name) -/
def pyKeywords : List String :=
  ["False", "None", "True", "and", "as", "assert", "async", "await", "break", "class", "continue",
   "def", "del", "elif", "else", "except", "finally", "for", "from", "global", "if", "import", "in",
   "is", "lambda", "nonlocal", "not", "or", "pass", "raise", "return", "try", "while", "with", "yield"]

def isIdentText : List Char → Bool
  | [] => false
  | c :: cs => !isDig c && identChar c && cs.all identChar

/-- Python identifier (ASCII): nonempty, identifier characters, not starting with a digit,
    not a reserved word -/
def isIdent (k : String) : Bool := !pyKeywords.contains k && isIdentText k.toList

def Arg.text : Arg → List Char
  | .pos l => l.text
  | .kw k l => k.toList ++ '=' :: l.text

def Arg.wf : Arg → Bool
  | .pos l => l.wf
  | .kw k l => isIdent k && l.wf

def Arg.rd : Arg → Bool
  | .pos l => l.rd
  | .kw k l => isIdent k && l.rd

/-- the call expression `name(arg, …, k=arg, …)` -/
def render (name : String) (as : List Arg) : List Char :=
  name.toList ++ '(' :: (joinComma (as.map Arg.text) ++ [')'])

def argVals : List Arg → List PyVal
  | [] => []
  | .pos l :: t => l.val :: argVals t
  | .kw _ _ :: t => argVals t

def argKwargs : List Arg → Env
  | [] => []
  | .pos _ :: t => argKwargs t
  | .kw k l :: t => (k, l.val) :: argKwargs t

def argKeys (as : List Arg) : List String := (argKwargs as).map Prod.fst

/-- a positional argument directly after a keyword argument -/
def argBadOrder : List Arg → Bool
  | [] => false
  | [_] => false
  | a :: b :: rest =>
    (match a, b with
     | .kw _ _, .pos _ => true
     | _, _ => false) || argBadOrder (b :: rest)

def Arg.isPos : Arg → Bool
  | .pos _ => true
  | .kw _ _ => false

/-- positional argument anywhere after a keyword argument (Python's rule) -/
def argPosAfterKw : List Arg → Bool
  | [] => false
  | .pos _ :: t => argPosAfterKw t
  | .kw _ _ :: t => t.any Arg.isPos || argPosAfterKw t

/-- Python's reading of the call expression: `SyntaxError` for a positional argument after a
    keyword argument or a repeated keyword, otherwise the positional values in order and the
    keyword values by name -/
def pyCall (name : String) (as : List Arg) : Except Err Call :=
  if argPosAfterKw as then .error .syntaxError
  else if (argKeys as).Nodup then .ok ⟨name, argVals as, argKwargs as, true⟩
  else .error .syntaxError

end QKV.Py
