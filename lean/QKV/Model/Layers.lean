/-
  QKV.Model.Layers — ABSTRACT model of the quantized layers (property C11).

  A layer is a *term* over primitive tensor operations; quantizer applications and activation
  functions are uninterpreted function symbols (`Term.quant slot _`, `Term.actv slot _`).
  `qlayer cls cfg` transcribes the `call` method of the qkeras class as written in
      qkeras/qlayers.py        QDense.call (647-662), QActivation.call (179-180)
      qkeras/qconvolutional.py QConv1D.call (causal pad of the time axis in `call`, repaired in
                               6ddae0e), QConv2D.call (mask, groups), QSeparableConv1D.call (causal
                               pad, kernels quantized AS STORED and expanded afterwards, repaired in
                               871ddb1), QSeparableConv2D.call, QDepthwiseConv2D.call
      qkeras/qpooling.py       QAveragePooling2D.call  (avg(x*area) * Q(1/area)),
                               QGlobalAveragePooling2D.call (sum * Q(1/area))
      qkeras/qmac.py           QScaleShift.call
      qkeras/qrecurrent.py     QSimpleRNNCell.call, QLSTMCell.call, QGRUCell.call (both
                               `implementation`s, `reset_after`), inference mode (no dropout masks)
  and `kerasLayer cls cfg` transcribes the `call` of the stock tf_keras class
  (Dense, Conv1D/Conv2D = Conv.call, SeparableConv1D/2D, DepthwiseConv2D, AveragePooling2D,
   GlobalAveragePooling2D, SimpleRNNCell, LSTMCell, GRUCell) with `activation=None`
  for the feed-forward classes (the activation quantizer is applied outside, as the property says).

  The two transcriptions are written separately on purpose: the drop-in theorems of
  QKV.Props.C11 say that they agree, for EVERY interpretation of the primitives.

  Weight slots follow the Keras weight order of each class:
    dense / conv / depthwise / scale-shift : 0 kernel (weight), 1 bias
    separable                              : 0 depthwise, 1 pointwise, 2 bias
    recurrent cells                        : 0 kernel, 1 recurrent kernel, 2 bias, and
                                             quantizer slot 3 = state quantizer
    pooling                                : quantizer slot 0 = average_quantizer (applied to 1/area)
  Activation slots: 0 = `activation`, 1 = `recurrent_activation`.

  Core Lean only.
-/
namespace QKV.Layers

inductive Padding | valid | same | causal
  deriving DecidableEq, Repr, Inhabited

inductive DataFormat | channelsLast | channelsFirst
  deriving DecidableEq, Repr, Inhabited

/-- geometry of a convolution primitive (what is passed to `K.conv1d/conv2d/...`) -/
structure ConvGeom where
  strides : List Nat
  padding : Padding
  dilation : List Nat
  df : DataFormat
  deriving DecidableEq, Repr, Inhabited

structure PoolGeom where
  pool : Nat × Nat
  strides : Nat × Nat
  padding : Padding
  df : DataFormat
  deriving DecidableEq, Repr, Inhabited

/-- unary primitives -/
inductive Op1
  | expandDims (axis : Nat)                 -- array_ops.expand_dims(t, axis)
  | squeeze (axis : Nat)                    -- array_ops.squeeze(t, [axis])
  | padLeft (axis n : Nat)                  -- pad `n` zeros before axis `axis` (causal / temporal padding)
  | scale (c : Rat)                         -- t * <python scalar c>
  | avgPool2d (g : PoolGeom)                -- AveragePooling2D.call
  | sumHW (df : DataFormat) (keep : Bool)   -- K.sum(t, axis=[1,2] | [2,3], keepdims)
  | meanHW (df : DataFormat) (keep : Bool)  -- GlobalAveragePooling2D.call
  | cols (a : Nat) (b : Option Nat)         -- t[:, a:b]
  | vec (a : Nat) (b : Option Nat)          -- t[a:b]  (1-D)
  | split (n i : Nat)                       -- split(t, n, axis=last)[i]
  | splitUU (u i : Nat)                     -- split(t, [u, u, -1], axis=-1)[i]
  | unstack (i : Nat)                       -- unstack(t)[i]
  | oneMinus                                -- 1 - t
  | castFloatx                              -- K.cast_to_floatx
  | recipAreaHW (df : DataFormat)           -- python scalar `1.0 / (t.shape[h] * t.shape[w])` of THIS tensor
                                            --   (QGlobalAveragePooling2D.compute_pooling_area(inputs.shape))
  deriving DecidableEq, Repr

/-- binary primitives -/
inductive Op2
  | dot                                     -- K.dot
  | conv1d (g : ConvGeom)                   -- tf.nn.convolution on NWC (groups implied by the kernel shape)
  | conv2d (g : ConvGeom)                   -- K.conv2d / Conv.convolution_op (groups implied by the kernel shape)
  | depthwiseConv2d (g : ConvGeom)          -- K.depthwise_conv2d
  | biasAdd (df : DataFormat)               -- K.bias_add / tf.nn.bias_add
  | add
  | mul
  deriving DecidableEq, Repr

/-- ternary primitives -/
inductive Op3
  | separableConv2d (g : ConvGeom)          -- K.separable_conv2d(x, depthwise, pointwise)
  deriving DecidableEq, Repr

/-- layer terms -/
inductive Term
  | input                                   -- the layer input (cells: the input of this time step)
  | state (j : Nat)                         -- cells: j-th previous state
  | weight (i : Nat)                        -- i-th weight variable (Keras weight order)
  | mask                                    -- QConv2D's constant kernel mask
  | const (c : Rat)                         -- python scalar
  | quant (slot : Nat) (t : Term)           -- quantizer of slot `slot` applied
  | actv (slot : Nat) (t : Term)            -- activation function applied
  | op1 (o : Op1) (t : Term)
  | op2 (o : Op2) (a b : Term)
  | op3 (o : Op3) (a b c : Term)
  deriving DecidableEq, Repr

/-- an interpretation of the primitives over a carrier `T` (nothing is assumed about it) -/
structure Interp (T : Type) where
  const : Rat → T
  op1 : Op1 → T → T
  op2 : Op2 → T → T → T
  op3 : Op3 → T → T → T → T

/-- inputs, weights and the uninterpreted quantizer / activation functions -/
structure Env (T : Type) where
  x : T
  state : Nat → T
  weight : Nat → T
  mask : T
  quant : Nat → T → T
  actv : Nat → T → T

def eval {T : Type} (I : Interp T) (E : Env T) : Term → T
  | .input => E.x
  | .state j => E.state j
  | .weight i => E.weight i
  | .mask => E.mask
  | .const c => I.const c
  | .quant s t => E.quant s (eval I E t)
  | .actv s t => E.actv s (eval I E t)
  | .op1 o t => I.op1 o (eval I E t)
  | .op2 o a b => I.op2 o (eval I E a) (eval I E b)
  | .op3 o a b c => I.op3 o (eval I E a) (eval I E b) (eval I E c)

/-- every quantizer application in a term, outermost first, left to right: (slot, argument) -/
def quantSites : Term → List (Nat × Term)
  | .quant s t => (s, t) :: quantSites t
  | .actv _ t => quantSites t
  | .op1 _ t => quantSites t
  | .op2 _ a b => quantSites a ++ quantSites b
  | .op3 _ a b c => quantSites a ++ quantSites b ++ quantSites c
  | _ => []

/-- the term applies no quantizer -/
def quantFree (t : Term) : Bool := (quantSites t).isEmpty

/-! ## configuration -/

/-- everything of a layer's constructor arguments that `call` looks at -/
structure LCfg where
  hasQ : Nat → Bool          -- quantizer slot configured (`if self.kernel_quantizer:` …)
  hasAct : Bool := false     -- `self.activation is not None` (feed-forward classes)
  useBias : Bool := true
  hasMask : Bool := false    -- QConv2D mask
  conv : ConvGeom := default
  pool : PoolGeom := default
  kernel : Nat := 1          -- kernel_size[0] (1-D causal padding)
  units : Nat := 1
  impl : Nat := 1            -- recurrent `implementation` (1, else fused)
  resetAfter : Bool := false
  keepdims : Bool := false
  area : Nat := 1            -- pool area of QAveragePooling2D: prod(pool_size), a constructor constant.
                             --   (QGlobalAveragePooling2D does NOT read it: its area is a function of the
                             --    tensor of the current call, `Op1.recipAreaHW`)
  imageDF : DataFormat := .channelsLast
                             -- the process-wide `K.image_data_format()` AT CALL TIME.  Only `K.bias_add` without a
                             --   `data_format` argument falls back to it: the recurrent cells (qkeras and stock
                             --   alike, on rank-2 tensors).  No feed-forward `call` reads it: QDense passes
                             --   `data_format="channels_last"`, the conv / pooling layers pass `self.data_format`
                             --   (resolved by the constructor, field `conv.df` / `pool.df`).

inductive Cls
  | dense | activation | conv1d | conv2d | sepConv1d | sepConv2d | dwConv2d
  | avgPool2d | globalAvgPool2d | scaleShift
  deriving DecidableEq, Repr

inductive CellCls | simpleRNN | lstm | gru
  deriving DecidableEq, Repr

/-- `if self.<slot>_quantizer: q(w) else: w` -/
def qw (c : LCfg) (slot : Nat) (t : Term) : Term := if c.hasQ slot then .quant slot t else t

/-- `if self.activation is not None: return self.activation(outputs)` -/
def withAct (c : LCfg) (t : Term) : Term := if c.hasAct then .actv 0 t else t

def dil0 (g : ConvGeom) : Nat := g.dilation.headD 1

/-- `spatial_start_dim = 1 if self.data_format == 'channels_last' else 2` (1-D layers); also the axis
    that `Conv._compute_causal_padding` pads -/
def spatialStart (g : ConvGeom) : Nat := if g.df = .channelsLast then 1 else 2

/-- `K.conv1d` when it is GIVEN `padding == "causal"`: the backend function expands it into
    `temporal_padding(x, (dilation * (kernel_shape[0] - 1), 0))` followed by a `valid` convolution.
    `temporal_padding` pads AXIS 1 whatever the data format — under `channels_first` that is the
    channel axis.  QConv1D.call reached causal padding this way until /repo 6ddae0e
    (finding C11-conv1d-causal-channels-first); it now pads the time axis itself and hands `valid`
    to `K.conv1d`, so this expansion is no longer reached by any layer term — it is kept for the
    regression witness (`qConv1dBackendCausal` below). -/
def kConv1dOp (g : ConvGeom) (ksz : Nat) (x k : Term) : Term :=
  if g.padding = .causal then
    .op2 (.conv1d { g with padding := .valid }) (.op1 (.padLeft 1 (dil0 g * (ksz - 1))) x) k
  else .op2 (.conv1d g) x k

/-! ## the qkeras layers, as written -/

/-- QDense.call -/
def qDense (c : LCfg) : Term :=
  let k := qw c 0 (.weight 0)
  let out := Term.op2 .dot .input k
  let out := if c.useBias then .op2 (.biasAdd .channelsLast) out (qw c 1 (.weight 1)) else out
  withAct c out

/-- QActivation.call: `self.quantizer(inputs)` -/
def qActivation (_ : LCfg) : Term := .actv 0 .input

/-- QConv1D.call (both data formats: `data_format=self.data_format` goes to `K.conv1d` and `K.bias_add`).
    Causal padding (repaired in 6ddae0e): `call` pads the TIME axis of the inputs itself
    (`tf.pad`, `left_pad = dilation_rate[0] * (kernel_size[0] - 1)`, axis 1 under channels_last, axis 2
    under channels_first) and runs `K.conv1d` with `padding="valid"` — written independently of
    `kConv1d` (the stock `Conv.call` + `_compute_causal_padding`); the theorems say they agree. -/
def qConv1d (c : LCfg) : Term :=
  let k := qw c 0 (.weight 0)
  let out :=
    if c.conv.padding = .causal then
      Term.op2 (.conv1d { c.conv with padding := .valid })
        (.op1 (.padLeft (if c.conv.df = .channelsLast then 1 else 2) (dil0 c.conv * (c.kernel - 1))) .input) k
    else Term.op2 (.conv1d c.conv) .input k
  let out := if c.useBias then .op2 (.biasAdd c.conv.df) out (qw c 1 (.weight 1)) else out
  withAct c out

/-- QConv2D.call: the mask multiplies the QUANTIZED kernel; `groups > 1` only changes which
    (jit-compiled) wrapper of the same convolution is called -/
def qConv2d (c : LCfg) : Term :=
  let k := qw c 0 (.weight 0)
  let k := if c.hasMask then .op2 .mul k .mask else k
  let out := Term.op2 (.conv2d c.conv) .input k
  let out := if c.useBias then .op2 (.biasAdd c.conv.df) out (qw c 1 (.weight 1)) else out
  withAct c out

/-- geometry handed to `separable_conv2d` by the 1-D separable layers:
    `strides * 2`, `(1,) + dilation_rate`, causal → valid -/
def sep1dGeom (g : ConvGeom) : ConvGeom :=
  { strides := g.strides ++ g.strides
    padding := if g.padding = .causal then .valid else g.padding
    dilation := 1 :: g.dilation
    df := g.df }

/-- QSeparableConv1D.call (`spatial_start_dim` = 1 / 2; causal padding through the stock
    `_compute_causal_padding`, which pads the time axis of either format).  The quantizers see the
    kernels AS STORED; the quantized kernels are expanded to 4-D afterwards (repaired in 871ddb1; before,
    the kernels were expanded first and the quantizers saw the 4-D tensors: `qSepConv1dExpandFirst`). -/
def qSepConv1d (c : LCfg) : Term :=
  let x := if c.conv.padding = .causal then
             .op1 (.padLeft (spatialStart c.conv) (dil0 c.conv * (c.kernel - 1))) .input
           else Term.input
  let x := Term.op1 (.expandDims (spatialStart c.conv)) x
  let dk := Term.op1 (.expandDims 0) (qw c 0 (.weight 0))
  let pk := Term.op1 (.expandDims 0) (qw c 1 (.weight 1))
  let out := Term.op3 (.separableConv2d (sep1dGeom c.conv)) x dk pk
  let out := if c.useBias then .op2 (.biasAdd c.conv.df) out (qw c 2 (.weight 2)) else out
  let out := Term.op1 (.squeeze (spatialStart c.conv)) out
  withAct c out

/-- QSeparableConv2D.call -/
def qSepConv2d (c : LCfg) : Term :=
  let out := Term.op3 (.separableConv2d c.conv) .input (qw c 0 (.weight 0)) (qw c 1 (.weight 1))
  let out := if c.useBias then .op2 (.biasAdd c.conv.df) out (qw c 2 (.weight 2)) else out
  withAct c out

/-- QDepthwiseConv2D.call -/
def qDwConv2d (c : LCfg) : Term :=
  let out := Term.op2 (.depthwiseConv2d c.conv) .input (qw c 0 (.weight 0))
  let out := if c.useBias then .op2 (.biasAdd c.conv.df) out (qw c 1 (.weight 1)) else out
  withAct c out

/-- `1.0 / pool_area` of QAveragePooling2D (`pool_area = np.prod(self.pool_size)`) -/
def recip (c : LCfg) : Term := .const (1 / (c.area : Rat))

/-- `1.0 / self.compute_pooling_area(input_shape=inputs.shape)` of QGlobalAveragePooling2D: computed
    in `call` from the tensor of THIS call — nothing from `build` / an earlier call enters -/
def recipIn (c : LCfg) : Term := .op1 (.recipAreaHW c.pool.df) .input

/-- QAveragePooling2D.call: option #3 of its docstring -/
def qAvgPool2d (c : LCfg) : Term :=
  let x :=
    if c.hasQ 0 then
      Term.op2 .mul (.op1 (.avgPool2d c.pool) (.op1 (.scale (c.area : Rat)) .input))
        (.op1 .castFloatx (.quant 0 (recip c)))
    else .op1 (.avgPool2d c.pool) .input
  withAct c x

/-- QGlobalAveragePooling2D.call: pooling sum times the quantized reciprocal -/
def qGlobalAvgPool2d (c : LCfg) : Term :=
  let x :=
    if c.hasQ 0 then
      Term.op2 .mul (.op1 (.sumHW c.pool.df c.keepdims) .input) (.quant 0 (recipIn c))
    else .op1 (.meanHW c.pool.df c.keepdims) .input
  withAct c x

/-- QScaleShift.call -/
def qScaleShift (c : LCfg) : Term :=
  let out := Term.op2 .mul .input (qw c 0 (.weight 0))
  let out := if c.useBias then Term.op2 .add (qw c 1 (.weight 1)) out else out
  withAct c out

def qlayer : Cls → LCfg → Term
  | .dense => qDense
  | .activation => qActivation
  | .conv1d => qConv1d
  | .conv2d => qConv2d
  | .sepConv1d => qSepConv1d
  | .sepConv2d => qSepConv2d
  | .dwConv2d => qDwConv2d
  | .avgPool2d => qAvgPool2d
  | .globalAvgPool2d => qGlobalAvgPool2d
  | .scaleShift => qScaleShift

/-! ## the stock Keras layers (activation = None) -/

/-- Dense.call -/
def kDense (c : LCfg) : Term :=
  let out := Term.op2 .dot .input (.weight 0)
  if c.useBias then .op2 (.biasAdd .channelsLast) out (.weight 1) else out

/-- Conv.call for Conv1D: causal padding is applied to the inputs in `call`
    (`_compute_causal_padding`: left_pad = dilation_rate[0] * (kernel_size[0] - 1)), the
    convolution op then runs with VALID padding -/
def kConv1d (c : LCfg) : Term :=
  let x := if c.conv.padding = .causal then
             .op1 (.padLeft (spatialStart c.conv) (dil0 c.conv * (c.kernel - 1))) .input
           else Term.input
  let g := if c.conv.padding = .causal then { c.conv with padding := .valid } else c.conv
  let out := Term.op2 (.conv1d g) x (.weight 0)
  if c.useBias then .op2 (.biasAdd c.conv.df) out (.weight 1) else out

/-- Conv.call for Conv2D -/
def kConv2d (c : LCfg) : Term :=
  let out := Term.op2 (.conv2d c.conv) .input (.weight 0)
  if c.useBias then .op2 (.biasAdd c.conv.df) out (.weight 1) else out

/-- SeparableConv1D.call -/
def kSepConv1d (c : LCfg) : Term :=
  let x := if c.conv.padding = .causal then
             .op1 (.padLeft (spatialStart c.conv) (dil0 c.conv * (c.kernel - 1))) .input
           else Term.input
  let x := Term.op1 (.expandDims (spatialStart c.conv)) x
  let dk := Term.op1 (.expandDims 0) (.weight 0)
  let pk := Term.op1 (.expandDims 0) (.weight 1)
  let out := Term.op3 (.separableConv2d (sep1dGeom c.conv)) x dk pk
  let out := if c.useBias then .op2 (.biasAdd c.conv.df) out (.weight 2) else out
  .op1 (.squeeze (spatialStart c.conv)) out

/-- SeparableConv2D.call -/
def kSepConv2d (c : LCfg) : Term :=
  let out := Term.op3 (.separableConv2d c.conv) .input (.weight 0) (.weight 1)
  if c.useBias then .op2 (.biasAdd c.conv.df) out (.weight 2) else out

/-- DepthwiseConv2D.call -/
def kDwConv2d (c : LCfg) : Term :=
  let out := Term.op2 (.depthwiseConv2d c.conv) .input (.weight 0)
  if c.useBias then .op2 (.biasAdd c.conv.df) out (.weight 1) else out

def kAvgPool2d (c : LCfg) : Term := .op1 (.avgPool2d c.pool) .input
def kGlobalAvgPool2d (c : LCfg) : Term := .op1 (.meanHW c.pool.df c.keepdims) .input

/-- reference of QScaleShift (there is no stock class): `bias + x * weight` -/
def kScaleShift (c : LCfg) : Term :=
  let out := Term.op2 .mul .input (.weight 0)
  if c.useBias then .op2 .add (.weight 1) out else out

def kerasLayer : Cls → LCfg → Term
  | .dense => kDense
  | .activation => fun _ => .input
  | .conv1d => kConv1d
  | .conv2d => kConv2d
  | .sepConv1d => kSepConv1d
  | .sepConv2d => kSepConv2d
  | .dwConv2d => kDwConv2d
  | .avgPool2d => kAvgPool2d
  | .globalAvgPool2d => kGlobalAvgPool2d
  | .scaleShift => kScaleShift

/-! ## recurrent cells.  A cell is the list of its new-state terms; the output is new state 0. -/

def u1 (c : LCfg) : Nat := c.units
def u2 (c : LCfg) : Nat := c.units * 2
def u3 (c : LCfg) : Nat := c.units * 3

/-- `K.bias_add(a, b)` WITHOUT a `data_format` argument (the cells, qkeras and stock): falls back to the
    process-wide `K.image_data_format()` of the moment of the call -/
def bAdd (c : LCfg) (a b : Term) : Term := .op2 (.biasAdd c.imageDF) a b
def tAdd (a b : Term) : Term := .op2 .add a b
def tMul (a b : Term) : Term := .op2 .mul a b
def tDot (a b : Term) : Term := .op2 .dot a b

/-- QSimpleRNNCell.call -/
def qSimpleRNNCell (c : LCfg) : List Term :=
  let prev := Term.state 0
  let qprev := qw c 3 prev
  let k := qw c 0 (.weight 0)
  let h := tDot .input k
  let h := if c.useBias then bAdd c h (qw c 2 (.weight 2)) else h
  let r := qw c 1 (.weight 1)
  let out := tAdd h (tDot qprev r)
  [.actv 0 out]

/-- SimpleRNNCell.call -/
def kSimpleRNNCell (c : LCfg) : List Term :=
  let h := tDot .input (.weight 0)
  let h := if c.useBias then bAdd c h (.weight 2) else h
  let out := tAdd h (tDot (.state 0) (.weight 1))
  [.actv 0 out]

/-- QLSTMCell.call (+ `_compute_carry_and_output[_fused]`) -/
def qLSTMCell (c : LCfg) : List Term :=
  let cPrev := qw c 3 (.state 1)
  let hPrev := qw c 3 (.state 0)
  let qk := qw c 0 (.weight 0)
  let qr := qw c 1 (.weight 1)
  let qb := qw c 2 (.weight 2)
  let co : Term × Term :=
    if c.impl = 1 then
      let xg (g : Nat) : Term :=
        let x := tDot .input (.op1 (.split 4 g) qk)
        if c.useBias then bAdd c x (.op1 (.split 4 g) qb) else x
      let i := Term.actv 1 (tAdd (xg 0) (tDot hPrev (.op1 (.cols 0 (some (u1 c))) qr)))
      let f := Term.actv 1 (tAdd (xg 1) (tDot hPrev (.op1 (.cols (u1 c) (some (u2 c))) qr)))
      let cc := tAdd (tMul f cPrev)
        (tMul i (.actv 0 (tAdd (xg 2) (tDot hPrev (.op1 (.cols (u2 c) (some (u3 c))) qr)))))
      let o := Term.actv 1 (tAdd (xg 3) (tDot hPrev (.op1 (.cols (u3 c) none) qr)))
      (cc, o)
    else
      let z := tDot .input qk
      let z := tAdd z (tDot hPrev qr)
      let z := if c.useBias then bAdd c z qb else z
      let zg (g : Nat) : Term := .op1 (.split 4 g) z
      let i := Term.actv 1 (zg 0)
      let f := Term.actv 1 (zg 1)
      let cc := tAdd (tMul f cPrev) (tMul i (.actv 0 (zg 2)))
      let o := Term.actv 1 (zg 3)
      (cc, o)
  let h := tMul co.2 (.actv 0 co.1)
  [h, co.1]

/-- LSTMCell.call -/
def kLSTMCell (c : LCfg) : List Term :=
  let cPrev := Term.state 1
  let hPrev := Term.state 0
  let co : Term × Term :=
    if c.impl = 1 then
      let xg (g : Nat) : Term :=
        let x := tDot .input (.op1 (.split 4 g) (.weight 0))
        if c.useBias then bAdd c x (.op1 (.split 4 g) (.weight 2)) else x
      let i := Term.actv 1 (tAdd (xg 0) (tDot hPrev (.op1 (.cols 0 (some (u1 c))) (.weight 1))))
      let f := Term.actv 1 (tAdd (xg 1) (tDot hPrev (.op1 (.cols (u1 c) (some (u2 c))) (.weight 1))))
      let cc := tAdd (tMul f cPrev)
        (tMul i (.actv 0 (tAdd (xg 2) (tDot hPrev (.op1 (.cols (u2 c) (some (u3 c))) (.weight 1))))))
      let o := Term.actv 1 (tAdd (xg 3) (tDot hPrev (.op1 (.cols (u3 c) none) (.weight 1))))
      (cc, o)
    else
      let z := tDot .input (.weight 0)
      let z := tAdd z (tDot hPrev (.weight 1))
      let z := if c.useBias then bAdd c z (.weight 2) else z
      let zg (g : Nat) : Term := .op1 (.split 4 g) z
      let i := Term.actv 1 (zg 0)
      let f := Term.actv 1 (zg 1)
      let cc := tAdd (tMul f cPrev) (tMul i (.actv 0 (zg 2)))
      let o := Term.actv 1 (zg 3)
      (cc, o)
  let h := tMul co.2 (.actv 0 co.1)
  [h, co.1]

/-- the gate equations shared by QGRUCell.call and GRUCell.call are NOT shared here: each is
    transcribed from its own source.  `kern`, `rec`, `bias` are the (possibly quantized) tensors. -/
def qGRUCell (c : LCfg) : List Term :=
  let h := qw c 3 (.state 0)
  let qk := qw c 0 (.weight 0)
  -- `else: quantized_recurrent = self.recurrent_kernel`  (repaired in 32aca3c; it was `self.kernel`)
  let qr := qw c 1 (.weight 1)
  let qb := qw c 2 (.weight 2)
  let inB := if c.resetAfter then Term.op1 (.unstack 0) qb else qb
  let recB := Term.op1 (.unstack 1) qb      -- only used when reset_after
  let hh_z : Term × Term :=
    if c.impl = 1 then
      let xz := tDot .input (.op1 (.cols 0 (some (u1 c))) qk)
      let xr := tDot .input (.op1 (.cols (u1 c) (some (u2 c))) qk)
      let xh := tDot .input (.op1 (.cols (u2 c) none) qk)
      let xz := if c.useBias then bAdd c xz (.op1 (.vec 0 (some (u1 c))) inB) else xz
      let xr := if c.useBias then bAdd c xr (.op1 (.vec (u1 c) (some (u2 c))) inB) else xr
      let xh := if c.useBias then bAdd c xh (.op1 (.vec (u2 c) none) inB) else xh
      let rz := tDot h (.op1 (.cols 0 (some (u1 c))) qr)
      let rr := tDot h (.op1 (.cols (u1 c) (some (u2 c))) qr)
      let rz := if c.resetAfter && c.useBias then bAdd c rz (.op1 (.vec 0 (some (u1 c))) recB) else rz
      let rr := if c.resetAfter && c.useBias then bAdd c rr (.op1 (.vec (u1 c) (some (u2 c))) recB) else rr
      let z := Term.actv 1 (tAdd xz rz)
      let r := Term.actv 1 (tAdd xr rr)
      let rh :=
        if c.resetAfter then
          let rh := tDot h (.op1 (.cols (u2 c) none) qr)
          let rh := if c.useBias then bAdd c rh (.op1 (.vec (u2 c) none) recB) else rh
          tMul r rh
        else tDot (tMul r h) (.op1 (.cols (u2 c) none) qr)
      (.actv 0 (tAdd xh rh), z)
    else
      let mx := tDot .input qk
      let mx := if c.useBias then bAdd c mx inB else mx
      let xz := Term.op1 (.split 3 0) mx
      let xr := Term.op1 (.split 3 1) mx
      let xh := Term.op1 (.split 3 2) mx
      let mi :=
        if c.resetAfter then
          let mi := tDot h qr
          if c.useBias then bAdd c mi recB else mi
        else tDot h (.op1 (.cols 0 (some (2 * c.units))) qr)
      let rz := Term.op1 (.splitUU c.units 0) mi
      let rr := Term.op1 (.splitUU c.units 1) mi
      let rh0 := Term.op1 (.splitUU c.units 2) mi
      let z := Term.actv 1 (tAdd xz rz)
      let r := Term.actv 1 (tAdd xr rr)
      let rh :=
        if c.resetAfter then tMul r rh0
        else tDot (tMul r h) (.op1 (.cols (2 * c.units) none) qr)
      (.actv 0 (tAdd xh rh), z)
  let z := hh_z.2
  [tAdd (tMul z h) (tMul (.op1 .oneMinus z) hh_z.1)]

/-- GRUCell.call -/
def kGRUCell (c : LCfg) : List Term :=
  let h := Term.state 0
  let inB := if c.resetAfter then Term.op1 (.unstack 0) (.weight 2) else .weight 2
  let recB := Term.op1 (.unstack 1) (.weight 2)
  let hh_z : Term × Term :=
    if c.impl = 1 then
      let xz := tDot .input (.op1 (.cols 0 (some (u1 c))) (.weight 0))
      let xr := tDot .input (.op1 (.cols (u1 c) (some (u2 c))) (.weight 0))
      let xh := tDot .input (.op1 (.cols (u2 c) none) (.weight 0))
      let xz := if c.useBias then bAdd c xz (.op1 (.vec 0 (some (u1 c))) inB) else xz
      let xr := if c.useBias then bAdd c xr (.op1 (.vec (u1 c) (some (u2 c))) inB) else xr
      let xh := if c.useBias then bAdd c xh (.op1 (.vec (u2 c) none) inB) else xh
      let rz := tDot h (.op1 (.cols 0 (some (u1 c))) (.weight 1))
      let rr := tDot h (.op1 (.cols (u1 c) (some (u2 c))) (.weight 1))
      let rz := if c.resetAfter && c.useBias then bAdd c rz (.op1 (.vec 0 (some (u1 c))) recB) else rz
      let rr := if c.resetAfter && c.useBias then bAdd c rr (.op1 (.vec (u1 c) (some (u2 c))) recB) else rr
      let z := Term.actv 1 (tAdd xz rz)
      let r := Term.actv 1 (tAdd xr rr)
      let rh :=
        if c.resetAfter then
          let rh := tDot h (.op1 (.cols (u2 c) none) (.weight 1))
          let rh := if c.useBias then bAdd c rh (.op1 (.vec (u2 c) none) recB) else rh
          tMul r rh
        else tDot (tMul r h) (.op1 (.cols (u2 c) none) (.weight 1))
      (.actv 0 (tAdd xh rh), z)
    else
      let mx := tDot .input (.weight 0)
      let mx := if c.useBias then bAdd c mx inB else mx
      let xz := Term.op1 (.split 3 0) mx
      let xr := Term.op1 (.split 3 1) mx
      let xh := Term.op1 (.split 3 2) mx
      let mi :=
        if c.resetAfter then
          let mi := tDot h (.weight 1)
          if c.useBias then bAdd c mi recB else mi
        else tDot h (.op1 (.cols 0 (some (2 * c.units))) (.weight 1))
      let rz := Term.op1 (.splitUU c.units 0) mi
      let rr := Term.op1 (.splitUU c.units 1) mi
      let rh0 := Term.op1 (.splitUU c.units 2) mi
      let z := Term.actv 1 (tAdd xz rz)
      let r := Term.actv 1 (tAdd xr rr)
      let rh :=
        if c.resetAfter then tMul r rh0
        else tDot (tMul r h) (.op1 (.cols (2 * c.units) none) (.weight 1))
      (.actv 0 (tAdd xh rh), z)
  let z := hh_z.2
  [tAdd (tMul z h) (tMul (.op1 .oneMinus z) hh_z.1)]

def qcell : CellCls → LCfg → List Term
  | .simpleRNN => qSimpleRNNCell
  | .lstm => qLSTMCell
  | .gru => qGRUCell

def kerasCell : CellCls → LCfg → List Term
  | .simpleRNN => kSimpleRNNCell
  | .lstm => kLSTMCell
  | .gru => kGRUCell

/-- one time step: the new states, given the previous states as a function of their index -/
def cellStep {T : Type} (I : Interp T) (E : Env T) (cell : List Term) (F : Nat → T) (x : T) : List T :=
  cell.map (eval I { E with x := x, state := F })

/-- previous states as a function (indices beyond the list fall back to the environment's own) -/
def stateFn {T : Type} (E : Env T) (S : List T) : Nat → T := fun j => S.getD j (E.state j)

/-- `K.rnn`: the states after each time step (inference, no mask, forward) -/
def runCell {T : Type} (I : Interp T) (E : Env T) (cell : List Term) : List T → List T → List (List T)
  | _, [] => []
  | S, x :: xs => let S' := cellStep I E cell (stateFn E S) x; S' :: runCell I E cell S' xs

/-- the reference recurrence of the property: the stock cell on the weights of `E`, every previous
    state passed through `sq` first -/
def runRef {T : Type} (I : Interp T) (E : Env T) (cell : List Term) (sq : T → T) :
    List T → List T → List (List T)
  | _, [] => []
  | S, x :: xs =>
    let S' := cellStep I E cell (fun j => sq (stateFn E S j)) x
    S' :: runRef I E cell sq S' xs

/-! ## `get_quantizers()` -/

/-- `self.quantizers` as built by `__init__`: one entry per slot, in slot order, `none` where the
    constructor argument was None.  (QActivation has no `get_quantizers`.) -/
def slotCount : Cls → Nat
  | .dense | .conv1d | .conv2d | .dwConv2d | .scaleShift => 2
  | .sepConv1d | .sepConv2d => 3
  | .avgPool2d | .globalAvgPool2d => 1
  | .activation => 0

def getQuantizers (cls : Cls) (c : LCfg) : List (Option Nat) :=
  (List.range (slotCount cls)).map fun s => if c.hasQ s then some s else none

/-- cells: `[kernel, recurrent, bias, state]` -/
def getQuantizersCell (_ : CellCls) (c : LCfg) : List (Option Nat) :=
  (List.range 4).map fun s => if c.hasQ s then some s else none

/-- the slots a term applies, in increasing slot (= weight) order, without repetition -/
def appliedSlots (n : Nat) (ts : List Term) : List Nat :=
  (List.range n).filter fun s => ts.any fun t => (quantSites t).any fun p => p.1 == s

/-- does slot `s` of class `cls` have a tensor to be applied to under `c`?  (the bias slot needs
    `use_bias`) -/
def slotLive (cls : Cls) (c : LCfg) (s : Nat) : Bool :=
  match cls with
  | .dense | .conv1d | .conv2d | .dwConv2d | .scaleShift => s = 0 || (s = 1 && c.useBias)
  | .sepConv1d | .sepConv2d => s = 0 || s = 1 || (s = 2 && c.useBias)
  | .avgPool2d | .globalAvgPool2d => s = 0
  | .activation => false

end QKV.Layers

namespace QKV.Layers

/-! ## the oracle of the property: the stock layer on pre-quantized weights -/

/-- weights replaced by the layer's quantizers applied to the same weights -/
def preEnv {T : Type} (c : LCfg) (E : Env T) : Env T :=
  { E with weight := fun i => if c.hasQ i then E.quant i (E.weight i) else E.weight i }

/-- "followed by the layer's activation quantizer" -/
def actOf {T : Type} (c : LCfg) (E : Env T) (v : T) : T := if c.hasAct then E.actv 0 v else v

/-- what a quantizer of slot `p.1` may be applied to: its own weight AS STORED (since 871ddb1 also in
    the 1-D separable layer), or — pooling — the reciprocal of the pool area (constructor constant for
    QAveragePooling2D, area of the current input for QGlobalAveragePooling2D) -/
def ownTarget (c : LCfg) (p : Nat × Term) : Bool :=
  p.2 == .weight p.1 || (p.1 == 0 && (p.2 == recip c || p.2 == recipIn c))

/-- cells: weight quantizers on their own weights, the state quantizer (slot 3) on previous states -/
def ownTargetCell (p : Nat × Term) : Bool :=
  (p.1 < 3 && p.2 == .weight p.1) || (p.1 == 3 && (p.2 == .state 0 || p.2 == .state 1))

/-- the reported list, restricted to the slots that are set and whose tensor exists
    (the bias entry is reported even when `use_bias=False`; nothing is applied then) -/
def reportedLive (cls : Cls) (c : LCfg) : List Nat :=
  ((getQuantizers cls c).filterMap id).filter (slotLive cls c)

def reportedLiveCell (cls : CellCls) (c : LCfg) : List Nat :=
  ((getQuantizersCell cls c).filterMap id).filter (fun s => s != 2 || c.useBias)

/-- the state quantizer of a recurrent cell (identity when none) -/
def stateQ {T : Type} (c : LCfg) (E : Env T) (v : T) : T := if c.hasQ 3 then E.quant 3 v else v

/-! ## one layer OBJECT over its life (histories)

Keras runs `build(input_shape)` once, on the first call; whatever a layer caches there (or in any
earlier call) is a function of the FIRST input it has seen.  A term that wants to talk about such a
cache uses `Term.state 0` for "the input of the first call of this object" (the feed-forward `call`
methods above never do; recurrent cells use `state` for their previous time step and are run through
`runCell`, which starts every call of the layer from the given initial states). -/

/-- the term mentions no `state` node: nothing but the configuration, the weights, the mask and the
    input of the current call enters its value -/
def buildFree : Term → Bool
  | .state _ => false
  | .quant _ t => buildFree t
  | .actv _ t => buildFree t
  | .op1 _ t => buildFree t
  | .op2 _ a b => buildFree a && buildFree b
  | .op3 _ a b c => buildFree a && buildFree b && buildFree c
  | _ => true

/-- successive calls `xs` of ONE layer object whose `call` is the term `t`: in every call `.input` is the
    input of that call and `.state _` the input of the object's first call (what `build` saw) -/
def objectCalls {T : Type} (I : Interp T) (E : Env T) (t : Term) : List T → List T
  | [] => []
  | x0 :: xs => (x0 :: xs).map fun x => eval I { E with x := x, state := fun _ => x0 } t

/-- a FRESH object per input: each built on, and called once with, its own input -/
def freshCalls {T : Type} (I : Interp T) (E : Env T) (t : Term) (xs : List T) : List T :=
  xs.map fun x => eval I { E with x := x, state := fun _ => x } t

/-- the seeded variant of QGlobalAveragePooling2D (seed C11-5): `build` stores
    `q(1 / area(build-time input))`, `call` multiplies the pooling sum of the CURRENT input with it -/
def qGlobalAvgPool2dBuildCached (c : LCfg) : Term :=
  withAct c (.op2 .mul (.op1 (.sumHW c.pool.df c.keepdims) .input)
    (.quant 0 (.op1 (.recipAreaHW c.pool.df) (.state 0))))

/-- QConv1D.call BEFORE /repo 6ddae0e: `padding=self.padding` went to `K.conv1d`, whose own expansion
    of `causal` pads axis 1 (`kConv1dOp`) -/
def qConv1dBackendCausal (c : LCfg) : Term :=
  let k := qw c 0 (.weight 0)
  let out := kConv1dOp c.conv c.kernel .input k
  let out := if c.useBias then .op2 (.biasAdd c.conv.df) out (qw c 1 (.weight 1)) else out
  withAct c out

/-- QSeparableConv1D.call BEFORE /repo 871ddb1: the kernels were expanded to 4-D FIRST and the
    quantizers saw the expanded tensors -/
def qSepConv1dExpandFirst (c : LCfg) : Term :=
  let x := if c.conv.padding = .causal then
             .op1 (.padLeft (spatialStart c.conv) (dil0 c.conv * (c.kernel - 1))) .input
           else Term.input
  let x := Term.op1 (.expandDims (spatialStart c.conv)) x
  let dk := Term.op1 (.expandDims 0) (.weight 0)
  let pk := Term.op1 (.expandDims 0) (.weight 1)
  let out := Term.op3 (.separableConv2d (sep1dGeom c.conv)) x (qw c 0 dk) (qw c 1 pk)
  let out := if c.useBias then .op2 (.biasAdd c.conv.df) out (qw c 2 (.weight 2)) else out
  let out := Term.op1 (.squeeze (spatialStart c.conv)) out
  withAct c out

/-- the seeded variant of QDense (seed C11-6): `K.bias_add(output, quantized_bias)` without the
    `data_format="channels_last"` argument follows the process-wide switch -/
def qDenseGlobalBias (c : LCfg) : Term :=
  let k := qw c 0 (.weight 0)
  let out := Term.op2 .dot .input k
  let out := if c.useBias then .op2 (.biasAdd c.imageDF) out (qw c 1 (.weight 1)) else out
  withAct c out

end QKV.Layers
