/-
  QKV.Model.F32 — IEEE-754 binary32 ("float32") as a subset of the exact rationals, the
  round-to-nearest-even map onto it, and the fixed-point quantizers of qkeras/quantizers.py
  transcribed OPERATION BY OPERATION with every arithmetic result rounded to binary32:

    quantized_bits.__call__    (`unsigned_bits > 0` branch; alpha None or constant;
                                qnoise_factor = 1, use_ste = True)          -> `qbitsF`
    quantized_relu.__call__    (negative_slope = 0, use_sigmoid = 0,
                                is_quantized_clip = True, qnoise_factor = 1) -> `qreluF`
    quantized_linear.__call__  (constant alpha, not the 1-bit sign function,
                                qnoise_factor = 1)                           -> `qlinearF`

  Conventions of the transcription
  * a finite binary32 value is the rational it denotes (−0 and +0 are both `0`); NaN / ±inf are
    not modelled: `rnd32` rounds as if the exponent range were unbounded above, so a result is
    meaningful only while `|result| < 2^128` (the theorems carry that as a hypothesis);
  * `K.pow(2.0, k)` for an integer-valued `k` is taken to return exactly `2^k` (trusted; the
    float32 tie of C01 checks it on every run);
  * negation, comparison, `tf.where`, `K.relu`, `K.clip` and `tf.round` are exact on binary32
    inputs (the result of `tf.round` is again binary32: `roundTie_isF32`), so only
    `+ − * /` get a `rnd32`.
  Core Lean only.
-/
import QKV.Model.FixedQ
namespace QKV

/-- `|q|` without Mathlib -/
def rabs (q : Rat) : Rat := if q < 0 then -q else q

/-- exponent of the unit in the last place of the binary32 binade that contains `q ≠ 0`:
    `max (⌊log2 |q|⌋ − 23) (−149)`  (−149 = exponent of the smallest subnormal) -/
def ulpExp (q : Rat) : Int := imax (floorLog2Rat (rabs q) - 23) (-149)

/-- `q` is an integer -/
def isIntR (q : Rat) : Bool := decide (((q.floor : Int) : Rat) = q)

/-- `q` is (the value of) a finite IEEE-754 binary32 number, normal or subnormal -/
def isF32 (q : Rat) : Bool :=
  decide (q = 0) || (decide (rabs q < pow2 128) && isIntR (q / pow2 (ulpExp q)))

/-- round to nearest binary32, ties to even (no overflow to infinity: see header) -/
def rnd32 (q : Rat) : Rat :=
  if q = 0 then 0 else ((roundTie .even (q / pow2 (ulpExp q)) : Int) : Rat) * pow2 (ulpExp q)

/-! float32 arithmetic: the exact result, rounded once (IEEE-754 correct rounding) -/
def fadd (a b : Rat) : Rat := rnd32 (a + b)
def fsub (a b : Rat) : Rat := rnd32 (a - b)
def fmul (a b : Rat) : Rat := rnd32 (a * b)
def fdiv (a b : Rat) : Rat := rnd32 (a / b)

/-- `tf.clip_by_value(x, lo, hi) = maximum(minimum(x, hi), lo)` (what `K.clip` calls) -/
def fclip (x lo hi : Rat) : Rat :=
  let y := if hi < x then hi else x
  if y < lo then lo else y

/-- `_round_through(p)` (deterministic): `p + stop_gradient(-p + tf.round(p))` -/
def roundThroughF (t : Tie) (p : Rat) : Rat :=
  fadd p (fadd (-p) ((roundTie t p : Int) : Rat))

/-- the straight-through return `x + stop_gradient(qnoise_factor * (-x + xq))`, qnoise_factor = 1 -/
def steF (x xq : Rat) : Rat := fadd x (fmul 1 (fadd (-x) xq))

def b2r (b : Bool) : Rat := if b then 1 else 0

/-- `quantized_bits.__call__`, `unsigned_bits > 0` branch, quantizers.py ll. 1433–1452:
```
  m = K.pow(2.0, unsigned_bits);  m_i = K.pow(2.0, integer)
  scale = 1.0 | alpha
  p  = x * m / m_i
  xq = m_i * K.clip(_round_through(p), keep_negative * (-m + symmetric), m - 1) / m
  xq = scale * xq
  return x + stop_gradient(qnoise_factor * (-x + xq))
``` -/
def qbitsF (t : Tie) (c : BitsCfg) (x : Rat) : Rat :=
  let m := pow2 c.ub
  let mi := pow2 c.integer
  let p := fdiv (fmul x m) mi
  let r := roundThroughF t p
  let lo := fmul (b2r c.keepNeg) (fadd (-m) (b2r c.symmetric))
  let hi := fsub m 1
  let xq0 := fdiv (fmul mi (fclip r lo hi)) m
  let xq := fmul (rnd32 c.gain) xq0
  steF x xq

/-- `quantized_relu.__call__` (negative_slope = 0, use_sigmoid = 0, is_quantized_clip):
```
  m = 2^non_sign_bits; m_i = 2^integer; m_f = 2^(integer - non_sign_bits)
  x_u = where(x <= m_i - m_f, relu(x), ones_like(x) * (m_i - m_f))
  p   = x * m / m_i
  xq  = m_i * K.clip(_round_through(p) / m, 0.0, 1.0 - 1.0 / m)
  return x_u + stop_gradient(qnoise_factor * (-x_u + xq))
``` -/
def qreluF (t : Tie) (c : ReluCfg) (x : Rat) : Rat :=
  let m := pow2 c.nsb
  let mi := pow2 c.integer
  let mf := pow2 (c.integer - c.nsb)
  let top := fsub mi mf
  let xu := if x ≤ top then (if x < 0 then 0 else x) else fmul 1 top
  let p := fdiv (fmul x m) mi
  let r := roundThroughF t p
  let xq := fmul mi (fclip (fdiv r m) 0 (fsub 1 (fdiv 1 m)))
  steF xu xq

/-- `quantization_scale`: `data_type_scale = K.pow(2.0, integer - bits + keep_negative)`, times
    the (float32-converted) constant `alpha` when one is given -/
def LinCfg.qsF (c : LinCfg) : Rat :=
  let dts := pow2 (c.integer - c.ub)
  match c.alpha with | none => dts | some a => fmul (rnd32 a) dts

/-- `quantized_linear.__call__`, constant scale, `use_sign_function = False` (shift = 0.0):
```
  quantization_scale = alpha * K.pow(2.0, integer - bits + keep_negative)
  clip_min = keep_negative * (-2^ub + symmetric);  clip_max = 2^ub - 1.0
  scaled_x = x / quantization_scale
  y  = K.clip(scaled_x, clip_min, clip_max) - shift
  scaled_xq = _round_through(y) + shift
  xq = scaled_xq * quantization_scale
  return x + qnoise_factor * (xq - x)
``` -/
def qlinearF (t : Tie) (c : LinCfg) (x : Rat) : Rat :=
  let u := pow2 c.ub
  let qs := c.qsF
  let lo := fmul (b2r c.keepNeg) (fadd (-u) (b2r c.symmetric))
  let hi := fsub u 1
  let s := fdiv x qs
  let y := fsub (fclip s lo hi) 0
  let sxq := fadd (roundThroughF t y) 0
  let xq := fmul sxq qs
  fadd x (fmul 1 (fsub xq x))

end QKV
