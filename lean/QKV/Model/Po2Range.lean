/-
  QKV.Model.Po2Range — the exponent range the REAL power-of-two quantizers emit
  (qkeras/quantizers.py: `_need_exponent_sign_bit_check`, `_get_min_max_exponents`,
  `quantized_po2.__init__`, `quantized_relu_po2.__init__`, `_clip_power_of_two`), to be compared
  with the range qtools derives from the converted record (`get_exp`).
  Defaults only: no quadratic approximation, no stochastic rounding, log2_rounding="rnd",
  negative_slope = 0.  Core Lean only.
-/
import QKV.Model.Basic
namespace QKV

/-- nearest integer to `log2 q` for positive rational `q` (no ties: `log2 q = e + 1/2` would make
    `q` irrational); `q < 2^(e+1/2)  ⟺  q² < 2^(2e+1)` -/
def roundLog2Rat (q : Rat) : Int :=
  let e := floorLog2Rat q
  if q * q < pow2 (2 * e + 1) then e else e + 1

/-- `(min_exp, max_exp)` of the values `±2^e` a po2 quantizer can emit.
    `isRelu`: quantized_relu_po2 (no sign bit for x), else quantized_po2.
    The input is first clipped to `max_value`, so the top exponent is also capped by
    `round(log2 max_value)`; an input below epsilon (incl. 0) maps to `2^min_exp`. -/
def po2RealRange (bits : Int) (isRelu : Bool) (maxValue : Option Rat) : Int × Int :=
  let nsb : Int := if isRelu then bits else bits - 1
  let need : Int := match maxValue with
    | none => 1
    | some m => if 1 < m then 1 else 0
  let eff := nsb - need
  let mn : Int := - ((2 ^ eff.toNat : Nat) : Int)
  let mx : Int := ((2 ^ eff.toNat : Nat) : Int) - 1
  match maxValue with
  | none => (mn, mx)
  | some m => if m ≤ 0 then (mn, mn) else (mn, imax mn (imin mx (roundLog2Rat m)))

end QKV
