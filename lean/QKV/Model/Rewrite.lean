/-
  QKV.Model.Rewrite — executable model of `qkeras.utils.model_quantize`'s JSON rewriting
  (qkeras/utils.py:416-450 and 684-1012).  Core Lean only.

  The Python code turns `json.loads(model.to_json())["config"]["layers"]` (a list of dicts)
  into the layer list of the quantized model, by in-place edits that depend on the caller's
  `quantizer_config` dictionary.  Here the same thing is a pure function

      rewrite : Flags → Dict → List PyVal → Except Err (List PyVal)

  over JSON-like Python values.  Every Python statement of the loop body is transcribed in
  order (defects included); Python exceptions are the `Err` results.  The model follows the
  repaired code: fix 01d6934 (ReLU keys of the original class) and the fix round's
  "Bidirectional only when selected", "q_name = None at the top of the loop body" and the
  dedicated SeparableConv1D/2D branch.  What is NOT here:
  `convert_to_folded_model` (its result — the folded model's layer list and `layers_to_fold` —
  is an input), `quantized_model_from_json` and the weight transfer (Keras runtime).
-/
namespace QKV.Rewrite

/-- a JSON-like Python value.  `num m e` is the JSON number `m · 10^(−e)`. -/
inductive PyVal where
  | none
  | bool (b : Bool)
  | num (m : Int) (e : Nat)
  | str (s : String)
  | list (xs : List PyVal)
  | dict (kvs : List (String × PyVal))
  deriving Inhabited

/-- a Python dict with string keys, insertion ordered -/
abbrev Dict := List (String × PyVal)

/-- the exception kinds the rewriting can raise -/
inductive Err where
  | keyError (k : String)
  | attributeError
  | typeError
  | assertionError
  | valueError
  | unboundLocal
  deriving DecidableEq, Repr, Inhabited

abbrev R := Except Err

/-! ## dict primitives -/

/-- `d.get(k)`; `none` = key absent -/
def dget : Dict → String → Option PyVal
  | [], _ => none
  | (k', v) :: r, k => if k' = k then some v else dget r k

/-- `d[k] = v` : replace in place, else append -/
def dset : Dict → String → PyVal → Dict
  | [], k, v => [(k, v)]
  | (k', v') :: r, k, v => if k' = k then (k, v) :: r else (k', v') :: dset r k v

/-- remove key `k` -/
def derase : Dict → String → Dict
  | [], _ => []
  | (k', v') :: r, k => if k' = k then derase r k else (k', v') :: derase r k

/-! ## Python operations on values -/

/-- `bool(v)` -/
def truthy : PyVal → Bool
  | .none => false
  | .bool b => b
  | .num m _ => decide (m ≠ 0)
  | .str s => decide (s ≠ "")
  | .list xs => !xs.isEmpty
  | .dict kvs => !kvs.isEmpty

/-- `v[k]` for a string key -/
def sub (v : PyVal) (k : String) : R PyVal :=
  match v with
  | .dict d => match dget d k with
    | some x => pure x
    | none => throw (.keyError k)
  | _ => throw .typeError

/-- `v[k] = x` -/
def setItem (v : PyVal) (k : String) (x : PyVal) : R PyVal :=
  match v with
  | .dict d => pure (.dict (dset d k x))
  | _ => throw .typeError

/-- `del v[k]` -/
def delItem (v : PyVal) (k : String) : R PyVal :=
  match v with
  | .dict d => match dget d k with
    | some _ => pure (.dict (derase d k))
    | none => throw (.keyError k)
  | _ => throw .typeError

/-- `d.get(key, dflt)` for an arbitrary key value: the dicts here have string keys only,
    so a hashable non-string key never matches; list / dict keys are unhashable. -/
def getV (d : Dict) (key : PyVal) (dflt : PyVal) : R PyVal :=
  match key with
  | .str s => pure ((dget d s).getD dflt)
  | .list _ => throw .typeError
  | .dict _ => throw .typeError
  | _ => pure dflt

/-- `hash(key)` succeeds -/
def hashable (key : PyVal) : R Unit :=
  match key with
  | .list _ => throw .typeError
  | .dict _ => throw .typeError
  | _ => pure ()

/-- `v > 0` -/
def gtZero (v : PyVal) : R Bool :=
  match v with
  | .num m _ => pure (decide (0 < m))
  | .bool b => pure b
  | _ => throw .typeError

/-- `layer["config"][k] = x` -/
def setCfg (l : PyVal) (k : String) (x : PyVal) : R PyVal := do
  let c ← sub l "config"
  let c' ← setItem c k x
  setItem l "config" c'

/-- `del layer["config"][k]` -/
def delCfg (l : PyVal) (k : String) : R PyVal := do
  let c ← sub l "config"
  let c' ← delItem c k
  setItem l "config" c'

/-- `layer["class_name"] = q` -/
def setCls (l : PyVal) (q : String) : R PyVal := setItem l "class_name" (.str q)

/-- `layer.pop("registered_name", None)` → (layer without the key, popped value) -/
def popReg (l : PyVal) : R (PyVal × PyVal) :=
  match l with
  | .dict d => pure (.dict (derase d "registered_name"), (dget d "registered_name").getD .none)
  | _ => throw .attributeError

/-! ## `quantize_activation` (utils.py:416-439) -/

def quantizeActivation (cfg : PyVal) (bits : String) : R PyVal :=
  match cfg with
  | .dict d =>
    match dget d "activation" with
    | none => pure cfg
    | some .none => pure cfg
    | some (.str a) =>
      if a = "linear" then pure cfg
      else if a = "relu" then pure (.dict (dset d "activation" (.str ("quantized_relu(" ++ bits ++ ")"))))
      else if a = "tanh" then pure (.dict (dset d "activation" (.str ("quantized_tanh(" ++ bits ++ ")"))))
      else if a = "sigmoid" then pure (.dict (dset d "activation" (.str ("quantized_sigmoid(" ++ bits ++ ")"))))
      else pure cfg
    | some _ => pure cfg      -- a_name = class name of a non-string JSON value: matches nothing
  | _ => throw .attributeError

/-- `quantize_activation(layer["config"], activation_bits)` (in place) -/
def quantActIn (l : PyVal) (bits : String) : R PyVal := do
  let c ← sub l "config"
  let c' ← quantizeActivation c bits
  setItem l "config" c'

/-! ## `get_config` (utils.py:442-450) -/

/-- second half of `get_config`: `quantizer.get(parameter, None)` when both are not None -/
def paramOf (entry : PyVal) (param : Option String) : R PyVal :=
  match param with
  | none => pure entry
  | some p =>
    match entry with
    | .none => pure .none
    | .dict kv => pure ((dget kv p).getD .none)
    | _ => throw .attributeError

/-- `get_config(quantizer_config, layer, layer_class, parameter)` -/
def getConfig (qc : Dict) (l : PyVal) (cls : String) (param : Option String) : R PyVal := do
  let cfg ← sub l "config"
  let nm ← sub cfg "name"
  let entry ← getV qc nm ((dget qc cls).getD .none)
  paramOf entry param

/-- a lookup function: class key → parameter → value (what `get_config` is for one layer) -/
abbrev Look := String → Option String → R PyVal

/-! ## string helpers of the QAdaptiveActivation path -/

/-- `re.sub(r"[^\d]", "", s)` (ASCII digits) -/
def digitsOnly (s : String) : List Char := s.toList.filter Char.isDigit

/-- `int(digits)`; empty → ValueError -/
def intOfDigits (cs : List Char) : R Int :=
  if cs.isEmpty then throw .valueError
  else pure (Int.ofNat (cs.foldl (fun n c => 10 * n + (c.toNat - 48)) 0))

/-- `re.sub(r"\(.*", "", s)` : `.` does not match a newline -/
def stripGo : Bool → List Char → List Char
  | _, [] => []
  | true, c :: r => if c = '\n' then c :: stripGo false r else stripGo true r
  | false, c :: r => if c = '(' then stripGo true r else c :: stripGo false r

def stripParams (s : String) : String := String.ofList (stripGo false s.toList)

/-! ## flags of one `model_quantize` call -/

structure Flags where
  /-- `str(activation_bits)` -/
  actBits : String
  preferAdaptive : Bool
  /-- `enable_bn_folding` after `convert_to_folded_model` (false when nothing folds) -/
  folding : Bool
  /-- `layers_to_fold` -/
  toFold : List String
  deriving Inhabited

/-- `v in layers_to_fold` -/
def Flags.inFold (F : Flags) (v : PyVal) : Bool :=
  match v with
  | .str s => decide (s ∈ F.toFold)
  | _ => false

/-- class name as a Python string operand of `"Q" + layer["class_name"]` -/
def strOf (v : PyVal) : R String :=
  match v with
  | .str s => pure s
  | _ => throw .typeError

/-- "If activation is present, add activation here": the configured `activation_quantizer`
    if truthy, else `quantize_activation` (same four lines in every weight-layer branch) -/
def actStep (look : Look) (qn : String) (bits : String) (l : PyVal) : R PyVal := do
  let aq ← look qn (some "activation_quantizer")
  if truthy aq then setCfg l "activation" aq else quantActIn l bits

/-- `if layer_config["use_bias"]: bias_quantizer = get_config(...) else: bias_quantizer = None` -/
def biasLook (look : Look) (qn : String) (ub : PyVal) : R PyVal :=
  if truthy ub then look qn (some "bias_quantizer") else pure .none

/-- the `registered_name` fix-up inside `quantize_rnn` (utils.py:724-726) -/
def rnnRegistered (qn : String) (l : PyVal) : R PyVal := do
  let (l, reg) ← popReg l
  if truthy reg then setItem l "registered_name" (.str qn) else pure l

/-- "If recurrent activation is present, add activation here." (utils.py:716-721) -/
def recActStep (look : Look) (cn qn : String) (l : PyVal) : R PyVal :=
  if cn = "LSTM" ∨ cn = "GRU" then do
    let ra ← look qn (some "recurrent_activation_quantizer")
    if truthy ra then setCfg l "recurrent_activation" ra else pure l
  else pure l

/-- tail of `quantize_rnn` once the kernel quantizer is known to be not None (703-726) -/
def rnnApply (look : Look) (bits : String) (cn qn : String) (kq rq bq sq : PyVal) (l : PyVal) : R PyVal := do
  let l ← setCfg l "kernel_quantizer" kq
  let l ← setCfg l "recurrent_quantizer" rq
  let l ← setCfg l "bias_quantizer" bq
  let l ← setCfg l "state_quantizer" sq
  let l ← actStep look qn bits l
  let l ← recActStep look cn qn l
  let l ← setCls l qn
  rnnRegistered qn l

/-! ## `quantize_rnn` (utils.py:684-726) -/

def quantizeRnn (look : Look) (bits : String) (l : PyVal) : R PyVal := do
  let cn ← strOf (← sub l "class_name")
  let qn := "Q" ++ cn
  let kq ← look qn (some "kernel_quantizer")
  let rq ← look qn (some "recurrent_quantizer")
  let ub ← sub (← sub l "config") "use_bias"
  let bq ← biasLook look qn ub
  let sq ← look qn (some "state_quantizer")
  match kq with
  | .none => pure l            -- "This is to avoid unwanted transformations."
  | _ => rnnApply look bits cn qn kq rq bq sq l

/-! ## the branches of the loop body.  Result: (layer, q_name afterwards, reached the end of
    the loop body (`false` = `continue`)) -/

abbrev BranchRes := R (PyVal × Option String × Bool)

/-- the three `layer_config[...] = ...` of the folding arm (utils.py:742-753 / 797-808) -/
def foldPrep (look : Look) (qn : String) (l : PyVal) : R PyVal := do
  let l ← setCfg l "use_bias" (.bool true)
  let fm ← look qn (some "folding_mode")
  let l ← setCfg l "folding_mode" (if truthy fm then fm else .str "ema_stats_folding")
  let efd ← look qn (some "ema_freeze_delay")
  setCfg l "ema_freeze_delay" (if truthy efd then efd else .none)

/-- the folding condition: `[class test and] enable_bn_folding and layer["name"] in layers_to_fold` -/
def foldCond (F : Flags) (canFold : Bool) (l : PyVal) : R Bool :=
  if canFold && F.folding then do pure (F.inFold (← sub l "name")) else pure false

/-- folding arm or plain arm: (layer, q_name) -/
def foldStep (look : Look) (foldHere : Bool) (foldName plainName : String) (l : PyVal) : R (PyVal × String) :=
  if foldHere then do pure (← foldPrep look foldName l, foldName) else pure (l, plainName)

/-- "Tries none-folded layer quantizer as a back up." (utils.py:766-774 / 823-828) -/
def backupLook (look : Look) (kernelKey qn foldName plainName : String) (kq bq : PyVal) : R (PyVal × PyVal) :=
  if (match kq with | .none => true | _ => false) && decide (qn = foldName) then do
    let kq ← look plainName (some kernelKey)
    let bq ← look plainName (some "bias_quantizer")
    pure (kq, bq)
  else pure (kq, bq)

/-- tail of the Dense/Conv/Depthwise branches once the kernel quantizer is not None (780-792) -/
def convApply (look : Look) (bits : String) (kernelKey qn : String) (kq bq : PyVal) (l : PyVal) : R PyVal := do
  let l ← setCls l qn
  let l ← setCfg l kernelKey kq
  let l ← setCfg l "bias_quantizer" bq
  actStep look qn bits l

/-- Dense / Conv1D / Conv2D / Conv2DTranspose and DepthwiseConv2D: the two branches are the same text up to
    the kernel key, the class test of the folding condition and the two class names. -/
def convBranch (F : Flags) (look : Look) (kernelKey : String) (canFold : Bool)
    (foldName plainName : String) (l : PyVal) : BranchRes := do
  let foldHere ← foldCond F canFold l
  let lq ← foldStep look foldHere foldName plainName l
  let kq ← look lq.2 (some kernelKey)
  let ub ← sub (← sub lq.1 "config") "use_bias"
  let bq ← biasLook look lq.2 ub
  let kb ← backupLook look kernelKey lq.2 foldName plainName kq bq
  match kb.1 with
  | .none => pure (lq.1, some lq.2, false)
  | _ => do pure (← convApply look F.actBits kernelKey lq.2 kb.1 kb.2 lq.1, some lq.2, true)

/-- tail of the SeparableConv1D/2D branch once the depthwise quantizer is not None -/
def sepApply (look : Look) (bits : String) (qn : String) (dq pq bq : PyVal) (l : PyVal) : R PyVal := do
  let l ← setCls l qn
  let l ← setCfg l "depthwise_quantizer" dq
  let l ← setCfg l "pointwise_quantizer" pq
  let l ← setCfg l "bias_quantizer" bq
  actStep look qn bits l

/-- SeparableConv1D / SeparableConv2D (the dedicated branch added by the fix round, modelled on the
    DepthwiseConv2D one without folding): QSeparableConv1D/2D take `depthwise_quantizer` and
    `pointwise_quantizer`; the layer is converted when a depthwise quantizer is configured. -/
def sepBranch (F : Flags) (look : Look) (cn : String) (l : PyVal) : BranchRes := do
  let qn := "Q" ++ cn
  let dq ← look qn (some "depthwise_quantizer")
  let pq ← look qn (some "pointwise_quantizer")
  let ub ← sub (← sub l "config") "use_bias"
  let bq ← biasLook look qn ub
  match dq with
  | .none => pure (l, some qn, false)      -- "This is to avoid unwanted transformations."
  | _ => do pure (← sepApply look F.actBits qn dq pq bq l, some qn, true)

/-! ### the one-entry dictionaries of the Bidirectional branch

    `forward_layer_quantizer_config = {layer_config["layer"]["config"]["name"]: get_config(...)}`
    (and the same for `backward_layer`) are the only dictionaries of the loop that are not the caller's
    and whose key is a JSON value of the model (any hashable value, not only a string), so they get a
    literal model of their own: key equality is Python's `==` on hashable JSON values. -/

/-- numeric reading of a hashable JSON key (`True == 1`, `1.0 == 1`) -/
def keyNum : PyVal → Option (Int × Nat)
  | .bool b => some (if b then 1 else 0, 0)
  | .num m e => some (m, e)
  | _ => none

/-- `a == b` for two hashable JSON values used as dictionary keys -/
def pyKeyEq (a b : PyVal) : Bool :=
  match a, b with
  | .none, .none => true
  | .str s, .str t => decide (s = t)
  | _, _ =>
    match keyNum a, keyNum b with
    | some (m, e), some (m', e') => decide (m * (10 : Int) ^ e' = m' * (10 : Int) ^ e)
    | _, _ => false

/-- `{key: entry}.get(k, dflt)` -/
def oneGet (key entry k dflt : PyVal) : R PyVal := do
  hashable k
  pure (if pyKeyEq k key then entry else dflt)

/-- `get_config({key: entry}, layer, layer_class, parameter)`: the same statements as `getConfig`,
    on the one-entry dictionary `{key: entry}` -/
def getConfigOne (key entry : PyVal) (l : PyVal) (cls : String) (param : Option String) : R PyVal := do
  let cfg ← sub l "config"
  let nm ← sub cfg "name"
  let dflt ← oneGet key entry (.str cls) .none
  let e ← oneGet key entry nm dflt
  paramOf e param

/-- one direction of a Bidirectional wrapper:
    `d = {keyLayer["config"]["name"]: get_config(quantizer_config, layer, "QBidirectional")}` and
    `quantize_rnn(inner, d)`.  In the code the key is always the name of the very layer handed to
    `quantize_rnn` (`keyLayer = inner`, see `bidirInner`); the parameter makes the dependence explicit:
    `quantize_rnn` finds the entry only under the layer's OWN name (or under `"Q" + class`). -/
def bidirSide (look : Look) (bits : String) (keyLayer inner : PyVal) : R PyVal := do
  let key ← sub (← sub keyLayer "config") "name"
  let entry ← look "QBidirectional" none
  hashable key
  quantizeRnn (getConfigOne key entry inner) bits inner

/-- the inner layer of a Bidirectional wrapper (forward: `layer_config["layer"]`, backward:
    `layer_config["backward_layer"]`): the one-entry dictionary is keyed by that layer's own name -/
def bidirInner (look : Look) (bits : String) (inner : PyVal) : R PyVal :=
  bidirSide look bits inner inner

/-- `if "backward_layer" in layer_config: ...` -/
def bidirBackward (look : Look) (bits : String) (l : PyVal) : R PyVal := do
  let cfg ← sub l "config"
  match cfg with
  | .dict d =>
    match dget d "backward_layer" with
    | some binner => do
      let binner' ← bidirInner look bits binner
      setCfg l "backward_layer" binner'
    | none => pure l
  | _ => throw .typeError

/-- lines after the selection test of the Bidirectional branch: both wrapped layers through
    `quantize_rnn`, then the rename -/
def bidirApply (F : Flags) (look : Look) (l : PyVal) : R PyVal := do
  let cfg ← sub l "config"
  let inner ← sub cfg "layer"
  let inner' ← bidirInner look F.actBits inner
  let l ← setCfg l "layer" inner'
  let l ← bidirBackward look F.actBits l
  setCls l "QBidirectional"

/-- Bidirectional.  After the fix round the branch starts with
    `if get_config(quantizer_config, layer, "QBidirectional", "kernel_quantizer") is None: continue`
    ("This is to avoid unwanted transformations"), so an unselected wrapper is left alone. -/
def bidirBranch (F : Flags) (look : Look) (st : Option String) (l : PyVal) : BranchRes := do
  let kq ← look "QBidirectional" (some "kernel_quantizer")
  match kq with
  | .none => pure (l, st, false)
  | _ => do pure (← bidirApply F look l, st, true)

/-- which of QActivation / QAdaptiveActivation is consulted first (utils.py:866-877) -/
def actLookup (F : Flags) (look : Look) : R (PyVal × Bool) :=
  if F.preferAdaptive then do
    let q ← look "QAdaptiveActivation" none
    match q with
    | .none => do pure (← look "QActivation" none, false)
    | _ => pure (q, true)
  else do
    let q ← look "QActivation" none
    match q with
    | .none => do pure (← look "QAdaptiveActivation" none, true)
    | _ => pure (q, false)

/-- `not isinstance(quantizer, dict) or quantizer.get(layer_config["activation"], None)` -/
def actCond (quantizer : PyVal) (l : PyVal) : R Bool :=
  match quantizer with
  | .dict qd => do
    let a ← sub (← sub l "config") "activation"
    pure (truthy (← getV qd a .none))
  | _ => pure true

/-- `if isinstance(quantizer, dict): quantizer = quantizer[layer_config["activation"]]` -/
def actPick (quantizer : PyVal) (l : PyVal) : R PyVal :=
  match quantizer with
  | .dict qd => do
    let a ← sub (← sub l "config") "activation"
    getV qd a .none      -- present, because `.get` was truthy
  | _ => pure quantizer

/-- the QAdaptiveActivation arm (utils.py:895-900) -/
def adaptiveApply (quantizer : PyVal) (l : PyVal) : R PyVal :=
  match quantizer with
  | .str s =>
    if s.toList.contains ',' then throw .assertionError
    else do
      let tb ← intOfDigits (digitsOnly s)
      let l ← setCfg l "total_bits" (.num tb 0)
      setCfg l "activation" (.str (stripParams s))
  | _ => throw .attributeError      -- no `.find` on a non-string

/-- lines 890-902 -/
def activationApply (F : Flags) (quantizer : PyVal) (isAd : Bool) (l : PyVal) : R PyVal := do
  let l ← setCls l (if isAd then "QAdaptiveActivation" else "QActivation")
  let quantizer ← actPick quantizer l
  if truthy quantizer then
    (if isAd then adaptiveApply quantizer l else setCfg l "activation" quantizer)
  else quantActIn l F.actBits

/-- Activation (utils.py:865-902) -/
def activationBranch (F : Flags) (look : Look) (st : Option String) (l : PyVal) : BranchRes := do
  let qa ← actLookup F look
  match qa.1 with
  | .none => pure (l, st, false)
  | _ =>
    let cond ← actCond qa.1 l
    if cond then do pure (← activationApply F qa.1 qa.2 l, st, true)
    else pure (l, st, true)

/-- which key holds the negative slope, per class (utils.py:912-921) -/
def reluSlope (cn : String) (cfg : PyVal) : R PyVal :=
  if cn = "LeakyReLU" then sub cfg "alpha"
  else if cn = "relu" then do
    let _ ← sub cfg "max_value"
    let a ← sub cfg "alpha"
    let _ ← sub cfg "threshold"
    pure a
  else do
    let _ ← sub cfg "max_value"
    let a ← sub cfg "negative_slope"
    let _ ← sub cfg "threshold"
    pure a

/-- `not isinstance(quantizer, dict) or quantizer.get(q_name, None)` -/
def reluCond (quantizer : PyVal) (qn : String) : Bool :=
  match quantizer with
  | .dict qd => truthy ((dget qd qn).getD .none)
  | _ => true

/-- "Remove relu specific configurations" (utils.py:940-949), dispatching on the ORIGINAL class
    name `orig_class_name` remembered before the rename (fix 01d6934) -/
def reluDelete (cn : String) (l : PyVal) : R PyVal :=
  if cn = "LeakyReLU" then delCfg l "alpha"
  else if cn = "relu" then do
    let l ← delCfg l "max_value"
    let l ← delCfg l "alpha"
    delCfg l "threshold"
  else do
    let l ← delCfg l "max_value"
    let l ← delCfg l "negative_slope"
    delCfg l "threshold"

/-- `if isinstance(quantizer, dict): quantizer = quantizer[q_name]` -/
def reluPick (quantizer : PyVal) (qn : String) : R PyVal :=
  match quantizer with
  | .dict qd => sub (.dict qd) qn
  | _ => pure quantizer

/-- lines 934-956: `orig_class_name = layer["class_name"]`, rename, delete the keys of the
    original class -/
def reluApply (F : Flags) (quantizer : PyVal) (qn : String) (cn : String) (l : PyVal) : R PyVal := do
  let l ← setCls l "QActivation"
  let l ← reluDelete cn l
  let quantizer ← reluPick quantizer qn
  if truthy quantizer then setCfg l "activation" quantizer else quantActIn l F.actBits

/-- `if negative_slope > 0: q_name = "leakyrelu" else: q_name = "relu"` -/
def reluQName (pos : Bool) : String := if pos then "leakyrelu" else "relu"

/-- lines 931-955 -/
def reluFinish (F : Flags) (quantizer : PyVal) (qn : String) (cn : String) (l : PyVal) : BranchRes :=
  if reluCond quantizer qn then do pure (← reluApply F quantizer qn cn l, some qn, true)
  else pure (l, some qn, true)

/-- ReLU / relu / LeakyReLU (utils.py:905-955), as written -/
def reluBranch (F : Flags) (look : Look) (cn : String) (l : PyVal) (st : Option String) : BranchRes := do
  let quantizer ← look "QActivation" none
  match quantizer with
  | .none => pure (l, st, false)
  | _ =>
    let cfg ← sub l "config"
    let negSlope ← reluSlope cn cfg
    let pos ← gtZero negSlope
    reluFinish F quantizer (reluQName pos) cn l

/-- lines 967-985 -/
def bnApply (look : Look) (l : PyVal) : R PyVal := do
  let l ← setCls l "QBatchNormalization"
  let g ← look "QBatchNormalization" (some "gamma_quantizer")
  let b ← look "QBatchNormalization" (some "beta_quantizer")
  let m ← look "QBatchNormalization" (some "mean_quantizer")
  let v ← look "QBatchNormalization" (some "variance_quantizer")
  let l ← setCfg l "gamma_quantizer" g
  let l ← setCfg l "beta_quantizer" b
  let l ← setCfg l "mean_quantizer" m
  setCfg l "variance_quantizer" v

/-- BatchNormalization (utils.py:957-985).  `bnIn` = the membership test
    `name in quantizer_config or "QBatchNormalization" in quantizer_config`. -/
def bnBranch (look : Look) (bnIn : R Bool) (st : Option String) (l : PyVal) : BranchRes := do
  let present ← bnIn
  if present then do pure (← bnApply look l, st, true)
  else pure (l, st, false)

/-- lines 997-1008 -/
def poolApply (F : Flags) (look : Look) (qn : String) (aq : PyVal) (l : PyVal) : R PyVal := do
  let l ← setCls l qn
  let l ← setCfg l "average_quantizer" aq
  actStep look qn F.actBits l

/-- AveragePooling2D / GlobalAveragePooling2D (utils.py:987-1008) -/
def poolBranch (F : Flags) (look : Look) (cn : String) (l : PyVal) : BranchRes := do
  let qn := "Q" ++ cn
  let aq ← look qn (some "average_quantizer")
  match aq with
  | .none => pure (l, some qn, false)
  | _ => do pure (← poolApply F look qn aq l, some qn, true)

def denseLike : List String := ["Dense", "Conv1D", "Conv2D", "Conv2DTranspose"]

/-- dispatch on `layer["class_name"]` (the `if / elif` chain of the loop body) -/
def branch (F : Flags) (look : Look) (bnIn : R Bool) (st : Option String) (l : PyVal) : BranchRes := do
  let _ ← sub l "config"                       -- layer_config = layer["config"]
  let cls ← sub l "class_name"
  match cls with
  | .str cn =>
    if cn ∈ denseLike then
      convBranch F look "kernel_quantizer" (decide (cn = "Dense" ∨ cn = "Conv2D"))
        ("Q" ++ cn ++ "Batchnorm") ("Q" ++ cn) l
    else if cn = "DepthwiseConv2D" then
      convBranch F look "depthwise_quantizer" true "QDepthwiseConv2DBatchnorm" "QDepthwiseConv2D" l
    else if cn = "SeparableConv1D" ∨ cn = "SeparableConv2D" then sepBranch F look cn l
    else if cn = "SimpleRNN" ∨ cn = "LSTM" ∨ cn = "GRU" then do
      pure (← quantizeRnn look F.actBits l, st, true)
    else if cn = "Bidirectional" then bidirBranch F look st l
    else if cn = "Activation" then activationBranch F look st l
    else if cn = "ReLU" ∨ cn = "relu" ∨ cn = "LeakyReLU" then reluBranch F look cn l st
    else if cn = "BatchNormalization" then bnBranch look bnIn st l
    else if cn = "AveragePooling2D" ∨ cn = "GlobalAveragePooling2D" then poolBranch F look cn l
    else pure (l, st, true)
  | _ => pure (l, st, true)                    -- a non-string class name equals no literal

/-- end of the loop body:
    `registered_name = layer.pop("registered_name", None)`
    `if registered_name: layer["registered_name"] = q_name or registered_name`
    (`st = none` is `q_name = None`, the value every iteration now starts with) -/
def fixRegistered (l : PyVal) (st : Option String) : R PyVal := do
  let (l, reg) ← popReg l
  if truthy reg then
    match st with
    | none => setItem l "registered_name" reg
    | some q => setItem l "registered_name" (if q ≠ "" then .str q else reg)
  else pure l

/-- one iteration of `for layer in layers:` given the lookup functions.  The body now starts with
    `q_name = None` (fix round), so the value `_st` left by the previous iteration is not read;
    the parameter is kept so that `step` / `rewriteFrom` keep their shape. -/
def stepCore (F : Flags) (look : Look) (bnIn : R Bool) (_st : Option String) (l : PyVal) :
    R (PyVal × Option String) := do
  let (l', st', fin) ← branch F look bnIn none l
  if fin then do pure (← fixRegistered l' st', st') else pure (l', st')

/-- the BatchNormalization membership test on the caller's dictionary -/
def bnPresent (qc : Dict) (l : PyVal) : R Bool := do
  let nm ← sub (← sub l "config") "name"
  match nm with
  | .str s => pure ((dget qc s).isSome || (dget qc "QBatchNormalization").isSome)
  | .list _ => throw .typeError
  | .dict _ => throw .typeError
  | _ => pure (dget qc "QBatchNormalization").isSome

/-- one iteration against the caller's dictionary `qc` -/
def step (F : Flags) (qc : Dict) (st : Option String) (l : PyVal) : R (PyVal × Option String) :=
  stepCore F (getConfig qc l) (bnPresent qc l) st l

/-- the whole loop; `st` = the variable `q_name` as the previous iteration left it (no longer read
    by `step`, see `stepCore`) -/
def rewriteFrom (F : Flags) (qc : Dict) : Option String → List PyVal → R (List PyVal)
  | _, [] => pure []
  | st, l :: ls => do
    let (l', st') ← step F qc st l
    let ls' ← rewriteFrom F qc st' ls
    pure (l' :: ls')

def rewrite (F : Flags) (qc : Dict) (ls : List PyVal) : R (List PyVal) := rewriteFrom F qc none ls

/-! ## the record view of a layer dict used by the theorems -/

/-- `v.get(k)` when `v` is a dict -/
def pget (v : PyVal) (k : String) : Option PyVal :=
  match v with
  | .dict d => dget d k
  | _ => none

/-- `layer["config"].get(k)` -/
def cfgGet (l : PyVal) (k : String) : Option PyVal := (pget l "config").bind (pget · k)
def clsOf (l : PyVal) : Option PyVal := pget l "class_name"
def nameOf (l : PyVal) : Option PyVal := cfgGet l "name"

end QKV.Rewrite
