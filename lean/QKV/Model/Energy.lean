/-
  QKV.Model.Energy — the qtools energy report.

  Mirrors (as written)
    qkeras/qtools/qenergy/qenergy.py : OP table, get_op_type, memory_read_energy,
        parameter_read_energy, memory_write_energy, energy_estimate
    qkeras/qtools/run_qtools.py      : QTools.extract_energy_sum / extract_energy_profile
    qkeras/qtools/settings.py        : the cost polynomials are PARAMETERS here (`Costs`): the
        theorems hold for every choice of them; the driver receives their values at the points
        the code evaluates them (oracle inputs, DESIGN §3.2 device 2), including
        `x ↦ sram_rd(log2 x)`.
  Core Lean only.
-/
import QKV.Model.Basic
namespace QKV.C19

/-- `np.ceil` -/
def rceil (x : Rat) : Int := - (Rat.floor (-x))

/-- Python `int(x)` : truncation toward zero -/
def truncInt (x : Rat) : Int := if 0 ≤ x then Rat.floor x else - (Rat.floor (-x))

/-- round half to even to an integer (exact-value rounding of `"{:.2f}".format`) -/
def roundHalfEven (x : Rat) : Int :=
  let f := Rat.floor x
  let r := x - (f : Rat)
  if r < 1 / 2 then f else if 1 / 2 < r then f + 1 else if f % 2 = 0 then f else f + 1

/-- `float("{0:.2f}".format(x))` -/
def round2 (x : Rat) : Rat := (roundHalfEven (x * 100) : Rat) / 100

/-- `cfg.*` cost functions (np.poly1d objects in settings.py) — arbitrary functions here. -/
structure Costs where
  fpmAdd : Rat → Rat
  fpmMul : Rat → Rat
  fp16Add : Rat → Rat
  fp16Mul : Rat → Rat
  fp32Add : Rat → Rat
  fp32Mul : Rat → Rat
  /-- `x ↦ cfg.sram_rd(np.log2(x))` (the code only ever evaluates `sram_rd` at a `log2`) -/
  sramRdLog2 : Rat → Rat
  dramRd : Rat → Rat
  /-- `cfg.sram_mul_factor` -/
  sramMulFactor : Rat

inductive OpType | fp32 | fp16 | fpm
  deriving DecidableEq, Repr, Inhabited

inductive OpMode | add | mul | mux | xor | and | or | shifter
  deriving DecidableEq, Repr, Inhabited

def OpMode.ofString? : String → Option OpMode
  | "add" => some .add | "mul" => some .mul | "mux" => some .mux | "xor" => some .xor
  | "and" => some .and | "or" => some .or | "shifter" => some .shifter | _ => none

/-- a reported data type, as far as the energy code reads it -/
structure QInfo where
  bits : Rat
  isFloat : Bool
  deriving Repr, Inhabited

/-- `get_op_type` followed by the `OP[...]` lookup: `"fp" + str(bits)` must be a key -/
def opType? (q : QInfo) : Option OpType :=
  if q.isFloat then
    if q.bits = 32 then some .fp32 else if q.bits = 16 then some .fp16 else none
  else some .fpm

/-- `OP[type][mode](x)`; `none` = KeyError.  Every entry is `max(cfg.f(x), 0)`. -/
def opCost (c : Costs) (t : OpType) (m : OpMode) (x : Rat) : Option Rat :=
  match t, m with
  | .fp32, .add => some (max (c.fp32Add x) 0)
  | .fp32, .mul => some (max (c.fp32Mul x) 0)
  | .fp16, .add => some (max (c.fp16Add x) 0)
  | .fp16, .mul => some (max (c.fp16Mul x) 0)
  | .fpm, .mul => some (max (c.fpmMul x) 0)
  | .fpm, _ => some (max (c.fpmAdd x) 0)     -- add mux xor and or shifter all use fpm_add
  | _, _ => none

/-- `OP["sram"]["rd"]` = `OP["sram"]["wr"]`, evaluated at `log2(bitsArg)` -/
def sramCost (c : Costs) (bitsArg : Rat) : Rat := max (c.sramRdLog2 bitsArg) 0
/-- `OP["dram"]["rd"]` = `OP["dram"]["wr"]` -/
def dramCost (c : Costs) (x : Rat) : Rat := max (c.dramRd x) 0

inductive Mem | dram | sram | fixed
  deriving DecidableEq, Repr, Inhabited

/-- anything that is neither "dram" nor "sram" costs nothing (the assert in `pe` allows "fixed") -/
def Mem.ofString (s : String) : Mem :=
  if s = "dram" then .dram else if s = "sram" then .sram else .fixed

/-- `np.ceil(total_bits * OP["sram"]["mul_factor"]) * OP["sram"][rd|wr](total_bits_log2)` -/
def sramAccess (c : Costs) (totalBits minSram : Rat) : Rat :=
  (rceil (totalBits * c.sramMulFactor) : Rat) * sramCost c (max totalBits minSram)

/-- `memory_read_energy`; `elems` = `np.prod(tensor_shape)` after the batch entry is dropped -/
def memoryReadEnergy (c : Costs) (isInputLayer : Bool) (elems : Nat) (mode : Mem) (minSram : Rat)
    (rdWrOnIo : Bool) (bits : Rat) : Rat :=
  let mode := if isInputLayer then (if rdWrOnIo then Mem.dram else Mem.sram) else mode
  let totalBits := (elems : Rat) * bits
  match mode with
  | .dram => dramCost c totalBits + (if rdWrOnIo then sramAccess c totalBits minSram else 0)
  | .sram => sramAccess c totalBits minSram
  | .fixed => 0

/-- `memory_write_energy` -/
def memoryWriteEnergy (c : Costs) (isOutputLayer : Bool) (elems : Nat) (mode : Mem) (minSram : Rat)
    (rdWrOnIo : Bool) (bits : Rat) : Rat :=
  let mode := if isOutputLayer then (if rdWrOnIo then Mem.dram else Mem.sram) else mode
  let totalBits := (elems : Rat) * bits
  match mode with
  | .dram => (if rdWrOnIo then sramAccess c totalBits minSram else 0) + dramCost c totalBits
  | .sram => sramAccess c totalBits minSram
  | .fixed => 0

/-- multiplier / divider / merge operator as the energy code reads it -/
structure OpUnit where
  gateFactor : Rat
  gateBits : Rat
  mode : OpMode          -- implemented_as()
  out : QInfo            -- .output
  deriving Repr, Inhabited

/-- branch of the class-name chain in `energy_estimate` -/
inductive EKind | activation | batchNorm | merge | avgPool | mac | other
  deriving DecidableEq, Repr, Inhabited

def eKind (n : String) : EKind :=
  if ["QActivation", "QAdaptiveActivation", "Activation"].contains n then .activation
  else if ["QBatchNormalization", "BatchNormalization"].contains n then .batchNorm
  else if ["Add", "Multiply", "Subtract"].contains n then .merge
  else if ["AveragePooling2D", "AvgPool2D", "GlobalAvgPool2D", "GlobalAveragePooling2D"].contains n
    then .avgPool
  else if ["QConv2D", "QConv1D", "QDepthwiseConv2D", "QDense", "Conv2D", "Conv1D",
           "DepthwiseConv2D", "Dense"].contains n then .mac
  else .other

/-- branch of `parameter_read_energy` -/
inductive PKind | bn | weights | none
  deriving DecidableEq, Repr, Inhabited

def pKind (n : String) : PKind :=
  if ["QBatchNormalization", "BatchNormalization"].contains n then .bn
  else if ["QDense", "QConv1D", "QConv2D", "QDepthwiseConv2D", "QConv2D", "QConv2DTranspose",
           "Dense", "Conv1D", "Conv2D", "DepthwiseConv2D", "Conv2DTranspose"].contains n then .weights
  else .none

/-- one entry of `layer_data_type_map`, as far as `energy_estimate` reads it -/
structure ELayer where
  className : String
  isInput : Bool
  isOutput : Bool
  /-- `zip(layer.input_shape list, input_quantizer_list)` : (prod shape[1:], quantizer bits) -/
  inputs : List (Nat × Rat)
  /-- `len(input_quantizer_list)` -/
  nInputs : Nat
  outElems : Nat              -- prod(output_shapes[1:])
  outBits : Rat               -- output_quantizer.bits
  opCount : Nat               -- operation_count
  /-- BN: `len(weights[0])` and the bits of the non-None gamma/beta/mean/variance quantizers -/
  bnSize : Nat
  bnBits : List Rat
  /-- conv/dense: prod(w_shapes), weight_quantizer.bits, (b_shapes, bias_quantizer.bits) if any -/
  wElems : Nat
  wBits : Rat
  bias : Option (Nat × Rat)
  /-- `get_val(layer_item, "multiplier")` (merge quantizer for merge layers) -/
  multiplier : Option OpUnit
  /-- `get_val(layer_item, "accumulator").output` — `none` when the item has no such key -/
  accumulator : Option QInfo
  /-- `get_val(layer_item, "pool_sum_accumulator").output` (the pooling items are dicts with
      this key; `none` for every other item)                              [fix 2562e1d] -/
  poolAccumulator : Option QInfo
  /-- BN: internal_divide_quantizer, internal_multiplier -/
  bnDivider : Option OpUnit
  bnMultiplier : Option OpUnit
  deriving Repr, Inhabited

/-- `gate_factor * OP[get_op_type(u.output)][mode](u.gate_bits)` -/
def unitCost (c : Costs) (u : OpUnit) : Option Rat := do
  let t ← opType? u.out
  let e ← opCost c t u.mode u.gateBits
  pure (u.gateFactor * e)

def optUnitCost (c : Costs) : Option OpUnit → Option Rat
  | none => some 0
  | some u => unitCost c u

/-- `energy_op` ; `none` = the Python raises -/
def opEnergy (c : Costs) (l : ELayer) : Option Rat :=
  match eKind l.className with
  | .activation => some 0
  | .batchNorm => do
    let d ← optUnitCost c l.bnDivider
    let m ← optUnitCost c l.bnMultiplier
    pure ((d + m) * (l.opCount : Rat))
  | .merge => do
    let u ← l.multiplier
    let t ← opType? u.out
    let e ← opCost c t u.mode u.gateBits
    pure (((l.nInputs : Rat) - 1) * (l.opCount : Rat) * u.gateFactor * e)
  | .avgPool => do
    let a ← l.poolAccumulator      -- None.output → AttributeError
    let t ← opType? a
    let e ← opCost c t .add a.bits
    pure ((l.opCount : Rat) * e)
  | .mac => do
    let u ← l.multiplier
    let a ← l.accumulator
    let c1 ← unitCost c u
    let t ← opType? a
    let c2 ← opCost c t .add a.bits
    pure ((l.opCount : Rat) * (c1 + c2))
  | .other => some 0

/-- `input_rd_energy` -/
def inputEnergy (c : Costs) (actMem : Mem) (minSram : Rat) (rdWr : Bool) (l : ELayer) : Rat :=
  (l.inputs.map fun (e, b) => memoryReadEnergy c l.isInput e actMem minSram rdWr b).sum

/-- `parameter_read_energy` -/
def parameterEnergy (c : Costs) (wMem : Mem) (minSram : Rat) (rdWr : Bool) (l : ELayer) : Rat :=
  match pKind l.className with
  | .bn => (l.bnBits.map fun b => memoryReadEnergy c false l.bnSize wMem minSram rdWr b).sum
  | .weights =>
    memoryReadEnergy c false l.wElems wMem minSram rdWr l.wBits
      + (match l.bias with
         | some (n, b) => memoryReadEnergy c false n wMem minSram rdWr b
         | none => 0)
  | .none => 0

def outputEnergy (c : Costs) (actMem : Mem) (minSram : Rat) (rdWr : Bool) (l : ELayer) : Rat :=
  memoryWriteEnergy c l.isOutput l.outElems actMem minSram rdWr l.outBits

/-- the four unrounded energies of a layer: inputs, outputs, parameters, op_cost -/
structure Entry where
  inputs : Rat
  outputs : Rat
  parameters : Rat
  opCost : Rat
  deriving Repr, Inhabited

def Entry.sum (e : Entry) : Rat := e.inputs + e.outputs + e.parameters + e.opCost
def Entry.round (e : Entry) : Entry :=
  ⟨round2 e.inputs, round2 e.outputs, round2 e.parameters, round2 e.opCost⟩

structure Placement where
  wMem : Mem
  actMem : Mem
  minSram : Rat
  rdWr : Bool

def layerEntry (c : Costs) (pl : Placement) (l : ELayer) : Option Entry := do
  let op ← opEnergy c l
  pure ⟨inputEnergy c pl.actMem pl.minSram pl.rdWr l, outputEnergy c pl.actMem pl.minSram pl.rdWr l,
        parameterEnergy c pl.wMem pl.minSram pl.rdWr l, op⟩

/-- the loop of `energy_estimate`: accumulates `(reported entries, total_energy)` -/
def energyLoop (c : Costs) (pl : Placement) :
    List ELayer → List (String × Entry) × Rat → Option (List (String × Entry) × Rat)
  | [], acc => some acc
  | l :: ls, (res, tot) =>
    match layerEntry c pl l with
    | none => none
    | some e => energyLoop c pl ls (res ++ [(l.className, e.round)], tot + e.sum)

/-- `energy_estimate`: per-layer reported (2-decimal) entries and `total_cost = int(total)` -/
def energyEstimate (c : Costs) (pl : Placement) (ls : List ELayer) :
    Option (List (String × Entry) × Int) :=
  match energyLoop c pl ls ([], 0) with
  | none => none
  | some (res, tot) => some (res, truncInt tot)

/-- a session on ONE `QTools` object: `pe(...)` called with several option sets, in order.  The object
    keeps nothing between calls, so the k-th report is the report of a first call with the k-th options
    (what `C19_pe_session_history_free` says, and what the harness checks on reused objects). -/
def peSession (c : Costs) (ls : List ELayer) (calls : List Placement) :
    List (Option (List (String × Entry) × Int)) :=
  calls.map fun pl => energyEstimate c pl ls

/-! ## extract_energy_sum / extract_energy_profile -/

inductive EKey | inputs | outputs | parameters | opCost
  deriving DecidableEq, Repr, Inhabited

def EKey.ofString? : String → Option EKey
  | "inputs" => some .inputs | "outputs" => some .outputs | "parameters" => some .parameters
  | "op_cost" => some .opCost | _ => none

def Entry.get (e : Entry) : EKey → Rat
  | .inputs => e.inputs | .outputs => e.outputs | .parameters => e.parameters | .opCost => e.opCost

/-- `cfg_setting.get(class_name, cfg_setting.get("default", []))` -/
def selectKeys (cfg : List (String × List EKey)) (cls : String) : List EKey :=
  match cfg.lookup cls with
  | some ks => ks
  | none => (cfg.lookup "default").getD []

/-- `sum([energy[key] for key in keys])` -/
def layerTotal (cfg : List (String × List EKey)) (cls : String) (e : Entry) : Rat :=
  ((selectKeys cfg cls).map e.get).sum

/-- `extract_energy_sum` on a returned dictionary (layer rows in order; `total_cost` skipped) -/
def extractSum (cfg : List (String × List EKey)) (d : List (String × Entry)) : Int :=
  truncInt ((d.map fun (cls, e) => layerTotal cfg cls e).sum)

/-- `extract_energy_profile`: per-layer `total` -/
def extractProfile (cfg : List (String × List EKey)) (d : List (String × Entry)) : List Rat :=
  d.map fun (cls, e) => layerTotal cfg cls e

end QKV.C19
