/-
  QKV.Model.Stoch — stochastic rounding in qkeras/quantizers.py (property C08).

  Randomness is an explicit argument: every call of `tf.random.uniform` in the Python is one
  extra rational argument `u` (`0 ≤ u < 1`) of the model function, in call order.
  The learning phase (`K.learning_phase()`, the condition of every `smart_cond`) is `phase`.

  Mirrors, function by function (names in the doc comments):
    stochastic_round, stochastic_round_po2, _round_through, _clip_power_of_two (all of its
    options: max_value, quadratic_approximation, use_stochastic_rounding, log2_rounding, in the
    branch order of the code — "floor" wins over the stochastic flag),
    quantized_linear.__call__ / _scale_clip_and_round / get_clip_bounds,
    quantized_bits.__call__ (alpha None or a number), quantized_relu.__call__ (use_sigmoid=0,
    relu_upper_bound=None), quantized_tanh, quantized_sigmoid, quantized_po2, quantized_relu_po2,
    binary (use_stochastic_rounding), ternary's rounding step, stochastic_binary, stochastic_ternary
    (phase switch + sampling step).
  Everything is element-wise; data-dependent reductions (`K.max(|x|)`, least-squares scales) and
  transcendental values (tanh, sigmoid) enter as arguments (DESIGN.md §3.2 device 2).
  qnoise_factor = 1 and use_ste = True (the defaults): the returned value is `xq`.

  Core Lean only.
-/
import QKV.Model.Basic
namespace QKV.Stoch
open QKV

/-! ## number helpers -/

/-- `tf.floor` -/
def fl (x : Rat) : Rat := ((x.floor : Int) : Rat)
/-- `tf.math.ceil` (`⌈x⌉ = -⌊-x⌋`) -/
def ce (x : Rat) : Rat := - fl (-x)

/-- `tf.round` / `tf.math.round`: round half to even. -/
def roundHE (x : Rat) : Rat :=
  let f := x.floor
  let r := x - (f : Rat)
  if r < 1 / 2 then (f : Rat)
  else if 1 / 2 < r then ((f + 1 : Int) : Rat)
  else if f % 2 = 0 then (f : Rat) else ((f + 1 : Int) : Rat)

/-- `K.clip(x, lo, hi)` = `min(max(x, lo), hi)` -/
def clip (x lo hi : Rat) : Rat :=
  let y := if x < lo then lo else x
  if hi < y then hi else y

def clipI (x lo hi : Int) : Int :=
  let y := if x < lo then lo else x
  if hi < y then hi else y

/-- `tf.sign` -/
def sgn (x : Rat) : Rat := if x < 0 then -1 else if 0 < x then 1 else 0

/-- `s = tf.sign(x); s += 1 - |s|` : sign with `0 ↦ +1` -/
def sgn1 (x : Rat) : Rat := if x < 0 then -1 else 1

def absR (x : Rat) : Rat := if x < 0 then -x else x

def b2r (b : Bool) : Rat := if b then 1 else 0
def b2z (b : Bool) : Int := if b then 1 else 0

/-- `K.relu(x, alpha)` -/
def relu (x alpha : Rat) : Rat := if 0 ≤ x then x else alpha * x

/-! ## the two stochastic primitives -/

/-- `stochastic_round(x, precision)`:
    `scale = 1/precision; sx = x*scale; fraction = sx - floor(sx)`
    `where(fraction < uniform, floor(sx), ceil(sx)) / scale`. -/
def stochasticRound (x precision u : Rat) : Rat :=
  let scale := 1 / precision
  let sx := x * scale
  let fraction := sx - fl sx
  (if fraction < u then fl sx else ce sx) / scale

/-- body of `stochastic_round_po2(x)` after `x_log2 = round(log2(y + eps))` has been computed
    (`e0`): bracket `[2^left, 2^right]`, draw `val = u*(maxval-minval)+minval`
    (what `tf.random.uniform(minval=, maxval=)` returns for the unit draw `u`), compare:
    `tf.where(y <= val, left_val, right_val)` (repair 2fe48c1; before it the test was `y < val`). -/
def stochasticRoundPo2Core (y : Rat) (e0 : Int) (u : Rat) : Int :=
  let po2 := pow2 e0
  let left := if y < po2 then e0 - 1 else e0
  let right := if y < po2 then e0 else e0 + 1
  let minval := pow2 left
  let maxval := pow2 right
  let val := u * (maxval - minval) + minval
  if y ≤ val then left else right

/-- `round(log2 y)` in exact arithmetic (never a tie for rational `y`):
    `e` with `2^(2e-1) ≤ y² < 2^(2e+1)`. -/
def roundLog2 (y : Rat) : Int := (floorLog2Rat (y * y) + 1) / 2

/-- `tf.keras.backend.epsilon()` as the float32 the comparison/addition uses (float32(1e-7)). -/
def epsK : Rat := (14073749 : Rat) / 140737488355328

/-- `stochastic_round_po2(x)` (argument already `|x|`-filtered by the caller; `y = abs(x)`). -/
def stochasticRoundPo2 (y u : Rat) : Int :=
  stochasticRoundPo2Core (absR y) (roundLog2 (absR y + epsK)) u

/-- `_round_through(x, use_stochastic_rounding, precision)` (forward value):
    `smart_cond(K.learning_phase(), stochastic_round(x, precision), tf.round(x))`. -/
def roundThrough (phase stoch : Bool) (precision x u : Rat) : Rat :=
  if stoch then (if phase then stochasticRound x precision u else roundHE x) else roundHE x

/-! ## precision passed to `_round_through` by each class

Every class passes `precision=1.0`: `quantized_bits` / `quantized_linear` always did;
`quantized_relu`, `quantized_tanh`, `quantized_sigmoid` since repair e93b27f (before it they got
the default `0.5` and emitted half steps — see `C08_precision_half_not_adjacent`). -/
def bitsPrecision : Rat := 1
def actPrecision : Rat := 1

/-! ## fixed-point classes -/

structure BitsCfg where
  bits : Int
  integer : Int
  symmetric : Bool
  keepNegative : Bool
  alpha : Rat          -- `alpha=None` ↦ 1
  stoch : Bool
  deriving Repr

/-- `quantized_bits.__call__`, alpha None / numeric. -/
def quantizedBits (c : BitsCfg) (phase : Bool) (x u : Rat) : Rat :=
  let unsignedBits := c.bits - b2z c.keepNegative
  let m := pow2 unsignedBits
  let mi := pow2 c.integer
  let xq :=
    if 0 < unsignedBits then
      let p := x * m / mi
      mi * clip (roundThrough phase c.stoch bitsPrecision p u)
                (b2r c.keepNegative * (-m + b2r c.symmetric)) (m - 1) / m
    else
      let s := sgn1 x
      if c.keepNegative then s else (s + 1) / 2
  c.alpha * xq

/-- `quantized_bits.__call__` with a STRING alpha ("auto" / "auto_po2"): that branch computes
    `v = floor(|x/m_i|/scale + 0.5)`, `z = sign(x)·min(v, levels/2)` and RETURNS
    `scale·m · m_i·z/m` before the `_round_through` call is reached ("we will not use z right now
    because of stochastic_rounding — this is still under test"): `use_stochastic_rounding`, the
    learning phase and the draw are never read.  `S` = the value the call leaves in `self.scale`
    for the element's channel (`scale·m`; data-dependent max / least-squares reduction: oracle
    argument); `symmetric` is forced to True by `__init__`, so `levels = (2^(bits-1) - 1)·2`. -/
def quantizedBitsAuto (c : BitsCfg) (S x : Rat) : Rat :=
  let m := pow2 (c.bits - b2z c.keepNegative)
  let mi := pow2 c.integer
  let levels : Rat := (pow2 (c.bits - 1) - 1) * 2
  let sc := S / m
  let xs := x / mi
  let v := fl (absR xs / sc + 1 / 2)
  let z := sgn xs * (if v < levels / 2 then v else levels / 2)
  S * (mi * z / m)

/-- `quantized_bits.__call__` for every kind of alpha: `auto = true` is the string-alpha branch -/
def quantizedBitsAny (auto : Bool) (c : BitsCfg) (phase : Bool) (S x u : Rat) : Rat :=
  if auto then quantizedBitsAuto c S x else quantizedBits c phase x u

/-- `quantized_linear.use_sign_function` -/
def linSign (c : BitsCfg) : Bool := c.bits == 1 && c.keepNegative

/-- `quantized_linear.get_clip_bounds` -/
def linClipBounds (c : BitsCfg) : Rat × Rat :=
  if linSign c then (-1 / 2, 1 / 2)
  else
    let up := pow2 (c.bits - b2z c.keepNegative)
    (b2r c.keepNegative * (-up + b2r c.symmetric), up - 1)

/-- `quantized_linear.quantization_scale` for alpha None / numeric -/
def linScale (c : BitsCfg) : Rat := c.alpha * pow2 (c.integer - c.bits + b2z c.keepNegative)

/-- `quantized_linear.__call__` = `_scale_clip_and_round(x, qs) * qs`, alpha None / numeric. -/
def quantizedLinear (c : BitsCfg) (phase : Bool) (x u : Rat) : Rat :=
  let qs := linScale c
  let shift : Rat := if linSign c then 1 / 2 else 0
  let (cmin, cmax) := linClipBounds c
  let scaled := x / qs
  let clipped := clip scaled cmin cmax
  let xq := roundThrough phase c.stoch bitsPrecision (clipped - shift) u
  (xq + shift) * qs

structure ReluCfg where
  bits : Int
  integer : Int
  negSlope : Rat       -- 0 or a power of two
  stoch : Bool
  deriving Repr

/-- `quantized_relu.__call__`, `use_sigmoid=0`, `relu_upper_bound=None`; `π` is the precision
    `_round_through` runs with (the code: `actPrecision`).  Two `_round_through` calls, two draws. -/
def quantizedRelu (π : Rat) (c : ReluCfg) (phase : Bool) (x u1 u2 : Rat) : Rat :=
  let nonSignBits := c.bits - (if c.negSlope = 0 then 0 else 1)
  let m := pow2 nonSignBits
  let mi := pow2 c.integer
  let p := x * m / mi
  let xq := mi * clip (roundThrough phase c.stoch π p u1 / m) 0 (1 - 1 / m)
  if 0 < c.negSlope then
    let negFactor := 1 / (c.negSlope * m)
    xq + mi * c.negSlope *
      clip (roundThrough phase c.stoch π (p * c.negSlope) u2 * negFactor) (-1) 0
  else xq

/-- `quantized_tanh.__call__`; `p` = `K.tanh(x)` or `2*_sigmoid(x)-1` (oracle argument). -/
def quantizedTanh (π : Rat) (bits : Int) (symmetric stoch phase : Bool) (p u : Rat) : Rat :=
  let m := pow2 (bits - 1)
  clip (roundThrough phase stoch π (p * m) u / m) (-1 + b2r symmetric / m) (1 - 1 / m)

/-- `quantized_sigmoid.__call__`; `p` = `K.sigmoid(x)` or `_sigmoid(x)` (oracle argument). -/
def quantizedSigmoid (π : Rat) (bits : Int) (symmetric stoch phase : Bool) (p u : Rat) : Rat :=
  let m := pow2 bits
  clip (roundThrough phase stoch π (p * m) u / m) (b2r symmetric / m) (1 - 1 / m)

/-! ## power-of-two classes -/

structure Po2Cfg where
  minExp : Int
  maxExp : Int
  maxValue : Option Rat
  stoch : Bool
  /-- `log2_rounding == "floor"` -/
  floorMode : Bool := false
  /-- `quadratic_approximation` -/
  quad : Bool := false
  deriving Repr

/-- `_need_exponent_sign_bit_check` -/
def needExpSignBit (maxValue : Option Rat) : Int :=
  match maxValue with
  | none => 1
  | some mv => if 1 < mv then 1 else 0

/-- `2**k` for the Python int exponent (negative `k` gives a float `2**k`; stays exact here) -/
def p2i (k : Int) : Int := if 0 ≤ k then ((2 ^ k.toNat : Nat) : Int) else 0

/-- `max_exp = 2 * (max_exp // 2)` under `quadratic_approximation` -/
def quadMaxExp (quad : Bool) (maxExp : Int) : Int := if quad then 2 * (maxExp / 2) else maxExp

/-- `quantized_po2.__init__` exponent range via `_get_min_max_exponents`; valid for
    `effect_bits ≥ 0`. -/
def po2CfgOf (bits : Int) (maxValue : Option Rat) (stoch : Bool)
    (floorMode : Bool := false) (quad : Bool := false) : Po2Cfg :=
  let eff := (bits - 1) - needExpSignBit maxValue
  { minExp := - p2i eff, maxExp := quadMaxExp quad (p2i eff - 1), maxValue := maxValue, stoch := stoch,
    floorMode := floorMode, quad := quad }

/-- `quantized_relu_po2.__init__` exponent range (`bits - need_exponent_sign_bit`). -/
def reluPo2CfgOf (bits : Int) (maxValue : Option Rat) (stoch : Bool)
    (floorMode : Bool := false) (quad : Bool := false) : Po2Cfg :=
  let eff := bits - needExpSignBit maxValue
  { minExp := - p2i eff, maxExp := quadMaxExp quad (p2i eff - 1), maxValue := maxValue, stoch := stoch,
    floorMode := floorMode, quad := quad }

/-- `x_filter` of `_clip_power_of_two` -/
def po2Filter (c : Po2Cfg) (xabs : Rat) : Rat :=
  let xf := if xabs < epsK then epsK else xabs
  match c.maxValue with
  | some mv => if mv ≤ xf then mv else xf
  | none => xf

/-- `x_input` of `power_of_two_clip`: `x_filter`, or `tf.sqrt(x_filter)` under
    `quadratic_approximation` — the float square root is the oracle argument `s`
    (DESIGN §3.2 device 2; the driver checks `s² ≈ x_filter` on every case). -/
def po2Input (c : Po2Cfg) (xabs s : Rat) : Rat := if c.quad then s else po2Filter c xabs

/-- `q_factor` -/
def po2Qf (c : Po2Cfg) : Int := if c.quad then 2 else 1

/-- `log2_rounding="floor"`: `x_rnd = round(log2 y)` (`e0`);
    `x_floor = tf.where(pow(2.0, x_rnd) > y, x_rnd - 1, x_rnd)`. -/
def floorFromRound (y : Rat) (e0 : Int) : Int := if y < pow2 e0 then e0 - 1 else e0

/-- the `if / elif / else` of `power_of_two_clip`, in the order the code tests it:
    `log2_rounding == "floor"` FIRST (the stochastic flag is not looked at in that branch),
    then `use_stochastic_rounding` (a `smart_cond` on the learning phase), else `_round_through`
    of the logarithm (no stochastic flag passed: `tf.round`).  Deterministic paths use the exact
    `roundLog2` (float error only matters in the `√2·2^k` band, device 3). -/
def po2Log2 (c : Po2Cfg) (phase : Bool) (y u : Rat) : Int :=
  if c.floorMode then floorFromRound y (roundLog2 y)
  else if c.stoch then (if phase then stochasticRoundPo2 y u else roundLog2 y)
  else roundLog2 y

/-- `_clip_power_of_two(x_abs, min_exp, max_exp, max_value, quad, stoch, log2_rounding)`: the
    exponent.  `s` = `tf.sqrt(x_filter)` (used only under `quadratic_approximation`). -/
def clipPowerOfTwo (c : Po2Cfg) (phase : Bool) (xabs s u : Rat) : Int :=
  if xabs < epsK then c.minExp
  else po2Qf c * clipI (po2Log2 c phase (po2Input c xabs s) u) c.minExp c.maxExp

/-- `quantized_po2.__call__` -/
def quantizedPo2 (c : Po2Cfg) (phase : Bool) (x s u : Rat) : Rat :=
  sgn1 x * pow2 (clipPowerOfTwo c phase (absR x) s u)

/-- `quantized_relu_po2.__call__`: two `_clip_power_of_two` calls, two draws.  Per element only
    one side has a magnitude ≥ eps (the other is `relu(∓x) = 0 < eps ↦ min_exp`), so one square-root
    oracle `s` (of the selected side) serves both calls. -/
def quantizedReluPo2 (c : Po2Cfg) (negSlope : Rat) (phase : Bool) (x s u1 u2 : Rat) : Rat :=
  let xPos := clipPowerOfTwo c phase (relu x 0) s u1
  let xNeg := clipPowerOfTwo c phase (relu (-x) 0 * negSlope) s u2
  if 0 ≤ x ∨ negSlope = 0 then pow2 xPos else - pow2 xNeg

/-! ## binary / ternary -/

/-- `binary.__call__` element-wise; `m` = `K.max(|x|)` over the reduction axes of the element's
    channel (argument), `alpha` numeric (`scale = alpha`, no tanh).  Draw `u1`: the
    `stochastic_round(x/f, 0.125)`; draw `u2`: `2*round(uniform)-1` for exact zeros. -/
def binaryQ (use01 stoch phase : Bool) (alpha x m u1 u2 : Rat) : Rat :=
  let mc := if 1 < m then 1 else m
  let f := 2 * mc
  let x' := if stoch && phase then f * roundThrough phase true (1 / 8) (x / f) u1 else x
  let k := sgn x'
  let k := if stoch then k + (1 - absR k) * (if phase then 2 * roundHE u2 - 1 else 1) else k
  let k := k + (1 - absR k)
  let k := if use01 then (k + 1) / 2 else k
  alpha * k

/-- phase 0 of `binary(use_stochastic_rounding=True)` multiplies by `tf.ones_like(x)` (repair
    65bdf0f; before it: `tf.ones_like(tf.shape(x))`, shape `[rank]`, which broadcast only for
    rank 1 or last dim = rank): every input shape keeps its shape. -/
def binaryInferShapeOk (_shape : List Nat) : Bool := true

/-- one unrolled iteration of `ternary.__call__` (alpha "auto*"): the code `q ∈ {-1,0,1}` given the
    current `scale`: `v = scale*_round_through(x/scale, stoch, 1/3); q = (|v| ≥ scale/2)*sign(x)` -/
def ternaryStep (stoch phase : Bool) (x scale u : Rat) : Rat :=
  let thres := scale / 2
  let v := scale * roundThrough phase stoch (1 / 3) (x / scale) u
  (if thres ≤ absR v then 1 else 0) * sgn x

/-- `ternary.__call__` with a numeric alpha (activation use): `q = (|x| ≥ thres)*k_sign`,
    `k_sign = sign(x)` with `0 ↦ +1` (so threshold 0 makes the input 0 a positive code, as in
    `binary`; the first build of this file had plain `sign`, which is what the code did before its
    threshold-0 repair — the definition was not used by any theorem or comparison then). -/
def ternaryNumeric (alpha thres x : Rat) : Rat :=
  alpha * ((if thres ≤ absR x then 1 else 0) * sgn1 x)

/-- `stochastic_binary.__call__`: `smart_cond(phase, stochastic_output, binary.__call__)`;
    `p` = sigmoid(temperature*x/std) (oracle), `r` the draw, `scale` the least-squares scale. -/
def stochasticBinary (phase : Bool) (alpha x p r : Rat) : Rat :=
  if phase then alpha * sgn1 (p - r)
  else binaryQ false false false alpha x 0 0 0

/-- `stochastic_ternary.__call__` code: `(q0 + q1)/2`, `qi = sign(pi - ri)` with `0 ↦ +1`;
    phase 0: `ternary.__call__` (argument `det`). -/
def stochasticTernaryCode (phase : Bool) (det p0 p1 r0 r1 : Rat) : Rat :=
  if phase then (sgn1 (p0 - r0) + sgn1 (p1 - r1)) / 2 else det

/-! ## constructors and whole-tensor calls of ternary / stochastic_ternary / binary / stochastic_binary

The last clause of the property ("with the training phase off the stochastic binary / ternary
quantizers return exactly their deterministic counterparts") compares two OBJECTS built from the same
constructor arguments, so the constructors are part of the model: `ternaryInit`,
`stochasticTernaryInit`, `binaryInit`, `stochasticBinaryInit` give the attributes the `__call__`s read,
and `ternaryCall` / `stochasticTernaryCall` are the calls on ONE channel of a tensor of rank > 1
(a column: `K.max`, `K.mean` reduce over it), including the `for _ in range(number_of_unrolls)`
scale / threshold iteration of the `alpha = "auto" / "auto_po2"` branch. -/

/-- the `alpha` argument of binary / ternary / stochastic_* -/
inductive Alpha where
  | none
  | num (a : Rat)
  | auto
  | autoPo2
  deriving DecidableEq, Repr

def Alpha.isAuto : Alpha → Bool
  | .auto => true
  | .autoPo2 => true
  | _ => false

/-- attributes of a `ternary` object that `ternary.__call__` reads -/
structure TernObj where
  alpha : Alpha
  threshold : Option Rat
  stoch : Bool          -- use_stochastic_rounding
  unrolls : Nat         -- number_of_unrolls
  deriving DecidableEq, Repr

/-- `ternary.__init__(alpha, threshold, use_stochastic_rounding, number_of_unrolls)` -/
def ternaryInit (alpha : Alpha) (threshold : Option Rat) (stoch : Bool) (unrolls : Nat) : TernObj :=
  { alpha := alpha, threshold := threshold, stoch := stoch, unrolls := unrolls }

/-- a `stochastic_ternary` object: the attributes of its base class `ternary` (read by
    `ternary.__call__(self, x)` at inference and by the scale loop of the training branch) and its own -/
structure STernObj where
  base : TernObj
  temperature : Rat
  realSigmoid : Bool
  deriving DecidableEq, Repr

/-- `stochastic_ternary.__init__(alpha, threshold, temperature, use_real_sigmoid, number_of_unrolls)`:
    `super().__init__(alpha=alpha, threshold=threshold, number_of_unrolls=number_of_unrolls)` (so
    `use_stochastic_rounding` keeps ternary's default `False`), then the re-assignments. -/
def stochasticTernaryInit (alpha : Alpha) (threshold : Option Rat) (temperature : Rat)
    (realSigmoid : Bool) (unrolls : Nat) : STernObj :=
  let b := ternaryInit alpha threshold false unrolls
  { base := { b with alpha := alpha, threshold := threshold, unrolls := unrolls },
    temperature := temperature, realSigmoid := realSigmoid }

/-- attributes of a `binary` object read by the element-wise part of `binary.__call__`
    (the scale-shape options `scale_axis`, `elements_per_scale`, `min/max_po2_exponent` only enter
    the least-squares scale, which is outside the model) -/
structure BinObj where
  use01 : Bool
  alpha : Alpha
  stoch : Bool
  deriving DecidableEq, Repr

/-- `binary.__init__(use_01, alpha, use_stochastic_rounding, ...)` -/
def binaryInit (use01 : Bool) (alpha : Alpha) (stoch : Bool) : BinObj :=
  { use01 := use01, alpha := alpha, stoch := stoch }

structure SBinObj where
  base : BinObj
  temperature : Rat
  realSigmoid : Bool
  deriving DecidableEq, Repr

/-- `stochastic_binary.__init__(alpha, temperature, use_real_sigmoid)`: `super().__init__(alpha=alpha)` -/
def stochasticBinaryInit (alpha : Alpha) (temperature : Rat) (realSigmoid : Bool) : SBinObj :=
  { base := binaryInit false alpha false, temperature := temperature, realSigmoid := realSigmoid }

def sumR (l : List Rat) : Rat := l.foldr (· + ·) 0
/-- `K.mean` over the reduction axes of one channel -/
def meanR (l : List Rat) : Rat := sumR l / (l.length : Rat)
/-- `K.max(tf.abs(x))` over the reduction axes of one channel -/
def maxAbs (l : List Rat) : Rat := l.foldr (fun x a => if a < absR x then absR x else a) 0

/-- `2^round(log2(s + eps))` of the "auto_po2" branches -/
def po2Round (s : Rat) : Rat := pow2 (roundLog2 (s + epsK))

/-- `_get_least_squares_scale(alpha, x, q)` for alpha "auto" / "auto_po2", one channel of a tensor of
    rank > 1: `qx/(qq + eps)` with `qx = mean(x*q)`, `qq = mean(q*q)`; "auto_po2" rounds it to a
    power of two. -/
def lsScale (po2 : Bool) (xs qs : List Rat) : Rat :=
  let qx := meanR (List.zipWith (· * ·) xs qs)
  let qq := meanR (List.zipWith (· * ·) qs qs)
  let s := qx / (qq + epsK)
  if po2 then po2Round s else s

/-- start of the iteration: `m = K.max|x|; scale = 2*m/3` (rounded to a power of two for "auto_po2") -/
def ternStart (po2 : Bool) (xs : List Rat) : Rat :=
  let s := 2 * maxAbs xs / 3
  if po2 then po2Round s else s

/-- the codes of one loop iteration with the current `scale` (`us`: the draw tensor of this
    iteration's `_round_through`; missing draws read as 0) -/
def ternCodes (stoch phase : Bool) (xs : List Rat) (scale : Rat) (us : List Rat) : List Rat :=
  (List.range xs.length).map fun i => ternaryStep stoch phase (xs.getD i 0) scale (us.getD i 0)

/-- `for _ in range(number_of_unrolls): ... q = ...; scale = _get_least_squares_scale(alpha, x, q)`;
    `draws`: one draw tensor per iteration, in order.  Returns `(q, scale)` after the loop. -/
def ternLoop (po2 stoch phase : Bool) (xs : List Rat) :
    Nat → Rat → List (List Rat) → List Rat → List Rat × Rat
  | 0, scale, _, q => (q, scale)
  | n + 1, scale, draws, _ =>
    let q := ternCodes stoch phase xs scale (draws.headD [])
    ternLoop po2 stoch phase xs n (lsScale po2 xs q) draws.tail q

/-- float32(0.33), `default_threshold` as the comparison `tf.abs(x) >= thres` sees it -/
def defaultThreshold : Rat := (11072963 : Rat) / 33554432

/-- `ternary.__call__(x)` on one channel (forward value `scale * q`; `none` = the call raises:
    the asserts of the two branches, and `number_of_unrolls = 0` leaves `q` unbound).
    alpha `None` returns `tanh(x) + (-tanh(x) + q)`; its exact value is the code `q`. -/
def ternaryCall (o : TernObj) (phase : Bool) (xs : List Rat) (draws : List (List Rat)) :
    Option (List Rat) :=
  match o.alpha with
  | .auto | .autoPo2 =>
    if o.threshold.isSome then none
    else if o.unrolls = 0 then none
    else
      let po2 := decide (o.alpha = .autoPo2)
      let r := ternLoop po2 o.stoch phase xs o.unrolls (ternStart po2 xs) draws []
      some (r.1.map fun q => r.2 * q)
  | .none =>
    if o.stoch then none
    else some (xs.map fun x => ternaryNumeric 1 (o.threshold.getD defaultThreshold) x)
  | .num a =>
    if o.stoch then none
    else some (xs.map fun x => ternaryNumeric a (o.threshold.getD defaultThreshold) x)

/-- `stochastic_ternary.__call__(x)` on one channel:
    `smart_cond(K.learning_phase(), stochastic_output, lambda: ternary.__call__(self, x))`.
    Training (alpha "auto*" only, else the assert fires): `scale * (q0 + q1)/2` with the sampling
    step `stochasticTernaryCode`; `p0 p1` the sigmoid values (oracle), `r0 r1` the draws, `scale`
    the result of the training branch's own scale loop (oracle argument). -/
def stochasticTernaryCall (o : STernObj) (phase : Bool) (xs : List Rat) (scale : Rat)
    (p0 p1 r0 r1 : List Rat) : Option (List Rat) :=
  if phase then
    if o.base.alpha.isAuto then
      some ((List.range xs.length).map fun i =>
        scale * stochasticTernaryCode true 0 (p0.getD i 0) (p1.getD i 0) (r0.getD i 0) (r1.getD i 0))
    else none
  else ternaryCall o.base false xs []

/-- the element-wise part of `binary.__call__` for a numeric / absent alpha (`scale = alpha`, 1 for
    `None`); "auto*" scales are outside the model (`none`) -/
def binaryCall (o : BinObj) (phase : Bool) (xs ms u1 u2 : List Rat) : Option (List Rat) :=
  let go (a : Rat) := some ((List.range xs.length).map fun i =>
    binaryQ o.use01 o.stoch phase a (xs.getD i 0) (ms.getD i 0) (u1.getD i 0) (u2.getD i 0))
  match o.alpha with
  | .none => go 1
  | .num a => go a
  | _ => none

/-- `stochastic_binary.__call__`, numeric / absent alpha:
    `smart_cond(K.learning_phase(), stochastic_output, lambda: binary.__call__(self, x))` -/
def stochasticBinaryCall (o : SBinObj) (phase : Bool) (xs ps rs : List Rat) : Option (List Rat) :=
  if phase then
    match o.base.alpha with
    | .none => some ((List.range xs.length).map fun i => stochasticBinary true 1 (xs.getD i 0) (ps.getD i 0) (rs.getD i 0))
    | .num a => some ((List.range xs.length).map fun i => stochasticBinary true a (xs.getD i 0) (ps.getD i 0) (rs.getD i 0))
    | _ => none
  else binaryCall o.base false xs [] [] []

/-! ## layer objects that hold a quantizer, used several times (qkeras/qlayers.py)

`QActivation.call(inputs)` is `return self.quantizer(inputs)`; `QDense` / `QConv*` end their `call`
with `output = self.activation(output)` and quantize their kernel with
`self.kernel_quantizer_internal(self.kernel)`; `tf.keras.layers.Activation(q)` calls `q(inputs)`.
In all of them the quantizer reads `K.learning_phase()` AT THE TIME OF THE CALL: the layer object
keeps no state between calls.  The alternative — a `call` wrapped in a per-input-signature trace
(`@tf.function`, Keras' cached `predict_function`) — resolves `smart_cond(K.learning_phase(), ..)`
once, when the signature is traced (in eager mode the phase is a Python int), and replays that
branch, and the random ops recorded in it, on every later call with the same signature.
`layerStep` models both with one flag. -/

/-- one call of a layer object: the learning phase at call time, an id of the input signature
    (shape / dtype), the input, and the draws `tf.random.uniform` returns during this call -/
structure LCall (α β : Type) where
  phase : Bool
  sig : Nat
  x : α
  u : β

/-- trace cache: input signature ↦ (learning phase at trace time, draws recorded at trace time) -/
abbrev LCache (β : Type) := List (Nat × Bool × β)

/-- one call of the layer around the quantizer `q phase x u`; `traced = false`: eager `call`
    (the code as written); `traced = true`: `call` behind a per-signature trace cache -/
def layerStep {α β γ : Type} (traced : Bool) (q : Bool → α → β → γ) (cache : LCache β)
    (c : LCall α β) : γ × LCache β :=
  if traced then
    match cache.lookup c.sig with
    | some (ph, u) => (q ph c.x u, cache)
    | none => (q c.phase c.x c.u, (c.sig, c.phase, c.u) :: cache)
  else (q c.phase c.x c.u, cache)

/-- the outputs of a whole history of calls on ONE layer object -/
def layerRun {α β γ : Type} (traced : Bool) (q : Bool → α → β → γ) :
    LCache β → List (LCall α β) → List γ
  | _, [] => []
  | cache, c :: rest =>
    let r := layerStep traced q cache c
    r.1 :: layerRun traced q r.2 rest

/-- `QActivation.call`, the `activation=` / `kernel_quantizer=` slots of the Q layers, keras
    `Activation(q)`, `Model.__call__`: eager -/
def qactivationTraced : Bool := false

/-- `Model.predict` / `predict_on_batch` of tf_keras: `make_predict_function` builds ONE
    `tf.function` per model object and caches it (`self.predict_function`) -/
def kerasPredictTraced : Bool := true

/-! ## the property's reference notions (used by the clause oracle and by Props/C08.lean)

A fixed-point class is a lattice `post·(k + off)`, `k` an integer, clipped to level bounds
`lo ≤ k+off ≤ hi`; `p` is the input in level units. -/
structure Lat where
  post : Rat
  off : Rat
  lo : Rat
  hi : Rat
  deriving Repr

def Lat.lvl (L : Lat) (p : Rat) : Rat := clip p L.lo L.hi - L.off
/-- the clipped input, in output units -/
def Lat.clipped (L : Lat) (p : Rat) : Rat := L.post * clip p L.lo L.hi
/-- the code just below / just above the clipped input (equal when it is a code) -/
def Lat.below (L : Lat) (p : Rat) : Rat := L.post * (fl (L.lvl p) + L.off)
def Lat.above (L : Lat) (p : Rat) : Rat := L.post * (ce (L.lvl p) + L.off)
/-- probability of rounding up that unbiasedness requires -/
def Lat.frac (L : Lat) (p : Rat) : Rat := L.lvl p - fl (L.lvl p)
/-- `y` is a code of the lattice -/
def Lat.isCode (L : Lat) (y : Rat) : Bool :=
  let t := y / L.post
  decide ((t - L.off).den = 1) && decide (L.lo ≤ t) && decide (t ≤ L.hi)

def bitsLat (c : BitsCfg) : Lat :=
  let m := pow2 (c.bits - b2z c.keepNegative)
  { post := c.alpha * pow2 c.integer / m, off := 0,
    lo := b2r c.keepNegative * (-m + b2r c.symmetric), hi := m - 1 }
def bitsLevel (c : BitsCfg) (x : Rat) : Rat :=
  x * pow2 (c.bits - b2z c.keepNegative) / pow2 c.integer

def linLat (c : BitsCfg) : Lat :=
  { post := linScale c, off := if linSign c then 1 / 2 else 0,
    lo := (linClipBounds c).1, hi := (linClipBounds c).2 }
def linLevel (c : BitsCfg) (x : Rat) : Rat := x / linScale c

/-- positive side of `quantized_relu` (also all of it when `negative_slope = 0`) -/
def reluLat (c : ReluCfg) : Lat :=
  let m := pow2 (c.bits - (if c.negSlope = 0 then 0 else 1))
  { post := pow2 c.integer / m, off := 0, lo := 0, hi := m - 1 }
def reluLevel (c : ReluCfg) (x : Rat) : Rat :=
  x * pow2 (c.bits - (if c.negSlope = 0 then 0 else 1)) / pow2 c.integer

def tanhLat (bits : Int) (symmetric : Bool) : Lat :=
  let m := pow2 (bits - 1)
  { post := 1 / m, off := 0, lo := -m + b2r symmetric, hi := m - 1 }
def sigmoidLat (bits : Int) (symmetric : Bool) : Lat :=
  let m := pow2 bits
  { post := 1 / m, off := 0, lo := b2r symmetric, hi := m - 1 }

/-! power-of-two reference notions.  The codes are `2^(qf·k)`, `min_exp ≤ k ≤ max_exp`
    (`qf = 2` under quadratic approximation); `l` with `2^(qf·l) ≤ x_filter < 2^(qf·(l+1))`
    (the driver re-checks this bracketing on every case, so `floorLog2Rat` is not trusted). -/
def po2Floor (c : Po2Cfg) (xabs : Rat) : Int :=
  let l := floorLog2Rat (po2Filter c xabs)
  if c.quad then l / 2 else l
def po2IsPow (c : Po2Cfg) (xabs : Rat) : Bool :=
  decide (po2Filter c xabs = pow2 (po2Qf c * po2Floor c xabs))
/-- exponent of the code just below / above the clipped input -/
def po2BelowExp (c : Po2Cfg) (xabs : Rat) : Int :=
  if xabs < epsK then c.minExp else po2Qf c * clipI (po2Floor c xabs) c.minExp c.maxExp
def po2AboveExp (c : Po2Cfg) (xabs : Rat) : Int :=
  if xabs < epsK then c.minExp
  else if po2IsPow c xabs then po2Qf c * clipI (po2Floor c xabs) c.minExp c.maxExp
  else po2Qf c * clipI (po2Floor c xabs + 1) c.minExp c.maxExp
/-- probability of the upper code that unbiasedness requires: `(y - lo)/(hi - lo)` for the
    bracketing codes `lo = 2^(qf·l)`, `hi = 2^(qf·(l+1))` -/
def po2Frac (c : Po2Cfg) (xabs : Rat) : Rat :=
  let y := po2Filter c xabs
  let l := po2Floor c xabs
  (y - pow2 (po2Qf c * l)) / (pow2 (po2Qf c * (l + 1)) - pow2 (po2Qf c * l))
/-- hypothesis on the log oracle under which the bracketing of `stochastic_round_po2` is right -/
def po2H (y : Rat) (e0 : Int) : Bool := decide (pow2 (e0 - 1) < y) && decide (y < pow2 (e0 + 1))

end QKV.Stoch
