/-
  QKV.Model.BinTerSR — the `use_stochastic_rounding` option of `binary` / `ternary` and the learning
  phase (`K.learning_phase()`), qkeras/quantizers.py `binary.__call__`, `ternary.__call__`,
  `_round_through`, `stochastic_round` (strengthening round V04, seed C04-12).  Core Lean only; a NEW
  file on top of Model/BinTer.lean (which is shared with C05 and left untouched).

  With the option set, `binary.__call__`
    * in the TRAINING phase replaces `x` by the carrier `f * _round_through(x / f, True, 0.125)`
      (`f = 2 * min(max|x|, 1)` per output channel, 1 for an all-zero channel);
    * fills the zeros of `tf.sign` with `+-1` drawn at random in training and with `1` in inference
      ("a biased 1"), BEFORE the unconditional `k_sign += 1 - |k_sign|`.
  The random draws enter as oracle inputs (`SRDraw`, device 2): `up` = floor / ceil choice of
  `stochastic_round`, `u` = the fill `2 * round(U) - 1`.
-/
import QKV.Model.BinTer
namespace QKV.BT
open QKV QKV.Tn

/-- `K.learning_phase()` as `smart_cond` reads it -/
inductive Phase
  | inference
  | training
  deriving Repr, DecidableEq

/-- the "sign with 0 -> +1" step of `binary.__call__` AS WRITTEN:
    ```
    k_sign = tf.sign(x)
    if self.use_stochastic_rounding:
      k_sign += (1.0 - tf.abs(k_sign)) * smart_cond(phase, 2*round(U)-1, ones)     # `fill`
    k_sign += (1.0 - tf.abs(k_sign))              # the mask is recomputed AFTER the fill
    if self.use_01: k_sign = (k_sign + 1.0) / 2.0
    ``` -/
def binCodeSR (usr use01 : Bool) (fill x : Rat) : Rat :=
  let k0 := sgn x
  let k1 := if usr then k0 + (1 - rabs k0) * fill else k0
  let k2 := k1 + (1 - rabs k1)
  if use01 then (k2 + 1) / 2 else k2

/-- the value of the `smart_cond` of the fill: ones in inference, the draw in training -/
def fillOf : Phase → Rat → Rat
  | .inference, _ => 1
  | .training, u => u

/-- `m = max|x|` over the channel axes; `m = where(m > 1, 1, m)`; `f = 2 * m` (exact: a doubling);
    `f = where(f > 0, f, 1)` — per element, broadcast (`mk` = keys of the max reduction) -/
def srNorm (mk : List (List Nat)) (x : List Rat) : List Rat :=
  mk.map fun k =>
    let m := maxL (groupOf mk (x.map rabs) k)
    let m := if 1 < m then 1 else m
    let f := 2 * m
    if 0 < f then f else 1

/-- `stochastic_round(z, 0.125)`: `floor(8 z) / 8` or `ceil(8 z) / 8` (`up` = the draw `fraction >= U`);
    `8 z` and `n / 8` are exact in binary floating point -/
def srRound (up : Bool) (z : Rat) : Rat :=
  let n : Int := if up then -((-(8 * z)).floor) else (8 * z).floor
  (n : Rat) / 8

/-- the carrier of the training phase: `f * (z + stop_gradient(-z + stochastic_round(z)))`, `z = x / f` -/
def srCarrier (c : Fl) (f : Rat) (up : Bool) (x : Rat) : Rat :=
  let z := c.r (x / f)
  c.r (f * ste c z (srRound up z))

/-- the random draws of one call in the training phase (one entry per element, row-major) -/
structure SRDraw where
  up : List Bool
  u : List Rat
  deriving Repr

/-- `binary` (Model/BinTer.lean) with the tensor the scale is computed from (`carrier`) and the codes
    handed in: the tail of `binary.__call__` after the code step -/
def binaryWith (c : Fl) (cfg : BinCfg) (shape : List Nat) (x codes : List Rat) : Except Err (List Elt) :=
  let mk (scales : List Rat) : List Elt :=
    ((x.zip codes).zip scales).map fun p => { x := p.1.1, code := p.1.2, scale := p.2, y := c.r (p.2 * p.1.2) }
  match cfg.alpha with
  | .none => .ok (mk (x.map fun _ => 1))
  | .const a => .ok (mk (x.map fun _ => a))
  | .arr ash vals =>
    match arrScales ash vals shape with
    | .error e => .error e
    | .ok s => .ok (mk s)
  | .auto | .autoPo2 =>
    match keys cfg.grp shape with
    | .error e => .error e
    | .ok (pk, ck) =>
      .ok (mk (lsScales c (cfg.alpha == .autoPo2) cfg.minE cfg.maxE shape.length pk ck x codes))

/-- the carrier of a call: `x` itself unless the option is set AND the phase is training -/
def srCarriers (c : Fl) (chLast : Bool) (usr : Bool) (ph : Phase) (d : SRDraw) (shape : List Nat)
    (x : List Rat) : List Rat :=
  match usr, ph with
  | true, .training =>
    let f := srNorm (maxKeys (terMaxAxes chLast shape.length) shape) x
    ((f.zip d.up).zip x).map fun p => srCarrier c p.1.1 p.1.2 p.2
  | _, _ => x

/-- the fills of a call (one per element): the draws when the option is set AND the phase is training, ones in
    inference; without the option the fill is not evaluated (ones here, `binCodeSR false` ignores it) -/
def srFills (usr : Bool) (ph : Phase) (d : SRDraw) (x : List Rat) : List Rat :=
  match usr, ph with
  | true, .training => d.u
  | _, _ => x.map fun _ => 1

/-- `binary(..., use_stochastic_rounding=usr)(x)` under learning phase `ph` -/
def binarySR (c : Fl) (cfg : BinCfg) (usr : Bool) (ph : Phase) (d : SRDraw) (shape : List Nat)
    (x : List Rat) : Except Err (List Elt) :=
  let xc := srCarriers c cfg.grp.chLast usr ph d shape x
  let codes := (xc.zip (srFills usr ph d xc)).map fun p => binCodeSR usr cfg.use01 p.2 p.1
  binaryWith c cfg shape xc codes

/-- the codes one element may show in the TRAINING phase with the option set: every floor / ceil draw
    and every fill draw (duplicates kept) -/
def srAdmissible (c : Fl) (use01 : Bool) (f x : Rat) : List Rat :=
  [(false, (1 : Rat)), (false, -1), (true, 1), (true, -1)].map fun p =>
    binCodeSR true use01 p.2 (srCarrier c f p.1 x)

/-- the call on a live object (Model/BinTer.lean `BinObj.call`) with the option and the phase; the option
    is read by truthiness (`if self.use_stochastic_rounding:`), so `usr` is its truth value -/
def BinObj.callSR (c : Fl) (env : Env) (usr : Bool) (ph : Phase) (d : SRDraw) (o : BinObj)
    (shape : List Nat) (x : List Rat) : Except Err (List Elt) × BinObj :=
  match o.a.cfg env shape.length with
  | .error e => (.error e, o)
  | .ok cfg =>
    match binarySR c cfg usr ph d shape x with
    | .error e => (.error e, o)
    | .ok es => (.ok es, { o with scale := some (es.map (·.scale)) })

/-! ### histories with phase switches and the option as an attribute -/

/-- operations on a live object whose option / phase may change -/
inductive SROp
  | base (op : BinOp)                    -- everything of Model/BinTer.lean (calls, setters, format)
  | setUsr (b : Bool)                    -- `q.use_stochastic_rounding = b`
  | setPhase (ph : Phase)                -- `K.set_learning_phase(...)`

structure SRSt where
  st : BinSt
  usr : Bool
  ph : Phase

/-- one step; `draw k` = the draws of the k-th output (only consulted in training with the option) -/
def srStep (c : Fl) (draw : Nat → SRDraw) (s : SRSt) : SROp → SRSt
  | .base (.call shape x) =>
    let r := s.st.obj.callSR c s.st.env s.usr s.ph (draw s.st.outs.length) shape x
    { s with st := { env := s.st.env, obj := r.2, outs := s.st.outs ++ [r.1] } }
  | .base (.callNp shape x) =>
    let r := s.st.obj.callSR c s.st.env s.usr s.ph (draw s.st.outs.length) shape x
    { s with st := { env := s.st.env, obj := r.2, outs := s.st.outs ++ [r.1] } }
  | .base op => { s with st := binStep c s.st op }
  | .setUsr b => { s with usr := b }
  | .setPhase ph => { s with ph := ph }

def srRun (c : Fl) (draw : Nat → SRDraw) (s : SRSt) (ops : List SROp) : SRSt := ops.foldl (srStep c draw) s

/-- the operations of Model/BinTer.lean contained in a history -/
def srBase : List SROp → List BinOp
  | [] => []
  | .base op :: t => op :: srBase t
  | _ :: t => srBase t

/-- no operation of the history enters the training phase -/
def srInference : List SROp → Bool
  | [] => true
  | .setPhase .training :: _ => false
  | _ :: t => srInference t

/-! ### ternary -/

/-- `ternary(..., use_stochastic_rounding=usr)(x)` in the INFERENCE phase: the option is only legal with a
    data-dependent alpha (`assert not self.use_stochastic_rounding` on the activation path); there
    `_round_through(x / scale, True, 1/3)` is `tf.round` in inference, i.e. the option changes nothing -/
def ternarySRInf (c : Fl) (cfg : TerCfg) (usr : Bool) (shape : List Nat) (x : List Rat) :
    Except Err (List Elt) :=
  match usr, cfg.alpha with
  | true, .auto => ternary c cfg shape x
  | true, .autoPo2 => ternary c cfg shape x
  | true, _ => .error .assert
  | false, _ => ternary c cfg shape x

end QKV.BT
