/-
  QKV.Model.BinTer — `binary.__call__`, `ternary.__call__`, `_get_least_squares_scale`,
  `_get_scale_mean`, `_clip_po2_scale` of qkeras/quantizers.py (deterministic path:
  use_stochastic_rounding = False; gradients are C06's business).  Core Lean only.

  Everything is parameterised by a float context `Fl` (Model/F32Sim.lean): with `Fl.exact` the
  functions are the exact-rational model the theorems speak about, with `Fl.f32` they are the
  float32 computation (each inexact operation rounded once), which the harness compares
  bit-for-bit in the exact regime.
-/
import QKV.Model.TensorQ
import QKV.Model.F32Sim
namespace QKV.BT
open QKV QKV.Tn

/-- `alpha`: None / a constant / "auto" / "auto_po2" -/
inductive Alpha
  | none
  | const (a : Rat)
  | auto
  | autoPo2
  deriving Repr, DecidableEq

/-! ### `_get_least_squares_scale` -/

/-- `K.mean(v, axis, keepdims=True)` of one group: float sum, then division by the count -/
def meanR (c : Fl) (vals : List Rat) : Rat := c.r (c.r vals.sum / (vals.length : Rat))

/-- `qx / (qq + K.epsilon())` of one group of `(x_j, q_j)` pairs (rank ≥ 2: means over the group) -/
def lsRaw (c : Fl) (g : List (Rat × Rat)) : Rat :=
  let qx := meanR c (g.map fun p => c.r (p.1 * p.2))
  let qq := meanR c (g.map fun p => c.r (p.2 * p.2))
  c.r (qx / c.r (qq + c.eps))

/-- rank ≤ 1: "No summing (averaging) along the channel axis": `qx = x*q`, `qq = q*q` -/
def lsRaw1 (c : Fl) (x q : Rat) : Rat := c.r (c.r (x * q) / c.r (c.r (q * q) + c.eps))

/-- `K.pow(2.0, tf.math.round(K.log(scale + K.epsilon()) / np.log(2.0)))` -/
def po2Of (c : Fl) (s : Rat) : Rat := pow2 (c.lg (c.r (s + c.eps)))

/-- `_clip_po2_scale`: `K.clip(scale, 2**min or -inf, 2**max or +inf)`; Keras' clip raises `max` to
    `min` when both are numbers and `max < min`; `tf.clip_by_value` = `max(min(x, hi), lo)` -/
def clipPo2 (minE maxE : Option Int) (s : Rat) : Rat :=
  let lo := minE.map pow2
  let hi : Option Rat := match lo, maxE.map pow2 with
    | some l, some h => some (if h < l then l else h)
    | _, h => h
  let t := match hi with
    | some h => if h < s then h else s
    | Option.none => s
  match lo with
  | some l => if t < l then l else t
  | Option.none => t

/-- the tail of `_get_least_squares_scale` after `scale = qx / (qq + eps)` -/
def lsFinish (c : Fl) (po2 : Bool) (minE maxE : Option Int) (raw : Rat) : Rat :=
  if po2 then clipPo2 minE maxE (po2Of c raw) else raw

/-- per-element (already broadcast) scales of `_get_least_squares_scale(alpha ∈ auto*, x, q, …)`
    given the producer / consumer keys of `Tn.keys` -/
def lsScales (c : Fl) (po2 : Bool) (minE maxE : Option Int) (rank : Nat)
    (pk ck : List (List Nat)) (x q : List Rat) : List Rat :=
  if rank ≤ 1 then (x.zip q).map fun p => lsFinish c po2 minE maxE (lsRaw1 c p.1 p.2)
  else ck.map fun k => lsFinish c po2 minE maxE (lsRaw c (groupOf pk (x.zip q) k))

/-! ### binary -/

structure BinCfg where
  use01 : Bool
  alpha : Alpha
  grp : Grp
  minE : Option Int
  maxE : Option Int
  deriving Repr

/-- `k_sign = sign(x); k_sign += 1 - |k_sign|; if use_01: k_sign = (k_sign + 1) / 2` -/
def binCode (use01 : Bool) (x : Rat) : Rat :=
  let k : Rat := if x < 0 then -1 else 1
  if use01 then (k + 1) / 2 else k

/-- one output element with everything the clauses talk about -/
structure Elt where
  x : Rat        -- input
  code : Rat     -- the code
  scale : Rat    -- the (broadcast) scale applied to it = `q.scale` at its position
  y : Rat        -- `scale * code` as the float computation forms it (`c.r`)
  deriving Repr

/-- value of `binary(...)(x)` before the straight-through wrapper, plus `q.scale` per element.
    `xs` is the tensor the scale is computed from: `x` itself, or `tanh x` when alpha is None (then the
    scale is the constant 1 and `xs` is irrelevant for the result). -/
def binary (c : Fl) (cfg : BinCfg) (shape : List Nat) (x : List Rat) : Except Err (List Elt) :=
  let codes := x.map (binCode cfg.use01)
  let mk (scales : List Rat) : List Elt :=
    ((x.zip codes).zip scales).map fun p => { x := p.1.1, code := p.1.2, scale := p.2, y := c.r (p.2 * p.1.2) }
  match cfg.alpha with
  | .none => .ok (mk (x.map fun _ => 1))
  | .const a => .ok (mk (x.map fun _ => a))
  | .auto | .autoPo2 =>
    match keys cfg.grp shape with
    | .error e => .error e
    | .ok (pk, ck) =>
      .ok (mk (lsScales c (cfg.alpha == .autoPo2) cfg.minE cfg.maxE shape.length pk ck x codes))

/-! ### ternary -/

structure TerCfg where
  alpha : Alpha
  thres : Rat            -- `threshold`, or `default_threshold` (0.33 as float32) when None
  chLast : Bool
  unrolls : Nat          -- number_of_unrolls
  deriving Repr

/-- fixed-threshold branch: `K.cast(|x| >= thres) * sign(x)` -/
def terCodeFixed (thres x : Rat) : Rat := if thres ≤ rabs x then sgn x else 0

/-- one element of the `auto` loop body for the current (broadcast) scale `s`:
      v = scale * round(x / scale);  q = cast(|v| >= scale/2) * sign(x)
    A zero scale makes `x/scale` NaN or ±inf, `scale * round(·)` NaN, the comparison False: q = 0. -/
def terCodeAuto (c : Fl) (s x : Rat) : Rat :=
  if s = 0 then 0
  else
    let v := c.r (s * ((roundTie .even (c.r (x / s)) : Int) : Rat))
    if s / 2 ≤ rabs v then sgn x else 0

/-- the axes of `K.max(|x|, axis, keepdims=True)` in ternary: None (everything) for rank 1 -/
def terMaxAxes (chLast : Bool) (rank : Nat) : List Nat :=
  if rank ≤ 1 then List.range rank
  else if chLast then List.range (rank - 1) else (List.range rank).filter (fun i => decide (1 ≤ i))

/-- state of the unroll loop: the codes of the last pass and the scale after it -/
structure TerState where
  q : List Rat
  s : List Rat

/-- one pass: codes from the current scale, then `_get_least_squares_scale(alpha, x, q)` (defaults:
    scale_axis None, no elements_per_scale, no exponent bounds) -/
def terStep (c : Fl) (po2 : Bool) (rank : Nat) (pk ck : List (List Nat)) (x : List Rat) (st : TerState) : TerState :=
  let q := (st.s.zip x).map fun p => terCodeAuto c p.1 p.2
  { q := q, s := lsScales c po2 none none rank pk ck x q }

def terLoop (c : Fl) (po2 : Bool) (rank : Nat) (pk ck : List (List Nat)) (x : List Rat) : Nat → TerState → TerState
  | 0, st => st
  | n + 1, st => terLoop c po2 rank pk ck x n (terStep c po2 rank pk ck x st)

/-- `scale = 2*m/3` (then the po2 rounding) per group of the max reduction, broadcast -/
def terInitScale (c : Fl) (po2 : Bool) (mk : List (List Nat)) (x : List Rat) : List Rat :=
  mk.map fun k =>
    let m := maxL (groupOf mk (x.map rabs) k)
    let s := c.r (2 * m / 3)
    if po2 then po2Of c s else s

def ternary (c : Fl) (cfg : TerCfg) (shape : List Nat) (x : List Rat) : Except Err (List Elt) :=
  let mk (codes scales : List Rat) : List Elt :=
    ((x.zip codes).zip scales).map fun p => { x := p.1.1, code := p.1.2, scale := p.2, y := c.r (p.2 * p.1.2) }
  match cfg.alpha with
  | .none => .ok (mk (x.map (terCodeFixed cfg.thres)) (x.map fun _ => 1))
  | .const a => .ok (mk (x.map (terCodeFixed cfg.thres)) (x.map fun _ => a))
  | .auto | .autoPo2 =>
    if cfg.unrolls = 0 then .error .assert      -- `q` would be unbound (NameError)
    else
      let po2 := cfg.alpha == .autoPo2
      match keys { chLast := cfg.chLast, sa := .none, eps := .none } shape with
      | .error e => .error e
      | .ok (pk, ck) =>
        let s0 := terInitScale c po2 (maxKeys (terMaxAxes cfg.chLast shape.length) shape) x
        let st := terLoop c po2 shape.length pk ck x cfg.unrolls { q := [], s := s0 }
        .ok (mk st.q st.s)

end QKV.BT
