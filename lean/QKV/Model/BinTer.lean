/-
  QKV.Model.BinTer — `binary.__call__`, `ternary.__call__`, `_get_least_squares_scale`,
  `_get_scale_mean`, `_clip_po2_scale` of qkeras/quantizers.py (deterministic path:
  use_stochastic_rounding = False; gradients are C06's business).  Core Lean only.

  Everything is parameterised by a float context `Fl` (Model/F32Sim.lean): with `Fl.exact` the
  functions are the exact-rational model the theorems speak about, with `Fl.f32` they are the
  float32 computation (each inexact operation rounded once), which the harness compares
  bit-for-bit in the exact regime.
-/
import QKV.Model.TensorQ
import QKV.Model.F32Sim
namespace QKV.BT
open QKV QKV.Tn

/-- `alpha` after the dispatch of `binary.__call__` / `ternary.__call__` / `_get_least_squares_scale`:
    None / a constant (`float(alpha)`) / "auto" / "auto_po2" / an `np.ndarray` used as it is
    (`elif isinstance(alpha, np.ndarray): scale = alpha`; row-major values, broadcast against the input) -/
inductive Alpha
  | none
  | const (a : Rat)
  | auto
  | autoPo2
  | arr (ashape : List Nat) (vals : List Rat)
  deriving Repr, DecidableEq

/-! ### broadcasting an ndarray `alpha` against the input -/

/-- numpy / TF broadcasting of an array of shape `ash` TO a tensor of shape `shape`: right-aligned, every
    dimension of the array is 1 or equals the tensor's.  (An array that would broadcast the INPUT up —
    more axes, or a dimension > 1 against a dimension 1 — makes TF return a tensor larger than the input;
    that is outside the model and rejected here like an incompatible shape, which TF rejects too.) -/
def bcastOk (ash shape : List Nat) : Bool :=
  decide (ash.length ≤ shape.length) &&
  (List.range ash.length).all fun d =>
    ash.getD d 1 == 1 || ash.getD d 1 == shape.getD (d + (shape.length - ash.length)) 0

/-- multi-index of the array entry read at multi-index `idx` of the tensor -/
def arrMIdx (ash : List Nat) (rank : Nat) (idx : List Nat) : List Nat :=
  (List.range ash.length).map fun d => if ash.getD d 1 = 1 then 0 else idx.getD (d + (rank - ash.length)) 0

/-- flat (row-major) position of the array entry read by flat position `i` of the tensor -/
def arrIdx (ash shape : List Nat) (i : Nat) : Nat := ravel ash (arrMIdx ash shape.length (unravel shape i))

/-- the array broadcast to the tensor: one scale per position -/
def arrScales (ash : List Nat) (vals : List Rat) (shape : List Nat) : Except Err (List Rat) :=
  if bcastOk ash shape && vals.length == prodL ash then
    .ok ((List.range (prodL shape)).map fun i => vals.getD (arrIdx ash shape i) 0)
  else .error .valueError

/-! ### `_get_least_squares_scale` -/

/-- `K.mean(v, axis, keepdims=True)` of one group: float sum, then division by the count -/
def meanR (c : Fl) (vals : List Rat) : Rat := c.r (c.r vals.sum / (vals.length : Rat))

/-- `qx / (qq + K.epsilon())` of one group of `(x_j, q_j)` pairs (rank ≥ 2: means over the group) -/
def lsRaw (c : Fl) (g : List (Rat × Rat)) : Rat :=
  let qx := meanR c (g.map fun p => c.r (p.1 * p.2))
  let qq := meanR c (g.map fun p => c.r (p.2 * p.2))
  c.r (qx / c.r (qq + c.eps))

/-- rank ≤ 1: "No summing (averaging) along the channel axis": `qx = x*q`, `qq = q*q` -/
def lsRaw1 (c : Fl) (x q : Rat) : Rat := c.r (c.r (x * q) / c.r (c.r (q * q) + c.eps))

/-- `K.pow(2.0, tf.math.round(K.log(scale + K.epsilon()) / np.log(2.0)))` -/
def po2Of (c : Fl) (s : Rat) : Rat := pow2 (c.lg (c.r (s + c.eps)))

/-- `_clip_po2_scale`: `K.clip(scale, 2**min or -inf, 2**max or +inf)`; Keras' clip raises `max` to
    `min` when both are numbers and `max < min`; `tf.clip_by_value` = `max(min(x, hi), lo)` -/
def clipPo2 (minE maxE : Option Int) (s : Rat) : Rat :=
  let lo := minE.map pow2
  let hi : Option Rat := match lo, maxE.map pow2 with
    | some l, some h => some (if h < l then l else h)
    | _, h => h
  let t := match hi with
    | some h => if h < s then h else s
    | Option.none => s
  match lo with
  | some l => if t < l then l else t
  | Option.none => t

/-- the tail of `_get_least_squares_scale` after `scale = qx / (qq + eps)` -/
def lsFinish (c : Fl) (po2 : Bool) (minE maxE : Option Int) (raw : Rat) : Rat :=
  if po2 then clipPo2 minE maxE (po2Of c raw) else raw

/-- per-element (already broadcast) scales of `_get_least_squares_scale(alpha ∈ auto*, x, q, …)`
    given the producer / consumer keys of `Tn.keys` -/
def lsScales (c : Fl) (po2 : Bool) (minE maxE : Option Int) (rank : Nat)
    (pk ck : List (List Nat)) (x q : List Rat) : List Rat :=
  if rank ≤ 1 then (x.zip q).map fun p => lsFinish c po2 minE maxE (lsRaw1 c p.1 p.2)
  else ck.map fun k => lsFinish c po2 minE maxE (lsRaw c (groupOf pk (x.zip q) k))

/-! ### binary -/

structure BinCfg where
  use01 : Bool
  alpha : Alpha
  grp : Grp
  minE : Option Int
  maxE : Option Int
  deriving Repr

/-- `k_sign = sign(x); k_sign += 1 - |k_sign|; if use_01: k_sign = (k_sign + 1) / 2` -/
def binCode (use01 : Bool) (x : Rat) : Rat :=
  let k : Rat := if x < 0 then -1 else 1
  if use01 then (k + 1) / 2 else k

/-- one output element with everything the clauses talk about -/
structure Elt where
  x : Rat        -- input
  code : Rat     -- the code
  scale : Rat    -- the (broadcast) scale applied to it = `q.scale` at its position
  y : Rat        -- `scale * code` as the float computation forms it (`c.r`)
  deriving Repr

/-- value of `binary(...)(x)` before the straight-through wrapper, plus `q.scale` per element.
    `xs` is the tensor the scale is computed from: `x` itself, or `tanh x` when alpha is None (then the
    scale is the constant 1 and `xs` is irrelevant for the result). -/
def binary (c : Fl) (cfg : BinCfg) (shape : List Nat) (x : List Rat) : Except Err (List Elt) :=
  let codes := x.map (binCode cfg.use01)
  let mk (scales : List Rat) : List Elt :=
    ((x.zip codes).zip scales).map fun p => { x := p.1.1, code := p.1.2, scale := p.2, y := c.r (p.2 * p.1.2) }
  match cfg.alpha with
  | .none => .ok (mk (x.map fun _ => 1))
  | .const a => .ok (mk (x.map fun _ => a))
  | .arr ash vals =>
    match arrScales ash vals shape with
    | .error e => .error e
    | .ok s => .ok (mk s)
  | .auto | .autoPo2 =>
    match keys cfg.grp shape with
    | .error e => .error e
    | .ok (pk, ck) =>
      .ok (mk (lsScales c (cfg.alpha == .autoPo2) cfg.minE cfg.maxE shape.length pk ck x codes))

/-! ### ternary -/

structure TerCfg where
  alpha : Alpha
  thres : Rat            -- `threshold`, or `default_threshold` (0.33 as float32) when None
  chLast : Bool
  unrolls : Nat          -- number_of_unrolls
  deriving Repr

/-- `k_sign = sign(x); k_sign += 1 - |k_sign|`: the sign with zero counted as positive -/
def sgnPos (x : Rat) : Rat := if x < 0 then -1 else 1

/-- fixed-threshold branch: `K.cast(|x| >= thres) * k_sign` with `k_sign = sign(x) + (1 - |sign(x)|)`
    (since the fix `ternary with threshold 0 gives the input 0 a non-zero code`; before it the factor was
    `sign(x)`, and `threshold = 0` gave the input 0 the code 0) -/
def terCodeFixed (thres x : Rat) : Rat := if thres ≤ rabs x then sgnPos x else 0

/-- one element of the `auto` loop body for the current (broadcast) scale `s`:
      v = scale * round(x / scale);  q = cast(|v| >= scale/2) * sign(x)
    A zero scale makes `x/scale` NaN or ±inf, `scale * round(·)` NaN, the comparison False: q = 0. -/
def terCodeAuto (c : Fl) (s x : Rat) : Rat :=
  if s = 0 then 0
  else
    let v := c.r (s * ((roundTie .even (c.r (x / s)) : Int) : Rat))
    if s / 2 ≤ rabs v then sgn x else 0

/-- the axes of `K.max(|x|, axis, keepdims=True)` in ternary: None (everything) for rank 1 -/
def terMaxAxes (chLast : Bool) (rank : Nat) : List Nat :=
  if rank ≤ 1 then List.range rank
  else if chLast then List.range (rank - 1) else (List.range rank).filter (fun i => decide (1 ≤ i))

/-- state of the unroll loop: the codes of the last pass and the scale after it -/
structure TerState where
  q : List Rat
  s : List Rat

/-- one pass: codes from the current scale, then `_get_least_squares_scale(alpha, x, q)` (defaults:
    scale_axis None, no elements_per_scale, no exponent bounds) -/
def terStep (c : Fl) (po2 : Bool) (rank : Nat) (pk ck : List (List Nat)) (x : List Rat) (st : TerState) : TerState :=
  let q := (st.s.zip x).map fun p => terCodeAuto c p.1 p.2
  { q := q, s := lsScales c po2 none none rank pk ck x q }

def terLoop (c : Fl) (po2 : Bool) (rank : Nat) (pk ck : List (List Nat)) (x : List Rat) : Nat → TerState → TerState
  | 0, st => st
  | n + 1, st => terLoop c po2 rank pk ck x n (terStep c po2 rank pk ck x st)

/-- `scale = 2*m/3` (then the po2 rounding) per group of the max reduction, broadcast -/
def terInitScale (c : Fl) (po2 : Bool) (mk : List (List Nat)) (x : List Rat) : List Rat :=
  mk.map fun k =>
    let m := maxL (groupOf mk (x.map rabs) k)
    let s := c.r (2 * m / 3)
    if po2 then po2Of c s else s

def ternary (c : Fl) (cfg : TerCfg) (shape : List Nat) (x : List Rat) : Except Err (List Elt) :=
  let mk (codes scales : List Rat) : List Elt :=
    ((x.zip codes).zip scales).map fun p => { x := p.1.1, code := p.1.2, scale := p.2, y := c.r (p.2 * p.1.2) }
  match cfg.alpha with
  | .none => .ok (mk (x.map (terCodeFixed cfg.thres)) (x.map fun _ => 1))
  | .const a => .ok (mk (x.map (terCodeFixed cfg.thres)) (x.map fun _ => a))
  | .arr ash vals =>
    match arrScales ash vals shape with
    | .error e => .error e
    | .ok s => .ok (mk (x.map (terCodeFixed cfg.thres)) s)
  | .auto | .autoPo2 =>
    if cfg.unrolls = 0 then .error .assert      -- `q` would be unbound (NameError)
    else
      let po2 := cfg.alpha == .autoPo2
      match keys { chLast := cfg.chLast, sa := .none, eps := .none } shape with
      | .error e => .error e
      | .ok (pk, ck) =>
        let s0 := terInitScale c po2 (maxKeys (terMaxAxes cfg.chLast shape.length) shape) x
        let st := terLoop c po2 shape.length pk ck x cfg.unrolls { q := [], s := s0 }
        .ok (mk st.q st.s)

/-! ### argument forms, live objects, histories

  `binary` / `ternary` above are functions of an already resolved configuration.  The Python objects are
  built from ARGUMENTS of many forms (python float / int / bool, numpy scalars of several dtypes, 0-d and
  per-channel `np.ndarray`s, eager tensors, strings), keep their attributes mutable, read the image data
  format at CALL time and store `self.scale` as a side effect.  This section models that layer:
  `Arg` (what was handed over), the dispatches (`alphaOfArg`, `thresOfArg`, `expOfArg`), the objects
  (`BinObj`, `TerObj`: also `stochastic_binary` / `stochastic_ternary` in the inference phase, whose
  `__call__` is `binary.__call__(self, x)` / `ternary.__call__(self, x)`), and histories of operations on
  one object.  -/

/-- the Python type of a scalar argument.  Every one of them takes the `else: float(alpha)` branch. -/
inductive NumForm
  | pyFloat | pyInt | pyBool | npFloat32 | npFloat64 | npInt32 | npInt64 | tfConst | tfVariable
  deriving Repr, DecidableEq

/-- an argument as Python hands it over: None, a string, a scalar of some `NumForm` with its exact value,
    or an `np.ndarray` (shape + row-major values; shape `[]` is a 0-d array) -/
inductive Arg
  | none
  | str (s : String)
  | num (f : NumForm) (v : Rat)
  | arr (ashape : List Nat) (vals : List Rat)
  deriving Repr, DecidableEq

/-- the alpha dispatch (`binary.__call__`, `ternary.__call__`, tail of `_get_least_squares_scale`):
      None → default;  "auto" / "auto_po2";  any other string fails `assert self.alpha in [...]`;
      `isinstance(alpha, np.ndarray)` → the array itself;  everything else → `float(alpha)`. -/
def alphaOfArg : Arg → Except Err Alpha
  | .none => .ok .none
  | .str s => if s = "auto" then .ok .auto else if s = "auto_po2" then .ok .autoPo2 else .error .assert
  | .num _ v => .ok (.const v)
  | .arr sh vals => .ok (.arr sh vals)

/-- the threshold of the fixed branch of `ternary.__call__`: `default_threshold = 0.33` for None, else the
    value; `tf.abs(x) >= thres` converts it to the dtype of `x` (one rounding).  A string fails
    `assert not isinstance(self.threshold, six.string_types)`; arrays with more than one entry
    (per-channel thresholds) are not modelled. -/
def thresOfArg (c : Fl) : Arg → Except Err Rat
  | .none => .ok (c.r (33 / 100))
  | .str _ => .error .assert
  | .num _ v => .ok (c.r v)
  | .arr _ [v] => .ok (c.r v)
  | .arr _ _ => .error .valueError

/-- `min_po2_exponent` / `max_po2_exponent` as handed over -/
inductive ExpArg
  | none
  | py (e : Int)        -- python int, python float, numpy float
  | npInt (e : Int)     -- numpy integer (scalar or 0-d array)
  deriving Repr, DecidableEq

/-- `2.0**min_po2_exponent` in `_clip_po2_scale`: a float power, whatever form carries the exponent
    (since the fix `_clip_po2_scale accepts numpy-integer exponent bounds`; `2**e` raised ValueError
    "Integers to negative integer powers are not allowed" for a negative numpy integer) -/
def expOfArg : ExpArg → Except Err (Option Int)
  | .none => .ok Option.none
  | .py e => .ok (some e)
  | .npInt e => .ok (some e)

/-- process-level state read at call time -/
structure Env where
  chLast : Bool          -- K.image_data_format() == "channels_last"
  deriving Repr

/-- the public attributes of a `binary` object (also of `stochastic_binary`, whose inference-phase
    `__call__` is `binary.__call__(self, x)`) -/
structure BinAttrs where
  use01 : Bool
  alpha : Arg
  sa : AxisArg
  eps : EpsSpec
  minE : ExpArg
  maxE : ExpArg
  deriving Repr

/-- a live object: attributes plus `self.scale` (kept broadcast to the shape of the input of the last
    successful call; None before the first one) -/
structure BinObj where
  a : BinAttrs
  scale : Option (List Rat)
  deriving Repr

/-- the constructor: `self.scale = None` -/
def BinObj.new (a : BinAttrs) : BinObj := { a := a, scale := Option.none }

/-- `stochastic_binary(alpha)`: `super().__init__(alpha=alpha)`, every other attribute at its default -/
def BinAttrs.ofStochastic (alpha : Arg) : BinAttrs :=
  { use01 := false, alpha := alpha, sa := .none, eps := .none, minE := .none, maxE := .none }

/-- `scale_axis` as the call sees it: only consulted on the data-dependent paths for inputs of rank > 1
    (`_get_scale_mean`), where negative axes are counted from the end on both paths (with and without
    `elements_per_scale`); axes below `-rank` (not axes of the tensor) with `elements_per_scale` are not
    modelled (rejected here) -/
def BinAttrs.axis (o : BinAttrs) (a : Alpha) (rank : Nat) : Except Err AxisSpec :=
  match a with
  | .auto | .autoPo2 =>
    if rank ≤ 1 then .ok .none
    else match axisOfArg rank o.sa, o.eps with
      | .error e, _ => .error e
      | .ok sa, .none => .ok sa
      | .ok sa, _ => if o.sa.inRange rank then .ok sa else .error .assert
  | _ => .ok .none

/-- the configuration a call on an input of rank `rank` works with: attributes as they are NOW, data
    format as it is NOW.  The exponent bounds are only evaluated on the "auto_po2" path (`_clip_po2_scale`). -/
def BinAttrs.cfg (env : Env) (o : BinAttrs) (rank : Nat) : Except Err BinCfg :=
  match alphaOfArg o.alpha with
  | .error e => .error e
  | .ok a =>
    match o.axis a rank with
    | .error e => .error e
    | .ok sa =>
      let grp : Grp := { chLast := env.chLast, sa := sa, eps := o.eps }
      match a with
      | .autoPo2 =>
        match expOfArg o.minE, expOfArg o.maxE with
        | .ok mn, .ok mx => .ok { use01 := o.use01, alpha := a, grp := grp, minE := mn, maxE := mx }
        | .error e, _ => .error e
        | _, .error e => .error e
      | _ => .ok { use01 := o.use01, alpha := a, grp := grp, minE := Option.none, maxE := Option.none }

/-- `q(x)`: the output, and the object afterwards (`self.scale` is assigned only when the call succeeds;
    nothing else is written, and `self.scale` is never READ) -/
def BinObj.call (c : Fl) (env : Env) (o : BinObj) (shape : List Nat) (x : List Rat) :
    Except Err (List Elt) × BinObj :=
  match o.a.cfg env shape.length with
  | .error e => (.error e, o)
  | .ok cfg =>
    match binary c cfg shape x with
    | .error e => (.error e, o)
    | .ok es => (.ok es, { o with scale := some (es.map (·.scale)) })

/-- `q(x)` with `x` a numpy array (anything whose `.shape` is a tuple, not a `TensorShape`): the same as
    with the tensor of the same values on every path (since the fix `_get_scale_mean reads the shape of
    numpy inputs`: `_get_scale_mean` has the `except AttributeError: list(x.shape)` fallback its caller has;
    before it the `elements_per_scale` path raised AttributeError) -/
def BinObj.callNp (c : Fl) (env : Env) (o : BinObj) (shape : List Nat) (x : List Rat) :
    Except Err (List Elt) × BinObj := o.call c env shape x

/-- what can be done to a live object between / instead of calls -/
inductive BinOp
  | call (shape : List Nat) (x : List Rat)
  | callNp (shape : List Nat) (x : List Rat)   -- the input is a numpy array
  | setAlpha (a : Arg)
  | setUse01 (b : Bool)
  | setAxis (sa : AxisArg) (eps : EpsSpec)
  | setBounds (mn mx : ExpArg)
  | setTrainable               -- `_set_trainable_parameter()`: alpha None → "auto_po2" (what a layer does)
  | setFormat (chLast : Bool)  -- `K.set_image_data_format(...)`

/-- what an operation does to the attributes (calls and format switches do nothing to them) -/
def BinAttrs.set (o : BinAttrs) : BinOp → BinAttrs
  | .call _ _ => o
  | .callNp _ _ => o
  | .setAlpha a => { o with alpha := a }
  | .setUse01 b => { o with use01 := b }
  | .setAxis sa eps => { o with sa := sa, eps := eps }
  | .setBounds mn mx => { o with minE := mn, maxE := mx }
  | .setTrainable => { o with alpha := match o.alpha with | .none => .str "auto_po2" | a => a }
  | .setFormat _ => o

def Env.step (env : Env) : BinOp → Env
  | .setFormat b => { chLast := b }
  | _ => env

/-- state of a history: environment, object, outputs of the calls so far (oldest first) -/
structure BinSt where
  env : Env
  obj : BinObj
  outs : List (Except Err (List Elt))

def binStep (c : Fl) (st : BinSt) (op : BinOp) : BinSt :=
  match op with
  | .call shape x =>
    let r := st.obj.call c st.env shape x
    { env := st.env, obj := r.2, outs := st.outs ++ [r.1] }
  | .callNp shape x =>
    let r := st.obj.callNp c st.env shape x
    { env := st.env, obj := r.2, outs := st.outs ++ [r.1] }
  | op => { env := st.env.step op, obj := { st.obj with a := st.obj.a.set op }, outs := st.outs }

def binRun (c : Fl) (st : BinSt) (ops : List BinOp) : BinSt := ops.foldl (binStep c) st

/-- the public attributes of a `ternary` object (also of `stochastic_ternary` in the inference phase) -/
structure TerAttrs where
  alpha : Arg
  threshold : Arg
  unrolls : Nat
  deriving Repr

structure TerObj where
  a : TerAttrs
  scale : Option (List Rat)
  deriving Repr

def TerObj.new (a : TerAttrs) : TerObj := { a := a, scale := Option.none }

/-- `ternary.__call__` up to the branch: a string alpha must be "auto"/"auto_po2" AND the threshold None;
    otherwise the threshold must not be a string -/
def TerAttrs.cfg (c : Fl) (env : Env) (o : TerAttrs) : Except Err TerCfg :=
  match alphaOfArg o.alpha with
  | .error e => .error e
  | .ok a =>
    match a with
    | .auto | .autoPo2 =>
      match o.threshold with
      | .none => .ok { alpha := a, thres := 0, chLast := env.chLast, unrolls := o.unrolls }
      | _ => .error .assert
    | _ =>
      match thresOfArg c o.threshold with
      | .error e => .error e
      | .ok t => .ok { alpha := a, thres := t, chLast := env.chLast, unrolls := o.unrolls }

def TerObj.call (c : Fl) (env : Env) (o : TerObj) (shape : List Nat) (x : List Rat) :
    Except Err (List Elt) × TerObj :=
  match o.a.cfg c env with
  | .error e => (.error e, o)
  | .ok cfg =>
    match ternary c cfg shape x with
    | .error e => (.error e, o)
    | .ok es => (.ok es, { o with scale := some (es.map (·.scale)) })

inductive TerOp
  | call (shape : List Nat) (x : List Rat)
  | setAlpha (a : Arg)
  | setThreshold (t : Arg)
  | setUnrolls (n : Nat)
  | setTrainable
  | setFormat (chLast : Bool)

def TerAttrs.set (o : TerAttrs) : TerOp → TerAttrs
  | .call _ _ => o
  | .setAlpha a => { o with alpha := a }
  | .setThreshold t => { o with threshold := t }
  | .setUnrolls n => { o with unrolls := n }
  | .setTrainable => { o with alpha := match o.alpha with | .none => .str "auto_po2" | a => a }
  | .setFormat _ => o

def Env.stepT (env : Env) : TerOp → Env
  | .setFormat b => { chLast := b }
  | _ => env

structure TerSt where
  env : Env
  obj : TerObj
  outs : List (Except Err (List Elt))

def terStepH (c : Fl) (st : TerSt) (op : TerOp) : TerSt :=
  match op with
  | .call shape x =>
    let r := st.obj.call c st.env shape x
    { env := st.env, obj := r.2, outs := st.outs ++ [r.1] }
  | op => { env := st.env.stepT op, obj := { st.obj with a := st.obj.a.set op }, outs := st.outs }

def terRun (c : Fl) (st : TerSt) (ops : List TerOp) : TerSt := ops.foldl (terStepH c) st

/-! ### two live objects configured with ONE Python object

  Python hands objects over by reference: two quantizers built from one list (`axes = [-1];
  binary(scale_axis=axes); binary(scale_axis=axes)`) hold the SAME list, and `self.scale_axis` is that list
  (TF's ListWrapper writes through).  No operation of the code writes to it: `_normalize_scale_axis` builds a
  new list (`[a + len_axis if a < 0 else a for a in scale_axis]`), `_get_unrolled_shape` works on `.copy()`s,
  an ndarray alpha is only read.  So in the model every object has its own (immutable) attributes and the
  only thing a pair shares is the process-level `Env`.  `binRun2` / `terRun2` run a history addressed to two
  objects; Props/C04 proves that each object sees exactly its own operations plus the format switches. -/

/-- which of the two objects an operation is addressed to -/
inductive Which
  | fst | snd
  deriving Repr, DecidableEq

structure BinSt2 where
  env : Env
  fst : BinObj
  snd : BinObj
  outs1 : List (Except Err (List Elt))
  outs2 : List (Except Err (List Elt))

def BinSt2.view (st : BinSt2) : Which → BinSt
  | .fst => { env := st.env, obj := st.fst, outs := st.outs1 }
  | .snd => { env := st.env, obj := st.snd, outs := st.outs2 }

def binStep2 (c : Fl) (st : BinSt2) (p : Which × BinOp) : BinSt2 :=
  let s := binStep c (st.view p.1) p.2
  match p.1 with
  | .fst => { st with env := s.env, fst := s.obj, outs1 := s.outs }
  | .snd => { st with env := s.env, snd := s.obj, outs2 := s.outs }

def binRun2 (c : Fl) (st : BinSt2) (ops : List (Which × BinOp)) : BinSt2 := ops.foldl (binStep2 c) st

/-- what an operation on the OTHER object means for this one: only the process-level data format is shared -/
def BinOp.onOther : BinOp → List BinOp
  | .setFormat b => [.setFormat b]
  | _ => []

/-- the history one object of a pair sees: its own operations and every data-format switch -/
def projOps (w : Which) : List (Which × BinOp) → List BinOp
  | [] => []
  | (w', op) :: t => (if w' = w then [op] else op.onOther) ++ projOps w t

/-- the same for a pair of `ternary` / `stochastic_ternary` objects (configured with one ndarray alpha /
    threshold) -/
structure TerSt2 where
  env : Env
  fst : TerObj
  snd : TerObj
  outs1 : List (Except Err (List Elt))
  outs2 : List (Except Err (List Elt))

def TerSt2.view (st : TerSt2) : Which → TerSt
  | .fst => { env := st.env, obj := st.fst, outs := st.outs1 }
  | .snd => { env := st.env, obj := st.snd, outs := st.outs2 }

def terStep2 (c : Fl) (st : TerSt2) (p : Which × TerOp) : TerSt2 :=
  let s := terStepH c (st.view p.1) p.2
  match p.1 with
  | .fst => { st with env := s.env, fst := s.obj, outs1 := s.outs }
  | .snd => { st with env := s.env, snd := s.obj, outs2 := s.outs }

def terRun2 (c : Fl) (st : TerSt2) (ops : List (Which × TerOp)) : TerSt2 := ops.foldl (terStep2 c) st

def TerOp.onOther : TerOp → List TerOp
  | .setFormat b => [.setFormat b]
  | _ => []

def projOpsT (w : Which) : List (Which × TerOp) → List TerOp
  | [] => []
  | (w', op) :: t => (if w' = w then [op] else op.onOther) ++ projOpsT w t

end QKV.BT
