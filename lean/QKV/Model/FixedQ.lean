/-
  QKV.Model.FixedQ — fixed-point quantizers of qkeras/quantizers.py at value level
  (qnoise_factor = 1, deterministic rounding, constant or no scale):
    quantized_bits.__call__   (alpha None / constant; incl. the 1-bit sign branch)
    quantized_relu.__call__   (plain and leaky; `qrelu` = the value before the trailing
                               relu_upper_bound pass, `qreluU` = the full call with
                               relu_upper_bound / is_quantized_clip; `qreluSigU` = use_sigmoid=1)
    quantized_linear.__call__ (constant scale; incl. the 1-bit sign-function shift)
    quantized_tanh.__call__ / quantized_sigmoid.__call__ on a given surrogate value p
    and the reporters min() / max() / range();
    per-channel constant scales (`alpha` a tensor): `qlinearPC`, `qbitsPC` and their reporters;
    the module-level surrogate switch `set_internal_sigmoid` (`SigMode`, `internalSigmoid`,
    `runSession`: the surrogate is looked up when the quantizer is CALLED).
  Exact rationals; the float32 code computes the same values on the envelope stated in
  DESIGN.md §3.2 (|x| < 2^24 steps, power-of-two scales) — validated bit-for-bit on every run.
-/
import QKV.Model.Basic
namespace QKV

/-- tie-breaking rule of a round-to-nearest -/
inductive Tie | even | away | up | down
  deriving DecidableEq, Repr, Inhabited

/-- round to nearest integer with the given tie rule (`tf.round` = `Tie.even`;
    `floor(x+0.5)` = `Tie.up`) -/
def roundTie (t : Tie) (q : Rat) : Int :=
  let f := q.floor
  let r := q - (f : Rat)
  if r < 1/2 then f
  else if 1/2 < r then f + 1
  else match t with
    | .even => if f % 2 = 0 then f else f + 1
    | .away => if 0 ≤ q then f + 1 else f
    | .up => f + 1
    | .down => f

/-- `K.clip(k, lo, hi)` on integers = `min(max(k, lo), hi)` -/
def iclip (k lo hi : Int) : Int := imin (imax k lo) hi

/-- round-then-clip: the code chosen for scaled input `p` -/
def rc (t : Tie) (p : Rat) (lo hi : Int) : Int := iclip (roundTie t p) lo hi

def twoPow (n : Int) : Int := ((2 ^ n.toNat : Nat) : Int)

/-! ### quantized_bits -/

structure BitsCfg where
  bits : Int
  integer : Int
  symmetric : Bool
  keepNeg : Bool
  alpha : Option Rat       -- constant scale; none = 1.0
  deriving Repr, DecidableEq

def BitsCfg.ub (c : BitsCfg) : Int := c.bits - b2i' c.keepNeg
  where b2i' (b : Bool) : Int := if b then 1 else 0
def BitsCfg.step (c : BitsCfg) : Rat := pow2 (c.integer - c.ub)
def BitsCfg.lo (c : BitsCfg) : Int :=
  if c.keepNeg then - twoPow c.ub + (if c.symmetric then 1 else 0) else 0
def BitsCfg.hi (c : BitsCfg) : Int := twoPow c.ub - 1
def BitsCfg.gain (c : BitsCfg) : Rat := c.alpha.getD 1

/-- `sign(x)` with `0 ↦ +1` -/
def signPM (x : Rat) : Rat := if x < 0 then -1 else 1

/-- value of `quantized_bits(...)(x)` -/
def qbits (t : Tie) (c : BitsCfg) (x : Rat) : Rat :=
  if 0 < c.ub then
    c.gain * ((rc t (x / c.step) c.lo c.hi : Int) : Rat) * c.step
  else
    -- "quantized_bits with 1 bit becomes a binary implementation"
    let s := signPM x
    c.gain * (if c.keepNeg then s else (s + 1) / 2)

/-- `quantized_bits.max()` -/
def qbitsMax (c : BitsCfg) : Rat :=
  if 0 < c.ub then (if (1 : Rat) < pow2 c.integer then pow2 c.integer else 1) else 1
/-- `quantized_bits.min()` -/
def qbitsMin (c : BitsCfg) : Rat :=
  if !c.keepNeg then 0
  else if 0 < c.ub then - (if (1 : Rat) < pow2 c.integer then pow2 c.integer else 1) else -1
/-- `quantized_bits.range()` (asserts symmetric = 0, keep_negative, alpha None or 1):
    codes in binary order 0,1,…,2^(b-1)-1, −2^(b-1),…,−1 times `2^(integer − bits + 1)` -/
def qbitsRange (c : BitsCfg) : Option (List Rat) :=
  if c.symmetric || !c.keepNeg || !(c.alpha = none ∨ c.alpha = some 1) then none
  else
    let n := twoPow c.bits
    let h := twoPow (c.bits - 1)
    some ((List.range n.toNat).map fun (i : Nat) =>
      let k : Int := if h ≤ (i : Int) then (i : Int) - 2 * h else (i : Int)
      (k : Rat) * pow2 (c.integer - c.bits + 1))

/-! ### quantized_relu -/

structure ReluCfg where
  bits : Int
  integer : Int
  slopeLog : Option Nat     -- negative_slope = 2^-k; none = 0
  upper : Option Rat := none  -- relu_upper_bound (None by default)
  qclip : Bool := true        -- is_quantized_clip (True by default)
  deriving Repr, DecidableEq

def ReluCfg.nsb (c : ReluCfg) : Int := c.bits - (if c.slopeLog.isSome then 1 else 0)
def ReluCfg.step (c : ReluCfg) : Rat := pow2 (c.integer - c.nsb)
def ReluCfg.hi (c : ReluCfg) : Int := twoPow c.nsb - 1
def ReluCfg.slope (c : ReluCfg) : Rat := match c.slopeLog with | none => 0 | some k => pow2 (-(k : Int))

/-- `xq` of `quantized_relu(bits, integer, negative_slope=2^-k)(x)` BEFORE the trailing
    `relu_upper_bound` pass: the value of the call when `is_quantized_clip` is set or no
    upper bound is given; `qreluU` below is the full call.
    positive part: `m_i * clip(round(p)/m, 0, 1 - 1/m)`;
    leaky part:    `m_i * slope * clip(round(p*slope) / (slope*m), -1, 0)`. -/
def qrelu (t : Tie) (c : ReluCfg) (x : Rat) : Rat :=
  let p := x / c.step
  let pos : Rat := ((rc t p 0 c.hi : Int) : Rat) * c.step
  match c.slopeLog with
  | none => pos
  | some _ =>
    let sm : Rat := c.slope * (twoPow c.nsb : Rat)         -- slope * m
    let r : Rat := (roundTie t (p * c.slope) : Rat) / sm
    let cl : Rat := if r < -1 then -1 else if 0 < r then 0 else r
    pos + pow2 c.integer * c.slope * cl

def qreluMax (c : ReluCfg) : Rat :=
  if 0 < c.nsb then (if (1 : Rat) < pow2 c.integer then pow2 c.integer else 1) else 1
def qreluMin (c : ReluCfg) : Rat :=
  match c.slopeLog with
  | none => 0
  | some _ => if 0 < c.bits - 1 then (let v := - c.slope * pow2 c.integer; if v < 0 then v else 0) else -1
/-- `quantized_relu.range()` (asserts use_sigmoid = 0, negative_slope = 0) -/
def qreluRange (c : ReluCfg) : Option (List Rat) :=
  match c.slopeLog with
  | some _ => none
  | none => some ((List.range (twoPow c.bits).toNat).map fun (i : Nat) =>
      ((i : Int) : Rat) * pow2 (c.integer - c.bits))

/-! ### quantized_linear -/

structure LinCfg where
  bits : Int
  integer : Int
  symmetric : Bool
  keepNeg : Bool
  alpha : Option Rat
  deriving Repr, DecidableEq

def LinCfg.ub (c : LinCfg) : Int := c.bits - (if c.keepNeg then 1 else 0)
/-- `quantization_scale = alpha * 2^(integer - bits + keep_negative)` -/
def LinCfg.qs (c : LinCfg) : Rat := c.alpha.getD 1 * pow2 (c.integer - c.ub)
def LinCfg.signFn (c : LinCfg) : Bool := c.bits = 1 && c.keepNeg
def LinCfg.lo (c : LinCfg) : Int :=
  if c.keepNeg then - twoPow c.ub + (if c.symmetric then 1 else 0) else 0
def LinCfg.hi (c : LinCfg) : Int := twoPow c.ub - 1

/-- value of `quantized_linear(...)(x)`: clip, then round, times the quantization scale -/
def qlinear (t : Tie) (c : LinCfg) (x : Rat) : Rat :=
  let s := x / c.qs
  if c.signFn then
    -- clip to [-1/2, 1/2], shift by 1/2, round, shift back
    let cl : Rat := if s < -1/2 then -1/2 else if 1/2 < s then 1/2 else s
    (((roundTie t (cl - 1/2) : Int) : Rat) + 1/2) * c.qs
  else
    let cl : Rat := if s < (c.lo : Rat) then (c.lo : Rat) else if (c.hi : Rat) < s then (c.hi : Rat) else s
    ((roundTie t cl : Int) : Rat) * c.qs

def qlinearMax (c : LinCfg) : Rat := (if c.signFn then 1/2 else (c.hi : Rat)) * c.qs
def qlinearMin (c : LinCfg) : Rat := (if c.signFn then -1/2 else (c.lo : Rat)) * c.qs
def qlinearRange (c : LinCfg) : List Rat :=
  if c.signFn then [qlinearMax c, qlinearMin c]
  else
    ((List.range (c.hi + 1).toNat).map fun (i : Nat) => ((i : Int) : Rat) * c.qs) ++
    ((List.range (- c.lo).toNat).map fun (i : Nat) => ((c.lo + (i : Int) : Int) : Rat) * c.qs)

/-! ### quantized_tanh / quantized_sigmoid on a surrogate value -/

/-- `quantized_tanh(bits, symmetric)` applied to the surrogate value `p` (tanh x, or 2·σ(x) − 1) -/
def qtanhP (t : Tie) (bits : Int) (symmetric : Bool) (p : Rat) : Rat :=
  let m := twoPow (bits - 1)
  ((rc t (p * (m : Rat)) (-m + (if symmetric then 1 else 0)) (m - 1) : Int) : Rat) / (m : Rat)

/-- `quantized_sigmoid(bits, symmetric)` applied to the surrogate value `p` (σ(x)) -/
def qsigmoidP (t : Tie) (bits : Int) (symmetric : Bool) (p : Rat) : Rat :=
  let m := twoPow bits
  ((rc t (p * (m : Rat)) (if symmetric then 1 else 0) (m - 1) : Int) : Rat) / (m : Rat)

/-- hard sigmoid `clip(x/2 + 1/2, 0, 1)` and smooth sigmoid `clip(3x/16 + 1/2, 0, 1)`, exact -/
def hardSigmoid (x : Rat) : Rat := let y := x / 2 + 1/2; if y < 0 then 0 else if 1 < y then 1 else y
def smoothSigmoid (x : Rat) : Rat := let y := 3 * x / 16 + 1/2; if y < 0 then 0 else if 1 < y then 1 else y

/-! ### quantized_relu: `relu_upper_bound` / `is_quantized_clip` -/

/-- the bound used by the trailing pass
    `if self.relu_upper_bound is not None and not self.is_quantized_clip: xq = where(xq <= ub, xq, ub)`.
    (Until the fix of C02-relu-upper-zero the test was Python truthiness and `relu_upper_bound = 0.0` did not clamp;
    now every given bound does, as for the float activation `ReluCfg.act`.) -/
def ReluCfg.clamp (c : ReluCfg) : Option Rat :=
  if c.qclip then none else c.upper

/-- `tf.where(y <= u, y, u)` (no bound: identity) -/
def clampTo (b : Option Rat) (y : Rat) : Rat :=
  match b with
  | none => y
  | some u => if y ≤ u then y else u

/-- value of `quantized_relu(bits, integer, negative_slope, relu_upper_bound, is_quantized_clip)(x)`
    (use_sigmoid = 0, qnoise_factor = 1) -/
def qreluU (t : Tie) (c : ReluCfg) (x : Rat) : Rat := clampTo c.clamp (qrelu t c x)

/-- `K.relu(x, alpha=negative_slope)` -/
def ReluCfg.lrelu (c : ReluCfg) (x : Rat) : Rat := if x < 0 then c.slope * x else x

/-- the float activation `x_u` the quantizer is applied to ("underlying activation"):
    `is_quantized_clip` has precedence; here the upper bound is tested with `is not None` -/
def ReluCfg.act (c : ReluCfg) (x : Rat) : Rat :=
  if c.qclip then (if x ≤ (c.hi : Rat) * c.step then c.lrelu x else (c.hi : Rat) * c.step)
  else match c.upper with
    | some u => if x ≤ u then c.lrelu x else u
    | none => c.lrelu x

/-- `K.clip(v, lo, hi)` on rationals -/
def rclip (v lo hi : Rat) : Rat := if v < lo then lo else if hi < v then hi else v

/-- `quantized_relu(..., use_sigmoid=1)` on the surrogate value `s = _sigmoid(x / m_i)`:
    `p = s*m; xq = m_i * clip(2*(round(p)/m) - 1, 0, 1 - 1/m)` and, for a leaky slope,
    `+ m_i * slope * clip(2*(round(p*slope) / (slope*m)) - 1, -1, 0)` -/
def qreluSigP (t : Tie) (c : ReluCfg) (s : Rat) : Rat :=
  let m : Rat := (twoPow c.nsb : Rat)
  let p := s * m
  let pos := pow2 c.integer * rclip (2 * ((roundTie t p : Rat) / m) - 1) 0 (1 - 1 / m)
  match c.slopeLog with
  | none => pos
  | some _ =>
    pos + pow2 c.integer * c.slope *
      rclip (2 * ((roundTie t (p * c.slope) : Rat) / (c.slope * m)) - 1) (-1) 0

/-- full call with `use_sigmoid=1` (the `relu_upper_bound` pass applies to this branch too) -/
def qreluSigU (t : Tie) (c : ReluCfg) (s : Rat) : Rat := clampTo c.clamp (qreluSigP t c s)

/-! ### per-channel constant scales (`alpha` = a tensor with one entry per channel) -/

/-- channel with scale entry `a` -/
def LinCfg.chan (c : LinCfg) (a : Rat) : LinCfg := { c with alpha := some a }
def BitsCfg.chan (c : BitsCfg) (a : Rat) : BitsCfg := { c with alpha := some a }

/-- `quantized_linear(alpha=tensor)(row)`: element `j` is quantized with scale entry `j` -/
def qlinearPC (t : Tie) (c : LinCfg) (as row : List Rat) : List Rat :=
  List.zipWith (fun a x => qlinear t (c.chan a) x) as row
/-- `min()` / `max()` = `clip_min * quantization_scale`, a tensor with one entry per channel -/
def qlinearMinPC (c : LinCfg) (as : List Rat) : List Rat := as.map fun a => qlinearMin (c.chan a)
def qlinearMaxPC (c : LinCfg) (as : List Rat) : List Rat := as.map fun a => qlinearMax (c.chan a)

/-- the integer codes in the order `range()` lists them: `0 … hi, lo … -1` -/
def LinCfg.codes (c : LinCfg) : List Int :=
  ((List.range (c.hi + 1).toNat).map fun (i : Nat) => (i : Int)) ++
  ((List.range (- c.lo).toNat).map fun (i : Nat) => c.lo + (i : Int))

/-- `range()` when the channels lie along the LAST axis of the scale (`alpha` of shape `[C]`,
    `[1, C]`): `quantization_scale * concat(pos, neg)` broadcasts `[.., C]` against the `[n]` code
    vector — defined only for `C = 1` or `C = n`, and for `C = n > 1` it is the ELEMENT-WISE
    product `qs_j * code_j` (not an enumeration).  `none` = InvalidArgumentError. -/
def qlinearRangeLast (c : LinCfg) (as : List Rat) : Option (List Rat) :=
  match as with
  | [a] => some (c.codes.map fun (k : Int) => (k : Rat) * (c.chan a).qs)
  | _ => if as.length = c.codes.length
         then some (List.zipWith (fun a (k : Int) => (k : Rat) * (c.chan a).qs) as c.codes) else none
/-- `range()` when the channels lie along the FIRST axis (`alpha` of shape `[C, 1]`): row `j`
    enumerates channel `j` -/
def qlinearRangeFirst (c : LinCfg) (as : List Rat) : List (List Rat) :=
  as.map fun a => c.codes.map fun (k : Int) => (k : Rat) * (c.chan a).qs

/-- `quantized_bits(alpha=[...])(row)` (legacy: the scale multiplies the output only) -/
def qbitsPC (t : Tie) (c : BitsCfg) (as row : List Rat) : List Rat :=
  List.zipWith (fun a x => qbits t (c.chan a) x) as row

/-- largest / smallest entry of a non-empty list (head as default) -/
def lmax (l : List Rat) : Rat := l.foldl (fun m a => if m < a then a else m) (l.headD 0)
def lmin (l : List Rat) : Rat := l.foldl (fun m a => if a < m then a else m) (l.headD 0)

/-! ### state kept by a `quantized_linear` OBJECT -/

/-- `__init__` stores `quantization_scale = default_quantization_scale`, computed from the `alpha`
    it was given; `__call__` with a constant alpha uses the STORED scale, `min()/max()/range()` too.
    `alpha` and `symmetric` are plain ("modifyable") attributes: `symmetric` is read by
    `get_clip_bounds` at call time, but assigning `alpha` later does not refresh the stored scale. -/
structure LinObj where
  cfg : LinCfg                -- what the attributes say (the declared format)
  scaleAlpha : Option Rat     -- the alpha the stored quantization_scale was computed from
  deriving Repr

def LinObj.construct (c : LinCfg) : LinObj := { cfg := c, scaleAlpha := c.alpha }
def LinObj.setAlpha (o : LinObj) (a : Option Rat) : LinObj := { o with cfg := { o.cfg with alpha := a } }
def LinObj.setSymmetric (o : LinObj) (s : Bool) : LinObj := { o with cfg := { o.cfg with symmetric := s } }
/-- the configuration the object BEHAVES as -/
def LinObj.effective (o : LinObj) : LinCfg := { o.cfg with alpha := o.scaleAlpha }
def LinObj.call (t : Tie) (o : LinObj) (x : Rat) : Rat := qlinear t o.effective x

/-! ### the module-level surrogate switch `set_internal_sigmoid` -/

inductive SigMode | hard | smooth | real
  deriving DecidableEq, Repr, Inhabited

/-- the function the module-level name `_sigmoid` is bound to; `σ` stands for `K.sigmoid` -/
def internalSigmoid (σ : Rat → Rat) : SigMode → Rat → Rat
  | .hard => hardSigmoid
  | .smooth => smoothSigmoid
  | .real => σ

/-- what happens in a session with one quantizer `q` (a map surrogate value ↦ output):
    the mode is switched, quantizer objects are constructed, the quantizer is called -/
inductive SigEv
  | setMode (m : SigMode)
  | construct
  | call (x : Rat)
  deriving Repr

/-- outputs of the calls of a session: `_sigmoid` is looked up when the quantizer is CALLED, so a
    call sees the mode that was set last; constructing a quantizer captures nothing -/
def runSession (σ : Rat → Rat) (q : Rat → Rat) : SigMode → List SigEv → List Rat
  | _, [] => []
  | _, .setMode m' :: es => runSession σ q m' es
  | m, .construct :: es => runSession σ q m es
  | m, .call x :: es => q (internalSigmoid σ m x) :: runSession σ q m es

/-- `quantized_sigmoid` / `quantized_tanh` (use_real_* = False) / `quantized_relu(use_sigmoid=1)` as
    functions of the INPUT under a given mode -/
def qsigmoidX (t : Tie) (bits : Int) (sym : Bool) (σ : Rat → Rat) (m : SigMode) (x : Rat) : Rat :=
  qsigmoidP t bits sym (internalSigmoid σ m x)
def qtanhX (t : Tie) (bits : Int) (sym : Bool) (σ : Rat → Rat) (m : SigMode) (x : Rat) : Rat :=
  qtanhP t bits sym (2 * internalSigmoid σ m x - 1)
def qreluSigX (t : Tie) (c : ReluCfg) (σ : Rat → Rat) (m : SigMode) (x : Rat) : Rat :=
  qreluSigU t c (internalSigmoid σ m (x / pow2 c.integer))

/-! ### `use_stochastic_rounding` × the learning phase (strengthening round, seed C02-7)

Every fixed-point class hands its flag `use_stochastic_rounding` to `_round_through(x, flag, precision=1.0)`:

    if use_stochastic_rounding:
      smart_cond(K.learning_phase(), lambda: stochastic_round(x, 1.0), lambda: tf.round(x))
    else:
      tf.round(x)

`K.learning_phase()` is read when the quantizer is CALLED (nothing is captured at construction); the
uniform draw of `stochastic_round` is an explicit argument, one per `_round_through` call
(`quantized_relu` with a leaky slope makes two).  The classes below are the classes above with the
rounding step as a parameter `ρ`; `q…S` instantiates it with `_round_through` under a `RoundMode`.
The definitions above are untouched: `q…R (roundTie t) = q… t` holds by `rfl`
(`Lemmas/FixedQ.lean`), and with the learning phase off — or the flag off — `q…S = q…` for every
draw (`Props/C02.lean`, `C02_*_inference`). -/

/-- `stochastic_round(x, precision=1.0)`: `where(x - floor x < u, floor x, ceil x)` -/
def stochRound1 (x u : Rat) : Int :=
  if x - (x.floor : Rat) < u then x.floor else - (-x).floor

/-- forward value of `_round_through(x, use_stochastic_rounding, precision=1.0)`;
    `phase` = `K.learning_phase()` at the call, `u` = the draw (read in the training branch only) -/
def roundThroughI (t : Tie) (stoch phase : Bool) (u x : Rat) : Int :=
  if stoch then (if phase then stochRound1 x u else roundTie t x) else roundTie t x

/-- how a call rounds: the quantizer's flag, the learning phase at the call, the draws -/
structure RoundMode where
  stoch : Bool := false      -- use_stochastic_rounding
  phase : Bool := false      -- K.learning_phase() when the quantizer is called (true = training)
  u : Rat := 0               -- draw of the (first) `_round_through` call
  u2 : Rat := 0              -- draw of the second call (leaky part of quantized_relu)
  deriving Repr

def RoundMode.rho (t : Tie) (r : RoundMode) : Rat → Int := roundThroughI t r.stoch r.phase r.u
def RoundMode.rho2 (t : Tie) (r : RoundMode) : Rat → Int := roundThroughI t r.stoch r.phase r.u2

/-- `quantized_bits.__call__` with the rounding step `ρ` -/
def qbitsR (ρ : Rat → Int) (c : BitsCfg) (x : Rat) : Rat :=
  if 0 < c.ub then
    c.gain * ((iclip (ρ (x / c.step)) c.lo c.hi : Int) : Rat) * c.step
  else
    -- the 1-bit sign branch never reaches `_round_through`
    let s := signPM x
    c.gain * (if c.keepNeg then s else (s + 1) / 2)

/-- `quantized_relu.__call__` (before the upper-bound pass) with the rounding steps `ρ` (positive
    part) and `ρ2` (leaky part): two `_round_through` calls, two draws -/
def qreluR (ρ ρ2 : Rat → Int) (c : ReluCfg) (x : Rat) : Rat :=
  let p := x / c.step
  let pos : Rat := ((iclip (ρ p) 0 c.hi : Int) : Rat) * c.step
  match c.slopeLog with
  | none => pos
  | some _ =>
    let sm : Rat := c.slope * (twoPow c.nsb : Rat)
    let r : Rat := (ρ2 (p * c.slope) : Rat) / sm
    let cl : Rat := if r < -1 then -1 else if 0 < r then 0 else r
    pos + pow2 c.integer * c.slope * cl

def qreluUR (ρ ρ2 : Rat → Int) (c : ReluCfg) (x : Rat) : Rat := clampTo c.clamp (qreluR ρ ρ2 c x)

/-- `quantized_relu(use_sigmoid=1)` on the surrogate value, rounding steps `ρ`, `ρ2` -/
def qreluSigPR (ρ ρ2 : Rat → Int) (c : ReluCfg) (s : Rat) : Rat :=
  let m : Rat := (twoPow c.nsb : Rat)
  let p := s * m
  let pos := pow2 c.integer * rclip (2 * ((ρ p : Rat) / m) - 1) 0 (1 - 1 / m)
  match c.slopeLog with
  | none => pos
  | some _ =>
    pos + pow2 c.integer * c.slope *
      rclip (2 * ((ρ2 (p * c.slope) : Rat) / (c.slope * m)) - 1) (-1) 0

def qreluSigUR (ρ ρ2 : Rat → Int) (c : ReluCfg) (s : Rat) : Rat := clampTo c.clamp (qreluSigPR ρ ρ2 c s)

/-- `quantized_linear.__call__` (clip, then `_round_through`) with the rounding step `ρ` -/
def qlinearR (ρ : Rat → Int) (c : LinCfg) (x : Rat) : Rat :=
  let s := x / c.qs
  if c.signFn then
    let cl : Rat := if s < -1/2 then -1/2 else if 1/2 < s then 1/2 else s
    (((ρ (cl - 1/2) : Int) : Rat) + 1/2) * c.qs
  else
    let cl : Rat := if s < (c.lo : Rat) then (c.lo : Rat) else if (c.hi : Rat) < s then (c.hi : Rat) else s
    ((ρ cl : Int) : Rat) * c.qs

def qtanhPR (ρ : Rat → Int) (bits : Int) (symmetric : Bool) (p : Rat) : Rat :=
  let m := twoPow (bits - 1)
  ((iclip (ρ (p * (m : Rat))) (-m + (if symmetric then 1 else 0)) (m - 1) : Int) : Rat) / (m : Rat)

def qsigmoidPR (ρ : Rat → Int) (bits : Int) (symmetric : Bool) (p : Rat) : Rat :=
  let m := twoPow bits
  ((iclip (ρ (p * (m : Rat))) (if symmetric then 1 else 0) (m - 1) : Int) : Rat) / (m : Rat)

/-- the classes as called: flag of the object × learning phase at the call × draws -/
def qbitsS (t : Tie) (r : RoundMode) (c : BitsCfg) (x : Rat) : Rat := qbitsR (r.rho t) c x
def qreluUS (t : Tie) (r : RoundMode) (c : ReluCfg) (x : Rat) : Rat := qreluUR (r.rho t) (r.rho2 t) c x
def qreluSigUS (t : Tie) (r : RoundMode) (c : ReluCfg) (s : Rat) : Rat := qreluSigUR (r.rho t) (r.rho2 t) c s
def qlinearS (t : Tie) (r : RoundMode) (c : LinCfg) (x : Rat) : Rat := qlinearR (r.rho t) c x
def qtanhPS (t : Tie) (r : RoundMode) (bits : Int) (sym : Bool) (p : Rat) : Rat := qtanhPR (r.rho t) bits sym p
def qsigmoidPS (t : Tie) (r : RoundMode) (bits : Int) (sym : Bool) (p : Rat) : Rat :=
  qsigmoidPR (r.rho t) bits sym p

/-- a session with one quantizer object whose flag is `stoch`: the learning phase is switched
    (`K.set_learning_phase`, `K.learning_phase_scope`), objects are constructed, the quantizer is
    called with a fresh draw.  `q r x` = the value of a call under round mode `r`. -/
inductive PhaseEv
  | setPhase (training : Bool)
  | construct
  | call (x u u2 : Rat)
  deriving Repr

/-- outputs of the calls of a session: a call sees the phase that was set LAST; constructing the
    object under some phase captures nothing -/
def runPhaseSession (stoch : Bool) (q : RoundMode → Rat → Rat) : Bool → List PhaseEv → List Rat
  | _, [] => []
  | _, .setPhase b :: es => runPhaseSession stoch q b es
  | ph, .construct :: es => runPhaseSession stoch q ph es
  | ph, .call x u u2 :: es =>
    q { stoch := stoch, phase := ph, u := u, u2 := u2 } x :: runPhaseSession stoch q ph es

end QKV
