/-
  QKV.Model.Fold — batch-norm folding of qkeras at inference, exact rationals.

  Mirrors (function by function, as the code is written):
    qkeras/qconv2d_batchnorm.py           QConv2DBatchnorm.call (training=False) / get_folded_weights
    qkeras/qdepthwiseconv2d_batchnorm.py  QDepthwiseConv2DBatchnorm.call (training=False) / get_folded_weights
    qkeras/bn_folding_utils.py            convert_folded_layer_to_unfolded / unfold_model._clone_weights
    qkeras/utils.py                       convert_to_folded_model (fold-site selection on the layer DAG,
                                          removal of the BatchNormalization nodes), and the class
                                          substitution of model_quantize(enable_bn_folding=True)
  plus the things they are compared with: exact `conv2d` / `depthwise_conv2d` (NHWC, strides,
  VALID/SAME, dilation, depth multiplier), `bias_add`, stock `BatchNormalization` at inference.

  `rsqrt` is an ORACLE INPUT (DESIGN.md §3.2 device 2): the model takes a function `rs : Rat → Rat`
  and calls it where the code calls `math_ops.rsqrt`; the theorems hold for every `rs`.
  Quantizers are arbitrary tensor functions `List Rat → List Rat`; the driver plugs in
  `quantized_bits` of `QKV.Model.FixedQ`.

  `data_format`: both layouts (`Geom.cf`): channels_last reads / writes NHWC, channels_first NCHW
  (the kernel layout does not depend on it).  `ctorCfg` mirrors the constructors: both
  `QConv2DBatchnorm.__init__` and `QDepthwiseConv2DBatchnorm.__init__` forward `data_format` to
  their base class (the conv class since fix 90019a5; before it the argument was dropped and the
  layer always took the process-wide format), whose `Conv2D.__init__` resolves an omitted argument
  (`None`) to the process-wide `K.image_data_format()` of the moment of construction
  (`resolveFormat`).  An explicit argument never looks at the process-wide setting.

  Layer OBJECTS and their histories (`Obj`, `Op`, `Obj.step`, `Obj.run`): the parameters can be
  replaced between uses (`variable.assign`, `set_weights` — whose list contains the `_iteration`
  counter —, `load_weights`); `get_folded_weights`, `unfold_model` and the inference call read the
  CURRENT parameters and keep no memo.

  Not modelled: the training path (`training=True`: batch moments, the `y_corr` correction, the
  increments of `_iteration`, `ema_freeze_delay`).
  Core Lean only.
-/
import QKV.Model.Basic
namespace QKV.Fold

/-- tensors are flat row-major lists; reads outside the list are 0 -/
abbrev T := List Rat

def tabulate (n : Nat) (f : Nat → Rat) : T := (List.range n).map f
def sumRange (n : Nat) (f : Nat → Rat) : Rat := ((List.range n).map f).sum

/-! ### geometry of a 2-D convolution (TensorFlow NHWC conventions) -/

structure Geom where
  n : Nat        -- batch
  h : Nat
  w : Nat
  cin : Nat
  kh : Nat
  kw : Nat
  sh : Nat       -- strides
  sw : Nat
  dh : Nat       -- dilation_rate
  dw : Nat
  same : Bool    -- padding "same" (else "valid")
  cf : Bool := false   -- data_format "channels_first" (NCHW tensors); else "channels_last" (NHWC)
  deriving Repr, DecidableEq

/-- output extent along one axis: SAME `ceil(in/s)`, VALID `ceil((in - (k-1)d)/s)` -/
def outDim (inp k s d : Nat) (same : Bool) : Nat :=
  if same then (inp + s - 1) / s
  else if (k - 1) * d + 1 ≤ inp then (inp - ((k - 1) * d + 1)) / s + 1 else 0

/-- SAME padding before the first element: `max((out-1)s + (k-1)d + 1 - in, 0) / 2` -/
def padBefore (inp k s d : Nat) (same : Bool) : Nat :=
  if same then ((outDim inp k s d true - 1) * s + (k - 1) * d + 1 - inp) / 2 else 0

def Geom.oh (g : Geom) : Nat := outDim g.h g.kh g.sh g.dh g.same
def Geom.ow (g : Geom) : Nat := outDim g.w g.kw g.sw g.dw g.same
def Geom.pt (g : Geom) : Nat := padBefore g.h g.kh g.sh g.dh g.same
def Geom.pl (g : Geom) : Nat := padBefore g.w g.kw g.sw g.dw g.same

/-- input element `x[b, ih, iw, c]` (channels_last) / `x[b, c, ih, iw]` (channels_first), 0 in the
    padding -/
def xAt (g : Geom) (x : T) (b : Nat) (ih iw : Int) (c : Nat) : Rat :=
  if 0 ≤ ih ∧ ih < g.h ∧ 0 ≤ iw ∧ iw < g.w then
    if g.cf then x.getD (((b * g.cin + c) * g.h + ih.toNat) * g.w + iw.toNat) 0
    else x.getD (((b * g.h + ih.toNat) * g.w + iw.toNat) * g.cin + c) 0
  else 0

/-- row / column of the input read by output position `o` and kernel tap `i` -/
def tapPos (o s i d p : Nat) : Int := ((o * s + i * d : Nat) : Int) - (p : Int)

/-- one output element of `K.conv2d(x, kernel)`; kernel layout `[kh, kw, cin, cout]` -/
def conv2dAt (g : Geom) (cout : Nat) (x k : T) (b oh ow co : Nat) : Rat :=
  sumRange g.kh fun i => sumRange g.kw fun j => sumRange g.cin fun c =>
    xAt g x b (tapPos oh g.sh i g.dh g.pt) (tapPos ow g.sw j g.dw g.pl) c
      * k.getD (((i * g.kw + j) * g.cin + c) * cout + co) 0

/-- one output element of `K.depthwise_conv2d(x, kernel)`; kernel layout `[kh, kw, cin, dm]`,
    output channel `co = c*dm + m` -/
def dwconv2dAt (g : Geom) (dm : Nat) (x k : T) (b oh ow co : Nat) : Rat :=
  sumRange g.kh fun i => sumRange g.kw fun j =>
    xAt g x b (tapPos oh g.sh i g.dh g.pt) (tapPos ow g.sw j g.dw g.pl) (co / dm)
      * k.getD (((i * g.kw + j) * g.cin + co / dm) * dm + co % dm) 0

inductive Cls | conv | dw
  deriving Repr, DecidableEq

/-- static part of a (depthwise) convolution layer -/
structure LayerCfg where
  cls : Cls
  g : Geom
  cm : Nat          -- conv: filters; depthwise: depth_multiplier
  deriving Repr, DecidableEq

/-- number of output channels (= length of every batch-norm vector) -/
def LayerCfg.cout (c : LayerCfg) : Nat :=
  match c.cls with | .conv => c.cm | .dw => c.g.cin * c.cm

def LayerCfg.outLen (c : LayerCfg) : Nat := c.g.n * c.g.oh * c.g.ow * c.cout

def LayerCfg.at (c : LayerCfg) (x k : T) (b oh ow co : Nat) : Rat :=
  match c.cls with
  | .conv => conv2dAt c.g c.cm x k b oh ow co
  | .dw => dwconv2dAt c.g c.cm x k b oh ow co

/-- output channel of element `t` of the flat output: last axis (NHWC) or axis 1 (NCHW) -/
def LayerCfg.chan (c : LayerCfg) (t : Nat) : Nat :=
  if c.g.cf then t / (c.g.oh * c.g.ow) % c.cout else t % c.cout

/-- element `t` of the flat output (NHWC, or NCHW when `cf`) -/
def LayerCfg.atFlat (c : LayerCfg) (x k : T) (t : Nat) : Rat :=
  if c.g.cf then
    c.at x k (t / (c.cout * c.g.oh * c.g.ow)) (t / c.g.ow % c.g.oh) (t % c.g.ow) (c.chan t)
  else
    c.at x k (t / (c.g.oh * c.g.ow * c.cout)) (t / (c.g.ow * c.cout) % c.g.oh) (t / c.cout % c.g.ow)
      (c.chan t)

/-- `K.conv2d` / `K.depthwise_conv2d` of the whole tensor -/
def convOp (c : LayerCfg) (x k : T) : T := tabulate c.outLen (c.atFlat x k)

/-- `K.bias_add(y, b, data_format)`: `b` broadcast over the channel axis; `ch t` = channel of flat
    element `t` (`LayerCfg.chan`; `· % cout` for a channels_last tensor) -/
def biasAdd (ch : Nat → Nat) (y b : T) : T := y.mapIdx fun t v => v + b.getD (ch t) 0

/-- `conv_utils.normalize_data_format(data_format)` inside `Conv2D.__init__` /
    `DepthwiseConv2D.__init__`: an omitted argument (`None`) is the process-wide
    `K.image_data_format()` AT CONSTRUCTION (`globalCF`), an explicit one is taken as it is.
    `true` = "channels_first". -/
def resolveFormat (globalCF : Bool) (df : Option Bool) : Bool :=
  match df with
  | some f => f
  | none => globalCF

/-- the configuration the constructors build: `QConv2DBatchnorm.__init__(…, data_format=df)` and
    `QDepthwiseConv2DBatchnorm.__init__(…, data_format=df)` both hand `df` to their base class
    (`data_format=data_format`; both declare the default `None`), which stores
    `resolveFormat globalCF df`.  Nothing else of the configuration is touched; the class plays no
    role.  (Before fix 90019a5 the conv class did not forward the argument:
    `cf := resolveFormat globalCF none` whatever `df` was.) -/
def ctorCfg (globalCF : Bool) (df : Option Bool) (c : LayerCfg) : LayerCfg :=
  { c with g := { c.g with cf := resolveFormat globalCF df } }

/-- the `data_format` entry of `get_config()`: the RESOLVED format (never `None`), which is what
    `from_config` / `convert_folded_layer_to_unfolded` hand to the next constructor -/
def LayerCfg.configFormat (c : LayerCfg) : Option Bool := some c.g.cf

/-- the same layer applied to an input of another batch size / spatial extent -/
def LayerCfg.withInput (c : LayerCfg) (n h w : Nat) : LayerCfg :=
  { c with g := { c.g with n := n, h := h, w := w } }

/-! ### batch-norm parameters and the fold -/

structure BN where
  gamma : Option T     -- none: scale=False
  beta : Option T      -- none: center=False
  mean : T             -- moving_mean
  var : T              -- moving_variance
  eps : Rat
  deriving Repr

/-- `math_ops.rsqrt(variance + epsilon)` with the oracle `rs` -/
def rsqrtVec (rs : Rat → Rat) (var : T) (eps : Rat) : T := var.map fun v => rs (v + eps)

/-- `if gamma is not None: inv *= gamma` -/
def mulGamma (gamma : Option T) (inv : T) : T :=
  match gamma with
  | none => inv
  | some gm => inv.mapIdx fun c v => v * gm.getD c 0

/-- `inv * (bias - mean) + beta` per channel; `bias = 0` when `use_bias=False`; `beta = 0` when
    center=False (`if beta is None: beta = 0.` — fix d42f1d8; before it the expression raised).
    The `Option` is kept for the callers' error channel; it is never `none` any more
    (`C15_callable`). -/
def foldedBias (cout : Nat) (inv : T) (bias : Option T) (mean : T) (beta : Option T) : Option T :=
  some (tabulate cout fun c =>
      inv.getD c 0 * ((match bias with | none => 0 | some b => b.getD c 0) - mean.getD c 0)
        + (match beta with | none => 0 | some bt => bt.getD c 0))

/-- `folded_kernel = inv * kernel` for QConv2DBatchnorm: `inv` (shape `[cout]`) broadcasts over
    the last axis of the `[kh, kw, cin, cout]` kernel -/
def scaleKernelConv (cout : Nat) (inv k : T) : T := k.mapIdx fun t v => inv.getD (t % cout) 0 * v

/-- QDepthwiseConv2DBatchnorm: `inv = reshape(inv, [cin, dm])` broadcast over the last TWO axes
    of the `[kh, kw, cin, dm]` kernel: element `(c, m)` of the reshaped vector is `inv[c*dm + m]` -/
def scaleKernelDw (cin dm : Nat) (inv k : T) : T :=
  k.mapIdx fun t v => inv.getD ((t / dm % cin) * dm + t % dm) 0 * v

def scaleKernel (c : LayerCfg) (inv k : T) : T :=
  match c.cls with
  | .conv => scaleKernelConv c.cm inv k
  | .dw => scaleKernelDw c.g.cin c.cm inv k

inductive FoldMode | ema | batch
  deriving Repr, DecidableEq

/-- a batch-norm folded layer (QConv2DBatchnorm / QDepthwiseConv2DBatchnorm) with its weights -/
structure Folded where
  cfg : LayerCfg
  mode : FoldMode
  kernel : T
  bias : Option T                  -- none: use_bias=False
  bn : BN
  qk : Option (T → T)              -- kernel_quantizer / depthwise_quantizer
  qb : Option (T → T)              -- bias_quantizer
  act : Option (T → T)             -- activation

def applyOpt (q : Option (T → T)) (v : T) : T := match q with | none => v | some f => f v

/-- statistics seen by one call: moving (weights) and batch (moments of this batch's conv output) -/
structure BatchStats where
  mean : T
  var : T

/-- the statistics used for the fold.  Mirrors the `smart_cond(bn_training, batch, moving)`
    selections of both `call`s: `batch_stats_folding` folds kernel and bias with the batch statistics
    while `bn_training`, `ema_stats_folding` always folds the kernel with the moving statistics and
    the bias with batch statistics while `bn_training`.  Returns (variance for the kernel,
    variance for the bias, mean for the bias). -/
def selectStats (mode : FoldMode) (bnTraining : Bool) (bn : BN) (bs : BatchStats) : T × T × T :=
  match mode with
  | .batch => if bnTraining then (bs.var, bs.var, bs.mean) else (bn.var, bn.var, bn.mean)
  | .ema => if bnTraining then (bn.var, bs.var, bs.mean) else (bn.var, bn.var, bn.mean)

/-- `call(inputs, training=False)`: `bn_training` is False, no `y_corr`.
    `conv(x, Qk(inv*kernel)) + Qb(inv*(bias-mean)+beta)`, then the activation. -/
def Folded.callInference (L : Folded) (rs : Rat → Rat) (bs : BatchStats) (x : T) : Option T :=
  let (vk, vb, mb) := selectStats L.mode false L.bn bs
  let invK := mulGamma L.bn.gamma (rsqrtVec rs vk L.bn.eps)
  let invB := mulGamma L.bn.gamma (rsqrtVec rs vb L.bn.eps)
  match foldedBias L.cfg.cout invB L.bias mb L.bn.beta with
  | none => none
  | some fb =>
    let qfk := applyOpt L.qk (scaleKernel L.cfg invK L.kernel)
    let qfb := applyOpt L.qb fb
    some (applyOpt L.act (biasAdd L.cfg.chan (convOp L.cfg x qfk) qfb))

/-- `get_folded_weights()`: `[inv * kernel, inv * (bias - moving_mean) + beta]` (not quantized) -/
def Folded.foldedWeights (L : Folded) (rs : Rat → Rat) : Option (T × T) :=
  let inv := mulGamma L.bn.gamma (rsqrtVec rs L.bn.var L.bn.eps)
  match foldedBias L.cfg.cout inv L.bias L.bn.mean L.bn.beta with
  | none => none
  | some fb => some (scaleKernel L.cfg inv L.kernel, fb)

/-- a plain quantized layer (QConv2D / QDepthwiseConv2D); also stock Conv2D / DepthwiseConv2D when
    the quantizers are `none` -/
structure Plain where
  cfg : LayerCfg
  kernel : T
  bias : Option T
  qk : Option (T → T)
  qb : Option (T → T)
  act : Option (T → T)

/-- `QConv2D.call` / `QDepthwiseConv2D.call` -/
def Plain.call (P : Plain) (x : T) : T :=
  let y := convOp P.cfg x (applyOpt P.qk P.kernel)
  applyOpt P.act (match P.bias with | none => y | some b => biasAdd P.cfg.chan y (applyOpt P.qb b))

/-- `unfold_model`: `convert_folded_layer_to_unfolded` copies the configuration (quantizers,
    geometry, activation) and forces `use_bias=True`; `_clone_weights` sets
    `[folded_kernel, folded_bias] = get_folded_weights()` -/
def Folded.unfold (L : Folded) (rs : Rat → Rat) : Option Plain :=
  match L.foldedWeights rs with
  | none => none
  | some (fk, fb) => some { cfg := L.cfg, kernel := fk, bias := some fb, qk := L.qk, qb := L.qb, act := L.act }

/-- stock `BatchNormalization(axis)` at inference; `ch t` = index along `axis` of flat element `t`
    (`· % cout` for axis = -1 on a channels_last tensor, `LayerCfg.chan` in general)
    (`tf.nn.batch_normalization`: `x * inv + (beta - mean * inv)`, `inv = rsqrt(var+eps) [* gamma]`) -/
def BN.infer (p : BN) (rs : Rat → Rat) (ch : Nat → Nat) (y : T) : T :=
  let inv := mulGamma p.gamma (rsqrtVec rs p.var p.eps)
  y.mapIdx fun t v =>
    v * inv.getD (ch t) 0 +
      ((match p.beta with | none => 0 | some bt => bt.getD (ch t) 0)
        - p.mean.getD (ch t) 0 * inv.getD (ch t) 0)

/-! ### networks (expression form): what conversion to a folded model does to the function -/

/-- a network as an expression over its input; shared sub-networks are simply repeated
    (layers are pure functions at inference, so the DAG and its unfolding compute the same).
    `id` is the position of the layer in `model.layers`. -/
inductive Net
  | input
  | conv (id : Nat) (P : Plain) (a : Net)              -- Conv2D / DepthwiseConv2D (or Q versions)
  | bn (id : Nat) (p : BN) (ch : Nat → Nat) (a : Net)  -- BatchNormalization (`ch`: channel of a flat index)
  | folded (id : Nat) (L : Folded) (a : Net)           -- QConv2DBatchnorm / QDepthwiseConv2DBatchnorm
  | un (id : Nat) (f : T → T) (a : Net)                -- any other one-input layer
  | bin (id : Nat) (f : T → T → T) (a b : Net)         -- any two-input merge layer

/-- `relu` as a tensor function -/
def relu (v : T) : T := v.map fun q => if q < 0 then 0 else q

def noStats : BatchStats := { mean := [], var := [] }

def Net.eval (rs : Rat → Rat) (x : T) : Net → Option T
  | .input => some x
  | .conv _ P a => (a.eval rs x).map P.call
  | .bn _ p ch a => (a.eval rs x).map (p.infer rs ch)
  | .folded _ L a => (a.eval rs x).bind (L.callInference rs noStats)
  | .un _ f a => (a.eval rs x).map f
  | .bin _ f a b => (a.eval rs x).bind fun u => (b.eval rs x).map fun v => f u v

/-- the folded layer that carries the parameters of `conv` and of the batch norm behind it
    (`use_bias` forced True as model_quantize does: a missing bias is a zero bias) -/
def foldLayer (P : Plain) (p : BN) (mode : FoldMode) : Folded :=
  { cfg := P.cfg, mode := mode, kernel := P.kernel, bias := P.bias, bn := p,
    qk := P.qk, qb := P.qb, act := P.act }

/-- INTENDED conversion: every `conv → BatchNormalization` pair whose conv is a selected fold site
    becomes one folded layer carrying both parameter sets -/
def Net.fold (S : Nat → Bool) (mode : FoldMode) : Net → Net
  | .input => .input
  | .conv i P a => .conv i P (a.fold S mode)
  | .bn j p ch (.conv i P a) =>
      if S i then .folded i (foldLayer P p mode) (a.fold S mode)
      else .bn j p ch (.conv i P (a.fold S mode))
  | .bn j p ch a => .bn j p ch (a.fold S mode)
  | .folded i L a => .folded i L (a.fold S mode)
  | .un i f a => .un i f (a.fold S mode)
  | .bin i f a b => .bin i f (a.fold S mode) (b.fold S mode)

/-- AS CODED: `convert_to_folded_model` deletes the BatchNormalization node behind every fold site
    and reconnects; the conv layer (with its weights) stays, the batch-norm parameters are dropped -/
def Net.dropBN (S : Nat → Bool) : Net → Net
  | .input => .input
  | .conv i P a => .conv i P (a.dropBN S)
  | .bn j p ch (.conv i P a) =>
      if S i then .conv i P (a.dropBN S) else .bn j p ch (.conv i P (a.dropBN S))
  | .bn j p ch a => .bn j p ch (a.dropBN S)
  | .folded i L a => .folded i L (a.dropBN S)
  | .un i f a => .un i f (a.dropBN S)
  | .bin i f a b => .bin i f (a.dropBN S) (b.dropBN S)

/-- `unfold_model` on a network: every folded layer is replaced by the plain quantized layer holding
    its folded weights; `none` when some folded layer cannot produce them (center=False) -/
def Net.unfoldAll (rs : Rat → Rat) : Net → Option Net
  | .input => some .input
  | .conv i P a => (a.unfoldAll rs).map (.conv i P)
  | .bn j p ch a => (a.unfoldAll rs).map (.bn j p ch)
  | .folded i L a => (L.unfold rs).bind fun P => (a.unfoldAll rs).map (.conv i P)
  | .un i f a => (a.unfoldAll rs).map (.un i f)
  | .bin i f a b => (a.unfoldAll rs).bind fun a' => (b.unfoldAll rs).map fun b' => .bin i f a' b'

/-- the conv in front of every batch norm is a stock layer: linear (no activation between conv and
    BN), no quantizers, and the batch-norm vectors are indexed by the conv's output channels -/
def Net.foldable : Net → Prop
  | .input => True
  | .conv _ _ a => a.foldable
  | .bn _ _ ch (.conv _ P a) => P.act = none ∧ P.qk = none ∧ P.qb = none ∧ ch = P.cfg.chan ∧ a.foldable
  | .bn _ _ _ a => a.foldable
  | .folded _ _ a => a.foldable
  | .un _ _ a => a.foldable
  | .bin _ _ a b => a.foldable ∧ b.foldable

/-! ### the layer DAG and the fold-site selection of `convert_to_folded_model` -/

/-- class of a layer as `convert_to_folded_model` sees it (`layer.__class__.__name__`) -/
inductive Kind | input | conv2d | dwconv2d | bn | other
  deriving Repr, DecidableEq

/-- node `i` of the qgraph: `model.layers[i]`, with the indices of the layers feeding it -/
structure GNode where
  kind : Kind
  preds : List Nat
  deriving Repr, DecidableEq

abbrev Graph := List GNode

/-- distinct successors of node `i` (`graph.successors`); the sink (encoded as `g.length`) is a
    successor exactly when no layer consumes `i` (`GraphAddSingleSourceSingleSink`) -/
def successors (g : Graph) (i : Nat) : List Nat :=
  let s := (List.range g.length).filter fun j => (g.getD j ⟨.other, []⟩).preds.contains i
  if s.isEmpty then [g.length] else s

def kindAt (g : Graph) (i : Nat) : Kind := (g.getD i ⟨.other, []⟩).kind

/-- `is_foldable`: class is exactly Conv2D / DepthwiseConv2D, a single successor, and that
    successor is a BatchNormalization.  Returns the BN index. -/
def foldSite (g : Graph) (i : Nat) : Option Nat :=
  if kindAt g i = .conv2d ∨ kindAt g i = .dwconv2d then
    match successors g i with
    | [j] => if j < g.length ∧ kindAt g j = .bn then some j else none
    | _ => none
  else none

/-- `layers_to_fold` (as indices into model.layers) -/
def foldSites (g : Graph) : List Nat := (List.range g.length).filter fun i => (foldSite g i).isSome

/-- `bn_nodes_to_delete` -/
def bnToDelete (g : Graph) : List Nat := (List.range g.length).filterMap (foldSite g)

/-- layers of the model returned by `convert_to_folded_model` (original indices, BN nodes gone) -/
def keptLayers (g : Graph) : List Nat := (List.range g.length).filter fun i => !(bnToDelete g).contains i

/-- classes after `model_quantize(enable_bn_folding=True)`: 0 = unchanged, 1 = QConv2DBatchnorm,
    2 = QDepthwiseConv2DBatchnorm, 3 = QConv2D, 4 = QDepthwiseConv2D; `hasQ` = the quantizer
    configuration names a kernel quantizer for this layer (otherwise the layer is left alone) -/
def quantizedClass (g : Graph) (hasQ : Nat → Bool) (i : Nat) : Nat :=
  let site := (foldSites g).contains i
  match kindAt g i with
  | .conv2d => if !hasQ i then 0 else if site then 1 else 3
  | .dwconv2d => if !hasQ i then 0 else if site then 2 else 4
  | _ => 0

/-- unfold the DAG below node `i` into an expression.  `ops i` gives the layer at index `i`;
    `fuel` bounds the depth (`g.length` suffices: predecessors have smaller indices). -/
inductive LayerOp
  | input
  | conv (P : Plain)
  | bn (p : BN) (ch : Nat → Nat)
  | folded (L : Folded)
  | un (f : T → T)
  | bin (f : T → T → T)

def toNet (g : Graph) (ops : Nat → LayerOp) : Nat → Nat → Net
  | 0, _ => .input
  | fuel + 1, i =>
    let ps := (g.getD i ⟨.other, []⟩).preds
    let a := toNet g ops fuel (ps.getD 0 0)
    match ops i with
    | .input => .input
    | .conv P => .conv i P a
    | .bn p c => .bn i p c a
    | .folded L => .folded i L a
    | .un f => .un i f a
    | .bin f => .bin i f a (toNet g ops fuel (ps.getD 1 0))

/-! ### layer objects and histories on one object

  The folded layers are live objects: between two uses their parameters can be replaced WITHOUT a
  training step (`variable.assign`, `layer.set_weights` / `model.set_weights` / `load_weights` —
  the weight list contains the `_iteration` counter, so a checkpoint restores it too).
  `get_folded_weights()`, `unfold_model` (`convert_folded_layer_to_unfolded` + `_clone_weights`) and
  the inference call are functions of the CURRENT parameters only: no memo, no dependence on
  `_iteration`, on earlier calls or on the order of the calls. -/

inductive Slot | kernel | bias | gamma | beta | mean | var
  deriving Repr, DecidableEq

/-- a live layer object: current parameters and the `_iteration` variable (initialised with -1) -/
structure Obj where
  L : Folded
  iteration : Int := -1

/-- `variable.assign(v)` on one of the layer's variables; `none`: the layer has no such variable
    (`layer.bias` / `batchnorm.gamma` / `batchnorm.beta` is None) and the statement raises -/
def Folded.assign (L : Folded) (s : Slot) (v : T) : Option Folded :=
  match s with
  | .kernel => some { L with kernel := v }
  | .bias => if L.bias.isSome then some { L with bias := some v } else none
  | .gamma => if L.bn.gamma.isSome then some { L with bn := { L.bn with gamma := some v } } else none
  | .beta => if L.bn.beta.isSome then some { L with bn := { L.bn with beta := some v } } else none
  | .mean => some { L with bn := { L.bn with mean := v } }
  | .var => some { L with bn := { L.bn with var := v } }

/-- `layer.get_weights()`: trainable weights first (`kernel`, `bias`, `gamma`, `beta` — those that
    exist), then the non-trainable ones (`iteration`, `moving_mean`, `moving_variance`) -/
def Obj.getWeights (o : Obj) : List T :=
  o.L.kernel :: (o.L.bias.toList ++ (o.L.bn.gamma.toList ++ (o.L.bn.beta.toList
    ++ [[(o.iteration : Rat)], o.L.bn.mean, o.L.bn.var])))

def takeIf (present : Bool) (ws : List T) : Option (Option T × List T) :=
  if present then (match ws with | w :: r => some (some w, r) | [] => none) else some (none, ws)

/-- `layer.set_weights(ws)`: the same order; `none` (ValueError) when the number of arrays is not
    the number of variables.  Shapes are not modelled (tensors are flat). -/
def Obj.setWeights (o : Obj) (ws : List T) : Option Obj :=
  match ws with
  | [] => none
  | k :: r0 =>
    (takeIf o.L.bias.isSome r0).bind fun br =>
    (takeIf o.L.bn.gamma.isSome br.2).bind fun gr =>
    (takeIf o.L.bn.beta.isSome gr.2).bind fun tr =>
    match tr.2 with
    | [it, m, v] =>
      some { L := { o.L with kernel := k, bias := br.1,
                             bn := { o.L.bn with gamma := gr.1, beta := tr.1, mean := m, var := v } },
             iteration := (it.getD 0 0).floor }
    | _ => none

/-- the same layer object called on an input of another batch size / spatial extent -/
def Folded.onInput (L : Folded) (n h w : Nat) : Folded := { L with cfg := L.cfg.withInput n h w }

/-- one use of a layer object -/
inductive Op
  | getFolded                              -- layer.get_folded_weights()
  | unfold (n h w : Nat) (x : T)           -- unfold_model(model of this layer), then predict(x)
  | predict (n h w : Nat) (x : T)          -- layer(x, training=False) / model.predict(x)
  | assign (s : Slot) (v : T)              -- variable.assign(v)
  | setWeights (ws : List T)               -- layer.set_weights(ws) / load_weights
  | setIteration (i : Int)                 -- layer._iteration.assign(i)
  | reconfigure (qk qb : Option (T → T))   -- the quantizer attributes replaced after construction
                                           -- (as `populate_bias_quantizer_from_accumulator` does)

def Op.observer : Op → Bool
  | .getFolded => true
  | .unfold _ _ _ _ => true
  | .predict _ _ _ _ => true
  | _ => false

/-- what one use shows -/
inductive Obs
  | weights (w : Option (T × T))                    -- [folded kernel, folded bias]
  | unfolded (w : Option (T × T)) (y : Option T)    -- weights of the unfolded layer, its output
  | out (y : Option T)
  | done (ok : Bool)                                -- a mutation; false: it raised, nothing changed
  deriving Repr, DecidableEq

def Obj.step (rs : Rat → Rat) (o : Obj) : Op → Obj × Obs
  | .getFolded => (o, .weights (o.L.foldedWeights rs))
  | .unfold n h w x =>
    (o, .unfolded (((o.L.onInput n h w).unfold rs).map fun P => (P.kernel, P.bias.getD []))
                  (((o.L.onInput n h w).unfold rs).map fun P => P.call x))
  | .predict n h w x => (o, .out ((o.L.onInput n h w).callInference rs noStats x))
  | .assign s v =>
    match o.L.assign s v with
    | none => (o, .done false)
    | some L' => ({ o with L := L' }, .done true)
  | .setWeights ws =>
    match o.setWeights ws with
    | none => (o, .done false)
    | some o' => (o', .done true)
  | .setIteration i => ({ o with iteration := i }, .done true)
  | .reconfigure qk qb => ({ o with L := { o.L with qk := qk, qb := qb } }, .done true)

/-- a history: the uses one after the other on the same object -/
def Obj.run (rs : Rat → Rat) (o : Obj) : List Op → Obj × List Obs
  | [] => (o, [])
  | op :: ops => ((( o.step rs op).1.run rs ops).1, (o.step rs op).2 :: (((o.step rs op).1.run rs ops).2))

/-- parameters of a folded layer inside a network replaced (`model.layers[id].<variable>.assign`);
    a layer without that variable is left alone -/
def Net.assign (id : Nat) (s : Slot) (v : T) : Net → Net
  | .input => .input
  | .conv i P a => .conv i P (a.assign id s v)
  | .bn j p ch a => .bn j p ch (a.assign id s v)
  | .folded i L a =>
    .folded i (if i = id then (L.assign s v).getD L else L) (a.assign id s v)
  | .un i f a => .un i f (a.assign id s v)
  | .bin i f a b => .bin i f (a.assign id s v) (b.assign id s v)

/-! ### `unfold_model` on the LIST `model.layers`: clone every layer, then transfer every layer's weights

  `clone_model(model, clone_function=_convert_folded_layer)` builds NEW layers from configurations
  alone (class converted for the folded layers, everything else `from_config(get_config())`, the
  `trainable` attribute included): their variables hold whatever the initialisers produce.  The
  final loop `for (src_layer, new_layer) in zip(model.layers, cloned_model.layers):
  _clone_weights(src_layer, new_layer)` then runs over EVERY layer — it does not look at
  `layer.trainable`, `trainable_weights` or `non_trainable_weights`.  A layer can own variables
  none of which is trainable: a frozen layer (`layer.trainable = False`, `model.trainable = False`,
  `trainable=False` at construction) or `BatchNormalization(center=False, scale=False)`. -/

/-- one entry of `model.layers`: the layer and its `trainable` attribute -/
structure MLayer where
  op : LayerOp
  trainable : Bool := true

/-- all variables of a layer that determine its function (plain layers: `get_weights()`; folded
    layers: `get_weights()` without the `_iteration` counter).  Dense / QDense applied to a 4-d
    tensor are the `conv` case with a 1×1 kernel. -/
def LayerOp.weights : LayerOp → List T
  | .conv P => P.kernel :: P.bias.toList
  | .bn p _ => p.gamma.toList ++ (p.beta.toList ++ [p.mean, p.var])
  | .folded L => L.kernel :: (L.bias.toList ++ (L.bn.gamma.toList ++ (L.bn.beta.toList ++ [L.bn.mean, L.bn.var])))
  | _ => []

/-- `layer.trainable_weights`: EMPTY for a frozen layer whatever it owns; else kernel / bias /
    gamma / beta (the moving statistics are never trainable) -/
def MLayer.trainableWeights (l : MLayer) : List T :=
  if l.trainable then
    match l.op with
    | .conv P => P.kernel :: P.bias.toList
    | .bn p _ => p.gamma.toList ++ p.beta.toList
    | .folded L => L.kernel :: (L.bias.toList ++ (L.bn.gamma.toList ++ L.bn.beta.toList))
    | _ => []
  else []

/-- `_convert_folded_layer(layer)` + `build`: the new layer has the source's configuration (a
    folded layer becomes the plain quantized layer with `use_bias=True`) and FRESHLY INITIALISED
    variables `init` (position `j` of `init` = `j`-th variable; nothing of the source's arrays) -/
def LayerOp.cloneFresh (init : List T) : LayerOp → LayerOp
  | .conv P => .conv { P with kernel := init.getD 0 [], bias := P.bias.map fun _ => init.getD 1 [] }
  | .bn p ch => .bn { p with gamma := p.gamma.map fun _ => init.getD 0 [], beta := p.beta.map fun _ => init.getD 1 [],
                             mean := init.getD 2 [], var := init.getD 3 [] } ch
  | .folded L => .conv { cfg := L.cfg, kernel := init.getD 0 [], bias := some (init.getD 1 []),
                         qk := L.qk, qb := L.qb, act := L.act }
  | op => op

/-- `_clone_weights(src_layer, new_layer)`: folded source → `set_weights(get_folded_weights())`,
    anything else → `set_weights(src_layer.get_weights())` (a no-op for a layer without variables) -/
def cloneWeights (rs : Rat → Rat) (src new : LayerOp) : Option LayerOp :=
  match src, new with
  | .folded L, .conv P => (L.foldedWeights rs).map fun w => .conv { P with kernel := w.1, bias := some w.2 }
  | .conv S, .conv P => some (.conv { P with kernel := S.kernel, bias := S.bias })
  | .bn s _, .bn p ch => some (.bn { p with gamma := s.gamma, beta := s.beta, mean := s.mean, var := s.var } ch)
  | _, new => some new

/-- one round of the loop for a transfer loop that SKIPS the layers selected by `skip`
    (`unfold_model` itself skips nothing) -/
def transferOne (skip : MLayer → Bool) (rs : Rat → Rat) (init : List T) (l : MLayer) : Option MLayer :=
  if skip l then some { op := l.op.cloneFresh init, trainable := l.trainable }
  else (cloneWeights rs l.op (l.op.cloneFresh init)).map fun op => { op := op, trainable := l.trainable }

/-- clone + transfer over `model.layers` from position `i` on; `init i` = the fresh variables of
    the clone of layer `i` -/
def transferFrom (skip : MLayer → Bool) (rs : Rat → Rat) (init : Nat → List T) : Nat → List MLayer → Option (List MLayer)
  | _, [] => some []
  | i, l :: ls => (transferOne skip rs (init i) l).bind fun l' => (transferFrom skip rs init (i + 1) ls).map (l' :: ·)

/-- `unfold_model(model).layers` AS CODED: every layer's weights are transferred -/
def unfoldLayers (rs : Rat → Rat) (init : Nat → List T) (ls : List MLayer) : Option (List MLayer) :=
  transferFrom (fun _ => false) rs init 0 ls

/-- what the property asks of one layer of the unfolded model: the plain layer holding the folded
    weights for a folded layer, the SAME layer (all variables) otherwise -/
def LayerOp.unfolded (rs : Rat → Rat) : LayerOp → Option LayerOp
  | .folded L => (L.unfold rs).map .conv
  | op => some op

def MLayer.unfolded (rs : Rat → Rat) (l : MLayer) : Option MLayer :=
  (l.op.unfolded rs).map fun op => { op := op, trainable := l.trainable }

def unfoldedLayers (rs : Rat → Rat) : List MLayer → Option (List MLayer)
  | [] => some []
  | l :: ls => (l.unfolded rs).bind fun l' => (unfoldedLayers rs ls).map (l' :: ·)

/-- the layer at position `i` of a layer list (`toNet` reads the network through this) -/
def opsOf (ls : List MLayer) (i : Nat) : LayerOp := (ls.map (·.op)).getD i .input

/-! ### `convert_to_folded_model` on a DAG with ORDERED input lists (fix round Q)

  The rewiring loop of `convert_to_folded_model` calls every surviving layer again on the tensors of
  its parents.  A layer with several inputs (Add, Subtract, Concatenate, Dot, …) needs them in the
  order of its own `layer.input`.  Since fix 41c6274 the code records, before any layer is called
  again, the position of every edge's tensor in the input list of its consumer and feeds the inputs
  in that order: `rewiredIns`.  Before the fix the order was the one of `graph.predecessors()`, i.e.
  the order in which the edges were added to the networkx graph — at best the layer order for the
  surviving edges, and the edges added by `GraphRemoveNode` for the removed batch norms always
  LAST: `rewiredInsOld` (kept for the regression witness).

  `OGraph` is the DAG with n-ary, ordered nodes and its own forward semantics (`OGraph.val`): a
  `merge` gets the tensors of ALL its inputs in order, `f` is an arbitrary function of that list
  (order-sensitive merges included). -/

/-- a layer of the ordered DAG -/
inductive NOp
  | input
  | conv (P : Plain)                 -- Conv2D / DepthwiseConv2D (or Q versions)
  | bn (p : BN) (ch : Nat → Nat)     -- BatchNormalization
  | folded (L : Folded)              -- QConv2DBatchnorm / QDepthwiseConv2DBatchnorm
  | merge (f : List T → T)           -- any other layer: gets the tensors of its inputs IN ORDER

/-- node `i` = `model.layers[i]`: class as the selection rule sees it, inbound layers in the order
    of `layer.input`, and the layer itself -/
structure ONode where
  kind : Kind
  ins : List Nat
  op : NOp

abbrev OGraph := List ONode

def ONode.dead : ONode := ⟨.other, [], .input⟩

/-- the qgraph of the model (what the selection rule reads) -/
def OGraph.shape (g : OGraph) : Graph := g.map fun nd => ⟨nd.kind, nd.ins⟩

def OGraph.node (g : OGraph) (k : Nat) : ONode := g.getD k ONode.dead

/-- all inputs present -/
def allSome : List (Option T) → Option (List T)
  | [] => some []
  | none :: _ => none
  | some v :: r => (allSome r).map (v :: ·)

/-- one layer applied to the ordered list of its input tensors (`none`: wrong arity / the layer
    raises) -/
def NOp.apply (rs : Rat → Rat) (x : T) : NOp → List T → Option T
  | .input, _ => some x
  | .conv P, [v] => some (P.call v)
  | .bn p ch, [v] => some (p.infer rs ch v)
  | .folded L, [v] => L.callInference rs noStats v
  | .merge f, vs => some (f vs)
  | _, _ => none

/-- value of node `k` (inbound layers have smaller indices; anything else reads as missing) -/
def OGraph.valF (rs : Rat → Rat) (x : T) (g : OGraph) : Nat → Nat → Option T
  | 0, _ => none
  | fuel + 1, k =>
    (allSome ((g.node k).ins.map fun i => if i < k then OGraph.valF rs x g fuel i else none)).bind
      ((g.node k).op.apply rs x)

def OGraph.val (rs : Rat → Rat) (x : T) (g : OGraph) (k : Nat) : Option T := g.valF rs x (k + 1) k

/-- `GraphRemoveNode(bn)`: `u -> bn -> w` becomes `u -> w`; a consumer of a removed
    BatchNormalization reads the layer in front of it -/
def redirect (g : Graph) (p : Nat) : Nat :=
  if (bnToDelete g).contains p then (g.getD p ⟨.other, []⟩).preds.getD 0 p else p

/-- the inputs of a layer of the returned model, REPAIRED code (fix 41c6274): every input keeps its
    position in the consumer's input list -/
def rewiredIns (g : Graph) (ins : List Nat) : List Nat := ins.map (redirect g)

/-- BEFORE the fix (`graph.predecessors()` order): the surviving edges first, the edges added for
    the removed batch norms last, in the order of removal -/
def rewiredInsOld (g : Graph) (ins : List Nat) : List Nat :=
  ins.filter (fun p => !(bnToDelete g).contains p) ++
    ((bnToDelete g).filter fun p => ins.contains p).map (redirect g)

/-- AS CODED: the surviving layers re-called on the rewired inputs; the removed batch norms stay in
    the list as dead nodes (nothing reads them; `keptLayers` lists the layers of the returned model) -/
def OGraph.rewire (g : OGraph) : OGraph :=
  (List.range g.length).map fun k =>
    { g.node k with ins := rewiredIns g.shape (g.node k).ins }

/-- the conversion with the parameters carried over (the folded layer of a site holds the conv
    weights and the parameters of the removed batch norm — what `model_quantize(enable_bn_folding)`
    builds once the parameters are transferred): same rewiring, site conv ↦ folded layer -/
def OGraph.convert (g : OGraph) (mode : FoldMode) : OGraph :=
  (List.range g.length).map fun k =>
    let nd := g.node k
    let ins' := rewiredIns g.shape nd.ins
    match foldSite g.shape k, nd.op with
    | some j, .conv P =>
      match (g.node j).op with
      | .bn p _ => ⟨.other, ins', .folded (foldLayer P p mode)⟩
      | _ => ⟨nd.kind, ins', nd.op⟩
    | _, _ => ⟨nd.kind, ins', nd.op⟩

/-- the source node whose tensor node `k` of the converted model carries: a folded site carries the
    output of its batch norm -/
def carrier (g : Graph) (k : Nat) : Nat := (foldSite g k).getD k

end QKV.Fold
