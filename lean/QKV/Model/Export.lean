/-
  QKV.Model.Export — qkeras/utils.py export of quantized weights, as written:
    find_bn_fusing_layer_pair      (selection rule over the layer graph)
    add_bn_fusing_weights          (inverse / fused bias; `rsqrt` an oracle input, every float32
                                    arithmetic step wrapped in a rounding parameter `rnd`)
    model_save_quantized_weights   (main loop: zip(quantizers, weights), po2 split, auto_po2 split,
                                    pooling factors, set_weights, fusing)
    get_model_sparsity             (consumer: one export, then the fraction of zeros)
  Quantizers are abstract tensor functions (`Quant.q`); the export only dispatches on their
  name / attributes (`QKind`).  Tensors are flattened row-major lists of exact rationals; a
  quantizer's `scale` attribute is carried broadcast to the weight's shape.
  Core Lean only: these definitions are run by drivers/C14.lean and are the ones the theorems
  of QKV.Props.C14 are about.  The model mirrors the code as it is, defects included
  (see notes/C14.md: the auto_po2 split is still the recorded finding C14-autopo2-split).
  Fix round (notes/C14.md "Fix round"): the model follows the repaired code — the
  (quantizer, weight) pairing of QBatchNormalization (any scale / center) and QBidirectional
  (`bnQs`, `bidirQs`), a `signs` slot for every weight, pooling layers without average quantizer,
  and a floating-point `2**integer` in the auto_po2 branch.
  Fix round 2 (notes/C14.md "Fix round 2"): the QBatchNormalization pairing is selected by
  `isinstance(layer, QBatchNormalization)` (`Layer.isBN`: the layer carries the batch-norm
  attributes `bn`), no longer by the class NAME — user subclasses are paired like the library class.
  The fusing decisions (find_bn_fusing_layer_pair, the `enable_bn_fusing` mark) still read the
  class name, as the code does.
-/
import QKV.Model.Basic
namespace QKV.Export

abbrev Tensor := List Rat

/-- what the export's dispatch (`q_name`, `quantizer.alpha`) sees of a quantizer -/
inductive QKind
  | other                                             -- any other quantizer (else branch)
  | po2 (signed : Bool)                               -- "_po2" in q_name; signed ⇔ q_name == "quantized_po2"
  | autoPo2 (bits integer : Int) (keepNeg : Bool)     -- q_name == "quantized_bits" and alpha == "auto_po2"
  deriving Repr, DecidableEq, Inhabited

/-- a quantizer object: the function and the value of its `.scale` attribute right after the
    call `quantizer(w)` (broadcast to the shape of `w`; read only in the auto_po2 branch) -/
structure Quant where
  kind : QKind
  q : Tensor → Tensor
  scaleOf : Tensor → Tensor

/-- `if quantizer: weight = quantizer(weight)` -/
def applyQ (q : Option Quant) (w : Tensor) : Tensor :=
  match q with
  | none => w
  | some Q => Q.q w

/-- `sign = np.sign(weight); sign += (1.0 - np.abs(sign))`  (0 ↦ +1) -/
def signOf (w : Rat) : Rat := if w < 0 then -1 else 1

/-- `round(log2 a)` for `a > 0`, exact: the integer `e` with `2^(e-1/2) < a ≤ 2^(e+1/2)`
    (no rational sits on the irrational breakpoint) -/
def roundLog2 (a : Rat) : Int :=
  let c := ceilLog2Rat a
  if a * a * 2 ≤ pow2 (2 * c) then c - 1 else c

/-- `np.round(np.log2(np.abs(weight)))`; `log2 0 = -inf` is not a rational: totalised to 0 and
    reported separately by `hasZero` (never reached: "_po2" quantizers emit ±2^e only) -/
def expOf (w : Rat) : Int := if w = 0 then 0 else roundLog2 (if w < 0 then -w else w)

/-- `diff = round(log2 s) - log2 s; assert all(diff == 0)` (false also for s ≤ 0: nan / -inf) -/
def isPo2 (s : Rat) : Bool := decide (0 < s) && decide (pow2 (ceilLog2Rat s) = s)

def ubits (bits : Int) (keepNeg : Bool) : Int := bits - (if keepNeg then 1 else 0)

/-- The integer codes of the format an auto_po2 `quantized_bits(bits, integer, keep_negative=…)`
    DECLARES (a string alpha forces `symmetric`): signed `[-(2^(bits-1)-1), 2^(bits-1)-1]` — one
    bit is the sign —, unsigned (`keep_negative=False`) `[0, 2^bits - 1]` — all bits are magnitude. -/
def codeLo (bits : Int) (keepNeg : Bool) : Rat := if keepNeg then -(pow2 (bits - 1) - 1) else 0
def codeHi (bits : Int) (keepNeg : Bool) : Rat := if keepNeg then pow2 (bits - 1) - 1 else pow2 bits - 1

/-- "an integer inside the declared bit range" (the clause oracle `judge_autopo2` runs this) -/
def inCodeRange (bits : Int) (keepNeg : Bool) (h : Rat) : Bool :=
  decide (h.den = 1) && decide (codeLo bits keepNeg ≤ h) && decide (h ≤ codeHi bits keepNeg)

/-- the value of one code unit of that format: `2^integer / 2^(bits - keep_negative)` -/
def stepOf (bits integer : Int) (keepNeg : Bool) : Rat := pow2 (integer - ubits bits keepNeg)

/-- result of one iteration of `for quantizer, weight in zip(qs, ws)` -/
structure WOut where
  stored : Tensor                 -- appended to `weights`   (software-inference format)
  hw : Tensor                     -- appended to `hw_weights`
  sign : Tensor                   -- appended to `signs`  (every branch appends; [] = placeholder)
  scale : Tensor                  -- appended to `scales` (every branch appends; [] = placeholder)
  hasSign : Bool
  hasScale : Bool
  err : Option String             -- assertion / exception raised by this iteration
  deriving Inhabited

def splitWeight (q : Option Quant) (w : Tensor) : WOut :=
  match q with
  | none => { stored := w, hw := w, sign := [], scale := [], hasSign := false,
              hasScale := false, err := none }
  | some Q =>
    let wq := Q.q w
    match Q.kind with
    | .po2 sg =>
      { stored := wq, hw := wq.map (fun v => ((expOf v : Int) : Rat)), sign := wq.map signOf,
        scale := [], hasSign := sg, hasScale := false,
        err := none }
    | .autoPo2 bits integer kn =>
      let m := pow2 (ubits bits kn)          -- K.cast_to_floatx(pow(2, unsigned_bits))
      let mi := pow2 integer                 -- K.cast_to_floatx(K.pow(2.0, cast_to_floatx(quantizer.integer)))
      let s := Q.scaleOf w
      { stored := wq, hw := wq.map (fun v => v * m / mi), sign := [],   -- signs.append([])
        scale := s.map (fun v => v * mi / m), hasSign := false, hasScale := true,
        err := if s.all isPo2 then none else some "assert" }
    | .other =>
      { stored := wq, hw := wq, sign := [], scale := [], hasSign := false,
        hasScale := false, err := none }

/-- `zip(qs, ws)` (stops at the shorter list) -/
def zipSplit : List (Option Quant) → List Tensor → List WOut
  | q :: qs, w :: ws => splitWeight q w :: zipSplit qs ws
  | _, _ => []

/-- the software-format weights of a zip: `weights` -/
def zipApply : List (Option Quant) → List Tensor → List Tensor
  | q :: qs, w :: ws => applyQ q w :: zipApply qs ws
  | _, _ => []

inductive LKind
  | plain      -- qs = get_quantizers() (instances of QBatchNormalization: their own pairing, `bnQs`), ws = get_weights(), set_weights(weights)
  | rnn        -- QSimpleRNN / QLSTM / QGRU: qs = get_quantizers()[:-1]
  | bidir      -- QBidirectional: per direction ITS get_quantizers()[:len(ITS get_weights())], `bidirQs`
  | folded     -- QConv2DBatchnorm / QDepthwiseConv2DBatchnorm: ws = get_folded_weights(), not written back
  | noQuant    -- no `get_quantizers` attribute: untouched, no dictionary entry
  deriving Repr, DecidableEq, Inhabited

/-- QBatchNormalization attributes read by the main loop and by add_bn_fusing_weights; its five
    quantizers [gamma, beta, mean, variance, inverse] are the layer's `qs`.  A layer carries them
    (`Layer.bn = some _`) exactly when it is an instance of QBatchNormalization — the library class
    or ANY subclass of it, whatever its class name -/
structure BNInfo where
  scale : Bool
  center : Bool
  eps : Rat
  deriving Repr, DecidableEq, Inhabited

/-- pooling layers: pool_area and the Python float `1.0 / pool_area` (exact rational of the double) -/
structure PoolInfo where
  area : Rat
  mf : Rat
  deriving Repr, DecidableEq, Inhabited

structure Layer where
  cls : String                               -- layer.__class__.__name__
  kind : LKind
  qs : List (Option Quant)                   -- layer.get_quantizers()
  fwd : List (Option Quant)                  -- the (quantizer, weight) pairing the layer's own call() uses
  fold : List Tensor → List Tensor           -- get_folded_weights() as a function of get_weights()
  useBias : Bool
  bn : Option BNInfo                         -- some _ ⇔ isinstance(layer, QBatchNormalization)
  pool : Option PoolInfo
  succ : List Nat                            -- graph successors (consumer layers; [sink] if none)
  allow : Bool                               -- class name in get_model_sparsity's default allow_list
  dirW : Nat := 0                            -- QBidirectional: len(forward_layer.get_weights()) (2 or 3)
  dirWb : Nat := 0                           -- QBidirectional: len(backward_layer.get_weights()) (2 or 3; the
                                             --   backward layer may be another class / have no bias)
  dirQ : Nat := 0                            -- QBidirectional: len(forward_layer.get_quantizers()) — where the
                                             --   backward layer's quantizers start in get_quantizers()

/-- QBatchNormalization: `get_quantizers()` is always [gamma, beta, mean, variance, inverse] but
    `get_weights()` has no gamma when `scale=False` and no beta when `center=False`:
    `qs = [gamma_q] if scale` + `[beta_q] if center` + `[mean_q, variance_q]` -/
def bnQs (info : BNInfo) (qs : List (Option Quant)) : List (Option Quant) :=
  (if info.scale then qs.take 1 else []) ++ (if info.center then (qs.drop 1).take 1 else []) ++
    (qs.drop 2).take 2

/-- QBidirectional: `get_quantizers()` = forward_layer.get_quantizers() ++ backward_layer.get_quantizers()
    (`nq` forward ones: [kernel, recurrent, bias, state]), `get_weights()` = forward weights (`nwF`) ++
    backward weights (`nwB`):
    `for rnn in [forward_layer, backward_layer]: qs += rnn.get_quantizers()[:len(rnn.get_weights())]`.
    Nothing is assumed symmetric: `backward_layer=` may be another cell class, with other quantizers,
    with / without bias — each direction's OWN list, cut to that direction's OWN number of weights. -/
def bidirQs (nwF nwB nq : Nat) (qs : List (Option Quant)) : List (Option Quant) :=
  (qs.take nq).take nwF ++ (qs.drop nq).take nwB

def defaultBN : BNInfo := { scale := true, center := true, eps := 0 }

/-- `isinstance(layer, QBatchNormalization)`: the library class or a user subclass of it -/
def Layer.isBN (l : Layer) : Bool := l.bn.isSome

/-- the quantizer list the main loop zips with the layer's weights.
    `elif isinstance(layer, QBatchNormalization)` (fix round 2; was
    `layer.__class__.__name__ == "QBatchNormalization"`): the batch-norm pairing does not read the
    class name, so a subclass `MyBN(QBatchNormalization)` gets `bnQs` as well -/
def layerQs (l : Layer) : List (Option Quant) :=
  match l.kind with
  | .rnn => l.qs.dropLast
  | .bidir => bidirQs l.dirW l.dirWb l.dirQ l.qs
  | .folded => l.qs
  | _ => match l.bn with
         | some info => bnQs info l.qs
         | none => l.qs

def layerWs (l : Layer) (w : List Tensor) : List Tensor :=
  match l.kind with
  | .folded => l.fold w
  | _ => w

/-- what `layer.set_weights(weights)` leaves in the layer -/
def stepWeights (l : Layer) (w : List Tensor) : List Tensor :=
  match l.kind with
  | .folded => w
  | .noQuant => w
  | _ => zipApply (layerQs l) w

abbrev Model := List Layer

/-- `S M k` — effect of one export on the stored weights of layer `k` -/
def S (M : Model) (k : Nat) (w : List Tensor) : List Tensor :=
  match M[k]? with
  | none => w
  | some l => stepWeights l w

/-! ### find_bn_fusing_layer_pair -/

def clsOf (M : Model) (k : Nat) : String :=
  match M[k]? with
  | none => "NoneType"        -- the sink node carries layer None
  | some l => l.cls

/-- `enable_bn_fusing`: class in [QConv2D, QDepthwiseConv2D], a single successor, and that
    successor is a QBatchNormalization; the value is the successor -/
def fuseOf (M : Model) (i : Nat) : Option Nat :=
  match M[i]? with
  | none => none
  | some l =>
    if l.cls = "QConv2D" ∨ l.cls = "QDepthwiseConv2D" then
      match l.succ with
      | [b] => if clsOf M b = "QBatchNormalization" then some b else none
      | _ => none
    else none

/-- `layers_followed_by_bn` as (layer, bn) index pairs -/
def fusePairs (M : Model) : List (Nat × Nat) :=
  (List.range M.length).filterMap fun i => (fuseOf M i).map fun b => (i, b)

/-- `bn_layers_to_skip` -/
def skipSet (M : Model) : List Nat := (fusePairs M).map (·.2)

/-! ### add_bn_fusing_weights -/

/-- float32 rounding of single arithmetic results and the `rsqrt` oracle.
    `rnd = id` gives the real-number algebra; `rnd = rnd32` the bit-exact float32 computation. -/
structure Env where
  rnd : Rat → Rat
  rsq : Rat → Rat

/-- IEEE-754 binary32 round-to-nearest-even of a rational (normal range; no overflow handling) -/
def rnd32 (q : Rat) : Rat :=
  if q = 0 then 0 else
    let a := if q < 0 then -q else q
    let e := floorLog2Rat a
    let e := if e < -126 then -126 else e
    let ulp := pow2 (e - 23)
    let t := q / ulp
    let f := t.floor
    let r := t - (f : Rat)
    let k : Int := if r < 1/2 then f else if 1/2 < r then f + 1 else if f % 2 = 0 then f else f + 1
    (k : Rat) * ulp

structure BnTerms where
  inv : Tensor
  fusedBias : Tensor
  err : Option String

/-- `add_bn_fusing_weights(prev_layer, bn_layer, saved_weights)`:
    `bw = bn_layer.get_weights()`, `prevW = prev_layer.get_weights()` at the time of the call -/
def bnTerms (env : Env) (bnL : Layer) (bw : List Tensor) (useBias : Bool) (prevW : List Tensor) :
    BnTerms :=
  let info := bnL.bn.getD defaultBN
  let gq := (bnL.qs[0]?).join
  let bq := (bnL.qs[1]?).join
  let mq := (bnL.qs[2]?).join
  let vq := (bnL.qs[3]?).join
  let iq := (bnL.qs[4]?).join
  let idx0 := 0
  let gamma : Option Tensor := if info.scale then some (applyQ gq (bw.getD idx0 [])) else none
  let idx1 := if info.scale then idx0 + 1 else idx0
  let beta : Option Tensor := if info.center then some (applyQ bq (bw.getD idx1 [])) else none
  let idx2 := if info.center then idx1 + 1 else idx1
  let mean := applyQ mq (bw.getD idx2 [])
  let var := applyQ vq (bw.getD (idx2 + 1) [])
  let n := var.length
  let gammaT := gamma.getD (List.replicate n 1)                  -- gamma = 1.0
  let betaT := beta.getD (List.replicate n 0)                    -- beta = 0
  -- inv = gamma * math_ops.rsqrt(variance + bn_layer.epsilon)
  let inv0 := List.zipWith (fun g v => env.rnd (g * env.rsq (env.rnd (v + env.rnd info.eps)))) gammaT var
  let inv := applyQ iq inv0
  let prevBias : Tensor := if useBias then prevW.getLast?.getD [] else List.replicate n 0
  -- b_prime = inv * prev_bias + beta - inv * mean
  let t1 := List.zipWith (fun i b => env.rnd (i * b)) inv prevBias
  let t2 := List.zipWith (fun a b => env.rnd (a + b)) t1 betaT
  let t3 := List.zipWith (fun i m => env.rnd (i * m)) inv mean
  let fb := List.zipWith (fun a b => env.rnd (a - b)) t2 t3
  { inv := inv, fusedBias := fb,
    err := if iq.isSome && (gq.isSome || vq.isSome) then some "assert"
           else if useBias && prevW.length ≠ 2 then some "assert" else none }

/-! ### model_save_quantized_weights -/

structure PoolEntry where
  qMult : Rat          -- "q_mult_factor"
  mult : Rat           -- "mult_factor"
  area : Rat           -- "pool_area"
  deriving Repr, DecidableEq

/-- `saved_weights[layer.name]` -/
structure Entry where
  hw : List Tensor                  -- "weights"
  enableBnFusing : Bool             -- "enable_bn_fusing"
  signs : Option (List Tensor)      -- "signs"   (present iff has_sign)
  scales : Option (List Tensor)     -- "scales"  (present iff has_scale)
  pool : Option PoolEntry
  fusedBn : Option Nat              -- "fused_bn_layer_name"
  bnInv : Option Tensor             -- "bn_inv"
  fusedBias : Option Tensor         -- "fused_bias"
  deriving Repr, DecidableEq

def firstErr : List (Option String) → Option String
  | [] => none
  | some e :: _ => some e
  | none :: r => firstErr r

/-- `zip(qs, ws)` loop of layer `l` holding weights `wi` -/
def layerOuts (l : Layer) (wi : List Tensor) : List WOut := zipSplit (layerQs l) (layerWs l wi)

/-- pooling factors: `q_mult_factor`, `mult_factor`, `pool_area`; without average quantizer
    `q_mult_factor` is the plain `1.0 / pool_area` (no exception) -/
def poolPart (l : Layer) : Option PoolEntry × Option String :=
  match l.pool with
  | none => (none, none)
  | some p =>
    match (l.qs[0]?).join with
    | none => (some { qMult := p.mf, mult := p.mf, area := p.area }, none)
    | some Q => (some { qMult := (Q.q [p.mf]).getD 0 0, mult := p.mf, area := p.area }, none)

/-- `if layer.name in fusing_layer_pair_dict: add_bn_fusing_weights(layer, bn_layer, ...)`, called
    after `layer.set_weights(weights)`; `w` = all layers' weights just before this iteration -/
def fuseTerms (env : Env) (M : Model) (i : Nat) (l : Layer) (w : Nat → List Tensor) :
    Option (Nat × BnTerms) :=
  match fuseOf M i with
  | none => none
  | some b =>
    match M[b]? with
    | none => none
    | some bnL => some (b, bnTerms env bnL (w b) l.useBias (stepWeights l (w i)))

/-- assemble `saved_weights[layer.name]` and the first exception of the iteration -/
def assemble (outs : List WOut) (enableBn : Bool) (pp : Option PoolEntry × Option String)
    (ft : Option (Nat × BnTerms)) : Entry × Option String :=
  let e0 : Entry :=
    { hw := outs.map (·.hw), enableBnFusing := enableBn,
      signs := if outs.any (·.hasSign) then some (outs.map (·.sign)) else none,
      scales := if outs.any (·.hasScale) then some (outs.map (·.scale)) else none,
      pool := pp.1, fusedBn := none, bnInv := none, fusedBias := none }
  let errs := firstErr (outs.map (·.err))
  match ft with
  | none => (e0, firstErr [errs, pp.2])
  | some (b, t) =>
    ({ e0 with enableBnFusing := true, fusedBn := some b, bnInv := some t.inv,
               fusedBias := some t.fusedBias }, firstErr [errs, pp.2, t.err])

/-- the dictionary entry written for layer `i` (= `l`), given `w` = all layers' weights just
    before this iteration of the main loop; also the error this iteration raises, if any -/
def mkEntry (env : Env) (M : Model) (i : Nat) (l : Layer) (w : Nat → List Tensor) :
    Entry × Option String :=
  assemble (layerOuts l (w i))
    (decide (l.cls = "QBatchNormalization") && decide (i ∈ skipSet M))
    (poolPart l) (fuseTerms env M i l w)

structure St where
  w : Nat → List Tensor              -- layer index ↦ layer.get_weights()
  d : List (Nat × Entry)             -- saved_weights, insertion order
  err : Option String                -- first exception

def upd (w : Nat → List Tensor) (i : Nat) (v : List Tensor) : Nat → List Tensor :=
  fun j => if j = i then v else w j

/-- one iteration of `for layer in model.layers` -/
def stepAt (env : Env) (M : Model) (i : Nat) (st : St) : St :=
  match M[i]? with
  | none => st
  | some l =>
    match l.kind with
    | .noQuant => st
    | _ =>
      let r := mkEntry env M i l st.w
      { w := upd st.w i (stepWeights l (st.w i)), d := st.d ++ [(i, r.1)],
        err := match st.err with | some e => some e | none => r.2 }

def exportLoop (env : Env) (M : Model) : List Nat → St → St
  | [], st => st
  | i :: is, st => exportLoop env M is (stepAt env M i st)

/-- `model_save_quantized_weights(model)`: the model's weights afterwards and the returned dict -/
def exportQ (env : Env) (M : Model) (W : Nat → List Tensor) : St :=
  exportLoop env M (List.range M.length) { w := W, d := [], err := none }

/-! ### consumers -/

/-- effective (forward-pass) weights of layer `k`: what its `call()` feeds to the op -/
def eff (M : Model) (W : Nat → List Tensor) (k : Nat) : List Tensor :=
  match M[k]? with
  | none => W k
  | some l =>
    match l.kind with
    | .folded => zipApply l.fwd (l.fold (W k))
    | .noQuant => W k
    | _ => zipApply l.fwd (W k)

/-- predictions are some function `net` of the effective weights of all layers and the input -/
def predict {I O : Type} (net : (Nat → List Tensor) → I → O) (M : Model) (W : Nat → List Tensor)
    (x : I) : O := net (eff M W) x

def countZeros (ts : List Tensor) : Nat := (ts.map fun t => (t.filter (· = 0)).length).sum
def countAll (ts : List Tensor) : Nat := (ts.map List.length).sum

/-- weights `get_model_sparsity` examines in layer `k` of a model holding weights `W` -/
def examined (M : Model) (W : Nat → List Tensor) (k : Nat) : List Tensor :=
  match M[k]? with
  | none => []
  | some l => if l.allow && l.kind ≠ .noQuant then layerWs l (W k) else []

/-- `get_model_sparsity(model)`: export once, then zeros / all over the allowed layers
    (numerator, denominator); 0/0 reported as (0, 0) (`total_sparsity = 0.`) -/
def modelSparsity (env : Env) (M : Model) (W : Nat → List Tensor) : Nat × Nat :=
  let W' := (exportQ env M W).w
  let ts := (List.range M.length).flatMap (examined M W')
  (countZeros ts, countAll ts)

end QKV.Export
