/-
  QKV.Model.LayersConcrete — CONCRETE interpretation of the layer primitives (property C11):
  exact-rational tensors, row-major, with dense / conv1d / conv2d (valid, same, causal; stride;
  dilation; groups) / depthwise / separable / bias add / average pool / sums, and the element-wise
  quantizers of QKV.Model.FixedQ as quantizer / activation functions.  Other quantizers enter as
  finite tables (the real quantizer's values at the tensors it is applied to).

  The scalar cores (`convOutLen`, `padBefore`, `rd`, `conv1dAt`, `conv2dAt`, `dwConv2dAt`,
  `avgPoolAt`, `sumPoolAt`, `dotAt`) are what the index lemmas of QKV.Props.C11 are about; the
  tensor-level operations only move data in and out of them.

  TensorFlow conventions mirrored: SAME padding puts ⌊total/2⌋ zeros in front; average pooling
  divides by the number of cells inside the image; grouped convolution maps output channel `f`
  to group `f / (F / groups)`; depthwise output channel = `c * depth_multiplier + m`.

  Core Lean only.
-/
import QKV.Model.Layers
import QKV.Model.FixedQ
namespace QKV.Layers

/-! ## scalar cores -/

/-- Σ_{i<n} f i -/
def sumN (n : Nat) (f : Nat → Rat) : Rat := ((List.range n).map f).sum

/-- extent of a dilated kernel -/
def kext (k d : Nat) : Nat := (k - 1) * d + 1

/-- `conv_utils.conv_output_length` -/
def convOutLen (p : Padding) (n k s d : Nat) : Nat :=
  match p with
  | .valid => (n + s - kext k d) / s
  | _ => (n + s - 1) / s

/-- zeros put in front of the signal -/
def padBefore (p : Padding) (n k s d : Nat) : Nat :=
  match p with
  | .valid => 0
  | .same => ((convOutLen .same n k s d - 1) * s + kext k d - n) / 2
  | .causal => kext k d - 1

/-- read position `i` of a length-`n` signal that has `before` zeros in front (zeros behind too) -/
def rd (n before : Nat) (f : Nat → Rat) (i : Nat) : Rat :=
  if before ≤ i ∧ i - before < n then f (i - before) else 0

/-- one output element of `K.dot`: Σ_i x_i · w_{i,f} -/
def dotAt (n : Nat) (x : Nat → Rat) (w : Nat → Nat → Rat) (f : Nat) : Rat :=
  sumN n fun i => x i * w i f

/-- one output element of a 1-D convolution over an `n × C` signal: kernel `k × cg × F`,
    `cg = C / groups` input channels per group, `fpg = F / groups` filters per group -/
def conv1dAt (n k s d before cg fpg : Nat) (x : Nat → Nat → Rat) (w : Nat → Nat → Nat → Rat)
    (o f : Nat) : Rat :=
  sumN k fun j => sumN cg fun ci =>
    rd n before (fun t => x t (f / fpg * cg + ci)) (o * s + j * d) * w j ci f

/-- one output element of a 2-D convolution -/
def conv2dAt (h w kh kw sh sw dh dw bh bw cg fpg : Nat) (x : Nat → Nat → Nat → Rat)
    (ker : Nat → Nat → Nat → Nat → Rat) (oi oj f : Nat) : Rat :=
  sumN kh fun a => sumN kw fun b => sumN cg fun ci =>
    rd h bh (fun r => rd w bw (fun q => x r q (f / fpg * cg + ci)) (oj * sw + b * dw)) (oi * sh + a * dh)
      * ker a b ci f

/-- one output element of a depthwise 2-D convolution: output channel `c * dm + m` -/
def dwConv2dAt (h w kh kw sh sw dh dw bh bw dm : Nat) (x : Nat → Nat → Nat → Rat)
    (ker : Nat → Nat → Nat → Nat → Rat) (oi oj f : Nat) : Rat :=
  sumN kh fun a => sumN kw fun b =>
    rd h bh (fun r => rd w bw (fun q => x r q (f / dm)) (oj * sw + b * dw)) (oi * sh + a * dh)
      * ker a b (f / dm) (f % dm)

/-- cells of the window `[start, start+p)` that fall inside the image -/
def cntValid (n before p start : Nat) : Nat :=
  ((List.range p).filter fun a => before ≤ start + a ∧ start + a - before < n).length

/-- pooling sum of one window -/
def sumPoolAt (h w ph pw sh sw bh bw : Nat) (x : Nat → Nat → Rat) (i j : Nat) : Rat :=
  sumN ph fun a => sumN pw fun b => rd h bh (fun r => rd w bw (fun q => x r q) (j * sw + b)) (i * sh + a)

/-- average pooling of one window: sum over the cells inside the image / their number -/
def avgPoolAt (h w ph pw sh sw bh bw : Nat) (x : Nat → Nat → Rat) (i j : Nat) : Rat :=
  sumPoolAt h w ph pw sh sw bh bw x i j /
    ((cntValid h bh ph (i * sh) * cntValid w bw pw (j * sw) : Nat) : Rat)

/-- global pooling sum / mean of an `h × w` image -/
def sumHWAt (h w : Nat) (x : Nat → Nat → Rat) : Rat := sumN h fun r => sumN w fun q => x r q
def meanHWAt (h w : Nat) (x : Nat → Nat → Rat) : Rat := sumHWAt h w x / ((h * w : Nat) : Rat)

/-! ## tensors -/

structure Tensor where
  shape : List Nat
  data : Array Rat
  ok : Bool := true        -- false: some operation met shapes it does not accept
  deriving Repr

instance : Inhabited Tensor := ⟨⟨[], #[], false⟩⟩

def shapeSize (sh : List Nat) : Nat := sh.foldl (· * ·) 1

/-- row-major multi-index of a flat position -/
def unflat : List Nat → Nat → List Nat
  | [], _ => []
  | _ :: rest, i => let m := shapeSize rest; (i / m) :: unflat rest (i % m)

/-- flat position of a multi-index -/
def flat : List Nat → List Nat → Nat
  | _ :: rest, i :: is => i * shapeSize rest + flat rest is
  | _, _ => 0

def Tensor.at (t : Tensor) (idx : List Nat) : Rat := t.data.getD (flat t.shape idx) 0

def Tensor.ofFn (sh : List Nat) (f : List Nat → Rat) (ok : Bool := true) : Tensor :=
  { shape := sh, data := (Array.range (shapeSize sh)).map fun i => f (unflat sh i), ok := ok }

def Tensor.bad : Tensor := { shape := [], data := #[], ok := false }

def Tensor.scalar (c : Rat) : Tensor := { shape := [], data := #[c] }

def Tensor.map (f : Rat → Rat) (t : Tensor) : Tensor := { t with data := t.data.map f }

def Tensor.reshape (t : Tensor) (sh : List Nat) : Tensor :=
  { t with shape := sh, ok := t.ok && shapeSize sh == shapeSize t.shape }

def Tensor.same (a b : Tensor) : Bool := a.shape == b.shape && a.data == b.data

/-- numpy broadcasting of two shapes (right aligned) -/
def bshape : List Nat → List Nat → Option (List Nat)
  | a, b =>
    let n := max a.length b.length
    let a' := List.replicate (n - a.length) 1 ++ a
    let b' := List.replicate (n - b.length) 1 ++ b
    if (a'.zip b').all (fun p => p.1 == p.2 || p.1 == 1 || p.2 == 1) then
      some ((a'.zip b').map fun p => if p.1 == 1 then p.2 else p.1)
    else none

/-- read `t` at the multi-index `idx` of a broadcast result -/
def Tensor.bat (t : Tensor) (idx : List Nat) : Rat :=
  let idx' := idx.drop (idx.length - t.shape.length)
  t.at ((idx'.zip t.shape).map fun p => if p.2 == 1 then 0 else p.1)

def zipWithB (f : Rat → Rat → Rat) (a b : Tensor) : Tensor :=
  match bshape a.shape b.shape with
  | some sh => Tensor.ofFn sh (fun idx => f (a.bat idx) (b.bat idx)) (a.ok && b.ok)
  | none => Tensor.bad

def transpose (t : Tensor) (perm : List Nat) : Tensor :=
  let sh := perm.map fun p => t.shape.getD p 1
  -- output index idx ↦ input index with input axis perm[i] = idx[i]
  Tensor.ofFn sh (fun idx =>
    t.at ((List.range t.shape.length).map fun ax =>
      match perm.findIdx? (· == ax) with
      | some i => idx.getD i 0
      | none => 0)) t.ok

/-- NCHW → NHWC and back -/
def toLast (df : DataFormat) (t : Tensor) : Tensor :=
  match df with | .channelsLast => t | .channelsFirst => transpose t [0, 2, 3, 1]
def fromLast (df : DataFormat) (t : Tensor) : Tensor :=
  match df with | .channelsLast => t | .channelsFirst => transpose t [0, 3, 1, 2]

/-! ## the primitives on tensors -/

/-- NCW → NWC and back (1-D layers; `_preprocess_conv1d_input` transposes on CPU, the NCW kernels
    compute the same function) -/
def toLast1 (df : DataFormat) (t : Tensor) : Tensor :=
  match df with | .channelsLast => t | .channelsFirst => transpose t [0, 2, 1]
def fromLast1 (df : DataFormat) (t : Tensor) : Tensor :=
  match df with | .channelsLast => t | .channelsFirst => transpose t [0, 2, 1]

/-- TensorFlow's `GetWindowedOutputSize` rejects a VALID window when
    `(n - extent + stride) / stride` (C++ division, truncating toward zero) is negative, i.e. when
    `n + 2·stride ≤ extent` ("Computed output size would be negative"); a numerator in `(-stride, 0)`
    gives an EMPTY output (`convOutLen` = 0).  The stock layers additionally refuse such shapes in
    `build`; a later call of a built layer only meets this kernel check. -/
def windowRejected (p : Padding) (n k s d : Nat) : Bool :=
  match p with
  | .valid => n + 2 * s ≤ kext k d
  | _ => false

def tDotC (x w : Tensor) : Tensor :=
  match w.shape, x.shape.getLast? with
  | [n, m], some n' =>
    if n == n' then
      let lead := x.shape.dropLast
      let rows := shapeSize lead
      let y := Tensor.ofFn [rows, m] (fun idx =>
        match idx with
        | [r, f] => dotAt n (fun i => x.data.getD (r * n + i) 0) (fun i g => w.at [i, g]) f
        | _ => 0) (x.ok && w.ok)
      y.reshape (lead ++ [m])
    else Tensor.bad
  | _, _ => Tensor.bad

def conv1dC (g : ConvGeom) (x0 ker : Tensor) : Tensor :=
  let x := toLast1 g.df x0
  match x.shape, ker.shape with
  | [bn, n, c], [k, cg, fo] =>
    let s := g.strides.headD 1
    let d := g.dilation.headD 1
    if cg == 0 || c % cg != 0 || fo % (c / cg) != 0 || windowRejected g.padding n k s d then Tensor.bad else
    let groups := c / cg
    let fpg := fo / groups
    let on := convOutLen g.padding n k s d
    let before := padBefore g.padding n k s d
    fromLast1 g.df <| Tensor.ofFn [bn, on, fo] (fun idx =>
      match idx with
      | [b, o, f] => conv1dAt n k s d before cg fpg (fun t ch => x.at [b, t, ch])
                        (fun j ci ff => ker.at [j, ci, ff]) o f
      | _ => 0) (x.ok && ker.ok)
  | _, _ => Tensor.bad

def g2 (l : List Nat) : Nat × Nat := (l.getD 0 1, l.getD 1 1)

def conv2dC (g : ConvGeom) (x0 ker : Tensor) : Tensor :=
  let x := toLast g.df x0
  match x.shape, ker.shape with
  | [bn, h, w, c], [kh, kw, cg, fo] =>
    let (sh, sw) := g2 g.strides
    let (dh, dw) := g2 g.dilation
    if cg == 0 || c % cg != 0 || fo % (c / cg) != 0 || windowRejected g.padding h kh sh dh ||
       windowRejected g.padding w kw sw dw then Tensor.bad else
    let groups := c / cg
    let fpg := fo / groups
    let oh := convOutLen g.padding h kh sh dh
    let ow := convOutLen g.padding w kw sw dw
    let bh := padBefore g.padding h kh sh dh
    let bw := padBefore g.padding w kw sw dw
    fromLast g.df <| Tensor.ofFn [bn, oh, ow, fo] (fun idx =>
      match idx with
      | [b, i, j, f] => conv2dAt h w kh kw sh sw dh dw bh bw cg fpg (fun r q ch => x.at [b, r, q, ch])
                          (fun a bb ci ff => ker.at [a, bb, ci, ff]) i j f
      | _ => 0) (x.ok && ker.ok)
  | _, _ => Tensor.bad

def dwConv2dC (g : ConvGeom) (x0 ker : Tensor) : Tensor :=
  let x := toLast g.df x0
  match x.shape, ker.shape with
  | [bn, h, w, c], [kh, kw, c', dm] =>
    let (sh, sw) := g2 g.strides
    let (dh, dw) := g2 g.dilation
    if c != c' || dm == 0 || windowRejected g.padding h kh sh dh || windowRejected g.padding w kw sw dw
      then Tensor.bad else
    let oh := convOutLen g.padding h kh sh dh
    let ow := convOutLen g.padding w kw sw dw
    let bh := padBefore g.padding h kh sh dh
    let bw := padBefore g.padding w kw sw dw
    fromLast g.df <| Tensor.ofFn [bn, oh, ow, c * dm] (fun idx =>
      match idx with
      | [b, i, j, f] => dwConv2dAt h w kh kw sh sw dh dw bh bw dm (fun r q ch => x.at [b, r, q, ch])
                          (fun a bb ci m => ker.at [a, bb, ci, m]) i j f
      | _ => 0) (x.ok && ker.ok)
  | _, _ => Tensor.bad

/-- `separable_conv2d`: depthwise, then a 1×1 stride-1 convolution with the pointwise kernel -/
def sepConv2dC (g : ConvGeom) (x dk pk : Tensor) : Tensor :=
  conv2dC { strides := [1, 1], padding := .valid, dilation := [1, 1], df := g.df } (dwConv2dC g x dk) pk

def biasAddC (df : DataFormat) (x b : Tensor) : Tensor :=
  match b.shape with
  | [n] =>
    let ax := match df with | .channelsLast => x.shape.length - 1 | .channelsFirst => 1
    if x.shape.getD ax 0 != n then Tensor.bad else
    Tensor.ofFn x.shape (fun idx => x.at idx + b.at [idx.getD ax 0]) (x.ok && b.ok)
  | _ => Tensor.bad

def padLeftC (axis n : Nat) (x : Tensor) : Tensor :=
  let sh := x.shape.mapIdx fun i v => if i == axis then v + n else v
  Tensor.ofFn sh (fun idx =>
    let i := idx.getD axis 0
    if i < n then 0 else x.at (idx.mapIdx fun a v => if a == axis then v - n else v)) x.ok

def avgPool2dC (g : PoolGeom) (x0 : Tensor) : Tensor :=
  let x := toLast g.df x0
  match x.shape with
  | [bn, h, w, c] =>
    let (ph, pw) := g.pool
    let (sh, sw) := g.strides
    let oh := convOutLen g.padding h ph sh 1
    let ow := convOutLen g.padding w pw sw 1
    let bh := padBefore g.padding h ph sh 1
    let bw := padBefore g.padding w pw sw 1
    fromLast g.df <| Tensor.ofFn [bn, oh, ow, c] (fun idx =>
      match idx with
      | [b, i, j, ch] => avgPoolAt h w ph pw sh sw bh bw (fun r q => x.at [b, r, q, ch]) i j
      | _ => 0) x.ok
  | _ => Tensor.bad

def hwReduceC (mean : Bool) (df : DataFormat) (keep : Bool) (x0 : Tensor) : Tensor :=
  let x := toLast df x0
  match x.shape with
  | [bn, h, w, c] =>
    let y := Tensor.ofFn [bn, c] (fun idx =>
      match idx with
      | [b, ch] => (if mean then meanHWAt else sumHWAt) h w (fun r q => x.at [b, r, q, ch])
      | _ => 0) x.ok
    if keep then
      match df with
      | .channelsLast => y.reshape [bn, 1, 1, c]
      | .channelsFirst => y.reshape [bn, c, 1, 1]
    else y
  | _ => Tensor.bad

/-- slice `[a, b)` of the last axis -/
def sliceLast (a : Nat) (b : Option Nat) (x : Tensor) : Tensor :=
  match x.shape.getLast? with
  | some n =>
    let hi := min (b.getD n) n
    let lo := min a hi
    let sh := x.shape.dropLast ++ [hi - lo]
    let r := x.shape.length - 1
    Tensor.ofFn sh (fun idx => x.at (idx.mapIdx fun ax v => if ax == r then v + lo else v)) x.ok
  | none => Tensor.bad

def unstackC (i : Nat) (x : Tensor) : Tensor :=
  match x.shape with
  | n :: rest =>
    if i < n then Tensor.ofFn rest (fun idx => x.at (i :: idx)) x.ok else Tensor.bad
  | [] => Tensor.bad

def insertAt (l : List Nat) (i v : Nat) : List Nat := l.take i ++ [v] ++ l.drop i

/-- H·W of a rank-4 shape (`compute_pooling_area`: `shape[1]*shape[2]` / `shape[2]*shape[3]`) -/
def areaHW (df : DataFormat) (sh : List Nat) : Nat :=
  match df with
  | .channelsLast => sh.getD 1 0 * sh.getD 2 0
  | .channelsFirst => sh.getD 2 0 * sh.getD 3 0

/-- the python scalar `1.0 / pool_area` of the tensor handed to THIS call (rank 4, non-empty image) -/
def recipAreaC (df : DataFormat) (x : Tensor) : Tensor :=
  if x.shape.length == 4 && areaHW df x.shape != 0 then
    { Tensor.scalar (1 / (areaHW df x.shape : Rat)) with ok := x.ok }
  else Tensor.bad

def op1C : Op1 → Tensor → Tensor
  | .expandDims ax, x => x.reshape (insertAt x.shape ax 1)
  | .squeeze ax, x => if x.shape.getD ax 0 == 1 then x.reshape (x.shape.eraseIdx ax) else Tensor.bad
  | .padLeft ax n, x => padLeftC ax n x
  | .scale c, x => x.map (· * c)
  | .avgPool2d g, x => avgPool2dC g x
  | .sumHW df keep, x => hwReduceC false df keep x
  | .meanHW df keep, x => hwReduceC true df keep x
  | .cols a b, x => sliceLast a b x
  | .vec a b, x => sliceLast a b x
  | .split n i, x =>
    match x.shape.getLast? with
    | some l => if n != 0 && l % n == 0 then sliceLast (i * (l / n)) (some ((i + 1) * (l / n))) x else Tensor.bad
    | none => Tensor.bad
  | .splitUU u i, x =>
    if i == 0 then sliceLast 0 (some u) x
    else if i == 1 then sliceLast u (some (2 * u)) x
    else sliceLast (2 * u) none x
  | .unstack i, x => unstackC i x
  | .oneMinus, x => x.map (1 - ·)
  | .castFloatx, x => x
  | .recipAreaHW df, x => recipAreaC df x

def op2C : Op2 → Tensor → Tensor → Tensor
  | .dot, x, w => tDotC x w
  | .conv1d g, x, k => conv1dC g x k
  | .conv2d g, x, k => conv2dC g x k
  | .depthwiseConv2d g, x, k => dwConv2dC g x k
  | .biasAdd df, x, b => biasAddC df x b
  | .add, a, b => zipWithB (· + ·) a b
  | .mul, a, b => zipWithB (· * ·) a b

def op3C : Op3 → Tensor → Tensor → Tensor → Tensor
  | .separableConv2d g, x, dk, pk => sepConv2dC g x dk pk

/-- the concrete interpretation of the primitives -/
def concrete : Interp Tensor := { const := Tensor.scalar, op1 := op1C, op2 := op2C, op3 := op3C }

/-! ## quantizer / activation functions -/

/-- a quantizer or activation function, concretely -/
inductive QSpec
  | ident
  | bits (c : BitsCfg)                       -- quantized_bits, element-wise (alpha None / constant)
  | relu (c : ReluCfg)                       -- quantized_relu
  | tanh (bits : Int) (sym : Bool)           -- quantized_tanh (hard-sigmoid surrogate)
  | sigmoid (bits : Int) (sym : Bool)        -- quantized_sigmoid (hard-sigmoid surrogate)
  | hardSigmoid                              -- qkeras hard_sigmoid: clip(x/2 + 1/2, 0, 1)
  | hardTanh                                 -- qkeras hard_tanh: 2·hard_sigmoid(x) − 1
  | table (entries : List (Tensor × Tensor)) -- values of the real quantizer at given tensors

/-- element-wise quantizers: the scalar function -/
def QSpec.scalarFn : QSpec → Option (Rat → Rat)
  | .ident => some id
  | .bits c => some (qbits .even c)
  | .relu c => some (qrelu .even c)
  | .tanh b s => some fun x => qtanhP .even b s (2 * QKV.hardSigmoid x - 1)
  | .sigmoid b s => some fun x => qsigmoidP .even b s (QKV.hardSigmoid x)
  | .hardSigmoid => some QKV.hardSigmoid
  | .hardTanh => some fun x => 2 * QKV.hardSigmoid x - 1
  | .table _ => none

def QSpec.apply (q : QSpec) (t : Tensor) : Tensor :=
  match q with
  | .table es =>
    match es.find? (fun e => e.1.same t) with
    | some e => { e.2 with ok := e.2.ok && t.ok }
    | none => Tensor.bad                      -- the table does not cover this argument
  | _ => match q.scalarFn with
    | some f => t.map f
    | none => Tensor.bad

/-- environment of a concrete run -/
def concreteEnv (x : Tensor) (states weights : List Tensor) (mask : Tensor) (qs as : List QSpec) : Env Tensor :=
  { x := x
    state := fun j => states.getD j Tensor.bad
    weight := fun i => weights.getD i Tensor.bad
    mask := mask
    quant := fun s => (qs.getD s .ident).apply
    actv := fun s => (as.getD s .ident).apply }

end QKV.Layers
