/-
  QKV.Model.LayerTypes — the data types qtools reports for one dense / convolution layer and
  for a sequential chain of layers.

  Mirrors, as written:
    qkeras/qtools/generate_layer_data_type_map.py  (dense/conv branch: multiplier, kernel
        accumulator built with use_bias=False, bias adder; depthwise kernel-shape rewrite;
        for_reference / keras-layer overrides; update_output_quantizer_in_graph;
        the QActivation branch; the shape-alternation (Flatten / MaxPooling / Reshape) branch)
    qkeras/qtools/qgraph.py  GraphPropagateActivationsToEdges / GraphUpdateEdge, restricted to
        chains (one predecessor per node)
    qkeras/qtools/qtools_util.py  adjust_multiplier_for_auto_po2 / adjust_accumulator_for_auto_po2
    qkeras/qtools/quantized_operators/quantizer_factory.py  make_quantizer on a *qtools* record
        (the `quantizer_lookup` rows added "for the use in GraphUpdateEdge"), make_default_quantizer
  Core Lean only.
-/
import QKV.Model.Accum
namespace QKV

inductive LayerKind | dense | conv1d | conv2d | depthwise
  deriving DecidableEq, Repr, Inhabited

def LayerKind.ofString? : String → Option LayerKind
  | "QDense" | "Dense" => some .dense
  | "QConv1D" | "Conv1D" => some .conv1d
  | "QConv2D" | "Conv2D" => some .conv2d
  | "QDepthwiseConv2D" | "DepthwiseConv2D" => some .depthwise
  | _ => none

/-- `kernel_shape = kernel.shape[:-2] + (1, 1)` for (Q)DepthwiseConv2D, else `kernel.shape` -/
def accShape (k : LayerKind) (shape : List Nat) : List Nat :=
  match k with
  | .depthwise => shape.dropLast.dropLast ++ [1, 1]
  | _ => shape

/-! ### default quantizers (`QuantizerFactory.make_default_quantizer`) -/

inductive DefaultMode | fp32 | fp16 | int8 | int16 | int32
  deriving DecidableEq, Repr, Inhabited

def DefaultMode.ofString? : String → Option DefaultMode
  | "fp32" => some .fp32 | "fp16" => some .fp16 | "int8" => some .int8
  | "int16" => some .int16 | "int32" => some .int32
  | "quantized_bits(8, 0, 1)" => some .int8     -- config_public default_interm_quantizer
  | _ => none

def makeDefaultQuantizer : DefaultMode → QRec
  | .fp32 => tFloat 32
  | .fp16 => tFloat 16
  | .int8 => { tQuantizedBits with bits := 8, intBits := 0, signed := true }
  | .int16 => { tQuantizedBits with bits := 16, intBits := 7, signed := true }
  | .int32 => { tQuantizedBits with bits := 32, intBits := 10, signed := true }

/-! ### `make_quantizer` applied to a qtools record sitting on a graph edge

The `quantizer_lookup` rows "for the use in GraphUpdateEdge" map every impl class to itself
(since the repair "QuantizerFactory maps every qtools quantizer class to itself"; before it
StochasticBinary, Bernoulli, QuantizedTanh and QuantizedUlaw were mapped to StochasticTernary),
so `_make_quantizer_util` takes the `clone_quantizer` (deep copy) path for every record. -/
def remake (q : QRec) : QRec := q

/-! ### auto_po2 adjustment -/

/-- `int(np.log2(s))` for a positive scale: truncation toward zero of log2 -/
def truncLog2 (s : Rat) : Int := if 1 ≤ s then floorLog2Rat s else ceilLog2Rat s

def ratMax (l : List Rat) : Rat := l.foldl (fun a b => if a < b then b else a) (l.headD 0)
def ratMin (l : List Rat) : Rat := l.foldl (fun a b => if b < a then b else a) (l.headD 0)

/-- `(max_shift, min_shift)` from the per-channel scales -/
def autoPo2Shifts (scales : List Rat) : Int × Int :=
  (truncLog2 (ratMax scales), truncLog2 (ratMin scales))

/-- `adjust_multiplier_for_auto_po2` on the multiplier's output record -/
def adjustMultiplier (m : QRec) (maxShift minShift : Int) : QRec :=
  let maxFrac := m.bits - m.intBits - minShift
  let maxInt := m.intBits + maxShift
  { m with bits := maxInt + maxFrac, intBits := maxInt }

/-! ### one dense / conv layer -/

structure LayerTypes where
  weight : QRec
  bias : Option QRec
  impl : MulImpl
  multiplier : QRec
  kernelAcc : QRec
  accumulator : QRec
  fusedAccumulator : QRec
  deriving Repr, DecidableEq

/-- the bias adder: `IAdder().make_quantizer(kernel_accumulator.output, bias_quantizer)`;
    without bias the kernel accumulator itself -/
def biasAdd (kacc : QRec) (b : Option QRec) : Option QRec :=
  match b with
  | none => some kacc
  | some bq => makeAdder kacc bq

/-- accumulator for a given multiplier output record: kernel accumulator with
    `use_bias=False`, then the bias adder -/
def accFor (kind : LayerKind) (m : QRec) (b : Option QRec) (shape : List Nat) : Option (QRec × QRec) :=
  let kacc := makeAccumulator (accShape kind shape) m false
  (biasAdd kacc b).map fun a => (kacc, a)

/-- dense/conv branch for a qkeras layer, `for_reference=False`, no BN fusing.
    `x` input type, `w` weight type, `b` bias type (none when `use_bias=False`),
    `autoPo2 = some (max_shift, min_shift)` when the kernel quantizer is `quantized_bits` with
    `alpha="auto_po2"` and its scale is known. -/
def layerTypes (kind : LayerKind) (x w : QRec) (b : Option QRec) (shape : List Nat)
    (autoPo2 : Option (Int × Int) := none) : Option LayerTypes :=
  match makeMultiplier w x with
  | none => none
  | some (impl, m) =>
    match accFor kind m b shape with
    | none => none
    | some (kacc, acc) =>
      let fused : Option QRec :=
        match autoPo2 with
        | none => some acc
        | some (mx, mn) => (accFor kind (adjustMultiplier m mx mn) b shape).map (·.2)
      fused.map fun f =>
        { weight := w, bias := b, impl := impl, multiplier := m, kernelAcc := kacc,
          accumulator := acc, fusedAccumulator := f }

/-- `for_reference=True` (or a plain Keras layer): weights and bias take the `keras_quantizer`
    default (else `default_interm_quantizer`), the multiplier/accumulator *classes* are still
    derived from those, and both outputs are then overwritten by the `keras_accumulator`
    default (else `default_interm_quantizer`). -/
def layerTypesRef (kind : LayerKind) (x : QRec) (useBias : Bool) (shape : List Nat)
    (interm : DefaultMode) (kerasQuantizer kerasAccumulator : Option DefaultMode) :
    Option LayerTypes :=
  let wq := makeDefaultQuantizer (kerasQuantizer.getD interm)
  match layerTypes kind x wq (if useBias then some wq else none) shape with
  | none => none
  | some lt =>
    let o := makeDefaultQuantizer (kerasAccumulator.getD interm)
    some { lt with multiplier := o, accumulator := o, fusedAccumulator := o }

/-! ### a sequential chain: activation propagation to edges + the per-node branches -/

inductive Node
  /-- QActivation whose quantizer converts to this record -/
  | qact (q : QRec)
  /-- Flatten / MaxPooling / Reshape / UpSampling: the input type is passed through -/
  | pass
  /-- dense / conv layer; `act` = converted `layer.activation` when it is a quantizer
      (None for "linear"); `autoPo2` as in `layerTypes` -/
  | layer (kind : LayerKind) (w : QRec) (b : Option QRec) (shape : List Nat)
          (act : Option QRec) (autoPo2 : Option (Int × Int))
  deriving Repr

structure NodeReport where
  input : QRec
  types : Option LayerTypes
  output : QRec
  deriving Repr

/-- `update_output_quantizer_in_graph`: with an activation quantizer on the node the output is
    that quantizer's conversion; otherwise the freshly computed record is put on the edge and
    re-made by the factory (for the report and again for the consumer — same result). -/
def outputOf (act : Option QRec) (new : QRec) : QRec :=
  match act with
  | some a => a
  | none => remake new

def stepNode (inp : QRec) : Node → Option NodeReport
  | .qact q => some { input := inp, types := none, output := q }
  | .pass => some { input := inp, types := none, output := remake inp }
  | .layer kind w b shape act ap =>
    (layerTypes kind inp w b shape ap).map fun lt =>
      { input := inp, types := some lt, output := outputOf act lt.accumulator }

/-- `adjust_accumulator_for_auto_po2` asserts `kernel_shape[-1] == 1` for depthwise layers
    ("depth_multiplier must be 1"): QTools raises AssertionError for such a model -/
def autoPo2Rejects : Node → Bool
  | .layer .depthwise _ _ shape _ (some _) => shape.getLast? != some 1
  | _ => false

/-- reports of every node of a chain fed by a source of type `src` -/
def chainTypes (src : QRec) : List Node → Option (List NodeReport)
  | [] => some []
  | n :: rest =>
    match stepNode src n with
    | none => none
    | some r => (chainTypes r.output rest).map (r :: ·)

/-! ### the `is_inference=True` route of the dense / conv branch

```
if is_inference:
  weights = qtools_util.get_weights(layer, model_weights_already_quantized)
  if weight_quantizer.is_po2: weight_quantizer.update_inference_values(weights[0])
  if layer.use_bias and bias_quantizer.is_po2: bias_quantizer.update_inference_values(weights[1])
```
`update_inference_values` exists on `PowerOfTwo` only (inherited by `ReluPowerOfTwo`) and writes
`inference_value_counts = len(set(weights.flatten()))` — none of the fields the type rules read
(`bits`, `int_bits`, `is_signed`, `max_val_po2`) changes.  The block runs BEFORE
`if not layer.use_bias: bias_quantizer = None`; until the repair of C18-inference-unused-po2-bias
its second test was `if bias_quantizer.is_po2:`, so the record made from `get_quantizers()[1]`
was consulted even for a layer without a bias weight and `weights[1]` was then out of range
(IndexError).  Now `layer.use_bias` is consulted first: the unused record is never read. -/

/-- the distinct entries of a list of constants, first occurrence of each value from the right
    (`set(weights.flatten())`; `0.0 == -0.0` are one element there and one rational here) -/
def distinctVals : List Rat → List Rat
  | [] => []
  | a :: l => if (distinctVals l).contains a then distinctVals l else a :: distinctVals l

/-- `len(set(weights.flatten()))` -/
def inferenceValueCounts (ws : List Rat) : Int := ((distinctVals ws).length : Int)

/-- `PowerOfTwo.update_inference_values(weights)`: the record (unchanged) and the new
    `inference_value_counts` -/
def updateInferenceValues (q : QRec) (ws : List Rat) : QRec × Int := (q, inferenceValueCounts ws)

/-- the constants of one layer as `get_weights` hands them over, and — for a layer built with
    `use_bias=False` — the record made from the (unused) `get_quantizers()[1]`
    (`None` ↦ the default intermediate quantizer, which is not po2).  The block no longer reads
    `unusedBias`; the field (and `InfOutcome.indexError`) stay so that the harness keeps sending
    the unused record and the theorems can say it is irrelevant -/
structure InfConsts where
  wv : List Rat
  bv : List Rat
  unusedBias : Option QRec
  deriving Repr

inductive InfOutcome (α : Type) | ok (a : α) | indexError
  deriving Repr

/-- what the inference block leaves behind: weight record, its `inference_value_counts`
    (`-1` = never written), bias record (none when `use_bias=False`), its counts -/
structure InfLayer where
  w : QRec
  wCounts : Int
  b : Option QRec
  bCounts : Int
  deriving Repr

/-- the `if is_inference:` block; `b = none` ⇔ `use_bias=False` -/
def inferenceBlock (w : QRec) (b : Option QRec) (c : InfConsts) : InfOutcome InfLayer :=
  let wu : QRec × Int := if w.isPo2 then updateInferenceValues w c.wv else (w, -1)
  match b with
  | some bq =>
    let bu : QRec × Int := if bq.isPo2 then updateInferenceValues bq c.bv else (bq, -1)
    .ok { w := wu.1, wCounts := wu.2, b := some bu.1, bCounts := bu.2 }
  | none => .ok { w := wu.1, wCounts := wu.2, b := none, bCounts := -1 }

/-- one node on the inference route: the node the type rules see, and the two counts -/
def inferNode : Node → InfConsts → InfOutcome (Node × Int × Int)
  | .layer kind w b shape act ap, c =>
    match inferenceBlock w b c with
    | .ok r => .ok (.layer kind r.w r.b shape act ap, r.wCounts, r.bCounts)
    | .indexError => .indexError
  | n, _ => .ok (n, -1, -1)

def inferChain : List (Node × InfConsts) → InfOutcome (List Node × List (Int × Int))
  | [] => .ok ([], [])
  | (n, c) :: rest =>
    match inferNode n c with
    | .indexError => .indexError
    | .ok (n', wc, bc) =>
      match inferChain rest with
      | .indexError => .indexError
      | .ok (ns, cs) => .ok (n' :: ns, (wc, bc) :: cs)

/-- `QTools(..., is_inference=True)` on a chain: the reports and the per-node counts -/
def chainTypesInf (src : QRec) (nodes : List (Node × InfConsts)) :
    InfOutcome (Option (List NodeReport) × List (Int × Int)) :=
  match inferChain nodes with
  | .indexError => .indexError
  | .ok (ns, cs) => .ok (chainTypes src ns, cs)

/-- a cap on the exponents of a po2 record (what an implementation of the TODO "update the
    quantizer type with min and max of the constant values" would write into `max_val_po2`) -/
def capPo2 (q : QRec) (m : Rat) : QRec := { q with maxValPo2 := some m }

def ratAbs (v : Rat) : Rat := if v < 0 then -v else v

/-! ### `interface.populate_quantizer`: the integer fields of a JSON entry of `_output_dict` -/
def populate (q : QRec) : List (String × Int) :=
  if q.isFloat then [("bits", q.bits)]
  else if q.isPo2 then [("bits", q.bits), ("is_signed", b2i q.signed)]
  else if q.mode = 3 ∨ q.mode = 4 then
    [("bits", q.bits), ("int_bits", q.intBits), ("is_signed", b2i q.signed)]
  else if q.mode = 2 then [("bits", 2), ("int_bits", 2), ("is_signed", 1)]
  else if q.mode = 0 then
    [("bits", q.bits), ("int_bits", q.intBits + b2i q.signed), ("is_signed", b2i q.signed)]
  else []

end QKV
