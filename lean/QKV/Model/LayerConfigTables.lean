/-
  QKV.Model.LayerConfigTables — the static tables of the C13 configuration model:
  constructor signatures (names, order, defaults), get_config key sets, kinds, read sets and the
  custom-object table of qkeras/utils.py `_add_supported_quantized_objects`.
  Written out from the live objects once (harness/qkv/props/c13_tables.py) and compared
  exhaustively with `inspect.signature` / `get_config()` / the live table on every run.
  Kinds, read flags, hooks and trainable slots are the hand-written part (rules in that file).
-/
import QKV.Model.LayerConfig
namespace QKV.LC

def qs_quantized_bits : QSpec :=
  { name := "quantized_bits",
    params := [("bits", (.num (8 : Rat))),
      ("integer", (.num (0 : Rat))),
      ("symmetric", (.num (0 : Rat))),
      ("keep_negative", (.bool true)),
      ("alpha", .none),
      ("use_stochastic_rounding", (.bool false)),
      ("scale_axis", .none),
      ("qnoise_factor", (.num (1 : Rat))),
      ("var_name", .none),
      ("use_ste", (.bool true)),
      ("use_variables", (.bool false)),
      ("elements_per_scale", .none),
      ("min_po2_exponent", .none),
      ("max_po2_exponent", .none),
      ("post_training_scale", .none)],
    emits := ["bits", "integer", "symmetric", "alpha", "keep_negative", "use_stochastic_rounding", "scale_axis", "qnoise_factor", "use_ste", "elements_per_scale", "min_po2_exponent", "max_po2_exponent", "post_training_scale"],
    extra := [],
    trainable := 2,
    tolist := [] }

def qs_bernoulli : QSpec :=
  { name := "bernoulli",
    params := [("alpha", .none),
      ("temperature", (.num (6 : Rat))),
      ("use_real_sigmoid", (.bool true))],
    emits := ["alpha", "temperature", "use_real_sigmoid"],
    extra := [],
    trainable := 1,
    tolist := [] }

def qs_stochastic_ternary : QSpec :=
  { name := "stochastic_ternary",
    params := [("alpha", .none),
      ("threshold", .none),
      ("temperature", (.num (8 : Rat))),
      ("use_real_sigmoid", (.bool true)),
      ("number_of_unrolls", (.num (5 : Rat)))],
    emits := ["alpha", "threshold", "temperature", "use_real_sigmoid", "number_of_unrolls"],
    extra := [],
    trainable := 1,
    tolist := [] }

def qs_ternary : QSpec :=
  { name := "ternary",
    params := [("alpha", .none),
      ("threshold", .none),
      ("use_stochastic_rounding", (.bool false)),
      ("number_of_unrolls", (.num (5 : Rat)))],
    emits := ["alpha", "threshold", "use_stochastic_rounding", "number_of_unrolls"],
    extra := [],
    trainable := 1,
    tolist := [] }

def qs_stochastic_binary : QSpec :=
  { name := "stochastic_binary",
    params := [("alpha", .none),
      ("temperature", (.num (6 : Rat))),
      ("use_real_sigmoid", (.bool true))],
    emits := ["alpha", "temperature", "use_real_sigmoid"],
    extra := [],
    trainable := 1,
    tolist := [] }

def qs_binary : QSpec :=
  { name := "binary",
    params := [("use_01", (.bool false)),
      ("alpha", .none),
      ("use_stochastic_rounding", (.bool false)),
      ("scale_axis", .none),
      ("elements_per_scale", .none),
      ("min_po2_exponent", .none),
      ("max_po2_exponent", .none)],
    emits := ["use_01", "alpha", "use_stochastic_rounding", "scale_axis", "elements_per_scale", "min_po2_exponent", "max_po2_exponent"],
    extra := [],
    trainable := 1,
    tolist := [] }

def qs_quantized_relu : QSpec :=
  { name := "quantized_relu",
    params := [("bits", (.num (8 : Rat))),
      ("integer", (.num (0 : Rat))),
      ("use_sigmoid", (.num (0 : Rat))),
      ("negative_slope", (.num (0 : Rat))),
      ("use_stochastic_rounding", (.bool false)),
      ("relu_upper_bound", .none),
      ("is_quantized_clip", (.bool true)),
      ("qnoise_factor", (.num (1 : Rat))),
      ("var_name", .none),
      ("use_ste", (.bool true)),
      ("use_variables", (.bool false))],
    emits := ["bits", "integer", "use_sigmoid", "negative_slope", "use_stochastic_rounding", "relu_upper_bound", "is_quantized_clip", "qnoise_factor", "use_ste"],
    extra := [],
    trainable := 0,
    tolist := [] }

def qs_quantized_ulaw : QSpec :=
  { name := "quantized_ulaw",
    params := [("bits", (.num (8 : Rat))),
      ("integer", (.num (0 : Rat))),
      ("symmetric", (.num (0 : Rat))),
      ("u", (.num (255 : Rat)))],
    emits := ["bits", "integer", "symmetric", "u"],
    extra := [],
    trainable := 0,
    tolist := [] }

def qs_quantized_tanh : QSpec :=
  { name := "quantized_tanh",
    params := [("bits", (.num (8 : Rat))),
      ("use_stochastic_rounding", (.bool false)),
      ("symmetric", (.bool false)),
      ("use_real_tanh", (.bool false))],
    emits := ["bits", "symmetric", "use_stochastic_rounding", "use_real_tanh"],
    extra := [],
    trainable := 0,
    tolist := [] }

def qs_quantized_sigmoid : QSpec :=
  { name := "quantized_sigmoid",
    params := [("bits", (.num (8 : Rat))),
      ("symmetric", (.bool false)),
      ("use_real_sigmoid", (.bool false)),
      ("use_stochastic_rounding", (.bool false))],
    emits := ["bits", "symmetric", "use_real_sigmoid", "use_stochastic_rounding"],
    extra := [],
    trainable := 0,
    tolist := [] }

def qs_quantized_po2 : QSpec :=
  { name := "quantized_po2",
    params := [("bits", (.num (8 : Rat))),
      ("max_value", .none),
      ("use_stochastic_rounding", (.bool false)),
      ("quadratic_approximation", (.bool false)),
      ("log2_rounding", (.str "rnd")),
      ("qnoise_factor", (.num (1 : Rat))),
      ("var_name", .none),
      ("use_ste", (.bool true)),
      ("use_variables", (.bool false))],
    emits := ["bits", "max_value", "use_stochastic_rounding", "quadratic_approximation", "qnoise_factor", "log2_rounding", "use_ste"],
    extra := [],
    trainable := 0,
    tolist := [] }

def qs_quantized_relu_po2 : QSpec :=
  { name := "quantized_relu_po2",
    params := [("bits", (.num (8 : Rat))),
      ("max_value", .none),
      ("negative_slope", (.num (0 : Rat))),
      ("use_stochastic_rounding", (.bool false)),
      ("quadratic_approximation", (.bool false)),
      ("log2_rounding", (.str "rnd")),
      ("qnoise_factor", (.num (1 : Rat))),
      ("var_name", .none),
      ("use_ste", (.bool true)),
      ("use_variables", (.bool false))],
    emits := ["bits", "max_value", "negative_slope", "use_stochastic_rounding", "quadratic_approximation", "qnoise_factor", "log2_rounding", "use_ste"],
    extra := [],
    trainable := 0,
    tolist := [] }

def qs_quantized_linear : QSpec :=
  { name := "quantized_linear",
    params := [("bits", (.num (8 : Rat))),
      ("integer", (.num (0 : Rat))),
      ("symmetric", (.num (1 : Rat))),
      ("keep_negative", (.bool true)),
      ("alpha", .none),
      ("use_stochastic_rounding", (.bool false)),
      ("scale_axis", .none),
      ("qnoise_factor", (.num (1 : Rat))),
      ("var_name", .none),
      ("use_variables", (.bool false))],
    emits := ["bits", "integer", "symmetric", "alpha", "keep_negative", "use_stochastic_rounding", "scale_axis", "qnoise_factor"],
    extra := [],
    trainable := 2,
    tolist := [] }

def qs_quantized_hswish : QSpec :=
  { name := "quantized_hswish",
    params := [("bits", (.num (8 : Rat))),
      ("integer", (.num (0 : Rat))),
      ("symmetric", (.num (0 : Rat))),
      ("alpha", .none),
      ("use_stochastic_rounding", (.bool false)),
      ("scale_axis", .none),
      ("qnoise_factor", (.num (1 : Rat))),
      ("var_name", .none),
      ("use_variables", (.bool false)),
      ("relu_shift", (.num (3 : Rat))),
      ("relu_upper_bound", (.num (6 : Rat)))],
    emits := ["bits", "integer", "symmetric", "alpha", "use_stochastic_rounding", "scale_axis", "qnoise_factor", "relu_shift", "relu_upper_bound"],
    extra := [],
    trainable := 2,
    tolist := [] }

def qSpecs : List QSpec :=
  [qs_quantized_bits, qs_bernoulli, qs_stochastic_ternary, qs_ternary, qs_stochastic_binary, qs_binary, qs_quantized_relu, qs_quantized_ulaw, qs_quantized_tanh, qs_quantized_sigmoid, qs_quantized_po2, qs_quantized_relu_po2, qs_quantized_linear, qs_quantized_hswish]

def ls_QDense : LSpec :=
  { name := "QDense",
    params := [
      ⟨"units", .lit, (.lit .none), true, true, true⟩,
      ⟨"activation", .act, (.act .none), false, true, true⟩,
      ⟨"use_bias", .lit, (.lit (.bool true)), false, true, true⟩,
      ⟨"kernel_initializer", (.init "kernel_quantizer" [] false), (.init (.keras (.str "he_normal"))), false, true, false⟩,
      ⟨"bias_initializer", (.init "bias_quantizer" ["use_bias"] false), (.init (.keras (.str "zeros"))), false, true, false⟩,
      ⟨"kernel_regularizer", .lit, (.lit .none), false, true, false⟩,
      ⟨"bias_regularizer", .lit, (.lit .none), false, true, false⟩,
      ⟨"activity_regularizer", .lit, (.lit .none), false, true, false⟩,
      ⟨"kernel_constraint", (.constr "kernel_quantizer" []), (.constr .none), false, true, false⟩,
      ⟨"bias_constraint", (.constr "bias_quantizer" ["use_bias"]), (.constr .none), false, true, false⟩,
      ⟨"kernel_quantizer", (.quant true), (.q .none), false, true, true⟩,
      ⟨"bias_quantizer", (.quant false), (.q .none), false, true, true⟩,
      ⟨"kernel_range", .lit, (.lit .none), false, true, false⟩,
      ⟨"bias_range", .lit, (.lit .none), false, true, false⟩],
    noneIsLinear := true,
    hook := 0 }

def ls_QConv1D : LSpec :=
  { name := "QConv1D",
    params := [
      ⟨"filters", .lit, (.lit .none), true, true, true⟩,
      ⟨"kernel_size", .lit, (.lit .none), true, true, true⟩,
      ⟨"strides", .lit, (.lit (.num (1 : Rat))), false, true, true⟩,
      ⟨"padding", .lit, (.lit (.str "valid")), false, true, true⟩,
      ⟨"dilation_rate", .lit, (.lit (.num (1 : Rat))), false, true, true⟩,
      ⟨"activation", .act, (.act .none), false, true, true⟩,
      ⟨"use_bias", .lit, (.lit (.bool true)), false, true, true⟩,
      ⟨"kernel_initializer", (.init "kernel_quantizer" [] false), (.init (.keras (.str "he_normal"))), false, true, false⟩,
      ⟨"bias_initializer", (.init "bias_quantizer" ["use_bias"] false), (.init (.keras (.str "zeros"))), false, true, false⟩,
      ⟨"kernel_regularizer", .lit, (.lit .none), false, true, false⟩,
      ⟨"bias_regularizer", .lit, (.lit .none), false, true, false⟩,
      ⟨"activity_regularizer", .lit, (.lit .none), false, true, false⟩,
      ⟨"kernel_constraint", (.constr "kernel_quantizer" []), (.constr .none), false, true, false⟩,
      ⟨"bias_constraint", (.constr "bias_quantizer" ["use_bias"]), (.constr .none), false, true, false⟩,
      ⟨"kernel_quantizer", (.quant true), (.q .none), false, true, true⟩,
      ⟨"bias_quantizer", (.quant false), (.q .none), false, true, true⟩,
      ⟨"kernel_range", .lit, (.lit .none), false, true, false⟩,
      ⟨"bias_range", .lit, (.lit .none), false, true, false⟩],
    noneIsLinear := true,
    hook := 0 }

def ls_QConv2D : LSpec :=
  { name := "QConv2D",
    params := [
      ⟨"filters", .lit, (.lit .none), true, true, true⟩,
      ⟨"kernel_size", .lit, (.lit .none), true, true, true⟩,
      ⟨"strides", .lit, (.lit (.list [(.num (1 : Rat)), (.num (1 : Rat))])), false, true, true⟩,
      ⟨"padding", .lit, (.lit (.str "valid")), false, true, true⟩,
      ⟨"data_format", .lit, (.lit .none), false, true, true⟩,
      ⟨"dilation_rate", .lit, (.lit (.list [(.num (1 : Rat)), (.num (1 : Rat))])), false, true, true⟩,
      ⟨"activation", .act, (.act .none), false, true, true⟩,
      ⟨"use_bias", .lit, (.lit (.bool true)), false, true, true⟩,
      ⟨"kernel_initializer", (.init "kernel_quantizer" [] false), (.init (.keras (.str "he_normal"))), false, true, false⟩,
      ⟨"bias_initializer", (.init "bias_quantizer" ["use_bias"] false), (.init (.keras (.str "zeros"))), false, true, false⟩,
      ⟨"kernel_regularizer", .lit, (.lit .none), false, true, false⟩,
      ⟨"bias_regularizer", .lit, (.lit .none), false, true, false⟩,
      ⟨"activity_regularizer", .lit, (.lit .none), false, true, false⟩,
      ⟨"kernel_constraint", (.constr "kernel_quantizer" []), (.constr .none), false, true, false⟩,
      ⟨"bias_constraint", (.constr "bias_quantizer" ["use_bias"]), (.constr .none), false, true, false⟩,
      ⟨"kernel_range", .lit, (.lit .none), false, true, false⟩,
      ⟨"bias_range", .lit, (.lit .none), false, true, false⟩,
      ⟨"kernel_quantizer", (.quant true), (.q .none), false, true, true⟩,
      ⟨"bias_quantizer", (.quant false), (.q .none), false, true, true⟩,
      ⟨"mask", .mask, (.lit .none), false, true, true⟩],
    noneIsLinear := true,
    hook := 0 }

def ls_QConv2DTranspose : LSpec :=
  { name := "QConv2DTranspose",
    params := [
      ⟨"filters", .lit, (.lit .none), true, true, true⟩,
      ⟨"kernel_size", .lit, (.lit .none), true, true, true⟩,
      ⟨"strides", .lit, (.lit (.list [(.num (1 : Rat)), (.num (1 : Rat))])), false, true, true⟩,
      ⟨"padding", .lit, (.lit (.str "valid")), false, true, true⟩,
      ⟨"output_padding", .lit, (.lit .none), false, true, true⟩,
      ⟨"data_format", .lit, (.lit .none), false, true, true⟩,
      ⟨"dilation_rate", .lit, (.lit (.list [(.num (1 : Rat)), (.num (1 : Rat))])), false, true, true⟩,
      ⟨"activation", .act, (.act .none), false, true, true⟩,
      ⟨"use_bias", .lit, (.lit (.bool true)), false, true, true⟩,
      ⟨"kernel_initializer", (.init "kernel_quantizer" [] false), (.init (.keras (.str "glorot_uniform"))), false, true, false⟩,
      ⟨"bias_initializer", (.init "bias_quantizer" ["use_bias"] false), (.init (.keras (.str "zeros"))), false, true, false⟩,
      ⟨"kernel_regularizer", .lit, (.lit .none), false, true, false⟩,
      ⟨"bias_regularizer", .lit, (.lit .none), false, true, false⟩,
      ⟨"activity_regularizer", .lit, (.lit .none), false, true, false⟩,
      ⟨"kernel_constraint", (.constr "kernel_quantizer" []), (.constr .none), false, true, false⟩,
      ⟨"bias_constraint", (.constr "bias_quantizer" ["use_bias"]), (.constr .none), false, true, false⟩,
      ⟨"kernel_quantizer", (.quant true), (.q .none), false, true, true⟩,
      ⟨"bias_quantizer", (.quant false), (.q .none), false, true, true⟩],
    noneIsLinear := true,
    hook := 0 }

def ls_QSimpleRNNCell : LSpec :=
  { name := "QSimpleRNNCell",
    params := [
      ⟨"units", .lit, (.lit .none), true, true, true⟩,
      ⟨"activation", .act, (.act (.raw "quantized_tanh")), false, true, true⟩,
      ⟨"use_bias", .lit, (.lit (.bool true)), false, true, true⟩,
      ⟨"kernel_initializer", (.init "kernel_quantizer" [] false), (.init (.keras (.str "glorot_uniform"))), false, true, false⟩,
      ⟨"recurrent_initializer", (.init "recurrent_quantizer" [] false), (.init (.keras (.str "orthogonal"))), false, true, false⟩,
      ⟨"bias_initializer", (.init "bias_quantizer" ["use_bias"] false), (.init (.keras (.str "zeros"))), false, true, false⟩,
      ⟨"kernel_regularizer", .lit, (.lit .none), false, true, false⟩,
      ⟨"recurrent_regularizer", .lit, (.lit .none), false, true, false⟩,
      ⟨"bias_regularizer", .lit, (.lit .none), false, true, false⟩,
      ⟨"kernel_constraint", (.constr "kernel_quantizer" []), (.constr .none), false, true, false⟩,
      ⟨"recurrent_constraint", (.constr "recurrent_quantizer" []), (.constr .none), false, true, false⟩,
      ⟨"bias_constraint", (.constr "bias_quantizer" ["use_bias"]), (.constr .none), false, true, false⟩,
      ⟨"kernel_quantizer", (.quant true), (.q .none), false, true, true⟩,
      ⟨"recurrent_quantizer", (.quant true), (.q .none), false, true, true⟩,
      ⟨"bias_quantizer", (.quant false), (.q .none), false, true, true⟩,
      ⟨"state_quantizer", (.quant false), (.q .none), false, true, true⟩,
      ⟨"dropout", .lit, (.lit (.num (0 : Rat))), false, true, false⟩,
      ⟨"recurrent_dropout", .lit, (.lit (.num (0 : Rat))), false, true, false⟩],
    noneIsLinear := false,
    hook := 0 }

def ls_QSimpleRNN : LSpec :=
  { name := "QSimpleRNN",
    params := [
      ⟨"units", .lit, (.lit .none), true, true, true⟩,
      ⟨"activation", .act, (.act (.raw "quantized_tanh")), false, true, true⟩,
      ⟨"use_bias", .lit, (.lit (.bool true)), false, true, true⟩,
      ⟨"kernel_initializer", (.init "kernel_quantizer" [] false), (.init (.keras (.str "glorot_uniform"))), false, true, false⟩,
      ⟨"recurrent_initializer", (.init "recurrent_quantizer" [] false), (.init (.keras (.str "orthogonal"))), false, true, false⟩,
      ⟨"bias_initializer", (.init "bias_quantizer" ["use_bias"] false), (.init (.keras (.str "zeros"))), false, true, false⟩,
      ⟨"kernel_regularizer", .lit, (.lit .none), false, true, false⟩,
      ⟨"recurrent_regularizer", .lit, (.lit .none), false, true, false⟩,
      ⟨"bias_regularizer", .lit, (.lit .none), false, true, false⟩,
      ⟨"activity_regularizer", .lit, (.lit .none), false, true, false⟩,
      ⟨"kernel_constraint", (.constr "kernel_quantizer" []), (.constr .none), false, true, false⟩,
      ⟨"recurrent_constraint", (.constr "recurrent_quantizer" []), (.constr .none), false, true, false⟩,
      ⟨"bias_constraint", (.constr "bias_quantizer" ["use_bias"]), (.constr .none), false, true, false⟩,
      ⟨"kernel_quantizer", (.quant true), (.q .none), false, true, true⟩,
      ⟨"recurrent_quantizer", (.quant true), (.q .none), false, true, true⟩,
      ⟨"bias_quantizer", (.quant false), (.q .none), false, true, true⟩,
      ⟨"state_quantizer", (.quant false), (.q .none), false, true, true⟩,
      ⟨"dropout", .lit, (.lit (.num (0 : Rat))), false, true, false⟩,
      ⟨"recurrent_dropout", .lit, (.lit (.num (0 : Rat))), false, true, false⟩,
      ⟨"return_sequences", .lit, (.lit (.bool false)), false, true, true⟩,
      ⟨"return_state", .lit, (.lit (.bool false)), false, true, true⟩,
      ⟨"go_backwards", .lit, (.lit (.bool false)), false, true, true⟩,
      ⟨"stateful", .lit, (.lit (.bool false)), false, true, true⟩,
      ⟨"unroll", .lit, (.lit (.bool false)), false, true, true⟩],
    noneIsLinear := false,
    hook := 1 }

def ls_QLSTMCell : LSpec :=
  { name := "QLSTMCell",
    params := [
      ⟨"units", .lit, (.lit .none), true, true, true⟩,
      ⟨"activation", .act, (.act (.raw "quantized_tanh")), false, true, true⟩,
      ⟨"recurrent_activation", .act, (.act (.fn "hard_sigmoid")), false, true, true⟩,
      ⟨"use_bias", .lit, (.lit (.bool true)), false, true, true⟩,
      ⟨"kernel_initializer", (.init "kernel_quantizer" [] false), (.init (.keras (.str "glorot_uniform"))), false, true, false⟩,
      ⟨"recurrent_initializer", (.init "recurrent_quantizer" [] false), (.init (.keras (.str "orthogonal"))), false, true, false⟩,
      ⟨"bias_initializer", (.init "bias_quantizer" ["use_bias"] false), (.init (.keras (.str "zeros"))), false, true, false⟩,
      ⟨"unit_forget_bias", .lit, (.lit (.bool true)), false, true, false⟩,
      ⟨"kernel_regularizer", .lit, (.lit .none), false, true, false⟩,
      ⟨"recurrent_regularizer", .lit, (.lit .none), false, true, false⟩,
      ⟨"bias_regularizer", .lit, (.lit .none), false, true, false⟩,
      ⟨"kernel_constraint", (.constr "kernel_quantizer" []), (.constr .none), false, true, false⟩,
      ⟨"recurrent_constraint", (.constr "recurrent_quantizer" []), (.constr .none), false, true, false⟩,
      ⟨"bias_constraint", (.constr "bias_quantizer" ["use_bias"]), (.constr .none), false, true, false⟩,
      ⟨"kernel_quantizer", (.quant true), (.q .none), false, true, true⟩,
      ⟨"recurrent_quantizer", (.quant true), (.q .none), false, true, true⟩,
      ⟨"bias_quantizer", (.quant false), (.q .none), false, true, true⟩,
      ⟨"state_quantizer", (.quant false), (.q .none), false, true, true⟩,
      ⟨"dropout", .lit, (.lit (.num (0 : Rat))), false, true, false⟩,
      ⟨"recurrent_dropout", .lit, (.lit (.num (0 : Rat))), false, true, false⟩,
      ⟨"implementation", .lit, (.lit (.num (1 : Rat))), false, true, true⟩],
    noneIsLinear := false,
    hook := 0 }

def ls_QLSTM : LSpec :=
  { name := "QLSTM",
    params := [
      ⟨"units", .lit, (.lit .none), true, true, true⟩,
      ⟨"activation", .act, (.act (.raw "quantized_tanh")), false, true, true⟩,
      ⟨"recurrent_activation", .act, (.act (.fn "hard_sigmoid")), false, true, true⟩,
      ⟨"use_bias", .lit, (.lit (.bool true)), false, true, true⟩,
      ⟨"kernel_initializer", (.init "kernel_quantizer" [] false), (.init (.keras (.str "glorot_uniform"))), false, true, false⟩,
      ⟨"recurrent_initializer", (.init "recurrent_quantizer" [] false), (.init (.keras (.str "orthogonal"))), false, true, false⟩,
      ⟨"bias_initializer", (.init "bias_quantizer" ["use_bias"] false), (.init (.keras (.str "zeros"))), false, true, false⟩,
      ⟨"unit_forget_bias", .lit, (.lit (.bool true)), false, true, false⟩,
      ⟨"kernel_regularizer", .lit, (.lit .none), false, true, false⟩,
      ⟨"recurrent_regularizer", .lit, (.lit .none), false, true, false⟩,
      ⟨"bias_regularizer", .lit, (.lit .none), false, true, false⟩,
      ⟨"activity_regularizer", .lit, (.lit .none), false, true, false⟩,
      ⟨"kernel_constraint", (.constr "kernel_quantizer" []), (.constr .none), false, true, false⟩,
      ⟨"recurrent_constraint", (.constr "recurrent_quantizer" []), (.constr .none), false, true, false⟩,
      ⟨"bias_constraint", (.constr "bias_quantizer" ["use_bias"]), (.constr .none), false, true, false⟩,
      ⟨"kernel_quantizer", (.quant true), (.q .none), false, true, true⟩,
      ⟨"recurrent_quantizer", (.quant true), (.q .none), false, true, true⟩,
      ⟨"bias_quantizer", (.quant false), (.q .none), false, true, true⟩,
      ⟨"state_quantizer", (.quant false), (.q .none), false, true, true⟩,
      ⟨"dropout", .lit, (.lit (.num (0 : Rat))), false, true, false⟩,
      ⟨"recurrent_dropout", .lit, (.lit (.num (0 : Rat))), false, true, false⟩,
      ⟨"implementation", .lit, (.lit (.num (1 : Rat))), false, true, true⟩,
      ⟨"return_sequences", .lit, (.lit (.bool false)), false, true, true⟩,
      ⟨"return_state", .lit, (.lit (.bool false)), false, true, true⟩,
      ⟨"go_backwards", .lit, (.lit (.bool false)), false, true, true⟩,
      ⟨"stateful", .lit, (.lit (.bool false)), false, true, true⟩,
      ⟨"unroll", .lit, (.lit (.bool false)), false, true, true⟩],
    noneIsLinear := false,
    hook := 2 }

def ls_QGRUCell : LSpec :=
  { name := "QGRUCell",
    params := [
      ⟨"units", .lit, (.lit .none), true, true, true⟩,
      ⟨"activation", .act, (.act (.raw "quantized_tanh")), false, true, true⟩,
      ⟨"recurrent_activation", .act, (.act (.fn "hard_sigmoid")), false, true, true⟩,
      ⟨"use_bias", .lit, (.lit (.bool true)), false, true, true⟩,
      ⟨"kernel_initializer", (.init "kernel_quantizer" [] false), (.init (.keras (.str "glorot_uniform"))), false, true, false⟩,
      ⟨"recurrent_initializer", (.init "recurrent_quantizer" [] false), (.init (.keras (.str "orthogonal"))), false, true, false⟩,
      ⟨"bias_initializer", (.init "bias_quantizer" ["use_bias"] false), (.init (.keras (.str "zeros"))), false, true, false⟩,
      ⟨"kernel_regularizer", .lit, (.lit .none), false, true, false⟩,
      ⟨"recurrent_regularizer", .lit, (.lit .none), false, true, false⟩,
      ⟨"bias_regularizer", .lit, (.lit .none), false, true, false⟩,
      ⟨"kernel_constraint", (.constr "kernel_quantizer" []), (.constr .none), false, true, false⟩,
      ⟨"recurrent_constraint", (.constr "recurrent_quantizer" []), (.constr .none), false, true, false⟩,
      ⟨"bias_constraint", (.constr "bias_quantizer" ["use_bias"]), (.constr .none), false, true, false⟩,
      ⟨"kernel_quantizer", (.quant true), (.q .none), false, true, true⟩,
      ⟨"recurrent_quantizer", (.quant true), (.q .none), false, true, true⟩,
      ⟨"bias_quantizer", (.quant false), (.q .none), false, true, true⟩,
      ⟨"state_quantizer", (.quant false), (.q .none), false, true, true⟩,
      ⟨"dropout", .lit, (.lit (.num (0 : Rat))), false, true, false⟩,
      ⟨"recurrent_dropout", .lit, (.lit (.num (0 : Rat))), false, true, false⟩,
      ⟨"implementation", .lit, (.lit (.num (1 : Rat))), false, true, true⟩,
      ⟨"reset_after", .lit, (.lit (.bool false)), false, true, true⟩],
    noneIsLinear := false,
    hook := 0 }

def ls_QGRU : LSpec :=
  { name := "QGRU",
    params := [
      ⟨"units", .lit, (.lit .none), true, true, true⟩,
      ⟨"activation", .act, (.act (.raw "quantized_tanh")), false, true, true⟩,
      ⟨"recurrent_activation", .act, (.act (.fn "hard_sigmoid")), false, true, true⟩,
      ⟨"use_bias", .lit, (.lit (.bool true)), false, true, true⟩,
      ⟨"kernel_initializer", (.init "kernel_quantizer" [] false), (.init (.keras (.str "glorot_uniform"))), false, true, false⟩,
      ⟨"recurrent_initializer", (.init "recurrent_quantizer" [] false), (.init (.keras (.str "orthogonal"))), false, true, false⟩,
      ⟨"bias_initializer", (.init "bias_quantizer" ["use_bias"] false), (.init (.keras (.str "zeros"))), false, true, false⟩,
      ⟨"kernel_regularizer", .lit, (.lit .none), false, true, false⟩,
      ⟨"recurrent_regularizer", .lit, (.lit .none), false, true, false⟩,
      ⟨"bias_regularizer", .lit, (.lit .none), false, true, false⟩,
      ⟨"activity_regularizer", .lit, (.lit .none), false, true, false⟩,
      ⟨"kernel_constraint", (.constr "kernel_quantizer" []), (.constr .none), false, true, false⟩,
      ⟨"recurrent_constraint", (.constr "recurrent_quantizer" []), (.constr .none), false, true, false⟩,
      ⟨"bias_constraint", (.constr "bias_quantizer" ["use_bias"]), (.constr .none), false, true, false⟩,
      ⟨"kernel_quantizer", (.quant true), (.q .none), false, true, true⟩,
      ⟨"recurrent_quantizer", (.quant true), (.q .none), false, true, true⟩,
      ⟨"bias_quantizer", (.quant false), (.q .none), false, true, true⟩,
      ⟨"state_quantizer", (.quant false), (.q .none), false, true, true⟩,
      ⟨"dropout", .lit, (.lit (.num (0 : Rat))), false, true, false⟩,
      ⟨"recurrent_dropout", .lit, (.lit (.num (0 : Rat))), false, true, false⟩,
      ⟨"implementation", .lit, (.lit (.num (1 : Rat))), false, true, true⟩,
      ⟨"return_sequences", .lit, (.lit (.bool false)), false, true, true⟩,
      ⟨"return_state", .lit, (.lit (.bool false)), false, true, true⟩,
      ⟨"go_backwards", .lit, (.lit (.bool false)), false, true, true⟩,
      ⟨"stateful", .lit, (.lit (.bool false)), false, true, true⟩,
      ⟨"unroll", .lit, (.lit (.bool false)), false, true, true⟩,
      ⟨"reset_after", .lit, (.lit (.bool false)), false, true, true⟩],
    noneIsLinear := false,
    hook := 2 }

def ls_QDepthwiseConv2D : LSpec :=
  { name := "QDepthwiseConv2D",
    params := [
      ⟨"kernel_size", .lit, (.lit .none), true, true, true⟩,
      ⟨"strides", .lit, (.lit (.list [(.num (1 : Rat)), (.num (1 : Rat))])), false, true, true⟩,
      ⟨"padding", .lit, (.lit (.str "VALID")), false, true, true⟩,
      ⟨"depth_multiplier", .lit, (.lit (.num (1 : Rat))), false, true, true⟩,
      ⟨"data_format", .lit, (.lit .none), false, true, true⟩,
      ⟨"activation", .act, (.act .none), false, true, true⟩,
      ⟨"use_bias", .lit, (.lit (.bool true)), false, true, true⟩,
      ⟨"depthwise_initializer", (.init "depthwise_quantizer" [] false), (.init (.keras (.str "he_normal"))), false, true, false⟩,
      ⟨"bias_initializer", (.init "bias_quantizer" ["use_bias"] false), (.init (.keras (.str "zeros"))), false, true, false⟩,
      ⟨"depthwise_regularizer", .lit, (.lit .none), false, true, false⟩,
      ⟨"bias_regularizer", .lit, (.lit .none), false, true, false⟩,
      ⟨"activity_regularizer", .lit, (.lit .none), false, true, false⟩,
      ⟨"depthwise_constraint", (.constr "depthwise_quantizer" []), (.constr .none), false, true, false⟩,
      ⟨"bias_constraint", (.constr "bias_quantizer" ["use_bias"]), (.constr .none), false, true, false⟩,
      ⟨"dilation_rate", .lit, (.lit (.list [(.num (1 : Rat)), (.num (1 : Rat))])), false, true, true⟩,
      ⟨"depthwise_quantizer", (.quant true), (.q .none), false, true, true⟩,
      ⟨"bias_quantizer", (.quant false), (.q .none), false, true, true⟩,
      ⟨"depthwise_range", .lit, (.lit .none), false, true, false⟩,
      ⟨"bias_range", .lit, (.lit .none), false, true, false⟩],
    noneIsLinear := true,
    hook := 0 }

def ls_QSeparableConv1D : LSpec :=
  { name := "QSeparableConv1D",
    params := [
      ⟨"filters", .lit, (.lit .none), true, true, true⟩,
      ⟨"kernel_size", .lit, (.lit .none), true, true, true⟩,
      ⟨"strides", .lit, (.lit (.num (1 : Rat))), false, true, true⟩,
      ⟨"padding", .lit, (.lit (.str "valid")), false, true, true⟩,
      ⟨"data_format", .lit, (.lit .none), false, true, true⟩,
      ⟨"dilation_rate", .lit, (.lit (.num (1 : Rat))), false, true, true⟩,
      ⟨"depth_multiplier", .lit, (.lit (.num (1 : Rat))), false, true, true⟩,
      ⟨"activation", .act, (.act .none), false, true, true⟩,
      ⟨"use_bias", .lit, (.lit (.bool true)), false, true, true⟩,
      ⟨"depthwise_initializer", (.init "depthwise_quantizer" [] false), (.init (.keras (.str "glorot_uniform"))), false, true, false⟩,
      ⟨"pointwise_initializer", (.init "pointwise_quantizer" [] false), (.init (.keras (.str "glorot_uniform"))), false, true, false⟩,
      ⟨"bias_initializer", (.init "bias_quantizer" ["use_bias"] false), (.init (.keras (.str "zeros"))), false, true, false⟩,
      ⟨"depthwise_regularizer", .lit, (.lit .none), false, true, false⟩,
      ⟨"pointwise_regularizer", .lit, (.lit .none), false, true, false⟩,
      ⟨"bias_regularizer", .lit, (.lit .none), false, true, false⟩,
      ⟨"activity_regularizer", .lit, (.lit .none), false, true, false⟩,
      ⟨"depthwise_constraint", (.constr "depthwise_quantizer" []), (.constr .none), false, true, false⟩,
      ⟨"pointwise_constraint", (.constr "pointwise_quantizer" []), (.constr .none), false, true, false⟩,
      ⟨"bias_constraint", (.constr "bias_quantizer" ["use_bias"]), (.constr .none), false, true, false⟩,
      ⟨"depthwise_quantizer", (.quant true), (.q .none), false, true, true⟩,
      ⟨"pointwise_quantizer", (.quant true), (.q .none), false, true, true⟩,
      ⟨"bias_quantizer", (.quant false), (.q .none), false, true, true⟩],
    noneIsLinear := true,
    hook := 0 }

def ls_QSeparableConv2D : LSpec :=
  { name := "QSeparableConv2D",
    params := [
      ⟨"filters", .lit, (.lit .none), true, true, true⟩,
      ⟨"kernel_size", .lit, (.lit .none), true, true, true⟩,
      ⟨"strides", .lit, (.lit (.list [(.num (1 : Rat)), (.num (1 : Rat))])), false, true, true⟩,
      ⟨"padding", .lit, (.lit (.str "valid")), false, true, true⟩,
      ⟨"data_format", .lit, (.lit .none), false, true, true⟩,
      ⟨"dilation_rate", .lit, (.lit (.list [(.num (1 : Rat)), (.num (1 : Rat))])), false, true, true⟩,
      ⟨"depth_multiplier", .lit, (.lit (.num (1 : Rat))), false, true, true⟩,
      ⟨"activation", .act, (.act .none), false, true, true⟩,
      ⟨"use_bias", .lit, (.lit (.bool true)), false, true, true⟩,
      ⟨"depthwise_initializer", (.init "depthwise_quantizer" [] false), (.init (.keras (.str "glorot_uniform"))), false, true, false⟩,
      ⟨"pointwise_initializer", (.init "pointwise_quantizer" [] false), (.init (.keras (.str "glorot_uniform"))), false, true, false⟩,
      ⟨"bias_initializer", (.init "bias_quantizer" ["use_bias"] false), (.init (.keras (.str "zeros"))), false, true, false⟩,
      ⟨"depthwise_regularizer", .lit, (.lit .none), false, true, false⟩,
      ⟨"pointwise_regularizer", .lit, (.lit .none), false, true, false⟩,
      ⟨"bias_regularizer", .lit, (.lit .none), false, true, false⟩,
      ⟨"activity_regularizer", .lit, (.lit .none), false, true, false⟩,
      ⟨"depthwise_constraint", (.constr "depthwise_quantizer" []), (.constr .none), false, true, false⟩,
      ⟨"pointwise_constraint", (.constr "pointwise_quantizer" []), (.constr .none), false, true, false⟩,
      ⟨"bias_constraint", (.constr "bias_quantizer" ["use_bias"]), (.constr .none), false, true, false⟩,
      ⟨"depthwise_quantizer", (.quant true), (.q .none), false, true, true⟩,
      ⟨"pointwise_quantizer", (.quant true), (.q .none), false, true, true⟩,
      ⟨"bias_quantizer", (.quant false), (.q .none), false, true, true⟩],
    noneIsLinear := true,
    hook := 0 }

def ls_QActivation : LSpec :=
  { name := "QActivation",
    params := [
      ⟨"activation", .rawAct, (.act .none), true, true, true⟩],
    noneIsLinear := false,
    hook := 0 }

def ls_QAdaptiveActivation : LSpec :=
  { name := "QAdaptiveActivation",
    params := [
      ⟨"activation", .lit, (.lit .none), true, true, true⟩,
      ⟨"total_bits", .lit, (.lit .none), true, true, true⟩,
      ⟨"current_step", .lit, (.lit .none), false, true, false⟩,
      ⟨"symmetric", .lit, (.lit (.bool true)), false, true, true⟩,
      ⟨"quantization_delay", .lit, (.lit (.num (0 : Rat))), false, true, false⟩,
      ⟨"ema_freeze_delay", .lit, (.lit .none), false, true, false⟩,
      ⟨"ema_decay", .lit, (.lit (.num ((4503149267407759 : Rat) / 4503599627370496))), false, true, false⟩,
      ⟨"per_channel", .lit, (.lit (.bool false)), false, true, true⟩,
      ⟨"po2_rounding", .lit, (.lit (.bool false)), false, true, true⟩,
      ⟨"relu_neg_slope", .lit, (.lit (.num (0 : Rat))), false, true, true⟩,
      ⟨"relu_upper_bound", .lit, (.lit .none), false, true, true⟩],
    noneIsLinear := false,
    hook := 0 }

def ls_QBatchNormalization : LSpec :=
  { name := "QBatchNormalization",
    params := [
      ⟨"axis", .lit, (.lit (.num (-1 : Rat))), false, true, true⟩,
      ⟨"momentum", .lit, (.lit (.num ((4458563631096791 : Rat) / 4503599627370496))), false, true, false⟩,
      ⟨"epsilon", .lit, (.lit (.num ((1152921504606847 : Rat) / 1152921504606846976))), false, true, true⟩,
      ⟨"center", .lit, (.lit (.bool true)), false, true, true⟩,
      ⟨"scale", .lit, (.lit (.bool true)), false, true, true⟩,
      ⟨"activation", .lit, (.lit .none), false, false, false⟩,
      ⟨"beta_initializer", (.init "beta_quantizer" ["center"] false), (.init (.keras (.str "zeros"))), false, true, false⟩,
      ⟨"gamma_initializer", (.init "gamma_quantizer" ["scale"] false), (.init (.keras (.str "ones"))), false, true, false⟩,
      ⟨"moving_mean_initializer", .lit, (.lit (.str "zeros")), false, true, false⟩,
      ⟨"moving_variance_initializer", .lit, (.lit (.str "ones")), false, true, false⟩,
      ⟨"beta_regularizer", .lit, (.lit .none), false, true, false⟩,
      ⟨"gamma_regularizer", .lit, (.lit .none), false, true, false⟩,
      ⟨"beta_quantizer", (.quant false), (.q (.str "quantized_po2(5)")), false, true, true⟩,
      ⟨"gamma_quantizer", (.quant true), (.q (.str "quantized_relu_po2(6, 2048)")), false, true, true⟩,
      ⟨"mean_quantizer", (.quant false), (.q (.str "quantized_po2(5)")), false, true, true⟩,
      ⟨"variance_quantizer", (.quant true), (.q (.str "quantized_relu_po2(6, quadratic_approximation=True)")), false, true, true⟩,
      ⟨"inverse_quantizer", (.quant false), (.q .none), false, true, true⟩,
      ⟨"gamma_constraint", (.constr "gamma_quantizer" ["scale"]), (.constr .none), false, true, false⟩,
      ⟨"beta_constraint", (.constr "beta_quantizer" ["center"]), (.constr .none), false, true, false⟩,
      ⟨"beta_range", .lit, (.lit .none), false, true, false⟩,
      ⟨"gamma_range", .lit, (.lit .none), false, true, false⟩],
    noneIsLinear := false,
    hook := 0 }

def ls_QConv2DBatchnorm : LSpec :=
  { name := "QConv2DBatchnorm",
    params := [
      ⟨"filters", .lit, (.lit .none), true, true, true⟩,
      ⟨"kernel_size", .lit, (.lit .none), true, true, true⟩,
      ⟨"strides", .lit, (.lit (.list [(.num (1 : Rat)), (.num (1 : Rat))])), false, true, true⟩,
      ⟨"padding", .lit, (.lit (.str "valid")), false, true, true⟩,
      ⟨"data_format", .lit, (.lit .none), false, true, true⟩,
      ⟨"dilation_rate", .lit, (.lit (.list [(.num (1 : Rat)), (.num (1 : Rat))])), false, true, true⟩,
      ⟨"activation", .act, (.act .none), false, true, true⟩,
      ⟨"use_bias", .lit, (.lit (.bool true)), false, true, true⟩,
      ⟨"kernel_initializer", (.init "kernel_quantizer" [] false), (.init (.keras (.str "he_normal"))), false, true, false⟩,
      ⟨"bias_initializer", (.init "bias_quantizer" ["use_bias"] false), (.init (.keras (.str "zeros"))), false, true, false⟩,
      ⟨"kernel_regularizer", .lit, (.lit .none), false, true, false⟩,
      ⟨"bias_regularizer", .lit, (.lit .none), false, true, false⟩,
      ⟨"activity_regularizer", .lit, (.lit .none), false, true, false⟩,
      ⟨"kernel_constraint", (.constr "kernel_quantizer" []), (.constr .none), false, true, false⟩,
      ⟨"bias_constraint", (.constr "bias_quantizer" ["use_bias"]), (.constr .none), false, true, false⟩,
      ⟨"kernel_quantizer", (.quant true), (.q .none), false, true, true⟩,
      ⟨"bias_quantizer", (.quant false), (.q .none), false, true, true⟩,
      ⟨"axis", .lit, (.lit (.num (-1 : Rat))), false, true, true⟩,
      ⟨"momentum", .lit, (.lit (.num ((4458563631096791 : Rat) / 4503599627370496))), false, true, false⟩,
      ⟨"epsilon", .lit, (.lit (.num ((1152921504606847 : Rat) / 1152921504606846976))), false, true, true⟩,
      ⟨"center", .lit, (.lit (.bool true)), false, true, true⟩,
      ⟨"scale", .lit, (.lit (.bool true)), false, true, true⟩,
      ⟨"beta_initializer", .lit, (.lit (.str "zeros")), false, true, false⟩,
      ⟨"gamma_initializer", .lit, (.lit (.str "ones")), false, true, false⟩,
      ⟨"moving_mean_initializer", .lit, (.lit (.str "zeros")), false, true, false⟩,
      ⟨"moving_variance_initializer", .lit, (.lit (.str "ones")), false, true, false⟩,
      ⟨"beta_regularizer", .lit, (.lit .none), false, true, false⟩,
      ⟨"gamma_regularizer", .lit, (.lit .none), false, true, false⟩,
      ⟨"beta_constraint", .lit, (.lit .none), false, true, false⟩,
      ⟨"gamma_constraint", .lit, (.lit .none), false, true, false⟩,
      ⟨"renorm", .lit, (.lit (.bool false)), false, false, false⟩,
      ⟨"renorm_clipping", .lit, (.lit .none), false, false, false⟩,
      ⟨"renorm_momentum", .lit, (.lit (.num ((4458563631096791 : Rat) / 4503599627370496))), false, false, false⟩,
      ⟨"fused", .lit, (.lit .none), false, false, false⟩,
      ⟨"trainable", .lit, (.lit (.bool true)), false, true, false⟩,
      ⟨"virtual_batch_size", .lit, (.lit .none), false, false, false⟩,
      ⟨"adjustment", .lit, (.lit .none), false, false, false⟩,
      ⟨"ema_freeze_delay", .lit, (.lit .none), false, true, false⟩,
      ⟨"folding_mode", .lit, (.lit (.str "ema_stats_folding")), false, true, false⟩,
      ⟨"kernel_range", .lit, (.lit .none), false, true, false⟩,
      ⟨"bias_range", .lit, (.lit .none), false, true, false⟩,
      ⟨"mask", .mask, (.lit .none), false, true, false⟩],
    noneIsLinear := true,
    hook := 0 }

def ls_QDepthwiseConv2DBatchnorm : LSpec :=
  { name := "QDepthwiseConv2DBatchnorm",
    params := [
      ⟨"kernel_size", .lit, (.lit .none), true, true, true⟩,
      ⟨"strides", .lit, (.lit (.list [(.num (1 : Rat)), (.num (1 : Rat))])), false, true, true⟩,
      ⟨"padding", .lit, (.lit (.str "VALID")), false, true, true⟩,
      ⟨"depth_multiplier", .lit, (.lit (.num (1 : Rat))), false, true, true⟩,
      ⟨"data_format", .lit, (.lit .none), false, true, true⟩,
      ⟨"activation", .act, (.act .none), false, true, true⟩,
      ⟨"use_bias", .lit, (.lit (.bool true)), false, true, true⟩,
      ⟨"depthwise_initializer", (.init "depthwise_quantizer" [] false), (.init (.keras (.str "he_normal"))), false, true, false⟩,
      ⟨"bias_initializer", (.init "bias_quantizer" ["use_bias"] false), (.init (.keras (.str "zeros"))), false, true, false⟩,
      ⟨"depthwise_regularizer", .lit, (.lit .none), false, true, false⟩,
      ⟨"bias_regularizer", .lit, (.lit .none), false, true, false⟩,
      ⟨"activity_regularizer", .lit, (.lit .none), false, true, false⟩,
      ⟨"depthwise_constraint", (.constr "depthwise_quantizer" []), (.constr .none), false, true, false⟩,
      ⟨"bias_constraint", (.constr "bias_quantizer" ["use_bias"]), (.constr .none), false, true, false⟩,
      ⟨"dilation_rate", .lit, (.lit (.list [(.num (1 : Rat)), (.num (1 : Rat))])), false, true, true⟩,
      ⟨"depthwise_quantizer", (.quant true), (.q .none), false, true, true⟩,
      ⟨"bias_quantizer", (.quant false), (.q .none), false, true, true⟩,
      ⟨"depthwise_range", .lit, (.lit .none), false, true, false⟩,
      ⟨"bias_range", .lit, (.lit .none), false, true, false⟩,
      ⟨"axis", .lit, (.lit (.num (-1 : Rat))), false, true, true⟩,
      ⟨"momentum", .lit, (.lit (.num ((4458563631096791 : Rat) / 4503599627370496))), false, true, false⟩,
      ⟨"epsilon", .lit, (.lit (.num ((1152921504606847 : Rat) / 1152921504606846976))), false, true, true⟩,
      ⟨"center", .lit, (.lit (.bool true)), false, true, true⟩,
      ⟨"scale", .lit, (.lit (.bool true)), false, true, true⟩,
      ⟨"beta_initializer", .lit, (.lit (.str "zeros")), false, true, false⟩,
      ⟨"gamma_initializer", .lit, (.lit (.str "ones")), false, true, false⟩,
      ⟨"moving_mean_initializer", .lit, (.lit (.str "zeros")), false, true, false⟩,
      ⟨"moving_variance_initializer", .lit, (.lit (.str "ones")), false, true, false⟩,
      ⟨"beta_regularizer", .lit, (.lit .none), false, true, false⟩,
      ⟨"gamma_regularizer", .lit, (.lit .none), false, true, false⟩,
      ⟨"beta_constraint", .lit, (.lit .none), false, true, false⟩,
      ⟨"gamma_constraint", .lit, (.lit .none), false, true, false⟩,
      ⟨"renorm", .lit, (.lit (.bool false)), false, false, false⟩,
      ⟨"renorm_clipping", .lit, (.lit .none), false, false, false⟩,
      ⟨"renorm_momentum", .lit, (.lit (.num ((4458563631096791 : Rat) / 4503599627370496))), false, false, false⟩,
      ⟨"fused", .lit, (.lit .none), false, false, false⟩,
      ⟨"trainable", .lit, (.lit (.bool true)), false, true, false⟩,
      ⟨"virtual_batch_size", .lit, (.lit .none), false, false, false⟩,
      ⟨"adjustment", .lit, (.lit .none), false, false, false⟩,
      ⟨"ema_freeze_delay", .lit, (.lit .none), false, true, false⟩,
      ⟨"folding_mode", .lit, (.lit (.str "ema_stats_folding")), false, true, false⟩],
    noneIsLinear := true,
    hook := 0 }

def ls_QAveragePooling2D : LSpec :=
  { name := "QAveragePooling2D",
    params := [
      ⟨"pool_size", .lit, (.lit (.list [(.num (2 : Rat)), (.num (2 : Rat))])), false, true, true⟩,
      ⟨"strides", .lit, (.lit .none), false, true, true⟩,
      ⟨"padding", .lit, (.lit (.str "valid")), false, true, true⟩,
      ⟨"data_format", .lit, (.lit .none), false, true, true⟩,
      ⟨"average_quantizer", (.quant false), (.q .none), false, true, true⟩,
      ⟨"activation", .act, (.act .none), false, true, true⟩],
    noneIsLinear := false,
    hook := 0 }

def ls_QGlobalAveragePooling2D : LSpec :=
  { name := "QGlobalAveragePooling2D",
    params := [
      ⟨"data_format", .lit, (.lit .none), false, true, true⟩,
      ⟨"average_quantizer", (.quant false), (.q .none), false, true, true⟩,
      ⟨"activation", .act, (.act .none), false, true, true⟩],
    noneIsLinear := false,
    hook := 0 }

def ls_QScaleShift : LSpec :=
  { name := "QScaleShift",
    params := [
      ⟨"weight_quantizer", (.quant true), (.q .none), false, true, true⟩,
      ⟨"bias_quantizer", (.quant true), (.q .none), false, true, true⟩,
      ⟨"use_bias", .lit, (.lit (.bool true)), false, true, true⟩,
      ⟨"activation", .act, (.act .none), false, true, true⟩,
      ⟨"weight_initializer", (.init "weight_quantizer" [] true), (.init (.keras (.str "he_normal"))), false, true, false⟩,
      ⟨"weight_regularizer", .lit, (.lit .none), false, true, false⟩,
      ⟨"bias_initializer", (.init "bias_quantizer" [] true), (.init (.keras (.str "zeros"))), false, true, false⟩,
      ⟨"bias_regularizer", .lit, (.lit .none), false, true, false⟩],
    noneIsLinear := false,
    hook := 0 }

def lSpecs : List LSpec :=
  [ls_QDense, ls_QConv1D, ls_QConv2D, ls_QConv2DTranspose, ls_QSimpleRNNCell, ls_QSimpleRNN, ls_QLSTMCell, ls_QLSTM, ls_QGRUCell, ls_QGRU, ls_QDepthwiseConv2D, ls_QSeparableConv1D, ls_QSeparableConv2D, ls_QActivation, ls_QAdaptiveActivation, ls_QBatchNormalization, ls_QConv2DBatchnorm, ls_QDepthwiseConv2DBatchnorm, ls_QAveragePooling2D, ls_QGlobalAveragePooling2D, ls_QScaleShift]

/-- per layer class: the quantizer slots in the order `get_quantizers()` lists them (`self.quantizers`;
    [] = the class has no `get_quantizers`), observed live by object identity -/
def reportedSlots : List (String × List String) :=
  [("QDense", ["kernel_quantizer", "bias_quantizer"]),
   ("QConv1D", ["kernel_quantizer", "bias_quantizer"]),
   ("QConv2D", ["kernel_quantizer", "bias_quantizer"]),
   ("QConv2DTranspose", ["kernel_quantizer", "bias_quantizer"]),
   ("QSimpleRNNCell", []),
   ("QSimpleRNN", ["kernel_quantizer", "recurrent_quantizer", "bias_quantizer", "state_quantizer"]),
   ("QLSTMCell", []),
   ("QLSTM", ["kernel_quantizer", "recurrent_quantizer", "bias_quantizer", "state_quantizer"]),
   ("QGRUCell", []),
   ("QGRU", ["kernel_quantizer", "recurrent_quantizer", "bias_quantizer", "state_quantizer"]),
   ("QDepthwiseConv2D", ["depthwise_quantizer", "bias_quantizer"]),
   ("QSeparableConv1D", ["depthwise_quantizer", "pointwise_quantizer", "bias_quantizer"]),
   ("QSeparableConv2D", ["depthwise_quantizer", "pointwise_quantizer", "bias_quantizer"]),
   ("QActivation", []),
   ("QAdaptiveActivation", []),
   ("QBatchNormalization", ["gamma_quantizer", "beta_quantizer", "mean_quantizer", "variance_quantizer", "inverse_quantizer"]),
   ("QConv2DBatchnorm", ["kernel_quantizer", "bias_quantizer"]),
   ("QDepthwiseConv2DBatchnorm", ["depthwise_quantizer", "bias_quantizer"]),
   ("QAveragePooling2D", ["average_quantizer"]),
   ("QGlobalAveragePooling2D", ["average_quantizer"]),
   ("QScaleShift", ["weight_quantizer", "bias_quantizer"])]

/-- per layer class: the constructor arguments of its KERAS base classes that the class does not name
    and that reach the base class through `**kwargs` (name, default, written by get_config, read at
    inference), observed live along the MRO -/
def baseKwargs : List (String × List BaseKw) :=
  [("QDense", []),
   ("QConv1D", [⟨"data_format", (.str "channels_last"), true, true⟩, ⟨"groups", (.num (1 : Rat)), true, true⟩]),
   ("QConv2D", [⟨"groups", (.num (1 : Rat)), true, true⟩]),
   ("QConv2DTranspose", [⟨"groups", (.num (1 : Rat)), true, true⟩]),
   ("QSimpleRNNCell", [⟨"seed", .none, false, false⟩]),
   ("QSimpleRNN", [⟨"time_major", (.bool false), true, true⟩]),
   ("QLSTMCell", [⟨"seed", .none, false, false⟩]),
   ("QLSTM", [⟨"time_major", (.bool false), true, true⟩]),
   ("QGRUCell", [⟨"seed", .none, false, false⟩]),
   ("QGRU", [⟨"time_major", (.bool false), true, true⟩]),
   ("QDepthwiseConv2D", [⟨"groups", (.num (1 : Rat)), true, true⟩, ⟨"kernel_initializer", (.str "glorot_uniform"), false, false⟩, ⟨"kernel_regularizer", .none, false, false⟩, ⟨"kernel_constraint", .none, false, false⟩]),
   ("QSeparableConv1D", [⟨"groups", (.num (1 : Rat)), true, true⟩, ⟨"kernel_initializer", (.str "glorot_uniform"), true, false⟩, ⟨"kernel_regularizer", .none, true, false⟩, ⟨"kernel_constraint", .none, true, false⟩]),
   ("QSeparableConv2D", [⟨"groups", (.num (1 : Rat)), true, true⟩, ⟨"kernel_initializer", (.str "glorot_uniform"), true, false⟩, ⟨"kernel_regularizer", .none, true, false⟩, ⟨"kernel_constraint", .none, true, false⟩]),
   ("QActivation", []),
   ("QAdaptiveActivation", []),
   ("QBatchNormalization", [⟨"synchronized", (.bool false), false, false⟩, ⟨"renorm_clipping", .none, false, false⟩, ⟨"renorm_momentum", (.num ((4458563631096791 : Rat) / 4503599627370496)), false, false⟩]),
   ("QConv2DBatchnorm", [⟨"groups", (.num (1 : Rat)), true, true⟩]),
   ("QDepthwiseConv2DBatchnorm", [⟨"groups", (.num (1 : Rat)), true, true⟩, ⟨"kernel_initializer", (.str "glorot_uniform"), false, false⟩, ⟨"kernel_regularizer", .none, false, false⟩, ⟨"kernel_constraint", .none, false, false⟩]),
   ("QAveragePooling2D", []),
   ("QGlobalAveragePooling2D", [⟨"keepdims", (.bool false), true, true⟩]),
   ("QScaleShift", [])]

/-- keys of `_add_supported_quantized_objects`, in insertion order -/
def customObjects : List String :=
  ["QInitializer", "QDense", "QConv1D", "QConv2D", "QConv2DTranspose", "QSimpleRNNCell", "QSimpleRNN", "QLSTMCell", "QLSTM", "QGRUCell", "QGRU", "QBidirectional", "QDepthwiseConv2D", "QSeparableConv1D", "QSeparableConv2D", "QActivation", "QAdaptiveActivation", "QBatchNormalization", "Clip", "quantized_bits", "bernoulli", "stochastic_ternary", "ternary", "stochastic_binary", "binary", "quantized_relu", "quantized_ulaw", "quantized_tanh", "quantized_sigmoid", "quantized_po2", "quantized_relu_po2", "quantized_linear", "quantized_hswish", "QConv2DBatchnorm", "QDepthwiseConv2DBatchnorm", "QAveragePooling2D", "QGlobalAveragePooling2D", "QScaleShift"]

/-- the built-in activation names of Keras (public functions of `tf.keras.activations`) -/
def kerasActivationNames : List String :=
  ["elu", "exponential", "gelu", "hard_sigmoid", "linear", "mish", "relu", "selu", "sigmoid", "softmax", "softplus", "softsign", "swish", "tanh"]

/-- the environment of the real library; `clipBound` stays a parameter -/
def env (clipBound : QVal → PyVal) : Env :=
  { qspecs := qSpecs, lspecs := lSpecs, customObjects := customObjects, clipBound := clipBound,
    kerasNames := kerasActivationNames }

end QKV.LC

