/-
  QKV.Model.ConfigCallTime — quantities a quantizer DERIVES AT CALL TIME from attributes that can
  change after construction, and re-configuration of a live quantizer through the attributes its
  class declares modifiable (strengthening round 3 of C09, seed C09-9).  Core Lean only.

  `quantized_linear.__init__` splits its arguments into "non-modifyable attributes" (`_bits`,
  `_integer`, `_keep_negative`, `_use_stochastic_rounding`, `_scale_axis`: read-only properties)
  and "modifyable attributes" (`alpha`, `qnoise_factor`, `symmetric`, `use_variables`: plain
  attributes).  `_set_trainable_parameter()` — called by every QKeras layer on the kernel /
  depthwise / pointwise / recurrent / gamma quantizer it is handed — rewrites `alpha` and
  `symmetric`.  Nothing that depends on them is stored by `__init__`: the clip range of the
  integer representation (`get_clip_bounds`), `data_type_scale`, `use_sign_function`,
  `auto_alpha` are computed from the CURRENT attributes by every call.  That is what the model
  says here: they are functions of the instance as it is now, not of the constructor arguments.
-/
import QKV.Model.ConfigState
namespace QKV.Py

/-- `r` as an integer, if it is one -/
def ratInt (r : Rat) : Option Int := if r.den = 1 then some r.num else Option.none

/-- `quantized_linear.use_sign_function`: `(self.bits == 1.0) and self.keep_negative` -/
def linUseSign (q : Q) : Bool :=
  (q.get "bits").numVal == some 1 && (q.get "keep_negative").truthy

/-- `quantized_linear.get_clip_bounds()` evaluated on the attributes the object holds NOW:
      sign function           (-0.5, 0.5)
      otherwise               p = 2**(bits - keep_negative);
                              (keep_negative * (-p + symmetric), p - 1)
    (`none`: a non-numeric attribute or a non-integral exponent, outside the generated domain) -/
def linClipBounds (q : Q) : Option (Rat × Rat) :=
  if linUseSign q then some (-(1 / 2), 1 / 2)
  else
    match (q.get "bits").numVal, (q.get "keep_negative").numVal, (q.get "symmetric").numVal with
    | some b, some kn, some sy =>
      match ratInt (b - kn) with
      | some e => some (kn * (-(QKV.pow2 e) + sy), QKV.pow2 e - 1)
      | Option.none => Option.none
    | _, _, _ => Option.none

/-- `quantized_linear.data_type_scale`: `2 ** (integer - bits + keep_negative)` -/
def linDataTypeScale (q : Q) : Option Rat :=
  match (q.get "integer").numVal, (q.get "bits").numVal, (q.get "keep_negative").numVal with
  | some n, some b, some kn =>
    match ratInt (n - b + kn) with
    | some e => some (QKV.pow2 e)
    | Option.none => Option.none
  | _, _, _ => Option.none

/-- `quantized_linear.auto_alpha`: `isinstance(self.alpha, str)` -/
def linAutoAlpha (q : Q) : Bool := (q.get "alpha").isStr

/-- everything `quantized_linear.__call__` derives from the current attributes before it touches
    the data -/
structure LinDerived where
  clip : Option (Rat × Rat)
  dataTypeScale : Option Rat
  useSign : Bool
  autoAlpha : Bool
  deriving DecidableEq, Repr

def linDerived (q : Q) : LinDerived :=
  ⟨linClipBounds q, linDataTypeScale q, linUseSign q, linAutoAlpha q⟩

/-! ### re-configuration through the declared-modifiable attributes -/

/-- attributes a class declares modifiable on a live object and that no `__init__` code
    checks, normalises or derives anything from (`alpha` is modifiable too but checked by
    `_check_alpha`; `use_variables` is build-only) -/
def assignable : Cls → List String
  | .quantized_linear => ["symmetric", "qnoise_factor"]
  | _ => []

/-- `q.k = v` on a live quantizer -/
def assignAttr (k : String) (v : PyVal) (i : Inst) : Inst :=
  if (assignable i.q.cls).contains k then ⟨⟨i.q.cls, i.q.env.set k v⟩, i.hid⟩ else i

/-- history steps of `ConfigState` plus plain attribute assignment -/
inductive StepX where
  | base (s : Step)
  | assign (k : String) (v : PyVal)
  deriving DecidableEq, Repr

def stepX : World × Inst → StepX → World × Inst
  | s, .base st => step s st
  | (w, i), .assign k v => (w, assignAttr k v i)

def runHistoryX (s : World × Inst) (steps : List StepX) : World × Inst := steps.foldl stepX s

end QKV.Py
