/-
  QKV.Model.Po2Quant — executable model of the power-of-two quantizers of qkeras/quantizers.py
  (`quantized_po2`, `quantized_relu_po2`, `_clip_power_of_two`, `_need_exponent_sign_bit_check`,
  `_get_min_max_exponents`, `min()`, `max()`), `qnoise_factor=1`.  `Cfg` and the layers below are
  the non-stochastic call of a fresh object built from python numbers; the last section adds the
  constructor call as written (argument spellings), `use_stochastic_rounding` x learning phase, and
  one object over a history of re-configurations.  Core Lean only.

  Two layers.
  * exact layer (`quantWith`, `quant`, `Admissible`): what the code computes when every float
    operation is read as the real operation.  The logarithm is eliminated: the rounded exponent
    `r` of `v` is characterised by `2^(2r-1) ≤ v² < 2^(2r+1)` ("rnd") resp. `2^r ≤ v < 2^(r+1)`
    ("floor").  Because the real code evaluates `round(log(v)/log 2)` in float32, its decision
    can differ from the exact one close to a breakpoint sqrt(2)·2^k; `RndAdm` is the relational
    form with a relative band `beta` around every such breakpoint (device 3 of DESIGN §3.2):
    inside the band both neighbouring exponents are admissible, outside it the exponent is
    determined.  "floor" mode (after fix 40deb9c) rounds first and then steps down iff
    `2^round > x`, an exact comparison: `RawAdm` composes the two, and the result is unique.
  * float32 layer (`quantF`): the same computation followed by the float32 effects that are NOT
    benign: denormals-are-zero on the input, `pow(2, e)` underflow/overflow, and the
    straight-through expression `x + (-x + xq)` evaluated with two float32 roundings and
    flush-to-zero (device 1, simulate).  `quantF` is what is compared bit-for-bit with the code.
-/
import QKV.Model.Basic
namespace QKV.Po2Q
open QKV

/-- relative half-width of the band around a log2 breakpoint (2^-15, see notes/C03.md) -/
def beta : Rat := 1 / 32768

structure Cfg where
  relu : Bool            -- false: quantized_po2, true: quantized_relu_po2
  bits : Nat
  maxValue : Option Rat  -- `max_value`
  negSlope : Rat         -- `negative_slope` (relu variant only; 0 otherwise)
  floorMode : Bool       -- log2_rounding == "floor"
  quad : Bool            -- quadratic_approximation
  eps : Rat              -- tf.keras.backend.epsilon() as the float32 it becomes (passed exactly)
deriving Repr

/-- `_need_exponent_sign_bit_check` (the `max_value < 0` ValueError is raised by the driver) -/
def needSign (mv : Option Rat) : Nat :=
  match mv with
  | none => 1
  | some m => if 1 < m then 1 else 0

/-- `effect_bits` of `_get_min_max_exponents` (po2: `bits - 1 - sign`), and the relu variant's
    `bits - sign` -/
def Cfg.effBits (c : Cfg) : Nat := (if c.relu then c.bits else c.bits - 1) - needSign c.maxValue

/-- `_min_exp = -2**effect_bits` -/
def Cfg.minExp (c : Cfg) : Int := - ((2 ^ c.effBits : Nat) : Int)
/-- `2**effect_bits - 1` before the quadratic adjustment -/
def Cfg.maxExp0 (c : Cfg) : Int := ((2 ^ c.effBits : Nat) : Int) - 1
/-- `_max_exp` (`2 * (max_exp // 2)` under quadratic approximation) -/
def Cfg.maxExp (c : Cfg) : Int := if c.quad then 2 * (c.maxExp0 / 2) else c.maxExp0
/-- `q_factor` -/
def Cfg.qf (c : Cfg) : Int := if c.quad then 2 else 1

def rabs (q : Rat) : Rat := if q < 0 then -q else q
def clipI (r lo hi : Int) : Int := if r < lo then lo else if hi < r then hi else r

/-- `x_filter` of `_clip_power_of_two`: epsilon floor, then the `max_value` clamp -/
def xFilter (c : Cfg) (xabs : Rat) : Rat :=
  let a := if xabs < c.eps then c.eps else xabs
  match c.maxValue with
  | some m => if m ≤ a then m else a
  | none => a

/-- the quantity that is compared with powers of two by the rounded logarithm
    (`x_input² = v` under quadratic approximation, `v²` otherwise) -/
def key (c : Cfg) (v : Rat) : Rat := if c.quad then v else v * v

/-- exact value of `round(log2 x_input)` (`x_input = sqrt v` when quad) -/
def rndExact (c : Cfg) (v : Rat) : Int := (floorLog2Rat (key c v) + 1) / 2

/-- exact value of the rounded logarithm the code ends up with: `round(log2 x_input)` in "rnd"
    mode, `floor(log2 x_input)` in "floor" mode -/
def rawExp (c : Cfg) (v : Rat) : Int :=
  if c.floorMode then
    (if c.quad then floorLog2Rat v / 2 else floorLog2Rat v)
  else rndExact c v

/-- lower / upper bound on `key c v` for `r` to be an admissible float evaluation of
    `round(log(x_input)/log 2)`: the exact interval `[2^(2r-1), 2^(2r+1)]` widened by `beta` -/
def bandLo (_c : Cfg) (r : Int) : Rat := pow2 (2 * r - 1) * ((1 - beta) * (1 - beta))
def bandHi (_c : Cfg) (r : Int) : Rat := pow2 (2 * r + 1) * ((1 + beta) * (1 + beta))

/-- `r` is an admissible float evaluation of `tf.round(log(x_input)/log 2)` -/
def RndAdm (c : Cfg) (v : Rat) (r : Int) : Prop := bandLo c r ≤ key c v ∧ key c v ≤ bandHi c r

instance (c : Cfg) (v : Rat) (r : Int) : Decidable (RndAdm c v r) := by
  unfold RndAdm; exact inferInstance

/-- "floor" mode after fix 40deb9c: `x_floor = where(pow(2.0, x_rnd) > x_input, x_rnd - 1, x_rnd)`.
    `pow(2.0, integer)` and the comparison are exact in float32 (`x_input = sqrt v` under quad is
    read exactly: `2^x_rnd > sqrt v ⇔ 2^(2 x_rnd) > v`). -/
def stepDown (c : Cfg) (v : Rat) (rn : Int) : Int :=
  if v < (if c.quad then pow2 (2 * rn) else pow2 rn) then rn - 1 else rn

/-- `r` is a value the code can end up with as rounded logarithm of `v`: in "rnd" mode any
    admissible rounding; in "floor" mode any admissible rounding followed by the exact step-down
    test (which makes the result unique, `rawAdm_floor_unique`). -/
def RawAdm (c : Cfg) (v : Rat) (r : Int) : Prop :=
  if c.floorMode then ∃ rn : Int, RndAdm c v rn ∧ r = stepDown c v rn else RndAdm c v r

/-- the admissible results, for the driver -/
def admExps (c : Cfg) (v : Rat) : List Int :=
  let e := rndExact c v
  let rns := [e - 1, e, e + 1].filter fun r => decide (RndAdm c v r)
  if c.floorMode then (rns.map (stepDown c v)).eraseDups else rns

/-- `_clip_power_of_two`, given the rounded logarithm `r` of `x_filter` -/
def clipExpWith (c : Cfg) (xabs : Rat) (r : Int) : Int :=
  if xabs < c.eps then c.minExp else c.qf * clipI r c.minExp c.maxExp

/-- is the positive branch of `quantized_relu_po2.__call__` selected -/
def posBranch (c : Cfg) (x : Rat) : Bool := decide (0 ≤ x) || decide (c.negSlope = 0)

/-- the non-negative tensor handed to `_clip_power_of_two` -/
def magIn (c : Cfg) (x : Rat) : Rat :=
  if c.relu then
    (if posBranch c x then (if 0 ≤ x then x else 0) else (-x) * c.negSlope)
  else rabs x

/-- sign factor of the output -/
def signOut (c : Cfg) (x : Rat) : Rat :=
  if c.relu then (if posBranch c x then 1 else -1) else (if x < 0 then -1 else 1)

/-- exact layer: output for a given rounded logarithm `r` -/
def quantWith (c : Cfg) (x : Rat) (r : Int) : Rat :=
  signOut c x * pow2 (clipExpWith c (magIn c x) r)

/-- the argument of the logarithm -/
def logArg (c : Cfg) (x : Rat) : Rat := xFilter c (magIn c x)

/-- exact layer, deterministic (real-number logarithm) -/
def quant (c : Cfg) (x : Rat) : Rat := quantWith c x (rawExp c (logArg c x))

/-- relational exact layer: every output the band allows -/
def Admissible (c : Cfg) (x y : Rat) : Prop := ∃ r, RawAdm c (logArg c x) r ∧ y = quantWith c x r

/-! ### `min()` / `max()` -/

def truthy (mv : Option Rat) : Option Rat :=
  match mv with
  | some m => if m = 0 then none else some m
  | none => none

def rmax (a b : Rat) : Rat := if a ≤ b then b else a
def rmin (a b : Rat) : Rat := if a ≤ b then a else b

/-- `max()` of both classes -/
def qmax (c : Cfg) : Rat :=
  match truthy c.maxValue with
  | some m => rmax 1 m
  | none => rmax 1 (pow2 c.maxExp)

/-- `min()`: `-max()` for quantized_po2; the relu variant: smallest code without a leaky slope,
    `-max()` with one (fix 06b857d) -/
def qmin (c : Cfg) : Rat :=
  if c.relu then (if c.negSlope = 0 then pow2 c.minExp else - qmax c)
  else - qmax c

/-! ### float32 layer -/

def roundHalfEven (q : Rat) : Int :=
  let f := q.floor
  let d := q - (f : Rat)
  if d < 1 / 2 then f else if 1 / 2 < d then f + 1 else if f % 2 = 0 then f else f + 1

/-- IEEE binary32 round-to-nearest-even of a real number, flush-to-zero for results below the
    normal range (TF's CPU kernels run with FTZ); `none` = overflow to infinity -/
def rnd32 (q : Rat) : Option Rat :=
  if q = 0 then some 0 else
  let a := rabs q
  let e := floorLog2Rat a
  let ulp := pow2 (e - 23)
  let r := (roundHalfEven (a / ulp) : Rat) * ulp
  if r < pow2 (-126) then some 0
  else if pow2 128 ≤ r then none
  else some (if q < 0 then -r else r)

/-- denormals-are-zero: how TF's CPU kernels read a subnormal input -/
def daz (x : Rat) : Rat := if rabs x < pow2 (-126) then 0 else x

/-- float32 `pow(2.0, e)` for an integer-valued `e` -/
def pow2F (e : Int) : Option Rat :=
  if e < -126 then some 0 else if 127 < e then none else some (pow2 e)

/-- the tensor `x` of the straight-through expression (`K.relu(x, slope)`, clipped at max_value,
    for the relu variant) -/
def steBase (c : Cfg) (x : Rat) : Option Rat :=
  if c.relu then
    let r : Option Rat := if 0 ≤ x then some x else (if c.negSlope = 0 then some 0 else rnd32 (c.negSlope * x))
    match c.maxValue with
    | none => r
    | some m => if x ≤ m then r else some m
  else some x

/-- `x + stop_gradient(1.0 * (-x + xq))` in float32 -/
def steOut (base xq : Rat) : Option Rat :=
  match rnd32 (xq - base) with
  | none => none
  | some d => rnd32 (base + d)

/-- float32 layer for a given rounded logarithm; `none` = non-finite result -/
def quantFWith (c : Cfg) (x : Rat) (r : Int) : Option Rat :=
  let x0 := daz x
  let e := clipExpWith c (magIn c x0) r
  match pow2F e, steBase c x0 with
  | some p, some b => steOut b (signOut c x0 * p)
  | _, _ => none

/-- which float32 effect (if any) makes `quantFWith` differ from `quantWith` -/
def regime (c : Cfg) (x : Rat) (r : Int) : String :=
  let x0 := daz x
  let e := clipExpWith c (magIn c x0) r
  if e < -126 then "underflow"
  else if 127 < e then "overflow"
  else if quantFWith c x r = some (quantWith c x0 r) then
    (if x0 = x then "exact" else "daz")
  else "ste_cancel"

/-- well-formed configurations (the constructor arguments the property ranges over) -/
structure Cfg.WF (c : Cfg) : Prop where
  bits : if c.relu then 1 ≤ c.bits else 2 ≤ c.bits
  epsPos : 0 < c.eps
  epsLe : c.eps ≤ 1
  mvPos : ∀ m, c.maxValue = some m → 0 < m
  slope : 0 ≤ c.negSlope
  slopeRelu : c.relu = false → c.negSlope = 0

/-! ### the constructor call as written, options outside `Cfg`, process state, object histories

  (strengthening round, seed C03-5 and the cross-cutting blind spots)

  * `Ctor`: the constructor call with the SPELLING of every numeric argument (`NumForm`: python
    int / float, numpy scalar types, 0-d ndarray, tf constant / variable).  The anchored code
    looks at values only (`Ctor.cfg`); the spelling used to matter in exactly one place, python's
    `2**self._min_exp` / `2**self._max_exp` in `min()/max()` when `bits` is a numpy integer
    (former finding `C03-numpy-int-bits`, repaired in the fix round: `min()/max()` convert the
    exponent with `int()`; `qminForm`, `qmaxForm` are now independent of the spelling).
  * `use_stochastic_rounding` and `K.learning_phase()` (`RawAdmS`): the "floor" branch is tested
    first, then the stochastic branch, which rounds to nearest in the inference phase.
  * `Obj`: a quantizer object = the exponent range cached by `__init__` plus the attributes that
    `__call__` reads live; `Step` = re-configuration through a public attribute between calls.
    `Obj.view` is the configuration the code computes with, `Obj.fresh` the one a new object built
    from the current attributes would have.
-/

/-- how a numeric constructor argument is spelled -/
inductive NumForm where
  | pyInt | pyFloat | npFloat16 | npFloat32 | npFloat64 | npInt32 | npInt64
  | ndarrayInt | ndarrayFloat | tfConstant | tfVariable
deriving Repr, DecidableEq

structure Num where
  form : NumForm
  val : Rat
deriving Repr

/-- the constructor call `quantized_po2(bits, max_value, use_stochastic_rounding,
    quadratic_approximation, log2_rounding)` / `quantized_relu_po2(bits, max_value,
    negative_slope, ...)` as written -/
structure Ctor where
  relu : Bool
  bits : Nat
  bitsForm : NumForm
  maxValue : Option Num
  negSlope : Num
  stochastic : Bool
  quad : Bool
  floorMode : Bool
deriving Repr

/-- the configuration `__init__` stores: VALUES only (`_need_exponent_sign_bit_check` compares
    `max_value` with 0 and 1 whatever its type) -/
def Ctor.cfg (k : Ctor) (eps : Rat) : Cfg :=
  { relu := k.relu, bits := k.bits, maxValue := k.maxValue.map (·.val),
    negSlope := k.negSlope.val, floorMode := k.floorMode, quad := k.quad, eps := eps }

/-- two constructor calls with the same values (spellings may differ) -/
def Ctor.SameValues (k k' : Ctor) : Prop :=
  k.relu = k'.relu ∧ k.bits = k'.bits ∧ k.maxValue.map (·.val) = k'.maxValue.map (·.val) ∧
  k.negSlope.val = k'.negSlope.val ∧ k.stochastic = k'.stochastic ∧ k.quad = k'.quad ∧
  k.floorMode = k'.floorMode

/-- `max()` as python evaluates it: `max(1.0, 2**int(self._max_exp))`.  The cached exponent is
    converted to a python int before the power is taken (fix round: with a numpy integer `bits`
    of width `w` the power used to be taken in `w`-bit arithmetic and wrapped around for
    `_max_exp ≥ w - 1`, so that `max()` was `1.0`), hence the spelling `_bf` of `bits` does not
    matter any more; the parameter is kept so that the theorems can say so -/
def qmaxForm (_bf : NumForm) (c : Cfg) : Rat :=
  match truthy c.maxValue with
  | some m => rmax 1 m
  | none => rmax 1 (pow2 c.maxExp)

/-- `min()` as python evaluates it: `2**int(self._min_exp)` for the plain relu variant, `-max()`
    otherwise; `none` would be an exception (fix round: `2**self._min_exp` with a numpy integer
    `_min_exp` used to raise `ValueError: Integers to negative integer powers are not allowed`;
    no spelling of `bits` raises now) -/
def qminForm (bf : NumForm) (c : Cfg) : Option Rat :=
  if c.relu then
    (if c.negSlope = 0 then some (pow2 c.minExp) else some (- qmaxForm bf c))
  else some (- qmaxForm bf c)

/-- exact `floor(log2 x_input)` (`x_input = sqrt v` under quadratic approximation) -/
def floorExp (c : Cfg) (v : Rat) : Int := if c.quad then floorLog2Rat v / 2 else floorLog2Rat v

/-- `stochastic_round_po2` (training phase): the exponent below `x_input` or the one above -/
def StochAdm (c : Cfg) (v : Rat) (r : Int) : Prop := r = floorExp c v ∨ r = floorExp c v + 1

instance (c : Cfg) (v : Rat) (r : Int) : Decidable (StochAdm c v r) := by
  unfold StochAdm; exact inferInstance

/-- the rounded logarithms the code can end up with, given `use_stochastic_rounding` and the
    learning phase: `if log2_rounding == "floor": … elif use_stochastic_rounding:
    smart_cond(K.learning_phase(), stochastic_round_po2, _round_through) else: _round_through` -/
def RawAdmS (c : Cfg) (stochastic training : Bool) (v : Rat) (r : Int) : Prop :=
  if c.floorMode then RawAdm c v r
  else if stochastic && training then StochAdm c v r
  else RawAdm c v r

def AdmissibleS (c : Cfg) (stochastic training : Bool) (x y : Rat) : Prop :=
  ∃ r, RawAdmS c stochastic training (logArg c x) r ∧ y = quantWith c x r

/-- for the driver -/
def admExpsS (c : Cfg) (stochastic training : Bool) (v : Rat) : List Int :=
  if !c.floorMode && stochastic && training then [floorExp c v, floorExp c v + 1] else admExps c v

/-- a quantizer object: what `__init__` cached and what `__call__` reads live -/
structure Obj where
  relu : Bool
  effBitsC : Nat          -- cached: `_min_exp = -2**effBitsC`, `_max_exp = 2**effBitsC - 1`
  bitsForm : NumForm      -- type of the cached exponents
  bits : Nat              -- `self.bits` (live attribute; `__call__` does not read it)
  maxValue : Option Rat   -- `self.max_value` (live: clamp, `min()/max()`)
  negSlope : Rat          -- `self.negative_slope` (live)
  stochastic : Bool       -- `self.use_stochastic_rounding` (live)
  floorMode : Bool        -- `self.log2_rounding` (live)
  quad : Bool             -- `self.quadratic_approximation` (not re-configured here)
deriving Repr

def Obj.init (k : Ctor) : Obj :=
  let c := k.cfg 0
  { relu := k.relu, effBitsC := c.effBits, bitsForm := k.bitsForm, bits := c.bits,
    maxValue := c.maxValue, negSlope := c.negSlope, stochastic := k.stochastic,
    floorMode := k.floorMode, quad := k.quad }

/-- re-configuration through a public attribute -/
inductive Step where
  | setMaxValue (mv : Option Rat)
  | setNegSlope (s : Rat)
  | setFloor (b : Bool)
  | setStochastic (b : Bool)
  | setBits (n : Nat)
deriving Repr

def Obj.step (o : Obj) : Step → Obj
  | .setMaxValue mv => { o with maxValue := mv }
  | .setNegSlope s => { o with negSlope := s }
  | .setFloor b => { o with floorMode := b }
  | .setStochastic b => { o with stochastic := b }
  | .setBits n => { o with bits := n }

def Obj.run (o : Obj) (steps : List Step) : Obj := steps.foldl Obj.step o

/-- the configuration a NEW object built from the current attributes would have (the property's
    reference: "the exponent interval determined by the bit width and max_value") -/
def Obj.fresh (o : Obj) (eps : Rat) : Cfg :=
  { relu := o.relu, bits := o.bits, maxValue := o.maxValue, negSlope := o.negSlope,
    floorMode := o.floorMode, quad := o.quad, eps := eps }

/-- the configuration the code computes with: live attributes, CACHED exponent range (expressed as
    the bit width that yields the cached range together with the live `max_value`) -/
def Obj.view (o : Obj) (eps : Rat) : Cfg :=
  { relu := o.relu, bits := o.effBitsC + needSign o.maxValue + (if o.relu then 0 else 1),
    maxValue := o.maxValue, negSlope := o.negSlope, floorMode := o.floorMode, quad := o.quad,
    eps := eps }

/-- the cache is coherent with the live attributes -/
def Obj.Coherent (o : Obj) : Prop := o.effBitsC = (o.fresh 0).effBits

instance (o : Obj) : Decidable o.Coherent := by unfold Obj.Coherent; exact inferInstance

/-- the object's bit width leaves room for the sign bits it needs (`bits ≥ 2`, relu `bits ≥ 1`) -/
def Obj.BitsOK (o : Obj) : Prop := needSign o.maxValue + (if o.relu then 0 else 1) ≤ o.bits

/-- a step that leaves the cached exponent range valid: any change of `negative_slope`,
    `log2_rounding`, `use_stochastic_rounding`; a new `max_value` on the same side of 1 (same
    exponent sign bit); `bits` unchanged -/
def Step.Safe (o : Obj) : Step → Prop
  | .setMaxValue mv => needSign mv = needSign o.maxValue
  | .setBits n => n = o.bits
  | _ => True

/-- every step of the history is safe at the state it is applied to -/
def SafeRun : Obj → List Step → Prop
  | _, [] => True
  | o, s :: rest => s.Safe o ∧ SafeRun (o.step s) rest

end QKV.Po2Q
