/-
  QKV.Model.Po2Quant — executable model of the power-of-two quantizers of qkeras/quantizers.py
  (`quantized_po2`, `quantized_relu_po2`, `_clip_power_of_two`, `_need_exponent_sign_bit_check`,
  `_get_min_max_exponents`, `min()`, `max()`), `use_stochastic_rounding=False`, `qnoise_factor=1`.
  Core Lean only.

  Two layers.
  * exact layer (`quantWith`, `quant`, `Admissible`): what the code computes when every float
    operation is read as the real operation.  The logarithm is eliminated: the rounded exponent
    `r` of `v` is characterised by `2^(2r-1) ≤ v² < 2^(2r+1)` ("rnd") resp. `2^r ≤ v < 2^(r+1)`
    ("floor").  Because the real code evaluates `round(log(v)/log 2)` in float32, its decision
    can differ from the exact one close to a breakpoint; `RawAdm` is the relational form with a
    relative band `beta` around every breakpoint (device 3 of DESIGN §3.2): inside the band both
    neighbouring exponents are admissible, outside it the exponent is determined.
  * float32 layer (`quantF`): the same computation followed by the float32 effects that are NOT
    benign: denormals-are-zero on the input, `pow(2, e)` underflow/overflow, and the
    straight-through expression `x + (-x + xq)` evaluated with two float32 roundings and
    flush-to-zero (device 1, simulate).  `quantF` is what is compared bit-for-bit with the code.
-/
import QKV.Model.Basic
namespace QKV.Po2Q
open QKV

/-- relative half-width of the band around a log2 breakpoint (2^-15, see notes/C03.md) -/
def beta : Rat := 1 / 32768

structure Cfg where
  relu : Bool            -- false: quantized_po2, true: quantized_relu_po2
  bits : Nat
  maxValue : Option Rat  -- `max_value`
  negSlope : Rat         -- `negative_slope` (relu variant only; 0 otherwise)
  floorMode : Bool       -- log2_rounding == "floor"
  quad : Bool            -- quadratic_approximation
  eps : Rat              -- tf.keras.backend.epsilon() as the float32 it becomes (passed exactly)
deriving Repr

/-- `_need_exponent_sign_bit_check` (the `max_value < 0` ValueError is raised by the driver) -/
def needSign (mv : Option Rat) : Nat :=
  match mv with
  | none => 1
  | some m => if 1 < m then 1 else 0

/-- `effect_bits` of `_get_min_max_exponents` (po2: `bits - 1 - sign`), and the relu variant's
    `bits - sign` -/
def Cfg.effBits (c : Cfg) : Nat := (if c.relu then c.bits else c.bits - 1) - needSign c.maxValue

/-- `_min_exp = -2**effect_bits` -/
def Cfg.minExp (c : Cfg) : Int := - ((2 ^ c.effBits : Nat) : Int)
/-- `2**effect_bits - 1` before the quadratic adjustment -/
def Cfg.maxExp0 (c : Cfg) : Int := ((2 ^ c.effBits : Nat) : Int) - 1
/-- `_max_exp` (`2 * (max_exp // 2)` under quadratic approximation) -/
def Cfg.maxExp (c : Cfg) : Int := if c.quad then 2 * (c.maxExp0 / 2) else c.maxExp0
/-- `q_factor` -/
def Cfg.qf (c : Cfg) : Int := if c.quad then 2 else 1

def rabs (q : Rat) : Rat := if q < 0 then -q else q
def clipI (r lo hi : Int) : Int := if r < lo then lo else if hi < r then hi else r

/-- `x_filter` of `_clip_power_of_two`: epsilon floor, then the `max_value` clamp -/
def xFilter (c : Cfg) (xabs : Rat) : Rat :=
  let a := if xabs < c.eps then c.eps else xabs
  match c.maxValue with
  | some m => if m ≤ a then m else a
  | none => a

/-- exact value of `round(log2 x_input)` / `floor(log2 x_input)` (`x_input = sqrt v` when quad) -/
def rawExp (c : Cfg) (v : Rat) : Int :=
  if c.floorMode then
    (if c.quad then floorLog2Rat v / 2 else floorLog2Rat v)
  else
    (floorLog2Rat (if c.quad then v else v * v) + 1) / 2

/-- the quantity that is compared with powers of two -/
def key (c : Cfg) (v : Rat) : Rat := if c.quad then v else if c.floorMode then v else v * v

/-- lower / upper bound on `key c v` for exponent `r` to be an admissible rounding of `v` -/
def bandLo (c : Cfg) (r : Int) : Rat :=
  if c.floorMode then
    (if c.quad then pow2 (2 * r) * ((1 - beta) * (1 - beta)) else pow2 r * (1 - beta))
  else pow2 (2 * r - 1) * ((1 - beta) * (1 - beta))
def bandHi (c : Cfg) (r : Int) : Rat :=
  if c.floorMode then
    (if c.quad then pow2 (2 * r + 2) * ((1 + beta) * (1 + beta)) else pow2 (r + 1) * (1 + beta))
  else pow2 (2 * r + 1) * ((1 + beta) * (1 + beta))

/-- `r` is an admissible float evaluation of the rounded logarithm of `v` -/
def RawAdm (c : Cfg) (v : Rat) (r : Int) : Prop := bandLo c r ≤ key c v ∧ key c v ≤ bandHi c r

instance (c : Cfg) (v : Rat) (r : Int) : Decidable (RawAdm c v r) := by
  unfold RawAdm; exact inferInstance

/-- the admissible exponents, for the driver (at most two of the three candidates pass) -/
def admExps (c : Cfg) (v : Rat) : List Int :=
  let e := rawExp c v
  [e - 1, e, e + 1].filter fun r => decide (RawAdm c v r)

/-- `_clip_power_of_two`, given the rounded logarithm `r` of `x_filter` -/
def clipExpWith (c : Cfg) (xabs : Rat) (r : Int) : Int :=
  if xabs < c.eps then c.minExp else c.qf * clipI r c.minExp c.maxExp

/-- is the positive branch of `quantized_relu_po2.__call__` selected -/
def posBranch (c : Cfg) (x : Rat) : Bool := decide (0 ≤ x) || decide (c.negSlope = 0)

/-- the non-negative tensor handed to `_clip_power_of_two` -/
def magIn (c : Cfg) (x : Rat) : Rat :=
  if c.relu then
    (if posBranch c x then (if 0 ≤ x then x else 0) else (-x) * c.negSlope)
  else rabs x

/-- sign factor of the output -/
def signOut (c : Cfg) (x : Rat) : Rat :=
  if c.relu then (if posBranch c x then 1 else -1) else (if x < 0 then -1 else 1)

/-- exact layer: output for a given rounded logarithm `r` -/
def quantWith (c : Cfg) (x : Rat) (r : Int) : Rat :=
  signOut c x * pow2 (clipExpWith c (magIn c x) r)

/-- the argument of the logarithm -/
def logArg (c : Cfg) (x : Rat) : Rat := xFilter c (magIn c x)

/-- exact layer, deterministic (real-number logarithm) -/
def quant (c : Cfg) (x : Rat) : Rat := quantWith c x (rawExp c (logArg c x))

/-- relational exact layer: every output the band allows -/
def Admissible (c : Cfg) (x y : Rat) : Prop := ∃ r, RawAdm c (logArg c x) r ∧ y = quantWith c x r

/-! ### `min()` / `max()` -/

def truthy (mv : Option Rat) : Option Rat :=
  match mv with
  | some m => if m = 0 then none else some m
  | none => none

def rmax (a b : Rat) : Rat := if a ≤ b then b else a
def rmin (a b : Rat) : Rat := if a ≤ b then a else b

/-- `max()` of both classes -/
def qmax (c : Cfg) : Rat :=
  match truthy c.maxValue with
  | some m => rmax 1 m
  | none => rmax 1 (pow2 c.maxExp)

/-- `min()`: `-max()` for quantized_po2; the relu variant's own formula -/
def qmin (c : Cfg) : Rat :=
  if c.relu then
    (if c.negSlope = 0 then pow2 c.minExp
     else if 0 < c.bits - 1 then rmin (pow2 c.minExp) (-(c.negSlope * pow2 ((c.bits - 1 : Nat) : Int)))
     else pow2 c.minExp)
  else - qmax c

/-! ### float32 layer -/

def roundHalfEven (q : Rat) : Int :=
  let f := q.floor
  let d := q - (f : Rat)
  if d < 1 / 2 then f else if 1 / 2 < d then f + 1 else if f % 2 = 0 then f else f + 1

/-- IEEE binary32 round-to-nearest-even of a real number, flush-to-zero for results below the
    normal range (TF's CPU kernels run with FTZ); `none` = overflow to infinity -/
def rnd32 (q : Rat) : Option Rat :=
  if q = 0 then some 0 else
  let a := rabs q
  let e := floorLog2Rat a
  let ulp := pow2 (e - 23)
  let r := (roundHalfEven (a / ulp) : Rat) * ulp
  if r < pow2 (-126) then some 0
  else if pow2 128 ≤ r then none
  else some (if q < 0 then -r else r)

/-- denormals-are-zero: how TF's CPU kernels read a subnormal input -/
def daz (x : Rat) : Rat := if rabs x < pow2 (-126) then 0 else x

/-- float32 `pow(2.0, e)` for an integer-valued `e` -/
def pow2F (e : Int) : Option Rat :=
  if e < -126 then some 0 else if 127 < e then none else some (pow2 e)

/-- the tensor `x` of the straight-through expression (`K.relu(x, slope)`, clipped at max_value,
    for the relu variant) -/
def steBase (c : Cfg) (x : Rat) : Option Rat :=
  if c.relu then
    let r : Option Rat := if 0 ≤ x then some x else (if c.negSlope = 0 then some 0 else rnd32 (c.negSlope * x))
    match c.maxValue with
    | none => r
    | some m => if x ≤ m then r else some m
  else some x

/-- `x + stop_gradient(1.0 * (-x + xq))` in float32 -/
def steOut (base xq : Rat) : Option Rat :=
  match rnd32 (xq - base) with
  | none => none
  | some d => rnd32 (base + d)

/-- float32 layer for a given rounded logarithm; `none` = non-finite result -/
def quantFWith (c : Cfg) (x : Rat) (r : Int) : Option Rat :=
  let x0 := daz x
  let e := clipExpWith c (magIn c x0) r
  match pow2F e, steBase c x0 with
  | some p, some b => steOut b (signOut c x0 * p)
  | _, _ => none

/-- which float32 effect (if any) makes `quantFWith` differ from `quantWith` -/
def regime (c : Cfg) (x : Rat) (r : Int) : String :=
  let x0 := daz x
  let e := clipExpWith c (magIn c x0) r
  if e < -126 then "underflow"
  else if 127 < e then "overflow"
  else if quantFWith c x r = some (quantWith c x0 r) then
    (if x0 = x then "exact" else "daz")
  else "ste_cancel"

/-- well-formed configurations (the constructor arguments the property ranges over) -/
structure Cfg.WF (c : Cfg) : Prop where
  bits : if c.relu then 1 ≤ c.bits else 2 ≤ c.bits
  epsPos : 0 < c.eps
  epsLe : c.eps ≤ 1
  mvPos : ∀ m, c.maxValue = some m → 0 < m
  slope : 0 ≤ c.negSlope
  slopeRelu : c.relu = false → c.negSlope = 0

end QKV.Po2Q
