/-
  QKV.Model.AutoFxArg — C05, the ARGUMENT level of `scale_axis` (core Lean only; additions on top of
  Model/AutoFx.lean and Model/TensorQ.lean, neither of which is changed).

  `QBAttrs` / `QLAttrs` of Model/AutoFx.lean hold a RESOLVED `scale_axis : AxisSpec` (natural numbers).  The Python
  objects hold what the user passed: None, an int or a list of ints, and an int may be NEGATIVE (counted from the
  end, the numpy / TF convention; `_normalize_scale_axis`, since the fix `negative scale_axis is counted from the
  end`).  The meaning of a negative axis depends on the RANK of the tensor of the call, so it cannot be resolved at
  construction: it is resolved inside every call, by the helpers

    _get_scaling_axis(scale_axis, len_axis)          -- max-based first scale of quantized_bits (rank > 1 only),
                                                     -- `_get_quantization_scale_from_max_data` of quantized_linear
                                                     -- (every rank), `_get_scale_mean` without elements_per_scale
    _get_scale_mean(.., elements_per_scale != None)  -- normalises itself before `_validate_axis_and_eps`

  all of which start with `_normalize_scale_axis` (`Tn.normAxis`, `Tn.axisOfArg`).  The object model below keeps the
  argument on the object (`QBArgAttrs`, `QLArgAttrs`: a call never writes it back) and resolves it per call against
  the rank of that call's tensor; the resolved attributes are then handed to `qbCall` / `qbExport` / `qlCall` of
  Model/AutoFx.lean unchanged.  Props.C05 transfers every clause theorem to the argument level and proves that an
  axis counted from the end IS the axis counted from the start (`k - rank` ≡ `k`), for ints, lists and mixed lists,
  in every history (rank changing between calls).
-/
import QKV.Model.AutoFx
namespace QKV.AF
open QKV QKV.Tn QKV.BT

/-- `scale_axis` as ONE call of `quantized_bits` on a tensor of rank `rank` sees it.
    rank ≤ 1: never consulted (`axis = [0]`; `_get_least_squares_scale` does not average).
    rank > 1: `_get_scaling_axis` / `_get_scale_mean` normalise first; an int that is still negative reaches
    `tf.range(negative)` and raises, a list entry that is still negative equals no `i in range(len_axis)` and is
    ignored — with `elements_per_scale` such a list is not modelled (rejected), as in `BinAttrs.axis` of C04. -/
def qbAxis (rank : Nat) (sa : AxisArg) (eps : EpsSpec) : Except Err AxisSpec :=
  if rank ≤ 1 then .ok .none
  else match axisOfArg rank sa, eps with
    | .error e, _ => .error e
    | .ok a, .none => .ok a
    | .ok a, _ => if sa.inRange rank then .ok a else .error .assert

/-- `scale_axis` as one call of `quantized_linear` sees it: `_get_quantization_scale_from_max_data` calls
    `_get_scaling_axis(self.scale_axis, tf.rank(x))` for EVERY rank -/
def qlAxis (rank : Nat) (sa : AxisArg) : Except Err AxisSpec := axisOfArg rank sa

/-- the public attributes of a `quantized_bits` object as Python holds them (`scale_axis` unresolved) -/
structure QBArgAttrs where
  bits : Int
  integer : Int
  keepNeg : Bool
  po2 : Bool
  sa : AxisArg                -- scale_axis: None / int / list of ints, negative = from the end
  eps : EpsSpec
  minE : Option Int
  maxE : Option Int
  deriving Repr, DecidableEq

/-- the attributes one call on a tensor of rank `rank` works with -/
def QBArgAttrs.resolve (a : QBArgAttrs) (rank : Nat) : Except Err QBAttrs :=
  match qbAxis rank a.sa a.eps with
  | .error e => .error e
  | .ok sa => .ok { bits := a.bits, integer := a.integer, keepNeg := a.keepNeg, po2 := a.po2, sa := sa,
                    eps := a.eps, minE := a.minE, maxE := a.maxE }

structure QBArgObj where
  attrs : QBArgAttrs
  frozen : Bool
  scale : Option Stored
  deriving Repr

/-- one `quantized_bits.__call__` on the object.  The axis helpers raise before anything is assigned, so an
    unresolvable axis leaves the object as it was; otherwise this is `qbCall` on the resolved attributes, and the
    ARGUMENT stays on the object (nothing normalised is written back). -/
def qbArgCall (c : Fl) (o : QBArgObj) (chLast : Bool) (shape : List Nat) (x : List Rat) :
    QBArgObj × Except Err (List QElt) :=
  match o.attrs.resolve shape.length with
  | .error e => (o, .error e)
  | .ok a =>
    let r := qbCall c { attrs := a, frozen := o.frozen, scale := o.scale } chLast shape x
    ({ o with scale := r.1.scale }, r.2)

/-- one (quantizer, weight) pair of `model_save_quantized_weights` (`qbExport`) at the argument level -/
def qbArgExport (c : Fl) (o : QBArgObj) (chLast : Bool) (shape : List Nat) (w : List Rat) :
    QBArgObj × Except Err (List QElt) × Option QBExported :=
  match o.attrs.resolve shape.length with
  | .error e => (o, .error e, Option.none)
  | .ok a =>
    let r := qbExport c { attrs := a, frozen := o.frozen, scale := o.scale } chLast shape w
    ({ o with scale := r.1.scale }, r.2.1, r.2.2)

structure QBArgStep where
  set : Option QBArgAttrs
  chLast : Bool
  shape : List Nat
  x : List Rat
  deriving Repr

inductive QBArgEvent where
  | call (s : QBArgStep)
  | save (s : QBArgStep)
  deriving Repr

def QBArgEvent.step : QBArgEvent → QBArgStep
  | .call s => s
  | .save s => s

def QBArgObj.reconf (o : QBArgObj) (s : Option QBArgAttrs) : QBArgObj := { o with attrs := s.getD o.attrs }

/-- a history of calls and exports on ONE object, the rank (hence the meaning of a negative axis) free per event -/
def qbArgRunEv (c : Fl) : QBArgObj → List QBArgEvent → List (QBArgObj × Except Err (List QElt) × Option QBExported)
  | _, [] => []
  | o, .call s :: t =>
    let r := qbArgCall c (o.reconf s.set) s.chLast s.shape s.x
    (r.1, r.2, Option.none) :: qbArgRunEv c r.1 t
  | o, .save s :: t =>
    let r := qbArgExport c (o.reconf s.set) s.chLast s.shape s.x
    r :: qbArgRunEv c r.1 t

/-- the same tensors, each given to a FRESH object carrying the argument attributes of the moment -/
def qbArgFresh (c : Fl) (frozen : Bool) (pts : Option Stored) : QBArgAttrs → List QBArgStep → List (Except Err (List QElt))
  | _, [] => []
  | a, s :: t =>
    let a' := s.set.getD a
    (qbArgCall c { attrs := a', frozen := frozen, scale := pts } s.chLast s.shape s.x).2 :: qbArgFresh c frozen pts a' t

def qbArgAttrsAfter : QBArgAttrs → List QBArgStep → List QBArgAttrs
  | _, [] => []
  | a, s :: t => s.set.getD a :: qbArgAttrsAfter (s.set.getD a) t

/-! ### quantized_linear -/

structure QLArgAttrs where
  bits : Int
  integer : Int
  symmetric : Bool
  keepNeg : Bool
  po2 : Bool
  sa : AxisArg
  deriving Repr, DecidableEq

def QLArgAttrs.resolve (a : QLArgAttrs) (rank : Nat) : Except Err QLAttrs :=
  match qlAxis rank a.sa with
  | .error e => .error e
  | .ok sa => .ok { bits := a.bits, integer := a.integer, symmetric := a.symmetric, keepNeg := a.keepNeg,
                    po2 := a.po2, sa := sa }

structure QLArgObj where
  attrs : QLArgAttrs
  qs : Stored
  deriving Repr

def qlArgCall (c : Fl) (o : QLArgObj) (chLast : Bool) (shape : List Nat) (x : List Rat) :
    QLArgObj × Except Err (List LElt) :=
  match o.attrs.resolve shape.length with
  | .error e => (o, .error e)
  | .ok a =>
    let r := qlCall c { attrs := a, qs := o.qs } chLast shape x
    ({ o with qs := r.1.qs }, .ok r.2)

structure QLArgStep where
  set : Option QLArgAttrs
  chLast : Bool
  shape : List Nat
  x : List Rat
  deriving Repr

def QLArgObj.reconf (o : QLArgObj) (s : Option QLArgAttrs) : QLArgObj := { o with attrs := s.getD o.attrs }

def qlArgRun (c : Fl) : QLArgObj → List QLArgStep → List (QLArgObj × Except Err (List LElt))
  | _, [] => []
  | o, s :: t =>
    let r := qlArgCall c (o.reconf s.set) s.chLast s.shape s.x
    r :: qlArgRun c r.1 t

def qlArgFresh (c : Fl) (qs0 : Stored) : QLArgAttrs → List QLArgStep → List (Except Err (List LElt))
  | _, [] => []
  | a, s :: t =>
    let a' := s.set.getD a
    (qlArgCall c { attrs := a', qs := qs0 } s.chLast s.shape s.x).2 :: qlArgFresh c qs0 a' t

def qlArgAttrsAfter : QLArgAttrs → List QLArgStep → List QLArgAttrs
  | _, [] => []
  | a, s :: t => s.set.getD a :: qlArgAttrsAfter (s.set.getD a) t

end QKV.AF
