/-
  QKV.Model.Estimator — `qkeras/estimate.py: analyze_accumulator`, as written.

      for i in range(k.shape[1]):
        npp = np.sum(k[..., i] * (k[..., i] > 0)) + (b[i] > 0) * b[i]
        nnn = np.sum(k[..., i] * (k[..., i] < 0)) + (b[i] < 0) * b[i]
        n1 = npp * (x_max > 0) * x_max + nnn * (x_min < 0) * x_min
        n0 = - (nnn * (x_max > 0) * x_max + npp * (x_min < 0) * x_min)
        nbits.append(n1 if n1 > n0 else n0)
      max_bits = int(np.ceil(np.log2(max(nbits))))

  `k[..., i]` is the slice of the LAST kernel axis (output channel / depth multiplier) while
  the loop bound is the size of axis 1 — equal only for rank-2 (dense) kernels.
  Core Lean only; exact rationals (the tie keeps the real run in the exact float regime).
-/
import QKV.Model.Basic
namespace QKV

def posPart (x : Rat) : Rat := if 0 < x then x else 0
def negPart (x : Rat) : Rat := if x < 0 then x else 0

def sumPos (ws : List Rat) : Rat := (ws.map posPart).sum
def sumNeg (ws : List Rat) : Rat := (ws.map negPart).sum

/-- `npp`: positive weights plus positive bias -/
def estNpp (ws : List Rat) (b : Rat) : Rat := sumPos ws + posPart b
/-- `nnn`: negative weights plus negative bias -/
def estNnn (ws : List Rat) (b : Rat) : Rat := sumNeg ws + negPart b

def estN1 (ws : List Rat) (b xmin xmax : Rat) : Rat :=
  estNpp ws b * posPart xmax + estNnn ws b * negPart xmin
def estN0 (ws : List Rat) (b xmin xmax : Rat) : Rat :=
  - (estNnn ws b * posPart xmax + estNpp ws b * negPart xmin)

/-- the per-channel entry of `nbits` -/
def chanBound (ws : List Rat) (b xmin xmax : Rat) : Rat :=
  let n1 := estN1 ws b xmin xmax
  let n0 := estN0 ws b xmin xmax
  if n0 < n1 then n1 else n0

inductive EstResult | ok (e : Int) | indexError | overflowError
  deriving DecidableEq, Repr

/-- the channels the loop visits: `i < shape1`, slice `i` of the last axis paired with `b[i]` -/
def visited (shape1 : Nat) (slices : List (List Rat)) (bias : List Rat) : List (List Rat × Rat) :=
  (slices.zip bias).take shape1

def listMax (l : List Rat) : Rat := l.foldl (fun a b => if a < b then b else a) (l.headD 0)

/-- `analyze_accumulator` for one layer: `shape1 = k.shape[1]`, `slices[i] = k[..., i]`
    flattened, `bias` the bias vector (zeros of length `k.shape[-1]` without bias).
    IndexError as soon as the loop index runs past the last axis (of `k` or of `b`).
    `max(nbits) = 0` gives `log2 0 = -inf` and `int(-inf)` raises OverflowError;
    an empty loop (`shape1 = 0`) cannot occur for a built layer. -/
def analyzeAccumulator (shape1 : Nat) (slices : List (List Rat)) (bias : List Rat)
    (xmin xmax : Rat) : EstResult :=
  if shape1 ≤ slices.length ∧ shape1 ≤ bias.length then
    let m := listMax ((visited shape1 slices bias).map fun (ws, b) => chanBound ws b xmin xmax)
    if m ≤ 0 then .overflowError else .ok (ceilLog2Rat m)
  else .indexError

/-- dot product of a weight slice with an input patch -/
def dot : List Rat → List Rat → Rat
  | w :: ws, x :: xs => w * x + dot ws xs
  | _, _ => 0

end QKV
