/-
  QKV.Model.Estimator — `qkeras/estimate.py: analyze_accumulator`, as written (after the repairs
  "analyze_accumulator visits every output channel" and "... adds the bias after scaling").

      if isinstance(layer, QDepthwiseConv2D):
        k = k.reshape(k.shape[:-2] + (-1,))
      for i in range(k.shape[-1]):
        npp = np.sum(k[..., i] * (k[..., i] > 0))
        nnn = np.sum(k[..., i] * (k[..., i] < 0))
        n1 = npp * (x_max > 0) * x_max + nnn * (x_min < 0) * x_min + b[i]
        n0 = - (nnn * (x_max > 0) * x_max + npp * (x_min < 0) * x_min + b[i])
        nbits.append(n1 if n1 > n0 else n0)
      max_bits = int(np.ceil(np.log2(max(nbits))))

  `k[..., i]` is the slice of the LAST kernel axis and the loop runs over that axis: one slice
  per output channel (dense `(cin, cout)`, conv `(…, cin, cout)`, depthwise `(kh, kw, cin·dm)`
  after the reshape).  The model takes the list of per-output-channel slices (flattened) and the
  bias vector; the harness builds the slices from the layer semantics (depthwise output channel
  `c·dm + m` is fed by `k[:, :, c, m]`), not from the implementation's reshape.
  Core Lean only; exact rationals (the tie keeps the real run in the exact float regime).
-/
import QKV.Model.Basic
namespace QKV

def posPart (x : Rat) : Rat := if 0 < x then x else 0
def negPart (x : Rat) : Rat := if x < 0 then x else 0

def sumPos (ws : List Rat) : Rat := (ws.map posPart).sum
def sumNeg (ws : List Rat) : Rat := (ws.map negPart).sum

/-- `npp`: sum of the positive weights of one output channel -/
def estNpp (ws : List Rat) : Rat := sumPos ws
/-- `nnn`: sum of the negative weights of one output channel -/
def estNnn (ws : List Rat) : Rat := sumNeg ws

/-- `n1`: the largest output — the bias is added after the scaling by the input range -/
def estN1 (ws : List Rat) (b xmin xmax : Rat) : Rat :=
  estNpp ws * posPart xmax + estNnn ws * negPart xmin + b
/-- `n0`: minus the smallest output -/
def estN0 (ws : List Rat) (b xmin xmax : Rat) : Rat :=
  - (estNnn ws * posPart xmax + estNpp ws * negPart xmin + b)

/-- the per-channel entry of `nbits` -/
def chanBound (ws : List Rat) (b xmin xmax : Rat) : Rat :=
  let n1 := estN1 ws b xmin xmax
  let n0 := estN0 ws b xmin xmax
  if n0 < n1 then n1 else n0

inductive EstResult | ok (e : Int) | indexError | overflowError
  deriving DecidableEq, Repr

/-- the channels the loop visits: every slice `i` of the last axis, paired with `b[i]` -/
def channels (slices : List (List Rat)) (bias : List Rat) : List (List Rat × Rat) :=
  slices.zip bias

def listMax (l : List Rat) : Rat := l.foldl (fun a b => if a < b then b else a) (l.headD 0)

/-- `analyze_accumulator` for one layer: `slices[i] = k[..., i]` flattened (one per output
    channel), `bias` the bias vector (zeros of length `k.shape[-1]` without bias).
    IndexError if `b[i]` runs past the bias vector (cannot occur for a built layer: the bias has
    one element per output channel).  `max(nbits) = 0` gives `log2 0 = -inf` and `int(-inf)`
    raises OverflowError (`max(nbits) < 0` is impossible, `Lemmas.Estimator.chanBound_nonneg`);
    an empty loop (no output channel) cannot occur for a built layer. -/
def analyzeAccumulator (slices : List (List Rat)) (bias : List Rat)
    (xmin xmax : Rat) : EstResult :=
  if slices.length ≤ bias.length then
    let m := listMax ((channels slices bias).map fun (ws, b) => chanBound ws b xmin xmax)
    if m ≤ 0 then .overflowError else .ok (ceilLog2Rat m)
  else .indexError

/-! ### padded layers and the range as stated (strengthening round, seed C18-10)

`(x_max > 0) * x_max` and `(x_min < 0) * x_min` CLAMP the stated range so that it contains zero
(`posPart xmax`, `negPart xmin` above).  The clamp is what makes the size valid for layers with
`padding="same"` / `"causal"`: a border output position multiplies some taps by padded zeros, i.e.
by a value OUTSIDE a stated range that excludes zero.  `PaddedPatch` is the input patch of such a
position; `estN1Endpoint` / `estN0Endpoint` / `chanBoundEndpoint` are NOT the code: they are the
formula with the interval endpoints used as stated (exact for dense / "valid" layers, see
`Props.C18.C18_estimator_endpoint_*`), kept here so that the theorems can say why the code's
clamp may not be dropped. -/

/-- the patch one output position of a (possibly padded) layer reads: every tap sits on a real
    input element inside the stated range, or on a padded zero -/
def PaddedPatch (xs : List Rat) (xmin xmax : Rat) : Prop :=
  ∀ x ∈ xs, (xmin ≤ x ∧ x ≤ xmax) ∨ x = 0

def estN1Endpoint (ws : List Rat) (b xmin xmax : Rat) : Rat :=
  estNpp ws * xmax + estNnn ws * xmin + b
def estN0Endpoint (ws : List Rat) (b xmin xmax : Rat) : Rat :=
  - (estNnn ws * xmax + estNpp ws * xmin + b)
def chanBoundEndpoint (ws : List Rat) (b xmin xmax : Rat) : Rat :=
  let n1 := estN1Endpoint ws b xmin xmax
  let n0 := estN0Endpoint ws b xmin xmax
  if n0 < n1 then n1 else n0

/-! ### `analyze_accumulator_from_sample(mode="conservative")`: the stated range is derived

      values = eval_inputs.predict(x_sample)          # inputs of the quantized layers
      for name, value in zip(layer_names, values):
        x_dict[name] = (np.amin(value), np.amax(value))
      return analyze_accumulator(model, x_dict, verbose)

  With two or more quantized layers `predict` returns a LIST of arrays (one per layer, the whole
  batch each).  With exactly ONE quantized layer it returns a single array; since the repair of
  finding C18-from-sample-single-layer (fix round R) the function wraps it into a one-element list

      if not isinstance(values, list):
        values = [values]

  so `value` is the whole batch of that layer in both cases (before the repair `zip` iterated over
  the batch axis and the range came from the FIRST SAMPLE only). -/

def listMin (l : List Rat) : Rat := l.foldl (fun a b => if b < a then b else a) (l.headD 0)

/-- the range `(np.amin, np.amax)` the function derives for one layer; `samples[s]` = the layer's
    input for sample `s`, flattened; `single` = the model has exactly one quantized layer (kept as
    an argument of the route: the result does not depend on it any more) -/
def fromSampleRange (_single : Bool) (samples : List (List Rat)) : Rat × Rat :=
  let seen := samples.flatten
  (listMin seen, listMax seen)

def analyzeFromSample (single : Bool) (samples : List (List Rat)) (slices : List (List Rat))
    (bias : List Rat) : EstResult :=
  let r := fromSampleRange single samples
  analyzeAccumulator slices bias r.1 r.2

/-- dot product of a weight slice with an input patch -/
def dot : List Rat → List Rat → Rat
  | w :: ws, x :: xs => w * x + dot ws xs
  | _, _ => 0

end QKV
