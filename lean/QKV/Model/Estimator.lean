/-
  QKV.Model.Estimator — `qkeras/estimate.py: analyze_accumulator`, as written (after the repairs
  "analyze_accumulator visits every output channel" and "... adds the bias after scaling").

      if isinstance(layer, QDepthwiseConv2D):
        k = k.reshape(k.shape[:-2] + (-1,))
      for i in range(k.shape[-1]):
        npp = np.sum(k[..., i] * (k[..., i] > 0))
        nnn = np.sum(k[..., i] * (k[..., i] < 0))
        n1 = npp * (x_max > 0) * x_max + nnn * (x_min < 0) * x_min + b[i]
        n0 = - (nnn * (x_max > 0) * x_max + npp * (x_min < 0) * x_min + b[i])
        nbits.append(n1 if n1 > n0 else n0)
      max_bits = int(np.ceil(np.log2(max(nbits))))

  `k[..., i]` is the slice of the LAST kernel axis and the loop runs over that axis: one slice
  per output channel (dense `(cin, cout)`, conv `(…, cin, cout)`, depthwise `(kh, kw, cin·dm)`
  after the reshape).  The model takes the list of per-output-channel slices (flattened) and the
  bias vector; the harness builds the slices from the layer semantics (depthwise output channel
  `c·dm + m` is fed by `k[:, :, c, m]`), not from the implementation's reshape.
  Core Lean only; exact rationals (the tie keeps the real run in the exact float regime).
-/
import QKV.Model.Basic
namespace QKV

def posPart (x : Rat) : Rat := if 0 < x then x else 0
def negPart (x : Rat) : Rat := if x < 0 then x else 0

def sumPos (ws : List Rat) : Rat := (ws.map posPart).sum
def sumNeg (ws : List Rat) : Rat := (ws.map negPart).sum

/-- `npp`: sum of the positive weights of one output channel -/
def estNpp (ws : List Rat) : Rat := sumPos ws
/-- `nnn`: sum of the negative weights of one output channel -/
def estNnn (ws : List Rat) : Rat := sumNeg ws

/-- `n1`: the largest output — the bias is added after the scaling by the input range -/
def estN1 (ws : List Rat) (b xmin xmax : Rat) : Rat :=
  estNpp ws * posPart xmax + estNnn ws * negPart xmin + b
/-- `n0`: minus the smallest output -/
def estN0 (ws : List Rat) (b xmin xmax : Rat) : Rat :=
  - (estNnn ws * posPart xmax + estNpp ws * negPart xmin + b)

/-- the per-channel entry of `nbits` -/
def chanBound (ws : List Rat) (b xmin xmax : Rat) : Rat :=
  let n1 := estN1 ws b xmin xmax
  let n0 := estN0 ws b xmin xmax
  if n0 < n1 then n1 else n0

inductive EstResult | ok (e : Int) | indexError | overflowError
  deriving DecidableEq, Repr

/-- the channels the loop visits: every slice `i` of the last axis, paired with `b[i]` -/
def channels (slices : List (List Rat)) (bias : List Rat) : List (List Rat × Rat) :=
  slices.zip bias

def listMax (l : List Rat) : Rat := l.foldl (fun a b => if a < b then b else a) (l.headD 0)

/-- `analyze_accumulator` for one layer: `slices[i] = k[..., i]` flattened (one per output
    channel), `bias` the bias vector (zeros of length `k.shape[-1]` without bias).
    IndexError if `b[i]` runs past the bias vector (cannot occur for a built layer: the bias has
    one element per output channel).  `max(nbits) = 0` gives `log2 0 = -inf` and `int(-inf)`
    raises OverflowError (`max(nbits) < 0` is impossible, `Lemmas.Estimator.chanBound_nonneg`);
    an empty loop (no output channel) cannot occur for a built layer. -/
def analyzeAccumulator (slices : List (List Rat)) (bias : List Rat)
    (xmin xmax : Rat) : EstResult :=
  if slices.length ≤ bias.length then
    let m := listMax ((channels slices bias).map fun (ws, b) => chanBound ws b xmin xmax)
    if m ≤ 0 then .overflowError else .ok (ceilLog2Rat m)
  else .indexError

/-- dot product of a weight slice with an input patch -/
def dot : List Rat → List Rat → Rat
  | w :: ws, x :: xs => w * x + dot ws xs
  | _, _ => 0

end QKV
