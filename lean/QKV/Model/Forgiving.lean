/-
  QKV.Model.Forgiving — forgiving factor and the bit-size model of AutoQKeras.

  Mirrors qkeras/autoqkeras/forgiving_metrics/forgiving_factor.py (`ForgivingFactor.delta`) and
  forgiving_bits.py (`ForgivingFactorBits._param_size`, `_act_size`, `compute_model_size`,
  `get_reference`).  Core Lean only.

  `delta` contains two logarithms.  The formula is therefore written ONCE, generically in the
  arithmetic (`deltaWith mul div …`) with the two log values as arguments (DESIGN §3.2 device 2,
  oracle input).  The theorems (Lemmas/Forgiving.lean, Props/C20.lean) instantiate it over ℝ with
  `Real.log`; the driver instantiates it over float64-rounded rationals (device 1, simulate) with
  numpy's own log values passed in.
-/
import QKV.Model.Basic
namespace QKV.Forgiving

/-- `np.where(trial < ref, delta_p * (a / b), delta_n * (a / b))` where
    `a = np.log(ref / trial)`, `b = np.log(rate)`; `lt` is the truth value of `trial < ref`. -/
def deltaWith {α : Type} (mul div : α → α → α) (lt : Bool) (δp δn a b : α) : α :=
  if lt then mul δp (div a b) else mul δn (div a b)

/-! ### IEEE-754 round-to-nearest-even to `p` significant bits (normal range) -/

def roundHalfEven (q : Rat) : Int :=
  let f := q.floor
  let r := q - (f : Rat)
  if r < 1/2 then f else if 1/2 < r then f + 1 else if f % 2 = 0 then f else f + 1

def rndP (p : Nat) (q : Rat) : Rat :=
  if q = 0 then 0
  else
    let a := if q < 0 then -q else q
    let e := floorLog2Rat a
    let s := pow2 (e - ((p : Int) - 1))
    let m := (roundHalfEven (a / s) : Rat) * s
    if q < 0 then -m else m

def rnd64 (q : Rat) : Rat := rndP 53 q

/-- float64 evaluation of `delta()`: `ref`, `trial` sizes, `δp δn` the stored float32 factors,
    `a b` the values numpy returned for the two logs -/
def deltaF (ref trial δp δn a b : Rat) : Rat :=
  deltaWith (fun x y => rnd64 (x * y)) (fun x y => rnd64 (x / y)) (decide (trial < ref)) δp δn a b

/-- the argument of the first log: float64 `reference_size / trial_size` -/
def logArg (ref trial : Rat) : Rat := rnd64 (ref / trial)

/-! ### the object: `get_reference` / `get_trial` / `delta` as a HISTORY on one `ForgivingFactorBits`

`delta()` does not take the two sizes as arguments: it reads the ATTRIBUTES `self.reference_size`
(written once by `get_reference`, which caches it: `if not hasattr(self, "reference_size")`) and
`self.trial_size` (overwritten by every `get_trial`).  The reference the search chases is the value
`get_reference` RETURNS (`AutoQKHyperModel.reference_size`, the scheduler's block cost), i.e.
`compute_model_size(model)[0] * self.stress`.  The state below is generic in the number type: the
theorems use ℝ with exact multiplication, the driver float64-rounded rationals. -/

/-- the attributes of a `ForgivingFactorBits` object that the three methods touch -/
structure FFB (α : Type) where
  /-- `self.stress` (public attribute, constructor option `stress=1.0`) -/
  stress : α
  /-- `self.reference_size`; `none` = `not hasattr(self, "reference_size")` -/
  referenceSize : Option α := none
  /-- `self.trial_size`; `none` = attribute not set yet -/
  trialSize : Option α := none
  deriving Repr, Inhabited

/-- `get_reference(model)`; `size` = `compute_model_size(model)[0]`:
    first call: `self.reference_size = size * self.stress`; every call: `return self.reference_size`. -/
def getReference {α : Type} (mul : α → α → α) (o : FFB α) (size : α) : α × FFB α :=
  match o.referenceSize with
  | some r => (r, o)
  | none => (mul size o.stress, { o with referenceSize := some (mul size o.stress) })

/-- `get_trial(model)`: `self.trial_size = size; return self.trial_size` -/
def getTrial {α : Type} (o : FFB α) (size : α) : α × FFB α :=
  (size, { o with trialSize := some size })

/-- `delta()` on the object: reads the two attributes (`none` = AttributeError); `dl ref trial` is the
    formula of `ForgivingFactor.delta` for the given attribute values -/
def deltaObj {α : Type} (dl : α → α → α) (o : FFB α) : Option α :=
  match o.referenceSize, o.trialSize with
  | some r, some t => some (dl r t)
  | _, _ => none

/-- one public operation on the object -/
inductive FEv (α : Type)
  | ref (size : α)          -- `get_reference(model)`
  | trial (size : α)        -- `get_trial(model)`
  | setStress (s : α)       -- `obj.stress = s`
  | delta (a b : α)         -- `delta()`; `a b` = numpy's two log values (oracle inputs, driver only)
  deriving Repr, Inhabited

/-- float64 instance, one step: returned value (`none` = AttributeError / nothing returned) and new state -/
def stepF (δp δn : Rat) (o : FFB Rat) : FEv Rat → Option Rat × FFB Rat
  | .ref size => let r := getReference (fun x y => rnd64 (x * y)) o size; (some r.1, r.2)
  | .trial size => let r := getTrial o size; (some r.1, r.2)
  | .setStress s => (none, { o with stress := s })
  | .delta a b => (deltaObj (fun r t => deltaF r t δp δn a b) o, o)

/-- a whole history: per event (returned value, `reference_size` attribute, `trial_size` attribute) -/
def runF (δp δn : Rat) : FFB Rat → List (FEv Rat) → List (Option Rat × Option Rat × Option Rat)
  | _, [] => []
  | o, e :: t =>
    let r := stepF δp δn o e
    (r.1, r.2.referenceSize, r.2.trialSize) :: runF δp δn r.2 t

/-! ### size model -/

/-- what the size model reads of one Keras layer -/
structure SzLayer where
  name : String
  cls : String
  /-- per entry of `layer.get_weights()`: number of elements, and `.bits` of
      `layer.get_quantizers()[i]` where the layer has such a (non-None) quantizer -/
  weights : List (Nat × Option Int) := []
  /-- `prod(layer.output.shape[1:])` -/
  outElems : Nat := 0
  /-- `layer.activation is None` (or the layer has no such attribute) -/
  actNone : Bool := false
  /-- `layer.activation` is a Python string -/
  actIsStr : Bool := false
  /-- the string itself, or `layer.activation.__name__` where the object has one -/
  actName : Option String := none
  /-- `.bits` of the activation object (of `get_quantizer(string)` for (Q)Activation strings) -/
  actBits : Option Int := none
  /-- BatchNormalization `center` / `scale` -/
  center : Bool := true
  scale : Bool := true
  deriving Repr, Inhabited

structure SzCfg where
  inputBits : Int := 8
  outputBits : Int := 8
  refBits : Int := 8
  /-- `self.config`: class name (or "default") → list of "parameters" / "activations" -/
  config : List (String × List String) := [("default", ["parameters", "activations"])]
  deriving Repr, Inhabited

def PLAIN : List String := ["Dense", "Conv2D", "Conv1D", "DepthwiseConv2D"]
def QPLAIN : List String := ["QDense", "QConv2D", "QConv1D", "QDepthwiseConv2D"]

def elemsAt (w : List (Nat × Option Int)) (i : Nat) : Int := ((w[i]?.map Prod.fst).getD 0 : Nat)

/-- `_param_size(layer)` -/
def paramSize (c : SzCfg) (L : SzLayer) : Int :=
  if L.cls ∈ PLAIN then
    (L.weights.map fun w => c.refBits * (w.1 : Int)).sum
  else if L.cls ∈ QPLAIN then
    (L.weights.map fun w => (w.2.getD c.refBits) * (w.1 : Int)).sum
  else if L.cls = "BatchNormalization" then
    c.refBits * elemsAt L.weights (L.weights.length - 1) +
      (if L.center then c.refBits * elemsAt L.weights (if L.scale then 1 else 0) else 0)
  else if L.cls = "QBatchNormalization" then
    6 * elemsAt L.weights (L.weights.length - 1) +
      (if L.center then 5 * elemsAt L.weights (if L.scale then 1 else 0) else 0)
  else 0

/-- `_act_size(layer)`; `none` = the `assert not isinstance(layer.activation, str)` fails -/
def actSize (c : SzCfg) (L : SzLayer) : Option Int :=
  let out : Int := (L.outElems : Nat)
  if L.cls = "InputLayer" then some (c.inputBits * out)
  else if L.cls ∈ PLAIN then
    if !L.actNone ∧ L.actName ≠ some "linear" then some (c.refBits * out) else some 0
  else if L.cls ∈ QPLAIN then
    if L.actNone then some 0 else
    let isSoftmax := L.actName = some "softmax"
    let isLinear := L.actName = some "linear"
    if isSoftmax then some (c.outputBits * out)
    else if isLinear then some 0
    else if L.actIsStr then none
    else some ((L.actBits.getD c.refBits) * out)
  else if L.cls = "QActivation" ∨ L.cls = "Activation" then
    if L.actName = some "linear" then some 0
    else if L.actName = some "softmax" ∨ L.actName = some "sigmoid" then some (c.outputBits * out)
    else some ((L.actBits.getD c.refBits) * out)
  else some 0

/-- `self.config.get(layer_name, self.config.get("default", None))` -/
def layerConfig (c : SzCfg) (cls : String) : Option (List String) :=
  match c.config.lookup cls with
  | some v => some v
  | none => c.config.lookup "default"

structure SizeRow where
  name : String
  parameters : Int
  activations : Int
  total : Int
  deriving DecidableEq, Repr, Inhabited

structure SizeOut where
  total : Int := 0
  pSize : Int := 0
  aSize : Int := 0
  rows : List SizeRow := []
  deriving Repr, Inhabited

def b2z (b : Bool) : Int := if b then 1 else 0

/-- `compute_model_size(model)` → (total_size, p_size, a_size, model_size_dict) -/
def computeModelSize (c : SzCfg) : List SzLayer → Option SizeOut
  | [] => some {}
  | L :: t =>
    match computeModelSize c t with
    | none => none
    | some r =>
      match layerConfig c L.cls with
      | none => some r
      | some [] => some r
      | some lc =>
        match actSize c L with
        | none => none
        | some a =>
          let p := paramSize c L
          let pw := b2z (lc.contains "parameters")
          let aw := b2z (lc.contains "activations")
          let tot := pw * p + aw * a
          some { total := r.total + tot, pSize := r.pSize + pw * p, aSize := r.aSize + aw * a,
                 rows := { name := L.name, parameters := p, activations := a, total := tot } :: r.rows }

/-! ### V20 — the object WITH its size model: `get_reference(model)` / `get_trial(model)` on MODELS

`get_reference` stores, besides `reference_size`, the per-layer statistics of the reference model
(`reference_size_dict`, `ref_p`, `ref_a`); `get_trial` stores those of the trial (`trial_size_dict`,
`total_p_bits`, `total_a_bits`).  `compute_model_size(model)` itself reads NOTHING of that state: the
rows of a trial are computed from the tensors of the trial model, whatever was measured before on
the same object (also for layers that carry the NAME of a reference layer and were left
unquantized — under filter tuning their kernels / outputs differ from the reference's). -/

/-- a `ForgivingFactorBits` object: size configuration, the three scalar attributes (`FFB`), and the
    cached statistics (`none` = attribute not set) -/
structure FFBM (α : Type) where
  cfg : SzCfg
  base : FFB α
  /-- `reference_size_dict`, `ref_p`, `ref_a` (and the un-stressed total) -/
  refStats : Option SizeOut := none
  /-- `trial_size_dict`, `total_p_bits`, `total_a_bits` -/
  trialStats : Option SizeOut := none
  deriving Repr, Inhabited

/-- `get_reference(model)`: cached → the stored value, `compute_model_size` is not even called;
    else `compute_model_size(model)` (`none` = its assertion fails, nothing is stored), then
    `reference_size = total * stress` and the statistics are kept -/
def getReferenceM {α : Type} (ofInt : Int → α) (mul : α → α → α) (o : FFBM α) (layers : List SzLayer) :
    Option (α × FFBM α) :=
  match o.base.referenceSize with
  | some r => some (r, o)
  | none =>
    match computeModelSize o.cfg layers with
    | none => none
    | some s =>
      let r := getReference mul o.base (ofInt s.total)
      some (r.1, { o with base := r.2, refStats := some s })

/-- `get_trial(model)`: `compute_model_size(model)` of THIS model; total and statistics overwrite the
    trial attributes -/
def getTrialM {α : Type} (ofInt : Int → α) (o : FFBM α) (layers : List SzLayer) : Option (α × FFBM α) :=
  match computeModelSize o.cfg layers with
  | none => none
  | some s =>
    let r := getTrial o.base (ofInt s.total)
    some (r.1, { o with base := r.2, trialStats := some s })

/-- one public operation on the object, with models as arguments -/
inductive MEv (α : Type)
  | ref (layers : List SzLayer)      -- `get_reference(model)`
  | trial (layers : List SzLayer)    -- `get_trial(model)`
  | setStress (s : α)                -- `obj.stress = s`
  deriving Repr, Inhabited

/-- one step: returned value (`none` = exception / nothing returned) and the new state -/
def stepM {α : Type} (ofInt : Int → α) (mul : α → α → α) (o : FFBM α) : MEv α → Option α × FFBM α
  | .ref ls => match getReferenceM ofInt mul o ls with
    | some r => (some r.1, r.2)
    | none => (none, o)
  | .trial ls => match getTrialM ofInt o ls with
    | some r => (some r.1, r.2)
    | none => (none, o)
  | .setStress s => (none, { o with base := { o.base with stress := s } })

/-- the state after a whole history -/
def stateM {α : Type} (ofInt : Int → α) (mul : α → α → α) (o : FFBM α) (evs : List (MEv α)) : FFBM α :=
  evs.foldl (fun o e => (stepM ofInt mul o e).2) o

/-- a whole history: per event the returned value and the state after it -/
def runM {α : Type} (ofInt : Int → α) (mul : α → α → α) : FFBM α → List (MEv α) → List (Option α × FFBM α)
  | _, [] => []
  | o, e :: t =>
    let r := stepM ofInt mul o e
    r :: runM ofInt mul r.2 t

/-! #### Keras shape inference along a chain of Dense layers (what filter tuning changes downstream)

`quantize_model` with `tune_filters` rewrites `units` of a SELECTED layer; the kernel of the NEXT
Dense layer — quantized or not — is then built as (units of the previous layer) × (its own units). -/

structure DenseSpec where
  name : String
  units : Nat
  useBias : Bool := true
  /-- `none`: the layer was left alone (class `Dense`); `some (k, b)`: `QDense` with the `.bits` of its
      kernel / bias quantizers (`none` = no quantizer on that tensor) -/
  q : Option (Option Int × Option Int) := none
  /-- `layer.activation.__name__` (unquantized) -/
  actName : String := "linear"
  /-- `.bits` of the activation quantizer of a `QDense` -/
  actBits : Option Int := none
  deriving Repr, Inhabited

/-- the size-model view of one Dense / QDense layer fed by `nIn` features -/
def denseLayer (nIn : Nat) (d : DenseSpec) : SzLayer :=
  { name := d.name,
    cls := if d.q.isSome then "QDense" else "Dense",
    weights := (nIn * d.units, d.q.bind Prod.fst) :: (if d.useBias then [(d.units, d.q.bind Prod.snd)] else []),
    outElems := d.units,
    actNone := false, actIsStr := false,
    actName := if d.actBits.isSome then none else some d.actName,
    actBits := d.actBits }

/-- `Input(nIn) → Dense → Dense → …` -/
def denseChain : Nat → List DenseSpec → List SzLayer
  | _, [] => []
  | n, d :: t => denseLayer n d :: denseChain d.units t

/-! ### `AutoQKHyperModel.adjusted_score(hyper_model, delta, metric_function)` — the value the tuner maximises

```python
def score(y_true, y_pred):
  is_binary = y_p_last_dim == 1
  is_sparse_categorical = (y_t_rank < y_p_rank or y_t_last_dim == 1 and y_p_last_dim > 1)
  if isinstance(metric_function, six.string_types):
    if metric_function in ["accuracy", "acc"]:
      binary / sparse_categorical / categorical accuracy
    else: categorical_accuracy
  else: metric = metric_function(y_true, y_pred)
  return K.cast(metric * (1.0 + delta), K.floatx())
if not metric_function: metric_function = "accuracy"     # rebinding seen by the closure
```
-/

inductive MetricKind
  | binary | sparse | categorical | custom
  deriving DecidableEq, Repr

/-- the argument forms of `metric_function` -/
inductive MetricArg
  | none                  -- `None` (or any falsy value): replaced by "accuracy"
  | str (s : String)
  | fn                    -- a callable
  deriving DecidableEq, Repr

/-- which metric `score` evaluates, from the argument and the two static shapes -/
def selectMetric (m : MetricArg) (ytRank ypRank ytLast ypLast : Int) : MetricKind :=
  let isBinary := ypLast == 1
  let isSparse := decide (ytRank < ypRank) || (ytLast == 1 && decide (ypLast > 1))
  let byShape := if isBinary then MetricKind.binary else if isSparse then .sparse else .categorical
  match m with
  | .none => byShape
  | .str s => if s == "" then byShape
              else if s == "accuracy" || s == "acc" then byShape else .categorical
  | .fn => .custom

/-- `metric * (1.0 + delta)`, generic in the arithmetic -/
def scoreWith {α : Type} (mul add : α → α → α) (one : α) (metric delta : α) : α :=
  mul metric (add one delta)

/-- the float evaluation: `1.0 + delta` in float64 (Python / numpy scalar), converted to the float32 of the
    metric tensor, float32 product (normal range) -/
def scoreF (metric delta : Rat) : Rat :=
  scoreWith (fun x y => rndP 24 (x * y)) (fun x y => rndP 24 (rnd64 (x + y))) 1 metric delta

end QKV.Forgiving
