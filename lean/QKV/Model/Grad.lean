/-
  QKV.Model.Grad — forward value and gradient of the quantizers' return expressions.

  Dual numbers `D = (val, tan)` over exact rationals with TensorFlow's gradient conventions AS
  DEFINITIONS (validated by the correspondence, not proved):
    stop_gradient: tangent 0;  round / floor / sign: tangent 0;
    clip_by_value(x, lo, hi): tangent passes iff lo ≤ x ≤ hi (inclusive);
    K.relu(x, alpha): tangent 1 for x > 0, alpha for x ≤ 0 (also AT 0);
    where(c, a, b): routes value and tangent;   + − × ÷: usual rules (quotient rule for ÷);
    abs: tangent sign(x) (0 at 0).
  Each quantizer's return expression of qkeras/quantizers.py is transcribed in this calculus.
-/
import QKV.Model.FixedQ
namespace QKV

structure D where
  val : Rat
  tan : Rat
  deriving Repr, DecidableEq, Inhabited

namespace D
def const (c : Rat) : D := ⟨c, 0⟩
def var (x : Rat) : D := ⟨x, 1⟩
def add (a b : D) : D := ⟨a.val + b.val, a.tan + b.tan⟩
def neg (a : D) : D := ⟨-a.val, -a.tan⟩
def sub (a b : D) : D := ⟨a.val - b.val, a.tan - b.tan⟩
def mul (a b : D) : D := ⟨a.val * b.val, a.val * b.tan + a.tan * b.val⟩
/-- multiplication by a constant (python scalar or stop-gradient tensor) -/
def smul (c : Rat) (a : D) : D := ⟨c * a.val, c * a.tan⟩
/-- `tf.stop_gradient` -/
def sg (a : D) : D := ⟨a.val, 0⟩
/-- `tf.round` (tie rule `t`), zero gradient -/
def round (t : Tie) (a : D) : D := ⟨(roundTie t a.val : Int), 0⟩
/-- `_round_through(x) = x + stop_gradient(-x + round(x))` -/
def roundThrough (t : Tie) (a : D) : D := add a (sg (add (neg a) (round t a)))
/-- `K.clip` / `tf.clip_by_value` -/
def clip (a : D) (lo hi : Rat) : D :=
  ⟨if a.val < lo then lo else if hi < a.val then hi else a.val,
   if lo ≤ a.val ∧ a.val ≤ hi then a.tan else 0⟩
/-- `K.relu(x, alpha=slope)` -/
def relu (a : D) (slope : Rat) : D :=
  ⟨if 0 < a.val then a.val else slope * a.val, if 0 < a.val then a.tan else slope * a.tan⟩
/-- a differentiable elementwise function given with its derivative (tanh, sigmoid) -/
def fn (f f' : Rat → Rat) (a : D) : D := ⟨f a.val, f' a.val * a.tan⟩
/-- `a / b` with a differentiable denominator (quotient rule) -/
def div (a b : D) : D := ⟨a.val / b.val, (a.tan * b.val - a.val * b.tan) / (b.val * b.val)⟩
/-- value of `tf.sign`: −1, 0, +1 -/
def sgn (v : Rat) : Rat := if v < 0 then -1 else if v = 0 then 0 else 1
/-- `tf.sign`, zero gradient -/
def sign (a : D) : D := ⟨sgn a.val, 0⟩
/-- value of `tf.abs` -/
def absv (v : Rat) : Rat := if v < 0 then -v else v
/-- `tf.abs`: gradient `sign(x)` (0 at 0) -/
def abs (a : D) : D := ⟨absv a.val, sgn a.val * a.tan⟩
/-- `tf.floor`, zero gradient -/
def floor (a : D) : D := ⟨(a.val.floor : Int), 0⟩
end D

/-- the common tail of quantized_bits / quantized_relu / quantized_po2 / quantized_relu_po2 /
    binary / ternary:
      use_ste:      `x_u + stop_gradient(qnoise_factor * (-x_u + xq))`
      otherwise:    `(1 - qnoise_factor) * x_u + stop_gradient(qnoise_factor * xq)` -/
def steMix (useSte : Bool) (qf : Rat) (xu xq : D) : D :=
  if useSte then D.add xu (D.sg (D.smul qf (D.add (D.neg xu) xq)))
  else D.add (D.smul (1 - qf) xu) (D.sg (D.smul qf xq))

/-! ### quantized_bits (constant scale) -/

/-- the fully quantized tensor `xq` of `quantized_bits`, built with the code's own ops -/
def qbitsXq (t : Tie) (c : BitsCfg) (x : D) : D :=
  if 0 < c.ub then
    let m : Rat := (twoPow c.ub : Rat)
    let mi : Rat := pow2 c.integer
    let p := D.smul (m / mi) x
    let r := D.roundThrough t p
    let cl := D.clip r (c.lo : Rat) (c.hi : Rat)
    D.smul c.gain (D.smul (mi / m) cl)
  else
    -- sign path: tf.sign has zero gradient
    D.const (c.gain * (if c.keepNeg then signPM x.val else (signPM x.val + 1) / 2))

def qbitsD (t : Tie) (c : BitsCfg) (useSte : Bool) (qf : Rat) (x : D) : D :=
  steMix useSte qf x (qbitsXq t c x)

/-! ### quantized_bits with a data-dependent scale (`alpha in ("auto", "auto_po2")`, also the
    `post_training_scale` / `freeze_scale` route).  The branch of `quantized_bits.__call__`:

      x = x / m_i                                   -- normalise for the scale search
      scale = <search over x>  |  self.scale / m    -- differentiable in x (K.max), NOT stopped here
      v = tf.floor(tf.abs(x) / scale + 0.5)
      z = tf.sign(x) * tf.where(v < levels / 2, v, levels / 2)
      scale = scale * m
      x = m_i * x                                   -- restore
      xq = m_i * z / m ; xq = scale * xq
      return steMix(use_ste, qnoise_factor, x, xq)

    `symmetric` is forced to True by the constructor for a string alpha, so
    `levels / 2 = 2^(bits-1) - 1`; `keep_negative` only enters through `m` (which cancels).
    The scale search is a PARAMETER `scaleOf : D → D` (any function of the normalised input,
    with any tangent): the theorems hold for all of them. -/

structure AutoCfg where
  bits : Int
  integer : Int
  keepNeg : Bool
  deriving Repr, DecidableEq

def AutoCfg.ub (c : AutoCfg) : Int := c.bits - (if c.keepNeg then 1 else 0)
/-- `levels / 2` (symmetric): the largest code magnitude -/
def AutoCfg.half (c : AutoCfg) : Rat := (twoPow (c.bits - 1) : Rat) - 1

/-- the fully quantized tensor of the branch, from the normalised input `xn` and the (un-multiplied)
    scale -/
def qbitsAutoXq (c : AutoCfg) (scale xn : D) : D :=
  let m : Rat := (twoPow c.ub : Rat)
  let mi : Rat := pow2 c.integer
  let v := D.floor (D.add (D.div (D.abs xn) scale) (D.const (1/2)))
  let z := D.mul (D.sign xn) (if v.val < c.half then v else D.const c.half)
  let scaleM := D.smul m scale                       -- scale = scale * m
  D.mul scaleM (D.smul (1 / m) (D.smul mi z))        -- scale * (m_i * z / m)

def qbitsAutoD (c : AutoCfg) (useSte : Bool) (qf : Rat) (scaleOf : D → D) (x : D) : D :=
  let mi : Rat := pow2 c.integer
  let xn := D.smul (1 / mi) x                        -- x = x / m_i
  let xr := D.smul mi xn                             -- x = m_i * x
  steMix useSte qf xr (qbitsAutoXq c (scaleOf xn) xn)

/-- the same branch WITHOUT the restore `x = m_i * x` (the carrier stays `x / m_i`): not the code —
    kept to state what the bookkeeping is for (`C06_bits_auto_unrestored_tan`) -/
def qbitsAutoUnrestoredD (c : AutoCfg) (useSte : Bool) (qf : Rat) (scaleOf : D → D) (x : D) : D :=
  let xn := D.smul (1 / pow2 c.integer) x
  steMix useSte qf xn (qbitsAutoXq c (scaleOf xn) xn)

/-- closed form of the quantized value for the scale `s` of the normalised tensor:
    `s·2^integer · sign(x) · min(⌊|x| / (s·2^integer) + 1/2⌋, levels/2)` -/
def qbitsAutoVal (c : AutoCfg) (s x : Rat) : Rat :=
  let e : Rat := s * pow2 c.integer
  let v : Rat := ((D.absv x / e + 1/2).floor : Int)
  e * (D.sgn x * (if v < c.half then v else c.half))

/-! ### quantized_relu -/

structure ReluOpts where
  isQuantizedClip : Bool := true
  upper : Option Rat := none          -- relu_upper_bound
  deriving Repr, DecidableEq

/-- `x_u`: the unquantized surrogate (leaky, optionally bounded ReLU) -/
def reluXu (c : ReluCfg) (o : ReluOpts) (x : D) : D :=
  if o.isQuantizedClip then
    let b : Rat := pow2 c.integer - pow2 (c.integer - c.nsb)      -- m_i - m_f
    if x.val ≤ b then D.relu x c.slope else D.const b
  else match o.upper with
    | some u => if x.val ≤ u then D.relu x c.slope else D.const u
    | none => D.relu x c.slope

/-- `quantized_relu(...)(x)` for a given fully-quantized tensor `xq` -/
def qreluD (c : ReluCfg) (o : ReluOpts) (useSte : Bool) (qf : Rat) (x xq : D) : D :=
  steMix useSte qf (reluXu c o x) xq

/-! ### quantized_linear: `x + qnoise_factor * (xq - x)`, xq = (round_through(clip(x/qs) - shift) + shift) * qs -/

def qlinearD (t : Tie) (c : LinCfg) (qf : Rat) (x : D) : D :=
  let s := D.smul (1 / c.qs) x
  let (lo, hi, shift) : Rat × Rat × Rat :=
    if c.signFn then (-1/2, 1/2, 1/2) else ((c.lo : Rat), (c.hi : Rat), 0)
  let cl := D.clip s lo hi
  let r := D.roundThrough t (D.add cl (D.const (-shift)))
  let xq := D.smul c.qs (D.add r (D.const shift))
  D.add x (D.smul qf (D.sub xq x))

/-- `quantized_linear` for an arbitrary quantization scale `qs` (data-dependent for
    alpha = 'auto' / 'auto_po2'): `_get_auto_quantization_scale` returns
    `tf.stop_gradient(quantization_scale)`, then `x / qs`, clip, round-through, `* qs`. -/
def qlinearSD (t : Tie) (c : LinCfg) (qs : D) (qf : Rat) (x : D) : D :=
  let q := D.sg qs
  let s := D.div x q
  let (lo, hi, shift) : Rat × Rat × Rat :=
    if c.signFn then (-1/2, 1/2, 1/2) else ((c.lo : Rat), (c.hi : Rat), 0)
  let cl := D.clip s lo hi
  let r := D.roundThrough t (D.add cl (D.const (-shift)))
  let xq := D.mul (D.add r (D.const shift)) q
  D.add x (D.smul qf (D.sub xq x))

/-! ### quantized_tanh / quantized_sigmoid: `clip(round_through(p * m) / m, lo, hi)` — no STE wrapper -/

/-- hard sigmoid `clip(0.5 x + 0.5, 0, 1)` as a dual number -/
def hardSigmoidD (x : D) : D := D.clip (D.add (D.smul (1/2) x) (D.const (1/2))) 0 1

def qtanhD (t : Tie) (bits : Int) (symmetric : Bool) (p : D) : D :=
  let m : Rat := (twoPow (bits - 1) : Rat)
  D.clip (D.smul (1 / m) (D.roundThrough t (D.smul m p)))
    (-1 + (if symmetric then 1 else 0) / m) (1 - 1 / m)

def qsigmoidD (t : Tie) (bits : Int) (symmetric : Bool) (p : D) : D :=
  let m : Rat := (twoPow bits : Rat)
  D.clip (D.smul (1 / m) (D.roundThrough t (D.smul m p))) ((if symmetric then 1 else 0) / m) (1 - 1 / m)

/-- default `quantized_tanh`: p = 2·hard_sigmoid(x) − 1 -/
def qtanhHardD (t : Tie) (bits : Int) (symmetric : Bool) (x : D) : D :=
  qtanhD t bits symmetric (D.add (D.smul 2 (hardSigmoidD x)) (D.const (-1)))
def qsigmoidHardD (t : Tie) (bits : Int) (symmetric : Bool) (x : D) : D :=
  qsigmoidD t bits symmetric (hardSigmoidD x)

/-! ### power-of-two, binary, ternary: only the surrogate `x_u` matters for the gradient -/

/-- `quantized_po2`: x_u = x -/
def qpo2D (useSte : Bool) (qf : Rat) (x xq : D) : D := steMix useSte qf x xq

/-- `quantized_relu_po2`: x_u = relu(x, slope), or `where(x ≤ max_value, relu(x, slope), max_value)` -/
def reluPo2Xu (slope : Rat) (maxValue : Option Rat) (x : D) : D :=
  match maxValue with
  | none => D.relu x slope
  | some mv => if x.val ≤ mv then D.relu x slope else D.const mv

def qreluPo2D (slope : Rat) (maxValue : Option Rat) (useSte : Bool) (qf : Rat) (x xq : D) : D :=
  steMix useSte qf (reluPo2Xu slope maxValue x) xq

/-- `binary` / `ternary`: `x' + stop_gradient(-x' + scale*code)` with x' = tanh(x) when alpha is
    None and x' = x otherwise (constant, 'auto', 'auto_po2').  `th`/`th'` = tanh and its derivative
    (oracle parameters). -/
def binTerD (alphaNone : Bool) (th th' : Rat → Rat) (x xq : D) : D :=
  steMix true 1 (if alphaNone then D.fn th th' x else x) xq

/-! ### stochastic rounding inside `_round_through`

    ```
    def _round_through(x, use_stochastic_rounding=False, precision=0.5):
      if use_stochastic_rounding:
        output = smart_cond(K.learning_phase(),
            lambda: x + tf.stop_gradient(-x + stochastic_round(x, precision)),
            lambda: x + tf.stop_gradient(-x + tf.round(x)))
      else:
        output = x + tf.stop_gradient(-x + tf.round(x))
    ```
    The learning phase is a process-level switch (`K.set_learning_phase`); the element of
    `tf.random.uniform` used by `stochastic_round` is the explicit argument `u`. -/

structure Rnd where
  stoch : Bool := false        -- use_stochastic_rounding
  phase : Bool := false        -- K.learning_phase()
  precision : Rat := 1         -- every class passes precision=1.0 (binary: 0.125, ternary: 1/3)
  u : Rat := 0                 -- the uniform draw of this element (read only when stoch ∧ phase)
  deriving Repr, DecidableEq, Inhabited

namespace D
/-- value of `tf.math.ceil` -/
def ceilv (v : Rat) : Rat := -(((-v).floor : Int) : Rat)
/-- value of `stochastic_round(x, precision)`:
    `scale = 1/precision; sx = x*scale; fraction = sx - floor(sx)`
    `where(fraction < uniform, floor(sx), ceil(sx)) / scale` -/
def stochRoundV (precision u v : Rat) : Rat :=
  let scale : Rat := 1 / precision
  let sx : Rat := v * scale
  let fl : Rat := ((sx.floor : Int) : Rat)
  (if sx - fl < u then fl else ceilv sx) / scale
/-- `stochastic_round`: floor / ceil have zero gradient and `tf.where` only routes -/
def stochRound (precision u : Rat) (a : D) : D := ⟨stochRoundV precision u a.val, 0⟩
/-- `_round_through(x, use_stochastic_rounding, precision)` in the learning phase `r.phase` -/
def roundThroughS (t : Tie) (r : Rnd) (a : D) : D :=
  if r.stoch then
    (if r.phase then add a (sg (add (neg a) (stochRound r.precision r.u a)))
     else add a (sg (add (neg a) (round t a))))
  else add a (sg (add (neg a) (round t a)))
end D

/-- a rounding step is STRAIGHT-THROUGH when it passes the tangent of its argument unchanged -/
def StraightThrough (rt : D → D) : Prop := ∀ a : D, (rt a).tan = a.tan

/-! The quantizers whose gradient flows THROUGH `_round_through` (no outer stop_gradient):
    quantized_linear, quantized_tanh, quantized_sigmoid — transcribed for an arbitrary rounding step
    `rt` (the instances: `D.roundThrough t`, `D.roundThroughS t r`; `D.round t` = the residual
    dropped). -/

def qlinearRD (rt : D → D) (c : LinCfg) (qs : D) (qf : Rat) (x : D) : D :=
  let q := D.sg qs
  let s := D.div x q
  let (lo, hi, shift) : Rat × Rat × Rat :=
    if c.signFn then (-1/2, 1/2, 1/2) else ((c.lo : Rat), (c.hi : Rat), 0)
  let cl := D.clip s lo hi
  let r := rt (D.add cl (D.const (-shift)))
  let xq := D.mul (D.add r (D.const shift)) q
  D.add x (D.smul qf (D.sub xq x))

def qtanhRD (rt : D → D) (bits : Int) (symmetric : Bool) (p : D) : D :=
  let m : Rat := (twoPow (bits - 1) : Rat)
  D.clip (D.smul (1 / m) (rt (D.smul m p)))
    (-1 + (if symmetric then 1 else 0) / m) (1 - 1 / m)

def qsigmoidRD (rt : D → D) (bits : Int) (symmetric : Bool) (p : D) : D :=
  let m : Rat := (twoPow bits : Rat)
  D.clip (D.smul (1 / m) (rt (D.smul m p))) ((if symmetric then 1 else 0) / m) (1 - 1 / m)

/-- `quantized_bits` (constant scale) for an arbitrary rounding step: the whole `xq` sits under the
    outer stop_gradient of the return expression -/
def qbitsXqR (rt : D → D) (c : BitsCfg) (x : D) : D :=
  if 0 < c.ub then
    let m : Rat := (twoPow c.ub : Rat)
    let mi : Rat := pow2 c.integer
    let p := D.smul (m / mi) x
    let r := rt p
    let cl := D.clip r (c.lo : Rat) (c.hi : Rat)
    D.smul c.gain (D.smul (mi / m) cl)
  else
    D.const (c.gain * (if c.keepNeg then signPM x.val else (signPM x.val + 1) / 2))

def qbitsRD (rt : D → D) (c : BitsCfg) (useSte : Bool) (qf : Rat) (x : D) : D :=
  steMix useSte qf x (qbitsXqR rt c x)

/-! ### the ReLU family for an arbitrary `negative_slope`

    Both constructors accept every power of two (`assert np.mod(np.log2(negative_slope), 1) == 0`):
    2^-k, 1, 2, 4, …  `reluPo2Xu` (above) is the surrogate `where(x <= bound, K.relu(x, slope), bound)`
    for ANY rational slope; quantized_relu's bound is `m_i - m_f` (is_quantized_clip) or
    `relu_upper_bound`. -/

def reluBound (integer nsb : Int) (o : ReluOpts) : Option Rat :=
  if o.isQuantizedClip then some (pow2 integer - pow2 (integer - nsb)) else o.upper

/-- `quantized_relu` with `negative_slope = slope` (any value), `non_sign_bits = nsb` -/
def qreluGD (slope : Rat) (integer nsb : Int) (o : ReluOpts) (useSte : Bool) (qf : Rat) (x xq : D) : D :=
  steMix useSte qf (reluPo2Xu slope (reluBound integer nsb o) x) xq

/-- the documented surrogate of the ReLU family as a plain function -/
def leakyBounded (slope : Rat) (bound : Option Rat) (x : Rat) : Rat :=
  match bound with
  | some b => if x ≤ b then (if 0 < x then x else slope * x) else b
  | none => if 0 < x then x else slope * x

/-- … and its derivative (`K.relu` convention: `slope` AT 0; 0 above the bound) -/
def leakyBoundedSlope (slope : Rat) (bound : Option Rat) (x : Rat) : Rat :=
  match bound with
  | some b => if x ≤ b then (if 0 < x then 1 else slope) else 0
  | none => if 0 < x then 1 else slope

/-- `tf.maximum(slope * x, x)` — NOT the code: the "plain tf ops" form of the leaky ReLU, which is the
    leaky ReLU only for `slope ≤ 1` (`C06_leaky_max_form_iff`).  Gradient convention of
    `tf.maximum(a, b)`: to `a` where `a ≥ b`, else to `b`. -/
def leakyMaxForm (slope : Rat) (x : D) : D :=
  let a := D.smul slope x
  if x.val ≤ a.val then a else x

/-! ### binary(use_stochastic_rounding=True), training branch

    ```
    m = K.max(tf.abs(x), axis=axis, keepdims=True)
    m = tf.where(m > 1.0, tf.ones_like(m), m)
    f = tf.stop_gradient(2 * m)                           # repaired by 7f3e140 (was: f = 2 * m)
    f = tf.where(f > 0.0, f, tf.ones_like(f))             # added by c0623bb (an all-zero group: x / 0 = NaN)
    x = smart_cond(K.learning_phase(),
        lambda: f * _round_through(x / f, use_stochastic_rounding=True, precision=0.125),
        lambda: x)
    …
    if self.alpha is None: x = K.tanh(x)
    return x + tf.stop_gradient(-x + self.scale * k_sign)
    ```
    `2 * m` is differentiable in the arg-max element of the scale group (when `max|x| ≤ 1`): it enters as
    an arbitrary dual number `f` and the code's `tf.stop_gradient` is applied to it HERE, so the theorems
    hold for every tangent `f` may carry. -/

def binSRRnd (u : Rat) : Rnd := { stoch := true, phase := true, precision := 1/8, u := u }

/-- the normaliser as the code builds it from `2 * m`: stopped, and 1 for a group of zeros -/
def binSRNorm (f : D) : D :=
  -- f = tf.stop_gradient(2 * m); f = tf.where(f > 0.0, f, tf.ones_like(f))   (stop_gradient keeps the value)
  if 0 < f.val then D.sg f else D.const 1

def binSRTrainX (t : Tie) (f : D) (u : Rat) (x : D) : D :=
  let g := binSRNorm f
  D.mul g (D.roundThroughS t (binSRRnd u) (D.div x g))

/-- the training carrier with the stop_gradient but WITHOUT the fall-back for a group of zeros (the code
    between 7f3e140 and c0623bb) — NOT the code: in exact arithmetic `x / 0` is Lean's total division (0), in
    float32 it is NaN; either way the carrier is not straight-through there (`C06_binary_sr_zero_group_*`) -/
def binSRTrainXNoFallback (t : Tie) (f : D) (u : Rat) (x : D) : D :=
  D.mul (D.sg f) (D.roundThroughS t (binSRRnd u) (D.div x (D.sg f)))

/-- the expression BEFORE the repair (`f = 2 * m`, not stopped) — NOT the code any more: kept to state
    what the stop_gradient is for (`C06_binary_sr_unstopped_tan`) and for the regression witness -/
def binSRTrainXUnstopped (t : Tie) (f : D) (u : Rat) (x : D) : D :=
  D.mul f (D.roundThroughS t (binSRRnd u) (D.div x f))

/-- `binary(use_stochastic_rounding=True).__call__`: the carrier is the rounded tensor in training
    (`trainX` = the training branch), `x` itself otherwise; `tanh` of the CARRIER when alpha is None -/
def binSRWith (trainX : D → D) (phase alphaNone : Bool) (th th' : Rat → Rat) (x xq : D) : D :=
  let xr := if phase then trainX x else x
  steMix true 1 (if alphaNone then D.fn th th' xr else xr) xq

def binSRD (t : Tie) (phase alphaNone : Bool) (th th' : Rat → Rat) (f : D) (u : Rat) (x xq : D) : D :=
  binSRWith (binSRTrainX t f u) phase alphaNone th th' x xq

/-- the whole call with the un-stopped normaliser (pre-repair) -/
def binSRUnstoppedD (t : Tie) (phase alphaNone : Bool) (th th' : Rat → Rat) (f : D) (u : Rat) (x xq : D) : D :=
  binSRWith (binSRTrainXUnstopped t f u) phase alphaNone th th' x xq

/-! ### one quantizer OBJECT over a history (strengthening round, seed C06-7)

    Every `__call__` of the classes transcribed above reads its options from `self` AT CALL TIME
    (`if self.alpha is None: x = K.tanh(x)`, `if self.use_ste:`, `self.qnoise_factor`, …) and the options
    are plain mutable attributes: `q.alpha = …`, `q.use_ste = …`, `update_qnoise_factor`, and
    `_set_trainable_parameter()` (called by every QDense / QConv* / QDepthwise* / QSeparable* layer on its
    kernel quantizer: `if self.alpha is None: self.alpha = "auto_po2"`).  An object is therefore its CURRENT
    attributes `A`; a history is a list of attribute updates (arbitrary functions `A → A`) and calls; the
    (value, gradient) a call emits is `f attrs input` for the attributes in force at that moment.  `HObj` is
    that object for ANY attribute type and any transcription `f`; `HFrozen` is the same object with the
    attributes `__call__` uses captured at construction (what hoisting a `self.…`-dependent choice into
    `__init__` does — the seed). -/

inductive HOp (A I : Type) where
  | set (g : A → A)      -- an attribute assignment / setter / `_set_trainable_parameter()`
  | call (i : I)         -- `q(x)` under a tape

structure HObj (A : Type) where
  attrs : A
  outs : List D := []

def HObj.new {A : Type} (a : A) : HObj A := { attrs := a, outs := [] }

def HObj.step {A I : Type} (f : A → I → D) (o : HObj A) : HOp A I → HObj A
  | .set g => { o with attrs := g o.attrs }
  | .call i => { o with outs := o.outs ++ [f o.attrs i] }

def HObj.run {A I : Type} (f : A → I → D) (o : HObj A) (ops : List (HOp A I)) : HObj A :=
  ops.foldl (HObj.step f) o

/-- what an operation does to the attributes (calls change none) -/
def HOp.apply {A I : Type} (a : A) : HOp A I → A
  | .set g => g a
  | .call _ => a

/-- the mutated object: `captured` = the attributes as they were at construction; calls use THEM -/
structure HFrozen (A : Type) where
  attrs : A
  captured : A
  outs : List D := []

def HFrozen.new {A : Type} (a : A) : HFrozen A := { attrs := a, captured := a, outs := [] }

def HFrozen.step {A I : Type} (f : A → I → D) (o : HFrozen A) : HOp A I → HFrozen A
  | .set g => { o with attrs := g o.attrs }
  | .call i => { o with outs := o.outs ++ [f o.captured i] }

def HFrozen.run {A I : Type} (f : A → I → D) (o : HFrozen A) (ops : List (HOp A I)) : HFrozen A :=
  ops.foldl (HFrozen.step f) o

/-- the `alpha` attribute of binary / ternary / stochastic_binary / stochastic_ternary -/
inductive BTAlpha where
  | none                  -- alpha=None: codes ±1, surrogate tanh
  | const (c : Rat)       -- a number / ndarray: codes ±c, identity surrogate
  | auto                  -- "auto"
  | autoPo2               -- "auto_po2"
  deriving DecidableEq, Repr, Inhabited

def BTAlpha.isNone : BTAlpha → Bool
  | .none => true
  | _ => false

/-- `_set_trainable_parameter()`: `if self.alpha is None: self.alpha = "auto_po2"` -/
def BTAlpha.setTrainable : BTAlpha → BTAlpha
  | .none => .autoPo2
  | a => a

/-- input of one call: the point and the `scale * code` tensor the implementation emitted (oracle) -/
structure BTIn where
  x : D
  xq : D

/-- `binary.__call__` / `ternary.__call__` tail on an object: the surrogate is chosen by the CURRENT alpha -/
def btCall (th th' : Rat → Rat) (a : BTAlpha) (i : BTIn) : D := binTerD a.isNone th th' i.x i.xq

/-- attributes of the straight-through classes (quantized_bits / _po2: `xu = x`; the ReLU family: `xu` the
    leaky / bounded ReLU): `use_ste`, `qnoise_factor` -/
structure SteAttrs where
  useSte : Bool
  qf : Rat

structure SteIn where
  xu : D
  xq : D

def steCall (a : SteAttrs) (i : SteIn) : D := steMix a.useSte a.qf i.xu i.xq

end QKV
