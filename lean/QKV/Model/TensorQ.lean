/-
  QKV.Model.TensorQ — row-major tensors and the grouping helpers of qkeras/quantizers.py that decide
  WHICH elements share one data-dependent scale (DESIGN.md §3.3).  Core Lean only.

  A tensor is `shape : List Nat` plus flat row-major `data : List Rat`.  The helpers are mirrored
  function for function, with the Python name in the comment:
    _normalize_scale_axis, _get_scaling_axis, _validate_axis_and_eps, _get_unrolled_shape, _get_rolled_back_shape,
    _repeat_along_axes, _get_scale_mean (index level).
  `tf.reshape` is the identity on flat data, i.e. `unravel newShape ∘ ravel oldShape` on indices;
  a `keepdims` reduction over an axis set sends an index to the index with those axes zeroed;
  `tf.repeat(.., r, axis=a)` reads its input at `idx[a] / r`; broadcasting reads a size-1 axis at 0.
  For every element two keys are computed:
    * producer key — the cell of the reduced tensor its value is accumulated into,
    * consumer key — the cell of the reduced tensor its scale is read from (after roll-back,
      repeat and broadcast).
  "Scale over the wrong axis" = the two keys of an element differ, or the key ignores the wrong axes.
-/
import QKV.Model.Basic
namespace QKV.Tn

/-- product of the dimensions -/
def prodL : List Nat → Nat
  | [] => 1
  | d :: ds => d * prodL ds

/-- flat row-major index → multi-index -/
def unravel : List Nat → Nat → List Nat
  | [], _ => []
  | _ :: ds, i => (i / prodL ds) :: unravel ds (i % prodL ds)

/-- multi-index → flat row-major index -/
def ravel : List Nat → List Nat → Nat
  | _ :: ds, i :: is => i * prodL ds + ravel ds is
  | _, _ => 0

/-- `scale_axis`: None / int / list of ints -/
inductive AxisSpec
  | none
  | one (a : Nat)
  | many (l : List Nat)
  deriving Repr, DecidableEq

/-- `elements_per_scale`: None / int / list of ints -/
inductive EpsSpec
  | none
  | one (e : Nat)
  | many (l : List Nat)
  deriving Repr, DecidableEq

/-- `_get_scaling_axis(scale_axis, len_axis)`: the axes that are REDUCED.
    list → every axis not listed; int a → `range(a) ++ range(a+1, len)`;
    None → all but the last axis (channels_last) or all but the first (channels_first). -/
def scalingAxis (chLast : Bool) (sa : AxisSpec) (len : Nat) : List Nat :=
  match sa with
  | .many l => (List.range len).filter (fun i => !(l.contains i))
  | .one a => List.range a ++ (List.range len).filter (fun i => decide (a + 1 ≤ i))
  | .none =>
    if chLast then List.range (len - 1)             -- tf.range(max(len_axis - 1, 0))
    else (List.range len).filter (fun i => decide (1 ≤ i))   -- tf.range(1, len_axis)

/-- error kinds of the helpers (the enum shared with the harness) -/
inductive Err | assert | valueError
  deriving Repr, DecidableEq

/-- `scale_axis` as Python hands it over: the ints may be negative -/
inductive AxisArg
  | none
  | one (a : Int)
  | many (l : List Int)
  deriving Repr, DecidableEq

/-- `_normalize_scale_axis(scale_axis, len_axis)` on one axis: a negative axis is counted from the end
    (`a + len_axis`, the numpy / TF convention); non-negative axes pass untouched -/
def normAxis (len : Nat) (a : Int) : Int := if a < 0 then a + (len : Int) else a

/-- every axis, once normalised, is a non-negative index (i.e. no axis below `-len`) -/
def AxisArg.inRange (len : Nat) : AxisArg → Bool
  | .none => true
  | .one a => decide (0 ≤ normAxis len a)
  | .many l => l.all fun a => decide (0 ≤ normAxis len a)

/-- what `_get_scaling_axis` / `_get_scale_mean` make of the axes Python hands over for a tensor of rank
    `len` (since the fix `negative scale_axis is counted from the end`): every negative axis is first
    replaced by `axis + len`.  An axis that is STILL negative (below `-len`, not a valid axis of the tensor)
    behaves as before: the int reaches `tf.range(negative)` which raises, the list entry never equals an
    `i in range(len_axis)` and is ignored. -/
def axisOfArg (len : Nat) : AxisArg → Except Err AxisSpec
  | .none => .ok .none
  | .one a => if normAxis len a < 0 then .error .valueError else .ok (.one (normAxis len a).toNat)
  | .many l => .ok (.many (l.filterMap fun a =>
      if normAxis len a < 0 then Option.none else some (normAxis len a).toNat))

/-- Python's order on the tuples `(axis, elements_per_scale)` (lexicographic), as `sorted(zip(..))` uses it -/
def pairLe (p q : Nat × Nat) : Bool := decide (p.1 < q.1) || (decide (p.1 = q.1) && decide (p.2 ≤ q.2))

/-- insert one pair into an ascending list of pairs -/
def insertPair (p : Nat × Nat) : List (Nat × Nat) → List (Nat × Nat)
  | [] => [p]
  | q :: qs => if pairLe p q then p :: q :: qs else q :: insertPair p qs

/-- `sorted(zip(scale_axis, elements_per_scale))`: the (axis, elements) pairs in ascending order of the axes
    (since the fix `the order of a scale_axis list is free`; a sorted list is unique, so HOW Python sorts does
    not matter) -/
def sortPairs : List (Nat × Nat) → List (Nat × Nat)
  | [] => []
  | p :: ps => insertPair p (sortPairs ps)

/-- `_validate_axis_and_eps(x_shape, scale_axis, elements_per_scale)` (elements_per_scale not None).
    Since the fix the list forms return the pairs sorted by axis: `_get_unrolled_shape` /
    `_get_rolled_back_shape` shift every later axis by one per axis handled, i.e. need ascending axes, and the
    grouping is a SET of (axis, elements) pairs. -/
def validateAxisEps (shape : List Nat) (sa : AxisSpec) (eps : EpsSpec) : Except Err (List Nat × List Nat × Bool) :=
  -- result: (axes, factors, wasInt) — `wasInt` = both were ints (the int forms of the later helpers)
  let sorted (l es : List Nat) : Except Err (List Nat × List Nat × Bool) :=
    let ps := sortPairs (l.zip es)
    .ok (ps.map (·.1), ps.map (·.2), false)
  match sa, eps with
  | .none, _ => .error .assert                       -- "scale_axis must be set if elements_per_scale is used."
  | .one a, .one e => if shape.getD a 0 % e = 0 then .ok ([a], [e], true) else .error .assert
  | .one _, .many _ => .error .valueError            -- "... which is ambigious."
  | .many l, .one e =>
    if l.all (fun a => shape.getD a 0 % e = 0) then sorted l (List.replicate l.length e) else .error .assert
  | .many l, .many es =>
    if l.length ≠ es.length then .error .assert
    else if (l.zip es).all (fun p => shape.getD p.1 0 % p.2 = 0) then sorted l es else .error .assert
  | _, .none => .error .assert                       -- not reachable from _get_scale_mean

/-- `_unroll_one_axis(shape, factor, axis)`: `shape[axis] //= factor; shape.insert(axis + 1, factor)` -/
def unrollOne (shape : List Nat) (factor axis : Nat) : List Nat :=
  let s := shape.set axis (shape.getD axis 0 / factor)
  s.take (axis + 1) ++ factor :: s.drop (axis + 1)

/-- the list branch of `_get_unrolled_shape`: every axis is shifted by the number of axes already
    inserted (the code adds `axis_shift` in list order, whatever the order of the list — right for ascending
    axes only, which is what `_validate_axis_and_eps` hands over since the fix) -/
def unrollMany : List Nat → List Nat → List Nat → Nat → List Nat × List Nat
  | shape, a :: as, f :: fs, shift =>
    let r := unrollMany (unrollOne shape f (a + shift)) as fs (shift + 1)
    (r.1, (a + shift) :: r.2)
  | shape, _, _, _ => (shape, [])

/-- `_get_unrolled_shape(input_shape, unroll_factor, unroll_axis)` → (unrolled shape, unrolled scale axes) -/
def unrolledShape (shape axes factors : List Nat) : List Nat × List Nat := unrollMany shape axes factors 0

/-- `_roll_back_one_axis(shape, axis)`: `shape[axis] *= shape[axis+1]; shape.pop(axis + 1)` -/
def rollBackOne (shape : List Nat) (axis : Nat) : List Nat :=
  (shape.set axis (shape.getD axis 0 * shape.getD (axis + 1) 0)).eraseIdx (axis + 1)

/-- list branch of `_get_rolled_back_shape`: `axis + axis_shift`, the shift decreasing by one per axis -/
def rollBackMany : List Nat → List Nat → Nat → List Nat
  | shape, a :: as, shift => rollBackMany (rollBackOne shape (a - shift)) as (shift + 1)
  | shape, [], _ => shape

/-- `_get_rolled_back_shape(input_shape, roll_axis)` -/
def rolledBackShape (shape rollAxes : List Nat) : List Nat := rollBackMany shape rollAxes 0

/-- the shape of a `keepdims=True` reduction over `axes` -/
def keepShape (shape axes : List Nat) : List Nat :=
  (List.range shape.length).map fun d => if axes.contains d then 1 else shape.getD d 0

/-- index of the cell a `keepdims=True` reduction over `axes` accumulates `idx` into -/
def zeroAxes (axes idx : List Nat) : List Nat :=
  (List.range idx.length).map fun d => if axes.contains d then 0 else idx.getD d 0

/-- broadcasting a tensor of shape `small` (same rank) against an index: size-1 axes are read at 0 -/
def bcastIdx (small idx : List Nat) : List Nat :=
  (List.range idx.length).map fun d => if small.getD d 1 = 1 then 0 else idx.getD d 0

/-- `_repeat_along_axes(x, axis, repeats)` read backwards: the source index of output index `idx` -/
def unrepeat : List Nat → List Nat → List Nat → List Nat
  | a :: as, r :: rs, idx => unrepeat as rs (idx.set a (idx.getD a 0 / r))
  | _, _, idx => idx

/-- shape after `_repeat_along_axes` -/
def repeatShape : List Nat → List Nat → List Nat → List Nat
  | a :: as, r :: rs, shape => repeatShape as rs (shape.set a (shape.getD a 0 * r))
  | _, _, shape => shape

/-- grouping configuration of one `_get_least_squares_scale` / `_get_scale_mean` call -/
structure Grp where
  chLast : Bool          -- K.image_data_format() == "channels_last"
  sa : AxisSpec          -- scale_axis
  eps : EpsSpec          -- elements_per_scale
  deriving Repr, DecidableEq

/-- producer / consumer keys of every flat position, as `_get_least_squares_scale` with
    `per_channel_scale=True` forms them:
      rank ≤ 1                → no reduction at all (`qx = x * q`): the key is the position itself;
      elements_per_scale None → reduce over `_get_scaling_axis(scale_axis, rank)`, keepdims, broadcast;
      otherwise               → validate, unroll (reshape), reduce over
                                `_get_scaling_axis(unrolled_scale_axis, unrolled rank)`, roll back
                                (reshape), repeat along the ORIGINAL scale axes, broadcast. -/
def keys (g : Grp) (shape : List Nat) : Except Err (List (List Nat) × List (List Nat)) :=
  let n := prodL shape
  let pos := List.range n
  if shape.length ≤ 1 then .ok (pos.map (fun i => [i]), pos.map (fun i => [i]))
  else
    match g.eps with
    | .none =>
      let axes := scalingAxis g.chLast g.sa shape.length
      let ks := keepShape shape axes
      .ok (pos.map (fun j => zeroAxes axes (unravel shape j)),
           pos.map (fun i => bcastIdx ks (unravel shape i)))
    | eps =>
      match validateAxisEps shape g.sa eps with
      | .error e => .error e
      | .ok (axes, factors, wasInt) =>
        let (ush, uaxes) := unrolledShape shape axes factors
        -- `_get_scaling_axis(unrolled_scale_axis, len(unrolled_shape))`: int form for ints, list form for lists
        let meanAxes := scalingAxis g.chLast (if wasInt then .one (uaxes.headD 0) else .many uaxes) ush.length
        let qxShape := keepShape ush meanAxes
        let rolled := rolledBackShape qxShape uaxes
        let rep := repeatShape axes factors rolled
        .ok (pos.map (fun j => zeroAxes meanAxes (unravel ush j)),
             pos.map (fun i =>
               let b := bcastIdx rep (unravel shape i)
               let c := unrepeat axes factors b
               unravel qxShape (ravel rolled c)))

/-- the members of the group with key `k`: the values whose producer key is `k` -/
def groupOf {α : Type} (pk : List (List Nat)) (vals : List α) (k : List Nat) : List α :=
  ((pk.zip vals).filter (fun p => p.1 = k)).map (·.2)

/-- keys of the initial `K.max(|x|, axis, keepdims=True)` reductions (no elements_per_scale there) -/
def maxKeys (axes : List Nat) (shape : List Nat) : List (List Nat) :=
  (List.range (prodL shape)).map (fun j => zeroAxes axes (unravel shape j))

end QKV.Tn
