/-
  QKV.Model.AutoFx — the data-dependent-scale branches of the fixed-point quantizers:
    quantized_bits.__call__ with alpha ∈ {"auto","auto_po2"} (symmetric forced, `levels`, initial scale
      `2·max|x|/levels`, po2 rounding, five refinement rounds of floor(|x|/s + 1/2) / clip to levels/2 /
      least-squares po2 scale, the final re-quantisation, exposed `scale = s·m`,
      freeze_scale / post_training_scale), and
    quantized_linear._get_auto_quantization_scale / _get_quantization_scale_from_max_data /
      _po2_autoscale (≤ 5-iteration while_loop with early exit, 1 iteration for the sign function)
      with _scale_clip_and_round.
  Deterministic path only.  Core Lean only; parameterised by the float context `Fl`.

  Division by a zero scale is modelled explicitly (`FV` below): an all-zero group under "auto" gives
  scale 0, `|x|/0` is NaN (or +inf), `floor` keeps it, `NaN < levels/2` is False, so the code takes
  `sign(x)·levels/2`.
-/
import QKV.Model.BinTer
namespace QKV.AF
open QKV QKV.Tn QKV.BT

/-! ### the float values TF can produce on the zero-scale path -/

/-- finite value, NaN, or an infinity -/
inductive FV
  | fin (q : Rat)
  | nan
  | inf (neg : Bool)
  deriving Repr, DecidableEq

/-- IEEE division of a finite non-negative numerator by a finite denominator (rounded by `r`) -/
def FV.divAbs (r : Rat → Rat) (a s : Rat) : FV :=
  if s = 0 then (if a = 0 then .nan else .inf (a < 0)) else .fin (r (a / s))
def FV.addHalf (r : Rat → Rat) : FV → FV
  | .fin q => .fin (r (q + 1/2))
  | v => v
def FV.floor : FV → FV
  | .fin q => .fin ((q.floor : Int) : Rat)
  | v => v
/-- `v < b` of TF: False for NaN -/
def FV.lt (v : FV) (b : Rat) : Bool :=
  match v with
  | .fin q => decide (q < b)
  | .nan => false
  | .inf neg => neg
/-- `sign(x) * tf.where(mask, v, levels/2)` with finite `sign(x)` and the selected branch -/
def FV.zOf (x : Rat) (v : FV) (l2 : Rat) : FV :=
  if v.lt l2 then (match v with
    | .fin q => .fin (sgn x * q)
    | .nan => .nan                         -- not reachable: NaN < l2 is False
    | .inf neg => if sgn x = 0 then .nan else .inf (xor neg (sgn x < 0)))
  else .fin (sgn x * l2)

/-- `z` of quantized_bits on `FV`: `v = floor(|x|/scale + 0.5); z = sign(x)·where(v < L/2, v, L/2)` -/
def zCodeFV (c : Fl) (l2 s x : Rat) : FV :=
  FV.zOf x (FV.floor (FV.addHalf c.r (FV.divAbs c.r (rabs x) s))) l2

/-- the same on rationals with the zero-scale branch spelled out (proved equal to `zCodeFV`) -/
def zCode (c : Fl) (l2 s x : Rat) : Rat :=
  if s = 0 then sgn x * l2
  else
    let v : Rat := ((c.r (c.r (rabs x / s) + 1/2)).floor : Int)
    if v < l2 then sgn x * v else sgn x * l2

/-! ### quantized_bits, alpha = "auto" / "auto_po2" -/

structure QBCfg where
  bits : Int
  integer : Int
  keepNeg : Bool
  po2 : Bool                  -- alpha == "auto_po2"
  grp : Grp                   -- scale_axis / elements_per_scale / data format
  minE : Option Int
  maxE : Option Int
  deriving Repr

def QBCfg.ub (c : QBCfg) : Int := c.bits - (if c.keepNeg then 1 else 0)
/-- `m = 2^unsigned_bits`, `m_i = 2^integer` -/
def QBCfg.m (c : QBCfg) : Rat := pow2 c.ub
def QBCfg.mi (c : QBCfg) : Rat := pow2 c.integer
/-- `levels / 2 = 2^(bits-1) - 1` (symmetric is forced for auto alphas; keep_negative is NOT consulted) -/
def QBCfg.l2 (c : QBCfg) : Rat := pow2 (c.bits - 1) - 1
/-- the step of the declared format: `m_i / m` -/
def QBCfg.step (c : QBCfg) : Rat := c.mi / c.m

/-- one output element -/
structure QElt where
  x : Rat         -- input
  z : Rat         -- integer code
  s : Rat         -- internal scale (w.r.t. x / m_i)
  scale : Rat     -- exposed `q.scale` at this position = s · m
  y : Rat         -- `scale * (m_i * z / m)` as the float computation forms it
  deriving Repr

/-- axes of the initial `K.max(abs(x), axis, keepdims=True)`: `[0]` for rank ≤ 1 -/
def qbMaxAxes (g : Grp) (rank : Nat) : List Nat :=
  if rank ≤ 1 then [0] else scalingAxis g.chLast g.sa rank

/-- `(K.max(abs(x)) * 2) / levels`, then the po2 rounding for auto_po2 -/
def qbInitScale (c : Fl) (cfg : QBCfg) (mk : List (List Nat)) (xs : List Rat) : List Rat :=
  mk.map fun k =>
    let mx := maxL (groupOf mk (xs.map rabs) k)
    let s := c.r (mx * 2 / (2 * cfg.l2))
    if cfg.po2 then po2Of c s else s

/-- one refinement round: codes for the current scale, then the least-squares po2 scale -/
def qbRound (c : Fl) (cfg : QBCfg) (rank : Nat) (pk ck : List (List Nat)) (xs s : List Rat) : List Rat :=
  let z := (s.zip xs).map fun p => zCode c cfg.l2 p.1 p.2
  lsScales c true cfg.minE cfg.maxE rank pk ck xs z

def iter {α : Type} (f : α → α) : Nat → α → α
  | 0, a => a
  | n + 1, a => iter f n (f a)

/-- final quantisation with the internal scale `s` (of `x / m_i`) -/
def qbFinish (c : Fl) (cfg : QBCfg) (frozen : Option (List Rat)) (x xs s : List Rat) : List QElt :=
  ((x.zip xs).zip (s.zip (frozen.getD (s.map fun v => c.r (v * cfg.m))))).map fun p =>
    let z := zCode c cfg.l2 p.2.1 p.1.2
    -- xq = m_i * z / m ; xq = scale * xq
    { x := p.1.1, z := z, s := p.2.1, scale := p.2.2, y := c.r (p.2.2 * c.r (c.r (cfg.mi * z) / cfg.m)) }

/-- `quantized_bits(bits, integer, alpha="auto"|"auto_po2", …)(x)` before the straight-through wrapper.
    `pts` = post_training_scale broadcast to the shape of `x` (freeze_scale). -/
def qbAuto (c : Fl) (cfg : QBCfg) (pts : Option (List Rat)) (shape : List Nat) (x : List Rat) :
    Except Err (List QElt) :=
  -- the assertions on elements_per_scale / exponent bounds for alpha ≠ auto_po2
  if !cfg.po2 && (cfg.grp.eps ≠ .none || cfg.minE.isSome || cfg.maxE.isSome) then .error .assert
  else
    let xs := x.map fun v => c.r (v / cfg.mi)          -- x = x / m_i
    match pts with
    | some p =>
      -- scale = self.scale / m ; self.scale keeps the post-training value
      .ok (qbFinish c cfg (some p) x xs (p.map fun v => c.r (v / cfg.m)))
    | Option.none =>
      let s0 := qbInitScale c cfg (maxKeys (qbMaxAxes cfg.grp shape.length) shape) xs
      if !cfg.po2 then .ok (qbFinish c cfg Option.none x xs s0)
      else
        match keys cfg.grp shape with
        | .error e => .error e
        | .ok (pk, ck) =>
          .ok (qbFinish c cfg Option.none x xs (iter (qbRound c cfg shape.length pk ck xs) 5 s0))

/-! ### quantized_linear, alpha = "auto" / "auto_po2" -/

structure QLCfg where
  bits : Int
  integer : Int
  symmetric : Bool
  keepNeg : Bool
  po2 : Bool
  chLast : Bool
  sa : AxisSpec
  deriving Repr

def QLCfg.signFn (c : QLCfg) : Bool := c.bits = 1 && c.keepNeg
def QLCfg.ub (c : QLCfg) : Int := c.bits - (if c.keepNeg then 1 else 0)
/-- `get_clip_bounds` -/
def QLCfg.clipMin (c : QLCfg) : Rat :=
  if c.signFn then -1/2 else if c.keepNeg then -(pow2 c.ub) + (if c.symmetric then 1 else 0) else 0
def QLCfg.clipMax (c : QLCfg) : Rat := if c.signFn then 1/2 else pow2 c.ub - 1
/-- `data_type_scale = 2^(integer - bits + keep_negative)` -/
def QLCfg.dts (c : QLCfg) : Rat := pow2 (c.integer - c.ub)

/-- `_scale_clip_and_round(x, quantization_scale)`: the (half-)integer code -/
def qlCode (c : Fl) (cfg : QLCfg) (qs x : Rat) : Rat :=
  let shift : Rat := if cfg.signFn then 1/2 else 0
  let sx := c.r (x / qs)
  let cl := if cfg.clipMax < sx then cfg.clipMax else if sx < cfg.clipMin then cfg.clipMin else sx
  ((roundTie .even (c.r (cl - shift)) : Int) : Rat) + shift

def maxSigned : List Rat → Rat
  | [] => 0
  | a :: t => t.foldl (fun m v => if m < v then v else m) a

/-- `_get_quantization_scale_from_max_data` per group, broadcast -/
def qlMaxScale (c : Fl) (cfg : QLCfg) (mk : List (List Nat)) (x : List Rat) : List Rat :=
  let range := cfg.clipMax - cfg.clipMin
  mk.map fun k =>
    let qs := if cfg.keepNeg then c.r (maxL (groupOf mk (x.map rabs) k) * 2 / range)
              else c.r (maxSigned (groupOf mk x k) / range)
    if qs < c.eps then c.eps else qs           -- tf.math.maximum(quantization_scale, K.epsilon())

/-- the `tf.while_loop` of `_po2_autoscale`: state (last, current), stop when equal everywhere -/
def qlLoop (c : Fl) (cfg : QLCfg) (rank : Nat) (pk ck : List (List Nat)) (x : List Rat) :
    Nat → List Rat → List Rat → List Rat
  | 0, _, cur => cur
  | n + 1, last, cur =>
    if last = cur then cur
    else
      let q := (cur.zip x).map fun p => qlCode c cfg p.1 p.2
      qlLoop c cfg rank pk ck x n cur (lsScales c true Option.none Option.none rank pk ck x q)

structure LElt where
  x : Rat
  code : Rat      -- `_scale_clip_and_round` value
  qs : Rat        -- quantization_scale at this position
  scale : Rat     -- `q.scale` = quantization_scale / data_type_scale
  y : Rat         -- `scaled_xq * quantization_scale`
  deriving Repr

def qlAuto (c : Fl) (cfg : QLCfg) (shape : List Nat) (x : List Rat) : List LElt :=
  let axes := scalingAxis cfg.chLast cfg.sa shape.length
  let mk := maxKeys axes shape
  let qs0 := qlMaxScale c cfg mk x
  let qs :=
    if !cfg.po2 then qs0
    else
      let p0 := qs0.map (po2Of c)
      -- `_get_least_squares_scale(alpha="auto_po2", x, q, scale_axis)`; for rank ≤ 1 per element
      let g : Grp := { chLast := cfg.chLast, sa := cfg.sa, eps := .none }
      match keys g shape with
      | .error _ => p0
      | .ok (pk, ck) =>
        qlLoop c cfg shape.length pk ck x (if cfg.signFn then 1 else 5) (p0.map fun _ => -1) p0
  (x.zip qs).map fun p =>
    let k := qlCode c cfg p.2 p.1
    { x := p.1, code := k, qs := p.2, scale := c.r (p.2 / cfg.dts), y := c.r (k * p.2) }

/-! ### the quantizer OBJECTS: what `__call__` reads from and writes to `self`

  `qbAuto` / `qlAuto` above are FUNCTIONS of (configuration, data format, tensor).  The Python objects are
  mutable: `quantized_bits.__call__` assigns `self.scale` (unless `freeze_scale`), `quantized_linear`
  assigns `self.quantization_scale`, both read their public attributes (`bits`, `integer`, `keep_negative`,
  `alpha`, `scale_axis`, `elements_per_scale`, `min/max_po2_exponent`) and the process-level
  `K.image_data_format()` at call time.  The object model below threads exactly that state through a
  history of calls (with public attributes possibly re-assigned between two calls); as coded,
    * no public attribute is written by a call,
    * the stored scale is written by every call and read by none (read, never written, when frozen),
  so the k-th call of any history is the function applied to the k-th tensor (Props.C05, "no hidden state").
-/

/-- a stored tensor attribute (`self.scale`, `self.quantization_scale`): shape and flat row-major values -/
structure Stored where
  shape : List Nat
  vals : List Rat
  deriving Repr

/-- numpy broadcasting of a stored tensor against `x` of shape `shape` (trailing axes aligned, size-1 axes
    read at 0), at every flat position of `x` -/
def bcastTo (t : Stored) (shape : List Nat) : List Rat :=
  (List.range (prodL shape)).map fun i =>
    let idx := (unravel shape i).drop (shape.length - t.shape.length)
    t.vals.getD (ravel t.shape (bcastIdx t.shape idx)) 0

/-- the public attributes of a `quantized_bits` object that the auto branch reads -/
structure QBAttrs where
  bits : Int
  integer : Int
  keepNeg : Bool
  po2 : Bool                  -- alpha == "auto_po2" (else "auto")
  sa : AxisSpec               -- scale_axis
  eps : EpsSpec               -- elements_per_scale
  minE : Option Int
  maxE : Option Int
  deriving Repr, DecidableEq

/-- the configuration one call works with: the attributes plus the data format of the moment -/
def QBAttrs.cfg (a : QBAttrs) (chLast : Bool) : QBCfg :=
  { bits := a.bits, integer := a.integer, keepNeg := a.keepNeg, po2 := a.po2,
    grp := { chLast := chLast, sa := a.sa, eps := a.eps }, minE := a.minE, maxE := a.maxE }

structure QBObj where
  attrs : QBAttrs
  frozen : Bool               -- freeze_scale (post_training_scale given at construction)
  scale : Option Stored       -- self.scale: unset before the first call unless frozen
  deriving Repr

/-- the frozen scale a call sees: `self.scale` broadcast against `x` -/
def QBObj.pts (o : QBObj) (shape : List Nat) : Option (List Rat) :=
  if o.frozen then o.scale.map (bcastTo · shape) else Option.none

/-- one `quantized_bits.__call__` on the object: (object afterwards, elements of the result).
    `if not self.freeze_scale: self.scale = scale` — stored here at every position of `x`. -/
def qbCall (c : Fl) (o : QBObj) (chLast : Bool) (shape : List Nat) (x : List Rat) :
    QBObj × Except Err (List QElt) :=
  let r := qbAuto c (o.attrs.cfg chLast) (o.pts shape) shape x
  ({ o with scale := if o.frozen then o.scale else
      match r with
      | .ok es => some ⟨shape, es.map (·.scale)⟩
      | .error _ => o.scale }, r)

/-- one step of a history: public attributes re-assigned before the call (or untouched), the data format
    at the time of the call, the tensor -/
structure QBStep where
  set : Option QBAttrs
  chLast : Bool
  shape : List Nat
  x : List Rat
  deriving Repr

def QBObj.reconf (o : QBObj) (s : Option QBAttrs) : QBObj := { o with attrs := s.getD o.attrs }

/-- a history on ONE object: after every call the object and the result of that call -/
def qbRun (c : Fl) : QBObj → List QBStep → List (QBObj × Except Err (List QElt))
  | _, [] => []
  | o, s :: t =>
    let r := qbCall c (o.reconf s.set) s.chLast s.shape s.x
    r :: qbRun c r.1 t

/-- the same tensors, each given to a FRESH object that carries the attributes of the moment (and the
    post-training scale of the construction, if any) -/
def qbFresh (c : Fl) (frozen : Bool) (pts : Option Stored) : QBAttrs → List QBStep → List (Except Err (List QElt))
  | _, [] => []
  | a, s :: t =>
    let a' := s.set.getD a
    (qbCall c { attrs := a', frozen := frozen, scale := pts } s.chLast s.shape s.x).2 :: qbFresh c frozen pts a' t

/-- the attributes a history of re-assignments leaves -/
def qbAttrsAfter : QBAttrs → List QBStep → List QBAttrs
  | _, [] => []
  | a, s :: t => s.set.getD a :: qbAttrsAfter (s.set.getD a) t

/-- the public attributes of a `quantized_linear` object -/
structure QLAttrs where
  bits : Int
  integer : Int
  symmetric : Bool
  keepNeg : Bool
  po2 : Bool
  sa : AxisSpec
  deriving Repr, DecidableEq

def QLAttrs.cfg (a : QLAttrs) (chLast : Bool) : QLCfg :=
  { bits := a.bits, integer := a.integer, symmetric := a.symmetric, keepNeg := a.keepNeg, po2 := a.po2,
    chLast := chLast, sa := a.sa }

structure QLObj where
  attrs : QLAttrs
  qs : Stored                 -- self.quantization_scale (initially the scalar data_type_scale)
  deriving Repr

/-- one `quantized_linear.__call__` with a string alpha: `self.quantization_scale` is overwritten by
    `_get_auto_quantization_scale`, which starts from the data (`_get_quantization_scale_from_max_data`) -/
def qlCall (c : Fl) (o : QLObj) (chLast : Bool) (shape : List Nat) (x : List Rat) : QLObj × List LElt :=
  let es := qlAuto c (o.attrs.cfg chLast) shape x
  ({ o with qs := ⟨shape, es.map (·.qs)⟩ }, es)

structure QLStep where
  set : Option QLAttrs
  chLast : Bool
  shape : List Nat
  x : List Rat
  deriving Repr

def QLObj.reconf (o : QLObj) (s : Option QLAttrs) : QLObj := { o with attrs := s.getD o.attrs }

def qlRun (c : Fl) : QLObj → List QLStep → List (QLObj × List LElt)
  | _, [] => []
  | o, s :: t =>
    let r := qlCall c (o.reconf s.set) s.chLast s.shape s.x
    r :: qlRun c r.1 t

def qlFresh (c : Fl) (qs0 : Stored) : QLAttrs → List QLStep → List (List LElt)
  | _, [] => []
  | a, s :: t =>
    let a' := s.set.getD a
    (qlCall c { attrs := a', qs := qs0 } s.chLast s.shape s.x).2 :: qlFresh c qs0 a' t

def qlAttrsAfter : QLAttrs → List QLStep → List QLAttrs
  | _, [] => []
  | a, s :: t => s.set.getD a :: qlAttrsAfter (s.set.getD a) t

/-! ### the consumer: `model_save_quantized_weights` (qkeras/utils.py), one (quantizer, weight) pair

  For every layer the export pairs `layer.get_quantizers()` with `layer.get_weights()`, and for each pair
    `weight = K.eval(quantizer(tf.constant(weight)))`                       -- ONE call of the object
  then, for `quantized_bits` with `alpha == "auto_po2"`,
    `m = 2^(bits - keep_negative)`, `m_i = 2^integer`,
    `scale = K.cast_to_floatx(quantizer.scale [.numpy()])`                   -- READ after that call
    `hw_weight = weight * m / m_i`, `scale = scale * m_i / m`                -- NEW arrays
  and `hw_weight = weight` for every other alpha / class.  The quantizer object is an INPUT of the export:
  apart from the call it makes (which assigns `self.scale` unless `freeze_scale`) the export assigns
  nothing on it and must not write through `quantizer.scale` (a frozen scale is a numpy array the export
  holds a reference to).  `qbExport` models the step as written; `QBEvent` / `qbRunEv` put exports into the
  histories of one object (Props.C05: "an export is a call, for the object").
  Whether `hw_weight * scale` reproduces the weight is C14's clause (it does iff the exposed scale is 1).
-/

/-- what the export returns for one (quantizer, weight) pair -/
structure QBExported where
  weight : List Rat            -- software-format weight: the quantizer's output (after the straight-through sum)
  hw : List Rat                -- auto_po2: `weight * m / m_i`; otherwise the weight itself
  scales : Option (List Rat)   -- auto_po2: `scale * m_i / m` at every position of the weight; otherwise `[]`
  deriving Repr

/-- one pair of the export: (object afterwards, result of the call it makes, returned entries) -/
def qbExport (c : Fl) (o : QBObj) (chLast : Bool) (shape : List Nat) (w : List Rat) :
    QBObj × Except Err (List QElt) × Option QBExported :=
  let r := qbCall c o chLast shape w
  (r.1, r.2,
    match r.2 with
    | .error _ => Option.none
    | .ok es =>
      let wq := es.map fun e => ste c e.x e.y
      let cfg := o.attrs.cfg chLast
      if o.attrs.po2 then
        let sc := match r.1.scale with
          | some t => bcastTo t shape
          | Option.none => []
        some { weight := wq, hw := wq.map fun v => c.r (c.r (v * cfg.m) / cfg.mi),
               scales := some (sc.map fun s => c.r (c.r (s * cfg.mi) / cfg.m)) }
      else some { weight := wq, hw := wq, scales := Option.none })

/-- an event in the life of one quantizer object: a direct call, or an export of the model that holds it
    (the step carries the layer weight of that moment) -/
inductive QBEvent where
  | call (s : QBStep)
  | save (s : QBStep)      -- `model_save_quantized_weights` reaches the object with the layer weight `s.x`
  deriving Repr

def QBEvent.step : QBEvent → QBStep
  | .call s => s
  | .save s => s

/-- a history of calls AND exports on ONE object -/
def qbRunEv (c : Fl) : QBObj → List QBEvent → List (QBObj × Except Err (List QElt) × Option QBExported)
  | _, [] => []
  | o, .call s :: t =>
    let r := qbCall c (o.reconf s.set) s.chLast s.shape s.x
    (r.1, r.2, Option.none) :: qbRunEv c r.1 t
  | o, .save s :: t =>
    let r := qbExport c (o.reconf s.set) s.chLast s.shape s.x
    r :: qbRunEv c r.1 t

/-- `quantized_linear` as a weight quantizer: the export takes its last branch (`hw_weight = weight`), so for
    the object it is exactly the one call -/
def qlExport (c : Fl) (o : QLObj) (chLast : Bool) (shape : List Nat) (w : List Rat) : QLObj × List LElt :=
  qlCall c o chLast shape w

end QKV.AF
