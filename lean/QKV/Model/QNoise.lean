/-
  QKV.Model.QNoise — the qnoise_factor knob of the qkeras quantizers (property C07).
  Core Lean only.  Mirrors, as written:

    qkeras/quantizers.py   the mixing return expressions
        quantized_bits / quantized_relu / quantized_po2 / quantized_relu_po2 (and quantized_hswish,
        which inherits quantized_bits.__call__):
            if self.use_ste:  return s + tf.stop_gradient(self.qnoise_factor * (-s + xq))
            else:             return (1 - self.qnoise_factor) * s + tf.stop_gradient(self.qnoise_factor * xq)
        quantized_linear:     res = x + self.qnoise_factor * (xq - x)
      (`s` is the surrogate the class mixes with: `x`, or `x_u` for quantized_relu, or the
       relu-clipped `x` for quantized_relu_po2; `tf.stop_gradient` is the identity on values —
       gradients are property C06.)

    qkeras/base_quantizer.py   BaseQuantizer.build / update_qnoise_factor and the
        `if not self.built: self.build(var_name=..., use_variables=self.use_variables)` prologue
        of every `__call__`.

  Fix round: `update_qnoise_factor(<tf.Variable>)` on a python-float factor follows the repaired
  code (`K.get_value`) — see `QState.updateFromVar`.

  Strengthening round (seed C07-4): `Sys` — any number of quantizer objects plus caller-owned
  `tf.Variable`s under interleaved histories (`MOp`), with the aliasing-free semantics of the code
  (`update_qnoise_factor(<variable>)` copies the variable's current value; `build` makes a fresh
  Variable): the factor of a quantizer is private state.

  Numbers are exact rationals.  The float32 / float64 roundings the real code performs are
  explicit: every model function that rounds takes the rounding(s) as a parameter (`Rnd`), the
  driver instantiates them with `rnd32` / `rnd64` below (IEEE-754 round-to-nearest-even, no
  overflow handling), the theorems hold for every rounding with the stated hypotheses.
-/
import QKV.Model.Basic
import QKV.Model.FixedQ
namespace QKV.QNoise

/-! ## exact mixing expressions (the two return forms + quantized_linear's) -/

/-- `s + stop_gradient(f * (-s + xq))` -/
def mixSte (s q f : Rat) : Rat := s + f * (-s + q)

/-- `(1 - f) * s + stop_gradient(f * xq)` -/
def mixNoSte (s q f : Rat) : Rat := (1 - f) * s + f * q

/-- the return expression of quantized_bits / quantized_relu / quantized_po2 / quantized_relu_po2 -/
def mix (s q f : Rat) (useSte : Bool) : Rat := if useSte then mixSte s q f else mixNoSte s q f

/-- quantized_linear: `x + self.qnoise_factor * (xq - x)` -/
def mixLinear (s q f : Rat) : Rat := s + f * (q - s)

/-! ## IEEE-754 round-to-nearest-even on exact rationals (device 1 of DESIGN §3.2) -/

def rabs (r : Rat) : Rat := if r < 0 then -r else r

/-- round to the nearest integer, ties to even (`tf.round`, IEEE default) -/
def roundHalfEven (r : Rat) : Int :=
  let fl := r.floor
  let d := r - (fl : Rat)
  if d < 1 / 2 then fl
  else if 1 / 2 < d then fl + 1
  else if fl % 2 = 0 then fl else fl + 1

/-- binary floating point with `p` significand bits and smallest normal exponent `emin`
    (gradual underflow below it; overflow is not modelled — callers stay far from it). -/
def rndP (p : Nat) (emin : Int) (r : Rat) : Rat :=
  if r = 0 then 0 else
  let e := imax (floorLog2Rat (rabs r)) emin
  let ulp := pow2 (e - ((p : Int) - 1))
  ((roundHalfEven (r / ulp) : Int) : Rat) * ulp

/-- nearest float32 -/
def rnd32 (r : Rat) : Rat := rndP 24 (-126) r
/-- nearest float64 -/
def rnd64 (r : Rat) : Rat := rndP 53 (-1022) r

/-- the roundings a computation goes through; `Rnd.exact` is the real-number reading -/
structure Rnd where
  r32 : Rat → Rat
  r64 : Rat → Rat

def Rnd.exact : Rnd := ⟨id, id⟩
def Rnd.ieee : Rnd := ⟨rnd32, rnd64⟩

/-! ## storage of the factor: python number vs non-trainable float32 `tf.Variable` -/

inductive Store where
  /-- attribute holds a python float / numpy float64 (the exact value written) -/
  | py (v : Rat)
  /-- attribute holds a float32 `tf.Variable` whose current value is `v` -/
  | var (v : Rat)
deriving Repr, DecidableEq, Inhabited

def Store.isVar : Store → Bool
  | .var _ => true
  | .py _ => false

/-- the value that multiplies a float32 tensor in `self.qnoise_factor * t`
    (a python number is converted to a float32 constant; a Variable is read as is). -/
def Store.asF (rd : Rnd) : Store → Rat
  | .py v => rd.r32 v
  | .var v => v

/-- the value of `(1 - self.qnoise_factor)` that multiplies a float32 tensor: python computes
    `1 - v` in float64 and TF then converts to float32; for a Variable the subtraction is a
    float32 op. -/
def Store.oneMinus (rd : Rnd) : Store → Rat
  | .py v => rd.r32 (rd.r64 (1 - v))
  | .var v => rd.r32 (1 - v)

/-- state of one quantizer object as far as the knob is concerned -/
structure QState where
  store : Store
  built : Bool
  /-- the quantizer's own `use_variables` attribute, handed to `build` by the first `__call__` -/
  useVars : Bool
deriving Repr, DecidableEq, Inhabited

/-- effective factor of the next call -/
def QState.eff (rd : Rnd) (s : QState) : Rat := s.store.asF rd

/-- `BaseQuantizer.build(var_name, use_variables)`:
    `if use_variables: if hasattr(self, "qnoise_factor"): self.qnoise_factor = tf.Variable(lambda:
     tf.constant(self.qnoise_factor, dtype=tf.float32), ...)`; `self.built = True`.
    (Called on a quantizer whose factor already is a Variable it makes a fresh Variable with the
     same value.) -/
def QState.build (rd : Rnd) (s : QState) (useVariables : Bool) : QState :=
  { s with store := if useVariables then .var (s.store.asF rd) else s.store, built := true }

/-- `update_qnoise_factor(v)` with a python / numpy number (or a constant tensor) `v`:
    Variable → `assign` (value becomes float32(v)); otherwise the attribute is rebound to `v`. -/
def QState.update (rd : Rnd) (s : QState) (v : Rat) : QState :=
  match s.store with
  | .var _ => { s with store := .var (rd.r32 v) }
  | .py _ => { s with store := .py v }

/-- `update_qnoise_factor(w)` with `w` a `tf.Variable` holding `v`:
    Variable store → `assign`; python store → the attribute is rebound to `K.get_value(w)`, the
    numpy float32 value of the variable.  (Before the fix of finding C07-update-from-variable this
    branch called `w.eval()`, which raises under eager execution and left the factor unchanged.)
    Returns the new state and whether the call raised (never; kept so that the protocol still
    reports a raise should one come back). -/
def QState.updateFromVar (s : QState) (v : Rat) : QState × Bool :=
  match s.store with
  | .var _ => ({ s with store := .var v }, false)
  | .py _ => ({ s with store := .py v }, false)

/-- the prologue of every `__call__`: `if not self.built: self.build(..., use_variables=self.use_variables)` -/
def QState.call (rd : Rnd) (s : QState) : QState :=
  if s.built then s else s.build rd s.useVars

inductive Op where
  | build (useVariables : Bool)
  | update (v : Rat)
  | updateFromVar (v : Rat)
  | setUseVars (b : Bool)
  | call
deriving Repr, DecidableEq, Inhabited

/-- one operation; second component = the operation raised (no operation does any more) -/
def QState.step (rd : Rnd) (s : QState) : Op → QState × Bool
  | .build b => (s.build rd b, false)
  | .update v => (s.update rd v, false)
  | .updateFromVar v => s.updateFromVar v
  | .setUseVars b => ({ s with useVars := b }, false)
  | .call => (s.call rd, false)

/-- run a whole operation list (a raising operation is skipped, as after a caught exception) -/
def QState.run (rd : Rnd) (s : QState) : List Op → QState
  | [] => s
  | op :: ops => QState.run rd (s.step rd op).1 ops

/-- did any operation of the list raise -/
def QState.anyRaise (rd : Rnd) (s : QState) : List Op → Bool
  | [] => false
  | op :: ops => (s.step rd op).2 || QState.anyRaise rd (s.step rd op).1 ops

/-- the last value handed to the update API by the list, if any (pure function of the list) -/
def lastWrite : List Op → Option Rat
  | [] => none
  | .update v :: ops => (lastWrite ops).or (some v)
  | .updateFromVar v :: ops => (lastWrite ops).or (some v)
  | _ :: ops => lastWrite ops

/-! ## several quantizers and caller-owned variables  (strengthening round, seed C07-4)

  `update_qnoise_factor(w)` with `w` a `tf.Variable` COPIES the current value of `w`
  (`self.qnoise_factor.assign(w)` for a Variable store, `K.get_value(w)` for a python store);
  `build(use_variables=True)` makes a FRESH Variable.  So the attribute of a quantizer never is a
  variable somebody else holds: the factor of every quantizer is private state.  The system below
  spells that semantics out for any number of quantizer objects `q 0, q 1, …` and any number of
  caller-owned float32 variables `w 0, w 1, …` (both indexed by identity), with the operations a
  caller can interleave:

    * `local i op`            any single-quantizer operation `op` on `q i`
    * `updateFromCaller i k`  `q_i.update_qnoise_factor(w_k)`
    * `updateFromQuant i j`   `q_i.update_qnoise_factor(q_j.qnoise_factor)` (the attribute of
                              another quantizer: its Variable, or its python number)
    * `assign k v`            `w_k.assign(v)` — the caller's own code, not qkeras -/

/-- point update of a total map -/
def setAt {α : Type} (f : Nat → α) (i : Nat) (a : α) : Nat → α := fun j => if j = i then a else f j

structure Sys where
  /-- the quantizer objects, by identity -/
  q : Nat → QState
  /-- the caller-owned float32 `tf.Variable`s, by identity: current value -/
  w : Nat → Rat

inductive MOp where
  | local (i : Nat) (op : Op)
  | updateFromCaller (i k : Nat)
  | updateFromQuant (i j : Nat)
  | assign (k : Nat) (v : Rat)
deriving Repr, DecidableEq, Inhabited

/-- the quantizer an operation is addressed to (`assign` is addressed to none) -/
def MOp.target : MOp → Option Nat
  | .local i _ => some i
  | .updateFromCaller i _ => some i
  | .updateFromQuant i _ => some i
  | .assign _ _ => none

/-- the caller's variable an operation writes (only the caller's own `assign` writes one) -/
def MOp.assigns : MOp → Option Nat
  | .assign k _ => some k
  | _ => none

/-- what the operation means for quantizer `b` alone: the single-quantizer operation it performs
    on `b`, with the value of a source variable read NOW — or nothing at all if it is addressed
    elsewhere. -/
def MOp.resolve (s : Sys) (b : Nat) : MOp → Option Op
  | .local i op => if i = b then some op else none
  | .updateFromCaller i k => if i = b then some (.updateFromVar (s.w k)) else none
  | .updateFromQuant i j =>
    if i = b then
      some (match (s.q j).store with
            | .var v => .updateFromVar v
            | .py v => .update v)
    else none
  | .assign _ _ => none

/-- `update_qnoise_factor(other.qnoise_factor)`: the attribute of another quantizer is its Variable
    (→ the `tf.Variable` branch, value copied) or its python number (→ the number branch) -/
def QState.updateFromAttr (rd : Rnd) (s : QState) : Store → QState
  | .var v => (s.updateFromVar v).1
  | .py v => s.update rd v

/-- one operation of the whole system -/
def Sys.step (rd : Rnd) (s : Sys) : MOp → Sys
  | .local i op => { s with q := setAt s.q i ((s.q i).step rd op).1 }
  | .updateFromCaller i k => { s with q := setAt s.q i ((s.q i).updateFromVar (s.w k)).1 }
  | .updateFromQuant i j => { s with q := setAt s.q i ((s.q i).updateFromAttr rd (s.q j).store) }
  | .assign k v => { s with w := setAt s.w k (rd.r32 v) }

def Sys.run (rd : Rnd) (s : Sys) : List MOp → Sys
  | [] => s
  | m :: ms => Sys.run rd (s.step rd m) ms

/-- the history of quantizer `b` alone inside an interleaved history of the whole system -/
def proj (rd : Rnd) (b : Nat) : Sys → List MOp → List Op
  | _, [] => []
  | s, m :: ms =>
    match m.resolve s b with
    | some op => op :: proj rd b (s.step rd m) ms
    | none => proj rd b (s.step rd m) ms

/-! ## the float32 evaluation of the mixing expressions

  TF's eager elementwise kernels perform `neg/add/sub/mul` one at a time in float32; every step is
  a correctly rounded IEEE operation.  `s`, `q` are float32 values. -/

/-- `s + (f * (-s + xq))` -/
def mixSteF (rd : Rnd) (s q : Rat) (st : Store) : Rat :=
  rd.r32 (s + rd.r32 (st.asF rd * rd.r32 (-s + q)))

/-- `(1 - f) * s + (f * xq)` -/
def mixNoSteF (rd : Rnd) (s q : Rat) (st : Store) : Rat :=
  rd.r32 (rd.r32 (st.oneMinus rd * s) + rd.r32 (st.asF rd * q))

def mixF (rd : Rnd) (s q : Rat) (st : Store) (useSte : Bool) : Rat :=
  if useSte then mixSteF rd s q st else mixNoSteF rd s q st

/-- quantized_linear: `x + f * (xq - x)` -/
def mixLinearF (rd : Rnd) (s q : Rat) (st : Store) : Rat :=
  rd.r32 (s + rd.r32 (st.asF rd * rd.r32 (q - s)))

/-- "no rounding happened": every intermediate of the float evaluation is a fixed point of the
    rounding (what the driver reports as `exact`). -/
def mixExactB (rd : Rnd) (s q : Rat) (st : Store) (useSte : Bool) : Bool :=
  let f := st.asF rd
  if useSte then
    decide (rd.r32 (-s + q) = -s + q) && decide (rd.r32 (f * (-s + q)) = f * (-s + q))
      && decide (rd.r32 (s + f * (-s + q)) = s + f * (-s + q))
  else
    decide (st.oneMinus rd = 1 - f) && decide (rd.r32 ((1 - f) * s) = (1 - f) * s)
      && decide (rd.r32 (f * q) = f * q)
      && decide (rd.r32 ((1 - f) * s + f * q) = (1 - f) * s + f * q)

def mixLinearExactB (rd : Rnd) (s q : Rat) (st : Store) : Bool :=
  let f := st.asF rd
  decide (rd.r32 (q - s) = q - s) && decide (rd.r32 (f * (q - s)) = f * (q - s))
    && decide (rd.r32 (s + f * (q - s)) = s + f * (q - s))

/-! ## quantized_relu with the knob, in full  (strengthening round, seed C07-6)

  `quantized_relu.__call__` (`use_sigmoid = 0`): `x_u` (`ReluCfg.act`, the activation the noise is
  mixed with: leaky relu clipped by the quantized maximum, or by `relu_upper_bound`), `xq`
  (`qrelu`), then — in this order —
      if self.relu_upper_bound and not self.is_quantized_clip: xq = where(xq <= ub, xq, ub)
      return mix(x_u, xq, qnoise_factor)
  i.e. the bound is applied to the QUANTIZED value before the mix (`qreluU`), never to the mixed
  result.  `FixedQ` (shared with C01/C02, unchanged here) supplies `ReluCfg`, `act`, `qrelu`,
  `qreluU`, `clampTo`. -/

/-- `quantized_relu(bits, integer, negative_slope=2^-k, relu_upper_bound, is_quantized_clip,
    qnoise_factor=f, use_ste)(x)` -/
def reluNoise (t : Tie) (c : ReluCfg) (f : Rat) (useSte : Bool) (x : Rat) : Rat :=
  mix (c.act x) (qreluU t c x) f useSte

/-- NOT the code: the bound applied once, to the mixed result (what a "clip once, on the output"
    rewrite computes).  Kept for the counterexample that the order matters. -/
def reluNoiseClampAfter (t : Tie) (c : ReluCfg) (f : Rat) (useSte : Bool) (x : Rat) : Rat :=
  clampTo c.clamp (mix (c.act x) (qrelu t c x) f useSte)

/-- float32 evaluation of the call on float32 inputs for which `x_u` and `xq` are computed without
    rounding (dyadic `x`; the driver's inputs) -/
def reluNoiseF (rd : Rnd) (t : Tie) (c : ReluCfg) (st : Store) (useSte : Bool) (x : Rat) : Rat :=
  mixF rd (c.act x) (qreluU t c x) st useSte

/-! ## compiled calls: the quantizer called from a `tf.function`  (strengthening round, seed C07-8)

  `fn = tf.function(lambda x: q(x))` (the Keras train step is such a function) runs the PYTHON body
  of `__call__` once, at trace time: the `if not self.built: self.build(...)` prologue and the read of
  the attribute `self.qnoise_factor`.  What the attribute is at that moment decides what the graph
  holds for ever after:
    * a python number  → two float32 CONSTANTS (`float32(v)`, `float32(float64(1 - v))`): later
      `update_qnoise_factor` calls rebind the attribute and the graph never sees them — the reason
      `use_variables=True` exists;
    * a `tf.Variable`   → a read of THAT variable object at every execution: `assign` is seen.
  An explicit second `build(use_variables=True)` replaces the attribute by a fresh Variable; a graph
  traced before keeps reading the old one (frozen at the value it had).  `QNoiseScheduler.
  set_quantizers` therefore re-builds only quantizers whose factor is not a Variable yet. -/

/-- what a traced graph holds for `self.qnoise_factor` -/
inductive Cap where
  /-- a python number was read at trace time: baked in as constants -/
  | const (v : Rat)
  /-- the quantizer's current Variable: read at every execution -/
  | live
  /-- a Variable the quantizer has replaced since (explicit re-build); it keeps the value `v` -/
  | stale (v : Rat)
deriving Repr, DecidableEq, Inhabited

/-- the raw value held by a store -/
def Store.raw : Store → Rat
  | .py v => v
  | .var v => v

/-- what reading the attribute at trace time captures -/
def Store.capture : Store → Cap
  | .py v => .const v
  | .var _ => .live

/-- the factor storage a compiled call computes with -/
def Cap.store (q : QState) : Cap → Store
  | .const v => .py v
  | .live => q.store
  | .stale v => .var v

/-- does the (eager) operation replace the attribute by a FRESH Variable -/
def QState.replacesVar (s : QState) : Op → Bool
  | .build b => b
  | .call => !s.built && s.useVars
  | _ => false

/-- effect of an eager operation on what a traced graph reads -/
def Cap.after (s : QState) (op : Op) : Cap → Cap
  | .live => if s.replacesVar op then .stale s.store.raw else .live
  | k => k

/-- one quantizer object plus ONE compiled function wrapping its call (`cap = none`: not traced yet) -/
structure CState where
  q : QState
  cap : Option Cap
deriving Repr, DecidableEq, Inhabited

inductive COp where
  /-- any single-quantizer operation outside the compiled function (eager calls included) -/
  | eager (op : Op)
  /-- a call through the compiled function (same input signature: traced once) -/
  | ccall
deriving Repr, DecidableEq, Inhabited

def CState.step (rd : Rnd) (c : CState) : COp → CState
  | .ccall =>
    match c.cap with
    | some _ => c       -- the graph is executed; no python code of the quantizer runs
    | none => { q := c.q.call rd, cap := some (c.q.call rd).store.capture }
  | .eager op => { q := (c.q.step rd op).1, cap := c.cap.map (Cap.after c.q op) }

def CState.run (rd : Rnd) (c : CState) : List COp → CState
  | [] => c
  | o :: os => CState.run rd (c.step rd o) os

/-- the factor storage the NEXT compiled call computes with (tracing first if necessary) -/
def CState.cstore (rd : Rnd) (c : CState) : Store :=
  match (c.step rd .ccall).cap with
  | some k => k.store (c.step rd .ccall).q
  | none => (c.step rd .ccall).q.store

/-- the factor the next compiled call multiplies with -/
def CState.ceff (rd : Rnd) (c : CState) : Rat := (c.cstore rd).asF rd

/-- variable-backed mode: the factor already is a Variable, or the first call will make it one
    (`use_variables=True` on a quantizer that is not built yet) -/
def QState.varMode (s : QState) : Bool := s.store.isVar || (s.useVars && !s.built)

/-- the eager operations of a history, in order (what the python object goes through outside the
    graph; a compiled call contributes the `call` prologue only when it traces) -/
def eagerOps : List COp → List Op
  | [] => []
  | .eager op :: os => op :: eagerOps os
  | .ccall :: os => eagerOps os

/-! ## the values returned by the calls of a history on ONE object  (strengthening round, seed C07-10)

  Every `__call__` of every knob-bearing class runs the `if not self.built: self.build(...)` prologue
  and then evaluates its return expression with `self.qnoise_factor` AS IT IS NOW: nothing derived
  from the factor (a "this quantizer is the identity" flag, a pre-computed `1 - f`, a cached
  branch) is kept on the object between calls.  `QState.outs` spells that out: the list of the
  values returned by the `call` operations of an operation list, in order.  `callFactors` is the
  property's own reading of the same list — the factor in force at each call is the last value
  written before it — and does not look at the object at all. -/

/-- which return expression the class evaluates -/
inductive Form where
  /-- quantized_bits / quantized_relu / quantized_po2 / quantized_relu_po2 / quantized_hswish -/
  | two (useSte : Bool)
  /-- quantized_linear -/
  | linear
deriving Repr, DecidableEq, Inhabited

/-- the return expression over the rationals -/
def Form.out (s q f : Rat) : Form → Rat
  | .two u => mix s q f u
  | .linear => mixLinear s q f

/-- the float32 evaluation of the return expression with the factor storage `st` -/
def Form.outF (rd : Rnd) (s q : Rat) (st : Store) : Form → Rat
  | .two u => mixF rd s q st u
  | .linear => mixLinearF rd s q st

/-- the values returned by the `call`s of an operation list on one object (surrogate `s`,
    quantized value `q` of the probe input): a call runs the prologue (`QState.step … .call`) and
    evaluates the return expression with the store it finds -/
def QState.outs (rd : Rnd) (fm : Form) (s q : Rat) (st : QState) : List Op → List Rat
  | [] => []
  | op :: ops =>
    (if op = .call then [fm.outF rd s q (st.step rd op).1.store] else [])
      ++ QState.outs rd fm s q (st.step rd op).1 ops

/-- the property's reading: the effective factor in force at every `call` of the list = float32 of
    the last value written before it (`cur` = the factor in force at the start) -/
def callFactors (r32 : Rat → Rat) (cur : Rat) : List Op → List Rat
  | [] => []
  | .update v :: ops => callFactors r32 (r32 v) ops
  | .updateFromVar v :: ops => callFactors r32 (r32 v) ops
  | .call :: ops => cur :: callFactors r32 cur ops
  | _ :: ops => callFactors r32 cur ops

/-- a shortcut taken AT CALL TIME (sound, see `C07_call_time_shortcut_sound`): "if the factor is 0
    right now, return the surrogate without quantizing" -/
def QState.outsShortcut (rd : Rnd) (fm : Form) (s q : Rat) (st : QState) : List Op → List Rat
  | [] => []
  | op :: ops =>
    (if op = .call then
        [if (st.step rd op).1.store.raw = 0 then s else fm.outF rd s q (st.step rd op).1.store]
      else [])
      ++ QState.outsShortcut rd fm s q (st.step rd op).1 ops

/-- NOT the code: an object that takes such a decision ONCE, whenever it is built (`build`, or the
    prologue of the first call), from the factor storage it has at that moment (`test`), caches it
    (`flag`) and from then on returns `fast` whenever the cached flag is set.  Kept for the
    counterexamples: decisions derived from the factor may not outlive the call. -/
structure Snap where
  st : QState
  flag : Bool
deriving Repr, DecidableEq, Inhabited

/-- does the operation run `build` -/
def QState.runsBuild (s : QState) : Op → Bool
  | .build _ => true
  | .call => !s.built
  | _ => false

def Snap.step (rd : Rnd) (test : Store → Bool) (c : Snap) (op : Op) : Snap :=
  { st := (c.st.step rd op).1,
    flag := if c.st.runsBuild op then test (c.st.step rd op).1.store else c.flag }

def Snap.outs (rd : Rnd) (fm : Form) (s q : Rat) (test : Store → Bool) (fast : Rat) (c : Snap) :
    List Op → List Rat
  | [] => []
  | op :: ops =>
    (if op = .call then
        [if (c.step rd test op).flag then fast else fm.outF rd s q (c.step rd test op).st.store]
      else [])
      ++ Snap.outs rd fm s q test fast (c.step rd test op) ops

/-- "a constant (python-number) factor of exactly 0": the test of the identity fast path -/
def Store.isConstZero (st : Store) : Bool := !st.isVar && decide (st.raw = 0)

/-- "a constant (python-number) factor of exactly 1": the twin test (skip the mix, return `xq`) -/
def Store.isConstOne (st : Store) : Bool := !st.isVar && decide (st.raw = 1)

end QKV.QNoise
