/-
  QKV.Model.LayerConfig — the configuration algebra of qkeras layers (property C13).

  Mirrors (as written; the defects repaired in the fix round — notes/C13.md — are mirrored in
  their repaired form):
    qkeras/quantizers.py   <quantizer>.get_config / from_config (`cls(**config)`), `get_quantizer`,
                           `_set_trainable_parameter`
    qkeras/qlayers.py      `Clip.get_config/from_config`, `QInitializer.get_config/from_config`,
                           `get_constraint`, `get_initializer`, `get_auto_range_constraint_initializer`,
                           `QActivation.get_config/from_config`, `QAdaptiveActivation.get_config`,
                           `QDense.get_config`
    qkeras/qconvolutional.py, qnormalization.py, qpooling.py, qrecurrent.py, qmac.py,
    qconv2d_batchnorm.py, qdepthwiseconv2d_batchnorm.py   layer `get_config` / `from_config`
    qkeras/utils.py        `_add_supported_quantized_objects` (the custom-object table),
                           `quantized_model_from_json` / `clone_model` / `load_qmodel`
                           (all three = Keras deserialiser run with that table)

  The model is table driven: one `QSpec` per quantizer class and one `LSpec` per layer class
  (constructor parameters with defaults, which of them `get_config` emits, how each is
  serialised).  The tables live in `QKV.Model.LayerConfigTables` and are compared exhaustively
  with `inspect.signature` / live `get_config()` keys on every run.

  Not modelled (runtime, exercised by the tie): Keras' own serialisation of Keras-native objects
  (initializers, regularizers, constraints, activation functions: opaque literals that round-trip
  unchanged), the functional-model container format, HDF5 I/O, `safe_eval` string parsing
  (strings stay opaque `raw` values — property C10).  Core Lean only.
-/
namespace QKV.LC

/-- Python literal / JSON value.  All numbers are exact rationals (`1` and `1.0` are identified);
    tuples and numpy arrays are lists. -/
inductive PyVal where
  | none
  | bool (b : Bool)
  | num (q : Rat)
  | str (s : String)
  | list (l : List PyVal)
  | dict (d : List (String × PyVal))
deriving Repr, Inhabited

abbrev Cfg := List (String × PyVal)

namespace PyVal

mutual
/-- structural equality test (executable; used by the driver only) -/
def beq : PyVal → PyVal → Bool
  | .none, .none => true
  | .bool a, .bool b => a == b
  | .num a, .num b => a == b
  | .str a, .str b => a == b
  | .list a, .list b => beqL a b
  | .dict a, .dict b => beqD a b
  | _, _ => false
def beqL : List PyVal → List PyVal → Bool
  | [], [] => true
  | x :: xs, y :: ys => beq x y && beqL xs ys
  | _, _ => false
def beqD : List (String × PyVal) → List (String × PyVal) → Bool
  | [], [] => true
  | (k, x) :: xs, (k', y) :: ys => k == k' && beq x y && beqD xs ys
  | _, _ => false
end

/-- Python truthiness (`if identifier:`) -/
def truthy : PyVal → Bool
  | .none => false
  | .bool b => b
  | .num q => q != 0
  | .str s => s != ""
  | .list l => !l.isEmpty
  | .dict d => !d.isEmpty

mutual
/-- every `class_name` string occurring anywhere inside a config value -/
def classNames : PyVal → List String
  | .dict d => classNamesD d
  | .list l => classNamesL l
  | _ => []
def classNamesL : List PyVal → List String
  | [] => []
  | x :: xs => classNames x ++ classNamesL xs
def classNamesD : List (String × PyVal) → List String
  | [] => []
  | (k, v) :: xs =>
    (match k, v with
     | "class_name", .str s => [s]
     | _, _ => []) ++ classNames v ++ classNamesD xs
end

mutual
/-- all leaves of a nested list, row-major (`np.array(v).ravel()`) -/
def leaves : PyVal → List PyVal
  | .list l => leavesL l
  | v => [v]
def leavesL : List PyVal → List PyVal
  | [] => []
  | x :: xs => leaves x ++ leavesL xs
end

/-- not a list: a leaf of an array literal -/
def isScalar : PyVal → Bool
  | .list _ => false
  | _ => true

end PyVal

inductive Err where
  | typeError       -- unexpected / missing constructor keyword
  | unknownObject   -- class name not resolvable at this deserialisation site
  | valueError      -- malformed value
  | attributeError  -- a numpy method (`.tolist()`) called on a plain Python object
deriving DecidableEq, Repr

/-- serialised object `{"class_name": c, "config": {...}}` (Keras adds `module` /
    `registered_name`, which its own deserialiser consumes; they are stripped by the harness) -/
def serObj (cls : String) (cfg : Cfg) : PyVal :=
  .dict [("class_name", .str cls), ("config", .dict cfg)]

/-! ## quantizers -/

/-- one quantizer class -/
structure QSpec where
  name : String
  /-- constructor parameters in order, with defaults -/
  params : List (String × PyVal)
  /-- keys of `get_config()` -/
  emits : List String
  /-- attributes that `get_config` emits although they are not constructor parameters.  Empty for
      every class since the fix round (quantized_hswish used to inherit quantized_bits.get_config
      with keep_negative / post_training_scale); kept so that such a defect can be mirrored -/
  extra : List (String × PyVal)
  /-- `_set_trainable_parameter`: 0 absent, 1 alpha := "auto_po2", 2 also symmetric := True -/
  trainable : Nat
  /-- arguments that `get_config` writes as `self.<arg>.tolist() if self.<arg> is not None else None`:
      the call raises AttributeError unless the live value is a numpy array / numpy scalar
      (observed on live instances by the static tie).  Empty for every class since
      `quantized_bits.get_config` writes `np.asarray(self.post_training_scale).tolist()`
      (finding C13-qbits-post_training_scale-not-numpy, repaired); kept so that such a defect is
      noticed (static tie) and can be mirrored -/
  tolist : List String := []
deriving Repr

/-- a quantizer instance: class name and the value of every constructor argument -/
structure QObj where
  cls : String
  args : Cfg
  /-- arguments whose live value is a plain Python object (list, tuple, float, int) rather than a
      numpy array / numpy scalar.  `PyVal` identifies lists and arrays, so this is the only place
      where the Python type is kept; it matters only for the arguments in `QSpec.tolist`. -/
  native : List String := []
deriving Repr

def QSpec.hasParam (s : QSpec) (k : String) : Bool := s.params.any (fun p => p.1 == k)

/-- `<quantizer>.get_config()` -/
def qGetConfig (s : QSpec) (q : QObj) : Cfg :=
  s.emits.map fun k =>
    (k, match q.args.lookup k with
        | some v => v
        | none => (s.extra.lookup k).getD .none)

/-- `<quantizer>.from_config(config)` = `cls(**config)`: unknown keyword → TypeError, absent
    keyword → default.  (`post_training_scale` list→array is the identity on `PyVal`.) -/
def qFromConfig (s : QSpec) (cfg : Cfg) : Except Err QObj :=
  if cfg.all (fun kv => s.hasParam kv.1) then
    .ok ⟨s.name, s.params.map fun p => (p.1, (cfg.lookup p.1).getD p.2), []⟩
  else .error .typeError

/-- does `<quantizer>.get_config()` raise?  `.tolist()` on an argument that is neither None nor a
    numpy value.  (Until the repair of C13-qbits-post_training_scale-not-numpy this was
    `quantized_bits(alpha="auto_po2", post_training_scale=[0.5])` or `=0.5`: the constructor accepts
    it — `np.array(post_training_scale)` — and `get_config` raised AttributeError; now no class of
    the tables has a `tolist` argument.)  `from_config` wraps the argument in `np.array`, so a
    reloaded quantizer has `native = []`. -/
def qGetConfigRaises (s : QSpec) (q : QObj) : Bool :=
  s.tolist.any fun k =>
    q.native.contains k &&
      (match q.args.lookup k with
       | some .none => false
       | none => false
       | some _ => true)

/-- what a quantizer becomes after `from_config (get_config q)` when that succeeds: emitted
    arguments keep their value, the others fall back to the constructor default -/
def qReload (s : QSpec) (q : QObj) : QObj :=
  ⟨s.name, s.params.map fun p =>
    (p.1, if s.emits.contains p.1 then (q.args.lookup p.1).getD .none else p.2), []⟩

/-- `_set_trainable_parameter()` -/
def setTrainable (s : QSpec) (q : QObj) : QObj :=
  match s.trainable, q.args.lookup "alpha" with
  | 0, _ => q
  | t, some .none =>
    ⟨q.cls, q.args.map (fun kv =>
      if kv.1 == "alpha" then (kv.1, .str "auto_po2")
      else if t == 2 && kv.1 == "symmetric" then (kv.1, .bool true)
      else kv), q.native⟩
  | _, _ => q

/-- value of a quantizer slot -/
inductive QVal where
  | none
  | obj (q : QObj)
  /-- an unparsed quantizer string (constructor default such as 'quantized_po2(5)'); opaque -/
  | str (s : String)
deriving Repr

/-! ## the layer-level value kinds -/

/-- `Clip` instance -/
structure ClipObj where
  minV : PyVal
  maxV : PyVal
  /-- inner Keras constraint (serialised form) or none -/
  inner : PyVal
  quantizer : QVal
deriving Repr

inductive Constr where
  | none
  | clip (c : ClipObj)
  /-- Keras-native constraint, opaque serialised form -/
  | keras (v : PyVal)
deriving Repr

inductive Init where
  | none
  /-- Keras-native initializer: serialised dict, or an identifier string -/
  | keras (v : PyVal)
  /-- `QInitializer(initializer, use_scale, quantizer)` -/
  | qinit (inner : PyVal) (useScale : PyVal) (q : QVal)
deriving Repr

/-- value of an activation slot -/
inductive Act where
  | none
  /-- a plain function (Keras activation or a qkeras function such as hard_sigmoid) by name -/
  | fn (name : String)
  | obj (q : QObj)
  /-- an unparsed quantizer string, e.g. QActivation("quantized_relu(3)"); opaque -/
  | raw (s : String)
deriving Repr

inductive Arg where
  | lit (v : PyVal)
  | q (v : QVal)
  | act (a : Act)
  | constr (c : Constr)
  | init (i : Init)
deriving Repr

/-- how a constructor parameter is treated by the constructor / get_config -/
inductive Kind where
  /-- literal passed through (also Keras-native objects in serialised form) -/
  | lit
  /-- constructor ignores the argument and always uses `v`
      (QConv2DBatchnorm does not forward `data_format`) -/
  | fixed (v : PyVal)
  /-- `X_quantizer`: `get_quantizer(x)`; `trainable` = `_set_trainable_parameter()` is applied -/
  | quant (trainable : Bool)
  /-- layer activation: `get_quantizer(activation)` if not None -/
  | act
  /-- `QActivation.activation`: stored raw; a dict is resolved by `activations.deserialize`
      i.e. through the custom-object table -/
  | rawAct
  /-- `QConv2D.mask`: reshaped to (h, w, 1, 1) -/
  | mask
  /-- `X_constraint` paired with quantizer slot `qslot`; wrapped by
      `get_auto_range_constraint_initializer` when every literal in `cond` is truthy -/
  | constr (qslot : String) (cond : List String)
  /-- `X_initializer`, same pairing; `rawQ` = wrapping happens before `_set_trainable_parameter`
      (QScaleShift) -/
  | init (qslot : String) (cond : List String) (rawQ : Bool)
deriving Repr

structure Param where
  name : String
  kind : Kind
  default : Arg
  /-- no default in the signature -/
  required : Bool
  /-- `get_config()` has this key -/
  emitted : Bool
  /-- the layer's inference computation reads this argument -/
  read : Bool
deriving Repr

structure LSpec where
  name : String
  params : List Param
  /-- the Keras base class turns `activation=None` into the `linear` function -/
  noneIsLinear : Bool
  /-- from_config pre-processing: 0 none, 1 drop `implementation` (QSimpleRNN),
      2 `implementation` 0 → 1 (QLSTM, QGRU) -/
  hook : Nat
deriving Repr

/-- a layer instance after its constructor ran: the value of every constructor parameter plus
    the keyword arguments forwarded to the Keras base class (name, trainable, dtype, groups, …) -/
structure Layer where
  cls : String
  kwargs : Cfg
  args : List (String × Arg)
deriving Repr

/-- the static tables and the opaque numeric oracle the functions below are parametrised by -/
structure Env where
  qspecs : List QSpec
  lspecs : List LSpec
  /-- keys of `_add_supported_quantized_objects` -/
  customObjects : List String
  /-- `max(1, quantizer.max())` (or 1.0 without a `max` attribute): numeric, property C01 -/
  clipBound : QVal → PyVal
  /-- names that Keras resolves itself when it deserialises a stock layer: its built-in activation
      names (compared with `tf.keras.activations` on every run) -/
  kerasNames : List String := []

def Env.findQ (E : Env) (n : String) : Option QSpec := E.qspecs.find? (fun s => s.name == n)
def Env.findL (E : Env) (n : String) : Option LSpec := E.lspecs.find? (fun s => s.name == n)
/-- names visible to `get_quantizer(dict)`: `globals()` of quantizers.py = every quantizer class -/
def Env.quantizerGlobals (E : Env) : List String := E.qspecs.map (·.name)

/-! ### serialisation (what `get_config` writes) -/

/-- `constraints.serialize(quantizer)` -/
def serQ (E : Env) : QVal → PyVal
  | .none => .none
  | .str s => .str s
  | .obj q =>
    match E.findQ q.cls with
    | some s => serObj q.cls (qGetConfig s q)
    | none => .none

/-- `get_quantizer(identifier)` for None / dict / str, resolving class names in `scope` -/
def deserQ (E : Env) (scope : List String) : PyVal → Except Err QVal
  | .none => .ok .none
  | .str s => .ok (.str s)
  | .dict d =>
    match d.lookup "class_name", d.lookup "config" with
    | some (.str c), some (.dict cfg) =>
      if scope.contains c then
        match E.findQ c with
        | some s => (qFromConfig s cfg).map .obj
        | none => .error .unknownObject
      else .error .unknownObject
    | _, _ => .error .valueError
  | _ => .error .valueError

/-- `Clip.get_config()`: only the two bounds -/
def clipGetConfig (c : ClipObj) : Cfg := [("min_value", c.minV), ("max_value", c.maxV)]

/-- `Clip.from_config(config)` -/
def clipFromConfig (E : Env) (cfg : Cfg) : Except Err ClipObj :=
  if cfg.all (fun kv => ["min_value", "max_value", "constraint", "quantizer"].contains kv.1) then
    match deserQ E E.quantizerGlobals ((cfg.lookup "quantizer").getD .none) with
    | .ok q => .ok ⟨(cfg.lookup "min_value").getD (.num 0), (cfg.lookup "max_value").getD (.num 1),
                    (cfg.lookup "constraint").getD .none, q⟩
    | .error e => .error e
  else .error .typeError

def serConstr : Constr → PyVal
  | .none => .none
  | .clip c => serObj "Clip" (clipGetConfig c)
  | .keras v => v

/-- `get_constraint(identifier, quantizer)` on a *truthy* identifier / `constraints.get` -/
def deserConstr (E : Env) : PyVal → Except Err Constr
  | .none => .ok .none
  | .dict d =>
    match d.lookup "class_name", d.lookup "config" with
    | some (.str "Clip"), some (.dict cfg) => (clipFromConfig E cfg).map .clip
    | _, _ => .ok (.keras (.dict d))
  | v => .ok (.keras v)

def serInit (E : Env) : Init → PyVal
  | .none => .none
  | .keras v => v
  | .qinit i u q => serObj "QInitializer" [("initializer", i), ("use_scale", u), ("quantizer", serQ E q)]

/-- `get_initializer(identifier)`; `QInitializer.from_config` indexes its three keys -/
def deserInit (E : Env) : PyVal → Except Err Init
  | .none => .ok .none
  | .dict d =>
    match d.lookup "class_name", d.lookup "config" with
    | some (.str "QInitializer"), some (.dict cfg) =>
      match cfg.lookup "initializer", cfg.lookup "use_scale", cfg.lookup "quantizer" with
      | some i, some u, some qv =>
        match deserQ E E.quantizerGlobals qv with
        | .ok q => .ok (.qinit i u q)
        | .error e => .error e
      | _, _, _ => .error .valueError
    | _, _ => .ok (.keras (.dict d))
  | v => .ok (.keras v)

def serAct (E : Env) : Act → PyVal
  | .none => .none
  | .fn n => .str n
  | .raw s => .str s
  | .obj q => serQ E (.obj q)

/-- does the string denote a quantizer (class name, possibly with arguments)?  Such strings are
    parsed by `safe_eval` (property C10) and stay opaque here. -/
def isQuantizerString (E : Env) (s : String) : Bool :=
  s.toList.contains '(' || E.quantizerGlobals.contains s

/-- layer constructor: `activation = get_quantizer(activation)` if not None -/
def deserAct (E : Env) : PyVal → Except Err Act
  | .none => .ok .none
  | .str s => .ok (if isQuantizerString E s then .raw s else .fn s)
  | v =>
    match deserQ E E.quantizerGlobals v with
    | .ok (.obj q) => .ok (.obj q)
    | .ok _ => .error .valueError
    | .error e => .error e

/-- `QActivation.from_config`: a dict goes through `activations.deserialize`, which resolves
    the class name in the custom-object scope (the table), not in quantizers.py -/
def deserRawAct (E : Env) : PyVal → Except Err Act
  | .str s => .ok (.raw s)
  | .dict d =>
    match deserQ E E.customObjects (.dict d) with
    | .ok (.obj q) => .ok (.obj q)
    | .ok _ => .error .valueError
    | .error e => .error e
  | _ => .error .valueError

/-- `QConv2D.__init__`: `np.reshape(mask, (h, w, 1, 1))` with h, w the first two dimensions -/
def reshapeMask : PyVal → Except Err PyVal
  | .none => .ok .none
  | .list rows =>
    match rows with
    | [] => .error .valueError
    | .list r0 :: _ =>
      let h := rows.length
      let w := r0.length
      let xs := PyVal.leaves (.list rows)
      if w ≠ 0 ∧ xs.length = h * w then
        .ok (.list ((List.range h).map fun i =>
          .list ((List.range w).map fun j => .list [.list [xs.getD (i * w + j) .none]])))
      else .error .valueError
    | _ => .error .valueError
  | _ => .error .valueError

/-- the (h, w, 1, 1) array with entry `f i j` at kernel position (i, j), as `self._mask.tolist()`
    writes it into the config -/
def mask4 (h w : Nat) (f : Nat → Nat → PyVal) : PyVal :=
  .list ((List.range h).map fun i => .list ((List.range w).map fun j => .list [.list [f i j]]))

/-- the same mask as the (h, w) array a user passes to `QConv2D(..., mask=...)` -/
def mask2 (h w : Nat) (f : Nat → Nat → PyVal) : PyVal :=
  .list ((List.range h).map fun i => .list ((List.range w).map fun j => f i j))

def serArg (E : Env) : Kind → Arg → PyVal
  | .lit, .lit v => v
  | .fixed _, .lit v => v
  | .mask, .lit v => v
  | .quant _, .q v => serQ E v
  | .act, .act a => serAct E a
  | .rawAct, .act a => serAct E a
  | .constr _ _, .constr c => serConstr c
  | .init _ _ _, .init i => serInit E i
  | _, _ => .none

def deserArg (E : Env) : Kind → PyVal → Except Err Arg
  | .lit, v => .ok (.lit v)
  | .fixed _, v => .ok (.lit v)
  | .mask, v => (reshapeMask v).map .lit
  | .quant _, v => (deserQ E E.quantizerGlobals v).map .q
  | .act, v => (deserAct E v).map .act
  | .rawAct, v => (deserRawAct E v).map .act
  | .constr _ _, v => (deserConstr E v).map .constr
  | .init _ _ _, v => (deserInit E v).map .init

/-! ### constructor normalisation -/

def normQ (E : Env) (trainable : Bool) : Arg → Arg
  | .q (.obj q) =>
    if trainable then
      match E.findQ q.cls with
      | some s => .q (.obj (setTrainable s q))
      | none => .q (.obj q)
    else .q (.obj q)
  | a => a

def litTruthy (args : List (String × Arg)) (k : String) : Bool :=
  match args.lookup k with
  | some (.lit v) => v.truthy
  | _ => false

def Constr.truthy : Constr → Bool
  | .none => false
  | _ => true

/-- class name `initializer.__class__.__name__` of a Keras-native initializer value -/
def initClassName : Init → String
  | .none => ""
  | .qinit _ _ _ => "QInitializer"
  | .keras (.dict d) => match d.lookup "class_name" with | some (.str c) => c | _ => ""
  | .keras (.str "zeros") => "Zeros"
  | .keras (.str "ones") => "Ones"
  | .keras (.str s) => s
  | .keras _ => ""

def alphaIsString : QVal → Bool
  | .obj q => match q.args.lookup "alpha" with | some (.str _) => true | _ => false
  | _ => false

/-- constraint half of `get_auto_range_constraint_initializer` (quantizer is not None) -/
def autoRangeC (E : Env) (q : QVal) (c : Constr) : Constr :=
  if c.truthy then c
  else
    let m := E.clipBound q
    .clip ⟨(match m with | .num x => .num (-x) | v => v), m, .none, q⟩

/-- initializer half -/
def autoRangeI (q : QVal) (i : Init) : Init :=
  match i with
  | .none => .none
  | i =>
    if ["Ones", "Zeros", "QInitializer"].contains (initClassName i) || alphaIsString q then i
    else match i with
      | .keras v => .qinit v (.bool true) q
      | i => i

def slotQ (E : Env) (spec : LSpec) (raw : List (String × Arg)) (qslot : String) (useRaw : Bool) : QVal :=
  match raw.lookup qslot with
  | some a =>
    let tr := spec.params.any fun p => p.name == qslot &&
                (match p.kind with | .quant true => true | _ => false)
    match (if useRaw then a else normQ E tr a) with
    | .q v => v
    | _ => .none
  | none => .none

/-- constructor treatment of the kinds that look at the argument alone -/
def normLocal (E : Env) (spec : LSpec) (k : Kind) (a : Arg) : Arg :=
  match k, a with
  | .fixed v, _ => .lit v
  | .quant t, a => normQ E t a
  | .act, .act .none => if spec.noneIsLinear then .act (.fn "linear") else .act .none
  | _, a => a

/-- what the constructor makes of parameter `p` given all raw (deserialised) arguments -/
def normParam (E : Env) (spec : LSpec) (raw : List (String × Arg)) (p : Param) : Arg :=
  let a := (raw.lookup p.name).getD p.default
  match p.kind, a with
  | .constr qslot cond, .constr c =>
    match slotQ E spec raw qslot false with
    | .none => .constr c
    | qv => if cond.all (litTruthy raw) then .constr (autoRangeC E qv c) else .constr c
  | .init qslot cond rawQ, .init i =>
    match slotQ E spec raw qslot rawQ with
    | .none => .init i
    | qv => if cond.all (litTruthy raw) then .init (autoRangeI qv i) else .init i
  | k, a => normLocal E spec k a

def normalize (E : Env) (spec : LSpec) (raw : List (String × Arg)) : List (String × Arg) :=
  spec.params.map fun p => (p.name, normParam E spec raw p)

/-! ### layer get_config / from_config -/

def Layer.arg (L : Layer) (k : String) : Arg := (L.args.lookup k).getD (.lit .none)

def LSpec.hasParam (s : LSpec) (k : String) : Bool := s.params.any (fun p => p.name == k)

/-- `<layer>.get_config()`: base-class keys first, then the class' own -/
def layerGetConfig (E : Env) (spec : LSpec) (L : Layer) : Cfg :=
  L.kwargs ++ (spec.params.filter (·.emitted)).map fun p => (p.name, serArg E p.kind (L.arg p.name))

/-- turn a list of named results into a named list, first error wins (left to right) -/
def collect : List (String × Except Err Arg) → Except Err (List (String × Arg))
  | [] => .ok []
  | (k, .ok a) :: rest =>
    match collect rest with
    | .ok r => .ok ((k, a) :: r)
    | .error e => .error e
  | (_, .error e) :: _ => .error e

def applyHook (hook : Nat) (cfg : Cfg) : Cfg :=
  match hook with
  | 1 => cfg.filter (fun kv => kv.1 != "implementation")
  | 2 => cfg.map fun kv =>
      if kv.1 == "implementation" then
        (kv.1, match kv.2 with | .num q => if q = 0 then .num 1 else .num q | v => v)
      else kv
  | _ => cfg

def deserParam (E : Env) (cfg : Cfg) (p : Param) : Except Err Arg :=
  match cfg.lookup p.name with
  | some v => deserArg E p.kind v
  | none => if p.required then .error .typeError else .ok p.default

/-- `<layer>.from_config(config)` = `cls(**config)` followed by the constructor body -/
def layerFromConfig (E : Env) (spec : LSpec) (cfg0 : Cfg) : Except Err Layer :=
  let cfg := applyHook spec.hook cfg0
  match collect (spec.params.map fun p => (p.name, deserParam E cfg p)) with
  | .ok raw => .ok ⟨spec.name, cfg.filter (fun kv => !spec.hasParam kv.1), normalize E spec raw⟩
  | .error e => .error e

/-! ### models: nodes, the three routes, evaluation -/

/-- one node of a functional model -/
inductive Node where
  /-- a qkeras layer -/
  | q (l : Layer)
  /-- a Keras-native layer (InputLayer, Flatten, …): class and literal config, resolved by Keras -/
  | keras (cls : String) (cfg : Cfg)
  /-- `QBidirectional(layer, backward_layer)`: Keras' Bidirectional wrapper around qkeras RNN
      layers, which Keras deserialises through the custom-object scope -/
  | bidir (kw : Cfg) (fwd : Layer) (bwd : Option Layer)
deriving Repr

/-- node of a model: the layer and the indices (into the list of earlier outputs) it consumes -/
structure MNode where
  node : Node
  inbound : List Nat
deriving Repr

abbrev Model := List MNode

/-- serialised node: class name, config, inbound -/
structure SNode where
  cls : String
  cfg : Cfg
  inbound : List Nat
deriving Repr

def serLayer (E : Env) (L : Layer) : PyVal :=
  match E.findL L.cls with
  | some spec => serObj L.cls (layerGetConfig E spec L)
  | none => .none

def nodeGetConfig (E : Env) : Node → String × Cfg
  | .q l => (l.cls, match E.findL l.cls with | some s => layerGetConfig E s l | none => [])
  | .keras c cfg => (c, cfg)
  | .bidir kw f b =>
    ("QBidirectional",
      kw ++ [("layer", serLayer E f)] ++
        (match b with | some bl => [("backward_layer", serLayer E bl)] | none => []))

/-- `model.to_json()` / the `model_config` attribute of the HDF5 file -/
def modelGetConfig (E : Env) (m : Model) : List SNode :=
  m.map fun n => let (c, cfg) := nodeGetConfig E n.node; ⟨c, cfg, n.inbound⟩

/-- Keras resolving a serialised *layer* whose class is a library class: custom-object table -/
def layerFromSer (E : Env) (v : PyVal) : Except Err Layer :=
  match v with
  | .dict d =>
    match d.lookup "class_name", d.lookup "config" with
    | some (.str c), some (.dict cfg) =>
      if E.customObjects.contains c then
        match E.findL c with
        | some s => layerFromConfig E s cfg
        | none => .error .unknownObject
      else .error .unknownObject
    | _, _ => .error .valueError
  | _ => .error .valueError

/-- is `c` a class of the library (as opposed to a Keras-native class)? -/
def Env.isLibraryClass (E : Env) (c : String) : Bool :=
  (E.findL c).isSome || c == "QBidirectional"

/-- config keys of a stock Keras layer whose string value Keras resolves as an identifier -/
def identifierKeys : List String := ["activation", "recurrent_activation"]

/-- Keras resolving an identifier string INSIDE the custom-object scope the three routes install:
    a key of the table wins over Keras' own function of the same name (the value then denotes the
    table's object, written `{"custom_object": name}` here) -/
def resolveName (E : Env) : PyVal → PyVal
  | .str s => if E.customObjects.contains s then .dict [("custom_object", .str s)] else .str s
  | v => v

/-- what a stock Keras layer's config means after a route -/
def kerasNodeCfg (E : Env) (cfg : Cfg) : Cfg :=
  cfg.map fun kv => if identifierKeys.contains kv.1 then (kv.1, resolveName E kv.2) else kv

def nodeFromConfig (E : Env) (s : SNode) : Except Err Node :=
  if E.isLibraryClass s.cls then
    if E.customObjects.contains s.cls then
      if s.cls == "QBidirectional" then
        match s.cfg.lookup "layer" with
        | some lv =>
          match layerFromSer E lv with
          | .ok f =>
            let kw := s.cfg.filter (fun kv => kv.1 != "layer" && kv.1 != "backward_layer")
            match s.cfg.lookup "backward_layer" with
            | some bv =>
              match layerFromSer E bv with
              | .ok b => .ok (.bidir kw f (some b))
              | .error e => .error e
            | none => .ok (.bidir kw f none)
          | .error e => .error e
        | none => .error .typeError
      else
        match E.findL s.cls with
        | some spec => (layerFromConfig E spec s.cfg).map .q
        | none => .error .unknownObject
    else .error .unknownObject
  else .ok (.keras s.cls (kerasNodeCfg E s.cfg))

def collectNodes : List (Except Err MNode) → Except Err Model
  | [] => .ok []
  | .ok n :: rest =>
    match collectNodes rest with
    | .ok r => .ok (n :: r)
    | .error e => .error e
  | .error e :: _ => .error e

/-- `quantized_model_from_json` / `clone_model` / `load_qmodel`: all three hand the serialised
    model to Keras' deserialiser with the custom-object table installed -/
def modelFromConfig (E : Env) (sm : List SNode) : Except Err Model :=
  collectNodes (sm.map fun s =>
    match nodeFromConfig E s with
    | .ok n => .ok ⟨n, s.inbound⟩
    | .error e => .error e)

/-! ### `get_config` raising (numpy methods on plain Python values) -/

def QVal.getConfigRaises (E : Env) : QVal → Bool
  | .obj q => match E.findQ q.cls with | Option.some s => qGetConfigRaises s q | Option.none => false
  | _ => false

/-- serialising this argument calls a quantizer `get_config` that raises -/
def argGetConfigRaises (E : Env) : Kind → Arg → Bool
  | .quant _, .q v => v.getConfigRaises E
  | .act, .act (.obj q) => (QVal.obj q).getConfigRaises E
  | .rawAct, .act (.obj q) => (QVal.obj q).getConfigRaises E
  | .init _ _ _, .init (.qinit _ _ v) => v.getConfigRaises E
  | _, _ => false

/-- `<layer>.get_config()` raises (so do `to_json`, `save` and `clone_model`) -/
def layerGetConfigRaises (E : Env) (spec : LSpec) (L : Layer) : Bool :=
  (spec.params.filter (·.emitted)).any fun p => argGetConfigRaises E p.kind (L.arg p.name)

def Layer.getConfigRaises (E : Env) (L : Layer) : Bool :=
  match E.findL L.cls with
  | some spec => layerGetConfigRaises E spec L
  | none => false

def nodeGetConfigRaises (E : Env) : Node → Bool
  | .q l => l.getConfigRaises E
  | .keras _ _ => false
  | .bidir _ f b => f.getConfigRaises E || (match b with | some bl => bl.getConfigRaises E | none => false)

def modelGetConfigRaises (E : Env) (m : Model) : Bool := m.any fun n => nodeGetConfigRaises E n.node

/-- a route as a whole: serialise (may raise), then Keras' deserialiser with the table -/
def rebuild (E : Env) (m : Model) : Except Err Model :=
  if modelGetConfigRaises E m then .error .attributeError
  else modelFromConfig E (modelGetConfig E m)

/-- the constructor arguments the inference computation of a layer reads -/
def readArgs (spec : LSpec) (L : Layer) : List (String × Arg) :=
  (spec.params.filter (·.read)).map fun p => (p.name, L.arg p.name)

/-- Layer semantics, abstract: ANY function of the class name, the forwarded keyword arguments,
    the arguments in the read set, the layer's weights and its inputs.  (The concrete functions
    are property C11; C13 only needs that nothing else is read.) -/
structure Sem (W V : Type) where
  layer : String → Cfg → List (String × Arg) → W → List V → V
  keras : String → Cfg → W → List V → V
  bidir : Cfg → V → Option V → V

def layerView (E : Env) (L : Layer) : String × Cfg × List (String × Arg) :=
  (L.cls, L.kwargs, match E.findL L.cls with | some s => readArgs s L | none => [])

def evalLayer {W V : Type} (E : Env) (S : Sem W V) (L : Layer) (w : W) (xs : List V) : V :=
  let v := layerView E L
  S.layer v.1 v.2.1 v.2.2 w xs

def evalNode {W V : Type} (E : Env) (S : Sem W V) (n : Node) (w : W) (xs : List V) : V :=
  match n with
  | .q l => evalLayer E S l w xs
  | .keras c cfg => S.keras c cfg w xs
  | .bidir kw f b => S.bidir kw (evalLayer E S f w xs) (b.map fun bl => evalLayer E S bl w xs)

/-- evaluate the nodes in order; `acc` holds the outputs so far (model inputs first);
    node i uses weights `ws i` -/
def evalFrom {W V : Type} [Inhabited V] (E : Env) (S : Sem W V) (ws : Nat → W) :
    List MNode → Nat → List V → List V
  | [], _, acc => acc
  | n :: rest, i, acc =>
    let xs := n.inbound.map fun j => acc.getD j default
    evalFrom E S ws rest (i + 1) (acc ++ [evalNode E S n.node (ws i) xs])

/-- `model.predict`: all node outputs given the model inputs -/
def predict {W V : Type} [Inhabited V] (E : Env) (S : Sem W V) (m : Model) (ws : Nat → W)
    (inputs : List V) : List V :=
  evalFrom E S ws m 0 inputs

/-! ### quantizer OBJECTS shared between slots (Python object identity) and `get_quantizers()`

  A layer constructor keeps the quantizer OBJECT it is given (`self.X_quantizer_internal =
  get_quantizer(X_quantizer)` returns an object argument unchanged), stores the same references in
  `self.quantizers` (what `get_quantizers()` reports) and then calls `_set_trainable_parameter()`
  IN PLACE on the trainable slots.  One object passed for several slots (kernel and bias, kernel of
  two layers, …) is therefore switched for all of them.  A rebuilt layer has one fresh object per
  slot, built from the slot's config.  The heap makes the aliasing explicit. -/

def Kind.isQuant : Kind → Bool
  | .quant _ => true
  | _ => false

def Kind.isTrainableQuant : Kind → Bool
  | .quant true => true
  | _ => false

/-- `_set_trainable_parameter()` on an object of any class (classes outside the tables: no method) -/
def setTr (E : Env) (q : QObj) : QObj :=
  match E.findQ q.cls with
  | some s => setTrainable s q
  | none => q

/-- heap of quantizer objects: object id ↦ current state -/
abbrev QHeap := Nat → QObj

/-- in-place mutation of object `i` -/
def QHeap.mutate (h : QHeap) (i : Nat) (f : QObj → QObj) : QHeap :=
  fun j => if j = i then f (h j) else h j

/-- one step of the constructor body for parameter `p`: `_set_trainable_parameter()` on the object
    the slot refers to, if the slot is a trainable quantizer slot holding an object -/
def constructStep (E : Env) (ref : String → Option Nat) (h : QHeap) (p : Param) : QHeap :=
  match p.kind.isTrainableQuant, ref p.name with
  | true, some i => h.mutate i (setTr E)
  | _, _ => h

/-- the quantizer part of a layer constructor run on quantizer OBJECTS: slot `k` refers to object
    `ref k` (none: no object in the slot), slots may share an object; the heap afterwards -/
def constructHeap (E : Env) (spec : LSpec) (ref : String → Option Nat) (h : QHeap) : QHeap :=
  spec.params.foldl (constructStep E ref) h

/-- what slot `k` sees when it dereferences its object — used by `call`, by `get_config` and, since
    `self.quantizers` holds the very same references, reported by `get_quantizers()` -/
def slotValue (h : QHeap) (ref : String → Option Nat) (k : String) : QVal :=
  match ref k with
  | some i => .obj (h i)
  | none => .none

/-- does some trainable slot of the class refer to object `j`? -/
def touched (spec : LSpec) (ref : String → Option Nat) (j : Nat) : Bool :=
  spec.params.any fun p => p.kind.isTrainableQuant && ref p.name == some j

/-- `layer.get_quantizers()`: the `*_quantizer_internal` objects in the order `slots` in which the
    class lists them in `self.quantizers` (table `reportedSlots`, observed live) -/
def reportedQuantizers (slots : List String) (L : Layer) : List (String × Arg) :=
  slots.map fun k => (k, L.arg k)

/-! ### process-level state: `set_internal_sigmoid`

  quantized_sigmoid / quantized_tanh / quantized_relu(use_sigmoid) / quantized_ulaw and the
  stochastic classes evaluate the module global `_sigmoid` AT CALL TIME.  No object of the library
  keeps a copy of the switch: construction (`layerFromConfig`, `modelFromConfig`) has no mode
  argument at all, and the layer semantics receives the CURRENT mode. -/

inductive SigmoidMode where
  | hard | smooth | real
deriving DecidableEq, Repr

/-- layer semantics under the process switch: one `Sem` per current mode -/
abbrev ModeSem (W V : Type) := SigmoidMode → Sem W V

/-- a route run while the switch is at `built`: the mode is not an input of the deserialiser -/
def rebuildUnder (_built : SigmoidMode) (E : Env) (m : Model) : Except Err Model := rebuild E m

/-- `model.predict` while the switch is at `now` -/
def predictUnder {W V : Type} [Inhabited V] (E : Env) (S : ModeSem W V) (now : SigmoidMode)
    (m : Model) (ws : Nat → W) (inputs : List V) : List V :=
  predict E (S now) m ws inputs

/-! ### constructor arguments of the Keras base class that reach it through `**kwargs`

  `QGlobalAveragePooling2D(keepdims=True)`, `QConv2D(groups=2)`, `QConv1D(data_format=…)`,
  `QLSTM(time_major=True)`: the library class does not name the argument; it travels through
  `**kwargs` to the Keras base class, which stores it as an attribute (read by the library's own
  `call`: `K.sum(..., keepdims=self.keepdims)`), and only the BASE class' `get_config` writes it
  (`super().get_config()`).  `Layer.kwargs` is the serialised form of those attributes; the functions
  below say where it comes from. -/

/-- one base-class constructor argument of a layer class -/
structure BaseKw where
  name : String
  default : PyVal
  /-- `get_config()` of the class has the key -/
  emitted : Bool
  /-- the inference computation reads the attribute -/
  read : Bool
deriving Repr

/-- the attributes a constructed layer holds for its base-class arguments: the caller's value if the
    caller gave one (`cls(..., **user)`), the base class' default otherwise -/
def heldKw (bks : List BaseKw) (user : Cfg) : Cfg :=
  bks.map fun b => (b.name, (user.lookup b.name).getD b.default)

/-- the part of `get_config()` that carries base-class arguments -/
def kwGetConfig (bks : List BaseKw) (held : Cfg) : Cfg :=
  (bks.filter (·.emitted)).map fun b => (b.name, (held.lookup b.name).getD b.default)

/-- `cls(**config)`: the same constructor, the config in the place of the caller's keywords -/
def kwFromConfig (bks : List BaseKw) (cfg : Cfg) : Cfg := heldKw bks cfg

/-! ### the caller's own `custom_objects` on the three routes

  `clone_model(model, custom_objects)`, `quantized_model_from_json(json, custom_objects)` and
  `load_qmodel(path, custom_objects)` all start with: `{}` if the argument is falsy, a deep copy of it
  otherwise, then `_add_supported_quantized_objects(copy)` — the library's keys are ASSIGNED, so they are
  present whatever the caller passed and win over a caller's key of the same name. -/

inductive Route where
  | json | clone | h5
deriving Repr, DecidableEq

/-- the keys of the table Keras' deserialiser sees on route `r` when the caller passes a dict with the
    keys `user` (None / `{}` = `[]`) -/
def routeTable (E : Env) (_r : Route) (user : List String) : List String :=
  (user.filter fun k => !E.customObjects.contains k) ++ E.customObjects

def Env.withUser (E : Env) (r : Route) (user : List String) : Env :=
  { E with customObjects := routeTable E r user }

/-- route `r` with the caller's custom objects: serialise (the original's own config), then Keras'
    deserialiser with the route's table -/
def rebuildWith (E : Env) (r : Route) (user : List String) (m : Model) : Except Err Model :=
  if modelGetConfigRaises E m then .error .attributeError
  else modelFromConfig (E.withUser r user) (modelGetConfig E m)

end QKV.LC
