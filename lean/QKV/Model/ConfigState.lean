/-
  QKV.Model.ConfigState — what a quantizer instance holds BESIDES its stored constructor
  arguments, the process-level switches `__call__` reads, and the histories an instance can go
  through before `get_config()` is taken (strengthening round of C09).  Core Lean only.

  * hidden per-instance state computed by `__init__` from its arguments and read by `__call__`:
      quantized_po2 / quantized_relu_po2   `_min_exp`, `_max_exp`
                                           (`_need_exponent_sign_bit_check`, `_get_min_max_exponents`)
      quantized_bits / quantized_hswish    `freeze_scale`
    (`hiddenInit`); the complete inventory of non-argument attributes of every class is
    `hiddenNames` (tied to `vars(q)` of the live objects).
  * process-level state (`World`): the sigmoid approximation chosen by `set_internal_sigmoid`,
    `K.image_data_format()`, `K.learning_phase()`.  The constructors read none of it
    (`constructI` ignores its `World` argument: that IS the model of the code as written);
    `__call__` of some instances reads it at call time (`readsSigmoid`, `readsDataFormat`).
  * histories on one object: `__call__` (changes `built` / `scale` only, which every call
    recomputes), `_set_trainable_parameter()` (a layer that is handed the quantizer calls it),
    `update_qnoise_factor(v)`, switching the process-level state.
  * value forms of an option (python literal, numpy scalar, 0-d ndarray, tf.Tensor, tf.Variable)
    and what the Keras serialize/deserialize pair does with each.
-/
import QKV.Model.Basic
import QKV.Model.Config
namespace QKV.Py

/-! ### process-level state -/

/-- `set_internal_sigmoid(mode)`: the module-level `_sigmoid` -/
inductive SigmoidMode where
  | hard | smooth | real
  deriving DecidableEq, Repr, Inhabited

def SigmoidMode.name : SigmoidMode → String
  | .hard => "hard" | .smooth => "smooth" | .real => "real"

structure World where
  sigmoid : SigmoidMode := .hard        -- quantizers._sigmoid
  channelsLast : Bool := true           -- K.image_data_format() == "channels_last"
  learningPhase : Bool := false         -- K.learning_phase()
  deriving DecidableEq, Repr, Inhabited

/-! ### hidden per-instance state -/

/-- `_need_exponent_sign_bit_check(max_value)` on an argument that passed the `< 0` check -/
def needExponentSignBit (maxValue : PyVal) : Int :=
  match maxValue with
  | .none => 1
  | v => match v.numVal with
    | some m => if 1 < m then 1 else 0
    | Option.none => 1

/-- integer value of a `bits` argument given as int / bool / integral float; `isInt` tells
    whether Python computes `2**(…)` on ints (int result for a non-negative exponent) -/
def intArg (v : PyVal) : Option (Int × Bool) :=
  match v with
  | .int i => some (i, true)
  | .bool b => some ((if b then 1 else 0), true)
  | .float q => if q.den = 1 then some (q.num, false) else Option.none
  | _ => Option.none

/-- Python number `r` as produced by integer arithmetic (`int`) or float arithmetic -/
def pyNum (isInt : Bool) (r : Rat) : PyVal :=
  if isInt && r.den = 1 then .int r.num else .float r

/-- `(min_exp, max_exp)`:
      quantized_po2       `_get_min_max_exponents(bits - 1, need, quadratic)`
      quantized_relu_po2  `-2**(bits - need)`, `2**(bits - need) - 1`, then the same
                          `max_exp = 2 * (max_exp // 2)` for the quadratic approximation
    (`2**e` of a negative `e` is a Python float; `//` is floor division) -/
def po2Exponents (relu : Bool) (bits : Int) (need : Int) (quad : Bool) : Rat × Rat :=
  let eff : Int := (if relu then bits else bits - 1) - need
  let mn : Rat := - QKV.pow2 eff
  let mx : Rat := QKV.pow2 eff - 1
  (mn, if quad then 2 * ((mx / 2).floor : Rat) else mx)

/-- hidden attributes `__init__` derives from its (bound) arguments -/
def hiddenInit (c : Cls) (e : Env) : Env :=
  match c with
  | .quantized_po2 | .quantized_relu_po2 =>
    match intArg (e.get "bits") with
    | Option.none => []
    | some (b, isInt) =>
      let relu := c == .quantized_relu_po2
      let eff : Int := (if relu then b else b - 1) - needExponentSignBit (e.get "max_value")
      let r := po2Exponents relu b (needExponentSignBit (e.get "max_value"))
                 (e.get "quadratic_approximation").truthy
      let isI := isInt && decide (0 ≤ eff)
      [("_min_exp", pyNum isI r.1), ("_max_exp", pyNum isI r.2)]
  | .quantized_bits =>
    -- string alpha: scale is trainable unless a post-training scale freezes it
    [("freeze_scale", .bool (if (e.get "alpha").isStr then !(e.get "post_training_scale").isNone
                            else true))]
  | .quantized_hswish =>
    -- through quantized_bits.__init__, which never gets a post_training_scale from hswish
    [("freeze_scale", .bool (!(e.get "alpha").isStr))]
  | _ => []

/-- the options `hiddenInit` reads -/
def hiddenReads : Cls → List String
  | .quantized_po2 | .quantized_relu_po2 => ["bits", "max_value", "quadratic_approximation"]
  | .quantized_bits => ["alpha", "post_training_scale"]
  | .quantized_hswish => ["alpha"]
  | _ => []

/-- complete inventory of the attributes a freshly constructed instance holds besides its
    constructor arguments (`vars(q)` minus the signature names), in `__init__` order -/
def hiddenNames : Cls → List String
  | .quantized_linear =>
    -- the public names are properties over these private copies
    ["built", "_bits", "_integer", "_keep_negative", "_use_stochastic_rounding", "_scale_axis",
     "_use_variables", "quantization_scale"]
  | .quantized_bits => ["built", "scale", "freeze_scale"]
  | .bernoulli => ["built", "bits", "default_alpha", "scale"]
  | .ternary => ["built", "bits", "default_alpha", "default_threshold", "scale"]
  | .stochastic_ternary =>
    ["built", "bits", "use_stochastic_rounding", "default_alpha", "default_threshold", "scale"]
  | .binary => ["built", "bits", "default_alpha", "scale"]
  | .stochastic_binary =>
    ["built", "use_01", "bits", "use_stochastic_rounding", "default_alpha", "scale", "scale_axis",
     "elements_per_scale", "min_po2_exponent", "max_po2_exponent"]
  | .quantized_relu | .quantized_ulaw | .quantized_tanh | .quantized_sigmoid => ["built"]
  | .quantized_po2 | .quantized_relu_po2 => ["built", "_min_exp", "_max_exp"]
  | .quantized_hswish =>
    ["built", "keep_negative", "post_training_scale", "scale", "freeze_scale", "use_ste",
     "elements_per_scale", "min_po2_exponent", "max_po2_exponent"]

/-- a live quantizer: class, stored constructor arguments, derived hidden attributes -/
structure Inst where
  q : Q
  hid : Env
  deriving DecidableEq, Repr

/-- constructor body on fully bound arguments (same verdict and fields as `init`) -/
def initI (c : Cls) (e : Env) : Except Err Inst :=
  match check c e with
  | some err => .error err
  | Option.none => .ok ⟨⟨c, normInit c e⟩, hiddenInit c e⟩

/-- `cls(*args, **kw)` executed while the process is in state `_w`.  No `__init__` reads the
    process-level state: nothing of it is captured in the instance. -/
def constructI (_w : World) (c : Cls) (args : List PyVal) (kw : Env) : Except Err Inst :=
  match bind (params c) args kw with
  | .error err => .error err
  | .ok e => initI c e

def fromConfigI (w : World) (c : Cls) (cfg : Env) : Except Err Inst := constructI w c [] cfg

def getQuantizerDictI (w : World) (d : Serialized) : Except Err Inst :=
  match lookup d.className with
  | Option.none => .error .unknownName
  | some c => fromConfigI w c d.config

/-! ### what `__call__` reads of the process-level state (at call time) -/

/-- `__call__` evaluates the module-level `_sigmoid` -/
def readsSigmoid (q : Q) : Bool :=
  match q.cls with
  | .bernoulli | .stochastic_binary | .stochastic_ternary | .quantized_sigmoid =>
    !(q.get "use_real_sigmoid").truthy
  | .quantized_relu => (q.get "use_sigmoid").truthy
  | .quantized_ulaw => true
  | .quantized_tanh => !(q.get "use_real_tanh").truthy
  | _ => false

/-- the effective sigmoid approximation of a call made in world `w` -/
def effSigmoid (w : World) (i : Inst) : Option SigmoidMode :=
  if readsSigmoid i.q then some w.sigmoid else Option.none

/-! ### histories on one object -/

/-- `_set_trainable_parameter()` -/
def setTrainable (i : Inst) : Inst :=
  if (i.q.get "alpha").isNone then
    match i.q.cls with
    | .quantized_linear =>
      ⟨⟨i.q.cls, (i.q.env.set "alpha" (.str "auto_po2")).set "symmetric" (.bool true)⟩, i.hid⟩
    | .quantized_bits | .quantized_hswish =>
      ⟨⟨i.q.cls, (i.q.env.set "alpha" (.str "auto_po2")).set "symmetric" (.bool true)⟩,
       i.hid.set "freeze_scale" (.bool false)⟩
    | .bernoulli | .ternary | .stochastic_ternary | .binary | .stochastic_binary =>
      ⟨⟨i.q.cls, i.q.env.set "alpha" (.str "auto_po2")⟩, i.hid⟩
    | _ => i
  else i

/-- `update_qnoise_factor(v)` (classes with a `qnoise_factor` argument; `AttributeError` for the
    others is not part of a history) -/
def updateQnoise (v : PyVal) (i : Inst) : Inst :=
  if (paramNames i.q.cls).contains "qnoise_factor" then
    ⟨⟨i.q.cls, i.q.env.set "qnoise_factor" v⟩, i.hid⟩
  else i

inductive Step where
  | call                       -- q(x): `built`, `scale` only
  | setTrainable
  | updateQnoise (v : PyVal)
  | world (w : World)          -- set_internal_sigmoid / set_image_data_format / learning phase
  deriving DecidableEq, Repr

def step : World × Inst → Step → World × Inst
  | (w, i), .call => (w, i)
  | (w, i), .setTrainable => (w, setTrainable i)
  | (w, i), .updateQnoise v => (w, updateQnoise v i)
  | (_, i), .world w' => (w', i)

def runHistory (s : World × Inst) (steps : List Step) : World × Inst := steps.foldl step s

/-! ### value forms and the Keras pair -/

/-- how an option value is held -/
inductive Form where
  | literal     -- python None / bool / int / float / str / list
  | npScalar    -- np.float32, np.int64, np.bool_, …
  | ndarray     -- numpy array (0-d for a scalar option)
  | tensor      -- tf.Tensor (tf.constant)
  | variable    -- tf.Variable
  | array       -- numpy array with >= 1 dimension (per-channel `alpha`, `post_training_scale`, …)
  deriving DecidableEq, Repr, Inhabited

/-- forms that `serialize_keras_object` wraps into a tagged dictionary (`__tensor__` for a
    tf.Tensor, `__numpy__` for a numpy array with at least one dimension; a 0-d array and a numpy
    scalar leave through `.item()`) -/
def Form.tagged (f : Form) : Bool := f == .tensor || f == .array

/-- form of the value `get_config()` emits for key `k`, given the form of the stored attribute:
    `qnoise_factor` held in a `tf.Variable` is exported through `.numpy()` by every class that
    has the option (`quantized_linear` included since the fix round: its `get_config` used to
    hand the variable out as it was); `post_training_scale` (emitted by `quantized_bits` only) is
    exported through `np.asarray(...).tolist()`, a python list, whatever it is held in; every
    other value is emitted in the form it is held in -/
def exportForm (_c : Cls) (k : String) (f : Form) : Form :=
  if k == "qnoise_factor" && f == .variable then .npScalar
  else if k == "post_training_scale" then .literal
  else f

inductive KerasOutcome where
  | ok                               -- from_config receives the values
  | serializeRaises                  -- serialize_keras_object: TypeError (tf.Variable)
  | arrivesAsDict (keys : List String)  -- tf.Tensor / ndarray → {"class_name": "__tensor__" / "__numpy__", …}
  deriving DecidableEq, Repr

/-- `deserialize_keras_object(serialize_keras_object(q))` on a configuration whose values have
    the given forms: variables cannot be serialised, tensors and numpy arrays of >= 1 dimension
    are serialised into `__tensor__` / `__numpy__` dictionaries that are handed to
    `cls.from_config` undecoded -/
def kerasOutcome (forms : List (String × Form)) : KerasOutcome :=
  if forms.any (fun p => p.2 == .variable) then .serializeRaises
  else match (forms.filter fun p => p.2.tagged).map Prod.fst with
    | [] => .ok
    | ks => .arrivesAsDict ks

/-- forms of the emitted configuration, from the forms of the stored attributes -/
def configForms (c : Cls) (stored : List (String × Form)) : List (String × Form) :=
  (serialised c).map fun k => (k, exportForm c k ((stored.lookup k).getD .literal))

/-! ### value forms through the two dictionary routes (strengthening round 2, seed C09-8) -/

/-- form in which the quantizer rebuilt by `cls.from_config(cfg)` / `get_quantizer(dict)` holds
    option `k`, given the form `f` of the configuration value: every constructor stores what it
    is handed (`self.k = k`); the only conversion on the way in is `quantized_bits.from_config`,
    which turns a `post_training_scale` that is not None back into an ndarray.
    `__call__` discriminates on the form (`isinstance(self.alpha, np.ndarray)` selects the
    per-channel branch of `ternary`, `binary`, `_get_least_squares_scale`; everything else goes
    through `float(self.alpha)`), so the form is part of what a round trip has to restore. -/
def importForm (_c : Cls) (k : String) (f : Form) (isNone : Bool) : Form :=
  -- (`post_training_scale` is a key of `quantized_bits` only; like `exportForm` the rule is
  --  stated per key, the class parameter is kept for symmetry)
  if k == "post_training_scale" && !isNone then .array else f

/-- form of option `k` in the quantizer rebuilt through a dictionary route, from the form the
    original holds it in -/
def rebuiltForm (c : Cls) (k : String) (f : Form) (isNone : Bool) : Form :=
  importForm c k (exportForm c k f) isNone

/-- forms of all serialised options of the rebuilt quantizer (`nones`: the options whose value
    is None) -/
def rebuiltForms (c : Cls) (stored : List (String × Form)) (nones : List String) :
    List (String × Form) :=
  (serialised c).map fun k =>
    (k, rebuiltForm c k ((stored.lookup k).getD .literal) (nones.contains k))

end QKV.Py
