/-
  QKV.Model.Sched — qkeras/callbacks.py `QNoiseScheduler` as a state machine (property C07).
  Core Lean only.  Mirrors, as written: `__init__` (fields), `calculate_qnoise_factor`,
  `set_qnoise_factor`, `set_quantizers`, `get_quantizers`, `update_qnoise_factor`,
  `on_train_begin`, `on_epoch_begin`, `on_epoch_end` (no `log_dir`), `on_train_batch_begin`.

  Quantizer objects are copied by value into the callback's list at `on_train_begin`
  (in Python they are shared references; every copy of a shared object receives the same
  operation sequence, so the factors agree — aliasing is otherwise not modelled).
-/
import QKV.Model.QNoise
namespace QKV.Sched
open QKV.QNoise

/-- what the callback can tell about a quantizer object through `hasattr` -/
inductive Kind where
  /-- quantized_bits / quantized_relu / quantized_po2 / quantized_relu_po2 / quantized_hswish:
      attributes `qnoise_factor`, `use_ste`, `use_variables` (plain, settable), `built` -/
  | std
  /-- quantized_linear: `qnoise_factor`, `built`, no `use_ste`; `use_variables` is a read-only
      property, so `quantizer.use_variables = True` raises AttributeError — unless the property
      already returns `True` (constructed with `use_variables=True`): the trackable `__setattr__`
      then accepts the assignment as a no-op [probed] -/
  | linear
  /-- anything without a `qnoise_factor` attribute (binary, ternary, …, `None`) -/
  | noKnob
deriving Repr, DecidableEq, Inhabited

structure QObj where
  /-- object identity label (ghost; lets `get_quantizers` results be compared by identity) -/
  tag : Nat
  kind : Kind
  useSte : Bool
  st : QState
deriving Repr, DecidableEq, Inhabited

def QObj.hasKnob (q : QObj) : Bool :=
  match q.kind with
  | .noKnob => false
  | _ => true

/-- a layer as `get_quantizers` sees it, plus the quantizers it cannot see -/
structure Layer where
  /-- `layer.quantizers` if the attribute exists (entries may be `None` = `noKnob`) -/
  quantizers : Option (List QObj)
  /-- `layer.quantizer` if the attribute exists -/
  quantizer : Option QObj
  /-- quantizer objects the layer holds elsewhere: `layer.activation` of QDense/QConv*,
      `layer.cell.quantizers` of the recurrent layers, quantizers of the layers of a nested model -/
  hidden : List QObj
deriving Repr, Inhabited

/-- the body of the `for layer` loop of `get_quantizers` -/
def layerQuantizers (l : Layer) : List QObj :=
  (match l.quantizers with
   | some qs => qs.filter QObj.hasKnob
   | none => []) ++
  (match l.quantizer with
   | some q => if q.hasKnob then [q] else []
   | none => [])

/-- `QNoiseScheduler.get_quantizers(model)` -/
def getQuantizers (layers : List Layer) : List QObj :=
  layers.foldl (fun acc l => acc ++ layerQuantizers l) []

/-- everything a layer holds in the two attributes the callback looks at, in lookup order -/
def Layer.held (l : Layer) : List QObj :=
  (l.quantizers.getD []) ++ l.quantizer.toList

/-- every quantizer object of the layer -/
def Layer.all (l : Layer) : List QObj := l.held ++ l.hidden

structure Cfg where
  start : Int
  finish : Int
  /-- `freq_type == "step"` (else `"epoch"`) -/
  stepMode : Bool
  updateFreq : Int
  initial : Int
  useSte : Bool
deriving Repr, DecidableEq, Inhabited

/-- numeric environment: `pw` is `np.power(·, exponent)` (oracle input / parameter), `rd` the
    roundings (`Rnd.exact` for the real-number reading, `Rnd.ieee` for the code). -/
structure Num where
  pw : Rat → Rat
  rd : Rnd

/-- `calculate_qnoise_factor(freq)` -/
def calcF (c : Cfg) (n : Num) (freq : Int) : Rat :=
  if freq < c.start then 0
  else if freq ≤ c.finish ∧ c.start ≠ c.finish then
    -- val = float(self.finish - freq) / float(self.finish - self.start)
    let val := n.rd.r64 (((c.finish - freq : Int) : Rat) / ((c.finish - c.start : Int) : Rat))
    -- 1.0 - np.power(val, self.exponent)
    n.rd.r64 (1 - n.pw val)
  else 1

/-- callback state; `trace` is a ghost field listing the values the callback applied
    (one entry per loop in which `set_qnoise_factor` ran at least once) -/
structure CB where
  quantizers : Option (List QObj)
  numIters : Int
  factor : Option Rat
  trace : List Rat
deriving Repr, Inhabited

def CB.init : CB := { quantizers := none, numIters := 0, factor := none, trace := [] }

/-- one iteration of the loop of `set_quantizers`; `none` = raised before changing the factor -/
def setOne (c : Cfg) (rd : Rnd) (q : QObj) : Option QObj :=
  match q.kind with
  | .std =>
    -- quantizer.use_ste = self.use_ste ; quantizer.use_variables = True
    let st1 : QState := { q.st with useVars := true }
    -- if quantizer.built and not isinstance(quantizer.qnoise_factor, tf.Variable): build(use_variables=True)
    let st2 := if st1.built && !st1.store.isVar then st1.build rd true else st1
    -- self.set_qnoise_factor(quantizer, qnoise_factor=0.0)
    some { q with useSte := c.useSte, st := st2.update rd 0 }
  | .linear =>
    if q.st.useVars then
      let st2 := if q.st.built && !q.st.store.isVar then q.st.build rd true else q.st
      some { q with st := st2.update rd 0 }
    else none
  | .noKnob => none

/-- `set_quantizers`: (list after the loop, number of completed iterations, raised) -/
def setAll (c : Cfg) (rd : Rnd) : List QObj → List QObj × Nat × Bool
  | [] => ([], 0, false)
  | q :: rest =>
    match setOne c rd q with
    | none => (q :: rest, 0, true)
    | some q' =>
      let r := setAll c rd rest
      (q' :: r.1, r.2.1 + 1, r.2.2)

/-- the `for quantizer in self.quantizers: self.set_qnoise_factor(quantizer, v)` loop -/
def updateAll (rd : Rnd) (v : Rat) (qs : List QObj) : List QObj :=
  qs.map fun q => { q with st := q.st.update rd v }

/-- `update_qnoise_factor(freq)` with `freq = initial_step_or_epoch + num_iters` -/
def updateStep (c : Cfg) (n : Num) (s : CB) : CB × Bool :=
  let freq := c.initial + s.numIters
  if Int.fmod freq c.updateFreq ≠ 0 then
    ({ s with numIters := s.numIters + 1 }, false)
  else
    let v := calcF c n freq
    match s.quantizers with
    | none => (s, true)          -- `for quantizer in None` → TypeError, before `num_iters += 1`
    | some [] => ({ s with numIters := s.numIters + 1 }, false)
    | some qs =>
      ({ s with quantizers := some (updateAll n.rd v qs), factor := some v,
                trace := s.trace ++ [v], numIters := s.numIters + 1 }, false)

inductive Event where
  | trainBegin
  | epochBegin
  | epochEnd
  | batchBegin
  /-- every quantizer the callback tracks is called once (a forward pass between two hooks) -/
  | forward
deriving Repr, DecidableEq, Inhabited

def emptyish : Option (List QObj) → Bool
  | none => true
  | some [] => true
  | some _ => false

/-- one event; second component = the hook raised -/
def step (c : Cfg) (n : Num) (layers : List Layer) (s : CB) : Event → CB × Bool
  | .trainBegin =>
    if emptyish s.quantizers then
      let r := setAll c n.rd (getQuantizers layers)
      if r.2.1 = 0 then ({ s with quantizers := some r.1 }, r.2.2)
      else ({ s with quantizers := some r.1, factor := some 0, trace := s.trace ++ [0] }, r.2.2)
    else (s, false)
  | .epochBegin => if c.stepMode then (s, false) else updateStep c n s
  | .batchBegin => if c.stepMode then updateStep c n s else (s, false)
  | .epochEnd => (s, false)
  | .forward =>
    ({ s with quantizers := s.quantizers.map (fun qs => qs.map fun q => { q with st := q.st.call n.rd }) },
     false)

def run (c : Cfg) (n : Num) (layers : List Layer) (s : CB) : List Event → CB
  | [] => s
  | e :: es => run c n layers (step c n layers s e).1 es

/-- did any hook of the history raise -/
def anyRaise (c : Cfg) (n : Num) (layers : List Layer) (s : CB) : List Event → Bool
  | [] => false
  | e :: es => (step c n layers s e).2 || anyRaise c n layers (step c n layers s e).1 es

/-- does the hook `e` reach `update_qnoise_factor` for this `freq_type` -/
def Event.ticks (c : Cfg) : Event → Bool
  | .epochBegin => !c.stepMode
  | .batchBegin => c.stepMode
  | _ => false

end QKV.Sched
