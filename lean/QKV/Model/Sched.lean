/-
  QKV.Model.Sched — qkeras/callbacks.py `QNoiseScheduler` as a state machine (property C07).
  Core Lean only.  Mirrors, as written: `__init__` (fields), `calculate_qnoise_factor`,
  `set_qnoise_factor`, `set_quantizers`, `get_quantizers`, `update_qnoise_factor`,
  `on_train_begin`, `on_epoch_begin`, `on_epoch_end` (no `log_dir`), `on_train_batch_begin`.

  Quantizer objects are copied by value into the callback's list at `on_train_begin`
  (in Python they are shared references).  Object identity is the `tag`: `get_quantizers` lists an
  object reached through several attributes / layers once.

  Fix round: `get_quantizers` (recursive walk over activation / cell / nested layers, each object
  once) and `set_quantizers` on a quantized_linear follow the repaired code.
-/
import QKV.Model.QNoise
namespace QKV.Sched
open QKV.QNoise

/-- what the callback can tell about a quantizer object through `hasattr` -/
inductive Kind where
  /-- quantized_bits / quantized_relu / quantized_po2 / quantized_relu_po2 / quantized_hswish:
      attributes `qnoise_factor`, `use_ste`, `use_variables` (plain, settable), `built` -/
  | std
  /-- quantized_linear: `qnoise_factor`, `built`, `use_variables` (a property; settable since the
      fix of finding C07-sched-quantized-linear), no `use_ste` -/
  | linear
  /-- anything without a `qnoise_factor` attribute (binary, ternary, …, `None`, a plain function) -/
  | noKnob
deriving Repr, DecidableEq, Inhabited

structure QObj where
  /-- object identity label (Python's `is`): two entries with the same tag are the same object -/
  tag : Nat
  kind : Kind
  useSte : Bool
  st : QState
deriving Repr, DecidableEq, Inhabited

def QObj.hasKnob (q : QObj) : Bool :=
  match q.kind with
  | .noKnob => false
  | _ => true

/-- the attributes of ONE layer object in which `get_quantizers` looks for quantizers, in lookup order -/
structure Attrs where
  /-- `layer.quantizers` if the attribute exists (entries may be `None` = `noKnob`) -/
  quantizers : Option (List QObj)
  /-- `layer.quantizer` if the attribute exists (QActivation, QAdaptiveActivation) -/
  quantizer : Option QObj
  /-- `layer.get_quantizers()` if the method exists (the recurrent layers return the cell's list,
      QBidirectional the lists of both directions, the transposed convolutions their own list) -/
  api : Option (List QObj)
  /-- `layer.activation` if the attribute exists (QDense / QConv* / pooling …; may be a function) -/
  activation : Option QObj
  /-- `layer.recurrent_activation` if the attribute exists (QLSTM / QGRU and their cells) -/
  recurrentActivation : Option QObj
deriving Repr, Inhabited

/-- a layer as the repaired `get_quantizers` sees it: its own attributes and the layers it holds, in
    lookup order — `layer.layers` (nested model), `layer.cell` (recurrent layer),
    `layer.forward_layer`, `layer.backward_layer`, `layer.layer` (wrappers) -/
inductive Layer where
  | mk (attrs : Attrs) (sub : List Layer)
deriving Repr, Inhabited

def Layer.attrs : Layer → Attrs
  | .mk a _ => a

def Layer.sub : Layer → List Layer
  | .mk _ s => s

/-- the quantizer objects the first loop of `add_quantizers(layer)` goes through, in order -/
def Attrs.held (a : Attrs) : List QObj :=
  a.quantizers.getD [] ++ a.quantizer.toList ++ a.api.getD [] ++ a.activation.toList ++
    a.recurrentActivation.toList

/-- `if hasattr(quantizer, "qnoise_factor") and not any(quantizer is q for q in all_quantizers):
       all_quantizers.append(quantizer)` -/
def addQ (acc : List QObj) (q : QObj) : List QObj :=
  if q.hasKnob && !(acc.any fun p => p.tag == q.tag) then acc ++ [q] else acc

mutual
/-- the local function `add_quantizers(layer)` of `get_quantizers`; `acc` is `all_quantizers` -/
def addLayer (acc : List QObj) : Layer → List QObj
  | .mk a sub => addLayers (a.held.foldl addQ acc) sub
/-- `for sub_layer in …: add_quantizers(sub_layer)` / `for layer in model.layers: add_quantizers(layer)` -/
def addLayers (acc : List QObj) : List Layer → List QObj
  | [] => acc
  | l :: ls => addLayers (addLayer acc l) ls
end

/-- `QNoiseScheduler.get_quantizers(model)` (repaired: findings C07-getq-activation / -rnn-cell /
    -nested-model) -/
def getQuantizers (layers : List Layer) : List QObj := addLayers [] layers

mutual
/-- every quantizer object reachable from a layer, pre-order (own attributes, then held layers) -/
def Layer.pre : Layer → List QObj
  | .mk a sub => a.held ++ preList sub
def preList : List Layer → List QObj
  | [] => []
  | l :: ls => l.pre ++ preList ls
end

/-- "the model holds quantizer object `q`": reachability, stated independently of the walk —
    `q` sits in one of the five holder attributes of the layer, or the layer holds (as a layer of a
    nested model, as its cell, as a wrapped layer) a layer that holds `q` -/
inductive Layer.Holds : Layer → QObj → Prop where
  | own {l : Layer} {q : QObj} : q ∈ l.attrs.held → Layer.Holds l q
  | sub {l l' : Layer} {q : QObj} : l' ∈ l.sub → Layer.Holds l' q → Layer.Holds l q

def ModelHolds (layers : List Layer) (q : QObj) : Prop := ∃ l ∈ layers, l.Holds q

/-- `get_quantizers` before the fix round (one level, `quantizers` / `quantizer` only); kept for the
    regression witnesses -/
def getQuantizersOld (layers : List Layer) : List QObj :=
  layers.flatMap fun l =>
    ((l.attrs.quantizers.getD []) ++ l.attrs.quantizer.toList).filter QObj.hasKnob

structure Cfg where
  start : Int
  finish : Int
  /-- `freq_type == "step"` (else `"epoch"`) -/
  stepMode : Bool
  updateFreq : Int
  initial : Int
  useSte : Bool
deriving Repr, DecidableEq, Inhabited

/-- numeric environment: `pw` is `np.power(·, exponent)` (oracle input / parameter), `rd` the
    roundings (`Rnd.exact` for the real-number reading, `Rnd.ieee` for the code). -/
structure Num where
  pw : Rat → Rat
  rd : Rnd

/-- `calculate_qnoise_factor(freq)` -/
def calcF (c : Cfg) (n : Num) (freq : Int) : Rat :=
  if freq < c.start then 0
  else if freq ≤ c.finish ∧ c.start ≠ c.finish then
    -- val = float(self.finish - freq) / float(self.finish - self.start)
    let val := n.rd.r64 (((c.finish - freq : Int) : Rat) / ((c.finish - c.start : Int) : Rat))
    -- 1.0 - np.power(val, self.exponent)
    n.rd.r64 (1 - n.pw val)
  else 1

/-- callback state; `trace` is a ghost field listing the values the callback applied
    (one entry per loop in which `set_qnoise_factor` ran at least once) -/
structure CB where
  quantizers : Option (List QObj)
  numIters : Int
  factor : Option Rat
  trace : List Rat
deriving Repr, Inhabited

def CB.init : CB := { quantizers := none, numIters := 0, factor := none, trace := [] }

/-- one iteration of the loop of `set_quantizers`; `none` = raised before changing the factor -/
def setOne (c : Cfg) (rd : Rnd) (q : QObj) : Option QObj :=
  match q.kind with
  | .std =>
    -- quantizer.use_ste = self.use_ste ; quantizer.use_variables = True
    let st1 : QState := { q.st with useVars := true }
    -- if quantizer.built and not isinstance(quantizer.qnoise_factor, tf.Variable): build(use_variables=True)
    let st2 := if st1.built && !st1.store.isVar then st1.build rd true else st1
    -- self.set_qnoise_factor(quantizer, qnoise_factor=0.0)
    some { q with useSte := c.useSte, st := st2.update rd 0 }
  | .linear =>
    -- no `use_ste` attribute; quantizer.use_variables = True goes through the property setter
    -- (before the fix: AttributeError unless the property already returned True)
    let st1 : QState := { q.st with useVars := true }
    let st2 := if st1.built && !st1.store.isVar then st1.build rd true else st1
    some { q with st := st2.update rd 0 }
  | .noKnob => none   -- unreachable: `get_quantizers` returns knob-bearing objects only

/-- `set_quantizers`: (list after the loop, number of completed iterations, raised) -/
def setAll (c : Cfg) (rd : Rnd) : List QObj → List QObj × Nat × Bool
  | [] => ([], 0, false)
  | q :: rest =>
    match setOne c rd q with
    | none => (q :: rest, 0, true)
    | some q' =>
      let r := setAll c rd rest
      (q' :: r.1, r.2.1 + 1, r.2.2)

/-- the `for quantizer in self.quantizers: self.set_qnoise_factor(quantizer, v)` loop -/
def updateAll (rd : Rnd) (v : Rat) (qs : List QObj) : List QObj :=
  qs.map fun q => { q with st := q.st.update rd v }

/-- `update_qnoise_factor(freq)` with `freq = initial_step_or_epoch + num_iters` -/
def updateStep (c : Cfg) (n : Num) (s : CB) : CB × Bool :=
  let freq := c.initial + s.numIters
  if Int.fmod freq c.updateFreq ≠ 0 then
    ({ s with numIters := s.numIters + 1 }, false)
  else
    let v := calcF c n freq
    match s.quantizers with
    | none => (s, true)          -- `for quantizer in None` → TypeError, before `num_iters += 1`
    | some [] => ({ s with numIters := s.numIters + 1 }, false)
    | some qs =>
      ({ s with quantizers := some (updateAll n.rd v qs), factor := some v,
                trace := s.trace ++ [v], numIters := s.numIters + 1 }, false)

inductive Event where
  | trainBegin
  | epochBegin
  | epochEnd
  | batchBegin
  /-- every quantizer the callback tracks is called once (a forward pass between two hooks) -/
  | forward
deriving Repr, DecidableEq, Inhabited

def emptyish : Option (List QObj) → Bool
  | none => true
  | some [] => true
  | some _ => false

/-- one event; second component = the hook raised -/
def step (c : Cfg) (n : Num) (layers : List Layer) (s : CB) : Event → CB × Bool
  | .trainBegin =>
    if emptyish s.quantizers then
      let r := setAll c n.rd (getQuantizers layers)
      if r.2.1 = 0 then ({ s with quantizers := some r.1 }, r.2.2)
      else ({ s with quantizers := some r.1, factor := some 0, trace := s.trace ++ [0] }, r.2.2)
    else (s, false)
  | .epochBegin => if c.stepMode then (s, false) else updateStep c n s
  | .batchBegin => if c.stepMode then updateStep c n s else (s, false)
  | .epochEnd => (s, false)
  | .forward =>
    ({ s with quantizers := s.quantizers.map (fun qs => qs.map fun q => { q with st := q.st.call n.rd }) },
     false)

def run (c : Cfg) (n : Num) (layers : List Layer) (s : CB) : List Event → CB
  | [] => s
  | e :: es => run c n layers (step c n layers s e).1 es

/-- did any hook of the history raise -/
def anyRaise (c : Cfg) (n : Num) (layers : List Layer) (s : CB) : List Event → Bool
  | [] => false
  | e :: es => (step c n layers s e).2 || anyRaise c n layers (step c n layers s e).1 es

/-- does the hook `e` reach `update_qnoise_factor` for this `freq_type` -/
def Event.ticks (c : Cfg) : Event → Bool
  | .epochBegin => !c.stepMode
  | .batchBegin => c.stepMode
  | _ => false

end QKV.Sched
