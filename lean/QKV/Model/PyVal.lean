/-
  QKV.Model.PyVal — Python literal values, the error enum, and the handful of Python
  built-in semantics (`bool()`, `int()`, `==`, `str()`) that the quantizer constructors,
  `get_config`, `__str__` and `safe_eval` rely on.  Core Lean only.

  A Python `float` is carried as the exact rational it denotes (every binary64 is a
  rational; a decimal literal is carried as its exact decimal value and rounded to
  binary64 by CPython identically on every route — see notes/C10.md, device 1).
-/
namespace QKV.Py

/-- a Python number inside a list literal -/
inductive Num where
  | int (i : Int)
  | float (q : Rat)
  deriving DecidableEq, Repr, Inhabited

/-- Python literal values that quantizer arguments range over -/
inductive PyVal where
  | none
  | bool (b : Bool)
  | int (i : Int)
  | float (q : Rat)
  | str (s : String)
  | list (l : List Num)
  deriving DecidableEq, Repr, Inhabited

/-- exception kinds (both sides of the protocol map exceptions onto this enum) -/
inductive Err where
  | typeError        -- TypeError (unexpected / duplicate keyword, int(None), …)
  | valueError       -- ValueError
  | assertionError   -- AssertionError
  | syntaxError      -- SyntaxError raised by GetParams (positional after keyword)
  | parseException   -- pyparsing.ParseException
  | keyError         -- KeyError (registry lookup of an unknown name)
  | unboundLocal     -- UnboundLocalError
  | unknownName      -- name resolved neither in the module nor by keras.activations.get
  deriving DecidableEq, Repr, Inhabited

def Err.tag : Err → String
  | .typeError => "TypeError"
  | .valueError => "ValueError"
  | .assertionError => "AssertionError"
  | .syntaxError => "SyntaxError"
  | .parseException => "ParseException"
  | .keyError => "KeyError"
  | .unboundLocal => "UnboundLocalError"
  | .unknownName => "UnknownName"

abbrev Env := List (String × PyVal)

/-- attribute / keyword lookup; absent ⇒ `None` (only used on keys known to be present) -/
def Env.get (e : Env) (k : String) : PyVal := (e.lookup k).getD .none

/-- overwrite the value stored under `k` (keys and order unchanged) -/
def Env.set (e : Env) (k : String) (v : PyVal) : Env :=
  e.map fun p => if p.1 == k then (p.1, v) else p

def Env.keys (e : Env) : List String := e.map Prod.fst

/-! ### Python built-in semantics on literals -/

/-- `isinstance(v, six.string_types)` -/
def PyVal.isStr : PyVal → Bool
  | .str _ => true
  | _ => false

def PyVal.isNone : PyVal → Bool
  | .none => true
  | _ => false

def PyVal.isList : PyVal → Bool
  | .list _ => true
  | _ => false

/-- `bool(v)` -/
def PyVal.truthy : PyVal → Bool
  | .none => false
  | .bool b => b
  | .int i => i != 0
  | .float q => q != 0
  | .str s => s != ""
  | .list l => !l.isEmpty

/-- numeric value of bool / int / float (Python's numeric tower) -/
def PyVal.numVal : PyVal → Option Rat
  | .bool b => some (if b then 1 else 0)
  | .int i => some (i : Rat)
  | .float q => some q
  | _ => Option.none

/-- Python `==` on literals: numbers compare by value across bool/int/float -/
def PyVal.pyEq (a b : PyVal) : Bool :=
  match a.numVal, b.numVal with
  | some x, some y => x == y
  | _, _ => a == b

/-- truncation toward zero (`int(float)`) -/
def truncRat (q : Rat) : Int := if 0 ≤ q then q.floor else q.ceil

/-- `int(v)` for the argument kinds `__str__` applies it to -/
def PyVal.pyInt : PyVal → Except Err Int
  | .bool b => .ok (if b then 1 else 0)
  | .int i => .ok i
  | .float q => .ok (truncRat q)
  | .none => .error .typeError
  | .str _ => .error .valueError
  | .list _ => .error .typeError

/-! ### `str()` / `repr()` of numbers -/

/-- `10^k` -/
def pow10 (k : Nat) : Nat := 10 ^ k

/-- smallest `k ≤ fuel` (counted up from `k`) with `q * 10^k` an integer -/
def decScale (q : Rat) : Nat → Nat → Option Nat
  | 0, k => if (q * (pow10 k : Nat)).den = 1 then some k else Option.none
  | fuel + 1, k => if (q * (pow10 k : Nat)).den = 1 then some k else decScale q fuel (k + 1)

def padLeft (n : Nat) (s : String) : String :=
  String.ofList (List.replicate (n - s.length) '0') ++ s

/-- `repr(float)` for the floats whose shortest round-trip representation is their exact
    positional decimal expansion: terminating expansion with at most 15 significant
    digits and `1e-4 ≤ |x| < 1e16` (or zero).  Outside that domain the model answers
    `"<float>"` and the harness does not generate such option values. -/
def reprFloat (q : Rat) : String :=
  match decScale q 17 0 with
  | Option.none => "<float>"
  | some k =>
    let m : Nat := (q * (pow10 k : Nat)).num.natAbs    -- |q| * 10^k
    let ip := m / pow10 k
    let fp := m % pow10 k
    let sign := if q < 0 then "-" else ""
    if q != 0 && (q.num.natAbs * 10000 < q.den || pow10 16 * q.den ≤ q.num.natAbs) then "<float>"
    else if 15 < (toString m).length then "<float>"
    else if k = 0 then sign ++ toString ip ++ ".0"
    else sign ++ toString ip ++ "." ++ padLeft k (toString fp)

def Num.pyStr : Num → String
  | .int i => toString i
  | .float q => reprFloat q

/-- `str(v)` -/
def PyVal.pyStr : PyVal → String
  | .none => "None"
  | .bool true => "True"
  | .bool false => "False"
  | .int i => toString i
  | .float q => reprFloat q
  | .str s => s
  | .list l => "[" ++ ", ".intercalate (l.map Num.pyStr) ++ "]"

end QKV.Py
