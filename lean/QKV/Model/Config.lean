/-
  QKV.Model.Config — constructor signatures, constructor bodies (argument checks and
  normalisations), `get_config`, `from_config`, the registry and `get_quantizer(dict)` of the
  14 registered quantizer classes of qkeras/quantizers.py.  Core Lean only.

  A quantizer instance is its class together with the value stored for every constructor
  parameter (`Env`, in signature order).  Everything `__call__` reads is one of those
  stored values (or a value computed from them in `__init__`), which is the trusted link
  between "identical fields" and "identical function" (exercised by the tie, notes/C09.md).
-/
import QKV.Model.PyVal
namespace QKV.Py

inductive Cls where
  | quantized_linear | quantized_bits | bernoulli | ternary | stochastic_ternary | binary
  | stochastic_binary | quantized_relu | quantized_ulaw | quantized_tanh | quantized_sigmoid
  | quantized_po2 | quantized_relu_po2 | quantized_hswish
  deriving DecidableEq, Repr, Inhabited

/-- registration order of `quantizer_registry._QUANTIZERS_REGISTRY` -/
def Cls.all : List Cls :=
  [.quantized_linear, .quantized_bits, .bernoulli, .ternary, .stochastic_ternary, .binary,
   .stochastic_binary, .quantized_relu, .quantized_ulaw, .quantized_tanh, .quantized_sigmoid,
   .quantized_po2, .quantized_relu_po2, .quantized_hswish]

def Cls.name : Cls → String
  | .quantized_linear => "quantized_linear"
  | .quantized_bits => "quantized_bits"
  | .bernoulli => "bernoulli"
  | .ternary => "ternary"
  | .stochastic_ternary => "stochastic_ternary"
  | .binary => "binary"
  | .stochastic_binary => "stochastic_binary"
  | .quantized_relu => "quantized_relu"
  | .quantized_ulaw => "quantized_ulaw"
  | .quantized_tanh => "quantized_tanh"
  | .quantized_sigmoid => "quantized_sigmoid"
  | .quantized_po2 => "quantized_po2"
  | .quantized_relu_po2 => "quantized_relu_po2"
  | .quantized_hswish => "quantized_hswish"

def registeredNames : List String := Cls.all.map Cls.name

/-- `quantizer_registry.lookup_quantizer` / the module-globals lookup of a class name
    (`none` ⇒ KeyError resp. "unknown quantizer") -/
def lookup (n : String) : Option Cls := Cls.all.find? fun c => c.name == n

private def f (n : Nat) (_d : Nat) : PyVal := .float (n : Rat)
private def i (n : Int) : PyVal := .int n
private def T : PyVal := .bool true
private def F : PyVal := .bool false
private def N : PyVal := .none

/-- `inspect.signature(cls.__init__)`: parameter names in order with their defaults -/
def params : Cls → List (String × PyVal)
  | .quantized_linear =>
    [("bits", i 8), ("integer", i 0), ("symmetric", i 1), ("keep_negative", T), ("alpha", N),
     ("use_stochastic_rounding", F), ("scale_axis", N), ("qnoise_factor", f 1 1),
     ("var_name", N), ("use_variables", F)]
  | .quantized_bits =>
    [("bits", i 8), ("integer", i 0), ("symmetric", i 0), ("keep_negative", T), ("alpha", N),
     ("use_stochastic_rounding", F), ("scale_axis", N), ("qnoise_factor", f 1 1),
     ("var_name", N), ("use_ste", T), ("use_variables", F), ("elements_per_scale", N),
     ("min_po2_exponent", N), ("max_po2_exponent", N), ("post_training_scale", N)]
  | .bernoulli => [("alpha", N), ("temperature", f 6 1), ("use_real_sigmoid", T)]
  | .ternary =>
    [("alpha", N), ("threshold", N), ("use_stochastic_rounding", F), ("number_of_unrolls", i 5)]
  | .stochastic_ternary =>
    [("alpha", N), ("threshold", N), ("temperature", f 8 1), ("use_real_sigmoid", T),
     ("number_of_unrolls", i 5)]
  | .binary =>
    [("use_01", F), ("alpha", N), ("use_stochastic_rounding", F), ("scale_axis", N),
     ("elements_per_scale", N), ("min_po2_exponent", N), ("max_po2_exponent", N)]
  | .stochastic_binary => [("alpha", N), ("temperature", f 6 1), ("use_real_sigmoid", T)]
  | .quantized_relu =>
    [("bits", i 8), ("integer", i 0), ("use_sigmoid", i 0), ("negative_slope", f 0 1),
     ("use_stochastic_rounding", F), ("relu_upper_bound", N), ("is_quantized_clip", T),
     ("qnoise_factor", f 1 1), ("var_name", N), ("use_ste", T), ("use_variables", F)]
  | .quantized_ulaw => [("bits", i 8), ("integer", i 0), ("symmetric", i 0), ("u", f 255 1)]
  | .quantized_tanh =>
    [("bits", i 8), ("use_stochastic_rounding", F), ("symmetric", F), ("use_real_tanh", F)]
  | .quantized_sigmoid =>
    [("bits", i 8), ("symmetric", F), ("use_real_sigmoid", F), ("use_stochastic_rounding", F)]
  | .quantized_po2 =>
    [("bits", i 8), ("max_value", N), ("use_stochastic_rounding", F),
     ("quadratic_approximation", F), ("log2_rounding", .str "rnd"), ("qnoise_factor", f 1 1),
     ("var_name", N), ("use_ste", T), ("use_variables", F)]
  | .quantized_relu_po2 =>
    [("bits", i 8), ("max_value", N), ("negative_slope", i 0), ("use_stochastic_rounding", F),
     ("quadratic_approximation", F), ("log2_rounding", .str "rnd"), ("qnoise_factor", f 1 1),
     ("var_name", N), ("use_ste", T), ("use_variables", F)]
  | .quantized_hswish =>
    [("bits", i 8), ("integer", i 0), ("symmetric", i 0), ("alpha", N),
     ("use_stochastic_rounding", F), ("scale_axis", N), ("qnoise_factor", f 1 1),
     ("var_name", N), ("use_variables", F), ("relu_shift", i 3), ("relu_upper_bound", i 6)]

def paramNames (c : Cls) : List String := (params c).map Prod.fst

def defaultOf (c : Cls) (k : String) : PyVal := Env.get (params c) k

/-- where a `get_config` entry takes its value from -/
inductive CfgSrc where
  | attr                 -- the stored constructor argument of the same name
  | const (v : PyVal)    -- an attribute that is not a constructor argument of this class
  deriving DecidableEq, Repr

/-- the keys `get_config` emits, in dict order.  (After the fix round every class emits only
    constructor arguments of its own: `quantized_hswish` has a `get_config` of its own instead of
    the inherited `quantized_bits` one, so `CfgSrc.const` is no longer used by any class.) -/
def cfgSpec : Cls → List (String × CfgSrc)
  | .quantized_linear =>
    [("bits", .attr), ("integer", .attr), ("symmetric", .attr), ("alpha", .attr),
     ("keep_negative", .attr), ("use_stochastic_rounding", .attr), ("scale_axis", .attr),
     ("qnoise_factor", .attr)]
  | .quantized_bits =>
    [("bits", .attr), ("integer", .attr), ("symmetric", .attr), ("alpha", .attr),
     ("keep_negative", .attr), ("use_stochastic_rounding", .attr), ("scale_axis", .attr),
     ("qnoise_factor", .attr), ("use_ste", .attr), ("elements_per_scale", .attr),
     ("min_po2_exponent", .attr), ("max_po2_exponent", .attr), ("post_training_scale", .attr)]
  | .bernoulli => [("alpha", .attr), ("temperature", .attr), ("use_real_sigmoid", .attr)]
  | .ternary =>
    [("alpha", .attr), ("threshold", .attr), ("use_stochastic_rounding", .attr),
     ("number_of_unrolls", .attr)]
  | .stochastic_ternary =>
    [("alpha", .attr), ("threshold", .attr), ("temperature", .attr), ("use_real_sigmoid", .attr),
     ("number_of_unrolls", .attr)]
  | .binary =>
    [("use_01", .attr), ("alpha", .attr), ("use_stochastic_rounding", .attr), ("scale_axis", .attr),
     ("elements_per_scale", .attr), ("min_po2_exponent", .attr), ("max_po2_exponent", .attr)]
  | .stochastic_binary => [("alpha", .attr), ("temperature", .attr), ("use_real_sigmoid", .attr)]
  | .quantized_relu =>
    [("bits", .attr), ("integer", .attr), ("use_sigmoid", .attr), ("negative_slope", .attr),
     ("use_stochastic_rounding", .attr), ("relu_upper_bound", .attr), ("is_quantized_clip", .attr),
     ("qnoise_factor", .attr), ("use_ste", .attr)]
  | .quantized_ulaw => [("bits", .attr), ("integer", .attr), ("symmetric", .attr), ("u", .attr)]
  | .quantized_tanh =>
    [("bits", .attr), ("symmetric", .attr), ("use_stochastic_rounding", .attr),
     ("use_real_tanh", .attr)]
  | .quantized_sigmoid =>
    [("bits", .attr), ("symmetric", .attr), ("use_real_sigmoid", .attr),
     ("use_stochastic_rounding", .attr)]
  | .quantized_po2 =>
    [("bits", .attr), ("max_value", .attr), ("use_stochastic_rounding", .attr),
     ("quadratic_approximation", .attr), ("qnoise_factor", .attr), ("log2_rounding", .attr),
     ("use_ste", .attr)]
  | .quantized_relu_po2 =>
    [("bits", .attr), ("max_value", .attr), ("negative_slope", .attr),
     ("use_stochastic_rounding", .attr), ("quadratic_approximation", .attr),
     ("qnoise_factor", .attr), ("log2_rounding", .attr), ("use_ste", .attr)]
  | .quantized_hswish =>
    -- quantized_hswish.get_config: the constructor arguments of the class itself
    [("bits", .attr), ("integer", .attr), ("symmetric", .attr), ("alpha", .attr),
     ("use_stochastic_rounding", .attr), ("scale_axis", .attr), ("qnoise_factor", .attr),
     ("relu_shift", .attr), ("relu_upper_bound", .attr)]

def serialised (c : Cls) : List String := (cfgSpec c).map Prod.fst

/-- constructor parameters that `get_config` does not emit -/
def dropped (c : Cls) : List String := (paramNames c).filter fun k => !(serialised c).contains k

/-- a quantizer instance: class + stored constructor arguments (signature order) -/
structure Q where
  cls : Cls
  env : Env
  deriving DecidableEq, Repr

def Q.get (q : Q) (k : String) : PyVal := q.env.get k

/-! ### the constructor -/

/-- binding of positional arguments, then keywords, then defaults (parameter order) -/
def bindPos : List (String × PyVal) → List PyVal → Env → Env
  | [], _, _ => []
  | (k, _) :: ps, a :: as, kw => (k, a) :: bindPos ps as kw
  | (k, d) :: ps, [], kw => (k, (kw.lookup k).getD d) :: bindPos ps [] kw

/-- Python call binding `cls(*args, **kw)`: `TypeError` for too many positionals, an
    unexpected keyword, or a keyword that repeats a positional -/
def bind (ps : List (String × PyVal)) (args : List PyVal) (kw : Env) : Except Err Env :=
  let names := ps.map Prod.fst
  if ps.length < args.length then .error .typeError
  else if kw.any (fun p => !names.contains p.1) then .error .typeError
  else if kw.any (fun p => (names.take args.length).contains p.1) then .error .typeError
  else .ok (bindPos ps args kw)

/-- is a positive rational an integral power of two (`np.mod(np.log2(x), 1) == 0`) -/
def isPow2Nat (n : Nat) : Bool := n != 0 && 2 ^ n.log2 == n
def isPow2Rat (q : Rat) : Bool :=
  0 < q && ((q.den == 1 && isPow2Nat q.num.natAbs) || (q.num == 1 && isPow2Nat q.den))

/-- `assert negative_slope >= 0.0; if negative_slope != 0: assert mod(log2(.),1) == 0` -/
def checkSlope (v : PyVal) : Option Err :=
  match v.numVal with
  | Option.none => some .typeError
  | some s => if s < 0 then some .assertionError
              else if s != 0 && !isPow2Rat s then some .assertionError else Option.none

/-- `_need_exponent_sign_bit_check`: `ValueError` for a negative max_value -/
def checkMaxValue (v : PyVal) : Option Err :=
  match v with
  | .none => Option.none
  | _ => match v.numVal with
    | Option.none => some .typeError
    | some m => if m < 0 then some .valueError else Option.none

def orElse (a b : Option Err) : Option Err := match a with | some e => some e | Option.none => b

/-- the argument checks of `__init__` (first failing one, in source order) -/
def check (c : Cls) (e : Env) : Option Err :=
  match c with
  | .quantized_linear =>
    -- _check_bits then _check_alpha
    orElse (match (e.get "bits").numVal with
            | Option.none => some .typeError
            | some b => if b ≤ 0 then some .valueError else Option.none)
           (match e.get "alpha" with
            | .str s => if s == "auto" || s == "auto_po2" then Option.none else some .valueError
            | _ => Option.none)
  | .quantized_bits =>
    if !(e.get "alpha").isStr && !(e.get "post_training_scale").isNone then some .valueError
    else Option.none
  | .stochastic_ternary =>
    if (e.get "threshold").pyEq (.float 1) then some .assertionError else Option.none
  | .quantized_relu => checkSlope (e.get "negative_slope")
  | .quantized_po2 => checkMaxValue (e.get "max_value")
  | .quantized_relu_po2 =>
    orElse (checkMaxValue (e.get "max_value")) (checkSlope (e.get "negative_slope"))
  | _ => Option.none

/-- attribute normalisation done by `__init__`: `quantized_bits` (and `quantized_hswish`
    through `super().__init__`) force `symmetric = True` when `alpha` is a string -/
def normInit (c : Cls) (e : Env) : Env :=
  match c with
  | .quantized_bits | .quantized_hswish =>
    if (e.get "alpha").isStr then e.set "symmetric" (.bool true) else e
  | _ => e

/-- constructor body on fully bound arguments -/
def init (c : Cls) (e : Env) : Except Err Q :=
  match check c e with
  | some err => .error err
  | Option.none => .ok ⟨c, normInit c e⟩

/-- `cls(*args, **kw)` -/
def construct (c : Cls) (args : List PyVal) (kw : Env) : Except Err Q :=
  match bind (params c) args kw with
  | .error err => .error err
  | .ok e => init c e

/-! ### get_config / from_config / get_quantizer(dict) -/

def getConfig (q : Q) : Env :=
  (cfgSpec q.cls).map fun p =>
    (p.1, match p.2 with
          | .attr => q.env.get p.1
          | .const v => v)

/-- `cls.from_config(config)` = `cls(**config)` (quantized_bits first turns a
    `post_training_scale` list back into an ndarray, which the model does not distinguish) -/
def fromConfig (c : Cls) (cfg : Env) : Except Err Q := construct c [] cfg

/-- `{"class_name": …, "config": …}` as produced by `serialize_keras_object(q)` -/
structure Serialized where
  className : String
  config : Env
  deriving DecidableEq, Repr

def serialize (q : Q) : Serialized := ⟨q.cls.name, getConfig q⟩

/-- `get_quantizer(dict)` = `deserialize_keras_object(dict, module_objects=globals())`:
    resolve the class name among the module's classes, then `cls.from_config(config)` -/
def getQuantizerDict (d : Serialized) : Except Err Q :=
  match lookup d.className with
  | Option.none => .error .unknownName   -- Keras-version dependent; tf_keras hands the name back
  | some c => fromConfig c d.config

/-- the arguments the rebuilt quantizer is constructed from: a serialised key carries the
    emitted value, every other parameter falls back to its default -/
def forget (c : Cls) (e : Env) : Env :=
  (params c).map fun p =>
    (p.1, match (cfgSpec c).lookup p.1 with
          | some .attr => e.get p.1
          | some (.const v) => v
          | Option.none => p.2)

/-- every emitted key is a constructor parameter (otherwise `cls(**config)` is a TypeError);
    true of every class since `quantized_hswish` has its own `get_config` -/
def cfgClosed (c : Cls) : Bool := (serialised c).all fun k => (paramNames c).contains k

end QKV.Py
