/-
  QKV.Model.Print — `__str__` of the 14 registered quantizer classes (qkeras/quantizers.py, after
  the fix round) and the string round trip `get_quantizer(str(q))`.  Core Lean only.

  Every `__str__` is a list of statements `if <condition on the option>: flags.append(<text>)`
  followed by `",".join(flags)`.  The model keeps one table row (`FlagSpec`) per statement:
  the option, the condition, and how the value becomes text.  Two kinds of rows:
  * positional flags (`posSpec`): printed without a name, in constructor order.  After the fix a
    positional flag is printed when its own condition holds *or a later positional flag is
    printed* (`if self.use_sigmoid or self.negative_slope or self.use_stochastic_rounding:`), so
    that every value stays in the slot of its own argument;
  * keyword flags (`kwSpec`): printed as `name=text` when their own condition holds.
  Second fix round: the scale of `quantized_bits` / `quantized_hswish` is tested with
  `is not None` like every other class (a scale of 0 is printed), and list-valued `scale_axis` /
  `elements_per_scale` print item by item (`[0,1]`) in all four classes that have them.
  Not printed by any class (kept as recorded findings / untracked): `qnoise_factor` (training-time
  state that may hold a tensor), `var_name`, `use_variables`, `post_training_scale`.
-/
import QKV.Model.Parse
namespace QKV.Py

/-- `str(int(v))` -/
def strInt (v : PyVal) : Except Err String :=
  match v.pyInt with
  | .ok i => .ok (toString i)
  | .error e => .error e

/-- the `alpha` flag shared by most classes: `str(alpha)`, quoted when it is a string -/
def alphaText (a : PyVal) : String := if a.isStr then "'" ++ a.pyStr ++ "'" else a.pyStr

/-- `list_to_str` of the classes with list-valued axes (`binary`, and since the second fix round
    `quantized_bits`, `quantized_linear`, `quantized_hswish`): a list prints item by item as
    `[a,b]`; anything else as `str(v)` -/
def listOrScalar (v : PyVal) : String :=
  match v with
  | .list l => "[" ++ ",".intercalate (l.map Num.pyStr) ++ "]"
  | _ => v.pyStr

/-! ### `str(numpy.ndarray)` for the array-valued options (per-channel scales / integer bits) -/

def padLeftSp (n : Nat) (s : String) : String := String.ofList (List.replicate (n - s.length) ' ') ++ s
def padRightSp (n : Nat) (s : String) : String := s ++ String.ofList (List.replicate (n - s.length) ' ')

def Num.isInt : Num → Bool
  | .int _ => true
  | .float _ => false

def Num.rat : Num → Rat
  | .int i => (i : Rat)
  | .float q => q

def ratAbs (q : Rat) : Rat := if q < 0 then -q else q

/-- sign + integer digits, and the fraction digits, of a terminating decimal with at most 8
    fraction digits (numpy's `precision=8`, `unique=True`, `trim='.'`: "2." for 2.0) -/
def decParts (q : Rat) : Option (String × String) :=
  match decScale q 8 0 with
  | Option.none => Option.none
  | some k =>
    let m : Nat := (q * (pow10 k : Nat)).num.natAbs
    some ((if q < 0 then "-" else "") ++ toString (m / pow10 k),
          if k = 0 then "" else padLeft k (toString (m % pow10 k)))

/-- numpy switches a float array to exponent notation when `max ≥ 1e8`, `min < 1e-4` or
    `max/min > 1000` over the nonzero absolute values -/
def npExpFormat (qs : List Rat) : Bool :=
  match (qs.map ratAbs).filter (· != 0) with
  | [] => false
  | a :: t =>
    let mx := t.foldl (fun x y => if x < y then y else x) a
    let mn := t.foldl (fun x y => if y < x then y else x) a
    decide (100000000 ≤ mx) || decide (mn < 1 / 10000) || decide (1000 < mx / mn)

def maxLen (l : List String) : Nat := l.foldl (fun a s => if a < s.length then s.length else a) 0

/-- `str(np.array(l))` for a 1-d array: integers right-aligned to the common width; floats in
    positional notation, the integer parts right-aligned and the fraction digits left-aligned to
    their common widths; items separated by ONE BLANK, no commas.  Outside the modelled domain
    (exponent notation, more than 8 fraction digits) the model answers `"<ndarray>"` and the
    harness does not generate such option values. -/
def npListText (l : List Num) : String :=
  if l.all Num.isInt then
    let ts := l.map Num.pyStr
    "[" ++ " ".intercalate (ts.map (padLeftSp (maxLen ts))) ++ "]"
  else
    let qs := l.map Num.rat
    if npExpFormat qs then "<ndarray>"
    else match mapOpt decParts qs with
      | Option.none => "<ndarray>"
      | some ps =>
        let wl := maxLen (ps.map Prod.fst)
        let wr := maxLen (ps.map Prod.snd)
        "[" ++ " ".intercalate (ps.map fun p => padLeftSp wl p.1 ++ "." ++ padRightSp wr p.2) ++ "]"

/-- the `if` in front of a `flags.append` -/
inductive Cond where
  | always
  | truthy               -- `if self.x:`
  | falsy                -- `if not self.x:`
  | notNone              -- `if self.x is not None:`
  | ne (d : PyVal)       -- `if self.x != d:`
  deriving DecidableEq, Repr

def Cond.holds : Cond → PyVal → Bool
  | .always, _ => true
  | .truthy, v => v.truthy
  | .falsy, v => !v.truthy
  | .notNone, v => !v.isNone
  | .ne d, v => !v.pyEq d

/-- how the value of a flag becomes text -/
inductive Conv where
  | str                            -- `str(x)`
  | int                            -- `str(int(x))`
  | alpha                          -- `str(x)`, in single quotes when `x` is a string
  | quoted                         -- `"'" + str(x) + "'"`
  | lit (s : String) (v : PyVal)   -- a constant text (`"keep_negative=False"`), denoting `v`
  | intOrList                      -- `"[" + list_to_str(x) + "]"` for a list, else `str(x)`
  | po2max                         -- `_po2_max_value_to_str(x)`
  | np                             -- `str(np.array(x))`, in single quotes when `x` is a string
  | npRe                           -- `re.sub(r"\[(\d)\]", r"\1", str(x))`, `x` a number or an ndarray
  deriving DecidableEq, Repr

/-- one printed flag: keyword (`none` = positional), the Python value the text denotes, the text -/
structure Flag where
  key : Option String
  val : PyVal
  text : String
  deriving DecidableEq, Repr

/-- the text appended to `flags`: `text` or `name=text` -/
def Flag.chars (f : Flag) : List Char :=
  match f.key with
  | none => f.text.toList
  | some k => k.toList ++ '=' :: f.text.toList

/-- `_po2_max_value_to_str`: "None", the integer text of an integral value, else `str(x)` -/
def po2MaxValue (v : PyVal) : Except Err (PyVal × String) :=
  match v with
  | .none => .ok (.none, "None")
  | _ =>
    match v.pyInt, v.numVal with
    | .ok i, some x => if x == (i : Rat) then .ok (.int i, toString i) else .ok (v, v.pyStr)
    | .error e, _ => .error e
    | .ok _, Option.none => .error .typeError

/-- the value denoted and the text printed for option value `v` -/
def Conv.apply : Conv → PyVal → Except Err (PyVal × String)
  | .str, v => .ok (v, v.pyStr)
  | .int, v =>
    match v.pyInt with
    | .ok i => .ok (.int i, toString i)
    | .error e => .error e
  | .alpha, v => .ok (v, alphaText v)
  | .quoted, v => .ok (v, "'" ++ v.pyStr ++ "'")
  | .lit s d, _ => .ok (d, s)
  | .intOrList, v => .ok (v, listOrScalar v)
  | .po2max, v => po2MaxValue v
  | .np, v =>
    match v with
    | .list l => .ok (v, npListText l)
    | _ => .ok (v, alphaText v)
  | .npRe, v =>
    match v with
    | .list [.int n] =>
      -- "[3]" loses its brackets: the text denotes the scalar
      if 0 ≤ n ∧ n ≤ 9 then .ok (.int n, toString n) else .ok (v, npListText [.int n])
    | .list l => .ok (v, npListText l)
    | _ => .ok (v, v.pyStr)

/-- one `if cond(self.name): flags.append(text(self.name))` -/
structure FlagSpec where
  name : String
  cond : Cond
  conv : Conv
  deriving DecidableEq, Repr

/-- the positional flags of `__str__`, in the order they are appended -/
def posSpec : Cls → List FlagSpec
  | .quantized_linear => [⟨"bits", .always, .int⟩, ⟨"integer", .always, .int⟩, ⟨"symmetric", .always, .int⟩]
  | .quantized_bits => [⟨"bits", .always, .str⟩, ⟨"integer", .always, .npRe⟩, ⟨"symmetric", .always, .int⟩]
  | .bernoulli | .stochastic_binary | .ternary | .stochastic_ternary | .binary => []
  | .quantized_relu =>
    [⟨"bits", .always, .str⟩, ⟨"integer", .always, .npRe⟩, ⟨"use_sigmoid", .truthy, .int⟩, ⟨"negative_slope", .truthy, .str⟩,
     ⟨"use_stochastic_rounding", .truthy, .int⟩]
  | .quantized_ulaw =>
    [⟨"bits", .always, .str⟩, ⟨"integer", .always, .str⟩, ⟨"symmetric", .truthy, .int⟩, ⟨"u", .ne (.float 255), .str⟩]
  | .quantized_tanh =>
    [⟨"bits", .always, .str⟩, ⟨"use_stochastic_rounding", .truthy, .int⟩, ⟨"symmetric", .truthy, .int⟩, ⟨"use_real_tanh", .truthy, .int⟩]
  | .quantized_sigmoid =>
    [⟨"bits", .always, .str⟩, ⟨"symmetric", .truthy, .int⟩, ⟨"use_real_sigmoid", .truthy, .int⟩, ⟨"use_stochastic_rounding", .truthy, .int⟩]
  | .quantized_po2 => [⟨"bits", .always, .str⟩, ⟨"max_value", .notNone, .po2max⟩, ⟨"use_stochastic_rounding", .truthy, .int⟩]
  | .quantized_relu_po2 =>
    [⟨"bits", .always, .str⟩, ⟨"max_value", .notNone, .po2max⟩, ⟨"negative_slope", .truthy, .str⟩,
     ⟨"use_stochastic_rounding", .truthy, .int⟩]
  | .quantized_hswish => [⟨"bits", .always, .str⟩, ⟨"integer", .always, .npRe⟩, ⟨"symmetric", .always, .int⟩]

/-- the keyword flags of `__str__`, in the order they are appended -/
def kwSpec : Cls → List FlagSpec
  | .quantized_linear =>
    [⟨"keep_negative", .falsy, .lit "False" (.bool false)⟩, ⟨"alpha", .notNone, .np⟩, ⟨"use_stochastic_rounding", .truthy, .int⟩,
     ⟨"scale_axis", .notNone, .intOrList⟩]
  | .quantized_bits =>
    [⟨"keep_negative", .falsy, .lit "False" (.bool false)⟩, ⟨"alpha", .notNone, .alpha⟩, ⟨"use_stochastic_rounding", .truthy, .int⟩,
     ⟨"scale_axis", .notNone, .intOrList⟩, ⟨"use_ste", .falsy, .lit "False" (.bool false)⟩, ⟨"elements_per_scale", .notNone, .intOrList⟩,
     ⟨"min_po2_exponent", .notNone, .str⟩, ⟨"max_po2_exponent", .notNone, .str⟩]
  | .bernoulli | .stochastic_binary =>
    [⟨"alpha", .notNone, .alpha⟩, ⟨"temperature", .ne (.float 6), .str⟩, ⟨"use_real_sigmoid", .falsy, .int⟩]
  | .ternary =>
    [⟨"alpha", .notNone, .alpha⟩, ⟨"threshold", .notNone, .str⟩, ⟨"use_stochastic_rounding", .truthy, .int⟩,
     ⟨"number_of_unrolls", .ne (.int 5), .int⟩]
  | .stochastic_ternary =>
    [⟨"alpha", .notNone, .alpha⟩, ⟨"threshold", .notNone, .str⟩, ⟨"temperature", .ne (.float 8), .str⟩,
     ⟨"use_real_sigmoid", .falsy, .lit "0" (.int 0)⟩, ⟨"number_of_unrolls", .ne (.int 5), .str⟩]
  | .binary =>
    [⟨"use_01", .truthy, .int⟩, ⟨"alpha", .notNone, .alpha⟩, ⟨"elements_per_scale", .notNone, .intOrList⟩,
     ⟨"scale_axis", .notNone, .intOrList⟩, ⟨"min_po2_exponent", .notNone, .str⟩, ⟨"max_po2_exponent", .notNone, .str⟩,
     ⟨"use_stochastic_rounding", .truthy, .str⟩]
  | .quantized_relu =>
    [⟨"relu_upper_bound", .notNone, .str⟩, ⟨"is_quantized_clip", .falsy, .lit "False" (.bool false)⟩, ⟨"use_ste", .falsy, .lit "False" (.bool false)⟩]
  | .quantized_ulaw | .quantized_tanh | .quantized_sigmoid => []
  | .quantized_po2 | .quantized_relu_po2 =>
    [⟨"quadratic_approximation", .truthy, .int⟩, ⟨"log2_rounding", .ne (.str "rnd"), .quoted⟩,
     ⟨"use_ste", .falsy, .lit "False" (.bool false)⟩]
  | .quantized_hswish =>
    -- `keep_negative` is not a constructor argument of this class (always True): never printed
    [⟨"relu_shift", .always, .str⟩, ⟨"relu_upper_bound", .always, .str⟩, ⟨"alpha", .notNone, .alpha⟩,
     ⟨"use_stochastic_rounding", .truthy, .int⟩, ⟨"scale_axis", .notNone, .intOrList⟩]

/-- names of the options `__str__` can express -/
def printedNames (c : Cls) : List String := (posSpec c).map (·.name) ++ (kwSpec c).map (·.name)

/-- constructor parameters no statement of `__str__` mentions: the text cannot denote them, the
    rebuilt quantizer always gets the constructor default (`qnoise_factor`, `var_name`,
    `use_variables`, `post_training_scale`) -/
def unprinted (c : Cls) : List String := (paramNames c).filter fun k => !(printedNames c).contains k

/-- the condition in front of a `flags.append` is anchored at the value `d` (the constructor
    default of THIS class): it does not hold at `d`; a `!= c` test compares with a value `==` `d`
    (not with the default of a sibling class that shares the printing code); an `if not x:` flag
    has default `True`; an `is not None` option has default `None`. -/
def Cond.anchored (d : PyVal) : Cond → Bool
  | .always => true
  | .truthy => !d.truthy
  | .falsy => d.numVal == some 1
  | .notNone => d.isNone
  | .ne c => c.pyEq d

/-- option values for which a truthiness test (`if self.x:` / `if not self.x:`) decides "is the
    default": flags (bool / 0 / 1), numbers, or `None`-or-truthy for an option whose default is
    `None`.  The tests `is not None` and `!= c` need no such restriction. -/
def Cond.kindOK (d : PyVal) : Cond → PyVal → Bool
  | .truthy, v => v.truthy || (if d.isNone then v.isNone else d.numVal.isSome && v.numVal.isSome)
  | .falsy, v => !v.truthy || v.numVal == some 1
  | _, _ => true

def Cond.tag : Cond → String
  | .always => "always"
  | .truthy => "truthy"
  | .falsy => "falsy"
  | .notNone => "notNone"
  | .ne _ => "ne"

def mkFlag (key : Option String) (s : FlagSpec) (v : PyVal) : Except Err Flag :=
  match s.conv.apply v with
  | .ok r => .ok ⟨key, r.1, r.2⟩
  | .error e => .error e

/-- positional flags: a flag is printed when its condition holds or a later one is printed -/
def posFlags (g : String → PyVal) : List FlagSpec → Except Err (List Flag)
  | [] => .ok []
  | s :: rest =>
    match posFlags g rest with
    | .error e => .error e
    | .ok tail =>
      if s.cond.holds (g s.name) || !tail.isEmpty then
        match mkFlag none s (g s.name) with
        | .ok f => .ok (f :: tail)
        | .error e => .error e
      else .ok []

/-- keyword flags: each printed when its own condition holds -/
def kwFlags (g : String → PyVal) : List FlagSpec → Except Err (List Flag)
  | [] => .ok []
  | s :: rest =>
    match kwFlags g rest with
    | .error e => .error e
    | .ok tail =>
      if s.cond.holds (g s.name) then
        match mkFlag (some s.name) s (g s.name) with
        | .ok f => .ok (f :: tail)
        | .error e => .error e
      else .ok tail

/-- the flags `__str__` prints (or the exception it raises) -/
def flagsF (q : Q) : Except Err (List Flag) :=
  match posFlags q.get (posSpec q.cls), kwFlags q.get (kwSpec q.cls) with
  | .ok p, .ok k => .ok (p ++ k)
  | .error e, _ => .error e
  | _, .error e => .error e

/-- `str(q)`: `name + "(" + ",".join(flags) + ")"` -/
def printQ (q : Q) : Except Err String :=
  match flagsF q with
  | .error e => .error e
  | .ok fl =>
    .ok (String.ofList (q.cls.name.toList ++ '(' :: (joinComma (fl.map Flag.chars) ++ [')'])))

/-- the positional values the printed flags denote, in order -/
def posVals (fl : List Flag) : List PyVal :=
  fl.filterMap fun f => match f.key with | none => some f.val | some _ => Option.none

/-- the keyword values the printed flags denote, in order -/
def kwVals (fl : List Flag) : Env :=
  fl.filterMap fun f => match f.key with | none => Option.none | some k => some (k, f.val)

/-- `get_quantizer(str(q))` -/
def reparse (q : Q) : Except Err Q :=
  match printQ q with
  | .error e => .error e
  | .ok s => safeEval s.toList

end QKV.Py
