/-
  QKV.Model.Print — `__str__` of the 14 registered quantizer classes (qkeras/quantizers.py),
  transcribed flag by flag (`flags.append(...)`, `",".join(flags)`), exceptions included, and
  the string round trip `get_quantizer(str(q))`.  Core Lean only.
-/
import QKV.Model.Parse
namespace QKV.Py

/-- `str(int(v))` -/
def strInt (v : PyVal) : Except Err String :=
  match v.pyInt with
  | .ok i => .ok (toString i)
  | .error e => .error e

/-- the `alpha` flag shared by most classes: `str(alpha)`, quoted when it is a string -/
def alphaText (a : PyVal) : String := if a.isStr then "'" ++ a.pyStr ++ "'" else a.pyStr

def joinFlags (fl : List String) : String := ",".intercalate fl

/-- `list_to_str` / scalar printing of binary's `scale_axis` and `elements_per_scale` -/
def listOrScalar (v : PyVal) : String :=
  match v with
  | .list l => "[" ++ ",".intercalate (l.map Num.pyStr) ++ "]"
  | _ => v.pyStr

def opt (c : Bool) (s : String) : List String := if c then [s] else []

/-- the list `flags` built by `__str__` (or the exception it raises) -/
def flags (q : Q) : Except Err (List String) :=
  let g := q.get
  match q.cls with
  | .quantized_linear => do
    let b ← strInt (g "bits")
    let i ← strInt (g "integer")
    let s ← strInt (g "symmetric")
    -- `elif self.alpha is not None: alpha = np.array(alpha)` reads the unassigned local
    if !(g "alpha").isStr && !(g "alpha").isNone then .error .unboundLocal else
    let usr ← (if (g "use_stochastic_rounding").truthy
               then (strInt (g "use_stochastic_rounding")).map fun t => ["use_stochastic_rounding=" ++ t]
               else .ok [])
    pure ([b, i, s] ++ opt (!(g "keep_negative").truthy) "keep_negative=False"
          ++ opt (g "alpha").isStr ("alpha='" ++ (g "alpha").pyStr ++ "'") ++ usr)
  | .quantized_bits => do
    let s ← strInt (g "symmetric")
    let usr ← (if (g "use_stochastic_rounding").truthy
               then (strInt (g "use_stochastic_rounding")).map fun t => ["use_stochastic_rounding=" ++ t]
               else .ok [])
    pure ([(g "bits").pyStr, (g "integer").pyStr, s]
          ++ opt (!(g "keep_negative").truthy) "keep_negative=False"
          ++ opt (g "alpha").truthy ("alpha=" ++ alphaText (g "alpha")) ++ usr)
  | .bernoulli | .stochastic_binary => do
    let urs ← (if !(g "use_real_sigmoid").truthy
               then (strInt (g "use_real_sigmoid")).map fun t => ["use_real_sigmoid=" ++ t]
               else .ok [])
    let dflt : PyVal := .float 6
    pure (opt (!(g "alpha").isNone) ("alpha=" ++ alphaText (g "alpha"))
          ++ opt (!(g "temperature").pyEq dflt) ("temperature=" ++ (g "temperature").pyStr) ++ urs)
  | .ternary => do
    let usr ← (if (g "use_stochastic_rounding").truthy
               then (strInt (g "use_stochastic_rounding")).map fun t => ["use_stochastic_rounding=" ++ t]
               else .ok [])
    let nou ← (if !(g "number_of_unrolls").pyEq (.int 5)
               then (strInt (g "number_of_unrolls")).map fun t => ["number_of_unrolls=" ++ t]
               else .ok [])
    pure (opt (!(g "alpha").isNone) ("alpha=" ++ alphaText (g "alpha"))
          ++ opt (!(g "threshold").isNone) ("threshold=" ++ (g "threshold").pyStr) ++ usr ++ nou)
  | .stochastic_ternary =>
    .ok (opt (!(g "alpha").isNone) ("alpha=" ++ alphaText (g "alpha"))
         ++ opt (!(g "threshold").isNone) ("threshold=" ++ (g "threshold").pyStr)
         ++ opt (!(g "temperature").pyEq (.float 8)) ("temperature=" ++ (g "temperature").pyStr)
         ++ opt (!(g "use_real_sigmoid").truthy) "use_real_sigmoid=0"
         ++ opt (!(g "number_of_unrolls").pyEq (.int 5))
              ("number_of_unrolls=" ++ (g "number_of_unrolls").pyStr))
  | .binary => do
    let u01 ← (if (g "use_01").truthy then (strInt (g "use_01")).map fun t => ["use_01=" ++ t]
               else .ok [])
    pure (u01 ++ opt (!(g "alpha").isNone) ("alpha=" ++ alphaText (g "alpha"))
          ++ opt (!(g "elements_per_scale").isNone)
               ("elements_per_scale=" ++ listOrScalar (g "elements_per_scale"))
          ++ opt (!(g "scale_axis").isNone) ("scale_axis=" ++ listOrScalar (g "scale_axis"))
          ++ opt (!(g "min_po2_exponent").isNone) ("min_po2_exponent=" ++ (g "min_po2_exponent").pyStr)
          ++ opt (!(g "max_po2_exponent").isNone) ("max_po2_exponent=" ++ (g "max_po2_exponent").pyStr)
          ++ opt (g "use_stochastic_rounding").truthy
               ("use_stochastic_rounding=" ++ (g "use_stochastic_rounding").pyStr))
  | .quantized_relu => do
    let us ← (if (g "use_sigmoid").truthy || (g "use_stochastic_rounding").truthy
              then (strInt (g "use_sigmoid")).map fun t => [t] else .ok [])
    let usr ← (if (g "use_stochastic_rounding").truthy
               then (strInt (g "use_stochastic_rounding")).map fun t => [t] else .ok [])
    pure ([(g "bits").pyStr, (g "integer").pyStr] ++ us
          ++ opt (g "negative_slope").truthy (g "negative_slope").pyStr ++ usr)
  | .quantized_ulaw => do
    let dflt : PyVal := .float 255
    let sy ← (if (g "symmetric").truthy || !(g "u").pyEq dflt
              then (strInt (g "symmetric")).map fun t => [t] else .ok [])
    pure ([(g "bits").pyStr, (g "integer").pyStr] ++ sy ++ opt (!(g "u").pyEq dflt) (g "u").pyStr)
  | .quantized_tanh => do
    let a ← (if (g "use_stochastic_rounding").truthy
             then (strInt (g "use_stochastic_rounding")).map fun t => [t] else .ok [])
    let b ← (if (g "symmetric").truthy then (strInt (g "symmetric")).map fun t => [t] else .ok [])
    let c ← (if (g "use_real_tanh").truthy then (strInt (g "use_real_tanh")).map fun t => [t]
             else .ok [])
    pure ([(g "bits").pyStr] ++ a ++ b ++ c)
  | .quantized_sigmoid => do
    let a ← (if (g "symmetric").truthy then (strInt (g "symmetric")).map fun t => [t] else .ok [])
    let b ← (if (g "use_real_sigmoid").truthy then (strInt (g "use_real_sigmoid")).map fun t => [t]
             else .ok [])
    let c ← (if (g "use_stochastic_rounding").truthy
             then (strInt (g "use_stochastic_rounding")).map fun t => [t] else .ok [])
    pure ([(g "bits").pyStr] ++ a ++ b ++ c)
  | .quantized_po2 => do
    let mv ← (if !(g "max_value").isNone || (g "use_stochastic_rounding").truthy
              then (strInt (g "max_value")).map fun t => [t] else .ok [])
    let usr ← (if (g "use_stochastic_rounding").truthy
               then (strInt (g "use_stochastic_rounding")).map fun t => [t] else .ok [])
    let qa ← (if (g "quadratic_approximation").truthy
              then (strInt (g "quadratic_approximation")).map fun t => ["quadratic_approximation=" ++ t]
              else .ok [])
    pure ([(g "bits").pyStr] ++ mv ++ usr ++ qa)
  | .quantized_relu_po2 => do
    let mv ← (if !(g "max_value").isNone || (g "use_stochastic_rounding").truthy
              then (strInt (g "max_value")).map fun t => [t] else .ok [])
    let usr ← (if (g "use_stochastic_rounding").truthy
               then (strInt (g "use_stochastic_rounding")).map fun t => [t] else .ok [])
    let qa ← (if (g "quadratic_approximation").truthy
              then (strInt (g "quadratic_approximation")).map fun t => ["quadratic_approximation=" ++ t]
              else .ok [])
    pure ([(g "bits").pyStr] ++ mv ++ opt (g "negative_slope").truthy (g "negative_slope").pyStr
          ++ usr ++ qa)
  | .quantized_hswish =>
    -- `assert isinstance(integer_bits, int)` on the result of `re.sub`, which is a str
    .error .assertionError

/-- `str(q)` -/
def printQ (q : Q) : Except Err String :=
  match flags q with
  | .error e => .error e
  | .ok fl => .ok (q.cls.name ++ "(" ++ joinFlags fl ++ ")")

/-- `get_quantizer(str(q))` -/
def reparse (q : Q) : Except Err Q :=
  match printQ q with
  | .error e => .error e
  | .ok s => safeEval s.toList

end QKV.Py
