/-
  QKV.Model.QTypes — the qtools data-type records (`quantizer_impl.IQuantizer`
  and subclasses) and the value lattices they stand for.

  Mirrors qkeras/qtools/quantized_operators/quantizer_impl.py:
    IQuantizer fields, the class templates used by the factories,
    `get_exp`, `convert_qkeras_quantizer` of every class.
  Core Lean only.
-/
import QKV.Model.Basic
namespace QKV

/-- `IQuantizer.name` — only the names the factories can produce. -/
inductive QName
  | quantized_bits | quantized_tanh | quantized_ulaw | quantized_relu
  | binary | stochastic_binary | bernoulli
  | ternary | stochastic_ternary
  | quantized_po2 | quantized_relu_po2 | floating_point
  deriving DecidableEq, Repr, Inhabited

def QName.toString : QName → String
  | .quantized_bits => "quantized_bits" | .quantized_tanh => "quantized_tanh"
  | .quantized_ulaw => "quantized_ulaw" | .quantized_relu => "quantized_relu"
  | .binary => "binary" | .stochastic_binary => "stochastic_binary"
  | .bernoulli => "bernoulli" | .ternary => "ternary"
  | .stochastic_ternary => "stochastic_ternary"
  | .quantized_po2 => "quantized_po2" | .quantized_relu_po2 => "quantized_relu_po2"
  | .floating_point => "floating_point"

def QName.ofString? : String → Option QName
  | "quantized_bits" => some .quantized_bits | "quantized_tanh" => some .quantized_tanh
  | "quantized_ulaw" => some .quantized_ulaw | "quantized_relu" => some .quantized_relu
  | "binary" => some .binary | "stochastic_binary" => some .stochastic_binary
  | "bernoulli" => some .bernoulli | "ternary" => some .ternary
  | "stochastic_ternary" => some .stochastic_ternary
  | "quantized_po2" => some .quantized_po2 | "quantized_relu_po2" => some .quantized_relu_po2
  | "floating_point" => some .floating_point
  | _ => none

/-- Python `"binary" in name`. -/
def QName.hasBinary : QName → Bool
  | .binary | .stochastic_binary => true | _ => false
/-- Python `"ternary" in name`. -/
def QName.hasTernary : QName → Bool
  | .ternary | .stochastic_ternary => true | _ => false
/-- Python `"po2" in name`. -/
def QName.hasPo2 : QName → Bool
  | .quantized_po2 | .quantized_relu_po2 => true | _ => false

/-- One `IQuantizer` instance.  `maxValPo2 = none` stands for the sentinel `-1`. -/
structure QRec where
  mode : Nat            -- 0 fixed, 1 po2, 2 ternary, 3 binary ±1, 4 binary 0/1, 5 float
  name : QName
  bits : Int
  intBits : Int
  signed : Bool
  isFloat : Bool
  isPo2 : Bool
  maxValPo2 : Option Rat
  use01 : Bool          -- only meaningful for the Binary family
  deriving DecidableEq, Repr, Inhabited

def b2i (b : Bool) : Int := if b then 1 else 0

/-! ### class templates (the objects stored in the factory tables) -/

def tQuantizedBits : QRec :=
  { mode := 0, name := .quantized_bits, bits := -1, intBits := -1, signed := true,
    isFloat := false, isPo2 := false, maxValPo2 := none, use01 := false }
def tPowerOfTwo : QRec :=
  { mode := 1, name := .quantized_po2, bits := -1, intBits := -1, signed := true,
    isFloat := false, isPo2 := true, maxValPo2 := none, use01 := false }
def tTernary : QRec :=
  { mode := 2, name := .ternary, bits := 2, intBits := 2, signed := true,
    isFloat := false, isPo2 := false, maxValPo2 := none, use01 := false }
def tBinary (use01 : Bool) : QRec :=
  { mode := if use01 then 4 else 3, name := .binary, bits := 1, intBits := 1,
    signed := !use01, isFloat := false, isPo2 := false, maxValPo2 := none, use01 := use01 }
def tFloat (bits : Int) : QRec :=
  { mode := 5, name := .floating_point, bits := bits, intBits := -1, signed := true,
    isFloat := true, isPo2 := false, maxValPo2 := none, use01 := false }

/-! ### `get_exp` -/

/-- `2^(non_sign_bits − 1)`: magnitude of `get_exp`'s `min_exp` (non_sign_bits ≥ 1 assumed). -/
def po2Half (q : QRec) : Int :=
  let nsb : Int := if q.signed then q.bits - 1 else q.bits
  ((2 ^ (nsb - 1).toNat : Nat) : Int)

/-- `get_exp`'s `max_exp` *before* the final `max(0, ·)` clamp: the largest exponent the
    type can hold (`2^(nsb−1) − 1`, capped by `ceil(log2 max_val_po2)`). -/
def po2MaxExpRaw (q : QRec) : Int :=
  let maxOrig : Int := po2Half q - 1
  match q.maxValPo2 with
  | none => maxOrig
  | some m => if m ≤ 0 then 0 else imin (ceilLog2Rat m) maxOrig

/-- `quantizer_impl.get_exp`: returns `(−min_exp, max(0, max_exp))`; both components ≥ 0. -/
def getExp (q : QRec) : Int × Int := (po2Half q, imax 0 (po2MaxExpRaw q))

/-- `accumulator_impl.po2_to_qbits`: `(bits, int_bits)` of the fixed-point carrier. -/
def po2ToQbits (q : QRec) : Int × Int :=
  let (mn, mx) := getExp q
  (b2i q.signed + (mn + mx), mx)

/-! ### value lattices -/

/-- codes of a fixed-point type: `(lo, hi, lsbExp)` — values are `k * 2^lsbExp`, `lo ≤ k ≤ hi`. -/
def fixedLo (bits : Int) (signed : Bool) : Int :=
  if signed then - ((2 ^ (bits - 1).toNat : Nat) : Int) else 0
def fixedHi (bits : Int) (signed : Bool) : Int :=
  if signed then ((2 ^ (bits - 1).toNat : Nat) : Int) - 1 else ((2 ^ bits.toNat : Nat) : Int) - 1
def fixedLsb (bits intBits : Int) (signed : Bool) : Int := intBits + b2i signed - bits

/-- `v` is a value of fixed-point type `(bits, intBits, signed)`. -/
def ValFixed (bits intBits : Int) (signed : Bool) (v : Rat) : Prop :=
  ∃ k : Int, fixedLo bits signed ≤ k ∧ k ≤ fixedHi bits signed ∧
    v = (k : Rat) * pow2 (fixedLsb bits intBits signed)

/-- `v` is a value of a power-of-two type as qtools reads it (`get_exp`): `±2^e` with
    `min_exp ≤ e ≤ max_exp`; the clamp `max(0, max_exp)` only sizes the integer bits of the
    fixed-point carrier and is not part of the exponent range. -/
def ValPo2 (q : QRec) (v : Rat) : Prop :=
  ∃ e : Int, - po2Half q ≤ e ∧ e ≤ po2MaxExpRaw q ∧
    (v = pow2 e ∨ (q.signed = true ∧ v = - pow2 e))

/-- The value lattice a qtools record stands for, selected by `mode` exactly as the
    factories dispatch on it. -/
def Val (q : QRec) (v : Rat) : Prop :=
  match q.mode with
  | 0 => ValFixed q.bits q.intBits q.signed v
  | 1 => ValPo2 q v
  | 2 => v = -1 ∨ v = 0 ∨ v = 1
  | 3 => v = -1 ∨ v = 1
  | 4 => v = 0 ∨ v = 1
  | _ => True

/-! ### executable membership test (used by the clause oracle in the driver) -/

/-- is `v = k * 2^e` for an integer `k`; returns `k`. -/
def codeOf (v : Rat) (e : Int) : Option Int :=
  let k := v / pow2 e
  if k.den = 1 then some k.num else none

def valFixedB (bits intBits : Int) (signed : Bool) (v : Rat) : Bool :=
  match codeOf v (fixedLsb bits intBits signed) with
  | some k => decide (fixedLo bits signed ≤ k) && decide (k ≤ fixedHi bits signed)
  | none => false

def valPo2B (q : QRec) (v : Rat) : Bool :=
  let a := if v < 0 then -v else v
  if a = 0 then false
  else if v < 0 ∧ q.signed = false then false
  else
    let e := floorLog2Rat a
    decide (a = pow2 e) && decide (-po2Half q ≤ e) && decide (e ≤ po2MaxExpRaw q)

def valB (q : QRec) (v : Rat) : Bool :=
  match q.mode with
  | 0 => valFixedB q.bits q.intBits q.signed v
  | 1 => valPo2B q v
  | 2 => decide (v = -1) || decide (v = 0) || decide (v = 1)
  | 3 => decide (v = -1) || decide (v = 1)
  | 4 => decide (v = 0) || decide (v = 1)
  | _ => true

/-- all values of a (small) type, for brute-force enumeration in the driver. -/
def enumVals (q : QRec) : List Rat :=
  match q.mode with
  | 0 =>
    let lo := fixedLo q.bits q.signed
    let hi := fixedHi q.bits q.signed
    (List.range (hi - lo + 1).toNat).map fun (i : Nat) =>
      ((lo + (i : Int) : Int) : Rat) * pow2 (fixedLsb q.bits q.intBits q.signed)
  | 1 =>
    let mn := po2Half q
    let mx := po2MaxExpRaw q
    let es := (List.range (mn + mx + 1).toNat).map fun (i : Nat) => (-mn + (i : Int))
    let pos := es.map pow2
    if q.signed then pos ++ pos.map (fun v => -v) else pos
  | 2 => [-1, 0, 1]
  | 3 => [-1, 1]
  | 4 => [0, 1]
  | _ => []

/-! ### `convert_qkeras_quantizer` of every class, on the fields it reads -/

/-- The qkeras-side facts a conversion reads. -/
structure QKerasQ where
  cls : String
  bits : Int := 8
  integer : Int := 0
  keepNegative : Bool := true
  use01 : Bool := false
  negSlopeNonzero : Bool := false
  maxValue : Option Rat := none      -- Python falsy (None or 0) ↦ none handled below

def ofQuantizer (q : QKerasQ) : Option QRec :=
  match q.cls with
  | "quantized_bits" =>
    some { tQuantizedBits with bits := q.bits, intBits := q.integer, signed := q.keepNegative }
  | "quantized_tanh" =>
    -- `int_bits = 0` since the repair "QuantizedTanh.convert_qkeras_quantizer sets int_bits"
    some { tQuantizedBits with name := .quantized_tanh, bits := q.bits, intBits := 0,
                               signed := true }
  | "quantized_ulaw" =>
    some { tQuantizedBits with name := .quantized_ulaw, bits := q.bits, intBits := q.integer,
                               signed := true }
  | "binary" => some (tBinary q.use01)
  | "stochastic_binary" => some { tBinary false with name := .stochastic_binary }
  | "bernoulli" => some { tBinary true with name := .bernoulli }
  | "quantized_relu" =>
    some { mode := if q.bits = 1 ∧ q.integer = 1 then 4 else 0,
           name := .quantized_relu, bits := q.bits, intBits := q.integer,
           signed := q.negSlopeNonzero, isFloat := false, isPo2 := false,
           maxValPo2 := none, use01 := false }
  | "ternary" => some tTernary
  | "stochastic_ternary" => some { tTernary with name := .stochastic_ternary }
  | "quantized_po2" =>
    some { tPowerOfTwo with bits := q.bits, intBits := q.bits, signed := true,
                            maxValPo2 := match q.maxValue with
                              | some m => if m = 0 then none else some m
                              | none => none }
  | "quantized_relu_po2" =>
    some { tPowerOfTwo with name := .quantized_relu_po2, bits := q.bits, intBits := q.bits,
                            signed := false,
                            maxValPo2 := match q.maxValue with
                              | some m => if m = 0 then none else some m
                              | none => none }
  | _ => none

/-! ### histories: `convert_qkeras_quantizer` on an impl object that was converted before

`QuantizerFactory.make_quantizer` builds a fresh impl object per call, but the impl classes are public and
`convert_qkeras_quantizer` can be called again on the same object (a configuration sweep re-using one
operand object).  `convertOnto old q` is the method body of the class the factory pairs with `q.cls`,
assignment by assignment: fields the method does not assign keep the value they had. -/

/-- state of a freshly constructed impl object of the class paired with `cls` (`__init__`) -/
def freshOf (cls : String) : Option QRec :=
  match cls with
  | "quantized_bits" => some tQuantizedBits
  | "quantized_tanh" => some { tQuantizedBits with name := .quantized_tanh }
  | "quantized_ulaw" => some { tQuantizedBits with name := .quantized_ulaw }
  | "binary" => some (tBinary false)
  | "stochastic_binary" => some { tBinary false with name := .stochastic_binary }
  | "bernoulli" => some { tBinary true with name := .bernoulli }
  | "quantized_relu" =>
    some { mode := 0, name := .quantized_relu, bits := -1, intBits := -1, signed := false,
           isFloat := false, isPo2 := false, maxValPo2 := none, use01 := false }
  | "ternary" => some tTernary
  | "stochastic_ternary" => some { tTernary with name := .stochastic_ternary }
  | "quantized_po2" => some tPowerOfTwo
  | "quantized_relu_po2" => some { tPowerOfTwo with name := .quantized_relu_po2, signed := false }
  | _ => none

/-- Python truthiness of `quantizer.max_value` (`None` and `0` are falsy) -/
def po2Cap (m : Option Rat) : Option Rat :=
  match m with
  | some m => if m = 0 then none else some m
  | none => none

/-- `old.convert_qkeras_quantizer(q)`; `old` is an object of the class paired with `q.cls`.
    `QuantizedRelu` assigns `is_signed` on every conversion (`self.is_signed = int(hasattr(…) and
    negative_slope != 0)`) since the repair of C16-relu-reconvert-sign; it used to only ever SET it
    (`if negative_slope != 0: self.is_signed = 1`, no else). -/
def convertOnto (old : QRec) (q : QKerasQ) : Option QRec :=
  match q.cls with
  | "quantized_bits" =>
    some { old with mode := 0, bits := q.bits, intBits := q.integer, signed := q.keepNegative }
  | "quantized_tanh" => some { old with mode := 0, bits := q.bits, intBits := 0, signed := true }
  | "quantized_ulaw" =>
    some { old with mode := 0, bits := q.bits, intBits := q.integer, signed := true }
  | "binary" =>
    some { old with mode := if q.use01 then 4 else 3, signed := !q.use01, use01 := q.use01 }
  | "stochastic_binary" => some old
  | "bernoulli" => some old
  | "quantized_relu" =>
    some { old with mode := if q.bits = 1 ∧ q.integer = 1 then 4 else 0, bits := q.bits,
                    intBits := q.integer,
                    signed := q.negSlopeNonzero }
  | "ternary" => some old
  | "stochastic_ternary" => some old
  | "quantized_po2" =>
    some { old with signed := true, name := .quantized_po2, maxValPo2 := po2Cap q.maxValue,
                    bits := q.bits, intBits := q.bits }
  | "quantized_relu_po2" =>
    some { old with bits := q.bits, intBits := q.bits, maxValPo2 := po2Cap q.maxValue }
  | _ => none

/-- a whole history on one object of the class paired with `cls`: construct, then convert in order -/
def convertHistory (cls : String) (qs : List QKerasQ) : Option QRec :=
  qs.foldl (fun acc q => match acc with
    | some r => if q.cls = cls then convertOnto r q else none
    | none => none) (freshOf cls)

end QKV
