/-
  QKV.Model.FixedQObj — the fixed-point quantizers of qkeras/quantizers.py as OBJECTS WITH A HISTORY.

  A quantizer object is used many times: it is called, its reporters `min()` / `max()` / `range()` are
  read, its public attributes are assigned, `_set_trainable_parameter()` is invoked (directly, or by
  handing the object to QDense / QConv* / QDepthwiseConv2D / … as kernel quantizer), it is handed to a
  layer in another role.  The model is a state machine

      state  = the CURRENT configuration of the object (plus whatever the real object really keeps:
               `quantized_linear` keeps the quantization scale it computed last)
      event  = something that changes the state (attribute assignment, `_set_trainable_parameter`,
               an auto-scale call storing its data-dependent scale)
      ask    = an observation: a call on an input, `min()`, `max()`, `range()`; its answer is a function
               of the current state ALONE and it leaves the state unchanged

  (`ObjSpec`, `HStep`, `ObjSpec.run`, `ObjSpec.final`), instantiated for the five classes of C01 / C02:
  `linSpec`, `bitsSpec`, `reluSpec`, `tanhSpec`, `sigmoidSpec`.  Nothing here caches: the clip bounds,
  `m`, `non_sign_bits`, … are recomputed from the attributes at every call, as in the unchanged code.

  Data-dependent scales (`alpha = "auto" / "auto_po2"`, which is what `_set_trainable_parameter` switches
  an `alpha=None` quantizer to) are outside the value-level properties; the scale the object picks for a
  tensor enters as an ORACLE value through the event `rescale`, and the model says how an element is
  quantized GIVEN that scale (which codes of which format can come out).
  Core Lean only.
-/
import QKV.Model.FixedQ
namespace QKV

/-! ### the generic machine -/

structure ObjSpec (S E Q A : Type) where
  /-- an event changes the state -/
  apply : S → E → S
  /-- an observation is answered from the current state -/
  answer : S → Q → A

/-- one step of a history -/
inductive HStep (E Q : Type)
  | ev (e : E)
  | ask (q : Q)
  deriving Repr

namespace ObjSpec
variable {S E Q A : Type}

/-- the state after a history (observations leave no trace) -/
def final (M : ObjSpec S E Q A) : S → List (HStep E Q) → S
  | s, [] => s
  | s, .ev e :: r => final M (M.apply s e) r
  | s, .ask _ :: r => final M s r

/-- the answers to the observations of a history, in order -/
def run (M : ObjSpec S E Q A) : S → List (HStep E Q) → List A
  | _, [] => []
  | s, .ev e :: r => run M (M.apply s e) r
  | s, .ask q :: r => M.answer s q :: run M s r

/-- the events of a history, in order -/
def events : List (HStep E Q) → List E
  | [] => []
  | .ev e :: r => e :: events r
  | .ask _ :: r => events r

end ObjSpec

/-- what an observation returns: a number (`q(x)` for one element, `min()`, `max()`), a list
    (`range()`), or an exception (`AssertionError` of `range()` / of the auto-scale branch) -/
inductive Ans
  | val (r : Rat)
  | list (l : List Rat)
  | err
  deriving Repr, DecidableEq

/-- the observations every class offers; a call carries the input element `x` and the value `p` of
    the float surrogate (`_sigmoid(x / m_i)`, `tanh x`, …) for the classes that have one (an oracle
    input, as in `qtanhP` / `qsigmoidP` / `qreluSigP`; ignored by the others) -/
inductive Ask
  | call (x p : Rat)
  | min
  | max
  | range
  deriving Repr

def optList : Option (List Rat) → Ans
  | some l => .list l
  | none => .err

/-! ### quantized_linear -/

/-- what a `quantized_linear` object keeps.
    `cfg` holds the attributes (`cfg.alpha` = the declared constant alpha, meaningful when `auto` is
    off); `auto` = `alpha` is one of the strings `"auto"`, `"auto_po2"`; `stored` = the alpha-equivalent
    of the attribute `quantization_scale` (`quantization_scale = stored.getD 1 · 2^(integer − ub)`):
    written by `__init__` (from the alpha it was given) and by every auto-scale call, and by nothing
    else — assigning `alpha` does not refresh it (recorded finding C01-linear-alpha-reassign). -/
structure LinSt where
  cfg : LinCfg
  auto : Bool
  stored : Option Rat
  deriving Repr

inductive LinEv
  | setSymmetric (s : Bool)          -- `q.symmetric = s`
  | setAlpha (a : Option Rat)        -- `q.alpha = None` / a constant
  | setAlphaAuto                     -- `q.alpha = "auto_po2"` / `"auto"`
  | trainable                        -- `q._set_trainable_parameter()` / handed over as kernel quantizer
  | rescale (a : Rat)                -- an auto-scale call stores the data-dependent scale (oracle)
  | noop                             -- handed to a layer in another role, another object is built, …
  deriving Repr

/-- `quantized_linear(bits, integer, symmetric, keep_negative, alpha)`; with a string alpha `__init__`
    stores the data-type scale -/
def LinSt.construct (c : LinCfg) (auto : Bool) : LinSt :=
  { cfg := c, auto := auto, stored := if auto then none else c.alpha }

def LinSt.apply (s : LinSt) : LinEv → LinSt
  | .setSymmetric b => { s with cfg := { s.cfg with symmetric := b } }
  | .setAlpha a => { s with cfg := { s.cfg with alpha := a }, auto := false }
  | .setAlphaAuto => { s with auto := true }
  | .trainable =>
    -- `if self.alpha is None: self.alpha = "auto_po2"; self.symmetric = True`
    if !s.auto && s.cfg.alpha.isNone then { s with cfg := { s.cfg with symmetric := true }, auto := true }
    else s
  | .rescale a => if s.auto then { s with stored := some a } else s
  | .noop => s

/-- the configuration the object BEHAVES as: the current attributes with the stored scale -/
def LinSt.effective (s : LinSt) : LinCfg := { s.cfg with alpha := s.stored }

def LinSt.answer (t : Tie) (s : LinSt) : Ask → Ans
  | .call x _ => .val (qlinear t s.effective x)
  | .min => .val (qlinearMin s.effective)
  | .max => .val (qlinearMax s.effective)
  | .range => .list (qlinearRange s.effective)

def linSpec (t : Tie) : ObjSpec LinSt LinEv Ask Ans := { apply := LinSt.apply, answer := LinSt.answer t }

/-! ### quantized_bits -/

/-- `quantized_bits` with `alpha = "auto" / "auto_po2"` GIVEN the scale `s` it computed for the
    element's channel (`s` = `scale` before the final `scale * m`, i.e. `q.scale / m`):
      x = x / m_i;  v = floor(|x| / s + 0.5);  z = sign(x) * (v if v < levels/2 else levels/2)
      xq = (s * m) * (m_i * z / m)
    with `levels/2 = 2^(bits-1) - 1` (only the symmetric case is implemented; `keep_negative` is
    not consulted). -/
def qbitsAuto (c : BitsCfg) (s x : Rat) : Rat :=
  let xs := x / pow2 c.integer
  let v : Int := ((if xs < 0 then -xs else xs) / s + 1/2).floor
  let half : Int := twoPow (c.bits - 1) - 1
  let z : Int := (if x < 0 then -1 else if 0 < x then 1 else 0) * (if v < half then v else half)
  s * (pow2 c.integer * (z : Rat))

structure BitsSt where
  cfg : BitsCfg         -- `cfg.alpha` = the constant alpha (meaningful when `auto` is off)
  auto : Bool           -- `alpha` is a string
  scale : Rat           -- the scale of the last auto-scale call (oracle)
  deriving Repr

inductive BitsEv
  | setBits (b : Int)
  | setInteger (i : Int)
  | setSymmetric (s : Bool)
  | setKeepNeg (k : Bool)
  | setAlpha (a : Option Rat)
  | trainable
  | rescale (s : Rat)
  | noop
  deriving Repr

def BitsSt.construct (c : BitsCfg) : BitsSt := { cfg := c, auto := false, scale := 1 }

def BitsSt.apply (s : BitsSt) : BitsEv → BitsSt
  | .setBits b => { s with cfg := { s.cfg with bits := b } }
  | .setInteger i => { s with cfg := { s.cfg with integer := i } }
  | .setSymmetric b => { s with cfg := { s.cfg with symmetric := b } }
  | .setKeepNeg k => { s with cfg := { s.cfg with keepNeg := k } }
  | .setAlpha a => { s with cfg := { s.cfg with alpha := a }, auto := false }
  | .trainable =>
    -- `if self.alpha is None: self.alpha = "auto_po2"; self.freeze_scale = False; self.symmetric = True`
    if !s.auto && s.cfg.alpha.isNone then { s with cfg := { s.cfg with symmetric := true }, auto := true }
    else s
  | .rescale a => if s.auto then { s with scale := a } else s
  | .noop => s

def BitsSt.answer (t : Tie) (s : BitsSt) : Ask → Ans
  | .call x _ =>
    if s.auto then (if s.cfg.symmetric then .val (qbitsAuto s.cfg s.scale x) else .err)
    else .val (qbits t s.cfg x)
  | .min => .val (qbitsMin s.cfg)
  | .max => .val (qbitsMax s.cfg)
  | .range => if s.auto then .err else optList (qbitsRange s.cfg)

def bitsSpec (t : Tie) : ObjSpec BitsSt BitsEv Ask Ans := { apply := BitsSt.apply, answer := BitsSt.answer t }

/-! ### quantized_relu -/

structure ReluSt where
  cfg : ReluCfg
  useSigmoid : Bool
  deriving Repr

inductive ReluEv
  | setBits (b : Int)
  | setInteger (i : Int)
  | setSlope (k : Option Nat)        -- `negative_slope = 2^-k` / `0.0`
  | setUpper (u : Option Rat)        -- `relu_upper_bound`
  | setQclip (b : Bool)              -- `is_quantized_clip`
  | setUseSigmoid (b : Bool)
  | noop                             -- `_set_trainable_parameter()` (inherited: does nothing), …
  deriving Repr

def ReluSt.apply (s : ReluSt) : ReluEv → ReluSt
  | .setBits b => { s with cfg := { s.cfg with bits := b } }
  | .setInteger i => { s with cfg := { s.cfg with integer := i } }
  | .setSlope k => { s with cfg := { s.cfg with slopeLog := k } }
  | .setUpper u => { s with cfg := { s.cfg with upper := u } }
  | .setQclip b => { s with cfg := { s.cfg with qclip := b } }
  | .setUseSigmoid b => { s with useSigmoid := b }
  | .noop => s

def ReluSt.answer (t : Tie) (s : ReluSt) : Ask → Ans
  | .call x p => .val (if s.useSigmoid then qreluSigU t s.cfg p else qreluU t s.cfg x)
  | .min => .val (qreluMin s.cfg)
  | .max => .val (qreluMax s.cfg)
  | .range => if s.useSigmoid then .err else optList (qreluRange s.cfg)

def reluSpec (t : Tie) : ObjSpec ReluSt ReluEv Ask Ans := { apply := ReluSt.apply, answer := ReluSt.answer t }

/-! ### quantized_tanh / quantized_sigmoid (on the surrogate value) -/

structure SurSt where
  bits : Int
  symmetric : Bool
  deriving Repr

inductive SurEv
  | setBits (b : Int)
  | setSymmetric (s : Bool)
  | noop          -- `use_real_tanh` / `use_real_sigmoid` / `set_internal_sigmoid`: which surrogate the
                  -- oracle value `p` of the next calls comes from; `_set_trainable_parameter()`
  deriving Repr

def SurSt.apply (s : SurSt) : SurEv → SurSt
  | .setBits b => { s with bits := b }
  | .setSymmetric b => { s with symmetric := b }
  | .noop => s

def tanhMin (s : SurSt) : Rat := -1 + (if s.symmetric then 1 else 0) / (twoPow (s.bits - 1) : Rat)
def tanhMax (s : SurSt) : Rat := 1 - 1 / (twoPow (s.bits - 1) : Rat)
def sigmoidMin (s : SurSt) : Rat := (if s.symmetric then 1 else 0) / (twoPow s.bits : Rat)
def sigmoidMax (s : SurSt) : Rat := 1 - 1 / (twoPow s.bits : Rat)

def tanhAnswer (t : Tie) (s : SurSt) : Ask → Ans
  | .call _ p => .val (qtanhP t s.bits s.symmetric p)
  | .min => .val (tanhMin s)
  | .max => .val (tanhMax s)
  | .range => .err                  -- the class has no `range()`

def sigmoidAnswer (t : Tie) (s : SurSt) : Ask → Ans
  | .call _ p => .val (qsigmoidP t s.bits s.symmetric p)
  | .min => .val (sigmoidMin s)
  | .max => .val (sigmoidMax s)
  | .range => .err

def tanhSpec (t : Tie) : ObjSpec SurSt SurEv Ask Ans := { apply := SurSt.apply, answer := tanhAnswer t }
def sigmoidSpec (t : Tie) : ObjSpec SurSt SurEv Ask Ans := { apply := SurSt.apply, answer := sigmoidAnswer t }

end QKV
