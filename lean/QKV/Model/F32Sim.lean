/-
  QKV.Model.F32Sim — IEEE-754 binary32 round-to-nearest-even on exact rationals (DESIGN.md §3.2,
  device 1 "simulate"), and the float context `Fl` every data-dependent-scale model is
  parameterised by.  Core Lean only.

  `Fl.r`   rounding applied after every float operation that is not exact a priori
           (`id` = exact model, `rnd32` = the float32 computation TF performs);
  `Fl.lg`  `tf.math.round(K.log(v) / np.log(2.0))` as an ORACLE (device 2): the theorems hold for
           every such function; the driver instantiates it with the exact `nearestExp`;
  `Fl.eps` `K.epsilon()` (as the float32 it becomes inside the graph).
-/
import QKV.Model.Basic
import QKV.Model.FixedQ
namespace QKV

/-- round to the nearest float32 (ties to even); subnormal spacing below 2^-126; no overflow handling
    (all modelled magnitudes are far below 2^128) -/
def rnd32 (q : Rat) : Rat :=
  if q = 0 then 0 else
  let a := if q < 0 then -q else q
  let e := floorLog2Rat a
  let ee := if e < -126 then -126 else e
  let ulp := pow2 (ee - 23)
  ((roundTie .even (q / ulp) : Int) : Rat) * ulp

/-- `round(log2 v)` for `v > 0`, exactly: the `e` with `2^(2e-1) ≤ v² < 2^(2e+1)`
    (no rational is a tie of this rounding) -/
def nearestExp (v : Rat) : Int := (floorLog2Rat (v * v) + 1) / 2

/-- `v` is within relative 2^-16 (in the square, i.e. 2^-17 in `v`) of a breakpoint `√2·2^k`
    of `nearestExp`: there float `log` may legitimately land on the other side (device 3 "band") -/
def nearBreak (v : Rat) : Bool :=
  let f := floorLog2Rat (v * v)
  -- v² ∈ [2^f, 2^(f+1)); breakpoints are the odd powers of two
  let lo := if f % 2 = 0 then pow2 (f + 1) else pow2 f   -- the nearest odd power is above / below
  let d := if v * v < lo then lo - v * v else v * v - lo
  decide (d * 65536 ≤ lo)

structure Fl where
  r : Rat → Rat
  lg : Rat → Int
  eps : Rat

def Fl.exact (eps : Rat) : Fl := { r := fun q => q, lg := nearestExp, eps := eps }
def Fl.f32 (eps : Rat) : Fl := { r := rnd32, lg := nearestExp, eps := eps }

/-- the straight-through idiom `x + tf.stop_gradient(-x + y)` (also `x + 1.0 * (y - x)`) in the
    forward direction: two float additions -/
def ste (c : Fl) (x y : Rat) : Rat := c.r (x + c.r (-x + y))

/-- `sign(x)` of TF: −1, 0, +1 -/
def sgn (x : Rat) : Rat := if x < 0 then -1 else if 0 < x then 1 else 0

def rabs (x : Rat) : Rat := if x < 0 then -x else x

/-- maximum of a list of non-negative rationals (0 for the empty list) -/
def maxL (l : List Rat) : Rat := l.foldl (fun m v => if m < v then v else m) 0

def sumL (l : List Rat) : Rat := l.foldl (· + ·) 0

end QKV
