/-
  QKV.Model.AutoQ — AutoQKeras hyper-model: search limits, quantizer selection, trial dictionary.

  Mirrors qkeras/autoqkeras/autoqkeras_internal.py as written:
    `AutoQKHyperModel._adjust_limit`      → `adjustLimit`
    `AutoQKHyperModel._get_quantizer`     → `headField`, `getQuantizer`
    `AutoQKHyperModel.quantize_model`     → `loop1`, `loop2`, `quantizeModel`
  and the few lines of `qkeras.utils.model_quantize` that READ the dictionary built by
  `quantize_model` for Dense / Conv1D / Conv2D / DepthwiseConv2D / Separable / Activation layers
  (`applied`; which key is read for which tensor role — nothing else of `model_quantize`).

  The hyper-parameter source (keras-tuner's `hp`) is an ORACLE: `choose name options` returns the
  value `hp.Choice(name, options)` gives.  Python `re.match(pattern, layer_name)` and
  `tune_filters_exceptions.search(layer_name)` are oracle predicates.  Core Lean only.
-/
namespace QKV.AutoQ

/-- the Python exceptions the modelled code can raise -/
inductive Err
  | keyError | typeError | indexError | assertError | emptyChoice | unmodelled
  deriving DecidableEq, Repr, Inhabited

def Err.toString : Err → String
  | .keyError => "key-error" | .typeError => "type-error" | .indexError => "index-error"
  | .assertError => "assert" | .emptyChoice => "empty-choice" | .unmodelled => "unmodelled"

/-- one position of a limit list: a maximum bit width, or an explicit list of quantizer names -/
inductive LimVal
  | num (n : Int)
  | lst (qs : List String)
  deriving DecidableEq, Repr, Inhabited

/-- value stored under one key of `limit`: a list, or a bare number (`"default": 8`) -/
inductive LimEntry
  | vals (l : List LimVal)
  | scalar (n : Int)
  deriving DecidableEq, Repr, Inhabited

/-- `self.limit`: a Python dict in insertion order (keys distinct) -/
abbrev Limit := List (String × LimEntry)
/-- one field of `quantization_config`: ordered dict quantizer string → bits -/
abbrev QField := List (String × Int)
abbrev Config := List (String × QField)

/-- dict lookup in an association list (first hit) -/
def alookup {α β : Type} [DecidableEq α] (k : α) : List (α × β) → Option β
  | [] => none
  | (k', v) :: t => if k' = k then some v else alookup k t

def REGISTERED : List String :=
  ["Dense", "Conv1D", "Conv2D", "DepthwiseConv2D", "SimpleRNN", "LSTM", "GRU", "Bidirectional",
   "Conv2DTranspose", "SeparableConv1D", "SeparableConv2D"]

def SEQUENCE : List String := ["SimpleRNN", "LSTM", "GRU", "Bidirectional"]

def SEPARABLE : List String := ["SeparableConv1D", "SeparableConv2D"]

/-- Python `l[i]` for an `int` index (negative indexes count from the end) -/
def pyIndex {α : Type} (l : List α) (i : Int) : Option α :=
  if 0 ≤ i then l[i.toNat]?
  else if (-i).toNat ≤ l.length then l[l.length - (-i).toNat]? else none

/-! ## `_adjust_limit` -/

/-- `default` after the first `if` of `_adjust_limit` (`limit.get("default")`, 8 when absent) -/
def normDefault : Option LimEntry → Except Err (List LimVal)
  | none => .ok [.num 8, .num 8, .num 8]
  | some (.scalar n) => .ok [.num n, .num n, .num n]
  | some (.vals l) => if 3 ≤ l.length ∧ l.length ≤ 4 then .ok l else .error .assertError

/-- body of the `for name in REGISTERED_LAYERS` loop for a name present in `limit` -/
def adjustEntry (dflt : List LimVal) (name : String) : LimEntry → Except Err LimEntry
  | .scalar _ => .error .typeError                      -- len(int)
  | .vals l =>
    if l.length < 4 ∧ name ∈ SEQUENCE then
      if dflt.length = 4 then .ok (.vals (l ++ dflt.drop l.length)) else .error .assertError
    else if l.length < 3 then
      -- self.limit[name] + default[length:2] + default[-1:]
      .ok (.vals (l ++ (dflt.take 2).drop l.length ++ dflt.drop (dflt.length - 1)))
    else .ok (.vals l)

/-- replace the value of an existing key, keeping its position -/
def areplace (k : String) (v : LimEntry) : Limit → Limit
  | [] => []
  | (k', v') :: t => if k' = k then (k', v) :: t else (k', v') :: areplace k v t

def adjustLoop (dflt : List LimVal) : List String → Limit → Except Err Limit
  | [], lim => .ok lim
  | name :: rest, lim =>
    match alookup name lim with
    | none => adjustLoop dflt rest lim
    | some e =>
      match adjustEntry dflt name e with
      | .error err => .error err
      | .ok e' => adjustLoop dflt rest (areplace name e' lim)

/-- `__init__` lines 153-159 + `_adjust_limit` -/
def adjustLimit (lim : Limit) : Except Err Limit :=
  match normDefault (alookup "default" lim) with
  | .error e => .error e
  | .ok d => adjustLoop d REGISTERED lim

/-! ### the DOCUMENTED completion (specification of `_adjust_limit`, written role by role)

The class comment documents `"Conv2D": [weight, bias, activation]`, `"RNN": [weight, bias, recurrent,
activation]`, "default replaces missing values".  `docEntry` says that without slices: a missing slot
receives the default OF THAT ROLE. -/

/-- role defaults of a normalised default list `[w, b, a]` or `[w, b, r, a]` -/
def defWeight (d : List LimVal) : Option LimVal := d[0]?
def defBias (d : List LimVal) : Option LimVal := d[1]?
def defRecurrent (d : List LimVal) : Option LimVal := if d.length = 4 then d[2]? else none
def defActivation (d : List LimVal) : Option LimVal := d.getLast?

/-- slot `i` of the user's list, else the role default -/
def slotOr (l : List LimVal) (i : Nat) (dv : Option LimVal) : Option LimVal :=
  match l[i]? with
  | some v => some v
  | none => dv

/-- the documented entry of a registered class: recurrent classes have four roles, the others three;
    a list that already has all its roles is kept -/
def docEntry (d : List LimVal) (name : String) (l : List LimVal) : List LimVal :=
  if name ∈ SEQUENCE then
    if l.length < 4 then
      [slotOr l 0 (defWeight d), slotOr l 1 (defBias d), slotOr l 2 (defRecurrent d),
       slotOr l 3 (defActivation d)].filterMap id
    else l
  else if l.length < 3 then
    [slotOr l 0 (defWeight d), slotOr l 1 (defBias d), slotOr l 2 (defActivation d)].filterMap id
  else l

/-- the documented limit dictionary: class keys of `REGISTERED` completed, every other key as given -/
def docLimit (d : List LimVal) (lim : Limit) : Limit :=
  lim.map fun kv =>
    match kv.2 with
    | .vals l => if kv.1 ∈ REGISTERED then (kv.1, .vals (docEntry d kv.1 l)) else kv
    | .scalar _ => kv

/-! ## `_get_quantizer` -/

def isPrefixB : List Char → List Char → Bool
  | [], _ => true
  | _ :: _, [] => false
  | a :: as, b :: bs => a == b && isPrefixB as bs

/-- Python `p in s` for strings (as character lists) -/
def infixB (p : List Char) : List Char → Bool
  | [] => isPrefixB p []
  | c :: t => isPrefixB p (c :: t) || infixB p t

def hasSub (p s : String) : Bool := infixB p.toList s.toList

/-- `role = head[len(layer_name):] if head.startswith(layer_name) else head` (fix F3): the suffix
    the caller appended to the layer name -/
def roleOf (head lname : String) : List Char :=
  if isPrefixB lname.toList head.toList then head.toList.drop lname.toList.length else head.toList

/-- the chain on a role suffix -/
def roleField (isLinear : Bool) (role : List Char) : String × Int :=
  if isLinear then ("linear", 0)
  else if infixB "kernel".toList role then ("kernel", 0)
  else if infixB "bias".toList role then ("bias", 1)
  else if infixB "pointwise_kernel".toList role then ("pointwise_kernel", 2)
  else if infixB "recurrent_kernel".toList role then ("recurrent_kernel", 2)
  else if infixB "recurrent_activation".toList role then ("recurrent_activation", -1)
  else ("activation", -1)

/-- the `if is_linear … elif "kernel" in role … else` chain: (field of quantization_config, index
    into the limit list).  `"kernel" in role` is tested before the pointwise / recurrent suffixes
    (they share the kernel field and limit); the tests look at the suffix only. -/
def headField (isLinear : Bool) (head lname : String) : String × Int :=
  roleField isLinear (roleOf head lname)

/-- every (field, index) pair the chain can produce -/
def fieldIndexTable : List (String × Int) :=
  [("linear", 0), ("kernel", 0), ("bias", 1), ("pointwise_kernel", 2), ("recurrent_kernel", 2),
   ("recurrent_activation", -1), ("activation", -1)]

/-- `for i, pattern in enumerate(self.limit): if re.match(pattern, layer_name): … break` -/
def firstMatch (m : String → Bool) : List String → Option String
  | [] => none
  | p :: t => if m p then some p else firstMatch m t

/-- calls made on the tuner's `hp` object, in order -/
inductive HpCall
  | fixed (name value : String)
  | choice (name : String) (opts : List String)
  | choiceF (name : String) (opts : List Rat)
  deriving DecidableEq, Repr, Inhabited

/-- `self.groups`: {pattern: {index: (q_name, bits)}} as a flat dict keyed by (pattern, index) -/
abbrev Groups := List ((String × Int) × (String × Int))

structure Env where
  limit : Limit
  config : Config
  /-- `re.match(pattern, layer_name) is not None` -/
  «matches» : String → String → Bool
  /-- value returned by `hp.Choice(name, options)` -/
  choose : String → List String → String

structure St where
  groups : Groups := []
  log : List HpCall := []
  deriving Repr, Inhabited

def limKeys (l : Limit) : List String := l.map Prod.fst

/-- `{key: q_dict[key] for key in q_list}` (KeyError → none) -/
def restrict (qd : QField) : List String → Option QField
  | [] => some []
  | k :: t =>
    match alookup k qd, restrict qd t with
    | some b, some r => some ((k, b) :: r)
    | _, _ => none

/-- the (q_list, q_dict) pair after the `isinstance(self.limit[name][index], list)` split -/
def candidates (qd : QField) : LimVal → Except Err (List String × QField)
  | .lst qs =>
    match restrict qd qs with
    | some d => .ok (qs, d)
    | none => .error .keyError
  | .num L =>
    let d := qd.filter (fun kv => decide (kv.2 ≤ L))
    .ok (d.map Prod.fst, d)

/-- `hp.Fixed` for a singleton, else `hp.Choice` (keras-tuner rejects an empty list) -/
def hpPick (env : Env) (nm : String) (ql : List String) (log : List HpCall) :
    Except Err (String × List HpCall) :=
  match ql with
  | [] => .error .emptyChoice
  | [q] => .ok (q, log ++ [.fixed nm q])
  | _ => .ok (env.choose nm ql, log ++ [.choice nm ql])

/-- `AutoQKHyperModel._get_quantizer(hp, head, layer_name, layer_class_name, is_linear=…)`.
    Result `none` is Python's `(None, -1)`. -/
def getQuantizer (env : Env) (st : St) (head lname cls : String) (isLinear : Bool) :
    Except Err (Option (String × Int) × St) :=
  let fi := headField isLinear head lname
  match alookup fi.1 env.config with
  | none => .error .keyError
  | some qd =>
    let pat := firstMatch (fun p => env.matches p lname) (limKeys env.limit)
    let name := pat.getD cls
    if name = cls ∧ (alookup name env.limit).isNone then .ok (none, st)
    else
      match (if pat.isSome then alookup (name, fi.2) st.groups else none) with
      | some r => .ok (some r, st)
      | none =>
        let head' := if pat.isSome then name ++ "_" ++ fi.1 else head
        match alookup name env.limit with
        | none => .error .keyError
        | some (.scalar _) => .error .typeError
        | some (.vals l) =>
          match pyIndex l fi.2 with
          | none => .error .indexError
          | some lv =>
            match candidates qd lv with
            | .error e => .error e
            | .ok (ql, qdict) =>
              match hpPick env (head' ++ "_quantizer") ql st.log with
              | .error e => .error e
              | .ok (q, log') =>
                match alookup q qdict with
                | none => .error .keyError
                | some b =>
                  .ok (some (q, b),
                       { groups := if pat.isSome then st.groups ++ [((name, fi.2), (q, b))]
                                   else st.groups,
                         log := log' })

/-! ## `quantize_model` -/

/-- what `quantize_model` reads of one Keras layer of the reference model -/
structure Layer where
  name : String
  cls : String
  /-- `layer.use_bias` -/
  useBias : Bool := true
  /-- `layer.activation.__name__` (Keras turns `None` into `linear`) -/
  act : String := "linear"
  /-- `layer.units` (Dense) / `layer.filters` (convolutions); 0 where the class has neither -/
  size : Nat := 0
  deriving DecidableEq, Repr, Inhabited

/-- tuner-independent arguments of the hyper-model -/
structure Tune where
  tuneFilters : String := "none"
  /-- `self.tune_filters_exceptions.search(layer.name)` -/
  exc : String → Bool := fun _ => false
  layerIndexes : Option (List Nat) := none
  /-- value returned by `hp.Choice(name, values=filter_range, default=1.0)` -/
  chooseF : String → List Rat → Rat := fun _ _ => 1

def filterRange : List Rat := [1/2, 3/4, 1, 3/2, 2]

/-- a value of the dictionary handed to `model_quantize` -/
inductive QEntry
  | dict (d : List (String × Option String))
  | str (s : String)
  deriving DecidableEq, Repr, Inhabited

def unpack : Option (String × Int) → Option String × Int
  | none => (none, -1)
  | some (q, b) => (some q, b)

/-- Python truthiness of a `None`-or-string value -/
def truthy : Option String → Bool
  | some s => s ≠ ""
  | none => false

def request (env : Env) (st : St) (L : Layer) (suffix : String) :
    Except Err (Option (String × Int) × St) :=
  getQuantizer env st (L.name ++ suffix) L.name L.cls false

def tunes (tn : Tune) : Bool := tn.tuneFilters = "layer" || tn.tuneFilters = "block"

structure S1 where
  st : St := {}
  /-- `kernel_quantizer_dict` (most recent first) -/
  kdict : List (String × (Option String × Int)) := []
  /-- `filter_sweep_enabled` -/
  sweep : Bool := false
  /-- `recurrent_quantizer_dict` (fix F1; most recent first) -/
  recDict : List (String × Option String) := []
  /-- `pointwise_quantizer_dict` -/
  pwDict : List (String × Option String) := []
  deriving Repr, Inhabited

/-- one iteration of the first `for layer in model.layers` loop (lines 348-376) -/
def loop1Step (env : Env) (tn : Tune) (s : S1) (L : Layer) : Except Err S1 :=
  if L.cls ∈ REGISTERED then
    match request env s.st L "_kernel" with
    | .error e => .error e
    | .ok (r, st1) =>
      let kq := unpack r
      let sweep := s.sweep || (truthy kq.1 && tunes tn && !tn.exc L.name &&
                     decide (L.cls ∈ ["Dense", "Conv1D", "Conv2D", "Conv2DTranspose"]))
      let s1 : S1 := { s with st := st1, kdict := (L.name, kq) :: s.kdict, sweep := sweep }
      match (if L.cls ∈ SEQUENCE then
               match request env s1.st L "_recurrent_kernel" with
               | .error e => .error e
               | .ok (r, st2) => .ok { s1 with st := st2, recDict := (L.name, (unpack r).1) :: s1.recDict }
             else .ok s1 : Except Err S1) with
      | .error e => .error e
      | .ok s2 =>
        if L.cls ∈ SEPARABLE then
          match request env s2.st L "_pointwise_kernel" with
          | .error e => .error e
          | .ok (r, st3) => .ok { s2 with st := st3, pwDict := (L.name, (unpack r).1) :: s2.pwDict }
        else .ok s2
  else .ok s

def loop1 (env : Env) (tn : Tune) : S1 → List Layer → Except Err S1
  | s, [] => .ok s
  | s, L :: t =>
    match loop1Step env tn s L with
    | .error e => .error e
    | .ok s' => loop1 env tn s' t

/-- `max(int(n * f), 1)` for the non-negative factors of `filter_range` -/
def scaled (n : Nat) (f : Rat) : Nat := max (((n : Rat) * f).floor.toNat) 1

def kernelName (cls : String) : String :=
  if cls ∈ ["DepthwiseConv2D", "SeparableConv1D", "SeparableConv2D"] then "depthwise_quantizer"
  else "kernel_quantizer"

/-- the `_get_quantizer` calls of the second loop for a registered layer, in order:
    (key written into `layer_d`, head suffix) -/
def rolesFor (L : Layer) : List (String × String) :=
  (if L.cls ∈ ["LSTM", "GRU", "Bidirectional"] then
     [("recurrent_activation_quantizer", "_recurrent_activation")] else []) ++
  (if L.cls = "Bidirectional" then
     [("bias_quantizer", "_bias"), ("activation_quantizer", "_activation")]
   else
     (if L.useBias then [("bias_quantizer", "_bias")] else []) ++
     (if L.act ≠ "softmax" ∧ L.act ≠ "linear" then [("activation_quantizer", "_activation")] else []))

def requestAll (env : Env) (L : Layer) :
    St → List (String × String) → Except Err (List (String × Option String) × St)
  | st, [] => .ok ([], st)
  | st, (key, suf) :: t =>
    match request env st L suf with
    | .error e => .error e
    | .ok (r, st1) =>
      match requestAll env L st1 t with
      | .error e => .error e
      | .ok (rs, st2) => .ok ((key, (unpack r).1) :: rs, st2)

structure S2 where
  st : St
  /-- `q_dict` in insertion order -/
  qdict : List (String × QEntry) := []
  /-- the layers of the cloned model after `layer.units` / `layer.filters` were rewritten -/
  arch : List Layer := []
  deriving Repr, Inhabited

def TUNABLE2 : List String :=
  ["Dense", "Conv1D", "Conv2D", "Conv2DTranspose", "SeparableConv1D", "SeparableConv2D"]

/-- `layer_d['recurrent_quantizer'] = recurrent_quantizer_dict[layer.name]` and
    `layer_d['pointwise_quantizer'] = pointwise_quantizer_dict[layer.name]` (KeyError → none) -/
def extraRoles (s1 : S1) (L : Layer) : Option (List (String × Option String)) :=
  match (if L.cls ∈ SEQUENCE then (alookup L.name s1.recDict).map (fun q => [("recurrent_quantizer", q)])
         else some []),
        (if L.cls ∈ SEPARABLE then (alookup L.name s1.pwDict).map (fun q => [("pointwise_quantizer", q)])
         else some []) with
  | some a, some b => some (a ++ b)
  | _, _ => none

/-- `self.layer_indexes is not None and layer_id not in self.layer_indexes` -/
def excludedB (tn : Tune) (i : Nat) : Bool :=
  match tn.layerIndexes with
  | some ix => decide (i ∉ ix)
  | none => false

/-- one iteration of `for layer_id, layer in enumerate(model.layers)` (lines 387-554);
    `nf` = `network_filters`, `s1` = what the first loop left behind.
    Not modelled: `fanin` (unused by the caller) and the `target_shape` edit of a `Reshape`
    layer named in `limit` (reported as `unmodelled`). -/
def loop2Step (env : Env) (tn : Tune) (nf : Rat) (s1 : S1) (i : Nat) (s : S2) (L : Layer) :
    Except Err S2 :=
  let skip : S2 := { s with arch := s.arch ++ [L] }
  if excludedB tn i then .ok skip
  else if L.cls ∈ REGISTERED then
    match alookup L.name s1.kdict with
    | none => .error .keyError
    | some (kq, _) =>
      if !truthy kq then .ok skip
      else
        let tun := tunes tn && !tn.exc L.name && decide (L.cls ∈ TUNABLE2)
        let perLayer := tun && decide (tn.tuneFilters = "layer")
        let f : Rat := if perLayer then tn.chooseF ("network_filters_" ++ L.name) filterRange
                       else if tun then nf else 1
        let log1 := if perLayer then s.st.log ++ [.choiceF ("network_filters_" ++ L.name) filterRange]
                    else s.st.log
        let L' : Layer := if tun then { L with size := scaled L.size f } else L
        match extraRoles s1 L with
        | none => .error .keyError
        | some extra =>
          match requestAll env L { s.st with log := log1 } (rolesFor L) with
          | .error e => .error e
          | .ok (rs, st2) =>
            .ok { st := st2, qdict := s.qdict ++ [(L.name, .dict ((kernelName L.cls, kq) :: extra ++ rs))],
                  arch := s.arch ++ [L'] }
  else if L.cls = "Reshape" then
    if tn.tuneFilters = "layer" then .error .assertError
    else if tn.tuneFilters = "none" ∨ (alookup L.name env.limit).isNone ∨ tn.exc L.name then .ok skip
    else .error .unmodelled
  else if L.cls = "Activation" then
    if L.act = "softmax" then .ok skip
    else
      match getQuantizer env s.st (L.name ++ "_activation") L.name L.cls (L.act = "linear") with
      | .error e => .error e
      | .ok (r, st1) =>
        match (unpack r).1 with
        | none => .ok { skip with st := st1 }
        | some q =>
          if q = "" then .ok { skip with st := st1 }
          else .ok { st := st1, qdict := s.qdict ++ [(L.name, .str q)], arch := s.arch ++ [L] }
  else if (alookup L.cls env.limit).isSome then
    .ok { skip with qdict := s.qdict ++ [(L.name, .dict [])] }
  else if (firstMatch (fun p => env.matches p L.name) (limKeys env.limit)).isSome then
    .ok { skip with qdict := s.qdict ++ [(L.name, .dict [])] }
  else .ok skip

def loop2 (env : Env) (tn : Tune) (nf : Rat) (s1 : S1) : Nat → S2 → List Layer → Except Err S2
  | _, s, [] => .ok s
  | i, s, L :: t =>
    match loop2Step env tn nf s1 i s L with
    | .error e => .error e
    | .ok s' => loop2 env tn nf s1 (i + 1) s' t

structure QmOut where
  /-- the dictionary passed to `model_quantize` -/
  qdict : List (String × QEntry)
  /-- the model passed to `model_quantize` (sizes after filter scaling) -/
  arch : List Layer
  log : List HpCall
  groups : Groups
  deriving Repr, Inhabited

/-- `AutoQKHyperModel.quantize_model(hp)` up to the call of `model_quantize`; `self.groups = {}`
    as set by `build`. -/
def quantizeModel (env : Env) (tn : Tune) (layers : List Layer) : Except Err QmOut :=
  match loop1 env tn {} layers with
  | .error e => .error e
  | .ok s1 =>
    let block := decide (tn.tuneFilters = "block") && s1.sweep
    let nf : Rat := if block then tn.chooseF "network_filters" filterRange else 1
    let st : St := if block then { s1.st with log := s1.st.log ++ [.choiceF "network_filters" filterRange] }
                   else s1.st
    match loop2 env tn nf s1 0 { st := st } layers with
    | .error e => .error e
    | .ok s2 => .ok { qdict := s2.qdict, arch := s2.arch, log := s2.st.log, groups := s2.st.groups }

/-- `AutoQKHyperModel(..., limit=user_limit, ...)` followed by `quantize_model(hp)`: the constructor
    completes the user's dictionary (`_adjust_limit`), every later step reads the completed one.
    `env.limit` is the USER's dictionary here. -/
def quantizeModelUser (env : Env) (tn : Tune) (layers : List Layer) : Except Err (Limit × QmOut) :=
  match adjustLimit env.limit with
  | .error e => .error e
  | .ok lim =>
    match quantizeModel { env with limit := lim } tn layers with
    | .error e => .error e
    | .ok o => .ok (lim, o)

/-! ## what `model_quantize` reads of that dictionary (qkeras/utils.py, per class) -/

/-- `quantize_activation(layer_config, activation_bits)`: new activation string, if any -/
def quantizeActivation (act : String) (bits : Int) : Option String :=
  if act = "relu" then some ("quantized_relu(" ++ toString bits ++ ")")
  else if act = "tanh" then some ("quantized_tanh(" ++ toString bits ++ ")")
  else if act = "sigmoid" then some ("quantized_sigmoid(" ++ toString bits ++ ")")
  else none

structure Applied where
  /-- the layer class is rewritten to its Q counterpart -/
  converted : Bool := false
  kernel : Option String := none
  bias : Option String := none
  /-- quantizer string written into the layer's `activation`; `none` = activation left as it was -/
  activation : Option String := none
  deriving DecidableEq, Repr, Inhabited

def dget (d : List (String × Option String)) (k : String) : Option String := (alookup k d).join

/-- which quantizer strings `model_quantize(model, q_dict, activation_bits)` puts on a layer
    given the layer's entry in `q_dict` (only layer-name keys occur in AutoQKeras dictionaries).
    Covers Dense/Conv1D/Conv2D (read `kernel_quantizer`, `bias_quantizer`,
    `activation_quantizer`), DepthwiseConv2D and, since fix 5f2fbac, SeparableConv1D/2D (`depthwise_quantizer`),
    Activation (string entry). -/
def applied (entry : Option QEntry) (L : Layer) (activationBits : Int) : Applied :=
  let weightLayer (kkey : String) (d : List (String × Option String)) : Applied :=
    match dget d kkey with
    | none => {}
    | some k =>
      { converted := true, kernel := some k,
        bias := if L.useBias then dget d "bias_quantizer" else none,
        activation := if truthy (dget d "activation_quantizer") then dget d "activation_quantizer"
                      else quantizeActivation L.act activationBits }
  if L.cls ∈ ["Dense", "Conv1D", "Conv2D"] then
    match entry with
    | some (.dict d) => weightLayer "kernel_quantizer" d
    | _ => {}
  else if L.cls ∈ ["DepthwiseConv2D", "SeparableConv1D", "SeparableConv2D"] then
    match entry with
    | some (.dict d) => weightLayer "depthwise_quantizer" d
    | _ => {}
  else if L.cls = "Activation" then
    match entry with
    | some (.str s) =>
      { converted := true,
        activation := if s ≠ "" then some s else quantizeActivation L.act activationBits }
    | _ => {}
  else {}

/-! ## the shipped `default_quantization_config` (compared with the live dict on every run) -/

def defaultConfig : Config :=
  [("kernel", [("binary", 1), ("stochastic_binary", 1), ("ternary", 2), ("stochastic_ternary", 2),
               ("quantized_bits(2,1,1,alpha=1.0)", 2), ("quantized_bits(4,0,1)", 4),
               ("quantized_bits(8,0,1)", 8), ("quantized_po2(4,1)", 4)]),
   ("bias", [("quantized_bits(4,0,1)", 4), ("quantized_bits(8,3,1)", 8), ("quantized_po2(4,8)", 4)]),
   ("activation", [("binary", 1), ("binary(alpha='auto_po2')", 1), ("ternary", 2),
                   ("quantized_relu(3,1)", 3), ("quantized_relu(4,2)", 4), ("quantized_relu(8,2)", 8),
                   ("quantized_relu(8,4)", 8), ("quantized_relu(16,8)", 16),
                   ("quantized_relu_po2(4,4)", 4)]),
   ("linear", [("binary", 1), ("ternary", 2), ("quantized_bits(4,1)", 4), ("quantized_bits(8,2)", 8),
               ("quantized_bits(16,10)", 16), ("quantized_po2(6,4)", 6)])]

end QKV.AutoQ
