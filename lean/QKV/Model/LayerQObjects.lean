/-
  C11, last clause — the quantizer OBJECTS of a layer (core Lean only, no Mathlib).

  `Model/Layers.lean` talks about quantizer SLOTS: `getQuantizers` lists slot numbers and the terms apply
  `quant slot`.  That is blind to python object identity: the constructor arguments are python OBJECTS, the
  same object may be handed to several roles of one layer (or to two layers), `get_quantizer(obj)` returns
  the identical object, and `_set_trainable_parameter()` edits it IN PLACE.  This file models exactly that
  plumbing of the constructors (qlayers.py:621-631, qconvolutional.py:151-161 / 319-329 / 687-701 / 872-886 /
  1042-1052, qmac.py:68-87, qpooling.py:40-41 / 143-144, qrecurrent.py:89-103 / 516-532 / 1039-1055):

      self.<slot>_quantizer_internal = get_quantizer(self.<slot>_quantizer)      # every slot
      self.quantizers = [ ...the internals, slot order... ]                      # cells: HERE
      if hasattr(self.<t>_quantizer_internal, "_set_trainable_parameter"):       # t in the trainable slots
        self.<t>_quantizer_internal._set_trainable_parameter()
      self.quantizers = [ ...the internals, slot order... ]                      # the other classes: HERE

  over a HEAP of quantizer objects (object id -> state), so that aliasing is inside what the theorems of
  `Props/C11.lean` §9 quantify over.
-/
import QKV.Model.Layers
namespace QKV.Layers.QObj
open QKV.Layers

/-- the part of a quantizer object's state that the constructors read or write -/
structure QState where
  kind : Nat                 -- class and the remaining constructor arguments (opaque)
  hasSetTrainable : Bool     -- the class has its OWN `_set_trainable_parameter` (quantized_bits / _linear, bernoulli,
                             --   ternary, binary and their stochastic variants); the po2 / relu families inherit
                             --   `BaseQuantizer._set_trainable_parameter: pass` and plain functions have none
  setsSymmetric : Bool       -- quantized_bits / quantized_linear: the method also sets `symmetric = True`
  alpha : Option Nat         -- `None` | `some 0` = "auto_po2" | `some (k+1)` = any other value (number, "auto")
  symmetric : Bool
  deriving DecidableEq, Repr

/-- `_set_trainable_parameter()`: `if self.alpha is None: self.alpha = "auto_po2" [; self.symmetric = True]` -/
def QState.setTrainable (q : QState) : QState :=
  if q.hasSetTrainable && q.alpha.isNone then
    { q with alpha := some 0, symmetric := q.symmetric || q.setsSymmetric }
  else q

/-- python objects: id -> state -/
abbrev Heap := Nat → QState

def Heap.set (h : Heap) (o : Nat) (s : QState) : Heap := fun o' => if o' = o then s else h o'

/-- `if hasattr(q, "_set_trainable_parameter"): q._set_trainable_parameter()` on the object `o` (None: nothing) -/
def setTrainableAt (h : Heap) (o : Option Nat) : Heap :=
  match o with
  | none => h
  | some i => Heap.set h i (h i).setTrainable

/-- a constructed layer: which OBJECT sits in `self.<slot>_quantizer_internal` (what `call` applies) and
    which objects `self.quantizers` (what `get_quantizers()` returns) holds, slot order -/
structure LayerObj where
  internal : List (Option Nat)
  quantizers : List (Option Nat)
  deriving DecidableEq, Repr

/-- slots on whose quantizer the constructor calls `_set_trainable_parameter()` -/
def trainableSlots : Cls → List Nat
  | .dense | .conv1d | .conv2d | .dwConv2d => [0]
  | .sepConv1d | .sepConv2d | .scaleShift => [0, 1]
  | .avgPool2d | .globalAvgPool2d | .activation => []

/-- cells: kernel and recurrent kernel -/
def trainableSlotsCell : List Nat := [0, 1]

/-- the constructor, `args s` = the object passed for slot `s` (a string / dict argument is a fresh object:
    an id used nowhere else).  The internals ARE the arguments (`get_quantizer` returns the identical object),
    the trainable slots are switched in place, in slot order, and `self.quantizers` holds the same objects —
    whether the list is built before (cells) or after (the other classes) the switch makes no difference,
    it holds objects, not their states. -/
def construct (nslots : Nat) (train : List Nat) (args : List (Option Nat)) (h : Heap) : LayerObj × Heap :=
  let internal := (List.range nslots).map fun s => args.getD s none
  ({ internal := internal, quantizers := internal },
   train.foldl (fun h s => setTrainableAt h (internal.getD s none)) h)

def constructLayer (cls : Cls) (args : List (Option Nat)) (h : Heap) : LayerObj × Heap :=
  construct (slotCount cls) (trainableSlots cls) args h

def constructCell (args : List (Option Nat)) (h : Heap) : LayerObj × Heap :=
  construct 4 trainableSlotsCell args h

/-- several layers constructed one after the other over ONE heap (objects shared between layers) -/
def constructAll : List (Nat × List Nat × List (Option Nat)) → Heap → List LayerObj × Heap
  | [], h => ([], h)
  | (n, tr, args) :: rest, h =>
    let (L, h1) := construct n tr args h
    let (Ls, h2) := constructAll rest h1
    (L :: Ls, h2)

/-- the state of the object `get_quantizers()[s]` / of the object `call` applies for slot `s`, read at a
    moment when the heap is `h` (any time after construction: call time) -/
def LayerObj.reportedState (L : LayerObj) (h : Heap) (s : Nat) : Option QState := (L.quantizers.getD s none).map h
def LayerObj.appliedState (L : LayerObj) (h : Heap) (s : Nat) : Option QState := (L.internal.getD s none).map h

/-! ## the seeded variant (seed C11-8): "do not leak auto_po2 into the bias / state role" -/

/-- `_set_auto_scaling(quantizer, other_quantizers)`: when the very same object also sits in another role,
    work on a `copy.copy` (a NEW object `next` with the same state) and return it -/
def setAutoScaling (h : Heap) (next : Nat) (o : Option Nat) (others : List (Option Nat)) :
    Option Nat × Heap × Nat :=
  match o with
  | none => (none, h, next)
  | some i =>
    if (h i).hasSetTrainable then
      if others.any (· == some i) then
        (some next, Heap.set h next (h i).setTrainable, next + 1)
      else (some i, Heap.set h i (h i).setTrainable, next)
    else (some i, h, next)

/-- the cells of seed C11-8: `self.quantizers` is built BEFORE the helper rebinds the internals -/
def constructCellCopyOnShare (args : List (Option Nat)) (h : Heap) (next : Nat) : LayerObj × Heap :=
  let a := fun s => args.getD s none
  let r0 := setAutoScaling h next (a 0) [a 2, a 3]
  let r1 := setAutoScaling r0.2.1 r0.2.2 (a 1) [a 2, a 3]
  ({ internal := [r0.1, r1.1, a 2, a 3], quantizers := [a 0, a 1, a 2, a 3] }, r1.2.1)

/-- `quantized_bits(4,0,1)` as constructed by the user: alpha=None -/
def qbits401 : QState := { kind := 0, hasSetTrainable := true, setsSymmetric := true, alpha := none, symmetric := true }

end QKV.Layers.QObj
