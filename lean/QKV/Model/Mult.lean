/-
  QKV.Model.Mult — qtools multiplier factory.

  Mirrors qkeras/qtools/quantized_operators/multiplier_factory.py
  (`multiplier_impl_table`, `make_multiplier`) and multiplier_impl.py
  (Mux, XorGate, Shifter, AndGate, Adder, FloatingPointMultiplier,
  FixedPointMultiplier), field by field, in the order the Python assigns them.
-/
import QKV.Model.QTypes
namespace QKV

inductive MulImpl | fixedMul | shifter | mux | andGate | xorGate | adder | floatMul
  deriving DecidableEq, Repr, Inhabited

/-- `implemented_as()` -/
def MulImpl.implementedAs : MulImpl → String
  | .fixedMul => "mul" | .floatMul => "mul" | .shifter => "shifter" | .mux => "mux"
  | .andGate => "and" | .xorGate => "xor" | .adder => "add"

inductive OutTemplate | qbits | po2 | ternary | binPM | bin01 | float
  deriving DecidableEq, Repr, Inhabited

def OutTemplate.toRec : OutTemplate → QRec
  | .qbits => tQuantizedBits | .po2 => tPowerOfTwo | .ternary => tTernary
  | .binPM => tBinary false | .bin01 => tBinary true
  | .float => { tFloat 0 with bits := -2 }   -- FloatingPoint(bits=None); bits always overwritten

/-- `MultiplierFactory.multiplier_impl_table[w.mode][x.mode]`. -/
def mulTable : Nat → Nat → Option (MulImpl × OutTemplate)
  | 0, 0 => some (.fixedMul, .qbits) | 0, 1 => some (.shifter, .qbits)
  | 0, 2 => some (.mux, .qbits)      | 0, 3 => some (.mux, .qbits)
  | 0, 4 => some (.andGate, .qbits)  | 0, 5 => some (.floatMul, .float)
  | 1, 0 => some (.shifter, .qbits)  | 1, 1 => some (.adder, .po2)
  | 1, 2 => some (.mux, .po2)        | 1, 3 => some (.mux, .po2)
  | 1, 4 => some (.andGate, .po2)    | 1, 5 => some (.floatMul, .float)
  | 2, 0 => some (.mux, .qbits)      | 2, 1 => some (.mux, .po2)
  | 2, 2 => some (.mux, .ternary)    | 2, 3 => some (.mux, .ternary)
  | 2, 4 => some (.andGate, .ternary)| 2, 5 => some (.floatMul, .float)
  | 3, 0 => some (.mux, .qbits)      | 3, 1 => some (.mux, .po2)
  | 3, 2 => some (.mux, .ternary)    | 3, 3 => some (.xorGate, .binPM)
  | 3, 4 => some (.andGate, .ternary)| 3, 5 => some (.floatMul, .float)
  | 4, 0 => some (.andGate, .qbits)  | 4, 1 => some (.andGate, .po2)
  | 4, 2 => some (.andGate, .ternary)| 4, 3 => some (.andGate, .ternary)
  | 4, 4 => some (.andGate, .bin01)  | 4, 5 => some (.floatMul, .float)
  | 5, 0 => some (.floatMul, .float) | 5, 1 => some (.floatMul, .float)
  | 5, 2 => some (.floatMul, .float) | 5, 3 => some (.floatMul, .float)
  | 5, 4 => some (.floatMul, .float) | 5, 5 => some (.floatMul, .float)
  | _, _ => none

/-- rename a po2 output after its sign, as Mux/AndGate/Adder do. -/
def po2Rename (o : QRec) : QRec :=
  { o with name := if o.signed then .quantized_po2 else .quantized_relu_po2 }

def mkMux (w x o : QRec) : QRec :=
  let o := { o with signed := x.signed || w.signed }
  let o :=
    if w.name.hasBinary || w.name.hasTernary then
      let o := { o with bits := x.bits, intBits := x.intBits }
      if !x.signed && w.signed then { o with bits := o.bits + 1 } else o
    else
      let o := { o with bits := w.bits, intBits := w.intBits }
      if !w.signed && x.signed then { o with bits := o.bits + 1 } else o
  if o.name.hasPo2 then
    let o := po2Rename o
    let o := { o with maxValPo2 := if w.name.hasPo2 then w.maxValPo2 else x.maxValPo2 }
    { o with intBits := o.bits }
  else o

def mkXor (w x o : QRec) : QRec :=
  if o.name ≠ .ternary then
    { o with bits := imax x.bits w.bits, intBits := imax x.intBits w.intBits,
             signed := x.signed || w.signed, isFloat := false }
  else o

def mkShifter (w x o : QRec) : QRec :=
  let (p, q) := if w.mode = 1 then (w, x) else (x, w)
  let (mn, mx) := getExp p
  let bits := q.bits + mx + mn
  let bits := if !q.signed && p.signed then bits + 1 else bits
  { o with bits := bits, intBits := q.intBits + mx, signed := q.signed || p.signed,
           isFloat := false }

def mkAnd (w x o : QRec) : QRec :=
  if o.name ≠ .ternary then
    let o := { o with bits := imax x.bits w.bits, signed := x.signed || w.signed,
                      isFloat := x.isFloat || w.isFloat }
    let o := if w.mode = 4 then { o with intBits := x.intBits }
             else { o with intBits := w.intBits }
    if o.name.hasPo2 then
      let o := po2Rename o
      { o with maxValPo2 := if w.name.hasPo2 then w.maxValPo2 else x.maxValPo2 }
    else o
  else o

/-- Adder: `-1` if either `max_val_po2` is `-1`, else the product -/
def mulMaxVal : Option Rat → Option Rat → Option Rat
  | some a, some b => some (a * b)
  | _, _ => none

def mkAdder (w x o : QRec) : QRec :=
  let signed := x.signed || w.signed
  let o := { o with signed := signed,
                    bits := imax (x.bits - b2i x.signed) (w.bits - b2i w.signed) + 1 + b2i signed,
                    intBits := imax x.intBits w.intBits + 1, isFloat := false, isPo2 := true }
  let o := { o with maxValPo2 := mulMaxVal x.maxValPo2 w.maxValPo2 }
  if o.name.hasPo2 then po2Rename o else o

def mkFloatMul (w x o : QRec) : QRec :=
  { o with bits := imax (if x.isFloat then x.bits else 0) (if w.isFloat then w.bits else 0),
           intBits := -1, signed := true, isFloat := true }

def mkFixedMul (w x o : QRec) : QRec :=
  let intBits := x.intBits + w.intBits
  let f1 := x.bits - b2i x.signed - x.intBits
  let f2 := w.bits - b2i w.signed - w.intBits
  let signed := x.signed || w.signed
  { o with intBits := intBits, signed := signed, bits := intBits + (f1 + f2) + b2i signed,
           isFloat := false }

def mkImpl : MulImpl → QRec → QRec → QRec → QRec
  | .fixedMul => mkFixedMul | .shifter => mkShifter | .mux => mkMux | .andGate => mkAnd
  | .xorGate => mkXor | .adder => mkAdder | .floatMul => mkFloatMul

/-- `MultiplierFactory().make_multiplier(w, x)` ↦ (implementation class, `.output`). -/
def makeMultiplier (w x : QRec) : Option (MulImpl × QRec) :=
  match mulTable w.mode x.mode with
  | some (impl, t) => some (impl, mkImpl impl w x t.toRec)
  | none => none

/-! ## floating-point value sets (specification side; nothing of the existing model reads them) -/

/-- IEEE-754 binary interchange formats by total width: `(p, emax)` = precision including the hidden
    bit and maximal exponent.  qtools itself builds `FloatingPoint(bits=16)` ("fp16") and
    `FloatingPoint(bits=32)` ("fp32"); 64 is listed because the class accepts any width. -/
def floatFmt (bits : Int) : Option (Nat × Int) :=
  if bits = 16 then some (11, 15) else if bits = 32 then some (24, 127)
  else if bits = 64 then some (53, 1023) else none

/-- finite values of the binary format with precision `p` and maximal exponent `emax`
    (`emin = 1 − emax`, subnormals included): `m·2^e`, `|m| < 2^p`, `emin − (p−1) ≤ e ≤ emax − (p−1)`. -/
def ValFloatFmt (p : Nat) (emax : Int) (v : Rat) : Prop :=
  ∃ m e : Int, -((2 ^ p : Nat) : Int) < m ∧ m < ((2 ^ p : Nat) : Int) ∧
    (1 - emax) - ((p : Int) - 1) ≤ e ∧ e ≤ emax - ((p : Int) - 1) ∧ v = (m : Rat) * pow2 e

/-- values of a floating-point record of width `bits`; a width that is no interchange format carries
    no value claim (`True`, as `Val` has for every mode-5 record). -/
def ValFloat (bits : Int) (v : Rat) : Prop :=
  match floatFmt bits with
  | some (p, emax) => ValFloatFmt p emax v
  | none => True

/-- executable twin of `ValFloatFmt` for the driver (cross-checked against numpy's IEEE casts by the
    harness): strip the factors of two of the numerator, then shift the odd part as far as the
    exponent ceiling demands. -/
def valFloatFmtB (p : Nat) (emax : Int) (v : Rat) : Bool :=
  if v = 0 then true
  else
    let d := v.den
    if d ≠ 2 ^ d.log2 then false
    else
      let n := v.num.natAbs
      -- n = odd * 2^t
      let t : Nat := (List.range (n.log2 + 1)).foldl
        (fun (acc : Nat) (i : Nat) => if n % 2 ^ (i + 1) = 0 then i + 1 else acc) 0
      let odd : Nat := n / 2 ^ t
      let e0 : Int := (t : Int) - (d.log2 : Int)
      let ehi : Int := emax - ((p : Int) - 1)
      let elo : Int := (1 - emax) - ((p : Int) - 1)
      let s : Int := if e0 - ehi > 0 then e0 - ehi else 0
      decide (e0 - s ≥ elo) && decide (odd * 2 ^ s.toNat < 2 ^ p)

def valFloatB (bits : Int) (v : Rat) : Bool :=
  match floatFmt bits with
  | some (p, emax) => valFloatFmtB p emax v
  | none => true

/-- The implementation kinds the docstring table of `make_multiplier` calls for,
    written independently of `mulTable` from the operand *kinds*:
    float with anything → floating multiplier; fixed×fixed → multiplier;
    po2 with fixed → shifter; po2×po2 → adder (of exponents);
    0/1-binary with anything → and gate; ±1-binary × ±1-binary → xor;
    remaining ternary / ±1-binary combinations → mux. -/
def specImpl (wm xm : Nat) : MulImpl :=
  if wm = 5 ∨ xm = 5 then .floatMul
  else if wm = 4 ∨ xm = 4 then .andGate
  else if wm = 0 ∧ xm = 0 then .fixedMul
  else if (wm = 0 ∧ xm = 1) ∨ (wm = 1 ∧ xm = 0) then .shifter
  else if wm = 1 ∧ xm = 1 then .adder
  else if wm = 3 ∧ xm = 3 then .xorGate
  else .mux

end QKV
