/-
  QKV.Lemmas.Po2Type — facts about the power-of-two type records.
-/
import QKV.Lemmas.Fixed
namespace QKV

theorem po2Half_eq (q : QRec) : po2Half q = tp (q.bits - b2i q.signed - 1) := by
  unfold po2Half tp b2i; cases q.signed <;> simp

theorem po2Half_pos (q : QRec) : 0 < po2Half q := by rw [po2Half_eq]; exact tp_pos _

theorem po2MaxExpRaw_le (q : QRec) : po2MaxExpRaw q ≤ po2Half q - 1 := by
  have := po2Half_pos q
  unfold po2MaxExpRaw
  rcases q.maxValPo2 with _ | m
  · simp
  · simp only
    split
    · omega
    · rw [imin_eq_min]; exact min_le_right _ _

/-- the two quantities `ValPo2` reads depend only on (bits, signed, max value) -/
theorem po2Half_congr {p o : QRec} (hb : o.bits - b2i o.signed = p.bits - b2i p.signed) :
    po2Half o = po2Half p := by
  rw [po2Half_eq, po2Half_eq, hb]

theorem po2MaxExpRaw_congr {p o : QRec} (hb : o.bits - b2i o.signed = p.bits - b2i p.signed)
    (hm : o.maxValPo2 = p.maxValPo2) : po2MaxExpRaw o = po2MaxExpRaw p := by
  unfold po2MaxExpRaw
  rw [po2Half_congr hb, hm]

theorem valPo2_of_same {p o : QRec} {v : ℚ}
    (hb : o.bits - b2i o.signed = p.bits - b2i p.signed) (hm : o.maxValPo2 = p.maxValPo2)
    (hs : p.signed = true → o.signed = true) (h : ValPo2 p v) : ValPo2 o v := by
  obtain ⟨e, h1, h2, h3⟩ := h
  refine ⟨e, by rw [po2Half_congr hb]; exact h1, by rw [po2MaxExpRaw_congr hb hm]; exact h2, ?_⟩
  rcases h3 with h3 | ⟨h3, h4⟩
  · exact Or.inl h3
  · exact Or.inr ⟨hs h3, h4⟩

theorem valPo2_neg {o : QRec} {v : ℚ} (hs : o.signed = true) (h : ValPo2 o v) : ValPo2 o (-v) := by
  obtain ⟨e, h1, h2, h3⟩ := h
  refine ⟨e, h1, h2, ?_⟩
  rcases h3 with h3 | ⟨_, h4⟩
  · exact Or.inr ⟨hs, by rw [h3]⟩
  · exact Or.inl (by rw [h4]; ring)

/-- exponent-range growth of the po2 × po2 "adder" -/
theorem tp_add_le {a b c : ℤ} (ha : 1 ≤ a) (hb : 1 ≤ b) (hc : max a b + 1 ≤ c) :
    tp (a - 1) + tp (b - 1) ≤ tp (c - 1) := by
  have h1 : tp (a - 1) ≤ tp (max a b - 1) := tp_mono (by omega)
  have h2 : tp (b - 1) ≤ tp (max a b - 1) := tp_mono (by omega)
  have h3 : tp (max a b - 1 + 1) ≤ tp (c - 1) := tp_mono (by omega)
  rw [tp_succ (by omega)] at h3
  omega

end QKV
