/-
  QKV.Lemmas.F32 — binary32 as a subset of ℚ: `floorLog2Rat` specification, the grid
  characterisation of `isF32`, `rnd32` fixes binary32 values, closure lemmas (power-of-two
  scaling, small integers, straight-through residuals).
-/
import Mathlib.Tactic
import QKV.Lemmas.Pow2
import QKV.Lemmas.Round
import QKV.Lemmas.FixedRange
import QKV.Model.F32
namespace QKV

/-! ### `floorLog2Rat` is the floor of the binary logarithm -/

theorem rabs_eq_abs (q : ℚ) : rabs q = |q| := by
  unfold rabs; split
  · rw [abs_of_neg ‹_›]
  · rw [abs_of_nonneg (not_lt.mp ‹_›)]

theorem floorLog2Rat_spec {q : ℚ} (hq : 0 < q) :
    pow2 (floorLog2Rat q) ≤ q ∧ q < pow2 (floorLog2Rat q + 1) := by
  have hnum : 0 < q.num := Rat.num_pos.mpr hq
  obtain ⟨n, hn⟩ : ∃ n : ℕ, q.num = (n : ℤ) := ⟨q.num.toNat, by omega⟩
  have hn0 : 0 < n := by omega
  set d := q.den with hd
  have hd0 : 0 < d := q.den_pos
  have hqe : q = (n : ℚ) / (d : ℚ) := by
    have := (Rat.num_div_den q).symm
    rw [hn] at this; simpa using this
  have hdq : (0 : ℚ) < d := by exact_mod_cast hd0
  have hnq : (0 : ℚ) < n := by exact_mod_cast hn0
  unfold floorLog2Rat
  simp only [hn, Int.toNat_natCast, ← hd]
  split
  · rename_i hdn
    -- q ≥ 1
    set k := (n / d).log2 with hk
    have hpos : n / d ≠ 0 := by
      have : 0 < n / d := Nat.div_pos hdn hd0
      omega
    have h1 : 2 ^ k ≤ n / d := Nat.log2_self_le hpos
    have h2 : n / d < 2 ^ (k + 1) := Nat.lt_log2_self
    have e1 : pow2 ((k : ℕ) : ℤ) = ((2 ^ k : ℕ) : ℚ) := pow2_natCast k
    have e2 : pow2 (((k : ℕ) : ℤ) + 1) = ((2 ^ (k + 1) : ℕ) : ℚ) := by
      have := pow2_natCast (k + 1); push_cast at this ⊢; exact this
    rw [e1, e2, hqe]
    constructor
    · rw [le_div_iff₀ hdq]
      have : 2 ^ k * d ≤ n := by
        calc 2 ^ k * d ≤ (n / d) * d := Nat.mul_le_mul_right _ h1
          _ ≤ n := Nat.div_mul_le_self n d
      exact_mod_cast this
    · rw [div_lt_iff₀ hdq]
      have : n < 2 ^ (k + 1) * d := by
        have h3 : n / d + 1 ≤ 2 ^ (k + 1) := h2
        calc n < (n / d + 1) * d := by
              have := Nat.lt_div_mul_add hd0 (a := n)
              nlinarith [Nat.div_add_mod n d, Nat.mod_lt n hd0]
          _ ≤ 2 ^ (k + 1) * d := Nat.mul_le_mul_right _ h3
      exact_mod_cast this
  · rename_i hdn
    push Not at hdn
    -- q < 1 : c = ⌈d / n⌉ ≥ 2
    set c := (d + n - 1) / n with hc
    set e := clog2 c with he
    have hc1 : d ≤ c * n := by
      have := Nat.div_add_mod (d + n - 1) n
      have hm := Nat.mod_lt (d + n - 1) hn0
      rw [← hc] at this
      rw [Nat.mul_comm c n]
      generalize n * c = w at this
      omega
    have hc2 : (c - 1) * n < d := by
      have h3 : c * n ≤ d + n - 1 := Nat.div_mul_le_self _ _
      have hcpos : 1 ≤ c := by
        rw [hc]; exact (Nat.one_le_div_iff hn0).2 (by omega)
      have : (c - 1) * n + n = c * n := by
        have : c - 1 + 1 = c := by omega
        calc (c - 1) * n + n = (c - 1 + 1) * n := by ring
          _ = c * n := by rw [this]
      omega
    have hc3 : 2 ≤ c := by
      by_contra h
      push Not at h
      have : c * n ≤ 1 * n := Nat.mul_le_mul_right _ (by omega)
      omega
    have h1 : c ≤ 2 ^ e := le_two_pow_clog2 c
    have he1 : 1 ≤ e := by
      by_contra h
      push Not at h
      have : e = 0 := by omega
      rw [this] at h1; simp at h1; omega
    have h2 : 2 ^ (e - 1) < c := by
      by_contra h
      push Not at h
      have := clog2_le_of_le_two_pow h
      omega
    have e1 : pow2 (-((e : ℕ) : ℤ)) = 1 / ((2 ^ e : ℕ) : ℚ) := by
      rw [pow2_eq_zpow, zpow_neg, zpow_natCast]; push_cast; ring
    have e2 : pow2 (-((e : ℕ) : ℤ) + 1) = 1 / ((2 ^ (e - 1) : ℕ) : ℚ) := by
      have : -((e : ℕ) : ℤ) + 1 = -(((e - 1 : ℕ)) : ℤ) := by omega
      rw [this, pow2_eq_zpow, zpow_neg, zpow_natCast]; push_cast; ring
    rw [e1, e2, hqe]
    have hp1 : (0 : ℚ) < ((2 ^ e : ℕ) : ℚ) := by positivity
    have hp2 : (0 : ℚ) < ((2 ^ (e - 1) : ℕ) : ℚ) := by positivity
    constructor
    · rw [div_le_div_iff₀ hp1 hdq]
      have : d ≤ n * 2 ^ e := by
        calc d ≤ c * n := hc1
          _ ≤ 2 ^ e * n := Nat.mul_le_mul_right _ h1
          _ = n * 2 ^ e := by ring
      have : (d : ℚ) ≤ (n : ℚ) * ((2 ^ e : ℕ) : ℚ) := by exact_mod_cast this
      linarith
    · rw [div_lt_div_iff₀ hdq hp2]
      have : n * 2 ^ (e - 1) < d := by
        have h3 : 2 ^ (e - 1) ≤ c - 1 := by omega
        calc n * 2 ^ (e - 1) ≤ n * (c - 1) := Nat.mul_le_mul_left _ h3
          _ = (c - 1) * n := by ring
          _ < d := hc2
      have : (n : ℚ) * ((2 ^ (e - 1) : ℕ) : ℚ) < (d : ℚ) := by exact_mod_cast this
      linarith


theorem floorLog2Rat_lt {q : ℚ} (hq : 0 < q) {e : ℤ} (h : q < pow2 e) : floorLog2Rat q < e := by
  by_contra hc; push Not at hc
  have h1 := (floorLog2Rat_spec hq).1
  have h2 := pow2_le_pow2 hc
  linarith

theorem floorLog2Rat_ge {q : ℚ} (hq : 0 < q) {e : ℤ} (h : pow2 e ≤ q) : e ≤ floorLog2Rat q := by
  by_contra hc; push Not at hc
  have h1 := (floorLog2Rat_spec hq).2
  have h2 : pow2 (floorLog2Rat q + 1) ≤ pow2 e := pow2_le_pow2 (by omega)
  linarith

theorem pow2_sub (a b : ℤ) : pow2 (a - b) = pow2 a / pow2 b := by
  have h : pow2 a = pow2 (a - b) * pow2 b := by rw [← pow2_add]; congr 1; ring
  rw [h]; field_simp [pow2_ne_zero]

theorem pow2_neg (a : ℤ) : pow2 (-a) = 1 / pow2 a := by
  have := pow2_sub 0 a; rw [pow2_zero] at this; rw [← this]; congr 1; ring

/-- `2^e` with `e ≥ 0` is an integer -/
theorem pow2_int {e : ℤ} (he : 0 ≤ e) : pow2 e = ((tp e : ℤ) : ℚ) := (tp_cast he).symm

/-! ### `ulpExp` -/

theorem ulpExp_ge (q : ℚ) : -149 ≤ ulpExp q := by
  unfold ulpExp; rw [imax_eq_max]; exact le_max_right _ _

theorem ulpExp_ge' (q : ℚ) : floorLog2Rat |q| - 23 ≤ ulpExp q := by
  unfold ulpExp; rw [imax_eq_max, rabs_eq_abs]; exact le_max_left _ _

theorem abs_lt_pow2_ulpExp {q : ℚ} (hq : q ≠ 0) : |q| < pow2 (ulpExp q + 24) := by
  have h1 := (floorLog2Rat_spec (abs_pos.mpr hq)).2
  have h2 := ulpExp_ge' q
  exact lt_of_lt_of_le h1 (pow2_le_pow2 (by omega))

theorem ulpExp_le_of_lt {q : ℚ} (hq : q ≠ 0) {g : ℤ} (hg : -149 ≤ g)
    (h : |q| < pow2 (g + 24)) : ulpExp q ≤ g := by
  have h1 := floorLog2Rat_lt (abs_pos.mpr hq) h
  unfold ulpExp; rw [imax_eq_max, rabs_eq_abs]; exact max_le (by omega) hg

/-- normal numbers fill their binade: `2^(ulpExp+23) ≤ |q|` unless `q` is subnormal -/
theorem pow2_le_abs_of_ulpExp {q : ℚ} (hq : q ≠ 0) (h : -149 < ulpExp q) :
    pow2 (ulpExp q + 23) ≤ |q| := by
  have h1 := (floorLog2Rat_spec (abs_pos.mpr hq)).1
  have h2 : ulpExp q = floorLog2Rat |q| - 23 := by
    have := ulpExp_ge' q
    unfold ulpExp at h ⊢; rw [imax_eq_max, rabs_eq_abs] at h ⊢
    rcases max_cases (floorLog2Rat |q| - 23) (-149) with ⟨e, _⟩ | ⟨e, _⟩
    · exact e
    · omega
  have : ulpExp q + 23 = floorLog2Rat |q| := by omega
  rw [this]; exact h1

/-! ### `isF32`: the grid characterisation -/

theorem isIntR_iff (q : ℚ) : isIntR q = true ↔ ∃ k : ℤ, q = (k : ℚ) := by
  unfold isIntR
  rw [decide_eq_true_iff]
  constructor
  · intro h; exact ⟨q.floor, h.symm⟩
  · rintro ⟨k, rfl⟩; rw [floor_intCast]

theorem isF32_iff (q : ℚ) :
    isF32 q = true ↔ q = 0 ∨ (|q| < pow2 128 ∧ ∃ k : ℤ, q / pow2 (ulpExp q) = (k : ℚ)) := by
  unfold isF32
  simp only [Bool.or_eq_true, Bool.and_eq_true, decide_eq_true_eq, isIntR_iff, rabs_eq_abs]

theorem isF32_zero : isF32 0 = true := by rw [isF32_iff]; left; rfl

/-- a binary32 value is a multiple of its own unit in the last place … -/
theorem isF32_isMul {q : ℚ} (h : isF32 q = true) : IsMul (ulpExp q) q := by
  rcases (isF32_iff q).1 h with h0 | ⟨_, k, hk⟩
  · rw [h0]; exact isMul_zero _
  · refine ⟨k, ?_⟩
    rw [← hk]; field_simp [pow2_ne_zero]

theorem isF32_abs_lt {q : ℚ} (h : isF32 q = true) : |q| < pow2 128 := by
  rcases (isF32_iff q).1 h with h0 | ⟨h1, _⟩
  · rw [h0]; simpa using pow2_pos 128
  · exact h1

/-- … and conversely: a multiple of `2^g` (`g ≥ −149`) of magnitude below `2^(g+24)` is binary32
    (24 significand bits, exponent not below the subnormal one). -/
theorem isF32_of_isMul {g : ℤ} {q : ℚ} (hg : -149 ≤ g) (hm : IsMul g q)
    (hb : |q| < pow2 (g + 24)) (h128 : |q| < pow2 128) : isF32 q = true := by
  rw [isF32_iff]
  by_cases hq : q = 0
  · left; exact hq
  right
  refine ⟨h128, ?_⟩
  have hu := ulpExp_le_of_lt hq hg hb
  obtain ⟨n, hn⟩ := hm
  generalize ulpExp q = u at hu ⊢
  refine ⟨n * tp (g - u), ?_⟩
  have e1 : pow2 g = pow2 (g - u) * pow2 u := by
    rw [← pow2_add]; congr 1; ring
  rw [hn, e1, pow2_int (by omega : 0 ≤ g - u)]
  push_cast
  field_simp [pow2_ne_zero]

/-- non-strict version: magnitude `2^(g+24)` itself is allowed -/
theorem isF32_of_isMul_le {g : ℤ} {q : ℚ} (hg : -149 ≤ g) (hm : IsMul g q)
    (hb : |q| ≤ pow2 (g + 24)) (h128 : |q| < pow2 128) : isF32 q = true := by
  rcases lt_or_eq_of_le hb with h | h
  · exact isF32_of_isMul hg hm h h128
  · apply isF32_of_isMul (g := g + 1) (by omega) _ _ h128
    · have e : pow2 (g + 24) = ((tp 23 : ℤ) : ℚ) * pow2 (g + 1) := by
        rw [← pow2_int (by norm_num), ← pow2_add]; congr 1; ring
      rcases abs_cases q with ⟨e1, _⟩ | ⟨e1, _⟩
      · exact ⟨tp 23, by rw [← e, ← h, e1]⟩
      · refine ⟨-tp 23, ?_⟩
        push_cast; rw [neg_mul, ← e, ← h, e1]; ring
    · rw [h]; exact pow2_lt_pow2 (by omega)

/-! ### `rnd32` fixes binary32 values -/

theorem rnd32_of_isF32 {q : ℚ} (h : isF32 q = true) : rnd32 q = q := by
  unfold rnd32
  split
  · rename_i h0; exact h0.symm
  · rcases (isF32_iff q).1 h with h0 | ⟨_, k, hk⟩
    · exact absurd h0 ‹_›
    · rw [hk, roundTie_int, ← hk]; field_simp [pow2_ne_zero]

theorem isF32_neg {q : ℚ} (h : isF32 q = true) : isF32 (-q) = true := by
  by_cases hq : q = 0
  · rw [hq]; simpa using isF32_zero
  have hu : ulpExp (-q) = ulpExp q := by unfold ulpExp; rw [rabs_eq_abs, rabs_eq_abs, abs_neg]
  apply isF32_of_isMul (ulpExp_ge q) (isMul_neg (isF32_isMul h))
  · rw [abs_neg]; exact abs_lt_pow2_ulpExp hq
  · rw [abs_neg]; exact isF32_abs_lt h

/-- scaling by a power of two keeps a binary32 value binary32 while the exponent stays in range -/
theorem isF32_mul_pow2 {q : ℚ} (h : isF32 q = true) (k : ℤ) (hk : -149 ≤ ulpExp q + k)
    (h128 : |q * pow2 k| < pow2 128) : isF32 (q * pow2 k) = true := by
  by_cases hq : q = 0
  · rw [hq]; simpa using isF32_zero
  obtain ⟨n, hn⟩ := isF32_isMul h
  apply isF32_of_isMul hk ⟨n, _⟩ _ h128
  · rw [pow2_add]; nth_rewrite 1 [hn]; ring
  · rw [abs_mul, abs_of_pos (pow2_pos k)]
    have : ulpExp q + k + 24 = (ulpExp q + 24) + k := by ring
    rw [this, pow2_add]
    exact mul_lt_mul_of_pos_right (abs_lt_pow2_ulpExp hq) (pow2_pos k)

theorem rnd32_mul_pow2 {q : ℚ} (h : isF32 q = true) (k : ℤ) (hk : -149 ≤ ulpExp q + k)
    (h128 : |q * pow2 k| < pow2 128) : rnd32 (q * pow2 k) = q * pow2 k :=
  rnd32_of_isF32 (isF32_mul_pow2 h k hk h128)

/-- every integer `n` with `|n| ≤ 2^24`, times a power of two with exponent in range, is binary32 -/
theorem isF32_int_mul_pow2 {n : ℤ} (hn : |n| ≤ 2 ^ 24) {g : ℤ} (h1 : -149 ≤ g) (h2 : g ≤ 103) :
    isF32 ((n : ℚ) * pow2 g) = true := by
  have hb : |(n : ℚ) * pow2 g| ≤ pow2 (g + 24) := by
    rw [abs_mul, abs_of_pos (pow2_pos g), add_comm, pow2_add]
    apply mul_le_mul_of_nonneg_right _ (pow2_pos g).le
    have : pow2 24 = ((2 ^ 24 : ℤ) : ℚ) := by rw [pow2_eq_zpow]; norm_num
    rw [this, ← Int.cast_abs]; exact_mod_cast hn
  apply isF32_of_isMul_le h1 ⟨n, rfl⟩ hb
  exact lt_of_le_of_lt hb (pow2_lt_pow2 (by omega))

theorem isF32_int {n : ℤ} (hn : |n| ≤ 2 ^ 24) : isF32 (n : ℚ) = true := by
  have := isF32_int_mul_pow2 hn (g := 0) (by norm_num) (by norm_num)
  rwa [pow2_zero, mul_one] at this


/-! ### rounding to an integer: residual facts -/

theorem roundTie_small (t : Tie) {p : ℚ} (h : |p| < 1 / 2) : roundTie t p = 0 := by
  rw [abs_lt] at h
  have h1 : roundTie t ((-1 : ℤ) : ℚ) ≤ roundTie t p := roundTie_mono t (by push_cast; linarith)
  have h2 : roundTie t p ≤ roundTie t ((1 : ℤ) : ℚ) := roundTie_mono t (by push_cast; linarith)
  rw [roundTie_int] at h1 h2
  have h3 := roundTie_err t p
  rw [abs_le] at h3
  have : ((roundTie t p : ℤ) : ℚ) < 1 := by linarith
  have : (-1 : ℚ) < ((roundTie t p : ℤ) : ℚ) := by linarith
  have a : roundTie t p < 1 := by exact_mod_cast ‹((roundTie t p : ℤ) : ℚ) < 1›
  have b : -1 < roundTie t p := by exact_mod_cast this
  omega

/-- the rounding residual is never larger than the argument -/
theorem roundTie_resid_le (t : Tie) (p : ℚ) : |((roundTie t p : ℤ) : ℚ) - p| ≤ |p| := by
  rcases lt_or_ge |p| (1 / 2) with h | h
  · rw [roundTie_small t h]; simp
  · exact le_trans (roundTie_err t p) h

/-- round-then-clip to a range containing 0: the residual is never larger than the argument
    (this includes the saturated case) -/
theorem rc_resid_le (t : Tie) (p : ℚ) {lo hi : ℤ} (h1 : lo ≤ 0) (h2 : 0 ≤ hi) :
    |((rc t p lo hi : ℤ) : ℚ) - p| ≤ |p| := by
  have he := roundTie_err t p
  have hr := roundTie_resid_le t p
  unfold rc
  rw [iclip_eq]
  set r := roundTie t p with hr'
  rw [abs_le] at he
  rcases le_or_gt r hi with a | a
  · rcases le_or_gt lo r with b | b
    · rw [max_eq_left b, min_eq_left a]; exact hr
    · -- r < lo ≤ 0 : clipped up to lo, p ≤ r + 1/2 < lo
      rw [max_eq_right b.le, min_eq_left (by omega)]
      have b' : (r : ℚ) + 1 ≤ (lo : ℚ) := by exact_mod_cast b
      have l0 : (lo : ℚ) ≤ 0 := by exact_mod_cast h1
      have hp : p < (lo : ℚ) := by linarith
      rw [abs_of_nonneg (by linarith), abs_of_neg (by linarith)]
      linarith
  · -- 0 ≤ hi < r
    have : max r lo = r := max_eq_left (by omega)
    rw [this, min_eq_right a.le]
    have a' : (hi : ℚ) + 1 ≤ (r : ℚ) := by exact_mod_cast a
    have l0 : (0 : ℚ) ≤ (hi : ℚ) := by exact_mod_cast h2
    have hp : (hi : ℚ) < p := by linarith
    rw [abs_of_neg (by linarith), abs_of_pos (by linarith)]
    linarith

/-- shrinking the code by a factor `0 < l ≤ 1` keeps the residual bounded by the argument -/
theorem resid_scaled_le {c p l : ℚ} (h : |c - p| ≤ |p|) (hl0 : 0 ≤ l) (hl1 : l ≤ 1) :
    |l * c - p| ≤ |p| := by
  have e : l * c - p = l * (c - p) + (1 - l) * (-p) := by ring
  rw [e]
  calc |l * (c - p) + (1 - l) * (-p)| ≤ |l * (c - p)| + |(1 - l) * (-p)| := abs_add_le _ _
    _ = l * |c - p| + (1 - l) * |p| := by
        rw [abs_mul, abs_mul, abs_neg, abs_of_nonneg hl0, abs_of_nonneg (by linarith : 0 ≤ 1 - l)]
    _ ≤ l * |p| + (1 - l) * |p| := by nlinarith [abs_nonneg p]
    _ = |p| := by ring

theorem isMul_intCast {g : ℤ} (hg : g ≤ 0) (k : ℤ) : IsMul g (k : ℚ) :=
  isMul_of_le hg ⟨k, by rw [pow2_zero, mul_one]⟩

/-- a binary32 value whose ulp exponent is non-negative is an integer -/
theorem isF32_int_of_ulpExp_nonneg {p : ℚ} (h : isF32 p = true) (hu : 0 ≤ ulpExp p) :
    ∃ k : ℤ, p = (k : ℚ) := by
  obtain ⟨n, hn⟩ := isF32_isMul h
  generalize ulpExp p = u at hu hn
  exact ⟨n * tp u, by rw [hn, pow2_int hu]; push_cast; rfl⟩

theorem tp24 : tp 24 = 2 ^ 24 := by decide
theorem pow2_24 : pow2 24 = 2 ^ 24 := by rw [pow2_eq_zpow]; norm_num
theorem pow2_23 : pow2 23 = 2 ^ 23 := by rw [pow2_eq_zpow]; norm_num

/-- Sterbenz-type: for binary32 `p`, `round(p) − p` is binary32 and so is `round(p)`;
    no bound on `p` is needed (`|p| ≥ 2^23` makes `p` an integer). -/
theorem roundTie_resid_isF32 (t : Tie) {p : ℚ} (h : isF32 p = true) :
    isF32 (-p + ((roundTie t p : ℤ) : ℚ)) = true ∧ isF32 ((roundTie t p : ℤ) : ℚ) = true := by
  rcases le_or_gt 0 (ulpExp p) with hu | hu
  · obtain ⟨k, hk⟩ := isF32_int_of_ulpExp_nonneg h hu
    rw [hk, roundTie_int]
    refine ⟨by rw [neg_add_cancel]; exact isF32_zero, ?_⟩
    rw [← hk]; exact h
  · by_cases hp : p = 0
    · rw [hp]
      have : roundTie t (0 : ℚ) = 0 := by simpa using roundTie_int t 0
      rw [this]; simp [isF32_zero]
    have hb := abs_lt_pow2_ulpExp hp
    have hres := roundTie_resid_le t p
    have h128 := isF32_abs_lt h
    constructor
    · apply isF32_of_isMul (ulpExp_ge p)
        (isMul_add (isMul_neg (isF32_isMul h)) (isMul_intCast hu.le _))
      · have : -p + ((roundTie t p : ℤ) : ℚ) = ((roundTie t p : ℤ) : ℚ) - p := by ring
        rw [this]; exact lt_of_le_of_lt hres hb
      · have : -p + ((roundTie t p : ℤ) : ℚ) = ((roundTie t p : ℤ) : ℚ) - p := by ring
        rw [this]; exact lt_of_le_of_lt hres h128
    · apply isF32_int
      have h23 : |p| < 2 ^ 23 := by
        have : pow2 (ulpExp p + 24) ≤ pow2 23 := pow2_le_pow2 (by omega)
        rw [pow2_23] at this; linarith
      have he := roundTie_err t p
      have : |((roundTie t p : ℤ) : ℚ)| < 2 ^ 23 + 1 := by
        have : ((roundTie t p : ℤ) : ℚ) = (((roundTie t p : ℤ) : ℚ) - p) + p := by ring
        rw [this]
        calc _ ≤ |((roundTie t p : ℤ) : ℚ) - p| + |p| := abs_add_le _ _
          _ < 2 ^ 23 + 1 := by linarith
      have h'' : |roundTie t p| < 2 ^ 23 + 1 := by
        have h' : ((|roundTie t p| : ℤ) : ℚ) < ((2 ^ 23 + 1 : ℤ) : ℚ) := by
          rw [Int.cast_abs]; push_cast; linarith
        exact_mod_cast h'
      have : (2 : ℤ) ^ 23 + 1 ≤ 2 ^ 24 := by norm_num
      omega

/-- `tf.round` maps binary32 to binary32 -/
theorem roundTie_isF32 (t : Tie) {p : ℚ} (h : isF32 p = true) :
    isF32 ((roundTie t p : ℤ) : ℚ) = true := (roundTie_resid_isF32 t h).2

/-- `_round_through` in float32 returns exactly `round(p)`: both additions are exact -/
theorem roundThroughF_eq (t : Tie) {p : ℚ} (h : isF32 p = true) :
    roundThroughF t p = ((roundTie t p : ℤ) : ℚ) := by
  obtain ⟨h1, h2⟩ := roundTie_resid_isF32 t h
  unfold roundThroughF fadd
  rw [rnd32_of_isF32 h1]
  have : p + (-p + ((roundTie t p : ℤ) : ℚ)) = ((roundTie t p : ℤ) : ℚ) := by ring
  rw [this, rnd32_of_isF32 h2]

/-! ### underflow: a result below the normal range rounds to something still tiny -/

theorem rnd32_tiny {q : ℚ} (h : |q| < pow2 (-125)) :
    isF32 (rnd32 q) = true ∧ |rnd32 q| ≤ pow2 (-125) := by
  by_cases hq : q = 0
  · rw [hq]; simp [rnd32, isF32_zero, (pow2_pos _).le]
  have hu : ulpExp q = -149 := le_antisymm (ulpExp_le_of_lt hq le_rfl (by simpa using h)) (ulpExp_ge q)
  unfold rnd32; rw [if_neg hq, hu]
  set k := roundTie .even (q / pow2 (-149)) with hk
  have hb : |q / pow2 (-149)| < 2 ^ 24 := by
    rw [abs_div, abs_of_pos (pow2_pos _), div_lt_iff₀ (pow2_pos _), ← pow2_24, ← pow2_add]
    simpa using h
  rw [abs_lt] at hb
  have h1 : roundTie .even ((-(2 ^ 24) : ℤ) : ℚ) ≤ k := roundTie_mono _ (by push_cast; linarith)
  have h2 : k ≤ roundTie .even (((2 ^ 24) : ℤ) : ℚ) := roundTie_mono _ (by push_cast; linarith)
  rw [roundTie_int] at h1 h2
  have hk24 : |k| ≤ 2 ^ 24 := abs_le.mpr ⟨h1, h2⟩
  refine ⟨isF32_int_mul_pow2 hk24 le_rfl (by norm_num), ?_⟩
  rw [abs_mul, abs_of_pos (pow2_pos _)]
  have : pow2 (-125) = 2 ^ 24 * pow2 (-149) := by rw [← pow2_24, ← pow2_add]; rfl
  rw [this]
  apply mul_le_mul_of_nonneg_right _ (pow2_pos _).le
  rw [← Int.cast_abs]; exact_mod_cast hk24

theorem pow2_m125_lt_half : pow2 (-125) < 1 / 2 := by
  have : (1 : ℚ) / 2 = pow2 (-1) := by rw [pow2_eq_zpow]; norm_num
  rw [this]; exact pow2_lt_pow2 (by norm_num)

/-- scaling a binary32 value by `2^k` in float32: either exact, or the exact product is below
    `2^-125` in magnitude and the rounded one is a binary32 value of magnitude at most `2^-125` -/
theorem rnd32_scale_cases {x : ℚ} (h : isF32 x = true) (k : ℤ) (h128 : |x * pow2 k| < pow2 128) :
    (isF32 (x * pow2 k) = true ∧ rnd32 (x * pow2 k) = x * pow2 k) ∨
    (|x * pow2 k| < pow2 (-125) ∧ isF32 (rnd32 (x * pow2 k)) = true ∧
      |rnd32 (x * pow2 k)| ≤ pow2 (-125)) := by
  rcases le_or_gt (-149) (ulpExp x + k) with hk | hk
  · left; exact ⟨isF32_mul_pow2 h k hk h128, rnd32_mul_pow2 h k hk h128⟩
  · right
    have hx : |x * pow2 k| < pow2 (-125) := by
      by_cases hx0 : x = 0
      · rw [hx0]; simpa using pow2_pos (-125)
      rw [abs_mul, abs_of_pos (pow2_pos k)]
      have := mul_lt_mul_of_pos_right (abs_lt_pow2_ulpExp hx0) (pow2_pos k)
      rw [← pow2_add] at this
      exact lt_trans this (pow2_lt_pow2 (by omega))
    exact ⟨hx, rnd32_tiny hx⟩

/-- … in both cases the float32 `_round_through` of the float32 product is `round` of the
    exact product -/
theorem roundThroughF_scaled (t : Tie) {x : ℚ} (h : isF32 x = true) (k : ℤ)
    (h128 : |x * pow2 k| < pow2 128) :
    roundThroughF t (rnd32 (x * pow2 k)) = ((roundTie t (x * pow2 k) : ℤ) : ℚ) := by
  rcases rnd32_scale_cases h k h128 with ⟨h1, h2⟩ | ⟨h1, h2, h3⟩
  · rw [h2]; exact roundThroughF_eq t h1
  · rw [roundThroughF_eq t h2]
    have := pow2_m125_lt_half
    rw [roundTie_small t (lt_of_le_of_lt h3 this), roundTie_small t (lt_trans h1 this)]

/-! ### the straight-through return -/

/-- `x + 1·(−x + xq)` in float32 returns `xq` exactly when `xq` and `xq − x` are binary32 -/
theorem steF_eq {x xq : ℚ} (h1 : isF32 xq = true) (h2 : isF32 (xq - x) = true) :
    steF x xq = xq := by
  unfold steF fadd fmul
  have e : -x + xq = xq - x := by ring
  rw [e, rnd32_of_isF32 h2, one_mul, rnd32_of_isF32 h2]
  have : x + (xq - x) = xq := by ring
  rw [this, rnd32_of_isF32 h1]

/-- Sterbenz-type residual lemma.  `x` binary32, `y` on the lattice `2^s ℤ` (`s ≥ −149`),
    `|y − x| ≤ |x|` (true for round-then-clip to a range containing 0, saturated or not) and
    `|x| < 2^(s+24)` (the 2^24-steps envelope): then `y − x` is binary32. -/
theorem resid_isF32 {x y : ℚ} (hx : isF32 x = true) {s : ℤ} (hs : -149 ≤ s) (hy : IsMul s y)
    (hle : |y - x| ≤ |x|) (henv : |x| < pow2 (s + 24)) : isF32 (y - x) = true := by
  by_cases hx0 : x = 0
  · have : y - x = 0 := by
      rw [hx0] at hle ⊢
      rw [abs_zero] at hle
      exact abs_eq_zero.mp (le_antisymm hle (abs_nonneg _))
    rw [this]; exact isF32_zero
  have hmx := isF32_isMul hx
  have h128 := lt_of_le_of_lt hle (isF32_abs_lt hx)
  rcases le_total (ulpExp x) s with h | h
  · apply isF32_of_isMul (ulpExp_ge x) _ (lt_of_le_of_lt hle (abs_lt_pow2_ulpExp hx0)) h128
    have := isMul_add (isMul_of_le h hy) (isMul_neg hmx)
    rwa [← sub_eq_add_neg] at this
  · apply isF32_of_isMul hs _ (lt_of_le_of_lt hle henv) h128
    have := isMul_add hy (isMul_neg (isMul_of_le h hmx))
    rwa [← sub_eq_add_neg] at this

/-! ### clip -/

theorem fclip_int {k lo hi : ℤ} (h : lo ≤ hi) :
    fclip (k : ℚ) (lo : ℚ) (hi : ℚ) = ((iclip k lo hi : ℤ) : ℚ) := by
  rw [iclip_eq]
  rcases lt_or_ge hi k with a | a
  · have a' : (hi : ℚ) < (k : ℚ) := by exact_mod_cast a
    have b' : ¬ ((hi : ℚ) < (lo : ℚ)) := by exact_mod_cast not_lt.mpr h
    simp only [fclip, if_pos a', if_neg b']
    rw [min_eq_right (le_trans a.le (le_max_left _ _))]
  · have a' : ¬ ((hi : ℚ) < (k : ℚ)) := by exact_mod_cast not_lt.mpr a
    rcases lt_or_ge k lo with b | b
    · have b' : (k : ℚ) < (lo : ℚ) := by exact_mod_cast b
      simp only [fclip, if_neg a', if_pos b']
      rw [max_eq_right b.le, min_eq_left h]
    · have b' : ¬ ((k : ℚ) < (lo : ℚ)) := by exact_mod_cast not_lt.mpr b
      simp only [fclip, if_neg a', if_neg b']
      rw [max_eq_left b, min_eq_left a]

end QKV
