/- helper lemmas for QKV.Model.Export (C14): closed forms of the export loop, zip idempotence -/
import Mathlib.Tactic
import QKV.Model.Export
import QKV.Lemmas.Pow2
namespace QKV.Export

/-! ### value-level facts -/

theorem roundLog2_pow2 (e : ℤ) : roundLog2 (pow2 e) = e := by
  unfold roundLog2
  simp only [ceilLog2Rat_pow2]
  have h : ¬ (pow2 e * pow2 e * 2 ≤ pow2 (2 * e)) := by
    have : pow2 (2 * e) = pow2 e * pow2 e := by rw [← pow2_add]; congr 1; ring
    rw [this]
    have hp := pow2_pos e
    have : 0 < pow2 e * pow2 e := mul_pos hp hp
    linarith
  rw [if_neg h]

theorem expOf_pow2 (e : ℤ) : expOf (pow2 e) = e := by
  unfold expOf
  have hp := pow2_pos e
  rw [if_neg hp.ne', if_neg (not_lt.mpr hp.le), roundLog2_pow2]

theorem expOf_neg_pow2 (e : ℤ) : expOf (-pow2 e) = e := by
  unfold expOf
  have hp := pow2_pos e
  have h1 : ¬ (-pow2 e = 0) := by linarith
  have h2 : -pow2 e < 0 := by linarith
  rw [if_neg h1, if_pos h2, neg_neg, roundLog2_pow2]

theorem isPo2_pow2 (e : ℤ) : isPo2 (pow2 e) = true := by
  unfold isPo2
  simp [pow2_pos, ceilLog2Rat_pow2]

/-! ### zips -/

theorem zipApply_length_le (qs : List (Option Quant)) (ws : List Tensor) :
    (zipApply qs ws).length = min qs.length ws.length := by
  induction qs generalizing ws with
  | nil => simp [zipApply]
  | cons q qs ih =>
    cases ws with
    | nil => simp [zipApply]
    | cons w ws => simp [zipApply, ih]

theorem zipSplit_stored (qs : List (Option Quant)) (ws : List Tensor) :
    (zipSplit qs ws).map (·.stored) = zipApply qs ws := by
  induction qs generalizing ws with
  | nil => simp [zipSplit, zipApply]
  | cons q qs ih =>
    cases ws with
    | nil => simp [zipSplit, zipApply]
    | cons w ws =>
      simp only [zipSplit, zipApply, List.map_cons, ih]
      congr 1
      cases q with
      | none => simp [splitWeight, applyQ]
      | some Q => simp only [splitWeight, applyQ]; cases Q.kind <;> rfl

/-- a quantizer whose second application (value and `.scale`) changes nothing -/
def QIdem (Q : Quant) : Prop := (∀ t, Q.q (Q.q t) = Q.q t) ∧ (∀ t, Q.scaleOf (Q.q t) = Q.scaleOf t)

def AllIdem (qs : List (Option Quant)) : Prop := ∀ Q, some Q ∈ qs → QIdem Q

theorem AllIdem.tail {q : Option Quant} {qs : List (Option Quant)} (h : AllIdem (q :: qs)) : AllIdem qs :=
  fun Q hQ => h Q (List.mem_cons_of_mem _ hQ)

theorem AllIdem.dropLast {qs : List (Option Quant)} (h : AllIdem qs) : AllIdem qs.dropLast :=
  fun Q hQ => h Q (List.dropLast_subset _ hQ)

theorem AllIdem.mono {qs qs' : List (Option Quant)} (h : AllIdem qs) (hs : qs' ⊆ qs) : AllIdem qs' :=
  fun Q hQ => h Q (hs hQ)

/-! ### the (quantizer, weight) pairing of the main loop -/

theorem bnQs_subset (info : BNInfo) (qs : List (Option Quant)) : bnQs info qs ⊆ qs := by
  intro q hq
  unfold bnQs at hq
  simp only [List.mem_append] at hq
  rcases hq with (hq | hq) | hq
  · split at hq
    · exact List.take_subset _ _ hq
    · simp at hq
  · split at hq
    · exact List.drop_subset _ _ (List.take_subset _ _ hq)
    · simp at hq
  · exact List.drop_subset _ _ (List.take_subset _ _ hq)

theorem bidirQs_subset (nwF nwB nq : ℕ) (qs : List (Option Quant)) : bidirQs nwF nwB nq qs ⊆ qs := by
  intro q hq
  unfold bidirQs at hq
  simp only [List.mem_append] at hq
  rcases hq with hq | hq
  · exact List.take_subset _ _ (List.take_subset _ _ hq)
  · exact List.drop_subset _ _ (List.take_subset _ _ hq)

/-- the loop never uses a quantizer that is not one of the layer's own -/
theorem layerQs_subset (l : Layer) : layerQs l ⊆ l.qs := by
  unfold layerQs
  cases l.kind <;> dsimp only
  · split
    · exact bnQs_subset _ _
    · exact List.Subset.refl _
  · exact List.dropLast_subset _
  · exact bidirQs_subset _ _ _ _
  · exact List.Subset.refl _
  · split
    · exact bnQs_subset _ _
    · exact List.Subset.refl _

/-- with `[gamma, beta, mean, variance, …]` the batch-norm pairing is the explicit list -/
theorem bnQs_cons (info : BNInfo) (g b m v : Option Quant) (r : List (Option Quant)) :
    bnQs info (g :: b :: m :: v :: r) =
      (if info.scale then [g] else []) ++ (if info.center then [b] else []) ++ [m, v] := by
  simp [bnQs]

theorem exists_four {α : Type} {l : List α} (h : 4 ≤ l.length) :
    ∃ a b c d r, l = a :: b :: c :: d :: r := by
  rcases l with _ | ⟨a, _ | ⟨b, _ | ⟨c, _ | ⟨d, r⟩⟩⟩⟩
  all_goals first | (simp at h; done) | exact ⟨a, b, c, d, r, rfl⟩

theorem zipApply_append (qa qb : List (Option Quant)) (wa wb : List Tensor)
    (h : qa.length = wa.length) :
    zipApply (qa ++ qb) (wa ++ wb) = zipApply qa wa ++ zipApply qb wb := by
  induction qa generalizing wa with
  | nil =>
    cases wa with
    | nil => simp [zipApply]
    | cons w ws => simp at h
  | cons q qs ih =>
    cases wa with
    | nil => simp at h
    | cons w ws =>
      simp only [List.cons_append, zipApply]
      rw [ih ws (by simpa using h)]

/-- quantizers beyond the number of weights are never reached (`zip` truncates) -/
theorem zipApply_take (qs : List (Option Quant)) (ws : List Tensor) (n : ℕ) (h : ws.length ≤ n) :
    zipApply (qs.take n) ws = zipApply qs ws := by
  induction qs generalizing ws n with
  | nil => simp [zipApply]
  | cons q qs ih =>
    cases ws with
    | nil => cases n <;> simp [zipApply]
    | cons w ws =>
      cases n with
      | zero => simp at h
      | succ n =>
        simp only [List.take_succ_cons, zipApply]
        rw [ih ws n (by simpa using h)]

theorem applyQ_idem {q : Option Quant} (h : ∀ Q, q = some Q → QIdem Q) (w : Tensor) :
    applyQ q (applyQ q w) = applyQ q w := by
  cases q with
  | none => rfl
  | some Q => exact (h Q rfl).1 w

theorem splitWeight_applyQ {q : Option Quant} (h : ∀ Q, q = some Q → QIdem Q) (w : Tensor) :
    splitWeight q (applyQ q w) = splitWeight q w := by
  cases q with
  | none => rfl
  | some Q =>
    obtain ⟨h1, h2⟩ := h Q rfl
    simp only [applyQ, splitWeight, h1, h2]

theorem zipApply_idem {qs : List (Option Quant)} (h : AllIdem qs) (ws : List Tensor) :
    zipApply qs (zipApply qs ws) = zipApply qs ws := by
  induction qs generalizing ws with
  | nil => simp [zipApply]
  | cons q qs ih =>
    cases ws with
    | nil => simp [zipApply]
    | cons w ws =>
      simp only [zipApply]
      rw [applyQ_idem (fun Q hQ => h Q (by simp [hQ])), ih h.tail]

theorem zipSplit_zipApply {qs : List (Option Quant)} (h : AllIdem qs) (ws : List Tensor) :
    zipSplit qs (zipApply qs ws) = zipSplit qs ws := by
  induction qs generalizing ws with
  | nil => simp [zipSplit]
  | cons q qs ih =>
    cases ws with
    | nil => simp [zipSplit, zipApply]
    | cons w ws =>
      simp only [zipSplit, zipApply]
      rw [splitWeight_applyQ (fun Q hQ => h Q (by simp [hQ])), ih h.tail]

/-- entry `k` of a zip: the `k`-th quantizer applied to the `k`-th weight (or nothing there) -/
theorem zipApply_getD (qs : List (Option Quant)) (ws : List Tensor) (k : ℕ) (hk : k < qs.length) :
    (zipApply qs ws).getD k [] = if k < ws.length then applyQ ((qs[k]?).join) (ws.getD k []) else [] := by
  induction qs generalizing ws k with
  | nil => simp at hk
  | cons q qs ih =>
    cases ws with
    | nil => simp [zipApply]
    | cons w ws =>
      cases k with
      | zero => simp [zipApply]
      | succ k =>
        have hk' : k < qs.length := by simpa using hk
        simp only [zipApply, List.getD_cons_succ, List.length_cons, Nat.add_lt_add_iff_right,
          List.getElem?_cons_succ]
        exact ih ws k hk'

/-! ### the weights after the loop -/

theorem S_eq_of_get {M : Model} {k : ℕ} {l : Layer} (h : M[k]? = some l) (w : List Tensor) :
    S M k w = stepWeights l w := by
  simp [S, h]

theorem S_none {M : Model} {k : ℕ} (h : M[k]? = none) (w : List Tensor) : S M k w = w := by
  simp [S, h]

theorem stepAt_w (env : Env) (M : Model) (i : ℕ) (st : St) (k : ℕ) :
    (stepAt env M i st).w k = if k = i then S M i (st.w i) else st.w k := by
  unfold stepAt
  cases h : M[i]? with
  | none =>
    simp only [S_none h]
    split
    · subst_vars; rfl
    · rfl
  | some l =>
    simp only [S_eq_of_get h]
    cases hk : l.kind <;> simp only [upd, stepWeights, hk]
    all_goals
      split
      · subst_vars; rfl
      · rfl

theorem exportLoop_w (env : Env) (M : Model) (is : List ℕ) (hnd : is.Nodup) (st : St) (k : ℕ) :
    (exportLoop env M is st).w k = if k ∈ is then S M k (st.w k) else st.w k := by
  induction is generalizing st with
  | nil => simp [exportLoop]
  | cons i is ih =>
    have hi : i ∉ is := (List.nodup_cons.mp hnd).1
    have hnd' : is.Nodup := (List.nodup_cons.mp hnd).2
    simp only [exportLoop]
    rw [ih hnd', stepAt_w]
    by_cases hk : k = i
    · subst hk
      simp [hi]
    · by_cases hm : k ∈ is
      · simp [hm, hk]
      · simp [hm, hk]

/-- closed form: one export applies `S M k` to every layer's weights -/
theorem exportQ_w (env : Env) (M : Model) (W : ℕ → List Tensor) (k : ℕ) :
    (exportQ env M W).w k = S M k (W k) := by
  unfold exportQ
  rw [exportLoop_w env M _ List.nodup_range]
  by_cases hk : k ∈ List.range M.length
  · simp [hk]
  · simp only [hk, if_false]
    have : M[k]? = none := by
      rw [List.getElem?_eq_none_iff]
      simpa using hk
    rw [S_none this]

/-! ### the dictionary after the loop -/

/-- entries appended by the loop over `is` when it starts with weights `w` -/
def entriesOf (env : Env) (M : Model) : List ℕ → (ℕ → List Tensor) → List (ℕ × Entry)
  | [], _ => []
  | i :: is, w =>
    (match M[i]? with
     | none => []
     | some l => if l.kind = .noQuant then [] else [(i, (mkEntry env M i l w).1)])
    ++ entriesOf env M is (upd w i (S M i (w i)))

theorem stepAt_w_fun (env : Env) (M : Model) (i : ℕ) (st : St) :
    (stepAt env M i st).w = upd st.w i (S M i (st.w i)) := by
  funext k
  rw [stepAt_w]
  simp [upd]

theorem stepAt_d (env : Env) (M : Model) (i : ℕ) (st : St) :
    (stepAt env M i st).d = st.d ++
      (match M[i]? with
       | none => []
       | some l => if l.kind = .noQuant then [] else [(i, (mkEntry env M i l st.w).1)]) := by
  unfold stepAt
  cases h : M[i]? with
  | none => simp
  | some l => cases hk : l.kind <;> simp [hk]

theorem exportLoop_d (env : Env) (M : Model) (is : List ℕ) (st : St) :
    (exportLoop env M is st).d = st.d ++ entriesOf env M is st.w := by
  induction is generalizing st with
  | nil => simp [exportLoop, entriesOf]
  | cons i is ih =>
    simp only [exportLoop, entriesOf]
    rw [ih, stepAt_d, stepAt_w_fun, List.append_assoc]

theorem exportQ_d (env : Env) (M : Model) (W : ℕ → List Tensor) :
    (exportQ env M W).d = entriesOf env M (List.range M.length) W := by
  unfold exportQ
  rw [exportLoop_d]
  simp

/-- weights of all layers just before iteration `i` of the main loop of an export started at `W` -/
def wAt (M : Model) (W : ℕ → List Tensor) (i : ℕ) : ℕ → List Tensor :=
  fun k => if k < i then S M k (W k) else W k

theorem entriesOf_range' (env : Env) (M : Model) (n s : ℕ) (W : ℕ → List Tensor) (i : ℕ) (e : Entry) :
    (i, e) ∈ entriesOf env M (List.range' s n) W ↔
      s ≤ i ∧ i < s + n ∧ ∃ l, M[i]? = some l ∧ l.kind ≠ .noQuant ∧
        e = (mkEntry env M i l (fun k => if s ≤ k ∧ k < i then S M k (W k) else W k)).1 := by
  induction n generalizing s W with
  | zero =>
    simp only [List.range'_zero, entriesOf, List.not_mem_nil, false_iff, not_and]
    intro h1 h2; omega
  | succ n ih =>
    rw [List.range'_succ]
    simp only [entriesOf, List.mem_append]
    rw [ih]
    have hfun : ∀ (hlt : s < i),
        (fun k => if s + 1 ≤ k ∧ k < i then S M k (upd W s (S M s (W s)) k) else upd W s (S M s (W s)) k)
          = (fun k => if s ≤ k ∧ k < i then S M k (W k) else W k) := by
      intro hlt
      funext k
      by_cases hks : k = s
      · subst hks
        have : ¬ (k + 1 ≤ k) := by omega
        simp [upd, hlt]
      · have : (s + 1 ≤ k ∧ k < i) ↔ (s ≤ k ∧ k < i) := by omega
        simp only [upd, hks, if_false, this]
    have hfun0 : (fun k => if s ≤ k ∧ k < s then S M k (W k) else W k) = W := by
      funext k
      have : ¬ (s ≤ k ∧ k < s) := by omega
      simp [this]
    constructor
    · rintro (h | ⟨h1, h2, l, hl, hk, he⟩)
      · cases hl : M[s]? with
        | none => simp [hl] at h
        | some l =>
          simp only [hl] at h
          by_cases hk : l.kind = .noQuant
          · simp [hk] at h
          · simp only [hk, if_false, List.mem_singleton, Prod.mk.injEq] at h
            obtain ⟨rfl, rfl⟩ := h
            exact ⟨le_refl _, by omega, l, hl, hk, by rw [hfun0]⟩
      · refine ⟨by omega, by omega, l, hl, hk, ?_⟩
        rw [he, hfun (by omega)]
    · rintro ⟨h1, h2, l, hl, hk, he⟩
      by_cases his : i = s
      · subst his
        left
        simp only [hl, hk, if_false, List.mem_singleton, Prod.mk.injEq, true_and]
        rw [he, hfun0]
      · right
        refine ⟨by omega, by omega, l, hl, hk, ?_⟩
        rw [he, hfun (by omega)]

/-- the dictionary of one export: exactly one entry per layer that has quantizers, computed from
    the weights as they are when the loop reaches that layer -/
theorem exportQ_d_mem (env : Env) (M : Model) (W : ℕ → List Tensor) (i : ℕ) (e : Entry) :
    (i, e) ∈ (exportQ env M W).d ↔
      ∃ l, M[i]? = some l ∧ l.kind ≠ .noQuant ∧ e = (mkEntry env M i l (wAt M W i)).1 := by
  rw [exportQ_d, List.range_eq_range', entriesOf_range']
  have : (fun k => if 0 ≤ k ∧ k < i then S M k (W k) else W k) = wAt M W i := by
    funext k; simp [wAt]
  rw [this]
  constructor
  · rintro ⟨_, _, l, hl, hk, he⟩; exact ⟨l, hl, hk, he⟩
  · rintro ⟨l, hl, hk, he⟩
    refine ⟨Nat.zero_le _, ?_, l, hl, hk, he⟩
    have := List.getElem?_eq_some_iff.mp hl
    obtain ⟨h, _⟩ := this
    omega

/-! ### a second export -/

/-- every quantizer object of the model is idempotent (value and `.scale`) -/
def ModelIdem (M : Model) : Prop := ∀ l ∈ M, AllIdem l.qs

/-- every batch-norm that some layer is fused with is a plain layer listing its (at least) four
    weight quantizers [gamma, beta, mean, variance, …] — ANY scale / center (fix round: the main
    loop's zip and add_bn_fusing_weights now pair quantizers and weights alike in all four cases) -/
def FuseAligned (M : Model) : Prop :=
  ∀ i b, fuseOf M i = some b → ∀ lb, M[b]? = some lb → lb.kind = .plain ∧ 4 ≤ lb.qs.length

theorem fuseOf_cls {M : Model} {i b : ℕ} (h : fuseOf M i = some b) :
    clsOf M b = "QBatchNormalization" := by
  unfold fuseOf at h
  cases hl : M[i]? with
  | none => simp [hl] at h
  | some l =>
    simp only [hl] at h
    split at h
    · split at h
      · split at h
        · rename_i hb; simp only [Option.some.injEq] at h; subst h; exact hb
        · simp at h
      · simp at h
    · simp at h

theorem stepWeights_idem {l : Layer} (h : AllIdem l.qs) (w : List Tensor) :
    stepWeights l (stepWeights l w) = stepWeights l w := by
  have h' : AllIdem (layerQs l) := h.mono (layerQs_subset l)
  unfold stepWeights
  cases l.kind with
  | plain => exact zipApply_idem h' w
  | rnn => exact zipApply_idem h' w
  | bidir => exact zipApply_idem h' w
  | folded => rfl
  | noQuant => rfl

theorem S_idem {M : Model} (h : ModelIdem M) (k : ℕ) (w : List Tensor) :
    S M k (S M k w) = S M k w := by
  cases hk : M[k]? with
  | none => simp [S_none hk]
  | some l =>
    simp only [S_eq_of_get hk]
    exact stepWeights_idem (h l (List.mem_of_getElem? hk)) w

theorem layerOuts_stepWeights {l : Layer} (h : AllIdem l.qs) (w : List Tensor) :
    layerOuts l (stepWeights l w) = layerOuts l w := by
  have h' : AllIdem (layerQs l) := h.mono (layerQs_subset l)
  unfold layerOuts stepWeights layerWs
  cases l.kind with
  | plain => exact zipSplit_zipApply h' w
  | rnn => exact zipSplit_zipApply h' w
  | bidir => exact zipSplit_zipApply h' w
  | folded => rfl
  | noQuant => rfl

theorem applyQ_getD_zipApply {qs : List (Option Quant)} (h : AllIdem qs) (bw : List Tensor) (k : ℕ)
    (hk : k < qs.length) :
    applyQ ((qs[k]?).join) ((zipApply qs bw).getD k []) = applyQ ((qs[k]?).join) (bw.getD k []) := by
  rw [zipApply_getD qs bw k hk]
  split
  · apply applyQ_idem
    intro Q hQ
    apply h Q
    have : qs[k]? = some (some Q) := by
      cases hq : qs[k]? with
      | none => simp [hq] at hQ
      | some o => simp [hq] at hQ; simp [hQ]
    exact List.mem_of_getElem? this
  · rename_i hlt
    have : bw.getD k [] = [] := by
      rw [List.getD_eq_getElem?_getD, List.getElem?_eq_none (by omega)]
      rfl
    rw [this]

/-- add_bn_fusing_weights on the batch-norm weights the main loop has already quantized (with the
    batch-norm's own pairing `bnQs`) gives the same terms as on the raw weights, when the quantizers
    are idempotent — for every combination of scale / center -/
theorem bnTerms_zipApply (env : Env) {lb : Layer} (h : AllIdem lb.qs) (hlen : 4 ≤ lb.qs.length)
    (bw : List Tensor) (ub : Bool) (pw : List Tensor) :
    bnTerms env lb (zipApply (bnQs (lb.bn.getD defaultBN) lb.qs) bw) ub pw = bnTerms env lb bw ub pw := by
  have h' : AllIdem (bnQs (lb.bn.getD defaultBN) lb.qs) := h.mono (bnQs_subset _ _)
  obtain ⟨g, b, m, v, r, hqs⟩ := exists_four hlen
  unfold bnTerms
  generalize lb.bn.getD defaultBN = info at h' ⊢
  rw [hqs, bnQs_cons] at h' ⊢
  rcases info with ⟨sc, ce, eps⟩
  cases sc <;> cases ce
  · have h0 := applyQ_getD_zipApply h' bw 0 (by simp)
    have h1 := applyQ_getD_zipApply h' bw 1 (by simp)
    simp at h0 h1 ⊢
    simp [h0, h1]
  · have h0 := applyQ_getD_zipApply h' bw 0 (by simp)
    have h1 := applyQ_getD_zipApply h' bw 1 (by simp)
    have h2 := applyQ_getD_zipApply h' bw 2 (by simp)
    simp at h0 h1 h2 ⊢
    simp [h0, h1, h2]
  · have h0 := applyQ_getD_zipApply h' bw 0 (by simp)
    have h1 := applyQ_getD_zipApply h' bw 1 (by simp)
    have h2 := applyQ_getD_zipApply h' bw 2 (by simp)
    simp at h0 h1 h2 ⊢
    simp [h0, h1, h2]
  · have h0 := applyQ_getD_zipApply h' bw 0 (by simp)
    have h1 := applyQ_getD_zipApply h' bw 1 (by simp)
    have h2 := applyQ_getD_zipApply h' bw 2 (by simp)
    have h3 := applyQ_getD_zipApply h' bw 3 (by simp)
    simp at h0 h1 h2 h3 ⊢
    simp [h0, h1, h2, h3]

/-- the same when the main loop zipped ALL of `get_quantizers()` positionally (a layer whose class is
    NAMED QBatchNormalization but which is not an instance of the library class: `bn = none`, so
    add_bn_fusing_weights reads it with scale and center present): positions 0 … 3 coincide -/
theorem bnTerms_zipApply_all (env : Env) {lb : Layer} (h : AllIdem lb.qs) (hlen : 4 ≤ lb.qs.length)
    (hbn : lb.bn = none) (bw : List Tensor) (ub : Bool) (pw : List Tensor) :
    bnTerms env lb (zipApply lb.qs bw) ub pw = bnTerms env lb bw ub pw := by
  have h0 := applyQ_getD_zipApply h bw 0 (by omega)
  have h1 := applyQ_getD_zipApply h bw 1 (by omega)
  have h2 := applyQ_getD_zipApply h bw 2 (by omega)
  have h3 := applyQ_getD_zipApply h bw 3 (by omega)
  unfold bnTerms
  simp only [hbn, Option.getD_none, defaultBN, if_true, Nat.zero_add, Nat.reduceAdd] at h0 h1 h2 h3 ⊢
  simp only [h0, h1, h2, h3]

theorem fuseTerms_congr (env : Env) {M : Model} (hq : ModelIdem M) (ha : FuseAligned M)
    {i : ℕ} {l : Layer} (hl : M[i]? = some l) {w w' : ℕ → List Tensor}
    (hw : ∀ k, w' k = S M k (w k)) :
    fuseTerms env M i l w' = fuseTerms env M i l w := by
  unfold fuseTerms
  cases hf : fuseOf M i with
  | none => rfl
  | some b =>
    dsimp only
    cases hb : M[b]? with
    | none => rfl
    | some lb =>
      obtain ⟨hkind, hlen⟩ := ha i b hf lb hb
      have hlq : AllIdem l.qs := hq l (List.mem_of_getElem? hl)
      have hbq : AllIdem lb.qs := hq lb (List.mem_of_getElem? hb)
      dsimp only
      rw [hw i, hw b, S_eq_of_get hl, S_eq_of_get hb, stepWeights_idem hlq]
      -- the main loop's pairing follows `isinstance` (`lb.bn`), not the class name the fusing reads
      cases hbn : lb.bn with
      | some info =>
        have : stepWeights lb (w b) = zipApply (bnQs (lb.bn.getD defaultBN) lb.qs) (w b) := by
          simp [stepWeights, layerQs, hkind, hbn]
        rw [this, bnTerms_zipApply env hbq hlen]
      | none =>
        have : stepWeights lb (w b) = zipApply lb.qs (w b) := by
          simp [stepWeights, layerQs, hkind, hbn]
        rw [this, bnTerms_zipApply_all env hbq hlen hbn]

theorem mkEntry_congr (env : Env) {M : Model} (hq : ModelIdem M) (ha : FuseAligned M)
    {i : ℕ} {l : Layer} (hl : M[i]? = some l) {w w' : ℕ → List Tensor}
    (hw : ∀ k, w' k = S M k (w k)) :
    mkEntry env M i l w' = mkEntry env M i l w := by
  unfold mkEntry
  rw [fuseTerms_congr env hq ha hl hw, hw i, S_eq_of_get hl,
    layerOuts_stepWeights (hq l (List.mem_of_getElem? hl))]

theorem entriesOf_congr (env : Env) {M : Model} (hq : ModelIdem M) (ha : FuseAligned M)
    (is : List ℕ) {w w' : ℕ → List Tensor} (hw : ∀ k, w' k = S M k (w k)) :
    entriesOf env M is w' = entriesOf env M is w := by
  induction is generalizing w w' with
  | nil => rfl
  | cons i is ih =>
    simp only [entriesOf]
    congr 1
    · cases hl : M[i]? with
      | none => rfl
      | some l => simp only [mkEntry_congr env hq ha hl hw]
    · apply ih
      intro k
      by_cases hk : k = i
      · subst hk; simp [upd, hw]
      · simp [upd, hk, hw]

end QKV.Export
