/-
  QKV.Lemmas.F32Q — the float32 transcriptions `qbitsF`, `qreluF`, `qlinearF` of Model/F32.lean,
  evaluated step by step: each float32 operation is shown to be exact (or, for an underflowing
  scaled input, harmless) so that the float32 result equals the exact-rational model.
-/
import QKV.Lemmas.F32
import QKV.Lemmas.FixedQ
namespace QKV

theorem tp_le_24 {u : ℤ} (h : u ≤ 24) : tp u ≤ 2 ^ 24 := by rw [← tp24]; exact tp_mono h

theorem rnd32_int {n : ℤ} (hn : |n| ≤ 2 ^ 24) : rnd32 (n : ℚ) = (n : ℚ) :=
  rnd32_of_isF32 (isF32_int hn)

theorem rnd32_zero : rnd32 0 = 0 := by simp [rnd32]
theorem rnd32_one : rnd32 1 = 1 := by
  have := rnd32_int (n := 1) (by norm_num); simpa using this

theorem isF32_pow2 {a : ℤ} (h1 : -149 ≤ a) (h2 : a ≤ 103) : isF32 (pow2 a) = true := by
  have := isF32_int_mul_pow2 (n := 1) (by norm_num) h1 h2
  simpa using this

/-! ### the clip bounds `keep_negative * (-m + symmetric)` and `m - 1` -/

theorem clipLoF_eq {u : ℤ} (h0 : 0 ≤ u) (h24 : u ≤ 24) (kn sym : Bool) :
    fmul (b2r kn) (fadd (-pow2 u) (b2r sym)) =
      (((if kn then -twoPow u + (if sym then 1 else 0) else 0 : ℤ)) : ℚ) := by
  have h1 := tp_le_24 h24
  have h2 := tp_ge_one u
  rw [pow2_int h0, twoPow_eq_tp]
  have inner : ∀ b : ℤ, (b = 0 ∨ b = 1) →
      rnd32 (-((tp u : ℤ) : ℚ) + (b : ℚ)) = ((-tp u + b : ℤ) : ℚ) := by
    intro b hb
    have : -((tp u : ℤ) : ℚ) + (b : ℚ) = ((-tp u + b : ℤ) : ℚ) := by push_cast; ring
    rw [this]; apply rnd32_int; rw [abs_le]
    rcases hb with rfl | rfl <;> constructor <;> omega
  unfold fmul fadd b2r
  cases kn <;> cases sym
  · simp [rnd32_zero]
  · simp [rnd32_zero]
  · have := inner 0 (Or.inl rfl)
    simp only [Int.cast_zero, add_zero] at this
    simp only [if_true, Bool.false_eq_true, if_false, add_zero, one_mul, this]
    exact rnd32_int (by rw [abs_neg, abs_of_pos (tp_pos u)]; exact h1)
  · have := inner 1 (Or.inr rfl)
    simp only [Int.cast_one] at this
    simp only [if_true, one_mul, this]
    exact rnd32_int (by rw [abs_le]; constructor <;> omega)

theorem clipHiF_eq {u : ℤ} (h0 : 0 ≤ u) (h24 : u ≤ 24) :
    fsub (pow2 u) 1 = ((twoPow u - 1 : ℤ) : ℚ) := by
  have h1 := tp_le_24 h24
  have h2 := tp_ge_one u
  rw [pow2_int h0, twoPow_eq_tp]
  unfold fsub
  have : ((tp u : ℤ) : ℚ) - 1 = ((tp u - 1 : ℤ) : ℚ) := by push_cast; ring
  rw [this]; exact rnd32_int (by rw [abs_le]; constructor <;> omega)

/-! ### `p = x * m / m_i` followed by `_round_through` -/

theorem pF_roundThrough (t : Tie) {x : ℚ} (hx : isF32 x = true) {u i : ℤ} (hu : 0 ≤ u)
    (ho1 : |x * pow2 u| < pow2 128) (ho2 : |x / pow2 (i - u)| < pow2 128) :
    roundThroughF t (fdiv (fmul x (pow2 u)) (pow2 i))
      = ((roundTie t (x / pow2 (i - u)) : ℤ) : ℚ) := by
  have hu' : -149 ≤ ulpExp x + u := by have := ulpExp_ge x; omega
  have ha := isF32_mul_pow2 hx u hu' ho1
  unfold fmul fdiv
  rw [rnd32_of_isF32 ha]
  have e : x * pow2 u / pow2 i = (x * pow2 u) * pow2 (-i) := by rw [pow2_neg]; ring
  have e2 : x / pow2 (i - u) = (x * pow2 u) * pow2 (-i) := by
    rw [pow2_sub, pow2_neg]; field_simp [pow2_ne_zero]
  rw [e, e2]
  exact roundThroughF_scaled t ha (-i) (by rw [← e2]; exact ho2)

/-! ### `m_i * code / m`, `scale * xq` -/

theorem codeOutF {C : ℤ} (hC : |C| ≤ 2 ^ 24) {u i : ℤ} (hi1 : -149 ≤ i) (hi2 : i ≤ 103)
    (hs1 : -149 ≤ i - u) (hs2 : i - u ≤ 103) :
    fdiv (fmul (pow2 i) (C : ℚ)) (pow2 u) = (C : ℚ) * pow2 (i - u) := by
  unfold fdiv fmul
  rw [mul_comm, rnd32_of_isF32 (isF32_int_mul_pow2 hC hi1 hi2)]
  have : (C : ℚ) * pow2 i / pow2 u = (C : ℚ) * pow2 (i - u) := by rw [pow2_sub]; ring
  rw [this, rnd32_of_isF32 (isF32_int_mul_pow2 hC hs1 hs2)]

theorem gainF_eq {C : ℤ} (hC : |C| ≤ 2 ^ 24) {s a : ℤ} (ha1 : -149 ≤ a) (ha2 : a ≤ 103)
    (h1 : -149 ≤ s + a) (h2 : s + a ≤ 103) :
    fmul (rnd32 (pow2 a)) ((C : ℚ) * pow2 s) = (C : ℚ) * pow2 (s + a) ∧
      isF32 ((C : ℚ) * pow2 (s + a)) = true := by
  have hf := isF32_int_mul_pow2 hC h1 h2
  refine ⟨?_, hf⟩
  unfold fmul
  rw [rnd32_of_isF32 (isF32_pow2 ha1 ha2)]
  have : pow2 a * ((C : ℚ) * pow2 s) = (C : ℚ) * pow2 (s + a) := by rw [pow2_add]; ring
  rw [this, rnd32_of_isF32 hf]

/-! ### quantized_bits -/

theorem BitsCfg.lo_nonpos (c : BitsCfg) : c.lo ≤ 0 := by
  unfold BitsCfg.lo
  have := tp_ge_one c.ub
  rw [twoPow_eq_tp]
  split <;> (try split) <;> omega

theorem BitsCfg.hi_nonneg (c : BitsCfg) : 0 ≤ c.hi := by
  unfold BitsCfg.hi; have := tp_ge_one c.ub; rw [twoPow_eq_tp]; omega

theorem BitsCfg.code_abs_le (c : BitsCfg) (h24 : c.ub ≤ 24) {k : ℤ} (h1 : c.lo ≤ k) (h2 : k ≤ c.hi) :
    |k| ≤ 2 ^ 24 := by
  have h3 := tp_le_24 h24
  have h4 := tp_ge_one c.ub
  unfold BitsCfg.lo at h1; unfold BitsCfg.hi at h2
  rw [twoPow_eq_tp] at h1 h2
  rw [abs_le]
  constructor
  · split at h1 <;> (try split at h1) <;> omega
  · omega

/-- float32 `quantized_bits` equals the exact model as soon as the final residual `xq − x` is
    representable; everything before the residual is exact for EVERY binary32 input (no envelope
    on `x` beyond absence of overflow). -/
theorem qbitsF_eq_of_resid (t : Tie) (c : BitsCfg) (a : ℤ) (x : ℚ)
    (hub : 0 < c.ub) (hub24 : c.ub ≤ 24) (hs1 : -149 ≤ c.integer - c.ub) (hi2 : c.integer ≤ 103)
    (hg : c.gain = pow2 a) (ha1 : -149 ≤ a) (ha2 : a ≤ 103)
    (hsa1 : -149 ≤ c.integer - c.ub + a) (hsa2 : c.integer - c.ub + a ≤ 103)
    (hx : isF32 x = true) (ho1 : |x * pow2 c.ub| < pow2 128) (ho2 : |x / c.step| < pow2 128)
    (hres : isF32 (qbits t c x - x) = true) : qbitsF t c x = qbits t c x := by
  have hq : qbits t c x = ((rc t (x / c.step) c.lo c.hi : ℤ) : ℚ) * pow2 (c.integer - c.ub + a) := by
    unfold qbits; rw [if_pos hub, hg]; unfold BitsCfg.step; rw [pow2_add]; ring
  obtain ⟨hb1, hb2⟩ := rc_bounds t (x / c.step) c.lo_le_hi
  have hC := c.code_abs_le hub24 hb1 hb2
  unfold BitsCfg.step at ho2
  unfold qbitsF
  dsimp only
  rw [pF_roundThrough t hx hub.le ho1 ho2, clipLoF_eq hub.le hub24, clipHiF_eq hub.le hub24]
  have e1 : ((if c.keepNeg then -twoPow c.ub + (if c.symmetric then 1 else 0) else 0 : ℤ)) = c.lo := rfl
  have e2 : (twoPow c.ub - 1 : ℤ) = c.hi := rfl
  rw [e1, e2, fclip_int c.lo_le_hi]
  have e3 : iclip (roundTie t (x / pow2 (c.integer - c.ub))) c.lo c.hi = rc t (x / c.step) c.lo c.hi := rfl
  rw [e3, codeOutF hC (by omega) hi2 hs1 (by omega), hg]
  obtain ⟨g1, g2⟩ := gainF_eq hC (s := c.integer - c.ub) ha1 ha2 hsa1 hsa2
  rw [g1, hq]
  rw [hq] at hres
  exact steF_eq g2 hres

/-- the residual of `quantized_bits` is binary32 on the envelope `|x| < 2^24 · step · alpha`
    (`alpha = 2^a ≤ 1`).  Saturated inputs included. -/
theorem qbits_resid_isF32 (t : Tie) (c : BitsCfg) (a : ℤ) (x : ℚ) (hub : 0 < c.ub)
    (hg : c.gain = pow2 a) (ha0 : a ≤ 0) (hsa1 : -149 ≤ c.integer - c.ub + a)
    (hx : isF32 x = true) (henv : |x| < pow2 24 * (c.step * pow2 a)) :
    isF32 (qbits t c x - x) = true := by
  have hs := c.step_pos
  obtain ⟨P, hP⟩ : ∃ P, P = x / c.step := ⟨_, rfl⟩
  have hxP : x = c.step * P := by rw [hP]; field_simp
  have hq : qbits t c x = c.step * (pow2 a * ((rc t P c.lo c.hi : ℤ) : ℚ)) := by
    unfold qbits; rw [if_pos hub, hg, ← hP]; ring
  have hle : |qbits t c x - x| ≤ |x| := by
    have h1 := resid_scaled_le (rc_resid_le t P c.lo_nonpos c.hi_nonneg) (pow2_pos a).le
      (by have := pow2_le_pow2 ha0; rwa [pow2_zero] at this)
    rw [hq, hxP]
    rw [← mul_sub, abs_mul, abs_mul, abs_of_pos hs]
    exact mul_le_mul_of_nonneg_left h1 hs.le
  apply resid_isF32 hx hsa1 _ hle
  · have : c.integer - c.ub + a + 24 = 24 + ((c.integer - c.ub) + a) := by ring
    rw [this, pow2_add, pow2_add]; exact henv
  · refine ⟨rc t P c.lo c.hi, ?_⟩
    rw [hq, pow2_add]; unfold BitsCfg.step; ring

end QKV
