/-
  QKV.Lemmas.F32Q — the float32 transcriptions `qbitsF`, `qreluF`, `qlinearF` of Model/F32.lean,
  evaluated step by step: each float32 operation is shown to be exact (or, for an underflowing
  scaled input, harmless) so that the float32 result equals the exact-rational model.
-/
import QKV.Lemmas.F32
import QKV.Lemmas.FixedQ
namespace QKV

theorem tp_le_24 {u : ℤ} (h : u ≤ 24) : tp u ≤ 2 ^ 24 := by rw [← tp24]; exact tp_mono h

theorem rnd32_int {n : ℤ} (hn : |n| ≤ 2 ^ 24) : rnd32 (n : ℚ) = (n : ℚ) :=
  rnd32_of_isF32 (isF32_int hn)

theorem rnd32_zero : rnd32 0 = 0 := by simp [rnd32]
theorem rnd32_one : rnd32 1 = 1 := by
  have := rnd32_int (n := 1) (by norm_num); simpa using this

theorem isF32_pow2 {a : ℤ} (h1 : -149 ≤ a) (h2 : a ≤ 103) : isF32 (pow2 a) = true := by
  have := isF32_int_mul_pow2 (n := 1) (by norm_num) h1 h2
  simpa using this

/-! ### the clip bounds `keep_negative * (-m + symmetric)` and `m - 1` -/

theorem clipLoF_eq {u : ℤ} (h0 : 0 ≤ u) (h24 : u ≤ 24) (kn sym : Bool) :
    fmul (b2r kn) (fadd (-pow2 u) (b2r sym)) =
      (((if kn then -twoPow u + (if sym then 1 else 0) else 0 : ℤ)) : ℚ) := by
  have h1 := tp_le_24 h24
  have h2 := tp_ge_one u
  rw [pow2_int h0, twoPow_eq_tp]
  have inner : ∀ b : ℤ, (b = 0 ∨ b = 1) →
      rnd32 (-((tp u : ℤ) : ℚ) + (b : ℚ)) = ((-tp u + b : ℤ) : ℚ) := by
    intro b hb
    have : -((tp u : ℤ) : ℚ) + (b : ℚ) = ((-tp u + b : ℤ) : ℚ) := by push_cast; ring
    rw [this]; apply rnd32_int; rw [abs_le]
    rcases hb with rfl | rfl <;> constructor <;> omega
  unfold fmul fadd b2r
  cases kn <;> cases sym
  · simp [rnd32_zero]
  · simp [rnd32_zero]
  · have := inner 0 (Or.inl rfl)
    simp only [Int.cast_zero, add_zero] at this
    simp only [if_true, Bool.false_eq_true, if_false, add_zero, one_mul, this]
    exact rnd32_int (by rw [abs_neg, abs_of_pos (tp_pos u)]; exact h1)
  · have := inner 1 (Or.inr rfl)
    simp only [Int.cast_one] at this
    simp only [if_true, one_mul, this]
    exact rnd32_int (by rw [abs_le]; constructor <;> omega)

theorem clipHiF_eq {u : ℤ} (h0 : 0 ≤ u) (h24 : u ≤ 24) :
    fsub (pow2 u) 1 = ((twoPow u - 1 : ℤ) : ℚ) := by
  have h1 := tp_le_24 h24
  have h2 := tp_ge_one u
  rw [pow2_int h0, twoPow_eq_tp]
  unfold fsub
  have : ((tp u : ℤ) : ℚ) - 1 = ((tp u - 1 : ℤ) : ℚ) := by push_cast; ring
  rw [this]; exact rnd32_int (by rw [abs_le]; constructor <;> omega)

/-! ### `p = x * m / m_i` followed by `_round_through` -/

theorem pF_roundThrough (t : Tie) {x : ℚ} (hx : isF32 x = true) {u i : ℤ} (hu : 0 ≤ u)
    (ho1 : |x * pow2 u| < pow2 128) (ho2 : |x / pow2 (i - u)| < pow2 128) :
    roundThroughF t (fdiv (fmul x (pow2 u)) (pow2 i))
      = ((roundTie t (x / pow2 (i - u)) : ℤ) : ℚ) := by
  have hu' : -149 ≤ ulpExp x + u := by have := ulpExp_ge x; omega
  have ha := isF32_mul_pow2 hx u hu' ho1
  unfold fmul fdiv
  rw [rnd32_of_isF32 ha]
  have e : x * pow2 u / pow2 i = (x * pow2 u) * pow2 (-i) := by rw [pow2_neg]; ring
  have e2 : x / pow2 (i - u) = (x * pow2 u) * pow2 (-i) := by
    rw [pow2_sub, pow2_neg]; field_simp [pow2_ne_zero]
  rw [e, e2]
  exact roundThroughF_scaled t ha (-i) (by rw [← e2]; exact ho2)

/-! ### `m_i * code / m`, `scale * xq` -/

theorem codeOutF {C : ℤ} (hC : |C| ≤ 2 ^ 24) {u i : ℤ} (hi1 : -149 ≤ i) (hi2 : i ≤ 103)
    (hs1 : -149 ≤ i - u) (hs2 : i - u ≤ 103) :
    fdiv (fmul (pow2 i) (C : ℚ)) (pow2 u) = (C : ℚ) * pow2 (i - u) := by
  unfold fdiv fmul
  rw [mul_comm, rnd32_of_isF32 (isF32_int_mul_pow2 hC hi1 hi2)]
  have : (C : ℚ) * pow2 i / pow2 u = (C : ℚ) * pow2 (i - u) := by rw [pow2_sub]; ring
  rw [this, rnd32_of_isF32 (isF32_int_mul_pow2 hC hs1 hs2)]

theorem gainF_eq {C : ℤ} (hC : |C| ≤ 2 ^ 24) {s a : ℤ} (ha1 : -149 ≤ a) (ha2 : a ≤ 103)
    (h1 : -149 ≤ s + a) (h2 : s + a ≤ 103) :
    fmul (rnd32 (pow2 a)) ((C : ℚ) * pow2 s) = (C : ℚ) * pow2 (s + a) ∧
      isF32 ((C : ℚ) * pow2 (s + a)) = true := by
  have hf := isF32_int_mul_pow2 hC h1 h2
  refine ⟨?_, hf⟩
  unfold fmul
  rw [rnd32_of_isF32 (isF32_pow2 ha1 ha2)]
  have : pow2 a * ((C : ℚ) * pow2 s) = (C : ℚ) * pow2 (s + a) := by rw [pow2_add]; ring
  rw [this, rnd32_of_isF32 hf]

/-! ### quantized_bits -/

theorem BitsCfg.lo_nonpos (c : BitsCfg) : c.lo ≤ 0 := by
  unfold BitsCfg.lo
  have := tp_ge_one c.ub
  rw [twoPow_eq_tp]
  split <;> (try split) <;> omega

theorem BitsCfg.hi_nonneg (c : BitsCfg) : 0 ≤ c.hi := by
  unfold BitsCfg.hi; have := tp_ge_one c.ub; rw [twoPow_eq_tp]; omega

theorem BitsCfg.code_abs_le (c : BitsCfg) (h24 : c.ub ≤ 24) {k : ℤ} (h1 : c.lo ≤ k) (h2 : k ≤ c.hi) :
    |k| ≤ 2 ^ 24 := by
  have h3 := tp_le_24 h24
  have h4 := tp_ge_one c.ub
  unfold BitsCfg.lo at h1; unfold BitsCfg.hi at h2
  rw [twoPow_eq_tp] at h1 h2
  rw [abs_le]
  constructor
  · split at h1 <;> (try split at h1) <;> omega
  · omega

/-- float32 `quantized_bits` equals the exact model as soon as the final residual `xq − x` is
    representable; everything before the residual is exact for EVERY binary32 input (no envelope
    on `x` beyond absence of overflow). -/
theorem qbitsF_eq_of_resid (t : Tie) (c : BitsCfg) (a : ℤ) (x : ℚ)
    (hub : 0 < c.ub) (hub24 : c.ub ≤ 24) (hs1 : -149 ≤ c.integer - c.ub) (hi2 : c.integer ≤ 103)
    (hg : c.gain = pow2 a) (ha1 : -149 ≤ a) (ha2 : a ≤ 103)
    (hsa1 : -149 ≤ c.integer - c.ub + a) (hsa2 : c.integer - c.ub + a ≤ 103)
    (hx : isF32 x = true) (ho1 : |x * pow2 c.ub| < pow2 128) (ho2 : |x / c.step| < pow2 128)
    (hres : isF32 (qbits t c x - x) = true) : qbitsF t c x = qbits t c x := by
  have hq : qbits t c x = ((rc t (x / c.step) c.lo c.hi : ℤ) : ℚ) * pow2 (c.integer - c.ub + a) := by
    unfold qbits; rw [if_pos hub, hg]; unfold BitsCfg.step; rw [pow2_add]; ring
  obtain ⟨hb1, hb2⟩ := rc_bounds t (x / c.step) c.lo_le_hi
  have hC := c.code_abs_le hub24 hb1 hb2
  unfold BitsCfg.step at ho2
  unfold qbitsF
  dsimp only
  rw [pF_roundThrough t hx hub.le ho1 ho2, clipLoF_eq hub.le hub24, clipHiF_eq hub.le hub24]
  have e1 : ((if c.keepNeg then -twoPow c.ub + (if c.symmetric then 1 else 0) else 0 : ℤ)) = c.lo := rfl
  have e2 : (twoPow c.ub - 1 : ℤ) = c.hi := rfl
  rw [e1, e2, fclip_int c.lo_le_hi]
  have e3 : iclip (roundTie t (x / pow2 (c.integer - c.ub))) c.lo c.hi = rc t (x / c.step) c.lo c.hi := rfl
  rw [e3, codeOutF hC (by omega) hi2 hs1 (by omega), hg]
  obtain ⟨g1, g2⟩ := gainF_eq hC (s := c.integer - c.ub) ha1 ha2 hsa1 hsa2
  rw [g1, hq]
  rw [hq] at hres
  exact steF_eq g2 hres

/-- the residual of `quantized_bits` is binary32 on the envelope `|x| < 2^24 · step · alpha`
    (`alpha = 2^a ≤ 1`).  Saturated inputs included. -/
theorem qbits_resid_isF32 (t : Tie) (c : BitsCfg) (a : ℤ) (x : ℚ) (hub : 0 < c.ub)
    (hg : c.gain = pow2 a) (ha0 : a ≤ 0) (hsa1 : -149 ≤ c.integer - c.ub + a)
    (hx : isF32 x = true) (henv : |x| < pow2 24 * (c.step * pow2 a)) :
    isF32 (qbits t c x - x) = true := by
  have hs := c.step_pos
  obtain ⟨P, hP⟩ : ∃ P, P = x / c.step := ⟨_, rfl⟩
  have hxP : x = c.step * P := by rw [hP]; field_simp
  have hq : qbits t c x = c.step * (pow2 a * ((rc t P c.lo c.hi : ℤ) : ℚ)) := by
    unfold qbits; rw [if_pos hub, hg, ← hP]; ring
  have hle : |qbits t c x - x| ≤ |x| := by
    have h1 := resid_scaled_le (rc_resid_le t P c.lo_nonpos c.hi_nonneg) (pow2_pos a).le
      (by have := pow2_le_pow2 ha0; rwa [pow2_zero] at this)
    rw [hq, hxP]
    rw [← mul_sub, abs_mul, abs_mul, abs_of_pos hs]
    exact mul_le_mul_of_nonneg_left h1 hs.le
  apply resid_isF32 hx hsa1 _ hle
  · have : c.integer - c.ub + a + 24 = 24 + ((c.integer - c.ub) + a) := by ring
    rw [this, pow2_add, pow2_add]; exact henv
  · refine ⟨rc t P c.lo c.hi, ?_⟩
    rw [hq, pow2_add]; unfold BitsCfg.step; ring


/-! ### generic residual of a round-then-clip on the lattice `2^σ ℤ` -/

theorem sq_resid_isF32 (t : Tie) {x : ℚ} (hx : isF32 x = true) {σ : ℤ} (hσ : -149 ≤ σ)
    {lo hi : ℤ} (hlo : lo ≤ 0) (hhi : 0 ≤ hi) (henv : |x| < pow2 24 * pow2 σ) :
    isF32 (((rc t (x / pow2 σ) lo hi : ℤ) : ℚ) * pow2 σ - x) = true := by
  have hs := pow2_pos σ
  obtain ⟨P, hP⟩ : ∃ P, P = x / pow2 σ := ⟨_, rfl⟩
  have hxP : x = P * pow2 σ := by rw [hP]; field_simp
  rw [← hP]
  apply resid_isF32 hx hσ ⟨_, rfl⟩
  · have h1 := rc_resid_le t P hlo hhi
    rw [hxP, ← sub_mul, abs_mul, abs_mul, abs_of_pos hs]
    exact mul_le_mul_of_nonneg_right h1 hs.le
  · rw [add_comm, pow2_add]; exact henv

/-! ### quantized_linear -/

theorem LinCfg.lo_nonpos (c : LinCfg) : c.lo ≤ 0 := by
  unfold LinCfg.lo
  have := tp_ge_one c.ub
  rw [twoPow_eq_tp]
  split <;> (try split) <;> omega

theorem LinCfg.hi_nonneg (c : LinCfg) : 0 ≤ c.hi := by
  unfold LinCfg.hi; have := tp_ge_one c.ub; rw [twoPow_eq_tp]; omega

theorem LinCfg.code_abs_le (c : LinCfg) (h24 : c.ub ≤ 24) {k : ℤ} (h1 : c.lo ≤ k) (h2 : k ≤ c.hi) :
    |k| ≤ 2 ^ 24 := by
  have h3 := tp_le_24 h24
  have h4 := tp_ge_one c.ub
  unfold LinCfg.lo at h1; unfold LinCfg.hi at h2
  rw [twoPow_eq_tp] at h1 h2
  rw [abs_le]
  constructor
  · split at h1 <;> (try split at h1) <;> omega
  · omega

theorem fclip_cases (v : ℚ) {lo hi : ℚ} (h : lo ≤ hi) :
    (fclip v lo hi = v ∧ lo ≤ v ∧ v ≤ hi) ∨ (fclip v lo hi = lo ∧ v < lo) ∨
      (fclip v lo hi = hi ∧ hi < v) := by
  unfold fclip
  rcases lt_or_ge hi v with a | a
  · right; right
    simp only [if_pos a, if_neg (not_lt.mpr h)]
    exact ⟨trivial, a⟩
  · rcases lt_or_ge v lo with b | b
    · right; left
      simp only [if_neg (not_lt.mpr a), if_pos b]
      exact ⟨trivial, b⟩
    · left
      simp only [if_neg (not_lt.mpr a), if_neg (not_lt.mpr b)]
      exact ⟨trivial, b, a⟩

theorem rnd32_sub_zero {y : ℚ} (h : isF32 y = true) : fsub y 0 = y := by
  unfold fsub; rw [sub_zero, rnd32_of_isF32 h]
theorem rnd32_add_zero {y : ℚ} (h : isF32 y = true) : fadd y 0 = y := by
  unfold fadd; rw [add_zero, rnd32_of_isF32 h]

/-- `x / qs`, clip, `- 0.0`, `_round_through`, `+ 0.0` in float32 yield the exact code -/
theorem linear_codeF (t : Tie) {x : ℚ} (hx : isF32 x = true) (σ : ℤ)
    (ho : |x / pow2 σ| < pow2 128) {lo hi : ℤ} (hlo : lo ≤ 0) (hhi : 0 ≤ hi)
    (hlo24 : |lo| ≤ 2 ^ 24) (hhi24 : |hi| ≤ 2 ^ 24) :
    fadd (roundThroughF t (fsub (fclip (fdiv x (pow2 σ)) (lo : ℚ) (hi : ℚ)) 0)) 0
      = ((rc t (x / pow2 σ) lo hi : ℤ) : ℚ) := by
  have hlh : lo ≤ hi := le_trans hlo hhi
  have hlhq : (lo : ℚ) ≤ (hi : ℚ) := by exact_mod_cast hlh
  have e : x / pow2 σ = x * pow2 (-σ) := by rw [pow2_neg]; ring
  unfold fdiv
  rw [e] at ho ⊢
  have fin : ∀ y : ℚ, isF32 y = true →
      fadd (roundThroughF t (fsub y 0)) 0 = ((roundTie t y : ℤ) : ℚ) := by
    intro y hy
    rw [rnd32_sub_zero hy, roundThroughF_eq t hy, rnd32_add_zero (roundTie_isF32 t hy)]
  rcases rnd32_scale_cases hx (-σ) ho with ⟨h1, h2⟩ | ⟨h1, h2, h3⟩
  · rw [h2]
    set S := x * pow2 (-σ) with hS
    rcases fclip_cases S hlhq with ⟨e1, b1, b2⟩ | ⟨e1, b⟩ | ⟨e1, b⟩
    · rw [e1, fin S h1, rc_inrange t b1 b2]
    · rw [e1, fin _ (isF32_int hlo24), roundTie_int, rc_sat_lo t hlh b.le]
    · rw [e1, fin _ (isF32_int hhi24), roundTie_int, rc_sat_hi t hlh b.le]
  · have hh := pow2_m125_lt_half
    set S := x * pow2 (-σ) with hS
    set s' := rnd32 S with hs'
    have hS0 : roundTie t S = 0 := roundTie_small t (lt_trans h1 hh)
    have hrc : rc t S lo hi = 0 := by
      unfold rc; rw [hS0]; exact iclip_id hlo hhi
    have hs1 : |s'| < 1 / 2 := lt_of_le_of_lt h3 hh
    rw [hrc]
    rw [abs_lt] at hs1
    rcases fclip_cases s' hlhq with ⟨e1, _, _⟩ | ⟨e1, b⟩ | ⟨e1, b⟩
    · rw [e1, fin s' h2, roundTie_small t (abs_lt.mpr hs1)]
    · -- s' < lo ≤ 0 with |s'| < 1/2 forces lo = 0
      have : lo = 0 := by
        have : (-1 : ℚ) < (lo : ℚ) := by linarith
        have : (-1 : ℤ) < lo := by exact_mod_cast this
        omega
      rw [e1, this]; simp only [Int.cast_zero]
      rw [fin 0 isF32_zero]
      have := roundTie_int t 0; simpa using this
    · have : hi = 0 := by
        have : (hi : ℚ) < 1 := by linarith
        have : hi < 1 := by exact_mod_cast this
        omega
      rw [e1, this]; simp only [Int.cast_zero]
      rw [fin 0 isF32_zero]
      have := roundTie_int t 0; simpa using this

/-- the return `x + 1·(xq − x)` of quantized_linear -/
theorem steF'_eq {x xq : ℚ} (h1 : isF32 xq = true) (h2 : isF32 (xq - x) = true) :
    fadd x (fmul 1 (fsub xq x)) = xq := by
  unfold fadd fmul fsub
  rw [rnd32_of_isF32 h2, one_mul, rnd32_of_isF32 h2]
  have : x + (xq - x) = xq := by ring
  rw [this, rnd32_of_isF32 h1]

theorem qsF_eq {s a : ℤ} (ha1 : -149 ≤ a) (ha2 : a ≤ 103) (h1 : -149 ≤ s + a) (h2 : s + a ≤ 103) :
    fmul (rnd32 (pow2 a)) (pow2 s) = pow2 (s + a) := by
  unfold fmul
  rw [rnd32_of_isF32 (isF32_pow2 ha1 ha2), mul_comm, ← pow2_add, rnd32_of_isF32 (isF32_pow2 h1 h2)]

/-- float32 `quantized_linear` (not the sign function) equals the exact model on
    `|x| < 2^24 · quantization_scale`; `alpha` any power of two in range. -/
theorem qlinearF_eq (t : Tie) (c : LinCfg) (a : ℤ) (x : ℚ)
    (hsf : c.signFn = false) (hub : 0 ≤ c.ub) (hub24 : c.ub ≤ 24)
    (ha : (c.alpha = none ∧ a = 0) ∨ c.alpha = some (pow2 a)) (ha1 : -149 ≤ a) (ha2 : a ≤ 103)
    (hσ1 : -149 ≤ c.integer - c.ub + a) (hσ2 : c.integer - c.ub + a ≤ 103)
    (hx : isF32 x = true) (henv : |x| < pow2 24 * c.qs) : qlinearF t c x = qlinear t c x := by
  have hqs : c.qs = pow2 (c.integer - c.ub + a) := by
    unfold LinCfg.qs
    rcases ha with ⟨h1, h2⟩ | h1
    · rw [h1, h2]; simp
    · rw [h1, pow2_add]; simp [mul_comm]
  have hqsF : c.qsF = pow2 (c.integer - c.ub + a) := by
    unfold LinCfg.qsF
    rcases ha with ⟨h1, h2⟩ | h1
    · rw [h1, h2]; simp
    · rw [h1]; exact qsF_eq ha1 ha2 hσ1 hσ2
  rw [hqs] at henv
  have hs0 := pow2_pos (c.integer - c.ub + a)
  have ho : |x / pow2 (c.integer - c.ub + a)| < pow2 128 := by
    rw [abs_div, abs_of_pos hs0, div_lt_iff₀ hs0]
    have : pow2 24 * pow2 (c.integer - c.ub + a) ≤ pow2 128 * pow2 (c.integer - c.ub + a) :=
      mul_le_mul_of_nonneg_right (pow2_le_pow2 (by norm_num)) hs0.le
    linarith
  obtain ⟨hb1, hb2⟩ := rc_bounds t (x / pow2 (c.integer - c.ub + a)) c.lo_le_hi
  have hC := c.code_abs_le hub24 hb1 hb2
  rw [qlinear_eq_sq t c hsf, hqs]
  unfold qlinearF
  dsimp only
  rw [hqsF, clipLoF_eq hub hub24, clipHiF_eq hub hub24]
  have e1 : ((if c.keepNeg then -twoPow c.ub + (if c.symmetric then 1 else 0) else 0 : ℤ)) = c.lo := rfl
  have e2 : (twoPow c.ub - 1 : ℤ) = c.hi := rfl
  rw [e1, e2]
  rw [linear_codeF t hx _ ho c.lo_nonpos c.hi_nonneg
    (c.code_abs_le hub24 le_rfl c.lo_le_hi) (c.code_abs_le hub24 c.lo_le_hi le_rfl)]
  have hxq := isF32_int_mul_pow2 hC hσ1 hσ2
  have hmul : fmul ((rc t (x / pow2 (c.integer - c.ub + a)) c.lo c.hi : ℤ) : ℚ)
      (pow2 (c.integer - c.ub + a))
      = ((rc t (x / pow2 (c.integer - c.ub + a)) c.lo c.hi : ℤ) : ℚ) * pow2 (c.integer - c.ub + a) := by
    unfold fmul; exact rnd32_of_isF32 hxq
  rw [hmul]
  exact steF'_eq hxq (sq_resid_isF32 t hx hσ1 c.lo_nonpos c.hi_nonneg henv)


/-! ### quantized_relu (plain) -/

theorem ulpExp_ge_of_one_le {q : ℚ} (h : 1 ≤ |q|) : -23 ≤ ulpExp q := by
  have hq : 0 < |q| := by linarith
  have h0 : (0 : ℤ) ≤ floorLog2Rat |q| := floorLog2Rat_ge hq (by rw [pow2_zero]; exact h)
  have := ulpExp_ge' q
  omega

/-- `round(p)` of a float32-scaled binary32 input is binary32 -/
theorem roundTie_scaled_isF32 (t : Tie) {x : ℚ} (h : isF32 x = true) (k : ℤ)
    (h128 : |x * pow2 k| < pow2 128) : isF32 ((roundTie t (x * pow2 k) : ℤ) : ℚ) = true := by
  rcases rnd32_scale_cases h k h128 with ⟨h1, _⟩ | ⟨h1, _, _⟩
  · exact roundTie_isF32 t h1
  · rw [roundTie_small t (lt_trans h1 pow2_m125_lt_half)]; simpa using isF32_zero

/-- dividing a binary32 integer by `2^n` is exact (it cannot underflow) -/
theorem int_div_pow2F {R : ℤ} (hR : isF32 (R : ℚ) = true) {n : ℤ} (h0 : 0 ≤ n) (h1 : n ≤ 100) :
    fdiv (R : ℚ) (pow2 n) = (R : ℚ) * pow2 (-n) := by
  unfold fdiv
  have e : (R : ℚ) / pow2 n = (R : ℚ) * pow2 (-n) := by rw [pow2_neg]; ring
  rw [e]
  by_cases h : R = 0
  · rw [h]; simp [rnd32_zero]
  have hone : (1 : ℚ) ≤ |(R : ℚ)| := by
    rw [← Int.cast_abs]
    have : 1 ≤ |R| := Int.one_le_abs h
    exact_mod_cast this
  apply rnd32_mul_pow2 hR
  · have := ulpExp_ge_of_one_le hone; omega
  · rw [abs_mul, abs_of_pos (pow2_pos _)]
    have h2 : pow2 (-n) ≤ 1 := by have := pow2_le_pow2 (by omega : -n ≤ 0); rwa [pow2_zero] at this
    have h3 := isF32_abs_lt hR
    have : |(R : ℚ)| * pow2 (-n) ≤ |(R : ℚ)| * 1 := mul_le_mul_of_nonneg_left h2 (abs_nonneg _)
    linarith

theorem tp_mul_pow2_neg {n : ℤ} (h0 : 0 ≤ n) : ((tp n : ℤ) : ℚ) * pow2 (-n) = 1 := by
  rw [tp_cast h0, ← pow2_add]; simp [pow2_zero]

/-- the upper clip bound `1.0 - 1.0 / m` -/
theorem reluHiF_eq {n : ℤ} (h0 : 0 ≤ n) (h24 : n ≤ 24) :
    fsub 1 (fdiv 1 (pow2 n)) = ((twoPow n - 1 : ℤ) : ℚ) * pow2 (-n) := by
  have h1 := tp_le_24 h24
  have h2 := tp_ge_one n
  unfold fsub fdiv
  have e : (1 : ℚ) / pow2 n = pow2 (-n) := by rw [pow2_neg]
  rw [e, rnd32_of_isF32 (isF32_pow2 (by omega) (by omega)), twoPow_eq_tp]
  have e2 : (1 : ℚ) - pow2 (-n) = ((tp n - 1 : ℤ) : ℚ) * pow2 (-n) := by
    push_cast; rw [sub_mul, tp_mul_pow2_neg h0]; ring
  rw [e2]
  exact rnd32_of_isF32 (isF32_int_mul_pow2 (by rw [abs_le]; constructor <;> omega) (by omega) (by omega))

theorem ite_scale (a b u v : ℚ) {w : ℚ} (hw : 0 < w) :
    (if b * w < a * w then u * w else v * w) = (if b < a then u else v) * w := by
  by_cases hb : b < a
  · rw [if_pos (mul_lt_mul_of_pos_right hb hw), if_pos hb]
  · rw [if_neg (not_lt.mpr (mul_le_mul_of_nonneg_right (not_lt.mp hb) hw.le)), if_neg hb]

theorem fclip_scale (a l h : ℚ) {w : ℚ} (hw : 0 < w) :
    fclip (a * w) (l * w) (h * w) = fclip a l h * w := by
  unfold fclip
  dsimp only
  rw [ite_scale a h h a hw, ite_scale l _ l _ hw]

/-- the saturation value `m_i - m_f` -/
theorem reluTopF_eq {n i : ℤ} (h0 : 0 ≤ n) (h24 : n ≤ 24) (hs1 : -149 ≤ i - n) (hs2 : i - n ≤ 103) :
    fsub (pow2 i) (pow2 (i - n)) = ((twoPow n - 1 : ℤ) : ℚ) * pow2 (i - n) ∧
      isF32 (((twoPow n - 1 : ℤ) : ℚ) * pow2 (i - n)) = true := by
  have h1 := tp_le_24 h24
  have h2 := tp_ge_one n
  have hf := isF32_int_mul_pow2 (n := twoPow n - 1) (g := i - n)
    (by rw [twoPow_eq_tp, abs_le]; constructor <;> omega) hs1 hs2
  refine ⟨?_, hf⟩
  unfold fsub
  have e : pow2 i - pow2 (i - n) = ((twoPow n - 1 : ℤ) : ℚ) * pow2 (i - n) := by
    have : pow2 i = ((tp n : ℤ) : ℚ) * pow2 (i - n) := by
      rw [tp_cast h0, ← pow2_add]; congr 1; ring
    rw [twoPow_eq_tp]; push_cast; rw [this]; ring
  rw [e, rnd32_of_isF32 hf]

/-- float32 plain `quantized_relu` equals the exact model for EVERY binary32 input (only absence
    of overflow in `x * m` and `x * m / m_i` is assumed): saturation is handled by `x_u`, so no
    `2^24`-steps envelope is needed. -/
theorem qreluF_eq (t : Tie) (c : ReluCfg) (x : ℚ) (hsl : c.slopeLog = none)
    (hn0 : 0 ≤ c.nsb) (hn24 : c.nsb ≤ 24) (hs1 : -100 ≤ c.integer - c.nsb) (hi2 : c.integer ≤ 100)
    (hx : isF32 x = true) (ho1 : |x * pow2 c.nsb| < pow2 128) (ho2 : |x / c.step| < pow2 128) :
    qreluF t c x = qrelu t c x := by
  have hstep : c.step = pow2 (c.integer - c.nsb) := rfl
  rw [hstep] at ho2
  have hs0 := pow2_pos (c.integer - c.nsb)
  have hq : qrelu t c x = ((rc t (x / pow2 (c.integer - c.nsb)) 0 c.hi : ℤ) : ℚ)
      * pow2 (c.integer - c.nsb) := by
    rw [qrelu_plain_eq_sq t c hsl]; unfold sq; rw [hstep]; ring
  obtain ⟨hb1, hb2⟩ := rc_bounds t (x / pow2 (c.integer - c.nsb)) c.zero_le_hi
  have hhi24 : c.hi + 1 ≤ 2 ^ 24 := by
    have := tp_le_24 hn24; unfold ReluCfg.hi; rw [twoPow_eq_tp]; omega
  have hC : |rc t (x / pow2 (c.integer - c.nsb)) 0 c.hi| ≤ 2 ^ 24 := by
    rw [abs_le]; constructor <;> omega
  obtain ⟨htop, htopF⟩ := reluTopF_eq (i := c.integer) hn0 hn24 (by omega) (by omega)
  have e2 : (twoPow c.nsb - 1 : ℤ) = c.hi := rfl
  rw [e2] at htop htopF
  -- the code computed in float32
  have eP : x / pow2 (c.integer - c.nsb) = (x * pow2 c.nsb) * pow2 (-c.integer) := by
    rw [pow2_sub, pow2_neg]; field_simp [pow2_ne_zero]
  have hu' : -149 ≤ ulpExp x + c.nsb := by have := ulpExp_ge x; omega
  have haF := isF32_mul_pow2 hx c.nsb hu' ho1
  have hRF : isF32 ((roundTie t (x / pow2 (c.integer - c.nsb)) : ℤ) : ℚ) = true := by
    rw [eP]; exact roundTie_scaled_isF32 t haF _ (by rw [← eP]; exact ho2)
  have hp : pow2 (c.integer - c.nsb) = pow2 c.integer * pow2 (-c.nsb) := by
    rw [← pow2_add]; congr 1
  have hxqF : isF32 (((rc t (x / pow2 (c.integer - c.nsb)) 0 c.hi : ℤ) : ℚ)
      * pow2 (c.integer - c.nsb)) = true := isF32_int_mul_pow2 hC (by omega) (by omega)
  have hxq : fmul (pow2 c.integer)
      (fclip (fdiv (roundThroughF t (fdiv (fmul x (pow2 c.nsb)) (pow2 c.integer))) (pow2 c.nsb)) 0
        (fsub 1 (fdiv 1 (pow2 c.nsb))))
      = ((rc t (x / pow2 (c.integer - c.nsb)) 0 c.hi : ℤ) : ℚ) * pow2 (c.integer - c.nsb) := by
    rw [pF_roundThrough t hx hn0 ho1 ho2]
    rw [int_div_pow2F hRF hn0 (by omega), reluHiF_eq hn0 hn24, e2]
    have z : (0 : ℚ) = ((0 : ℤ) : ℚ) * pow2 (-c.nsb) := by simp
    rw [z, fclip_scale _ _ _ (pow2_pos _), fclip_int c.zero_le_hi]
    have e3 : iclip (roundTie t (x / pow2 (c.integer - c.nsb))) 0 c.hi
        = rc t (x / pow2 (c.integer - c.nsb)) 0 c.hi := rfl
    rw [e3]
    unfold fmul
    have e4 : pow2 c.integer * (((rc t (x / pow2 (c.integer - c.nsb)) 0 c.hi : ℤ) : ℚ) * pow2 (-c.nsb))
        = ((rc t (x / pow2 (c.integer - c.nsb)) 0 c.hi : ℤ) : ℚ) * pow2 (c.integer - c.nsb) := by
      generalize ((rc t (x / pow2 (c.integer - c.nsb)) 0 c.hi : ℤ) : ℚ) = C
      rw [hp]; ring
    rw [e4]
    exact rnd32_of_isF32 hxqF
  rw [hq]
  unfold qreluF
  dsimp only
  rw [hxq, htop]
  by_cases hle : x ≤ (c.hi : ℚ) * pow2 (c.integer - c.nsb)
  · rw [if_pos hle]
    by_cases hneg : x < 0
    · rw [if_pos hneg]
      have : rc t (x / pow2 (c.integer - c.nsb)) 0 c.hi = 0 := by
        apply rc_sat_lo t c.zero_le_hi
        push_cast
        exact (div_neg_of_neg_of_pos hneg hs0).le
      rw [this]; simp only [Int.cast_zero, zero_mul]
      exact steF_eq isF32_zero (by simpa using isF32_zero)
    · rw [if_neg hneg]
      push Not at hneg
      apply steF_eq hxqF
      apply sq_resid_isF32 t hx (by omega) le_rfl c.zero_le_hi
      rw [abs_of_nonneg hneg]
      have : (c.hi : ℚ) + 1 ≤ pow2 24 := by rw [pow2_24]; exact_mod_cast hhi24
      nlinarith
  · rw [if_neg hle]
    push Not at hle
    have hsat : rc t (x / pow2 (c.integer - c.nsb)) 0 c.hi = c.hi := by
      apply rc_sat_hi t c.zero_le_hi
      rw [le_div_iff₀ hs0]; exact hle.le
    rw [hsat]
    have e5 : fmul 1 ((c.hi : ℚ) * pow2 (c.integer - c.nsb)) = (c.hi : ℚ) * pow2 (c.integer - c.nsb) := by
      unfold fmul; rw [one_mul]; exact rnd32_of_isF32 htopF
    rw [e5]
    exact steF_eq htopF (by rw [sub_self]; exact isF32_zero)

end QKV
