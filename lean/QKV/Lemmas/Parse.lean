/-
  QKV.Lemmas.Parse — facts about the safe_eval model used by Props/C10:
  splitting, one-item matching, literal classification.
-/
import Mathlib.Tactic
import QKV.Model.Print
namespace QKV.Py

/-! ### characters -/

theorem keyChar_iff {c : Char} : keyChar c = true ↔
    c ≠ '=' ∧ c ≠ ',' ∧ c ≠ ')' ∧ isReSpace c = false := by
  simp [keyChar, and_assoc]

theorem isWs_of_not_reSpace {c : Char} (h : isReSpace c = false) : isWs c = false := by
  simp only [isReSpace, Bool.or_eq_false_iff] at h
  exact h.1.1.1

theorem keyChar_not_ws {c : Char} (h : keyChar c = true) : isWs c = false :=
  isWs_of_not_reSpace (keyChar_iff.1 h).2.2.2

theorem keyChar_ne_space {c : Char} (h : keyChar c = true) : c ≠ ' ' := by
  rintro rfl
  have := keyChar_not_ws h
  simp [isWs] at this

theorem isDig_keyChar {c : Char} (h : isDig c = true) : keyChar c = true := by
  simp only [isDig, Bool.and_eq_true, decide_eq_true_eq] at h
  rw [keyChar_iff]
  refine ⟨?_, ?_, ?_, ?_⟩
  · rintro rfl; revert h; decide
  · rintro rfl; revert h; decide
  · rintro rfl; revert h; decide
  · simp only [isReSpace, isWs, Bool.or_eq_false_iff, Bool.and_eq_false_iff, beq_eq_false_iff_ne,
      decide_eq_false_iff_not, not_le]
    refine ⟨⟨⟨⟨⟨⟨?_, ?_⟩, ?_⟩, ?_⟩, ?_⟩, ?_⟩, ?_⟩
    · rintro rfl; revert h; decide
    · rintro rfl; revert h; decide
    · rintro rfl; revert h; decide
    · rintro rfl; revert h; decide
    · rintro rfl; revert h; decide
    · rintro rfl; revert h; decide
    · right; omega

theorem isDig_ne {c d : Char} (h : isDig c = true) (hd : isDig d = false) : c ≠ d := by
  rintro rfl; rw [h] at hd; cases hd

/-! ### lists -/

theorem dropWhile_head_false {α : Type} (p : α → Bool) (a : α) (t : List α) (h : p a = false) :
    (a :: t).dropWhile p = a :: t := by
  simp [List.dropWhile, h]

theorem takeWhile_all_append {α : Type} (p : α → Bool) (l r : List α) (h : ∀ c ∈ l, p c = true) :
    (l ++ r).takeWhile p = l ++ r.takeWhile p := by
  induction l with
  | nil => rfl
  | cons a t ih =>
    have ha := h a List.mem_cons_self
    simp only [List.cons_append, List.takeWhile, ha]
    rw [ih fun c hc => h c (List.mem_cons_of_mem _ hc)]

theorem dropWhile_all_append {α : Type} (p : α → Bool) (l r : List α) (h : ∀ c ∈ l, p c = true) :
    (l ++ r).dropWhile p = r.dropWhile p := by
  induction l with
  | nil => rfl
  | cons a t ih =>
    have ha := h a List.mem_cons_self
    simp only [List.cons_append, List.dropWhile, ha]
    exact ih fun c hc => h c (List.mem_cons_of_mem _ hc)

theorem splitOnChar_not_mem (sep : Char) (l : List Char) (h : sep ∉ l) :
    splitOnChar sep l = [l] := by
  induction l with
  | nil => rfl
  | cons a t ih =>
    simp only [List.mem_cons, not_or] at h
    have h1 : (a == sep) = false := by simpa using fun e => h.1 e.symm
    simp only [splitOnChar, h1, ih h.2]
    rfl

theorem splitOnChar_append (sep : Char) (n b : List Char) (h : sep ∉ n) :
    splitOnChar sep (n ++ sep :: b) = n :: splitOnChar sep b := by
  induction n with
  | nil => simp [splitOnChar]
  | cons a t ih =>
    simp only [List.mem_cons, not_or] at h
    have h1 : (a == sep) = false := by simpa using fun e => h.1 e.symm
    simp only [List.cons_append, splitOnChar, h1, ih h.2]
    rfl

/-! ### bracketed number lists: the scanner and the segment splitter -/

theorem dropWhile_append_of_ne {α : Type} (p : α → Bool) (l r : List α) (h : l.dropWhile p ≠ []) :
    (l ++ r).dropWhile p = l.dropWhile p ++ r := by
  induction l with
  | nil => exact absurd rfl h
  | cons a t ih =>
    cases ha : p a with
    | true =>
      simp only [List.cons_append, List.dropWhile, ha] at h ⊢
      exact ih h
    | false => simp [List.dropWhile, ha]

theorem dropWhile_ne_nil_of_mem {α : Type} (p : α → Bool) (l : List α) (a : α) (ha : a ∈ l)
    (hp : p a = false) : l.dropWhile p ≠ [] := by
  induction l with
  | nil => cases ha
  | cons b t ih =>
    cases hb : p b with
    | false => simp [List.dropWhile, hb]
    | true =>
      simp only [List.dropWhile, hb]
      rcases List.mem_cons.1 ha with rfl | h
      · rw [hp] at hb; cases hb
      · exact ih h

theorem mem_of_closesList {u : List Char} (h : closesList u = true) : ']' ∈ u := by
  unfold closesList at h
  have hm : ']' ∈ u.dropWhile numListChar := by
    cases hd : u.dropWhile numListChar with
    | nil => rw [hd] at h; simp at h
    | cons a t =>
      rw [hd] at h
      simp only [List.head?_cons, beq_iff_eq, Option.some.injEq] at h
      subst h; exact List.mem_cons_self
  exact (List.dropWhile_sublist numListChar).subset hm

theorem closesList_append {u r : List Char} (h : u.dropWhile numListChar ≠ []) :
    closesList (u ++ r) = closesList u := by
  unfold closesList
  rw [dropWhile_append_of_ne _ _ _ h, List.head?_append_of_ne_nil _ h]

/-- no `[` of the text opens a number list that could run beyond the text: after every `[`
    some character of the text is not a number-list character -/
def Closed : List Char → Prop
  | [] => True
  | c :: t => (c = '[' → t.dropWhile numListChar ≠ []) ∧ Closed t

theorem Closed_of_no_bracket {t : List Char} (h : '[' ∉ t) : Closed t := by
  induction t with
  | nil => trivial
  | cons c u ih =>
    simp only [List.mem_cons, not_or] at h
    exact ⟨fun e => absurd e.symm h.1, ih h.2⟩

theorem Closed_append_last (t : List Char) (q : Char) (hq : numListChar q = false) (hq' : q ≠ '[') :
    Closed (t ++ [q]) := by
  induction t with
  | nil => exact ⟨fun e => absurd e hq', trivial⟩
  | cons c u ih =>
    refine ⟨fun _ => ?_, ih⟩
    exact dropWhile_ne_nil_of_mem _ _ q (by simp) hq

theorem scanTok_true (p : Char → Bool) (c : Char) (t : List Char) :
    scanTok p true (c :: t) = (c :: (scanTok p (c != ']') t).1, (scanTok p (c != ']') t).2) := by
  rw [scanTok]

theorem scanTok_false (p : Char → Bool) (c : Char) (t : List Char) :
    scanTok p false (c :: t) =
      if (c == '[' && closesList t) = true then (c :: (scanTok p true t).1, (scanTok p true t).2)
      else if p c = true then (c :: (scanTok p false t).1, (scanTok p false t).2)
      else ([], c :: t) := by
  rw [scanTok]

/-- the scanner runs through a text whose characters all belong to the class and whose
    brackets are closed inside it -/
theorem scanTok_plain (p : Char → Bool) (r : List Char) :
    ∀ (t : List Char), (∀ c ∈ t, p c = true) → Closed t → ∀ b : Bool, (b = true → ']' ∈ t) →
      scanTok p b (t ++ r) = (t ++ (scanTok p false r).1, (scanTok p false r).2) := by
  intro t
  induction t with
  | nil =>
    intro _ _ b hb
    cases b with
    | true => exact absurd (hb rfl) (by simp)
    | false => simp
  | cons c u ih =>
    intro hp hc b hb
    have hpu : ∀ d ∈ u, p d = true := fun d hd => hp d (List.mem_cons_of_mem _ hd)
    cases b with
    | true =>
      rw [List.cons_append, scanTok_true]
      by_cases hcc : c = ']'
      · subst hcc
        rw [show ((']' : Char) != ']') = false by decide, ih hpu hc.2 false (by simp)]
        try rfl
      · have hne : (c != ']') = true := by simpa using hcc
        have hmem : ']' ∈ u := by
          rcases List.mem_cons.1 (hb rfl) with h | h
          · exact absurd h.symm hcc
          · exact h
        rw [hne, ih hpu hc.2 true (fun _ => hmem)]
        try rfl
    | false =>
      rw [List.cons_append, scanTok_false]
      by_cases hg : (c == '[' && closesList (u ++ r)) = true
      · rw [if_pos hg]
        simp only [Bool.and_eq_true, beq_iff_eq] at hg
        have hd := hc.1 hg.1
        have hmem : ']' ∈ u := mem_of_closesList (by rw [← closesList_append hd]; exact hg.2)
        rw [ih hpu hc.2 true (fun _ => hmem)]
        try rfl
      · rw [if_neg hg, if_pos (hp c List.mem_cons_self), ih hpu hc.2 false (by simp)]
        try rfl

theorem scanTok_inList (p : Char → Bool) (inner r : List Char) (h : ∀ c ∈ inner, c ≠ ']') :
    scanTok p true (inner ++ ']' :: r) =
      (inner ++ ']' :: (scanTok p false r).1, (scanTok p false r).2) := by
  induction inner with
  | nil => simp [scanTok_true]
  | cons c u ih =>
    have hne : (c != ']') = true := by simpa using h c List.mem_cons_self
    rw [List.cons_append, scanTok_true, hne, ih fun d hd => h d (List.mem_cons_of_mem _ hd)]
    try rfl

theorem numListChar_ne_close {c : Char} (h : numListChar c = true) : c ≠ ']' := by
  rintro rfl; revert h; decide

theorem closesList_inner (inner r : List Char) (h : ∀ c ∈ inner, numListChar c = true) :
    closesList (inner ++ ']' :: r) = true := by
  unfold closesList
  rw [dropWhile_all_append _ _ _ h]
  simp [List.dropWhile, show numListChar ']' = false by decide]

theorem scanTok_list (p : Char → Bool) (inner r : List Char)
    (h : ∀ c ∈ inner, numListChar c = true) :
    scanTok p false ('[' :: (inner ++ ']' :: r)) =
      ('[' :: (inner ++ ']' :: (scanTok p false r).1), (scanTok p false r).2) := by
  rw [scanTok_false, if_pos (by simp [closesList_inner inner r h]),
    scanTok_inList p inner r fun c hc => numListChar_ne_close (h c hc)]

theorem splitBody_true (c : Char) (cs : List Char) :
    splitBody true (c :: cs) = consSeg c (splitBody (c != ']') cs) := by
  rw [splitBody]

theorem splitBody_false (c : Char) (cs : List Char) :
    splitBody false (c :: cs) =
      if (c == '[' && closesList cs) = true then consSeg c (splitBody true cs)
      else if (c == ')') = true then some [[]]
      else stepSeg c (splitBody false cs) := by
  rw [splitBody]

/-- a text passes through the splitter as (part of) one segment -/
def SplitOK (t : List Char) : Prop :=
  ∀ r s ss, splitBody false r = some (s :: ss) → splitBody false (t ++ r) = some ((t ++ s) :: ss)

theorem splitBody_plain (r s : List Char) (ss : List (List Char))
    (hr : splitBody false r = some (s :: ss)) :
    ∀ (t : List Char), (∀ c ∈ t, c ≠ ',' ∧ c ≠ ')') → Closed t → ∀ b : Bool, (b = true → ']' ∈ t) →
      splitBody b (t ++ r) = some ((t ++ s) :: ss) := by
  intro t
  induction t with
  | nil =>
    intro _ _ b hb
    cases b with
    | true => exact absurd (hb rfl) (by simp)
    | false => simpa using hr
  | cons c u ih =>
    intro hp hc b hb
    have hpu : ∀ d ∈ u, d ≠ ',' ∧ d ≠ ')' := fun d hd => hp d (List.mem_cons_of_mem _ hd)
    cases b with
    | true =>
      rw [List.cons_append, splitBody_true]
      by_cases hcc : c = ']'
      · subst hcc
        rw [show ((']' : Char) != ']') = false by decide, ih hpu hc.2 false (by simp)]
        rfl
      · have hne : (c != ']') = true := by simpa using hcc
        have hmem : ']' ∈ u := by
          rcases List.mem_cons.1 (hb rfl) with h | h
          · exact absurd h.symm hcc
          · exact h
        rw [hne, ih hpu hc.2 true (fun _ => hmem)]
        rfl
    | false =>
      rw [List.cons_append, splitBody_false]
      by_cases hg : (c == '[' && closesList (u ++ r)) = true
      · rw [if_pos hg]
        simp only [Bool.and_eq_true, beq_iff_eq] at hg
        have hd := hc.1 hg.1
        have hmem : ']' ∈ u := mem_of_closesList (by rw [← closesList_append hd]; exact hg.2)
        rw [ih hpu hc.2 true (fun _ => hmem)]
        rfl
      · obtain ⟨h1, h2⟩ := hp c List.mem_cons_self
        have e1 : (c == ')') = false := by simpa using h2
        have e2 : (c == ',') = false := by simpa using h1
        rw [if_neg hg, e1, ih hpu hc.2 false (by simp)]
        simp [stepSeg, e2]

theorem SplitOK_plain {t : List Char} (h : ∀ c ∈ t, c ≠ ',' ∧ c ≠ ')') (hc : Closed t) : SplitOK t :=
  fun r s ss hr => splitBody_plain r s ss hr t h hc false (by simp)

theorem splitBody_inList (inner r s : List Char) (ss : List (List Char))
    (h : ∀ c ∈ inner, c ≠ ']') (hr : splitBody false r = some (s :: ss)) :
    splitBody true (inner ++ ']' :: r) = some ((inner ++ ']' :: s) :: ss) := by
  induction inner with
  | nil =>
    simp only [List.nil_append, splitBody_true, show ((']' : Char) != ']') = false by decide, hr]
    rfl
  | cons c u ih =>
    have hne : (c != ']') = true := by simpa using h c List.mem_cons_self
    rw [List.cons_append, splitBody_true, hne, ih fun d hd => h d (List.mem_cons_of_mem _ hd)]
    rfl

theorem SplitOK_list (inner : List Char) (h : ∀ c ∈ inner, numListChar c = true) :
    SplitOK ('[' :: (inner ++ [']'])) := by
  intro r s ss hr
  have e : ('[' :: (inner ++ [']'])) ++ r = '[' :: (inner ++ ']' :: r) := by simp
  have e' : ('[' :: (inner ++ [']'])) ++ s = '[' :: (inner ++ ']' :: s) := by simp
  rw [e, e', splitBody_false, if_pos (by simp [closesList_inner inner r h]),
    splitBody_inList inner r s ss (fun c hc => numListChar_ne_close (h c hc)) hr]
  rfl

theorem SplitOK.append {a b : List Char} (ha : SplitOK a) (hb : SplitOK b) : SplitOK (a ++ b) := by
  intro r s ss hr
  rw [List.append_assoc, List.append_assoc]
  exact ha _ _ _ (hb r s ss hr)

theorem SplitOK_eq : SplitOK ['='] := by
  intro r s ss hr
  simp only [List.cons_append, List.nil_append, splitBody_false, hr]
  rfl

theorem splitBody_close (t rest : List Char) (ht : SplitOK t) :
    splitBody false (t ++ ')' :: rest) = some [t] := by
  have := ht (')' :: rest) [] [] (by rw [splitBody_false]; rfl)
  simpa using this

theorem splitBody_comma (t r s : List Char) (ss : List (List Char))
    (ht : SplitOK t) (hr : splitBody false r = some (s :: ss)) :
    splitBody false (t ++ ',' :: r) = some (t :: s :: ss) := by
  have := ht (',' :: r) [] (s :: ss) (by rw [splitBody_false, hr]; rfl)
  simpa using this

theorem splitBody_join (ts : List (List Char)) (rest : List Char)
    (h : ∀ t ∈ ts, SplitOK t) (hne : ts ≠ []) :
    splitBody false (joinComma ts ++ ')' :: rest) = some ts := by
  induction ts with
  | nil => exact absurd rfl hne
  | cons a u ih =>
    cases u with
    | nil => simpa [joinComma] using splitBody_close a rest (h a List.mem_cons_self)
    | cons b v =>
      have ih' := ih (fun t ht => h t (List.mem_cons_of_mem _ ht)) (by simp)
      simp only [joinComma, List.append_assoc, List.cons_append]
      exact splitBody_comma a _ b v (h a List.mem_cons_self) ih'

/-! ### one item -/

/-- characters that may appear in a positional token, none of them an opening parenthesis -/
def TokText (t : List Char) : Prop := ∀ c ∈ t, keyChar c = true ∧ c ≠ '('

theorem TokText.append {a b : List Char} (ha : TokText a) (hb : TokText b) : TokText (a ++ b) := by
  intro c hc
  rcases List.mem_append.1 hc with h | h
  · exact ha c h
  · exact hb c h

theorem TokText.cons {a : Char} {b : List Char} (ha : keyChar a = true ∧ a ≠ '(') (hb : TokText b) :
    TokText (a :: b) := by
  intro c hc
  rcases List.mem_cons.1 hc with rfl | h
  · exact ha
  · exact hb c h

theorem TokText.noSep {t : List Char} (h : TokText t) : ∀ c ∈ t, c ≠ ',' ∧ c ≠ ')' := fun c hc =>
  ⟨(keyChar_iff.1 (h c hc).1).2.1, (keyChar_iff.1 (h c hc).1).2.2.1⟩

/-- the key scanner runs through the text (and continues behind it) -/
def ScanOK (t : List Char) : Prop :=
  ∀ r, scanTok keyChar false (t ++ r) =
    (t ++ (scanTok keyChar false r).1, (scanTok keyChar false r).2)

theorem ScanOK_plain {t : List Char} (h : TokText t) (hc : Closed t) : ScanOK t :=
  fun r => scanTok_plain keyChar r t (fun c hc' => (h c hc').1) hc false (by simp)

theorem ScanOK_list (inner : List Char) (h : ∀ c ∈ inner, numListChar c = true) :
    ScanOK ('[' :: (inner ++ [']'])) := by
  intro r
  have e : ('[' :: (inner ++ [']'])) ++ r = '[' :: (inner ++ ']' :: r) := by simp
  rw [e, scanTok_list keyChar inner r h]
  simp

theorem scanTok_stop (p : Char → Bool) (c : Char) (v : List Char) (h1 : c ≠ '[') (h2 : p c = false) :
    scanTok p false (c :: v) = ([], c :: v) := by
  have e : (c == '[' && closesList v) = false := by simp [h1]
  rw [scanTok_false, e, h2]
  simp

theorem parseSeg_pos (t : List Char) (hs : ScanOK t) (hne : t ≠ [])
    (hw : ∀ c, t.head? = some c → isWs c = false) :
    parseSeg t = some (.pos t) := by
  obtain ⟨a, u, rfl⟩ := List.exists_cons_of_ne_nil hne
  have hws : isWs a = false := hw a rfl
  have hsc : scanTok keyChar false (a :: u) = (a :: u, []) := by
    have := hs []
    simpa [scanTok] using this
  unfold parseSeg
  simp only [dropWhile_head_false isWs a u hws, hsc]
  rfl

theorem parseSeg_kw (k v : List Char) (hk : ScanOK k) (hne : k ≠ [])
    (hw : ∀ c, k.head? = some c → isWs c = false)
    (hv : v = [] ∨ ∃ a u, v = a :: u ∧ isWs a = false) :
    parseSeg (k ++ '=' :: v) = some (.kw k v) := by
  obtain ⟨a, u, rfl⟩ := List.exists_cons_of_ne_nil hne
  have hws : isWs a = false := hw a rfl
  have hsc : scanTok keyChar false ((a :: u) ++ '=' :: v) = (a :: u, '=' :: v) := by
    rw [hk ('=' :: v), scanTok_stop keyChar '=' v (by decide) (by decide)]
    simp
  have h0 : ((a :: u) ++ '=' :: v).dropWhile isWs = (a :: u) ++ '=' :: v := by
    simp only [List.cons_append]; exact dropWhile_head_false isWs a _ hws
  have hweq : isWs '=' = false := by decide
  have hv' : v.dropWhile isWs = v := by
    rcases hv with rfl | ⟨b, w, rfl, hb⟩
    · rfl
    · exact dropWhile_head_false isWs b w hb
  unfold parseSeg
  simp only [h0, hsc, dropWhile_head_false isWs '=' v hweq, hv']
  simp

/-! ### literal text -/

theorem allDigits_iff {ds : List Char} : allDigits ds = true ↔ ds ≠ [] ∧ ∀ c ∈ ds, isDig c = true := by
  cases ds <;> simp [allDigits]

theorem isDig_tok {c : Char} (h : isDig c = true) : keyChar c = true ∧ c ≠ '(' :=
  ⟨isDig_keyChar h, by rintro rfl; revert h; decide⟩

theorem digits_tok {ds : List Char} (h : ∀ c ∈ ds, isDig c = true) : TokText ds :=
  fun c hc => isDig_tok (h c hc)

theorem signText_tok (neg : Bool) : TokText (signText neg) := by
  cases neg <;> simp only [signText] <;> intro c hc
  · cases hc
  · simp only [if_true, List.mem_singleton] at hc ⊢
    subst hc; decide

/-- the literal is a bracketed list -/
def Lit.isList : Lit → Bool
  | .list _ => true
  | .blist _ _ => true
  | _ => false

theorem Lit.text_tok (l : Lit) (h : l.rd = true) (hl : l.isList = false) :
    TokText l.text ∧ l.text ≠ [] := by
  cases l with
  | list ns => cases hl
  | blist pre ns => cases hl
  | none => exact ⟨by unfold TokText Lit.text; decide, by decide⟩
  | bool b => cases b <;> exact ⟨by unfold TokText Lit.text; decide, by decide⟩
  | int neg ds =>
    simp only [Lit.rd, NumLit.rd] at h
    obtain ⟨hne, hd⟩ := allDigits_iff.1 h
    refine ⟨(signText_tok neg).append (digits_tok hd), ?_⟩
    simp [Lit.text, hne]
  | float neg ip fp ex =>
    simp only [Lit.rd, NumLit.rd, Bool.and_eq_true] at h
    obtain ⟨⟨hip, hfp⟩, hex⟩ := h
    obtain ⟨hine, hid⟩ := allDigits_iff.1 hip
    have hfd : ∀ c ∈ fp, isDig c = true := fun c hc => List.all_eq_true.1 hfp c hc
    refine ⟨?_, by simp [Lit.text]⟩
    simp only [Lit.text]
    have hdot : keyChar '.' = true ∧ '.' ≠ '(' := by decide
    have he : keyChar 'e' = true ∧ 'e' ≠ '(' := by decide
    refine (signText_tok neg).append ((digits_tok hid).append (TokText.cons hdot ?_))
    refine (digits_tok hfd).append ?_
    cases ex with
    | none => intro c hc; cases hc
    | some p =>
      obtain ⟨eneg, ds⟩ := p
      simp only at hex
      exact TokText.cons he ((signText_tok eneg).append (digits_tok (allDigits_iff.1 hex).2))
  | str dq cs =>
    simp only [Lit.rd, List.all_eq_true] at h
    refine ⟨?_, by simp [Lit.text]⟩
    have hq : keyChar (quoteChar dq) = true ∧ quoteChar dq ≠ '(' := by
      cases dq <;> decide
    have hcs : TokText cs := by
      intro c hc
      have := h c hc
      simp only [strChar, Bool.and_eq_true, Bool.not_eq_true', Bool.or_eq_false_iff,
        beq_eq_false_iff_ne] at this
      exact ⟨this.1, this.2.1.1.1⟩
    simp only [Lit.text]
    exact TokText.cons hq (hcs.append (TokText.cons hq (fun c hc => by cases hc)))

/-- characters of a number literal -/
def numTextChar (c : Char) : Bool := isDig c || c == '-' || c == '.' || c == 'e'

theorem numTextChar_facts {c : Char} (h : numTextChar c = true) :
    keyChar c = true ∧ c ≠ '(' ∧ c ≠ '[' ∧ c ≠ ']' ∧ numListChar c = true ∧ isItemSep c = false := by
  simp only [numTextChar, Bool.or_eq_true, beq_iff_eq] at h
  rcases h with ((h | rfl) | rfl) | rfl
  · have hk := isDig_keyChar h
    refine ⟨hk, by rintro rfl; revert h; decide, by rintro rfl; revert h; decide,
      by rintro rfl; revert h; decide, by simp [numListChar, h], ?_⟩
    have := keyChar_iff.1 hk
    simp [isItemSep, this.2.1, this.2.2.2]
  · decide
  · decide
  · decide

theorem mem_signText {neg : Bool} {c : Char} (h : c ∈ signText neg) : c = '-' := by
  cases neg
  · simp [signText] at h
  · simpa [signText] using h

theorem NumLit.text_chars (n : NumLit) (h : n.rd = true) : ∀ c ∈ n.text, numTextChar c = true := by
  have hdig : ∀ {ds : List Char}, (∀ c ∈ ds, isDig c = true) → ∀ c ∈ ds, numTextChar c = true :=
    fun hd c hc => by simp [numTextChar, hd c hc]
  have hsign : ∀ (neg : Bool), ∀ c ∈ signText neg, numTextChar c = true := fun neg c hc => by
    rw [mem_signText hc]; decide
  cases n with
  | int neg ds =>
    simp only [NumLit.rd] at h
    obtain ⟨_, hd⟩ := allDigits_iff.1 h
    intro c hc
    simp only [NumLit.text, List.mem_append] at hc
    rcases hc with hc | hc
    · exact hsign neg c hc
    · exact hdig hd c hc
  | float neg ip fp ex =>
    simp only [NumLit.rd, Bool.and_eq_true] at h
    obtain ⟨⟨hip, hfp⟩, hex⟩ := h
    obtain ⟨_, hid⟩ := allDigits_iff.1 hip
    have hfd : ∀ c ∈ fp, isDig c = true := fun c hc => List.all_eq_true.1 hfp c hc
    intro c hc
    simp only [NumLit.text, List.mem_append, List.mem_cons] at hc
    rcases hc with hc | hc | rfl | hc | hc
    · exact hsign neg c hc
    · exact hdig hid c hc
    · decide
    · exact hdig hfd c hc
    · cases ex with
      | none => cases hc
      | some p =>
        obtain ⟨eneg, ds⟩ := p
        simp only at hex
        simp only [expText, List.mem_cons, List.mem_append] at hc
        rcases hc with rfl | hc | hc
        · decide
        · exact hsign eneg c hc
        · exact hdig (allDigits_iff.1 hex).2 c hc

theorem NumLit.text_ne (n : NumLit) (h : n.rd = true) : n.text ≠ [] := by
  cases n with
  | int neg ds =>
    simp only [NumLit.rd] at h
    simp [NumLit.text, (allDigits_iff.1 h).1]
  | float neg ip fp ex => simp [NumLit.text]

theorem NumLit.toLit_text (n : NumLit) : n.toLit.text = n.text := by cases n <;> rfl
theorem NumLit.toLit_rd (n : NumLit) : n.toLit.rd = n.rd := by cases n <;> rfl
theorem NumLit.toLit_val (n : NumLit) : n.toLit.val = n.num.toVal := by cases n <;> rfl

/-- the text of a non-list literal closes every bracket it opens -/
theorem Lit.text_closed (l : Lit) (h : l.rd = true) (hl : l.isList = false) : Closed l.text := by
  cases l with
  | list ns => cases hl
  | blist pre ns => cases hl
  | none => exact Closed_of_no_bracket (by decide)
  | bool b => cases b <;> exact Closed_of_no_bracket (by decide)
  | int neg ds =>
    refine Closed_of_no_bracket fun hm => ?_
    have := NumLit.text_chars (.int neg ds) h _ hm
    revert this; decide
  | float neg ip fp ex =>
    refine Closed_of_no_bracket fun hm => ?_
    have := NumLit.text_chars (.float neg ip fp ex) h _ hm
    revert this; decide
  | str dq cs =>
    have e : (Lit.str dq cs).text = (quoteChar dq :: cs) ++ [quoteChar dq] := by simp [Lit.text]
    rw [e]
    exact Closed_append_last _ _ (by cases dq <;> decide) (by cases dq <;> decide)

/-- what the call-level lemmas need to know about the text of one literal / identifier -/
structure TokOK (t : List Char) : Prop where
  scan : ScanOK t
  split : SplitOK t
  ne : t ≠ []
  first : ∀ c, t.head? = some c → isReSpace c = false
  last : ∀ c, t.getLast? = some c → isReSpace c = false
  noParen : '(' ∉ t
  noTab : '\t' ∉ t

theorem keyChar_not_reSpace {c : Char} (h : keyChar c = true) : isReSpace c = false :=
  (keyChar_iff.1 h).2.2.2

theorem TokOK_plain {t : List Char} (ht : TokText t) (hne : t ≠ []) (hc : Closed t) : TokOK t where
  scan := ScanOK_plain ht hc
  split := SplitOK_plain ht.noSep hc
  ne := hne
  first := fun c hc' => keyChar_not_reSpace (ht c (List.mem_of_mem_head? hc')).1
  last := fun c hc' => keyChar_not_reSpace (ht c (List.mem_of_getLast? hc')).1
  noParen := fun hm => (ht _ hm).2 rfl
  noTab := fun hm => by
    have := keyChar_not_ws (ht _ hm).1
    simp [isWs] at this

theorem TokOK_list (inner : List Char) (h : ∀ c ∈ inner, numTextChar c = true ∨ c = ',' ∨ c = ' ') :
    TokOK ('[' :: (inner ++ [']'])) := by
  have hl : ∀ c ∈ inner, numListChar c = true := fun c hc => by
    rcases h c hc with h' | rfl | rfl
    · exact (numTextChar_facts h').2.2.2.2.1
    · decide
    · decide
  have hno : ∀ d : Char, d ≠ '[' → d ≠ ']' → d ≠ ',' → d ≠ ' ' → numTextChar d = false →
      d ∉ '[' :: (inner ++ [']']) := by
    intro d h1 h2 h3 h5 h4 hm
    simp only [List.mem_cons, List.mem_append, List.not_mem_nil, or_false] at hm
    rcases hm with rfl | hm | rfl
    · exact h1 rfl
    · rcases h d hm with h' | rfl | rfl
      · rw [h4] at h'; cases h'
      · exact h3 rfl
      · exact h5 rfl
    · exact h2 rfl
  exact {
    scan := ScanOK_list inner hl
    split := SplitOK_list inner hl
    ne := by simp
    first := fun c hc => by
      simp only [List.head?_cons, Option.some.injEq] at hc; subst hc; decide
    last := fun c hc => by
      have : ('[' :: (inner ++ [']'])).getLast? = some ']' := by
        rw [show '[' :: (inner ++ [']']) = ('[' :: inner) ++ [']'] by simp, List.getLast?_append]
        simp
      rw [this] at hc
      simp only [Option.some.injEq] at hc; subst hc; decide
    noParen := hno '(' (by decide) (by decide) (by decide) (by decide) (by decide)
    noTab := hno '\t' (by decide) (by decide) (by decide) (by decide) (by decide) }

theorem mem_joinComma {ts : List (List Char)} {c : Char} (h : c ∈ joinComma ts) :
    c = ',' ∨ ∃ t ∈ ts, c ∈ t := by
  induction ts with
  | nil => cases h
  | cons a u ih =>
    cases u with
    | nil => exact Or.inr ⟨a, List.mem_cons_self, by simpa [joinComma] using h⟩
    | cons b v =>
      simp only [joinComma, List.mem_append, List.mem_cons] at h
      rcases h with h | rfl | h
      · exact Or.inr ⟨a, List.mem_cons_self, h⟩
      · exact Or.inl rfl
      · rcases ih h with rfl | ⟨t, ht, hc⟩
        · exact Or.inl rfl
        · exact Or.inr ⟨t, List.mem_cons_of_mem _ ht, hc⟩

/-- the characters between the brackets of a well-formed list literal -/
theorem listInner_chars (ns : List NumLit) (h : ns.all NumLit.rd = true) :
    ∀ c ∈ joinComma (ns.map NumLit.text), numTextChar c = true ∨ c = ',' := by
  intro c hc
  rcases mem_joinComma hc with rfl | ⟨t, ht, hct⟩
  · exact Or.inr rfl
  · obtain ⟨n, hn, rfl⟩ := List.mem_map.1 ht
    exact Or.inl (NumLit.text_chars n (List.all_eq_true.1 h n hn) c hct)

theorem mem_blanks {k : Nat} {c : Char} (h : c ∈ blanks k) : c = ' ' := by
  unfold blanks at h
  exact (List.mem_replicate.1 h).2

theorem mem_bbody {ns : List (NumLit × Nat)} {c : Char} (h : c ∈ bbody ns) :
    c = ' ' ∨ ∃ p ∈ ns, c ∈ p.1.text := by
  induction ns with
  | nil => cases h
  | cons p t ih =>
    obtain ⟨n, g⟩ := p
    simp only [bbody, List.mem_append] at h
    rcases h with h | h | h
    · exact Or.inr ⟨(n, g), List.mem_cons_self, h⟩
    · exact Or.inl (mem_blanks h)
    · rcases ih h with rfl | ⟨q, hq, hc⟩
      · exact Or.inl rfl
      · exact Or.inr ⟨q, List.mem_cons_of_mem _ hq, hc⟩

/-- the characters between the brackets of a readable blank-separated list -/
theorem blistInner_chars (pre : Nat) (ns : List (NumLit × Nat))
    (h : (ns.all fun p => p.1.rd) = true) :
    ∀ c ∈ blanks pre ++ bbody ns, numTextChar c = true ∨ c = ',' ∨ c = ' ' := by
  intro c hc
  rcases List.mem_append.1 hc with hc | hc
  · exact Or.inr (Or.inr (mem_blanks hc))
  · rcases mem_bbody hc with rfl | ⟨p, hp, hcp⟩
    · exact Or.inr (Or.inr rfl)
    · exact Or.inl (NumLit.text_chars p.1 (List.all_eq_true.1 h p hp) c hcp)

/-- every well-formed literal is a token the scanner, the splitter and `strip()` leave whole -/
theorem Lit.text_ok (l : Lit) (h : l.rd = true) : TokOK l.text := by
  cases hl : l.isList with
  | false =>
    obtain ⟨ht, hne⟩ := Lit.text_tok l h hl
    exact TokOK_plain ht hne (Lit.text_closed l h hl)
  | true =>
    cases l with
    | list ns => exact TokOK_list _ fun c hc => (listInner_chars ns h c hc).imp_right Or.inl
    | blist pre ns =>
      simp only [Lit.rd, Bool.and_eq_true] at h
      exact TokOK_list _ (blistInner_chars pre ns h.1)
    | none => cases hl
    | bool b => cases hl
    | int neg ds => cases hl
    | float neg ip fp ex => cases hl
    | str dq cs => cases hl

/-! ### literal classification: `GetArg(text) = value` -/

theorem dropWhile_none {α : Type} (p : α → Bool) (t : List α) (h : ∀ c ∈ t, p c = false) :
    t.dropWhile p = t := by
  cases t with
  | nil => rfl
  | cons a u => exact dropWhile_head_false p a u (h a List.mem_cons_self)

theorem stripWs_tok {t : List Char} (h : TokText t) : stripWs t = t := by
  have hp : ∀ c ∈ t, isReSpace c = false := fun c hc => (keyChar_iff.1 (h c hc).1).2.2.2
  unfold stripWs
  rw [dropWhile_none _ _ hp, dropWhile_none _ _ (fun c hc => hp c (List.mem_reverse.1 hc)),
    List.reverse_reverse]

theorem splitSign_other (a : Char) (r : List Char) (h1 : a ≠ '-') (h2 : a ≠ '+') :
    splitSign (a :: r) = (false, a :: r) := by
  unfold splitSign
  split
  · rename_i heq; cases heq; exact absurd rfl h1
  · rename_i heq; cases heq; exact absurd rfl h2
  · rfl

theorem splitSign_digits {ds : List Char} (h : allDigits ds = true) : splitSign ds = (false, ds) := by
  obtain ⟨hne, hd⟩ := allDigits_iff.1 h
  obtain ⟨a, u, rfl⟩ := List.exists_cons_of_ne_nil hne
  have ha := hd a List.mem_cons_self
  exact splitSign_other a u (by rintro rfl; revert ha; decide) (by rintro rfl; revert ha; decide)

theorem splitSign_signText (neg : Bool) {ds : List Char} (h : allDigits ds = true) :
    splitSign (signText neg ++ ds) = (neg, ds) := by
  cases neg
  · simpa [signText] using splitSign_digits h
  · simp [signText, splitSign]

theorem splitSign_signText' (neg : Bool) (a : Char) (r : List Char) (ha : isDig a = true) :
    splitSign (signText neg ++ a :: r) = (neg, a :: r) := by
  cases neg
  · simpa [signText] using
      splitSign_other a r (by rintro rfl; revert ha; decide) (by rintro rfl; revert ha; decide)
  · simp [signText, splitSign]

theorem allDigits_append_nondigit (ip : List Char) (c : Char) (r : List Char) (hc : isDig c = false) :
    allDigits (ip ++ c :: r) = false := by
  simp [allDigits, hc]

theorem head_ne {s t : List Char} {a : Char} (hs : s.head? = some a) (ht : t.head? ≠ some a) :
    s ≠ t := by
  rintro rfl; exact ht hs

/-- a text whose first character is a sign, digit or quote is none of the three keywords -/
theorem not_keyword {s : List Char} {a : Char} (hs : s.head? = some a)
    (h : a ≠ 'T' ∧ a ≠ 'F' ∧ a ≠ 'N') :
    s ≠ "True".toList ∧ s ≠ "False".toList ∧ s ≠ "None".toList := by
  refine ⟨head_ne hs ?_, head_ne hs ?_, head_ne hs ?_⟩
  · intro e; exact h.1 (by simpa using e.symm)
  · intro e; exact h.2.1 (by simpa using e.symm)
  · intro e; exact h.2.2 (by simpa using e.symm)

theorem signText_head (neg : Bool) (a : Char) (r : List Char) (ha : isDig a = true) :
    ∃ b, (signText neg ++ a :: r).head? = some b ∧ b ≠ 'T' ∧ b ≠ 'F' ∧ b ≠ 'N' := by
  cases neg
  · exact ⟨a, by simp [signText], by rintro rfl; revert ha; decide,
      by rintro rfl; revert ha; decide, by rintro rfl; revert ha; decide⟩
  · exact ⟨'-', by simp [signText], by decide, by decide, by decide⟩

theorem getArg_num {s : List Char} {n : Num} (h1 : s ≠ "True".toList) (h2 : s ≠ "False".toList)
    (hn : pyNum s = some n) : getArg s = n.toVal := by
  unfold getArg
  rw [if_neg h1, if_neg h2, hn]

theorem pyNum_int (neg : Bool) (ds : List Char) (h : allDigits ds = true) :
    pyNum (signText neg ++ ds) = some (.int (signed neg (digitsVal ds))) := by
  obtain ⟨hne, hd⟩ := allDigits_iff.1 h
  obtain ⟨a, u, rfl⟩ := List.exists_cons_of_ne_nil hne
  have htok : TokText (signText neg ++ a :: u) := (signText_tok neg).append (digits_tok hd)
  have hi : pyIntOf (signText neg ++ a :: u) = some (signed neg (digitsVal (a :: u))) := by
    unfold pyIntOf
    simp only [stripWs_tok htok, splitSign_signText neg h, h, if_true]
    cases neg <;> rfl
  simp [pyNum, hi]

theorem getArg_int (neg : Bool) (ds : List Char) (h : allDigits ds = true) :
    getArg (signText neg ++ ds) = .int (signed neg (digitsVal ds)) := by
  obtain ⟨hne, hd⟩ := allDigits_iff.1 h
  obtain ⟨a, u, rfl⟩ := List.exists_cons_of_ne_nil hne
  obtain ⟨b, hb, hb'⟩ := signText_head neg a u (hd a List.mem_cons_self)
  obtain ⟨k1, k2, _⟩ := not_keyword hb hb'
  exact getArg_num (n := .int (signed neg (digitsVal (a :: u)))) k1 k2 (pyNum_int neg _ h)

theorem expPart_expText (ex : Option (Bool × List Char))
    (h : match ex with | none => True | some p => allDigits p.2 = true) :
    expPart (expText ex) = some (match ex with
      | none => 0
      | some p => signed p.1 (digitsVal p.2)) := by
  cases ex with
  | none => rfl
  | some p =>
    obtain ⟨eneg, ds⟩ := p
    simp only at h
    simp only [expText, expPart, beq_self_eq_true, Bool.true_or, if_true, splitSign_signText eneg h, h]
    cases eneg <;> rfl

theorem expText_head_nondigit (ex : Option (Bool × List Char)) :
    ∀ c ∈ (expText ex).head?, isDig c = false := by
  cases ex with
  | none => intro c hc; cases hc
  | some p => intro c hc; simp [expText] at hc; subst hc; decide

theorem takeWhile_digits_then (ds r : List Char) (hd : ∀ c ∈ ds, isDig c = true)
    (hr : ∀ c ∈ r.head?, isDig c = false) :
    (ds ++ r).takeWhile isDig = ds ∧ (ds ++ r).dropWhile isDig = r := by
  rw [takeWhile_all_append _ _ _ hd, dropWhile_all_append _ _ _ hd]
  cases r with
  | nil => simp
  | cons a u =>
    have := hr a (by simp)
    simp [List.takeWhile, List.dropWhile, this]

theorem float_text_tok (neg : Bool) (ip fp : List Char) (ex : Option (Bool × List Char))
    (hip : allDigits ip = true) (hfp : fp.all isDig = true)
    (hex : match ex with | none => True | some p => allDigits p.2 = true) :
    TokText (Lit.float neg ip fp ex).text := by
  obtain ⟨_, hid⟩ := allDigits_iff.1 hip
  have hfd : ∀ c ∈ fp, isDig c = true := fun c hc => List.all_eq_true.1 hfp c hc
  simp only [Lit.text]
  have hdot : keyChar '.' = true ∧ '.' ≠ '(' := by decide
  have he : keyChar 'e' = true ∧ 'e' ≠ '(' := by decide
  refine (signText_tok neg).append ((digits_tok hid).append (TokText.cons hdot ?_))
  refine (digits_tok hfd).append ?_
  cases ex with
  | none => intro c hc; cases hc
  | some p =>
    obtain ⟨eneg, ds⟩ := p
    exact TokText.cons he ((signText_tok eneg).append (digits_tok (allDigits_iff.1 hex).2))

theorem pyNum_float (neg : Bool) (ip fp : List Char) (ex : Option (Bool × List Char))
    (hip : allDigits ip = true) (hfp : fp.all isDig = true)
    (hex : match ex with | none => True | some p => allDigits p.2 = true) :
    pyNum (Lit.float neg ip fp ex).text = some (.float (floatVal neg ip fp ex)) := by
  obtain ⟨hine, hid⟩ := allDigits_iff.1 hip
  have hfd : ∀ c ∈ fp, isDig c = true := fun c hc => List.all_eq_true.1 hfp c hc
  have htok := float_text_tok neg ip fp ex hip hfp hex
  obtain ⟨a, u, rfl⟩ := List.exists_cons_of_ne_nil hine
  have hdotd : isDig '.' = false := by decide
  have htext : (Lit.float neg (a :: u) fp ex).text =
      signText neg ++ a :: (u ++ '.' :: (fp ++ expText ex)) := by simp [Lit.text]
  have hsplit : splitSign (Lit.float neg (a :: u) fp ex).text =
      (neg, (a :: u) ++ '.' :: (fp ++ expText ex)) := by
    rw [htext]; exact splitSign_signText' neg a _ (hid a List.mem_cons_self)
  have hi : pyIntOf (Lit.float neg (a :: u) fp ex).text = none := by
    unfold pyIntOf
    simp only [stripWs_tok htok, hsplit, allDigits_append_nondigit _ '.' _ hdotd]
    rfl
  obtain ⟨t1, d1⟩ := takeWhile_digits_then (a :: u) ('.' :: (fp ++ expText ex)) hid
    (by intro c hc; simp at hc; subst hc; exact hdotd)
  obtain ⟨t2, d2⟩ := takeWhile_digits_then fp (expText ex) hfd (expText_head_nondigit ex)
  have hf : pyFloatOf (Lit.float neg (a :: u) fp ex).text = some (floatVal neg (a :: u) fp ex) := by
    unfold pyFloatOf
    simp only [stripWs_tok htok, hsplit, t1, d1, fracPart, t2, d2, expPart_expText ex hex]
    have : (a :: u).isEmpty = false := rfl
    simp only [this, Bool.false_and, Bool.false_eq_true, if_false, floatVal]
    cases ex <;> rfl
  simp [pyNum, hi, hf]

theorem getArg_float (neg : Bool) (ip fp : List Char) (ex : Option (Bool × List Char))
    (hip : allDigits ip = true) (hfp : fp.all isDig = true)
    (hex : match ex with | none => True | some p => allDigits p.2 = true) :
    getArg (Lit.float neg ip fp ex).text = (Lit.float neg ip fp ex).val := by
  obtain ⟨hine, hid⟩ := allDigits_iff.1 hip
  have hn := pyNum_float neg ip fp ex hip hfp hex
  obtain ⟨a, u, rfl⟩ := List.exists_cons_of_ne_nil hine
  have htext : (Lit.float neg (a :: u) fp ex).text =
      signText neg ++ a :: (u ++ '.' :: (fp ++ expText ex)) := by simp [Lit.text]
  obtain ⟨b, hb, hb'⟩ := signText_head neg a (u ++ '.' :: (fp ++ expText ex)) (hid a List.mem_cons_self)
  rw [← htext] at hb
  obtain ⟨k1, k2, _⟩ := not_keyword hb hb'
  exact getArg_num (n := .float (floatVal neg (a :: u) fp ex)) k1 k2 hn

/-- `Num` of the text of a well-formed number literal -/
theorem pyNum_numLit (n : NumLit) (h : n.rd = true) : pyNum n.text = some n.num := by
  cases n with
  | int neg ds =>
    simp only [NumLit.rd] at h
    exact pyNum_int neg ds h
  | float neg ip fp ex =>
    simp only [NumLit.rd, Bool.and_eq_true] at h
    obtain ⟨⟨hip, hfp⟩, hex⟩ := h
    refine pyNum_float neg ip fp ex hip hfp ?_
    cases ex with
    | none => trivial
    | some p => simpa using hex

theorem splitOnP_none (p : Char → Bool) (l : List Char) (h : ∀ c ∈ l, p c = false) :
    splitOnP p l = [l] := by
  induction l with
  | nil => rfl
  | cons a t ih =>
    simp only [splitOnP, h a List.mem_cons_self, ih fun c hc => h c (List.mem_cons_of_mem _ hc)]
    rfl

theorem splitOnP_append (p : Char → Bool) (n b : List Char) (sep : Char) (hs : p sep = true)
    (h : ∀ c ∈ n, p c = false) : splitOnP p (n ++ sep :: b) = n :: splitOnP p b := by
  induction n with
  | nil => simp [splitOnP, hs]
  | cons a t ih =>
    simp only [List.cons_append, splitOnP, h a List.mem_cons_self,
      ih fun c hc => h c (List.mem_cons_of_mem _ hc)]
    rfl

theorem splitOnP_joinComma (ts : List (List Char)) (hne : ts ≠ [])
    (h : ∀ t ∈ ts, ∀ c ∈ t, isItemSep c = false) : splitOnP isItemSep (joinComma ts) = ts := by
  induction ts with
  | nil => exact absurd rfl hne
  | cons a u ih =>
    cases u with
    | nil => simpa [joinComma] using splitOnP_none isItemSep a (h a List.mem_cons_self)
    | cons b v =>
      simp only [joinComma]
      rw [splitOnP_append isItemSep a _ ',' (by decide) (h a List.mem_cons_self),
        ih (by simp) fun t ht => h t (List.mem_cons_of_mem _ ht)]

/-- `_ListItems` of a well-formed list literal: the texts of its elements -/
theorem listItems_list (ns : List NumLit) (h : ns.all NumLit.rd = true) :
    listItems (Lit.list ns).text = ns.map NumLit.text := by
  have hwf : ∀ n ∈ ns, n.rd = true := fun n hn => List.all_eq_true.1 h n hn
  have hinner : removeBrackets (Lit.list ns).text = joinComma (ns.map NumLit.text) := by
    simp only [Lit.text, removeBrackets, List.filter_cons, List.filter_append]
    have hkeep : (joinComma (ns.map NumLit.text)).filter (fun c => !(c == '[' || c == ']')) =
        joinComma (ns.map NumLit.text) := by
      rw [List.filter_eq_self]
      intro c hc
      rcases listInner_chars ns h c hc with h' | rfl
      · obtain ⟨_, _, h3, h4, _, _⟩ := numTextChar_facts h'
        simp [h3, h4]
      · decide
    rw [hkeep]
    simp
  unfold listItems
  rw [hinner]
  cases ns with
  | nil => rfl
  | cons n t =>
    have hsep : ∀ x ∈ (n :: t).map NumLit.text, ∀ c ∈ x, isItemSep c = false := by
      intro x hx c hc
      obtain ⟨m, hm, rfl⟩ := List.mem_map.1 hx
      exact (numTextChar_facts (NumLit.text_chars m (hwf m hm) c hc)).2.2.2.2.2
    rw [splitOnP_joinComma _ (by simp) hsep, List.filter_eq_self]
    intro x hx
    obtain ⟨m, hm, rfl⟩ := List.mem_map.1 hx
    have := NumLit.text_ne m (hwf m hm)
    cases hmt : m.text with
    | nil => exact absurd hmt this
    | cons _ _ => rfl

theorem getArg_list (ns : List NumLit) (h : ns.all NumLit.rd = true) :
    getArg (Lit.list ns).text = .list (ns.map NumLit.num) := by
  have hwf : ∀ n ∈ ns, n.rd = true := fun n hn => List.all_eq_true.1 h n hn
  have htext : (Lit.list ns).text = '[' :: (joinComma (ns.map NumLit.text) ++ [']']) := rfl
  obtain ⟨k1, k2, k3⟩ := not_keyword (s := (Lit.list ns).text) (a := '[') (by rw [htext]; rfl)
    (by decide)
  have hok := Lit.text_ok (.list ns) h
  have hstrip : stripWs (Lit.list ns).text = (Lit.list ns).text := by
    obtain ⟨a, u, hau⟩ := List.exists_cons_of_ne_nil hok.ne
    unfold stripWs
    have h1 : (Lit.list ns).text.dropWhile isReSpace = (Lit.list ns).text := by
      rw [hau]; exact dropWhile_head_false _ _ _ (hok.first a (by rw [hau]; rfl))
    rw [h1]
    have hrne : (Lit.list ns).text.reverse ≠ [] := by simpa using hok.ne
    obtain ⟨b, w, hbw⟩ := List.exists_cons_of_ne_nil hrne
    have hb : (Lit.list ns).text.getLast? = some b := by
      rw [← List.head?_reverse, hbw]; rfl
    rw [hbw, dropWhile_head_false _ _ _ (hok.last b hb), ← hbw, List.reverse_reverse]
  have hi : pyIntOf (Lit.list ns).text = none := by
    unfold pyIntOf
    rw [hstrip, htext, splitSign_other _ _ (by decide) (by decide)]
    simp [allDigits, show isDig '[' = false by decide]
  have hf : pyFloatOf (Lit.list ns).text = none := by
    unfold pyFloatOf
    rw [hstrip, htext, splitSign_other _ _ (by decide) (by decide)]
    simp [List.takeWhile, List.dropWhile, fracPart, show isDig '[' = false by decide]
  have hn : pyNum (Lit.list ns).text = none := by simp [pyNum, hi, hf]
  have hbr : isBracketed (Lit.list ns).text = true := by
    rw [htext]
    have : ('[' :: (joinComma (ns.map NumLit.text) ++ [']'])).getLast? = some ']' := by
      rw [show '[' :: (joinComma (ns.map NumLit.text) ++ [']']) =
        ('[' :: joinComma (ns.map NumLit.text)) ++ [']'] by simp, List.getLast?_append]
      simp
    simp [isBracketed, this]
  have hall : ((ns.map NumLit.text).all fun e => (pyNum e).isSome) = true := by
    rw [List.all_eq_true]
    intro x hx
    obtain ⟨m, hm, rfl⟩ := List.mem_map.1 hx
    rw [pyNum_numLit m (hwf m hm)]; rfl
  have hl : isListOfNums (Lit.list ns).text = true := by
    unfold isListOfNums
    simp only [listItems_list ns h, hbr, Bool.or_true, Bool.true_and, hall]
  have hvals : listOfNums (Lit.list ns).text = ns.map NumLit.num := by
    unfold listOfNums
    rw [listItems_list ns h]
    clear hall hl hbr hn hf hi hstrip hok k1 k2 k3 htext h
    induction ns with
    | nil => rfl
    | cons n t ih =>
      simp only [List.map_cons, List.filterMap_cons, pyNum_numLit n (hwf n List.mem_cons_self)]
      rw [ih fun m hm => hwf m (List.mem_cons_of_mem _ hm)]
  unfold getArg
  rw [if_neg k1, if_neg k2, hn]
  simp only [if_neg k3, hl, if_true, hvals]

/-- a bracketed token whose `_ListItems` are number texts reads as the list of those numbers -/
theorem getArg_bracketed (inner : List Char) (ts : List (List Char)) (nums : List Num)
    (hok : TokOK ('[' :: (inner ++ [']'])))
    (hitems : listItems ('[' :: (inner ++ [']'])) = ts)
    (hnums : List.Forall₂ (fun t n => pyNum t = some n) ts nums) :
    getArg ('[' :: (inner ++ [']'])) = .list nums := by
  set s := '[' :: (inner ++ [']']) with hs
  obtain ⟨k1, k2, k3⟩ := not_keyword (s := s) (a := '[') (by rw [hs]; rfl) (by decide)
  have hstrip : stripWs s = s := by
    obtain ⟨a, u, hau⟩ := List.exists_cons_of_ne_nil hok.ne
    unfold stripWs
    have h1 : s.dropWhile isReSpace = s := by
      rw [hau]; exact dropWhile_head_false _ _ _ (hok.first a (by rw [hau]; rfl))
    rw [h1]
    have hrne : s.reverse ≠ [] := by simp [hs]
    obtain ⟨b, w, hbw⟩ := List.exists_cons_of_ne_nil hrne
    have hb : s.getLast? = some b := by
      rw [← List.head?_reverse, hbw]; rfl
    rw [hbw, dropWhile_head_false _ _ _ (hok.last b hb), ← hbw, List.reverse_reverse]
  have hi : pyIntOf s = none := by
    unfold pyIntOf
    rw [hstrip, hs, splitSign_other _ _ (by decide) (by decide)]
    simp [allDigits, show isDig '[' = false by decide]
  have hf : pyFloatOf s = none := by
    unfold pyFloatOf
    rw [hstrip, hs, splitSign_other _ _ (by decide) (by decide)]
    simp [List.takeWhile, List.dropWhile, fracPart, show isDig '[' = false by decide]
  have hn : pyNum s = none := by simp [pyNum, hi, hf]
  have hbr : isBracketed s = true := by
    rw [hs]
    have : ('[' :: (inner ++ [']'])).getLast? = some ']' := by
      rw [show '[' :: (inner ++ [']']) = ('[' :: inner) ++ [']'] by simp, List.getLast?_append]
      simp
    simp [isBracketed, this]
  have hall : (ts.all fun e => (pyNum e).isSome) = true := by
    rw [List.all_eq_true]
    intro x hx
    clear hitems
    induction hnums with
    | nil => cases hx
    | cons h1 _ ih =>
      rcases List.mem_cons.1 hx with rfl | hx
      · rw [h1]; rfl
      · exact ih hx
  have hl : isListOfNums s = true := by
    unfold isListOfNums
    simp only [hitems, hbr, Bool.or_true, Bool.true_and, hall]
  have hvals : listOfNums s = nums := by
    unfold listOfNums
    rw [hitems]
    clear hall hl hitems
    induction hnums with
    | nil => rfl
    | cons h1 _ ih => simp only [List.filterMap_cons, h1, ih]
  unfold getArg
  rw [if_neg k1, if_neg k2, hn]
  simp only [if_neg k3, hl, if_true, hvals]

theorem filter_split_blanks_append (k : Nat) (r : List Char) :
    (splitOnP isItemSep (blanks k ++ r)).filter (fun e => !e.isEmpty) =
      (splitOnP isItemSep r).filter (fun e => !e.isEmpty) := by
  induction k with
  | zero => rfl
  | succ k ih =>
    have : blanks (k + 1) ++ r = ' ' :: (blanks k ++ r) := by simp [blanks, List.replicate_succ]
    rw [this]
    simp only [splitOnP, show isItemSep ' ' = true by decide, if_true, List.filter_cons]
    simpa using ih

/-- `_ListItems` over the items of a blank-separated list: the item texts -/
theorem items_bbody (ns : List (NumLit × Nat)) (hrd : ∀ p ∈ ns, p.1.rd = true) (hg : gapsOK ns = true) :
    (splitOnP isItemSep (bbody ns)).filter (fun e => !e.isEmpty) = ns.map fun p => p.1.text := by
  induction ns with
  | nil => rfl
  | cons p t ih =>
    obtain ⟨n, g⟩ := p
    have hn := hrd (n, g) List.mem_cons_self
    have hsep : ∀ c ∈ n.text, isItemSep c = false := fun c hc =>
      (numTextChar_facts (NumLit.text_chars n hn c hc)).2.2.2.2.2
    have hne : (!n.text.isEmpty) = true := by
      have := NumLit.text_ne n hn
      cases hmt : n.text with
      | nil => exact absurd hmt this
      | cons _ _ => rfl
    have hrd' : ∀ q ∈ t, q.1.rd = true := fun q hq => hrd q (List.mem_cons_of_mem _ hq)
    cases g with
    | zero =>
      -- no blank after the item: it is the last one
      cases t with
      | nil =>
        simp only [bbody, blanks, List.replicate_zero, List.append_nil, List.map_cons, List.map_nil]
        rw [splitOnP_none isItemSep n.text hsep]
        simp [hne]
      | cons b u => simp [gapsOK] at hg
    | succ g' =>
      have hg' : gapsOK t = true := by
        cases t with
        | nil => rfl
        | cons b u => simp only [gapsOK, Bool.and_eq_true] at hg; exact hg.2
      have hb : bbody ((n, g' + 1) :: t) = n.text ++ ' ' :: (blanks g' ++ bbody t) := by
        simp [bbody, blanks, List.replicate_succ]
      rw [hb, splitOnP_append isItemSep n.text _ ' ' (by decide) hsep]
      simp only [List.filter_cons, hne, if_true, List.map_cons]
      rw [filter_split_blanks_append, ih hrd' hg']

theorem removeBrackets_blist (pre : Nat) (ns : List (NumLit × Nat))
    (h : (ns.all fun p => p.1.rd) = true) :
    removeBrackets (Lit.blist pre ns).text = blanks pre ++ bbody ns := by
  simp only [Lit.text, removeBrackets, List.filter_cons, List.filter_append]
  have hkeep : (blanks pre ++ bbody ns).filter (fun c => !(c == '[' || c == ']')) =
      blanks pre ++ bbody ns := by
    rw [List.filter_eq_self]
    intro c hc
    rcases blistInner_chars pre ns h c hc with h' | rfl | rfl
    · obtain ⟨_, _, h3, h4, _, _⟩ := numTextChar_facts h'
      simp [h3, h4]
    · decide
    · decide
  rw [← List.filter_append, hkeep]
  simp

theorem getArg_blist (pre : Nat) (ns : List (NumLit × Nat))
    (h : (Lit.blist pre ns).rd = true) :
    getArg (Lit.blist pre ns).text = .list (ns.map fun p => p.1.num) := by
  simp only [Lit.rd, Bool.and_eq_true] at h
  obtain ⟨hrd, hg⟩ := h
  have hrd' : ∀ p ∈ ns, p.1.rd = true := fun p hp => List.all_eq_true.1 hrd p hp
  have hok : TokOK ('[' :: ((blanks pre ++ bbody ns) ++ [']'])) :=
    TokOK_list _ (blistInner_chars pre ns hrd)
  refine getArg_bracketed (blanks pre ++ bbody ns) (ns.map fun p => p.1.text) _ hok ?_ ?_
  · unfold listItems
    have := removeBrackets_blist pre ns hrd
    simp only [Lit.text] at this
    rw [this, filter_split_blanks_append, items_bbody ns hrd' hg]
  · clear hok hg hrd
    induction ns with
    | nil => exact List.Forall₂.nil
    | cons p t ih =>
      exact List.Forall₂.cons (pyNum_numLit p.1 (hrd' p List.mem_cons_self))
        (ih fun q hq => hrd' q (List.mem_cons_of_mem _ hq))

theorem getArg_str (dq : Bool) (cs : List Char) (h : cs.all strChar = true) :
    getArg (Lit.str dq cs).text = .str (String.ofList cs) := by
  have htok := (Lit.text_tok (.str dq cs) (by simpa [Lit.rd] using h) rfl).1
  have hq1 : isDig (quoteChar dq) = false := by cases dq <;> decide
  have hq2 : quoteChar dq ≠ '-' ∧ quoteChar dq ≠ '+' ∧ quoteChar dq ≠ '.' := by cases dq <;> decide
  have hq3 : quoteChar dq ≠ 'T' ∧ quoteChar dq ≠ 'F' ∧ quoteChar dq ≠ 'N' := by cases dq <;> decide
  have htext : (Lit.str dq cs).text = quoteChar dq :: (cs ++ [quoteChar dq]) := rfl
  obtain ⟨k1, k2, k3⟩ := not_keyword (s := (Lit.str dq cs).text) (by rw [htext]; rfl) hq3
  have hi : pyIntOf (Lit.str dq cs).text = none := by
    unfold pyIntOf
    rw [stripWs_tok htok, htext, splitSign_other _ _ hq2.1 hq2.2.1]
    simp [allDigits, hq1]
  have hf : pyFloatOf (Lit.str dq cs).text = none := by
    unfold pyFloatOf
    rw [stripWs_tok htok, htext, splitSign_other _ _ hq2.1 hq2.2.1]
    have t1 : (quoteChar dq :: (cs ++ [quoteChar dq])).takeWhile isDig = [] := by
      simp [List.takeWhile, hq1]
    have d1 : (quoteChar dq :: (cs ++ [quoteChar dq])).dropWhile isDig =
        quoteChar dq :: (cs ++ [quoteChar dq]) := dropWhile_head_false _ _ _ hq1
    have fr : fracPart (quoteChar dq :: (cs ++ [quoteChar dq])) =
        ([], quoteChar dq :: (cs ++ [quoteChar dq])) := by
      cases dq <;> rfl
    simp only [t1, d1, fr]
    rfl
  have hl : isListOfNums (Lit.str dq cs).text = false := by
    unfold isListOfNums listItems
    have hsp : ∀ c ∈ removeBrackets (Lit.str dq cs).text, isItemSep c = false := by
      intro c hm
      have hm' := (List.mem_filter.1 hm).1
      have := keyChar_iff.1 (htok _ hm').1
      simp [isItemSep, this.2.1, this.2.2.2]
    rw [splitOnP_none _ _ hsp]
    have hb : isBracketed (Lit.str dq cs).text = false := by
      rw [htext]; cases dq <;> simp [isBracketed, quoteChar]
    rw [hb]
    cases h1 : ([removeBrackets (Lit.str dq cs).text].filter fun e => !e.isEmpty) with
    | nil => rfl
    | cons x xs =>
      have hlen : (x :: xs).length ≤ 1 := by
        rw [← h1]; exact (List.length_filter_le _ _)
      have : xs = [] := by
        cases xs with
        | nil => rfl
        | cons _ _ => simp at hlen
      subst this
      simp
  have hd : ((Lit.str dq cs).text.drop 1).dropLast = cs := by
    rw [htext]; simp
  have hn : pyNum (Lit.str dq cs).text = none := by simp [pyNum, hi, hf]
  unfold getArg
  rw [if_neg k1, if_neg k2, hn]
  simp only [if_neg k3, hl, hd]
  rfl

/-- `GetArg` reads every well-formed literal of the grammar as Python does -/
theorem getArg_lit (l : Lit) (h : l.rd = true) : getArg l.text = l.val := by
  cases l with
  | none => decide
  | bool b => cases b <;> decide
  | int neg ds =>
    simp only [Lit.rd, NumLit.rd] at h
    exact getArg_int neg ds h
  | float neg ip fp ex =>
    simp only [Lit.rd, NumLit.rd, Bool.and_eq_true] at h
    obtain ⟨⟨hip, hfp⟩, hex⟩ := h
    refine getArg_float neg ip fp ex hip hfp ?_
    cases ex with
    | none => trivial
    | some p => simpa using hex
  | str dq cs =>
    simp only [Lit.rd] at h
    exact getArg_str dq cs h
  | list ns =>
    simp only [Lit.rd] at h
    exact getArg_list ns h
  | blist pre ns => exact getArg_blist pre ns h

/-! ### the whole call -/

theorem identChar_tok {c : Char} (h : identChar c = true) : keyChar c = true ∧ c ≠ '(' := by
  have h48 : 48 ≤ c.toNat := by
    simp only [identChar, Bool.or_eq_true, Bool.and_eq_true, decide_eq_true_eq, beq_iff_eq] at h
    omega
  refine ⟨?_, by rintro rfl; revert h48; decide⟩
  rw [keyChar_iff]
  refine ⟨by rintro rfl; revert h; decide, by rintro rfl; revert h48; decide,
    by rintro rfl; revert h48; decide, ?_⟩
  simp only [isReSpace, isWs, Bool.or_eq_false_iff, Bool.and_eq_false_iff, beq_eq_false_iff_ne,
    decide_eq_false_iff_not, not_le]
  refine ⟨⟨⟨⟨⟨⟨?_, ?_⟩, ?_⟩, ?_⟩, ?_⟩, ?_⟩, ?_⟩
  · rintro rfl; revert h48; decide
  · rintro rfl; revert h48; decide
  · rintro rfl; revert h48; decide
  · rintro rfl; revert h48; decide
  · rintro rfl; revert h48; decide
  · rintro rfl; revert h48; decide
  · right; omega

theorem isIdent_tok {k : String} (h : isIdent k = true) : TokText k.toList ∧ k.toList ≠ [] := by
  unfold isIdent at h
  simp only [Bool.and_eq_true] at h
  obtain ⟨_, h⟩ := h
  cases heq : k.toList with
  | nil => rw [heq] at h; cases h
  | cons c cs =>
    rw [heq] at h
    simp only [isIdentText, Bool.and_eq_true, List.all_eq_true] at h
    exact ⟨TokText.cons (identChar_tok h.1.2) fun d hd => identChar_tok (h.2 d hd), by simp⟩

def toItem : Arg → Item
  | .pos l => .pos l.text
  | .kw k l => .kw k.toList l.text

theorem isIdent_ok {k : String} (h : isIdent k = true) : TokOK k.toList := by
  obtain ⟨ht, hne⟩ := isIdent_tok h
  refine TokOK_plain ht hne (Closed_of_no_bracket fun hm => ?_)
  unfold isIdent at h
  simp only [Bool.and_eq_true] at h
  cases heq : k.toList with
  | nil => rw [heq] at hm; cases hm
  | cons c cs =>
    rw [heq] at h hm
    simp only [isIdentText, Bool.and_eq_true, List.all_eq_true] at h
    rcases List.mem_cons.1 hm with rfl | hm'
    · have := h.2.1.2; revert this; decide
    · have := h.2.2 _ hm'; revert this; decide

theorem stripWs_ok {t : List Char} (hok : TokOK t) : stripWs t = t := by
  obtain ⟨a, u, hau⟩ := List.exists_cons_of_ne_nil hok.ne
  unfold stripWs
  have h1 : t.dropWhile isReSpace = t := by
    rw [hau]; exact dropWhile_head_false _ _ _ (hok.first a (by rw [hau]; rfl))
  rw [h1]
  have hrne : t.reverse ≠ [] := by simpa using hok.ne
  obtain ⟨b, w, hbw⟩ := List.exists_cons_of_ne_nil hrne
  have hb : t.getLast? = some b := by
    rw [← List.head?_reverse, hbw]; rfl
  rw [hbw, dropWhile_head_false _ _ _ (hok.last b hb), ← hbw, List.reverse_reverse]

theorem TokOK.headWs {t : List Char} (hok : TokOK t) : ∀ c, t.head? = some c → isWs c = false :=
  fun c hc => isWs_of_not_reSpace (hok.first c hc)

/-- the text of a well-formed argument is one segment for the splitter, contains neither `(`
    nor a tab and does not start with whitespace -/
theorem Arg.text_ok (a : Arg) (h : a.rd = true) :
    SplitOK a.text ∧ '(' ∉ a.text ∧ '\t' ∉ a.text ∧ ∃ b u, a.text = b :: u ∧ isWs b = false := by
  cases a with
  | pos l =>
    have hok := Lit.text_ok l h
    obtain ⟨b, u, hbu⟩ := List.exists_cons_of_ne_nil hok.ne
    exact ⟨hok.split, hok.noParen, hok.noTab, b, u, hbu, hok.headWs b (by rw [hbu]; rfl)⟩
  | kw k l =>
    simp only [Arg.rd, Bool.and_eq_true] at h
    have hk := isIdent_ok h.1
    have hl := Lit.text_ok l h.2
    obtain ⟨b, u, hbu⟩ := List.exists_cons_of_ne_nil hk.ne
    have e : (Arg.kw k l).text = k.toList ++ (['='] ++ l.text) := by simp [Arg.text]
    refine ⟨?_, ?_, ?_, b, u ++ '=' :: l.text, by simp [Arg.text, hbu], hk.headWs b (by rw [hbu]; rfl)⟩
    · rw [e]; exact hk.split.append (SplitOK_eq.append hl.split)
    · rw [e]
      simp only [List.mem_append, List.mem_singleton, not_or]
      exact ⟨hk.noParen, by decide, hl.noParen⟩
    · rw [e]
      simp only [List.mem_append, List.mem_singleton, not_or]
      exact ⟨hk.noTab, by decide, hl.noTab⟩

theorem parseSeg_arg (a : Arg) (h : a.rd = true) : parseSeg a.text = some (toItem a) := by
  cases a with
  | pos l =>
    have hok := Lit.text_ok l h
    exact parseSeg_pos _ hok.scan hok.ne hok.headWs
  | kw k l =>
    simp only [Arg.rd, Bool.and_eq_true] at h
    have hk := isIdent_ok h.1
    have hl := Lit.text_ok l h.2
    obtain ⟨b, u, hbu⟩ := List.exists_cons_of_ne_nil hl.ne
    exact parseSeg_kw _ _ hk.scan hk.ne hk.headWs
      (Or.inr ⟨b, u, hbu, hl.headWs b (by rw [hbu]; rfl)⟩)

theorem mapOpt_parseSeg (as : List Arg) (h : ∀ a ∈ as, a.rd = true) :
    mapOpt parseSeg (as.map Arg.text) = some (as.map toItem) := by
  induction as with
  | nil => rfl
  | cons a t ih =>
    simp only [List.map_cons, mapOpt, parseSeg_arg a (h a List.mem_cons_self),
      ih fun b hb => h b (List.mem_cons_of_mem _ hb)]

theorem parseItems_render (as : List Arg) (h : ∀ a ∈ as, a.rd = true) (rest : List Char) :
    parseItems (joinComma (as.map Arg.text) ++ ')' :: rest) = .ok (as.map toItem) := by
  cases as with
  | nil => simp [parseItems, joinComma, splitBody_false]
  | cons a t =>
    have hsb := splitBody_join ((a :: t).map Arg.text) rest
      (fun s hs => by
        obtain ⟨b, hb, rfl⟩ := List.mem_map.1 hs
        exact (Arg.text_ok b (h b hb)).1) (by simp)
    unfold parseItems
    rw [hsb]
    obtain ⟨b, u, hbu, hws⟩ := (Arg.text_ok a (h a List.mem_cons_self)).2.2.2
    have hnotws : (((a :: t).map Arg.text).all fun s => s.all isWs) = false := by
      simp [hbu, hws]
    simp only [hnotws, Bool.and_false, Bool.false_eq_true, if_false, mapOpt_parseSeg (a :: t) h]

theorem itemArgs_render (as : List Arg) (h : ∀ a ∈ as, a.rd = true) :
    itemArgs (as.map toItem) = argVals as := by
  induction as with
  | nil => rfl
  | cons a t ih =>
    have iht := ih fun b hb => h b (List.mem_cons_of_mem _ hb)
    cases a with
    | pos l =>
      simp only [List.map_cons, toItem, itemArgs, argVals, iht]
      rw [getArg_lit l (h _ List.mem_cons_self)]
    | kw k l => simpa only [List.map_cons, toItem, itemArgs, argVals] using iht

theorem itemKwargs_render (as : List Arg) (h : ∀ a ∈ as, a.rd = true) (d : Env)
    (hn : (d.keys ++ argKeys as).Nodup) :
    itemKwargs d (as.map toItem) = d ++ argKwargs as := by
  induction as generalizing d with
  | nil => simp [itemKwargs, argKwargs]
  | cons a t ih =>
    have hwt := fun b hb => h b (List.mem_cons_of_mem _ hb)
    cases a with
    | pos l =>
      simp only [List.map_cons, toItem, itemKwargs, argKwargs]
      exact ih hwt d (by simpa [argKeys, argKwargs] using hn)
    | kw k l =>
      have hl : l.rd = true := by
        have := h _ List.mem_cons_self
        simp only [Arg.rd, Bool.and_eq_true] at this
        exact this.2
      simp only [List.map_cons, toItem, itemKwargs, argKwargs, String.ofList_toList,
        stripWs_ok (Lit.text_ok l hl), getArg_lit l hl]
      have hk : k ∉ d.keys := by
        intro hm
        simp only [argKeys, argKwargs, List.map_cons] at hn
        have := (List.nodup_append.1 hn).2.2 k hm k List.mem_cons_self
        exact this rfl
      have hins : dictInsert d k l.val = d ++ [(k, l.val)] := by
        unfold dictInsert
        simp [hk]
      rw [hins, ih hwt]
      · simp
      · simp only [argKeys, argKwargs, List.map_cons, Env.keys, List.map_append] at hn ⊢
        simpa [List.append_assoc] using hn

theorem itemKeys_render (as : List Arg) :
    itemKeys (as.map toItem) = (argKeys as).map String.toList := by
  induction as with
  | nil => rfl
  | cons a t ih =>
    cases a with
    | pos l => simpa only [List.map_cons, toItem, itemKeys, argKeys, argKwargs] using ih
    | kw k l =>
      simp only [List.map_cons, toItem, itemKeys, argKeys, argKwargs] at ih ⊢
      rw [ih]

theorem hasDup_iff (l : List (List Char)) : hasDup l = false ↔ l.Nodup := by
  induction l with
  | nil => simp [hasDup]
  | cons a t ih =>
    simp only [hasDup, Bool.or_eq_false_iff, List.nodup_cons, ih]
    constructor
    · rintro ⟨h1, h2⟩
      exact ⟨by simpa using h1, h2⟩
    · rintro ⟨h1, h2⟩
      exact ⟨by simpa using h1, h2⟩

/-- a keyword is repeated in the rendered call exactly when it is repeated in the argument list -/
theorem hasDup_render (as : List Arg) :
    hasDup (itemKeys (as.map toItem)) = !decide (argKeys as).Nodup := by
  rw [itemKeys_render]
  have hinj : Function.Injective String.toList := fun a b hab => by
    have := congrArg String.ofList hab
    simpa using this
  by_cases hn : (argKeys as).Nodup
  · have : ((argKeys as).map String.toList).Nodup := (List.nodup_map_iff hinj).2 hn
    simp [hn, (hasDup_iff _).2 this]
  · have : ¬ ((argKeys as).map String.toList).Nodup := fun h' => hn ((List.nodup_map_iff hinj).1 h')
    have h2 : hasDup ((argKeys as).map String.toList) = true := by
      cases hd : hasDup ((argKeys as).map String.toList) with
      | true => rfl
      | false => exact absurd ((hasDup_iff _).1 hd) this
    simp [hn, h2]

theorem badOrder_render (as : List Arg) : badOrder (as.map toItem) = argBadOrder as := by
  induction as with
  | nil => rfl
  | cons a t ih =>
    cases t with
    | nil => rfl
    | cons b u =>
      simp only [List.map_cons, badOrder, argBadOrder] at ih ⊢
      rw [ih]
      cases a <;> cases b <;> rfl

theorem argBadOrder_eq (as : List Arg) : argBadOrder as = argPosAfterKw as := by
  induction as with
  | nil => rfl
  | cons a t ih =>
    cases t with
    | nil => cases a <;> simp [argBadOrder, argPosAfterKw]
    | cons b u =>
      simp only [argBadOrder] at ih ⊢
      rw [ih]
      cases a <;> cases b <;> simp [argPosAfterKw, Arg.isPos]

/-- splitting the rendered call at "(" gives the name and the argument text -/
theorem split_render (name : String) (as : List Arg) (hname : isIdent name = true)
    (h : ∀ a ∈ as, a.rd = true) :
    splitOnChar '(' (render name as) = [name.toList, joinComma (as.map Arg.text) ++ [')']] := by
  unfold render
  have h1 : '(' ∉ name.toList := fun hm => ((isIdent_tok hname).1 _ hm).2 rfl
  have h2 : '(' ∉ joinComma (as.map Arg.text) ++ [')'] := by
    intro hm
    rcases List.mem_append.1 hm with hm | hm
    · rcases mem_joinComma hm with he | ⟨t, ht, hc⟩
      · revert he; decide
      · obtain ⟨a, ha, rfl⟩ := List.mem_map.1 ht
        exact (Arg.text_ok a (h a ha)).2.1 hc
    · simp at hm
  rw [splitOnChar_append _ _ _ h1, splitOnChar_not_mem _ _ h2]

theorem expandTabs_noTab (t : List Char) (h : ∀ c ∈ t, c ≠ '\t') (col : Nat) :
    expandTabsFrom col t = t := by
  induction t generalizing col with
  | nil => rfl
  | cons a u ih =>
    have ha : (a == '\t') = false := by simpa using h a List.mem_cons_self
    have iu := fun col => ih (fun c hc => h c (List.mem_cons_of_mem _ hc)) col
    simp only [expandTabsFrom, ha, Bool.false_eq_true, if_false]
    split <;> rw [iu]

theorem render_body_noTab (as : List Arg) (h : ∀ a ∈ as, a.rd = true) :
    ∀ c ∈ joinComma (as.map Arg.text) ++ [')'], c ≠ '\t' := by
  intro c hc
  rcases List.mem_append.1 hc with hc | hc
  · rcases mem_joinComma hc with rfl | ⟨t, ht, hct⟩
    · decide
    · obtain ⟨a, ha, rfl⟩ := List.mem_map.1 ht
      rintro rfl
      exact (Arg.text_ok a (h a ha)).2.2.1 hct
  · simp only [List.mem_singleton] at hc; subst hc; decide

/-- the safe_eval reading of a rendered call: the two SyntaxError verdicts, otherwise the
    arguments -/
theorem parseCall_render (name : String) (as : List Arg) (hname : isIdent name = true)
    (h : ∀ a ∈ as, a.rd = true) :
    parseCall (render name as) =
      if argPosAfterKw as then .error .syntaxError
      else if (argKeys as).Nodup then
        .ok ⟨name, argVals as, itemKwargs [] (as.map toItem), true⟩
      else .error .syntaxError := by
  unfold parseCall
  rw [split_render name as hname h]
  simp only [getParams, expandTabs_noTab _ (render_body_noTab as h), parseItems_render as h [],
    badOrder_render, argBadOrder_eq, hasDup_render,
    itemArgs_render as h, String.ofList_toList]
  cases argPosAfterKw as
  · by_cases hn : (argKeys as).Nodup <;> simp [hn]
  · rfl

/-! ### keyword overrides of `safe_eval`: dict update -/

theorem lookup_set_ne (d : Env) (k : String) (v : PyVal) (k' : String) (h : k' ≠ k) :
    (d.set k v).lookup k' = d.lookup k' := by
  induction d with
  | nil => rfl
  | cons p t ih =>
    obtain ⟨a, w⟩ := p
    unfold Env.set at ih ⊢
    simp only [List.map_cons]
    by_cases hak : a = k
    · subst hak
      have hne : (k' == a) = false := by simpa using h
      simp only [beq_self_eq_true, if_true, List.lookup, hne]
      exact ih
    · have hne : (a == k) = false := by simpa using hak
      simp only [hne, Bool.false_eq_true, if_false, List.lookup]
      cases hk : k' == a
      · exact ih
      · rfl

theorem lookup_set_mem (d : Env) (k : String) (v : PyVal) (hm : k ∈ d.keys) :
    (d.set k v).lookup k = some v := by
  induction d with
  | nil => simp [Env.keys] at hm
  | cons p t ih =>
    obtain ⟨a, w⟩ := p
    unfold Env.set at ih ⊢
    simp only [List.map_cons]
    by_cases hak : a = k
    · subst hak
      simp [List.lookup]
    · have hne : (a == k) = false := by simpa using hak
      have hne' : (k == a) = false := by simpa using fun e : k = a => hak e.symm
      simp only [hne, Bool.false_eq_true, if_false, List.lookup, hne']
      refine ih ?_
      simp only [Env.keys, List.map_cons, List.mem_cons] at hm
      rcases hm with hm | hm
      · exact absurd hm.symm hak
      · exact hm

theorem lookup_append_single (d : Env) (k : String) (v : PyVal) (k' : String) :
    (d ++ [(k, v)]).lookup k' = match d.lookup k' with
      | some w => some w
      | none => if k' = k then some v else none := by
  induction d with
  | nil =>
    by_cases h : k' = k
    · subst h; simp [List.lookup]
    · have hne : (k' == k) = false := by simpa using h
      simp [List.lookup, hne, h]
  | cons p t ih =>
    obtain ⟨a, w⟩ := p
    by_cases h : k' = a
    · subst h; simp [List.lookup]
    · have hne : (k' == a) = false := by simpa using h
      simp only [List.cons_append, List.lookup, hne]
      exact ih

theorem lookup_none_iff_not_mem (d : Env) (k : String) : d.lookup k = none ↔ k ∉ d.keys := by
  induction d with
  | nil => simp [Env.keys]
  | cons p t ih =>
    obtain ⟨a, w⟩ := p
    by_cases h : k = a
    · subst h; simp [List.lookup, Env.keys]
    · have hne : (k == a) = false := by simpa using h
      simp only [List.lookup, hne, Env.keys, List.map_cons, List.mem_cons, h, false_or]
      simpa [Env.keys] using ih

/-- `kwargs[k] = v`: the key reads `v` afterwards, every other key is unchanged -/
theorem lookup_dictInsert (d : Env) (k : String) (v : PyVal) (k' : String) :
    (dictInsert d k v).lookup k' = if k' = k then some v else d.lookup k' := by
  unfold dictInsert
  by_cases hm : k ∈ d.keys
  · have : d.keys.contains k = true := by simpa using hm
    rw [this, if_pos rfl]
    by_cases hk : k' = k
    · subst hk; rw [if_pos rfl]; exact lookup_set_mem d k' v hm
    · rw [if_neg hk]; exact lookup_set_ne d k v k' hk
  · have : d.keys.contains k = false := by simpa using hm
    rw [this]
    simp only [Bool.false_eq_true, if_false]
    rw [lookup_append_single]
    by_cases hk : k' = k
    · subst hk
      rw [(lookup_none_iff_not_mem d k').2 hm]
    · simp only [hk, if_false]
      cases d.lookup k' <;> rfl

/-- after all overrides: the LAST override of a key wins, a key without override keeps the
    value of the text -/
theorem lookup_overrideKw (d kw : Env) (k : String) :
    (overrideKw d kw).lookup k = match kw.reverse.lookup k with
      | some v => some v
      | none => d.lookup k := by
  induction kw generalizing d with
  | nil => rfl
  | cons p t ih =>
    obtain ⟨a, w⟩ := p
    simp only [overrideKw, ih, List.reverse_cons, lookup_append_single, lookup_dictInsert]
    cases t.reverse.lookup k with
    | some v => rfl
    | none => by_cases h : k = a <;> simp [h]

/-! ### well-formed (Python-valid) implies readable -/

theorem NumLit.rd_of_wf (n : NumLit) (h : n.wf = true) : n.rd = true := by
  cases n <;> simp only [NumLit.wf, Bool.and_eq_true] at h <;> exact h.1

theorem Lit.rd_of_wf (l : Lit) (h : l.wf = true) : l.rd = true := by
  cases l with
  | none => exact h
  | bool b => exact h
  | str dq cs => exact h
  | int neg ds => exact NumLit.rd_of_wf (.int neg ds) h
  | float neg ip fp ex => exact NumLit.rd_of_wf (.float neg ip fp ex) h
  | list ns =>
    simp only [Lit.wf, Lit.rd, List.all_eq_true] at h ⊢
    exact fun n hn => NumLit.rd_of_wf n (h n hn)
  | blist pre ns => simp [Lit.wf] at h

theorem Arg.rd_of_wf (a : Arg) (h : a.wf = true) : a.rd = true := by
  cases a with
  | pos l => exact Lit.rd_of_wf l h
  | kw k l =>
    simp only [Arg.wf, Arg.rd, Bool.and_eq_true] at h ⊢
    exact ⟨h.1, Lit.rd_of_wf l h.2⟩

end QKV.Py
