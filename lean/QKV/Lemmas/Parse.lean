/-
  QKV.Lemmas.Parse — facts about the safe_eval model used by Props/C10:
  splitting, one-item matching, literal classification.
-/
import Mathlib.Tactic
import QKV.Model.Print
namespace QKV.Py

/-! ### characters -/

theorem keyChar_iff {c : Char} : keyChar c = true ↔
    c ≠ '=' ∧ c ≠ ',' ∧ c ≠ ')' ∧ isReSpace c = false := by
  simp [keyChar, and_assoc]

theorem isWs_of_not_reSpace {c : Char} (h : isReSpace c = false) : isWs c = false := by
  simp only [isReSpace, Bool.or_eq_false_iff] at h
  exact h.1.1.1

theorem keyChar_not_ws {c : Char} (h : keyChar c = true) : isWs c = false :=
  isWs_of_not_reSpace (keyChar_iff.1 h).2.2.2

theorem keyChar_ne_space {c : Char} (h : keyChar c = true) : c ≠ ' ' := by
  rintro rfl
  have := keyChar_not_ws h
  simp [isWs] at this

theorem isDig_keyChar {c : Char} (h : isDig c = true) : keyChar c = true := by
  simp only [isDig, Bool.and_eq_true, decide_eq_true_eq] at h
  rw [keyChar_iff]
  refine ⟨?_, ?_, ?_, ?_⟩
  · rintro rfl; revert h; decide
  · rintro rfl; revert h; decide
  · rintro rfl; revert h; decide
  · simp only [isReSpace, isWs, Bool.or_eq_false_iff, Bool.and_eq_false_iff, beq_eq_false_iff_ne,
      decide_eq_false_iff_not, not_le]
    refine ⟨⟨⟨⟨⟨⟨?_, ?_⟩, ?_⟩, ?_⟩, ?_⟩, ?_⟩, ?_⟩
    · rintro rfl; revert h; decide
    · rintro rfl; revert h; decide
    · rintro rfl; revert h; decide
    · rintro rfl; revert h; decide
    · rintro rfl; revert h; decide
    · rintro rfl; revert h; decide
    · right; omega

theorem isDig_ne {c d : Char} (h : isDig c = true) (hd : isDig d = false) : c ≠ d := by
  rintro rfl; rw [h] at hd; cases hd

/-! ### lists -/

theorem dropWhile_head_false {α : Type} (p : α → Bool) (a : α) (t : List α) (h : p a = false) :
    (a :: t).dropWhile p = a :: t := by
  simp [List.dropWhile, h]

theorem takeWhile_all_append {α : Type} (p : α → Bool) (l r : List α) (h : ∀ c ∈ l, p c = true) :
    (l ++ r).takeWhile p = l ++ r.takeWhile p := by
  induction l with
  | nil => rfl
  | cons a t ih =>
    have ha := h a List.mem_cons_self
    simp only [List.cons_append, List.takeWhile, ha]
    rw [ih fun c hc => h c (List.mem_cons_of_mem _ hc)]

theorem dropWhile_all_append {α : Type} (p : α → Bool) (l r : List α) (h : ∀ c ∈ l, p c = true) :
    (l ++ r).dropWhile p = r.dropWhile p := by
  induction l with
  | nil => rfl
  | cons a t ih =>
    have ha := h a List.mem_cons_self
    simp only [List.cons_append, List.dropWhile, ha]
    exact ih fun c hc => h c (List.mem_cons_of_mem _ hc)

theorem splitOnChar_not_mem (sep : Char) (l : List Char) (h : sep ∉ l) :
    splitOnChar sep l = [l] := by
  induction l with
  | nil => rfl
  | cons a t ih =>
    simp only [List.mem_cons, not_or] at h
    have h1 : (a == sep) = false := by simpa using fun e => h.1 e.symm
    simp only [splitOnChar, h1, ih h.2]
    rfl

theorem splitOnChar_append (sep : Char) (n b : List Char) (h : sep ∉ n) :
    splitOnChar sep (n ++ sep :: b) = n :: splitOnChar sep b := by
  induction n with
  | nil => simp [splitOnChar]
  | cons a t ih =>
    simp only [List.mem_cons, not_or] at h
    have h1 : (a == sep) = false := by simpa using fun e => h.1 e.symm
    simp only [List.cons_append, splitOnChar, h1, ih h.2]
    rfl

/-! ### splitBody -/

theorem splitBody_append (t r : List Char) (s : List Char) (ss : List (List Char))
    (ht : ∀ c ∈ t, c ≠ ',' ∧ c ≠ ')') (hr : splitBody r = some (s :: ss)) :
    splitBody (t ++ r) = some ((t ++ s) :: ss) := by
  induction t with
  | nil => simpa using hr
  | cons a u ih =>
    obtain ⟨h1, h2⟩ := ht a List.mem_cons_self
    have e1 : (a == ')') = false := by simpa using h2
    have e2 : (a == ',') = false := by simpa using h1
    simp only [List.cons_append, splitBody, e1, ih fun c hc => ht c (List.mem_cons_of_mem _ hc), e2]
    rfl

theorem splitBody_close (t rest : List Char) (ht : ∀ c ∈ t, c ≠ ',' ∧ c ≠ ')') :
    splitBody (t ++ ')' :: rest) = some [t] := by
  have := splitBody_append t (')' :: rest) [] [] ht (by simp [splitBody])
  simpa using this

theorem splitBody_comma (t r s : List Char) (ss : List (List Char))
    (ht : ∀ c ∈ t, c ≠ ',' ∧ c ≠ ')') (hr : splitBody r = some (s :: ss)) :
    splitBody (t ++ ',' :: r) = some (t :: s :: ss) := by
  have := splitBody_append t (',' :: r) [] (s :: ss) ht (by simp [splitBody, hr])
  simpa using this

theorem splitBody_join (ts : List (List Char)) (rest : List Char)
    (h : ∀ t ∈ ts, ∀ c ∈ t, c ≠ ',' ∧ c ≠ ')') (hne : ts ≠ []) :
    splitBody (joinComma ts ++ ')' :: rest) = some ts := by
  induction ts with
  | nil => exact absurd rfl hne
  | cons a u ih =>
    cases u with
    | nil => simpa [joinComma] using splitBody_close a rest (h a List.mem_cons_self)
    | cons b v =>
      have ih' := ih (fun t ht => h t (List.mem_cons_of_mem _ ht)) (by simp)
      simp only [joinComma, List.append_assoc, List.cons_append]
      exact splitBody_comma a _ b v (h a List.mem_cons_self) ih'

/-! ### one item -/

/-- characters that may appear in a positional token, none of them an opening parenthesis -/
def TokText (t : List Char) : Prop := ∀ c ∈ t, keyChar c = true ∧ c ≠ '('

theorem TokText.append {a b : List Char} (ha : TokText a) (hb : TokText b) : TokText (a ++ b) := by
  intro c hc
  rcases List.mem_append.1 hc with h | h
  · exact ha c h
  · exact hb c h

theorem TokText.cons {a : Char} {b : List Char} (ha : keyChar a = true ∧ a ≠ '(') (hb : TokText b) :
    TokText (a :: b) := by
  intro c hc
  rcases List.mem_cons.1 hc with rfl | h
  · exact ha
  · exact hb c h

theorem TokText.noSep {t : List Char} (h : TokText t) : ∀ c ∈ t, c ≠ ',' ∧ c ≠ ')' := fun c hc =>
  ⟨(keyChar_iff.1 (h c hc).1).2.1, (keyChar_iff.1 (h c hc).1).2.2.1⟩

theorem parseSeg_pos (t : List Char) (ht : TokText t) (hne : t ≠ []) :
    parseSeg t = some (.pos t) := by
  obtain ⟨a, u, rfl⟩ := List.exists_cons_of_ne_nil hne
  have hk : ∀ c ∈ a :: u, keyChar c = true := fun c hc => (ht c hc).1
  have hws : isWs a = false := keyChar_not_ws (hk a List.mem_cons_self)
  unfold parseSeg
  simp only [dropWhile_head_false isWs a u hws]
  have h1 : (a :: u).takeWhile keyChar = a :: u := by
    have := takeWhile_all_append keyChar (a :: u) [] hk
    simpa using this
  have h2 : (a :: u).dropWhile keyChar = [] := by
    have := dropWhile_all_append keyChar (a :: u) [] hk
    simpa using this
  rw [h1, h2]
  rfl

theorem parseSeg_kw (k v : List Char) (hk : TokText k) (hne : k ≠ [])
    (hv : v = [] ∨ ∃ a u, v = a :: u ∧ isWs a = false) :
    parseSeg (k ++ '=' :: v) = some (.kw k v) := by
  obtain ⟨a, u, rfl⟩ := List.exists_cons_of_ne_nil hne
  have hkc : ∀ c ∈ a :: u, keyChar c = true := fun c hc => (hk c hc).1
  have hws : isWs a = false := keyChar_not_ws (hkc a List.mem_cons_self)
  have heq : keyChar '=' = false := by decide
  unfold parseSeg
  have h0 : ((a :: u) ++ '=' :: v).dropWhile isWs = (a :: u) ++ '=' :: v := by
    simp only [List.cons_append]; exact dropWhile_head_false isWs a _ hws
  have h1 : ((a :: u) ++ '=' :: v).takeWhile keyChar = a :: u := by
    rw [takeWhile_all_append keyChar (a :: u) _ hkc]
    simp [List.takeWhile, heq]
  have h2 : ((a :: u) ++ '=' :: v).dropWhile keyChar = '=' :: v := by
    rw [dropWhile_all_append keyChar (a :: u) _ hkc]
    simp [List.dropWhile, heq]
  have hweq : isWs '=' = false := by decide
  have hv' : v.dropWhile isWs = v := by
    rcases hv with rfl | ⟨b, w, rfl, hb⟩
    · rfl
    · exact dropWhile_head_false isWs b w hb
  simp only [h0, h1, h2, dropWhile_head_false isWs '=' v hweq, hv']
  simp

/-! ### literal text -/

theorem allDigits_iff {ds : List Char} : allDigits ds = true ↔ ds ≠ [] ∧ ∀ c ∈ ds, isDig c = true := by
  cases ds <;> simp [allDigits]

theorem isDig_tok {c : Char} (h : isDig c = true) : keyChar c = true ∧ c ≠ '(' :=
  ⟨isDig_keyChar h, by rintro rfl; revert h; decide⟩

theorem digits_tok {ds : List Char} (h : ∀ c ∈ ds, isDig c = true) : TokText ds :=
  fun c hc => isDig_tok (h c hc)

theorem signText_tok (neg : Bool) : TokText (signText neg) := by
  cases neg <;> simp only [signText] <;> intro c hc
  · cases hc
  · simp only [if_true, List.mem_singleton] at hc ⊢
    subst hc; decide

theorem Lit.text_tok (l : Lit) (h : l.wf = true) : TokText l.text ∧ l.text ≠ [] := by
  cases l with
  | none => exact ⟨by unfold TokText Lit.text; decide, by decide⟩
  | bool b => cases b <;> exact ⟨by unfold TokText Lit.text; decide, by decide⟩
  | int neg ds =>
    simp only [Lit.wf, Bool.and_eq_true] at h
    obtain ⟨hne, hd⟩ := allDigits_iff.1 h.1
    refine ⟨(signText_tok neg).append (digits_tok hd), ?_⟩
    simp [Lit.text, hne]
  | float neg ip fp ex =>
    simp only [Lit.wf, Bool.and_eq_true] at h
    obtain ⟨⟨⟨hip, hfp⟩, _⟩, hex⟩ := h
    obtain ⟨hine, hid⟩ := allDigits_iff.1 hip
    obtain ⟨_, hfd⟩ := allDigits_iff.1 hfp
    refine ⟨?_, by simp [Lit.text]⟩
    simp only [Lit.text]
    have hdot : keyChar '.' = true ∧ '.' ≠ '(' := by decide
    have he : keyChar 'e' = true ∧ 'e' ≠ '(' := by decide
    refine (signText_tok neg).append ((digits_tok hid).append (TokText.cons hdot ?_))
    refine (digits_tok hfd).append ?_
    cases ex with
    | none => intro c hc; cases hc
    | some p =>
      obtain ⟨eneg, ds⟩ := p
      simp only at hex
      exact TokText.cons he ((signText_tok eneg).append (digits_tok (allDigits_iff.1 hex).2))
  | str dq cs =>
    simp only [Lit.wf, List.all_eq_true] at h
    refine ⟨?_, by simp [Lit.text]⟩
    have hq : keyChar (quoteChar dq) = true ∧ quoteChar dq ≠ '(' := by
      cases dq <;> decide
    have hcs : TokText cs := by
      intro c hc
      have := h c hc
      simp only [strChar, Bool.and_eq_true, Bool.not_eq_true', Bool.or_eq_false_iff,
        beq_eq_false_iff_ne] at this
      exact ⟨this.1, this.2.1.1.1⟩
    simp only [Lit.text]
    exact TokText.cons hq (hcs.append (TokText.cons hq (fun c hc => by cases hc)))

/-! ### literal classification: `GetArg(text) = value` -/

theorem dropWhile_none {α : Type} (p : α → Bool) (t : List α) (h : ∀ c ∈ t, p c = false) :
    t.dropWhile p = t := by
  cases t with
  | nil => rfl
  | cons a u => exact dropWhile_head_false p a u (h a List.mem_cons_self)

theorem stripWs_tok {t : List Char} (h : TokText t) : stripWs t = t := by
  have hp : ∀ c ∈ t, isReSpace c = false := fun c hc => (keyChar_iff.1 (h c hc).1).2.2.2
  unfold stripWs
  rw [dropWhile_none _ _ hp, dropWhile_none _ _ (fun c hc => hp c (List.mem_reverse.1 hc)),
    List.reverse_reverse]

theorem splitSign_other (a : Char) (r : List Char) (h1 : a ≠ '-') (h2 : a ≠ '+') :
    splitSign (a :: r) = (false, a :: r) := by
  unfold splitSign
  split
  · rename_i heq; cases heq; exact absurd rfl h1
  · rename_i heq; cases heq; exact absurd rfl h2
  · rfl

theorem splitSign_digits {ds : List Char} (h : allDigits ds = true) : splitSign ds = (false, ds) := by
  obtain ⟨hne, hd⟩ := allDigits_iff.1 h
  obtain ⟨a, u, rfl⟩ := List.exists_cons_of_ne_nil hne
  have ha := hd a List.mem_cons_self
  exact splitSign_other a u (by rintro rfl; revert ha; decide) (by rintro rfl; revert ha; decide)

theorem splitSign_signText (neg : Bool) {ds : List Char} (h : allDigits ds = true) :
    splitSign (signText neg ++ ds) = (neg, ds) := by
  cases neg
  · simpa [signText] using splitSign_digits h
  · simp [signText, splitSign]

theorem splitSign_signText' (neg : Bool) (a : Char) (r : List Char) (ha : isDig a = true) :
    splitSign (signText neg ++ a :: r) = (neg, a :: r) := by
  cases neg
  · simpa [signText] using
      splitSign_other a r (by rintro rfl; revert ha; decide) (by rintro rfl; revert ha; decide)
  · simp [signText, splitSign]

theorem allDigits_append_nondigit (ip : List Char) (c : Char) (r : List Char) (hc : isDig c = false) :
    allDigits (ip ++ c :: r) = false := by
  simp [allDigits, hc]

theorem head_ne {s t : List Char} {a : Char} (hs : s.head? = some a) (ht : t.head? ≠ some a) :
    s ≠ t := by
  rintro rfl; exact ht hs

/-- a text whose first character is a sign, digit or quote is none of the three keywords -/
theorem not_keyword {s : List Char} {a : Char} (hs : s.head? = some a)
    (h : a ≠ 'T' ∧ a ≠ 'F' ∧ a ≠ 'N') :
    s ≠ "True".toList ∧ s ≠ "False".toList ∧ s ≠ "None".toList := by
  refine ⟨head_ne hs ?_, head_ne hs ?_, head_ne hs ?_⟩
  · intro e; exact h.1 (by simpa using e.symm)
  · intro e; exact h.2.1 (by simpa using e.symm)
  · intro e; exact h.2.2 (by simpa using e.symm)

theorem signText_head (neg : Bool) (a : Char) (r : List Char) (ha : isDig a = true) :
    ∃ b, (signText neg ++ a :: r).head? = some b ∧ b ≠ 'T' ∧ b ≠ 'F' ∧ b ≠ 'N' := by
  cases neg
  · exact ⟨a, by simp [signText], by rintro rfl; revert ha; decide,
      by rintro rfl; revert ha; decide, by rintro rfl; revert ha; decide⟩
  · exact ⟨'-', by simp [signText], by decide, by decide, by decide⟩

theorem getArg_num {s : List Char} {n : Num} (h1 : s ≠ "True".toList) (h2 : s ≠ "False".toList)
    (hn : pyNum s = some n) : getArg s = n.toVal := by
  unfold getArg
  rw [if_neg h1, if_neg h2, hn]

theorem getArg_int (neg : Bool) (ds : List Char) (h : allDigits ds = true) :
    getArg (signText neg ++ ds) = .int (signed neg (digitsVal ds)) := by
  obtain ⟨hne, hd⟩ := allDigits_iff.1 h
  obtain ⟨a, u, rfl⟩ := List.exists_cons_of_ne_nil hne
  obtain ⟨b, hb, hb'⟩ := signText_head neg a u (hd a List.mem_cons_self)
  obtain ⟨k1, k2, _⟩ := not_keyword hb hb'
  have htok : TokText (signText neg ++ a :: u) := (signText_tok neg).append (digits_tok hd)
  have hi : pyIntOf (signText neg ++ a :: u) = some (signed neg (digitsVal (a :: u))) := by
    unfold pyIntOf
    simp only [stripWs_tok htok, splitSign_signText neg h, h, if_true]
    cases neg <;> rfl
  exact getArg_num (n := .int (signed neg (digitsVal (a :: u)))) k1 k2 (by simp [pyNum, hi])

theorem expPart_expText (ex : Option (Bool × List Char))
    (h : match ex with | none => True | some p => allDigits p.2 = true) :
    expPart (expText ex) = some (match ex with
      | none => 0
      | some p => signed p.1 (digitsVal p.2)) := by
  cases ex with
  | none => rfl
  | some p =>
    obtain ⟨eneg, ds⟩ := p
    simp only at h
    simp only [expText, expPart, beq_self_eq_true, Bool.true_or, if_true, splitSign_signText eneg h, h]
    cases eneg <;> rfl

theorem expText_head_nondigit (ex : Option (Bool × List Char)) :
    ∀ c ∈ (expText ex).head?, isDig c = false := by
  cases ex with
  | none => intro c hc; cases hc
  | some p => intro c hc; simp [expText] at hc; subst hc; decide

theorem takeWhile_digits_then (ds r : List Char) (hd : ∀ c ∈ ds, isDig c = true)
    (hr : ∀ c ∈ r.head?, isDig c = false) :
    (ds ++ r).takeWhile isDig = ds ∧ (ds ++ r).dropWhile isDig = r := by
  rw [takeWhile_all_append _ _ _ hd, dropWhile_all_append _ _ _ hd]
  cases r with
  | nil => simp
  | cons a u =>
    have := hr a (by simp)
    simp [List.takeWhile, List.dropWhile, this]

theorem getArg_float (neg : Bool) (ip fp : List Char) (ex : Option (Bool × List Char))
    (hip : allDigits ip = true) (hfp : allDigits fp = true)
    (hex : match ex with | none => True | some p => allDigits p.2 = true) :
    getArg (Lit.float neg ip fp ex).text = (Lit.float neg ip fp ex).val := by
  obtain ⟨hine, hid⟩ := allDigits_iff.1 hip
  obtain ⟨hfne, hfd⟩ := allDigits_iff.1 hfp
  obtain ⟨a, u, rfl⟩ := List.exists_cons_of_ne_nil hine
  have hwf : (Lit.float neg (a :: u) fp ex).wf = true ∨ True := Or.inr trivial
  have hdotd : isDig '.' = false := by decide
  -- the text is a token text
  have htok : TokText (Lit.float neg (a :: u) fp ex).text := by
    simp only [Lit.text]
    have hdot : keyChar '.' = true ∧ '.' ≠ '(' := by decide
    have he : keyChar 'e' = true ∧ 'e' ≠ '(' := by decide
    refine (signText_tok neg).append ((digits_tok hid).append (TokText.cons hdot ?_))
    refine (digits_tok hfd).append ?_
    cases ex with
    | none => intro c hc; cases hc
    | some p =>
      obtain ⟨eneg, ds⟩ := p
      exact TokText.cons he ((signText_tok eneg).append (digits_tok (allDigits_iff.1 hex).2))
  have htext : (Lit.float neg (a :: u) fp ex).text =
      signText neg ++ a :: (u ++ '.' :: (fp ++ expText ex)) := by simp [Lit.text]
  obtain ⟨b, hb, hb'⟩ := signText_head neg a (u ++ '.' :: (fp ++ expText ex)) (hid a List.mem_cons_self)
  rw [← htext] at hb
  obtain ⟨k1, k2, _⟩ := not_keyword hb hb'
  have hsplit : splitSign (Lit.float neg (a :: u) fp ex).text =
      (neg, (a :: u) ++ '.' :: (fp ++ expText ex)) := by
    rw [htext]; exact splitSign_signText' neg a _ (hid a List.mem_cons_self)
  have hi : pyIntOf (Lit.float neg (a :: u) fp ex).text = none := by
    unfold pyIntOf
    simp only [stripWs_tok htok, hsplit, allDigits_append_nondigit _ '.' _ hdotd]
    rfl
  obtain ⟨t1, d1⟩ := takeWhile_digits_then (a :: u) ('.' :: (fp ++ expText ex)) hid
    (by intro c hc; simp at hc; subst hc; exact hdotd)
  obtain ⟨t2, d2⟩ := takeWhile_digits_then fp (expText ex) hfd (expText_head_nondigit ex)
  have hf : pyFloatOf (Lit.float neg (a :: u) fp ex).text =
      some (match (Lit.float neg (a :: u) fp ex).val with | .float q => q | _ => 0) := by
    unfold pyFloatOf
    simp only [stripWs_tok htok, hsplit, t1, d1, fracPart, t2, d2, expPart_expText ex hex]
    have : (a :: u).isEmpty = false := rfl
    simp only [this, Bool.false_and, Bool.false_eq_true, if_false, Lit.val]
    cases ex <;> rfl
  have hv : ∃ q, (Lit.float neg (a :: u) fp ex).val = .float q := ⟨_, rfl⟩
  obtain ⟨q, hq⟩ := hv
  rw [hq] at hf ⊢
  exact getArg_num (n := .float q) k1 k2 (by simp [pyNum, hi, hf])

theorem getArg_str (dq : Bool) (cs : List Char) (h : cs.all strChar = true) :
    getArg (Lit.str dq cs).text = .str (String.ofList cs) := by
  have htok := (Lit.text_tok (.str dq cs) (by simpa [Lit.wf] using h)).1
  have hq1 : isDig (quoteChar dq) = false := by cases dq <;> decide
  have hq2 : quoteChar dq ≠ '-' ∧ quoteChar dq ≠ '+' ∧ quoteChar dq ≠ '.' := by cases dq <;> decide
  have hq3 : quoteChar dq ≠ 'T' ∧ quoteChar dq ≠ 'F' ∧ quoteChar dq ≠ 'N' := by cases dq <;> decide
  have htext : (Lit.str dq cs).text = quoteChar dq :: (cs ++ [quoteChar dq]) := rfl
  obtain ⟨k1, k2, k3⟩ := not_keyword (s := (Lit.str dq cs).text) (by rw [htext]; rfl) hq3
  have hi : pyIntOf (Lit.str dq cs).text = none := by
    unfold pyIntOf
    rw [stripWs_tok htok, htext, splitSign_other _ _ hq2.1 hq2.2.1]
    simp [allDigits, hq1]
  have hf : pyFloatOf (Lit.str dq cs).text = none := by
    unfold pyFloatOf
    rw [stripWs_tok htok, htext, splitSign_other _ _ hq2.1 hq2.2.1]
    have t1 : (quoteChar dq :: (cs ++ [quoteChar dq])).takeWhile isDig = [] := by
      simp [List.takeWhile, hq1]
    have d1 : (quoteChar dq :: (cs ++ [quoteChar dq])).dropWhile isDig =
        quoteChar dq :: (cs ++ [quoteChar dq]) := dropWhile_head_false _ _ _ hq1
    have fr : fracPart (quoteChar dq :: (cs ++ [quoteChar dq])) =
        ([], quoteChar dq :: (cs ++ [quoteChar dq])) := by
      cases dq <;> rfl
    simp only [t1, d1, fr]
    rfl
  have hl : isListOfNums (Lit.str dq cs).text = false := by
    unfold isListOfNums
    have hsp : ' ' ∉ removeBrackets (Lit.str dq cs).text := by
      intro hm
      have hm' := (List.mem_filter.1 hm).1
      exact keyChar_ne_space (htok _ hm').1 rfl
    rw [splitOnChar_not_mem _ _ hsp]
    rfl
  have hd : ((Lit.str dq cs).text.drop 1).dropLast = cs := by
    rw [htext]; simp
  have hn : pyNum (Lit.str dq cs).text = none := by simp [pyNum, hi, hf]
  unfold getArg
  rw [if_neg k1, if_neg k2, hn]
  simp only [if_neg k3, hl, hd]
  rfl

/-- `GetArg` reads every well-formed literal of the grammar as Python does -/
theorem getArg_lit (l : Lit) (h : l.wf = true) : getArg l.text = l.val := by
  cases l with
  | none => decide
  | bool b => cases b <;> decide
  | int neg ds =>
    simp only [Lit.wf, Bool.and_eq_true] at h
    exact getArg_int neg ds h.1
  | float neg ip fp ex =>
    simp only [Lit.wf, Bool.and_eq_true] at h
    obtain ⟨⟨⟨hip, hfp⟩, _⟩, hex⟩ := h
    refine getArg_float neg ip fp ex hip hfp ?_
    cases ex with
    | none => trivial
    | some p => simpa using hex
  | str dq cs =>
    simp only [Lit.wf] at h
    exact getArg_str dq cs h

/-! ### the whole call -/

theorem identChar_tok {c : Char} (h : identChar c = true) : keyChar c = true ∧ c ≠ '(' := by
  have h48 : 48 ≤ c.toNat := by
    simp only [identChar, Bool.or_eq_true, Bool.and_eq_true, decide_eq_true_eq, beq_iff_eq] at h
    omega
  refine ⟨?_, by rintro rfl; revert h48; decide⟩
  rw [keyChar_iff]
  refine ⟨by rintro rfl; revert h; decide, by rintro rfl; revert h48; decide,
    by rintro rfl; revert h48; decide, ?_⟩
  simp only [isReSpace, isWs, Bool.or_eq_false_iff, Bool.and_eq_false_iff, beq_eq_false_iff_ne,
    decide_eq_false_iff_not, not_le]
  refine ⟨⟨⟨⟨⟨⟨?_, ?_⟩, ?_⟩, ?_⟩, ?_⟩, ?_⟩, ?_⟩
  · rintro rfl; revert h48; decide
  · rintro rfl; revert h48; decide
  · rintro rfl; revert h48; decide
  · rintro rfl; revert h48; decide
  · rintro rfl; revert h48; decide
  · rintro rfl; revert h48; decide
  · right; omega

theorem isIdent_tok {k : String} (h : isIdent k = true) : TokText k.toList ∧ k.toList ≠ [] := by
  unfold isIdent at h
  simp only [Bool.and_eq_true] at h
  obtain ⟨_, h⟩ := h
  cases heq : k.toList with
  | nil => rw [heq] at h; cases h
  | cons c cs =>
    rw [heq] at h
    simp only [isIdentText, Bool.and_eq_true, List.all_eq_true] at h
    exact ⟨TokText.cons (identChar_tok h.1.2) fun d hd => identChar_tok (h.2 d hd), by simp⟩

def toItem : Arg → Item
  | .pos l => .pos l.text
  | .kw k l => .kw k.toList l.text

/-- the text of a well-formed argument contains none of `,` `)` `(` and is not blank -/
theorem Arg.text_clean (a : Arg) (h : a.wf = true) :
    (∀ c ∈ a.text, c ≠ ',' ∧ c ≠ ')' ∧ c ≠ '(') ∧ ∃ b u, a.text = b :: u ∧ isWs b = false := by
  cases a with
  | pos l =>
    obtain ⟨ht, hne⟩ := Lit.text_tok l h
    obtain ⟨b, u, hbu⟩ := List.exists_cons_of_ne_nil hne
    refine ⟨fun c hc => ⟨(ht.noSep c hc).1, (ht.noSep c hc).2, (ht c hc).2⟩, b, u, hbu, ?_⟩
    exact keyChar_not_ws (ht b (by rw [hbu]; exact List.mem_cons_self)).1
  | kw k l =>
    simp only [Arg.wf, Bool.and_eq_true] at h
    obtain ⟨hk, hkne⟩ := isIdent_tok h.1
    obtain ⟨ht, _⟩ := Lit.text_tok l h.2
    obtain ⟨b, u, hbu⟩ := List.exists_cons_of_ne_nil hkne
    refine ⟨?_, b, u ++ '=' :: l.text, by simp [Arg.text, hbu], ?_⟩
    · intro c hc
      simp only [Arg.text, List.mem_append, List.mem_cons] at hc
      rcases hc with hc | rfl | hc
      · exact ⟨(hk.noSep c hc).1, (hk.noSep c hc).2, (hk c hc).2⟩
      · decide
      · exact ⟨(ht.noSep c hc).1, (ht.noSep c hc).2, (ht c hc).2⟩
    · exact keyChar_not_ws (hk b (by rw [hbu]; exact List.mem_cons_self)).1

theorem parseSeg_arg (a : Arg) (h : a.wf = true) : parseSeg a.text = some (toItem a) := by
  cases a with
  | pos l =>
    obtain ⟨ht, hne⟩ := Lit.text_tok l h
    exact parseSeg_pos _ ht hne
  | kw k l =>
    simp only [Arg.wf, Bool.and_eq_true] at h
    obtain ⟨hk, hkne⟩ := isIdent_tok h.1
    obtain ⟨ht, hne⟩ := Lit.text_tok l h.2
    obtain ⟨b, u, hbu⟩ := List.exists_cons_of_ne_nil hne
    refine parseSeg_kw _ _ hk hkne (Or.inr ⟨b, u, hbu, ?_⟩)
    exact keyChar_not_ws (ht b (by rw [hbu]; exact List.mem_cons_self)).1

theorem mapOpt_parseSeg (as : List Arg) (h : ∀ a ∈ as, a.wf = true) :
    mapOpt parseSeg (as.map Arg.text) = some (as.map toItem) := by
  induction as with
  | nil => rfl
  | cons a t ih =>
    simp only [List.map_cons, mapOpt, parseSeg_arg a (h a List.mem_cons_self),
      ih fun b hb => h b (List.mem_cons_of_mem _ hb)]

theorem parseItems_render (as : List Arg) (h : ∀ a ∈ as, a.wf = true) (rest : List Char) :
    parseItems (joinComma (as.map Arg.text) ++ ')' :: rest) = .ok (as.map toItem) := by
  cases as with
  | nil => simp [parseItems, joinComma, splitBody]
  | cons a t =>
    have hsb := splitBody_join ((a :: t).map Arg.text) rest
      (fun s hs c hc => by
        obtain ⟨b, hb, rfl⟩ := List.mem_map.1 hs
        have := (Arg.text_clean b (h b hb)).1 c hc
        exact ⟨this.1, this.2.1⟩) (by simp)
    unfold parseItems
    rw [hsb]
    obtain ⟨b, u, hbu, hws⟩ := (Arg.text_clean a (h a List.mem_cons_self)).2
    have hnotws : (((a :: t).map Arg.text).all fun s => s.all isWs) = false := by
      simp [hbu, hws]
    simp only [hnotws, Bool.and_false, Bool.false_eq_true, if_false, mapOpt_parseSeg (a :: t) h]

theorem itemArgs_render (as : List Arg) (h : ∀ a ∈ as, a.wf = true) :
    itemArgs (as.map toItem) = argVals as := by
  induction as with
  | nil => rfl
  | cons a t ih =>
    have iht := ih fun b hb => h b (List.mem_cons_of_mem _ hb)
    cases a with
    | pos l =>
      simp only [List.map_cons, toItem, itemArgs, argVals, iht]
      rw [getArg_lit l (h _ List.mem_cons_self)]
    | kw k l => simpa only [List.map_cons, toItem, itemArgs, argVals] using iht

theorem itemKwargs_render (as : List Arg) (h : ∀ a ∈ as, a.wf = true) (d : Env)
    (hn : (d.keys ++ argKeys as).Nodup) :
    itemKwargs d (as.map toItem) = d ++ argKwargs as := by
  induction as generalizing d with
  | nil => simp [itemKwargs, argKwargs]
  | cons a t ih =>
    have hwt := fun b hb => h b (List.mem_cons_of_mem _ hb)
    cases a with
    | pos l =>
      simp only [List.map_cons, toItem, itemKwargs, argKwargs]
      exact ih hwt d (by simpa [argKeys, argKwargs] using hn)
    | kw k l =>
      have hl : l.wf = true := by
        have := h _ List.mem_cons_self
        simp only [Arg.wf, Bool.and_eq_true] at this
        exact this.2
      simp only [List.map_cons, toItem, itemKwargs, argKwargs, String.ofList_toList,
        getArg_lit l hl]
      have hk : k ∉ d.keys := by
        intro hm
        simp only [argKeys, argKwargs, List.map_cons] at hn
        have := (List.nodup_append.1 hn).2.2 k hm k List.mem_cons_self
        exact this rfl
      have hins : dictInsert d k l.val = d ++ [(k, l.val)] := by
        unfold dictInsert
        simp [hk]
      rw [hins, ih hwt]
      · simp
      · simp only [argKeys, argKwargs, List.map_cons, Env.keys, List.map_append] at hn ⊢
        simpa [List.append_assoc] using hn

theorem badOrder_render (as : List Arg) : badOrder (as.map toItem) = argBadOrder as := by
  induction as with
  | nil => rfl
  | cons a t ih =>
    cases t with
    | nil => rfl
    | cons b u =>
      simp only [List.map_cons, badOrder, argBadOrder] at ih ⊢
      rw [ih]
      cases a <;> cases b <;> rfl

theorem argBadOrder_eq (as : List Arg) : argBadOrder as = argPosAfterKw as := by
  induction as with
  | nil => rfl
  | cons a t ih =>
    cases t with
    | nil => cases a <;> simp [argBadOrder, argPosAfterKw]
    | cons b u =>
      simp only [argBadOrder] at ih ⊢
      rw [ih]
      cases a <;> cases b <;> simp [argPosAfterKw]

theorem mem_joinComma {ts : List (List Char)} {c : Char} (h : c ∈ joinComma ts) :
    c = ',' ∨ ∃ t ∈ ts, c ∈ t := by
  induction ts with
  | nil => cases h
  | cons a u ih =>
    cases u with
    | nil => exact Or.inr ⟨a, List.mem_cons_self, by simpa [joinComma] using h⟩
    | cons b v =>
      simp only [joinComma, List.mem_append, List.mem_cons] at h
      rcases h with h | rfl | h
      · exact Or.inr ⟨a, List.mem_cons_self, h⟩
      · exact Or.inl rfl
      · rcases ih h with rfl | ⟨t, ht, hc⟩
        · exact Or.inl rfl
        · exact Or.inr ⟨t, List.mem_cons_of_mem _ ht, hc⟩

/-- splitting the rendered call at "(" gives the name and the argument text -/
theorem split_render (name : String) (as : List Arg) (hname : isIdent name = true)
    (h : ∀ a ∈ as, a.wf = true) :
    splitOnChar '(' (render name as) = [name.toList, joinComma (as.map Arg.text) ++ [')']] := by
  unfold render
  have h1 : '(' ∉ name.toList := fun hm => ((isIdent_tok hname).1 _ hm).2 rfl
  have h2 : '(' ∉ joinComma (as.map Arg.text) ++ [')'] := by
    intro hm
    rcases List.mem_append.1 hm with hm | hm
    · rcases mem_joinComma hm with he | ⟨t, ht, hc⟩
      · revert he; decide
      · obtain ⟨a, ha, rfl⟩ := List.mem_map.1 ht
        exact ((Arg.text_clean a (h a ha)).1 _ hc).2.2 rfl
    · simp at hm
  rw [splitOnChar_append _ _ _ h1, splitOnChar_not_mem _ _ h2]

theorem expandTabs_noTab (t : List Char) (h : ∀ c ∈ t, c ≠ '\t') (col : Nat) :
    expandTabsFrom col t = t := by
  induction t generalizing col with
  | nil => rfl
  | cons a u ih =>
    have ha : (a == '\t') = false := by simpa using h a List.mem_cons_self
    have iu := fun col => ih (fun c hc => h c (List.mem_cons_of_mem _ hc)) col
    simp only [expandTabsFrom, ha, Bool.false_eq_true, if_false]
    split <;> rw [iu]

theorem tok_ne_tab {c : Char} (h : keyChar c = true) : c ≠ '\t' := by
  rintro rfl
  have := keyChar_not_ws h
  simp [isWs] at this

theorem Arg.text_noTab (a : Arg) (h : a.wf = true) : ∀ c ∈ a.text, c ≠ '\t' := by
  cases a with
  | pos l => exact fun c hc => tok_ne_tab ((Lit.text_tok l h).1 c hc).1
  | kw k l =>
    simp only [Arg.wf, Bool.and_eq_true] at h
    intro c hc
    simp only [Arg.text, List.mem_append, List.mem_cons] at hc
    rcases hc with hc | rfl | hc
    · exact tok_ne_tab ((isIdent_tok h.1).1 c hc).1
    · decide
    · exact tok_ne_tab ((Lit.text_tok l h.2).1 c hc).1

theorem render_body_noTab (as : List Arg) (h : ∀ a ∈ as, a.wf = true) :
    ∀ c ∈ joinComma (as.map Arg.text) ++ [')'], c ≠ '\t' := by
  intro c hc
  rcases List.mem_append.1 hc with hc | hc
  · rcases mem_joinComma hc with rfl | ⟨t, ht, hct⟩
    · decide
    · obtain ⟨a, ha, rfl⟩ := List.mem_map.1 ht
      exact Arg.text_noTab a (h a ha) c hct
  · simp only [List.mem_singleton] at hc; subst hc; decide

/-- the safe_eval reading of a rendered call, before the order / repetition verdict -/
theorem parseCall_render (name : String) (as : List Arg) (hname : isIdent name = true)
    (h : ∀ a ∈ as, a.wf = true) :
    parseCall (render name as) =
      if argPosAfterKw as then .error .syntaxError
      else .ok ⟨name, argVals as, itemKwargs [] (as.map toItem), true⟩ := by
  unfold parseCall
  rw [split_render name as hname h]
  simp only [getParams, expandTabs_noTab _ (render_body_noTab as h), parseItems_render as h [],
    badOrder_render, argBadOrder_eq,
    itemArgs_render as h, String.ofList_toList]
  cases argPosAfterKw as <;> rfl

end QKV.Py
