/- helper lemmas for the QNoiseScheduler state machine (C07) -/
import Mathlib.Tactic
import QKV.Lemmas.QNoise
import QKV.Model.Sched
namespace QKV.Sched
open QKV.QNoise

/-! ## get_quantizers -/

theorem foldl_append_flatMap {α β : Type} (f : α → List β) (ls : List α) (init : List β) :
    ls.foldl (fun acc l => acc ++ f l) init = init ++ ls.flatMap f := by
  induction ls generalizing init with
  | nil => simp
  | cons a t ih => simp [List.foldl_cons, ih, List.append_assoc]

theorem getQuantizers_eq_flatMap (layers : List Layer) :
    getQuantizers layers = layers.flatMap layerQuantizers := by
  unfold getQuantizers
  rw [foldl_append_flatMap]; simp

theorem layerQuantizers_eq_filter (l : Layer) :
    layerQuantizers l = l.held.filter QObj.hasKnob := by
  unfold layerQuantizers Layer.held
  rw [List.filter_append]
  congr 1
  · cases l.quantizers <;> simp
  · cases h : l.quantizer with
    | none => simp
    | some q => by_cases hk : q.hasKnob <;> simp [hk]

theorem filter_flatMap' {α β : Type} (p : β → Bool) (f : α → List β) (ls : List α) :
    (ls.flatMap f).filter p = ls.flatMap (fun a => (f a).filter p) := by
  induction ls with
  | nil => simp
  | cons a t ih => simp [List.flatMap_cons, List.filter_append, ih]

theorem getQuantizers_eq_filter (layers : List Layer) :
    getQuantizers layers = (layers.flatMap Layer.held).filter QObj.hasKnob := by
  rw [getQuantizers_eq_flatMap, filter_flatMap']
  congr 1
  funext l
  exact layerQuantizers_eq_filter l

/-! ## calculate_qnoise_factor -/

/-- hypotheses on the numeric environment (satisfied by `r ↦ r^(k+1)` with exact arithmetic) -/
structure NumOK (n : Num) : Prop where
  pw_mono : ∀ a b, 0 ≤ a → a ≤ b → b ≤ 1 → n.pw a ≤ n.pw b
  pw_zero : n.pw 0 = 0
  pw_one : n.pw 1 = 1
  r64_mono : ∀ a b, 0 ≤ a → a ≤ b → n.rd.r64 a ≤ n.rd.r64 b
  r64_zero : n.rd.r64 0 = 0
  r64_one : n.rd.r64 1 = 1

theorem val_bounds {n : Num} (h : NumOK n) {a b : ℤ} (ha : 0 ≤ a) (hab : a ≤ b) (hb : 0 < b) :
    0 ≤ n.rd.r64 ((a : ℚ) / (b : ℚ)) ∧ n.rd.r64 ((a : ℚ) / (b : ℚ)) ≤ 1 := by
  have hb' : (0 : ℚ) < b := by exact_mod_cast hb
  have h0 : (0 : ℚ) ≤ (a : ℚ) / b := div_nonneg (by exact_mod_cast ha) hb'.le
  have h1 : (a : ℚ) / b ≤ 1 := by
    rw [div_le_one hb']; exact_mod_cast hab
  constructor
  · have := h.r64_mono _ _ le_rfl h0; rwa [h.r64_zero] at this
  · have := h.r64_mono _ _ h0 h1; rwa [h.r64_one] at this

theorem mid_bounds {n : Num} (h : NumOK n) {v : ℚ} (h0 : 0 ≤ v) (h1 : v ≤ 1) :
    0 ≤ n.rd.r64 (1 - n.pw v) ∧ n.rd.r64 (1 - n.pw v) ≤ 1 := by
  have p0 : 0 ≤ n.pw v := by have := h.pw_mono 0 v le_rfl h0 h1; rwa [h.pw_zero] at this
  have p1 : n.pw v ≤ 1 := by have := h.pw_mono v 1 h0 h1 le_rfl; rwa [h.pw_one] at this
  constructor
  · have := h.r64_mono 0 (1 - n.pw v) le_rfl (by linarith); rwa [h.r64_zero] at this
  · have := h.r64_mono (1 - n.pw v) 1 (by linarith) (by linarith); rwa [h.r64_one] at this

theorem calcF_bounds (c : Cfg) {n : Num} (h : NumOK n) (freq : ℤ) :
    0 ≤ calcF c n freq ∧ calcF c n freq ≤ 1 := by
  unfold calcF
  split_ifs with h1 h2
  · exact ⟨le_rfl, zero_le_one⟩
  · obtain ⟨h2a, h2b⟩ := h2
    have hv := val_bounds h (a := c.finish - freq) (b := c.finish - c.start) (by omega) (by omega) (by omega)
    exact mid_bounds h hv.1 hv.2
  · exact ⟨zero_le_one, le_rfl⟩

theorem calcF_mono (c : Cfg) {n : Num} (h : NumOK n) {f1 f2 : ℤ} (h12 : f1 ≤ f2) :
    calcF c n f1 ≤ calcF c n f2 := by
  have b2 := calcF_bounds c h f2
  have b1 := calcF_bounds c h f1
  by_cases h1 : f1 < c.start
  · have : calcF c n f1 = 0 := by simp [calcF, h1]
    rw [this]; exact b2.1
  by_cases h2 : f2 ≤ c.finish ∧ c.start ≠ c.finish
  · -- both in the ramp
    obtain ⟨h2a, h2b⟩ := h2
    have e1 : calcF c n f1 = n.rd.r64 (1 - n.pw (n.rd.r64
        (((c.finish - f1 : ℤ) : ℚ) / ((c.finish - c.start : ℤ) : ℚ)))) := by
      simp only [calcF, h1, if_false]
      rw [if_pos ⟨by omega, h2b⟩]
    have e2 : calcF c n f2 = n.rd.r64 (1 - n.pw (n.rd.r64
        (((c.finish - f2 : ℤ) : ℚ) / ((c.finish - c.start : ℤ) : ℚ)))) := by
      have : ¬ f2 < c.start := by omega
      simp only [calcF, this, if_false]
      rw [if_pos ⟨h2a, h2b⟩]
    rw [e1, e2]
    have hb : (0 : ℚ) < ((c.finish - c.start : ℤ) : ℚ) := by
      have : 0 < c.finish - c.start := by omega
      exact_mod_cast this
    have hx : (((c.finish - f2 : ℤ) : ℚ) / ((c.finish - c.start : ℤ) : ℚ)) ≤
        (((c.finish - f1 : ℤ) : ℚ) / ((c.finish - c.start : ℤ) : ℚ)) := by
      apply div_le_div_of_nonneg_right _ hb.le
      have : c.finish - f2 ≤ c.finish - f1 := by omega
      exact_mod_cast this
    have hx0 : (0 : ℚ) ≤ (((c.finish - f2 : ℤ) : ℚ) / ((c.finish - c.start : ℤ) : ℚ)) := by
      apply div_nonneg _ hb.le
      have : 0 ≤ c.finish - f2 := by omega
      exact_mod_cast this
    have hv := h.r64_mono _ _ hx0 hx
    have v2 := val_bounds h (a := c.finish - f2) (b := c.finish - c.start) (by omega) (by omega) (by omega)
    have v1 := val_bounds h (a := c.finish - f1) (b := c.finish - c.start) (by omega) (by omega) (by omega)
    have hp := h.pw_mono _ _ v2.1 hv v1.2
    have p1 : n.pw (n.rd.r64 (((c.finish - f1 : ℤ) : ℚ) / ((c.finish - c.start : ℤ) : ℚ))) ≤ 1 := by
      have := h.pw_mono _ 1 v1.1 v1.2 le_rfl; rwa [h.pw_one] at this
    apply h.r64_mono
    · linarith
    · linarith
  · have : calcF c n f2 = 1 := by
      have h3 : ¬ f2 < c.start := by omega
      simp only [calcF, h3, if_false]
      rw [if_neg h2]
    rw [this]; exact b1.2

/-! ## set_quantizers / the update loop -/

theorem setAll_length (c : Cfg) (rd : Rnd) (qs : List QObj) :
    (setAll c rd qs).1.length = qs.length ∧ (setAll c rd qs).2.1 ≤ qs.length := by
  induction qs with
  | nil => simp [setAll]
  | cons q t ih =>
    unfold setAll
    cases hq : setOne c rd q with
    | none => simp
    | some q' => simp [ih.1]; omega

theorem setAll_nil_of_result_nil (c : Cfg) (rd : Rnd) (qs : List QObj) (h : (setAll c rd qs).1 = []) :
    (setAll c rd qs).2.1 = 0 := by
  have hl := setAll_length c rd qs
  rw [h] at hl
  have : qs.length = 0 := by simpa using hl.1.symm
  omega

theorem setOne_std (c : Cfg) (rd : Rnd) (q : QObj) (hq : q.kind = .std) :
    ∃ q', setOne c rd q = some q' ∧ q'.kind = .std ∧ q'.tag = q.tag ∧ q'.useSte = c.useSte ∧
      q'.st.useVars = true ∧ q'.st.eff rd = rd.r32 0 := by
  unfold setOne
  rw [hq]
  refine ⟨_, rfl, rfl, rfl, rfl, ?_, by simp⟩
  simp only [QState.update]
  split <;> split <;> simp_all [QState.build]

theorem setAll_std (c : Cfg) (rd : Rnd) (qs : List QObj) (hs : ∀ q ∈ qs, q.kind = .std) :
    (setAll c rd qs).2.2 = false ∧ (setAll c rd qs).2.1 = qs.length ∧
    ∀ q ∈ (setAll c rd qs).1, q.kind = .std ∧ q.useSte = c.useSte ∧ q.st.useVars = true ∧
      q.st.eff rd = rd.r32 0 := by
  induction qs with
  | nil => simp [setAll]
  | cons q t ih =>
    obtain ⟨q', h1, h2, _, h3, h4, h5⟩ := setOne_std c rd q (hs q (by simp))
    have iht := ih (fun x hx => hs x (by simp [hx]))
    unfold setAll
    rw [h1]
    refine ⟨iht.1, by simp [iht.2.1], ?_⟩
    intro x hx
    simp only [List.mem_cons] at hx
    rcases hx with rfl | hx
    · exact ⟨h2, h3, h4, h5⟩
    · exact iht.2.2 x hx

theorem updateAll_eff (rd : Rnd) (v : ℚ) (qs : List QObj) :
    ∀ q ∈ updateAll rd v qs, q.st.eff rd = rd.r32 v := by
  intro q hq
  simp only [updateAll, List.mem_map] at hq
  obtain ⟨q0, _, rfl⟩ := hq
  simp

theorem updateAll_kind (rd : Rnd) (v : ℚ) (qs : List QObj) (k : Kind) (h : ∀ q ∈ qs, q.kind = k) :
    ∀ q ∈ updateAll rd v qs, q.kind = k := by
  intro q hq
  simp only [updateAll, List.mem_map] at hq
  obtain ⟨q0, h0, rfl⟩ := hq
  exact h q0 h0

theorem updateAll_tags (rd : Rnd) (v : ℚ) (qs : List QObj) :
    (updateAll rd v qs).map QObj.tag = qs.map QObj.tag := by
  simp [updateAll, List.map_map, Function.comp_def]


/-! ## closed forms of `updateStep` -/

theorem updateStep_closed (c : Cfg) (n : Num) (s : CB)
    (h : Int.fmod (c.initial + s.numIters) c.updateFreq ≠ 0) :
    updateStep c n s = ({ s with numIters := s.numIters + 1 }, false) := by
  simp [updateStep, h]

theorem updateStep_none (c : Cfg) (n : Num) (s : CB)
    (h : Int.fmod (c.initial + s.numIters) c.updateFreq = 0) (hq : s.quantizers = none) :
    updateStep c n s = (s, true) := by
  simp [updateStep, h, hq]

theorem updateStep_nil (c : Cfg) (n : Num) (s : CB)
    (h : Int.fmod (c.initial + s.numIters) c.updateFreq = 0) (hq : s.quantizers = some []) :
    updateStep c n s = ({ s with numIters := s.numIters + 1 }, false) := by
  simp [updateStep, h, hq]

theorem updateStep_cons (c : Cfg) (n : Num) (s : CB) (q : QObj) (qs : List QObj)
    (h : Int.fmod (c.initial + s.numIters) c.updateFreq = 0) (hq : s.quantizers = some (q :: qs)) :
    updateStep c n s =
      ({ s with quantizers := some (updateAll n.rd (calcF c n (c.initial + s.numIters)) (q :: qs)),
                factor := some (calcF c n (c.initial + s.numIters)),
                trace := s.trace ++ [calcF c n (c.initial + s.numIters)],
                numIters := s.numIters + 1 }, false) := by
  simp [updateStep, h, hq]

/-- the four shapes a call of `update_qnoise_factor` can take -/
theorem updateStep_cases (c : Cfg) (n : Num) (s : CB) :
    (updateStep c n s = ({ s with numIters := s.numIters + 1 }, false)) ∨
    (updateStep c n s = (s, true) ∧ s.quantizers = none) ∨
    (∃ q qs, s.quantizers = some (q :: qs) ∧
      Int.fmod (c.initial + s.numIters) c.updateFreq = 0 ∧
      updateStep c n s =
        ({ s with quantizers := some (updateAll n.rd (calcF c n (c.initial + s.numIters)) (q :: qs)),
                  factor := some (calcF c n (c.initial + s.numIters)),
                  trace := s.trace ++ [calcF c n (c.initial + s.numIters)],
                  numIters := s.numIters + 1 }, false)) := by
  by_cases h : Int.fmod (c.initial + s.numIters) c.updateFreq = 0
  · cases hq : s.quantizers with
    | none => right; left; exact ⟨updateStep_none c n s h hq, rfl⟩
    | some l =>
      cases l with
      | nil => left; simpa [hq] using updateStep_nil c n s h hq
      | cons q qs => right; right; exact ⟨q, qs, rfl, h, updateStep_cons c n s q qs h hq⟩
  · left; exact updateStep_closed c n s h

/-! ## monotonicity invariant -/

def MonoInv (c : Cfg) (n : Num) (s : CB) : Prop :=
  s.trace.Pairwise (· ≤ ·) ∧
  (∀ v ∈ s.trace, ∀ f, c.initial + s.numIters ≤ f → v ≤ calcF c n f) ∧
  (emptyish s.quantizers = true → s.trace = [])

theorem monoInv_init (c : Cfg) (n : Num) : MonoInv c n CB.init := by
  simp [MonoInv, CB.init]

theorem monoInv_updateStep (c : Cfg) {n : Num} (h : NumOK n) (s : CB) (hi : MonoInv c n s) :
    MonoInv c n (updateStep c n s).1 := by
  obtain ⟨h1, h2, h3⟩ := hi
  rcases updateStep_cases c n s with e | ⟨e, _⟩ | ⟨q, qs, hq, _, e⟩
  · rw [e]
    refine ⟨h1, ?_, h3⟩
    intro v hv f hf
    exact h2 v hv f (by simp only at hf; omega)
  · rw [e]; exact ⟨h1, h2, h3⟩
  · rw [e]
    refine ⟨?_, ?_, ?_⟩
    · simp only
      rw [List.pairwise_append]
      refine ⟨h1, by simp, ?_⟩
      intro a ha b hb
      simp only [List.mem_singleton] at hb
      rw [hb]
      exact h2 a ha _ le_rfl
    · intro v hv f hf
      simp only at hv hf
      rw [List.mem_append] at hv
      rcases hv with hv | hv
      · exact h2 v hv f (by omega)
      · simp only [List.mem_singleton] at hv
        rw [hv]
        exact calcF_mono c h (by omega)
    · intro he
      simp [emptyish, updateAll] at he

theorem emptyish_map (f : List QObj → List QObj) (hf : ∀ l, (f l = [] ↔ l = [])) (o : Option (List QObj)) :
    emptyish (o.map f) = emptyish o := by
  cases o with
  | none => rfl
  | some l =>
    cases l with
    | nil => simp [emptyish, (hf []).2 rfl]
    | cons a t =>
      have : f (a :: t) ≠ [] := fun hh => by simpa using (hf (a :: t)).1 hh
      simp only [Option.map]
      cases hfl : f (a :: t) with
      | nil => exact absurd hfl this
      | cons _ _ => rfl

theorem monoInv_step (c : Cfg) {n : Num} (h : NumOK n) (layers : List Layer) (s : CB) (e : Event)
    (hi : MonoInv c n s) : MonoInv c n (step c n layers s e).1 := by
  cases e with
  | trainBegin =>
    simp only [step]
    split_ifs with he hk
    · obtain ⟨h1, h2, h3⟩ := hi
      refine ⟨h1, h2, ?_⟩
      intro _
      exact h3 he
    · obtain ⟨h1, h2, h3⟩ := hi
      have ht : s.trace = [] := h3 he
      refine ⟨?_, ?_, ?_⟩
      · simp [ht]
      · intro v hv f _
        simp only [ht, List.nil_append, List.mem_singleton] at hv
        rw [hv]; exact (calcF_bounds c h f).1
      · intro he2
        exfalso
        apply hk
        apply setAll_nil_of_result_nil
        simp only [emptyish] at he2
        cases hr : (setAll c n.rd (getQuantizers layers)).1 with
        | nil => rfl
        | cons a t => simp [hr] at he2
    · exact hi
  | epochBegin =>
    simp only [step]
    split_ifs
    · exact hi
    · exact monoInv_updateStep c h s hi
  | batchBegin =>
    simp only [step]
    split_ifs
    · exact monoInv_updateStep c h s hi
    · exact hi
  | epochEnd => exact hi
  | forward =>
    obtain ⟨h1, h2, h3⟩ := hi
    refine ⟨h1, h2, ?_⟩
    intro he
    apply h3
    simp only [step] at he
    rwa [emptyish_map] at he
    intro l
    simp

theorem monoInv_run (c : Cfg) {n : Num} (h : NumOK n) (layers : List Layer) (es : List Event) :
    ∀ s, MonoInv c n s → MonoInv c n (run c n layers s es) := by
  induction es with
  | nil => intro s hs; exact hs
  | cons e t ih => intro s hs; exact ih _ (monoInv_step c h layers s e hs)

/-! ## "all tracked quantizers hold the applied factor" invariant (models whose knob-bearing
       quantizers are all of the standard kind) -/

def SameInv (rd : Rnd) (s : CB) : Prop :=
  match s.quantizers with
  | none => s.trace = [] ∧ s.factor = none
  | some qs =>
    (∀ q ∈ qs, q.kind = .std) ∧
    (qs = [] → s.trace = [] ∧ s.factor = none) ∧
    (qs ≠ [] → ∃ v, s.trace.getLast? = some v ∧ s.factor = some v ∧ ∀ q ∈ qs, q.st.eff rd = rd.r32 v)

theorem sameInv_init (rd : Rnd) : SameInv rd CB.init := by
  simp [SameInv, CB.init]

theorem sameInv_updateStep (c : Cfg) (n : Num) (s : CB) (hi : SameInv n.rd s) :
    SameInv n.rd (updateStep c n s).1 := by
  rcases updateStep_cases c n s with e | ⟨e, _⟩ | ⟨q, qs, hq, _, e⟩
  · rw [e]
    unfold SameInv at hi ⊢
    exact hi
  · rw [e]; exact hi
  · rw [e]
    unfold SameInv at hi ⊢
    rw [hq] at hi
    simp only
    refine ⟨updateAll_kind _ _ _ _ hi.1, ?_, ?_⟩
    · intro hh; simp [updateAll] at hh
    · intro _
      exact ⟨_, by simp, rfl, updateAll_eff _ _ _⟩

theorem sameInv_step (c : Cfg) (n : Num) (layers : List Layer)
    (hstd : ∀ q ∈ getQuantizers layers, q.kind = .std) (s : CB) (e : Event)
    (hi : SameInv n.rd s) : SameInv n.rd (step c n layers s e).1 := by
  cases e with
  | trainBegin =>
    simp only [step]
    have hs := setAll_std c n.rd _ hstd
    have hl := setAll_length c n.rd (getQuantizers layers)
    have htf : s.trace = [] ∧ s.factor = none ∨ ¬ emptyish s.quantizers = true := by
      unfold SameInv at hi
      cases hq : s.quantizers with
      | none => left; simpa [hq] using hi
      | some l =>
        cases l with
        | nil => left; rw [hq] at hi; exact hi.2.1 rfl
        | cons a t => right; simp [emptyish]
    split_ifs with he hk
    · -- nothing completed: the list is empty
      rcases htf with ⟨ht, hf⟩ | hne
      · unfold SameInv
        simp only
        refine ⟨fun q hq => (hs.2.2 q hq).1, fun _ => ⟨ht, hf⟩, ?_⟩
        intro hne
        exfalso
        apply hne
        have : (getQuantizers layers).length = 0 := by rw [← hs.2.1]; exact hk
        have h0 : (setAll c n.rd (getQuantizers layers)).1.length = 0 := by rw [hl.1]; exact this
        exact List.eq_nil_of_length_eq_zero h0
      · exact absurd he hne
    · rcases htf with ⟨ht, _⟩ | hne
      · unfold SameInv
        simp only
        refine ⟨fun q hq => (hs.2.2 q hq).1, ?_, ?_⟩
        · intro hnil
          exfalso
          apply hk
          exact setAll_nil_of_result_nil _ _ _ hnil
        · intro _
          exact ⟨0, by simp [ht], rfl, fun q hq => (hs.2.2 q hq).2.2.2⟩
      · exact absurd he hne
    · exact hi
  | epochBegin =>
    simp only [step]
    split_ifs
    · exact hi
    · exact sameInv_updateStep c n s hi
  | batchBegin =>
    simp only [step]
    split_ifs
    · exact sameInv_updateStep c n s hi
    · exact hi
  | epochEnd => exact hi
  | forward =>
    simp only [step]
    unfold SameInv at hi ⊢
    cases hq : s.quantizers with
    | none => simpa [hq] using hi
    | some qs =>
      rw [hq] at hi
      simp only [Option.map]
      refine ⟨?_, ?_, ?_⟩
      · intro q hqm
        simp only [List.mem_map] at hqm
        obtain ⟨q0, h0, rfl⟩ := hqm
        exact hi.1 q0 h0
      · intro hnil
        apply hi.2.1
        simpa using hnil
      · intro hne
        have : qs ≠ [] := by
          intro hh; apply hne; simp [hh]
        obtain ⟨v, h1, h2, h3⟩ := hi.2.2 this
        refine ⟨v, h1, h2, ?_⟩
        intro q hqm
        simp only [List.mem_map] at hqm
        obtain ⟨q0, h0, rfl⟩ := hqm
        simpa using h3 q0 h0

theorem sameInv_run (c : Cfg) (n : Num) (layers : List Layer)
    (hstd : ∀ q ∈ getQuantizers layers, q.kind = .std) (es : List Event) :
    ∀ s, SameInv n.rd s → SameInv n.rd (run c n layers s es) := by
  induction es with
  | nil => intro s hs; exact hs
  | cons e t ih => intro s hs; exact ih _ (sameInv_step c n layers hstd s e hs)

/-! ## no hook raises once `on_train_begin` has run (standard-kind models) -/

theorem step_no_raise (c : Cfg) (n : Num) (layers : List Layer)
    (hstd : ∀ q ∈ getQuantizers layers, q.kind = .std) (s : CB) (e : Event)
    (hs : s.quantizers.isSome = true ∨ e = .trainBegin) :
    (step c n layers s e).2 = false ∧ (step c n layers s e).1.quantizers.isSome = true := by
  cases e with
  | trainBegin =>
    simp only [step]
    split_ifs with he hk
    · exact ⟨(setAll_std c n.rd _ hstd).1, rfl⟩
    · exact ⟨(setAll_std c n.rd _ hstd).1, rfl⟩
    · refine ⟨rfl, ?_⟩
      cases hq : s.quantizers with
      | none => simp [hq, emptyish] at he
      | some _ => rfl
  | epochBegin =>
    have hs : s.quantizers.isSome = true := by rcases hs with h | h; exact h; cases h
    simp only [step]
    split_ifs
    · exact ⟨rfl, hs⟩
    · rcases updateStep_cases c n s with e | ⟨_, e⟩ | ⟨q, qs, _, _, e⟩
      · rw [e]; exact ⟨rfl, hs⟩
      · rw [e] at hs; cases hs
      · rw [e]; exact ⟨rfl, rfl⟩
  | batchBegin =>
    have hs : s.quantizers.isSome = true := by rcases hs with h | h; exact h; cases h
    simp only [step]
    split_ifs
    · rcases updateStep_cases c n s with e | ⟨_, e⟩ | ⟨q, qs, _, _, e⟩
      · rw [e]; exact ⟨rfl, hs⟩
      · rw [e] at hs; cases hs
      · rw [e]; exact ⟨rfl, rfl⟩
    · exact ⟨rfl, hs⟩
  | epochEnd =>
    have hs : s.quantizers.isSome = true := by rcases hs with h | h; exact h; cases h
    exact ⟨rfl, hs⟩
  | forward =>
    have hs : s.quantizers.isSome = true := by rcases hs with h | h; exact h; cases h
    refine ⟨rfl, ?_⟩
    simp only [step]
    cases hq : s.quantizers with
    | none => rw [hq] at hs; cases hs
    | some _ => rfl

theorem run_no_raise (c : Cfg) (n : Num) (layers : List Layer)
    (hstd : ∀ q ∈ getQuantizers layers, q.kind = .std) (es : List Event) :
    ∀ s, s.quantizers.isSome = true → anyRaise c n layers s es = false := by
  induction es with
  | nil => intro s _; rfl
  | cons e t ih =>
    intro s hs
    have h := step_no_raise c n layers hstd s e (Or.inl hs)
    simp only [anyRaise, h.1, Bool.false_or]
    exact ih _ h.2

/-! ## num_iters counts the hooks that reach `update_qnoise_factor` -/

theorem step_numIters (c : Cfg) (n : Num) (layers : List Layer) (s : CB) (e : Event)
    (hr : (step c n layers s e).2 = false) :
    (step c n layers s e).1.numIters = s.numIters + (if e.ticks c then 1 else 0) := by
  have hu : (updateStep c n s).2 = false → (updateStep c n s).1.numIters = s.numIters + 1 := by
    intro hr
    rcases updateStep_cases c n s with e | ⟨e, _⟩ | ⟨q, qs, _, _, e⟩
    · rw [e]
    · rw [e] at hr; cases hr
    · rw [e]
  cases e with
  | trainBegin =>
    have : (Event.ticks c .trainBegin) = false := rfl
    rw [this, if_neg (by simp)]
    simp only [step]
    split_ifs <;> simp
  | epochBegin =>
    cases hm : c.stepMode
    · simp only [step, hm] at hr ⊢
      simp [Event.ticks, hm, hu hr]
    · simp [step, Event.ticks, hm]
  | batchBegin =>
    cases hm : c.stepMode
    · simp [step, Event.ticks, hm]
    · simp only [step, hm] at hr ⊢
      simp [Event.ticks, hm, hu hr]
  | epochEnd => simp [step, Event.ticks]
  | forward => simp [step, Event.ticks]

theorem run_numIters (c : Cfg) (n : Num) (layers : List Layer) (es : List Event) :
    ∀ s, anyRaise c n layers s es = false →
      (run c n layers s es).numIters = s.numIters + ((es.filter (Event.ticks c)).length : ℤ) := by
  induction es with
  | nil => intro s _; simp [run]
  | cons e t ih =>
    intro s hr
    simp only [anyRaise, Bool.or_eq_false_iff] at hr
    have h1 := step_numIters c n layers s e hr.1
    have h2 := ih _ hr.2
    simp only [run]
    rw [h2, h1]
    by_cases ht : e.ticks c = true
    · simp [ht]; ring
    · simp [ht]

end QKV.Sched
