/- helper lemmas for the QNoiseScheduler state machine (C07) -/
import Mathlib.Tactic
import QKV.Lemmas.QNoise
import QKV.Model.Sched
namespace QKV.Sched
open QKV.QNoise

/-! ## get_quantizers -/

mutual
theorem addLayer_eq (acc : List QObj) : (l : Layer) → addLayer acc l = l.pre.foldl addQ acc
  | .mk a sub => by
    simp only [addLayer, Layer.pre, List.foldl_append]
    exact addLayers_eq _ sub
theorem addLayers_eq (acc : List QObj) :
    (ls : List Layer) → addLayers acc ls = (preList ls).foldl addQ acc
  | [] => by simp [addLayers, preList]
  | l :: ls => by
    simp only [addLayers, preList, List.foldl_append]
    rw [addLayer_eq acc l]
    exact addLayers_eq _ ls
end

/-- the walk = "append if knob-bearing and not yet listed" folded over the pre-order of the model -/
theorem getQuantizers_eq (layers : List Layer) :
    getQuantizers layers = (preList layers).foldl addQ [] := addLayers_eq [] layers

theorem preList_eq_flatMap (ls : List Layer) : preList ls = ls.flatMap Layer.pre := by
  induction ls with
  | nil => simp [preList]
  | cons l t ih => simp [preList, ih]

theorem holds_mem_pre {l : Layer} {q : QObj} (h : l.Holds q) : q ∈ l.pre := by
  induction h with
  | @own l q h =>
    cases l with
    | mk a sub => simp only [Layer.pre, List.mem_append]; exact Or.inl h
  | @sub l l' q hl _ ih =>
    cases l with
    | mk a sub =>
      simp only [Layer.pre, List.mem_append]
      right
      rw [preList_eq_flatMap, List.mem_flatMap]
      exact ⟨l', hl, ih⟩

mutual
theorem holds_of_mem_pre : (l : Layer) → ∀ q, q ∈ l.pre → l.Holds q
  | .mk a sub, q, h => by
    simp only [Layer.pre, List.mem_append] at h
    rcases h with h | h
    · exact .own h
    · obtain ⟨l', hl', hq⟩ := holds_of_mem_preList sub q h
      exact .sub hl' hq
theorem holds_of_mem_preList : (ls : List Layer) → ∀ q, q ∈ preList ls → ∃ l ∈ ls, l.Holds q
  | [], q, h => by simp [preList] at h
  | l :: ls, q, h => by
    simp only [preList, List.mem_append] at h
    rcases h with h | h
    · exact ⟨l, by simp, holds_of_mem_pre l q h⟩
    · obtain ⟨l', hl', hq⟩ := holds_of_mem_preList ls q h
      exact ⟨l', by simp [hl'], hq⟩
end

/-- the pre-order list is exactly the set of quantizer objects the model holds -/
theorem mem_preList_iff (layers : List Layer) (q : QObj) : q ∈ preList layers ↔ ModelHolds layers q := by
  constructor
  · exact holds_of_mem_preList layers q
  · rintro ⟨l, hl, hq⟩
    rw [preList_eq_flatMap, List.mem_flatMap]
    exact ⟨l, hl, holds_mem_pre hq⟩

theorem filter_flatMap' {α β : Type} (p : β → Bool) (f : α → List β) (ls : List α) :
    (ls.flatMap f).filter p = ls.flatMap (fun a => (f a).filter p) := by
  induction ls with
  | nil => simp
  | cons a t ih => simp [List.flatMap_cons, List.filter_append, ih]

theorem addQ_cases (acc : List QObj) (q : QObj) :
    (addQ acc q = acc ++ [q] ∧ q.hasKnob = true ∧ ∀ p ∈ acc, p.tag ≠ q.tag) ∨
    (addQ acc q = acc ∧ (q.hasKnob = false ∨ ∃ p ∈ acc, p.tag = q.tag)) := by
  unfold addQ
  by_cases hk : q.hasKnob = true
  · by_cases ha : (acc.any fun p => p.tag == q.tag) = true
    · right
      refine ⟨by simp [ha], Or.inr ?_⟩
      simpa using ha
    · left
      refine ⟨by simp [hk, ha], hk, ?_⟩
      intro p hp hpt
      apply ha
      simp only [List.any_eq_true, beq_iff_eq]
      exact ⟨p, hp, hpt⟩
  · right
    have hk' : q.hasKnob = false := by simpa using hk
    exact ⟨by simp [hk'], Or.inl hk'⟩

/-- shape of the fold: the accumulator grows by a sublist of the input, knob-bearing objects only -/
theorem foldl_addQ_shape (l : List QObj) : ∀ acc : List QObj,
    ∃ r, l.foldl addQ acc = acc ++ r ∧ r.Sublist l ∧ ∀ q ∈ r, q.hasKnob = true := by
  induction l with
  | nil => intro acc; exact ⟨[], by simp, List.Sublist.refl _, by simp⟩
  | cons q t ih =>
    intro acc
    rcases addQ_cases acc q with ⟨e, hk, _⟩ | ⟨e, _⟩
    · obtain ⟨r, hr, hs, hkr⟩ := ih (acc ++ [q])
      refine ⟨q :: r, by simp [List.foldl_cons, e, hr], hs.cons_cons q, ?_⟩
      intro x hx
      simp only [List.mem_cons] at hx
      rcases hx with rfl | hx
      · exact hk
      · exact hkr x hx
    · obtain ⟨r, hr, hs, hkr⟩ := ih acc
      exact ⟨r, by simp [List.foldl_cons, e, hr], hs.cons q, hkr⟩

theorem foldl_addQ_cover (l : List QObj) : ∀ acc : List QObj, ∀ q ∈ l, q.hasKnob = true →
    ∃ q' ∈ l.foldl addQ acc, q'.tag = q.tag := by
  induction l with
  | nil => intro acc q hq; simp at hq
  | cons a t ih =>
    intro acc q hq hk
    simp only [List.mem_cons] at hq
    simp only [List.foldl_cons]
    rcases hq with rfl | hq
    · obtain ⟨r, hr, _, _⟩ := foldl_addQ_shape t (addQ acc q)
      rcases addQ_cases acc q with ⟨e, _, _⟩ | ⟨e, hno | ⟨p, hp, hpt⟩⟩
      · exact ⟨q, by rw [hr, e]; simp, rfl⟩
      · rw [hk] at hno; cases hno
      · exact ⟨p, by rw [hr, e]; simp [hp], hpt⟩
    · exact ih _ q hq hk

theorem foldl_addQ_nodup (l : List QObj) : ∀ acc : List QObj, (acc.map QObj.tag).Nodup →
    ((l.foldl addQ acc).map QObj.tag).Nodup := by
  induction l with
  | nil => intro acc h; exact h
  | cons q t ih =>
    intro acc h
    simp only [List.foldl_cons]
    apply ih
    rcases addQ_cases acc q with ⟨e, _, hne⟩ | ⟨e, _⟩
    · rw [e, List.map_append, List.nodup_append]
      refine ⟨h, by simp, ?_⟩
      intro a ha b hb
      simp only [List.map_cons, List.map_nil, List.mem_singleton] at hb
      simp only [List.mem_map] at ha
      obtain ⟨p, hp, rfl⟩ := ha
      rw [hb]
      exact hne p hp
    · rw [e]; exact h

/-- without aliasing the fold is the plain filter -/
theorem foldl_addQ_noalias (l : List QObj) : ∀ acc : List QObj,
    (∀ p ∈ acc, ∀ q ∈ l, p.tag ≠ q.tag) → (l.map QObj.tag).Nodup →
    l.foldl addQ acc = acc ++ l.filter QObj.hasKnob := by
  induction l with
  | nil => intro acc _ _; simp
  | cons q t ih =>
    intro acc hd hn
    simp only [List.map_cons, List.nodup_cons] at hn
    have hqt : ∀ x ∈ t, q.tag ≠ x.tag := by
      intro x hx he
      apply hn.1
      rw [he]
      exact List.mem_map_of_mem hx
    simp only [List.foldl_cons]
    rcases addQ_cases acc q with ⟨e, hk, _⟩ | ⟨e, hno | ⟨p, hp, hpt⟩⟩
    · rw [e, ih (acc ++ [q]) ?_ hn.2]
      · simp [hk]
      · intro p hp x hx
        simp only [List.mem_append, List.mem_singleton] at hp
        rcases hp with hp | rfl
        · exact hd p hp x (by simp [hx])
        · exact hqt x hx
    · rw [e, ih acc (fun p hp x hx => hd p hp x (by simp [hx])) hn.2]
      simp [hno]
    · exact absurd hpt (hd p hp q (by simp))

theorem getQuantizers_knob (layers : List Layer) : ∀ q ∈ getQuantizers layers, q.hasKnob = true := by
  intro q hq
  rw [getQuantizers_eq] at hq
  obtain ⟨r, hr, _, hk⟩ := foldl_addQ_shape (preList layers) []
  rw [hr] at hq
  exact hk q (by simpa using hq)

/-! ## calculate_qnoise_factor -/

/-- hypotheses on the numeric environment (satisfied by `r ↦ r^(k+1)` with exact arithmetic) -/
structure NumOK (n : Num) : Prop where
  pw_mono : ∀ a b, 0 ≤ a → a ≤ b → b ≤ 1 → n.pw a ≤ n.pw b
  pw_zero : n.pw 0 = 0
  pw_one : n.pw 1 = 1
  r64_mono : ∀ a b, 0 ≤ a → a ≤ b → n.rd.r64 a ≤ n.rd.r64 b
  r64_zero : n.rd.r64 0 = 0
  r64_one : n.rd.r64 1 = 1

theorem val_bounds {n : Num} (h : NumOK n) {a b : ℤ} (ha : 0 ≤ a) (hab : a ≤ b) (hb : 0 < b) :
    0 ≤ n.rd.r64 ((a : ℚ) / (b : ℚ)) ∧ n.rd.r64 ((a : ℚ) / (b : ℚ)) ≤ 1 := by
  have hb' : (0 : ℚ) < b := by exact_mod_cast hb
  have h0 : (0 : ℚ) ≤ (a : ℚ) / b := div_nonneg (by exact_mod_cast ha) hb'.le
  have h1 : (a : ℚ) / b ≤ 1 := by
    rw [div_le_one hb']; exact_mod_cast hab
  constructor
  · have := h.r64_mono _ _ le_rfl h0; rwa [h.r64_zero] at this
  · have := h.r64_mono _ _ h0 h1; rwa [h.r64_one] at this

theorem mid_bounds {n : Num} (h : NumOK n) {v : ℚ} (h0 : 0 ≤ v) (h1 : v ≤ 1) :
    0 ≤ n.rd.r64 (1 - n.pw v) ∧ n.rd.r64 (1 - n.pw v) ≤ 1 := by
  have p0 : 0 ≤ n.pw v := by have := h.pw_mono 0 v le_rfl h0 h1; rwa [h.pw_zero] at this
  have p1 : n.pw v ≤ 1 := by have := h.pw_mono v 1 h0 h1 le_rfl; rwa [h.pw_one] at this
  constructor
  · have := h.r64_mono 0 (1 - n.pw v) le_rfl (by linarith); rwa [h.r64_zero] at this
  · have := h.r64_mono (1 - n.pw v) 1 (by linarith) (by linarith); rwa [h.r64_one] at this

theorem calcF_bounds (c : Cfg) {n : Num} (h : NumOK n) (freq : ℤ) :
    0 ≤ calcF c n freq ∧ calcF c n freq ≤ 1 := by
  unfold calcF
  split_ifs with h1 h2
  · exact ⟨le_rfl, zero_le_one⟩
  · obtain ⟨h2a, h2b⟩ := h2
    have hv := val_bounds h (a := c.finish - freq) (b := c.finish - c.start) (by omega) (by omega) (by omega)
    exact mid_bounds h hv.1 hv.2
  · exact ⟨zero_le_one, le_rfl⟩

theorem calcF_mono (c : Cfg) {n : Num} (h : NumOK n) {f1 f2 : ℤ} (h12 : f1 ≤ f2) :
    calcF c n f1 ≤ calcF c n f2 := by
  have b2 := calcF_bounds c h f2
  have b1 := calcF_bounds c h f1
  by_cases h1 : f1 < c.start
  · have : calcF c n f1 = 0 := by simp [calcF, h1]
    rw [this]; exact b2.1
  by_cases h2 : f2 ≤ c.finish ∧ c.start ≠ c.finish
  · -- both in the ramp
    obtain ⟨h2a, h2b⟩ := h2
    have e1 : calcF c n f1 = n.rd.r64 (1 - n.pw (n.rd.r64
        (((c.finish - f1 : ℤ) : ℚ) / ((c.finish - c.start : ℤ) : ℚ)))) := by
      simp only [calcF, h1, if_false]
      rw [if_pos ⟨by omega, h2b⟩]
    have e2 : calcF c n f2 = n.rd.r64 (1 - n.pw (n.rd.r64
        (((c.finish - f2 : ℤ) : ℚ) / ((c.finish - c.start : ℤ) : ℚ)))) := by
      have : ¬ f2 < c.start := by omega
      simp only [calcF, this, if_false]
      rw [if_pos ⟨h2a, h2b⟩]
    rw [e1, e2]
    have hb : (0 : ℚ) < ((c.finish - c.start : ℤ) : ℚ) := by
      have : 0 < c.finish - c.start := by omega
      exact_mod_cast this
    have hx : (((c.finish - f2 : ℤ) : ℚ) / ((c.finish - c.start : ℤ) : ℚ)) ≤
        (((c.finish - f1 : ℤ) : ℚ) / ((c.finish - c.start : ℤ) : ℚ)) := by
      apply div_le_div_of_nonneg_right _ hb.le
      have : c.finish - f2 ≤ c.finish - f1 := by omega
      exact_mod_cast this
    have hx0 : (0 : ℚ) ≤ (((c.finish - f2 : ℤ) : ℚ) / ((c.finish - c.start : ℤ) : ℚ)) := by
      apply div_nonneg _ hb.le
      have : 0 ≤ c.finish - f2 := by omega
      exact_mod_cast this
    have hv := h.r64_mono _ _ hx0 hx
    have v2 := val_bounds h (a := c.finish - f2) (b := c.finish - c.start) (by omega) (by omega) (by omega)
    have v1 := val_bounds h (a := c.finish - f1) (b := c.finish - c.start) (by omega) (by omega) (by omega)
    have hp := h.pw_mono _ _ v2.1 hv v1.2
    have p1 : n.pw (n.rd.r64 (((c.finish - f1 : ℤ) : ℚ) / ((c.finish - c.start : ℤ) : ℚ))) ≤ 1 := by
      have := h.pw_mono _ 1 v1.1 v1.2 le_rfl; rwa [h.pw_one] at this
    apply h.r64_mono
    · linarith
    · linarith
  · have : calcF c n f2 = 1 := by
      have h3 : ¬ f2 < c.start := by omega
      simp only [calcF, h3, if_false]
      rw [if_neg h2]
    rw [this]; exact b1.2

/-! ## set_quantizers / the update loop -/

theorem setAll_length (c : Cfg) (rd : Rnd) (qs : List QObj) :
    (setAll c rd qs).1.length = qs.length ∧ (setAll c rd qs).2.1 ≤ qs.length := by
  induction qs with
  | nil => simp [setAll]
  | cons q t ih =>
    unfold setAll
    cases hq : setOne c rd q with
    | none => simp
    | some q' => simp [ih.1]; omega

theorem setAll_nil_of_result_nil (c : Cfg) (rd : Rnd) (qs : List QObj) (h : (setAll c rd qs).1 = []) :
    (setAll c rd qs).2.1 = 0 := by
  have hl := setAll_length c rd qs
  rw [h] at hl
  have : qs.length = 0 := by simpa using hl.1.symm
  omega

theorem setOne_knob (c : Cfg) (rd : Rnd) (q : QObj) (hq : q.hasKnob = true) :
    ∃ q', setOne c rd q = some q' ∧ q'.kind = q.kind ∧ q'.tag = q.tag ∧
      (q.kind = .std → q'.useSte = c.useSte) ∧ q'.st.useVars = true ∧ q'.st.eff rd = rd.r32 0 := by
  unfold setOne
  cases hk : q.kind with
  | noKnob => simp [QObj.hasKnob, hk] at hq
  | std =>
    refine ⟨_, rfl, rfl, rfl, fun _ => rfl, ?_, by simp⟩
    simp only [QState.update]
    split <;> split <;> simp_all [QState.build]
  | linear =>
    refine ⟨_, rfl, rfl, rfl, ?_, ?_, by simp⟩
    · intro h; cases h
    · simp only [QState.update]
      split <;> split <;> simp_all [QState.build]

theorem setAll_knob (c : Cfg) (rd : Rnd) (qs : List QObj) (hs : ∀ q ∈ qs, q.hasKnob = true) :
    (setAll c rd qs).2.2 = false ∧ (setAll c rd qs).2.1 = qs.length ∧
    (setAll c rd qs).1.map QObj.tag = qs.map QObj.tag ∧
    ∀ q ∈ (setAll c rd qs).1, q.hasKnob = true ∧ q.st.useVars = true ∧ q.st.eff rd = rd.r32 0 := by
  induction qs with
  | nil => simp [setAll]
  | cons q t ih =>
    obtain ⟨q', h1, h2, h3, _, h4, h5⟩ := setOne_knob c rd q (hs q (by simp))
    have iht := ih (fun x hx => hs x (by simp [hx]))
    unfold setAll
    rw [h1]
    refine ⟨iht.1, by simp [iht.2.1], by simp [h3, iht.2.2.1], ?_⟩
    intro x hx
    simp only [List.mem_cons] at hx
    rcases hx with rfl | hx
    · refine ⟨?_, h4, h5⟩
      have := hs q (by simp)
      simpa [QObj.hasKnob, h2] using this
    · exact iht.2.2.2 x hx

/-- `set_quantizers` on what `get_quantizers` returns never raises (every kind with the knob is
    handled since the fix of C07-sched-quantized-linear) -/
theorem setAll_getQuantizers (c : Cfg) (rd : Rnd) (layers : List Layer) :
    (setAll c rd (getQuantizers layers)).2.2 = false ∧
    (setAll c rd (getQuantizers layers)).2.1 = (getQuantizers layers).length ∧
    (setAll c rd (getQuantizers layers)).1.map QObj.tag = (getQuantizers layers).map QObj.tag ∧
    ∀ q ∈ (setAll c rd (getQuantizers layers)).1,
      q.hasKnob = true ∧ q.st.useVars = true ∧ q.st.eff rd = rd.r32 0 :=
  setAll_knob c rd _ (getQuantizers_knob layers)

/-- the standard-kind quantizers also take over the callback's `use_ste` -/
theorem setAll_useSte (c : Cfg) (rd : Rnd) (qs : List QObj) (hs : ∀ q ∈ qs, q.hasKnob = true) :
    ∀ q ∈ (setAll c rd qs).1, q.kind = .std → q.useSte = c.useSte := by
  induction qs with
  | nil => simp [setAll]
  | cons q t ih =>
    obtain ⟨q', h1, h2, _, h3, _, _⟩ := setOne_knob c rd q (hs q (by simp))
    have iht := ih (fun x hx => hs x (by simp [hx]))
    unfold setAll
    rw [h1]
    intro x hx hk
    simp only [List.mem_cons] at hx
    rcases hx with rfl | hx
    · exact h3 (by rw [← h2]; exact hk)
    · exact iht x hx hk

theorem updateAll_eff (rd : Rnd) (v : ℚ) (qs : List QObj) :
    ∀ q ∈ updateAll rd v qs, q.st.eff rd = rd.r32 v := by
  intro q hq
  simp only [updateAll, List.mem_map] at hq
  obtain ⟨q0, _, rfl⟩ := hq
  simp

theorem updateAll_kind (rd : Rnd) (v : ℚ) (qs : List QObj) (k : Kind) (h : ∀ q ∈ qs, q.kind = k) :
    ∀ q ∈ updateAll rd v qs, q.kind = k := by
  intro q hq
  simp only [updateAll, List.mem_map] at hq
  obtain ⟨q0, h0, rfl⟩ := hq
  exact h q0 h0

theorem updateAll_tags (rd : Rnd) (v : ℚ) (qs : List QObj) :
    (updateAll rd v qs).map QObj.tag = qs.map QObj.tag := by
  simp [updateAll, List.map_map, Function.comp_def]


/-! ## closed forms of `updateStep` -/

theorem updateStep_closed (c : Cfg) (n : Num) (s : CB)
    (h : Int.fmod (c.initial + s.numIters) c.updateFreq ≠ 0) :
    updateStep c n s = ({ s with numIters := s.numIters + 1 }, false) := by
  simp [updateStep, h]

theorem updateStep_none (c : Cfg) (n : Num) (s : CB)
    (h : Int.fmod (c.initial + s.numIters) c.updateFreq = 0) (hq : s.quantizers = none) :
    updateStep c n s = (s, true) := by
  simp [updateStep, h, hq]

theorem updateStep_nil (c : Cfg) (n : Num) (s : CB)
    (h : Int.fmod (c.initial + s.numIters) c.updateFreq = 0) (hq : s.quantizers = some []) :
    updateStep c n s = ({ s with numIters := s.numIters + 1 }, false) := by
  simp [updateStep, h, hq]

theorem updateStep_cons (c : Cfg) (n : Num) (s : CB) (q : QObj) (qs : List QObj)
    (h : Int.fmod (c.initial + s.numIters) c.updateFreq = 0) (hq : s.quantizers = some (q :: qs)) :
    updateStep c n s =
      ({ s with quantizers := some (updateAll n.rd (calcF c n (c.initial + s.numIters)) (q :: qs)),
                factor := some (calcF c n (c.initial + s.numIters)),
                trace := s.trace ++ [calcF c n (c.initial + s.numIters)],
                numIters := s.numIters + 1 }, false) := by
  simp [updateStep, h, hq]

/-- the four shapes a call of `update_qnoise_factor` can take -/
theorem updateStep_cases (c : Cfg) (n : Num) (s : CB) :
    (updateStep c n s = ({ s with numIters := s.numIters + 1 }, false)) ∨
    (updateStep c n s = (s, true) ∧ s.quantizers = none) ∨
    (∃ q qs, s.quantizers = some (q :: qs) ∧
      Int.fmod (c.initial + s.numIters) c.updateFreq = 0 ∧
      updateStep c n s =
        ({ s with quantizers := some (updateAll n.rd (calcF c n (c.initial + s.numIters)) (q :: qs)),
                  factor := some (calcF c n (c.initial + s.numIters)),
                  trace := s.trace ++ [calcF c n (c.initial + s.numIters)],
                  numIters := s.numIters + 1 }, false)) := by
  by_cases h : Int.fmod (c.initial + s.numIters) c.updateFreq = 0
  · cases hq : s.quantizers with
    | none => right; left; exact ⟨updateStep_none c n s h hq, rfl⟩
    | some l =>
      cases l with
      | nil => left; simpa [hq] using updateStep_nil c n s h hq
      | cons q qs => right; right; exact ⟨q, qs, rfl, h, updateStep_cons c n s q qs h hq⟩
  · left; exact updateStep_closed c n s h

/-! ## monotonicity invariant -/

def MonoInv (c : Cfg) (n : Num) (s : CB) : Prop :=
  s.trace.Pairwise (· ≤ ·) ∧
  (∀ v ∈ s.trace, ∀ f, c.initial + s.numIters ≤ f → v ≤ calcF c n f) ∧
  (emptyish s.quantizers = true → s.trace = [])

theorem monoInv_init (c : Cfg) (n : Num) : MonoInv c n CB.init := by
  simp [MonoInv, CB.init]

theorem monoInv_updateStep (c : Cfg) {n : Num} (h : NumOK n) (s : CB) (hi : MonoInv c n s) :
    MonoInv c n (updateStep c n s).1 := by
  obtain ⟨h1, h2, h3⟩ := hi
  rcases updateStep_cases c n s with e | ⟨e, _⟩ | ⟨q, qs, hq, _, e⟩
  · rw [e]
    refine ⟨h1, ?_, h3⟩
    intro v hv f hf
    exact h2 v hv f (by simp only at hf; omega)
  · rw [e]; exact ⟨h1, h2, h3⟩
  · rw [e]
    refine ⟨?_, ?_, ?_⟩
    · simp only
      rw [List.pairwise_append]
      refine ⟨h1, by simp, ?_⟩
      intro a ha b hb
      simp only [List.mem_singleton] at hb
      rw [hb]
      exact h2 a ha _ le_rfl
    · intro v hv f hf
      simp only at hv hf
      rw [List.mem_append] at hv
      rcases hv with hv | hv
      · exact h2 v hv f (by omega)
      · simp only [List.mem_singleton] at hv
        rw [hv]
        exact calcF_mono c h (by omega)
    · intro he
      simp [emptyish, updateAll] at he

theorem emptyish_map (f : List QObj → List QObj) (hf : ∀ l, (f l = [] ↔ l = [])) (o : Option (List QObj)) :
    emptyish (o.map f) = emptyish o := by
  cases o with
  | none => rfl
  | some l =>
    cases l with
    | nil => simp [emptyish, (hf []).2 rfl]
    | cons a t =>
      have : f (a :: t) ≠ [] := fun hh => by simpa using (hf (a :: t)).1 hh
      simp only [Option.map]
      cases hfl : f (a :: t) with
      | nil => exact absurd hfl this
      | cons _ _ => rfl

theorem monoInv_step (c : Cfg) {n : Num} (h : NumOK n) (layers : List Layer) (s : CB) (e : Event)
    (hi : MonoInv c n s) : MonoInv c n (step c n layers s e).1 := by
  cases e with
  | trainBegin =>
    simp only [step]
    split_ifs with he hk
    · obtain ⟨h1, h2, h3⟩ := hi
      refine ⟨h1, h2, ?_⟩
      intro _
      exact h3 he
    · obtain ⟨h1, h2, h3⟩ := hi
      have ht : s.trace = [] := h3 he
      refine ⟨?_, ?_, ?_⟩
      · simp [ht]
      · intro v hv f _
        simp only [ht, List.nil_append, List.mem_singleton] at hv
        rw [hv]; exact (calcF_bounds c h f).1
      · intro he2
        exfalso
        apply hk
        apply setAll_nil_of_result_nil
        simp only [emptyish] at he2
        cases hr : (setAll c n.rd (getQuantizers layers)).1 with
        | nil => rfl
        | cons a t => simp [hr] at he2
    · exact hi
  | epochBegin =>
    simp only [step]
    split_ifs
    · exact hi
    · exact monoInv_updateStep c h s hi
  | batchBegin =>
    simp only [step]
    split_ifs
    · exact monoInv_updateStep c h s hi
    · exact hi
  | epochEnd => exact hi
  | forward =>
    obtain ⟨h1, h2, h3⟩ := hi
    refine ⟨h1, h2, ?_⟩
    intro he
    apply h3
    simp only [step] at he
    rwa [emptyish_map] at he
    intro l
    simp

theorem monoInv_run (c : Cfg) {n : Num} (h : NumOK n) (layers : List Layer) (es : List Event) :
    ∀ s, MonoInv c n s → MonoInv c n (run c n layers s es) := by
  induction es with
  | nil => intro s hs; exact hs
  | cons e t ih => intro s hs; exact ih _ (monoInv_step c h layers s e hs)

/-! ## "all tracked quantizers hold the applied factor" invariant (every model) -/

def SameInv (rd : Rnd) (s : CB) : Prop :=
  match s.quantizers with
  | none => s.trace = [] ∧ s.factor = none
  | some qs =>
    (qs = [] → s.trace = [] ∧ s.factor = none) ∧
    (qs ≠ [] → ∃ v, s.trace.getLast? = some v ∧ s.factor = some v ∧ ∀ q ∈ qs, q.st.eff rd = rd.r32 v)

theorem sameInv_init (rd : Rnd) : SameInv rd CB.init := by
  simp [SameInv, CB.init]

theorem sameInv_updateStep (c : Cfg) (n : Num) (s : CB) (hi : SameInv n.rd s) :
    SameInv n.rd (updateStep c n s).1 := by
  rcases updateStep_cases c n s with e | ⟨e, _⟩ | ⟨q, qs, hq, _, e⟩
  · rw [e]
    unfold SameInv at hi ⊢
    exact hi
  · rw [e]; exact hi
  · rw [e]
    unfold SameInv at hi ⊢
    rw [hq] at hi
    simp only
    refine ⟨?_, ?_⟩
    · intro hh; simp [updateAll] at hh
    · intro _
      exact ⟨_, by simp, rfl, updateAll_eff _ _ _⟩

theorem sameInv_step (c : Cfg) (n : Num) (layers : List Layer) (s : CB) (e : Event)
    (hi : SameInv n.rd s) : SameInv n.rd (step c n layers s e).1 := by
  cases e with
  | trainBegin =>
    simp only [step]
    have hs := setAll_getQuantizers c n.rd layers
    have hl := setAll_length c n.rd (getQuantizers layers)
    have htf : s.trace = [] ∧ s.factor = none ∨ ¬ emptyish s.quantizers = true := by
      unfold SameInv at hi
      cases hq : s.quantizers with
      | none => left; simpa [hq] using hi
      | some l =>
        cases l with
        | nil => left; rw [hq] at hi; exact hi.1 rfl
        | cons a t => right; simp [emptyish]
    split_ifs with he hk
    · -- nothing completed: the list is empty
      rcases htf with ⟨ht, hf⟩ | hne
      · unfold SameInv
        simp only
        refine ⟨fun _ => ⟨ht, hf⟩, ?_⟩
        intro hne
        exfalso
        apply hne
        have : (getQuantizers layers).length = 0 := by rw [← hs.2.1]; exact hk
        have h0 : (setAll c n.rd (getQuantizers layers)).1.length = 0 := by rw [hl.1]; exact this
        exact List.eq_nil_of_length_eq_zero h0
      · exact absurd he hne
    · rcases htf with ⟨ht, _⟩ | hne
      · unfold SameInv
        simp only
        refine ⟨?_, ?_⟩
        · intro hnil
          exfalso
          apply hk
          exact setAll_nil_of_result_nil _ _ _ hnil
        · intro _
          exact ⟨0, by simp [ht], rfl, fun q hq => (hs.2.2.2 q hq).2.2⟩
      · exact absurd he hne
    · exact hi
  | epochBegin =>
    simp only [step]
    split_ifs
    · exact hi
    · exact sameInv_updateStep c n s hi
  | batchBegin =>
    simp only [step]
    split_ifs
    · exact sameInv_updateStep c n s hi
    · exact hi
  | epochEnd => exact hi
  | forward =>
    simp only [step]
    unfold SameInv at hi ⊢
    cases hq : s.quantizers with
    | none => simpa [hq] using hi
    | some qs =>
      rw [hq] at hi
      simp only [Option.map]
      refine ⟨?_, ?_⟩
      · intro hnil
        apply hi.1
        simpa using hnil
      · intro hne
        have : qs ≠ [] := by
          intro hh; apply hne; simp [hh]
        obtain ⟨v, h1, h2, h3⟩ := hi.2 this
        refine ⟨v, h1, h2, ?_⟩
        intro q hqm
        simp only [List.mem_map] at hqm
        obtain ⟨q0, h0, rfl⟩ := hqm
        simpa using h3 q0 h0

theorem sameInv_run (c : Cfg) (n : Num) (layers : List Layer) (es : List Event) :
    ∀ s, SameInv n.rd s → SameInv n.rd (run c n layers s es) := by
  induction es with
  | nil => intro s hs; exact hs
  | cons e t ih => intro s hs; exact ih _ (sameInv_step c n layers s e hs)

/-! ## the tracked list is (by identity) what `get_quantizers` returned -/

def TagInv (layers : List Layer) (s : CB) : Prop :=
  ∀ qs, s.quantizers = some qs → qs.map QObj.tag = (getQuantizers layers).map QObj.tag

theorem tagInv_init (layers : List Layer) : TagInv layers CB.init := by
  intro qs h; simp [CB.init] at h

theorem tagInv_updateStep (c : Cfg) (n : Num) (layers : List Layer) (s : CB) (hi : TagInv layers s) :
    TagInv layers (updateStep c n s).1 := by
  rcases updateStep_cases c n s with e | ⟨e, _⟩ | ⟨q, qs, hq, _, e⟩
  · rw [e]; exact hi
  · rw [e]; exact hi
  · rw [e]
    intro qs' h
    simp only [Option.some.injEq] at h
    rw [← h, updateAll_tags]
    exact hi _ hq

theorem tagInv_step (c : Cfg) (n : Num) (layers : List Layer) (s : CB) (e : Event)
    (hi : TagInv layers s) : TagInv layers (step c n layers s e).1 := by
  cases e with
  | trainBegin =>
    simp only [step]
    have hs := setAll_getQuantizers c n.rd layers
    split_ifs
    · intro qs h
      simp only [Option.some.injEq] at h
      rw [← h]; exact hs.2.2.1
    · intro qs h
      simp only [Option.some.injEq] at h
      rw [← h]; exact hs.2.2.1
    · exact hi
  | epochBegin =>
    simp only [step]
    split_ifs
    · exact hi
    · exact tagInv_updateStep c n layers s hi
  | batchBegin =>
    simp only [step]
    split_ifs
    · exact tagInv_updateStep c n layers s hi
    · exact hi
  | epochEnd => exact hi
  | forward =>
    simp only [step]
    intro qs h
    cases hq : s.quantizers with
    | none => simp [hq] at h
    | some qs0 =>
      simp only [hq, Option.map, Option.some.injEq] at h
      rw [← h, List.map_map]
      exact hi _ hq

theorem tagInv_run (c : Cfg) (n : Num) (layers : List Layer) (es : List Event) :
    ∀ s, TagInv layers s → TagInv layers (run c n layers s es) := by
  induction es with
  | nil => intro s hs; exact hs
  | cons e t ih => intro s hs; exact ih _ (tagInv_step c n layers s e hs)

/-! ## no hook raises once `on_train_begin` has run (every model) -/

theorem step_no_raise (c : Cfg) (n : Num) (layers : List Layer) (s : CB) (e : Event)
    (hs : s.quantizers.isSome = true ∨ e = .trainBegin) :
    (step c n layers s e).2 = false ∧ (step c n layers s e).1.quantizers.isSome = true := by
  cases e with
  | trainBegin =>
    simp only [step]
    split_ifs with he hk
    · exact ⟨(setAll_getQuantizers c n.rd layers).1, rfl⟩
    · exact ⟨(setAll_getQuantizers c n.rd layers).1, rfl⟩
    · refine ⟨rfl, ?_⟩
      cases hq : s.quantizers with
      | none => simp [hq, emptyish] at he
      | some _ => rfl
  | epochBegin =>
    have hs : s.quantizers.isSome = true := by rcases hs with h | h; exact h; cases h
    simp only [step]
    split_ifs
    · exact ⟨rfl, hs⟩
    · rcases updateStep_cases c n s with e | ⟨_, e⟩ | ⟨q, qs, _, _, e⟩
      · rw [e]; exact ⟨rfl, hs⟩
      · rw [e] at hs; cases hs
      · rw [e]; exact ⟨rfl, rfl⟩
  | batchBegin =>
    have hs : s.quantizers.isSome = true := by rcases hs with h | h; exact h; cases h
    simp only [step]
    split_ifs
    · rcases updateStep_cases c n s with e | ⟨_, e⟩ | ⟨q, qs, _, _, e⟩
      · rw [e]; exact ⟨rfl, hs⟩
      · rw [e] at hs; cases hs
      · rw [e]; exact ⟨rfl, rfl⟩
    · exact ⟨rfl, hs⟩
  | epochEnd =>
    have hs : s.quantizers.isSome = true := by rcases hs with h | h; exact h; cases h
    exact ⟨rfl, hs⟩
  | forward =>
    have hs : s.quantizers.isSome = true := by rcases hs with h | h; exact h; cases h
    refine ⟨rfl, ?_⟩
    simp only [step]
    cases hq : s.quantizers with
    | none => rw [hq] at hs; cases hs
    | some _ => rfl

theorem run_no_raise (c : Cfg) (n : Num) (layers : List Layer) (es : List Event) :
    ∀ s, s.quantizers.isSome = true → anyRaise c n layers s es = false := by
  induction es with
  | nil => intro s _; rfl
  | cons e t ih =>
    intro s hs
    have h := step_no_raise c n layers s e (Or.inl hs)
    simp only [anyRaise, h.1, Bool.false_or]
    exact ih _ h.2

theorem run_isSome (c : Cfg) (n : Num) (layers : List Layer) (es : List Event) :
    ∀ s, s.quantizers.isSome = true → (run c n layers s es).quantizers.isSome = true := by
  induction es with
  | nil => intro s hs; exact hs
  | cons e t ih =>
    intro s hs
    exact ih _ (step_no_raise c n layers s e (Or.inl hs)).2

/-! ## num_iters counts the hooks that reach `update_qnoise_factor` -/

theorem step_numIters (c : Cfg) (n : Num) (layers : List Layer) (s : CB) (e : Event)
    (hr : (step c n layers s e).2 = false) :
    (step c n layers s e).1.numIters = s.numIters + (if e.ticks c then 1 else 0) := by
  have hu : (updateStep c n s).2 = false → (updateStep c n s).1.numIters = s.numIters + 1 := by
    intro hr
    rcases updateStep_cases c n s with e | ⟨e, _⟩ | ⟨q, qs, _, _, e⟩
    · rw [e]
    · rw [e] at hr; cases hr
    · rw [e]
  cases e with
  | trainBegin =>
    have : (Event.ticks c .trainBegin) = false := rfl
    rw [this, if_neg (by simp)]
    simp only [step]
    split_ifs <;> simp
  | epochBegin =>
    cases hm : c.stepMode
    · simp only [step, hm] at hr ⊢
      simp [Event.ticks, hm, hu hr]
    · simp [step, Event.ticks, hm]
  | batchBegin =>
    cases hm : c.stepMode
    · simp [step, Event.ticks, hm]
    · simp only [step, hm] at hr ⊢
      simp [Event.ticks, hm, hu hr]
  | epochEnd => simp [step, Event.ticks]
  | forward => simp [step, Event.ticks]

theorem run_numIters (c : Cfg) (n : Num) (layers : List Layer) (es : List Event) :
    ∀ s, anyRaise c n layers s es = false →
      (run c n layers s es).numIters = s.numIters + ((es.filter (Event.ticks c)).length : ℤ) := by
  induction es with
  | nil => intro s _; simp [run]
  | cons e t ih =>
    intro s hr
    simp only [anyRaise, Bool.or_eq_false_iff] at hr
    have h1 := step_numIters c n layers s e hr.1
    have h2 := ih _ hr.2
    simp only [run]
    rw [h2, h1]
    by_cases ht : e.ticks c = true
    · simp [ht]; ring
    · simp [ht]

end QKV.Sched
