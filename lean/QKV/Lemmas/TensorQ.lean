/-
  QKV.Lemmas.TensorQ — index arithmetic of Model/TensorQ.lean: row-major unravel, keepdims reductions,
  broadcasting, and which axes `_get_scaling_axis` reduces.
-/
import Mathlib.Tactic
import QKV.Model.TensorQ
namespace QKV.Tn

theorem unravel_length (shape : List ℕ) (i : ℕ) : (unravel shape i).length = shape.length := by
  induction shape generalizing i with
  | nil => rfl
  | cons d ds ih => simp [unravel, ih]

theorem prodL_pos_of {shape : List ℕ} {i : ℕ} (h : i < prodL shape) : 0 < prodL shape := by omega

/-- every component of a valid flat index is inside its dimension -/
theorem unravel_lt (shape : List ℕ) (i : ℕ) (h : i < prodL shape) (d : ℕ) (hd : d < shape.length) :
    (unravel shape i).getD d 0 < shape.getD d 0 := by
  induction shape generalizing i d with
  | nil => simp at hd
  | cons a as ih =>
    have hp : 0 < prodL as := by
      rcases Nat.eq_zero_or_pos (prodL as) with h0 | h0
      · simp [prodL, h0] at h
      · exact h0
    cases d with
    | zero =>
      simp only [unravel, List.getD_cons_zero]
      rw [Nat.div_lt_iff_lt_mul hp]
      simpa [prodL] using h
    | succ d =>
      simp only [unravel, List.getD_cons_succ]
      exact ih (i % prodL as) (Nat.mod_lt _ hp) d (by simpa using hd)

theorem zeroAxes_length (axes idx : List ℕ) : (zeroAxes axes idx).length = idx.length := by
  simp [zeroAxes]

theorem zeroAxes_getD (axes idx : List ℕ) (d : ℕ) (hd : d < idx.length) :
    (zeroAxes axes idx).getD d 0 = if d ∈ axes then 0 else idx.getD d 0 := by
  simp [zeroAxes, List.getD_eq_getElem?_getD, List.getElem?_map, List.getElem?_range hd]

theorem bcastIdx_getD (small idx : List ℕ) (d : ℕ) (hd : d < idx.length) :
    (bcastIdx small idx).getD d 0 = if small.getD d 1 = 1 then 0 else idx.getD d 0 := by
  simp [bcastIdx, List.getD_eq_getElem?_getD, List.getElem?_map, List.getElem?_range hd]

theorem keepShape_getD (shape axes : List ℕ) (d : ℕ) (hd : d < shape.length) :
    (keepShape shape axes).getD d 1 = if d ∈ axes then 1 else shape.getD d 0 := by
  simp [keepShape, List.getD_eq_getElem?_getD, List.getElem?_map, List.getElem?_range hd]

/-- two lists of the same length with equal `getD` everywhere are equal -/
theorem ext_getD {l₁ l₂ : List ℕ} (hl : l₁.length = l₂.length)
    (h : ∀ d, d < l₁.length → l₁.getD d 0 = l₂.getD d 0) : l₁ = l₂ := by
  apply List.ext_getElem hl
  intro d h1 h2
  have := h d h1
  simpa [List.getD_eq_getElem?_getD, List.getElem?_eq_getElem h1, List.getElem?_eq_getElem h2] using this

/-- KEY: for a valid index, the cell a `keepdims` reduction accumulates an element into is the cell
    broadcasting reads its scale from (`elements_per_scale = None` path of `_get_scale_mean`) -/
theorem zeroAxes_eq_bcast (shape axes : List ℕ) (i : ℕ) (h : i < prodL shape) :
    zeroAxes axes (unravel shape i) = bcastIdx (keepShape shape axes) (unravel shape i) := by
  have hl := unravel_length shape i
  apply ext_getD
  · simp [zeroAxes, bcastIdx]
  · intro d hd
    rw [zeroAxes_length, hl] at hd
    rw [zeroAxes_getD _ _ _ (by rw [hl]; exact hd), bcastIdx_getD _ _ _ (by rw [hl]; exact hd),
      keepShape_getD _ _ _ hd]
    by_cases hc : d ∈ axes
    · simp [hc]
    · simp only [hc, if_false]
      by_cases h1 : shape.getD d 0 = 1
      · have := unravel_lt shape i h d hd
        rw [h1] at this
        rw [if_pos h1]; omega
      · rw [if_neg h1]

/-- two indices fall into the same cell of a `keepdims` reduction over `axes` iff they agree on every
    axis that is NOT reduced -/
theorem zeroAxes_eq_iff (axes idx idx' : List ℕ) (hl : idx.length = idx'.length) :
    zeroAxes axes idx = zeroAxes axes idx' ↔
      ∀ d, d < idx.length → d ∉ axes → idx.getD d 0 = idx'.getD d 0 := by
  constructor
  · intro h d hd hc
    have h1 := zeroAxes_getD axes idx d hd
    have h2 := zeroAxes_getD axes idx' d (hl ▸ hd)
    rw [h] at h1
    rw [h1] at h2
    rw [if_neg hc, if_neg hc] at h2
    exact h2
  · intro h
    apply ext_getD
    · simp [zeroAxes, hl]
    · intro d hd
      rw [zeroAxes_length] at hd
      rw [zeroAxes_getD _ _ _ hd, zeroAxes_getD _ _ _ (hl ▸ hd)]
      by_cases hc : d ∈ axes
      · simp [hc]
      · simp only [hc, if_false]
        exact h d hd hc

/-! ### which axes `_get_scaling_axis` reduces -/

/-- the axes that KEEP their own scale (the documented meaning of `scale_axis`) -/
def keptAxis (chLast : Bool) (sa : AxisSpec) (len d : ℕ) : Prop :=
  match sa with
  | .many l => d ∈ l
  | .one a => d = a
  | .none => if chLast then d + 1 = len else d = 0

/-- for every axis `d < len`: `d` is reduced iff it is not a kept axis — for every rank, both data
    formats, `scale_axis` None / int / list -/
theorem scalingAxis_spec (chLast : Bool) (sa : AxisSpec) (len d : ℕ) (hd : d < len) :
    d ∈ scalingAxis chLast sa len ↔ ¬ keptAxis chLast sa len d := by
  unfold scalingAxis keptAxis
  cases sa with
  | many l => simp [hd]
  | one a =>
    simp only [List.mem_append, List.mem_range, List.mem_filter, decide_eq_true_eq]
    omega
  | none =>
    cases chLast
    · simp only [Bool.false_eq_true, if_false, List.mem_filter, List.mem_range, decide_eq_true_eq]
      omega
    · simp only [if_true, List.mem_range]
      omega

/-! ### the (axis, elements_per_scale) pairs in ascending order (`sorted(zip(..))` in `_validate_axis_and_eps`) -/

/-- `pairLe` as a relation -/
def PairLe (p q : ℕ × ℕ) : Prop := pairLe p q = true

instance : DecidableRel PairLe := fun p q => inferInstanceAs (Decidable (pairLe p q = true))

theorem pairLe_iff (p q : ℕ × ℕ) : PairLe p q ↔ p.1 < q.1 ∨ (p.1 = q.1 ∧ p.2 ≤ q.2) := by
  simp [PairLe, pairLe]

instance : Std.Total PairLe := ⟨fun p q => by rw [pairLe_iff, pairLe_iff]; omega⟩
instance : IsTrans (ℕ × ℕ) PairLe := ⟨fun p q r => by rw [pairLe_iff, pairLe_iff, pairLe_iff]; omega⟩

theorem PairLe.antisymm {p q : ℕ × ℕ} (h : PairLe p q) (h' : PairLe q p) : p = q := by
  rw [pairLe_iff] at h h'
  exact Prod.ext (by omega) (by omega)

/-- the model's sort is insertion sort along `pairLe` -/
theorem sortPairs_eq_insertionSort (l : List (ℕ × ℕ)) : sortPairs l = l.insertionSort PairLe := by
  have hi : ∀ (p : ℕ × ℕ) (t : List (ℕ × ℕ)), insertPair p t = t.orderedInsert PairLe p := by
    intro p t
    induction t with
    | nil => rfl
    | cons q qs ih =>
      by_cases h : pairLe p q = true
      · rw [insertPair, if_pos h, List.orderedInsert_cons, if_pos (show PairLe p q from h)]
      · rw [insertPair, if_neg h, List.orderedInsert_cons, if_neg (show ¬ PairLe p q from h), ih]
  induction l with
  | nil => rfl
  | cons p ps ih => simp only [sortPairs, List.insertionSort_cons, ih, hi]

/-- sorting only re-orders the pairs -/
theorem sortPairs_perm (l : List (ℕ × ℕ)) : (sortPairs l).Perm l := by
  rw [sortPairs_eq_insertionSort]; exact List.perm_insertionSort _ _

/-- the result is ascending (lexicographically; in particular the axes ascend) -/
theorem sortPairs_pairwise (l : List (ℕ × ℕ)) : (sortPairs l).Pairwise PairLe := by
  rw [sortPairs_eq_insertionSort]; exact List.pairwise_insertionSort _ _

theorem sortPairs_axes_ascending (l : List (ℕ × ℕ)) : ((sortPairs l).map (·.1)).Pairwise (· ≤ ·) := by
  rw [List.pairwise_map]
  refine (sortPairs_pairwise l).imp ?_
  intro p q h
  rw [pairLe_iff] at h
  omega

/-- THE point: the sorted pairs depend on the SET (multiset) of pairs only, not on the order they are listed in -/
theorem sortPairs_eq_of_perm {l₁ l₂ : List (ℕ × ℕ)} (h : l₁.Perm l₂) : sortPairs l₁ = sortPairs l₂ :=
  List.Perm.eq_of_pairwise (fun _ _ _ _ => PairLe.antisymm) (sortPairs_pairwise l₁) (sortPairs_pairwise l₂)
    ((sortPairs_perm l₁).trans (h.trans (sortPairs_perm l₂).symm))

/-- an ascending spelling is left as it is (so nothing changed for the configurations that used to work) -/
theorem sortPairs_of_pairwise {l : List (ℕ × ℕ)} (h : l.Pairwise PairLe) : sortPairs l = l := by
  rw [sortPairs_eq_insertionSort]; exact List.Pairwise.insertionSort_eq h

/-- strictly ascending axes: already sorted -/
theorem sortPairs_of_axes_ascending {l : List (ℕ × ℕ)} (h : (l.map (·.1)).Pairwise (· < ·)) : sortPairs l = l := by
  apply sortPairs_of_pairwise
  rw [List.pairwise_map] at h
  refine h.imp ?_
  intro p q hpq
  rw [pairLe_iff]; exact Or.inl hpq

theorem zip_map_fst_snd (ps : List (ℕ × ℕ)) : (ps.map (·.1)).zip (ps.map (·.2)) = ps := by
  induction ps with
  | nil => rfl
  | cons p t ih => simp [ih]

theorem zip_replicate_eq_map (l : List ℕ) (e : ℕ) : l.zip (List.replicate l.length e) = l.map fun a => (a, e) := by
  induction l with
  | nil => rfl
  | cons a t ih => simp [List.replicate_succ, ih]

/-- `_validate_axis_and_eps` on two listings of the same (axis, elements) pairs: same verdict, same result -/
theorem validateAxisEps_perm (shape : List ℕ) {ps qs : List (ℕ × ℕ)} (h : ps.Perm qs) :
    validateAxisEps shape (.many (ps.map (·.1))) (.many (ps.map (·.2)))
      = validateAxisEps shape (.many (qs.map (·.1))) (.many (qs.map (·.2))) := by
  simp only [validateAxisEps, List.length_map, zip_map_fst_snd, ne_eq, not_true_eq_false, if_false,
    sortPairs_eq_of_perm h, h.all_eq]

/-- … and with ONE `elements_per_scale` for all listed axes -/
theorem validateAxisEps_perm_int (shape : List ℕ) {l l' : List ℕ} (h : l.Perm l') (e : ℕ) :
    validateAxisEps shape (.many l) (.one e) = validateAxisEps shape (.many l') (.one e) := by
  simp only [validateAxisEps, zip_replicate_eq_map, h.all_eq, sortPairs_eq_of_perm (h.map fun a => (a, e))]

/-! ### groups -/

/-- scales produced by mapping a group statistic over consumer keys are constant on equal keys -/
theorem map_const_on_key {α β : Type} (f : α → β) (ks : List α) (i j : ℕ) (hi : i < ks.length)
    (hj : j < ks.length) (h : ks[i] = ks[j]) : (ks.map f)[i]'(by simpa using hi) = (ks.map f)[j]'(by simpa using hj) := by
  simp [h]

end QKV.Tn
