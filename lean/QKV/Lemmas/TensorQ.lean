/-
  QKV.Lemmas.TensorQ — index arithmetic of Model/TensorQ.lean: row-major unravel, keepdims reductions,
  broadcasting, and which axes `_get_scaling_axis` reduces.
-/
import Mathlib.Tactic
import QKV.Model.TensorQ
namespace QKV.Tn

theorem unravel_length (shape : List ℕ) (i : ℕ) : (unravel shape i).length = shape.length := by
  induction shape generalizing i with
  | nil => rfl
  | cons d ds ih => simp [unravel, ih]

theorem prodL_pos_of {shape : List ℕ} {i : ℕ} (h : i < prodL shape) : 0 < prodL shape := by omega

/-- every component of a valid flat index is inside its dimension -/
theorem unravel_lt (shape : List ℕ) (i : ℕ) (h : i < prodL shape) (d : ℕ) (hd : d < shape.length) :
    (unravel shape i).getD d 0 < shape.getD d 0 := by
  induction shape generalizing i d with
  | nil => simp at hd
  | cons a as ih =>
    have hp : 0 < prodL as := by
      rcases Nat.eq_zero_or_pos (prodL as) with h0 | h0
      · simp [prodL, h0] at h
      · exact h0
    cases d with
    | zero =>
      simp only [unravel, List.getD_cons_zero]
      rw [Nat.div_lt_iff_lt_mul hp]
      simpa [prodL] using h
    | succ d =>
      simp only [unravel, List.getD_cons_succ]
      exact ih (i % prodL as) (Nat.mod_lt _ hp) d (by simpa using hd)

theorem zeroAxes_length (axes idx : List ℕ) : (zeroAxes axes idx).length = idx.length := by
  simp [zeroAxes]

theorem zeroAxes_getD (axes idx : List ℕ) (d : ℕ) (hd : d < idx.length) :
    (zeroAxes axes idx).getD d 0 = if d ∈ axes then 0 else idx.getD d 0 := by
  simp [zeroAxes, List.getD_eq_getElem?_getD, List.getElem?_map, List.getElem?_range hd]

theorem bcastIdx_getD (small idx : List ℕ) (d : ℕ) (hd : d < idx.length) :
    (bcastIdx small idx).getD d 0 = if small.getD d 1 = 1 then 0 else idx.getD d 0 := by
  simp [bcastIdx, List.getD_eq_getElem?_getD, List.getElem?_map, List.getElem?_range hd]

theorem keepShape_getD (shape axes : List ℕ) (d : ℕ) (hd : d < shape.length) :
    (keepShape shape axes).getD d 1 = if d ∈ axes then 1 else shape.getD d 0 := by
  simp [keepShape, List.getD_eq_getElem?_getD, List.getElem?_map, List.getElem?_range hd]

/-- two lists of the same length with equal `getD` everywhere are equal -/
theorem ext_getD {l₁ l₂ : List ℕ} (hl : l₁.length = l₂.length)
    (h : ∀ d, d < l₁.length → l₁.getD d 0 = l₂.getD d 0) : l₁ = l₂ := by
  apply List.ext_getElem hl
  intro d h1 h2
  have := h d h1
  simpa [List.getD_eq_getElem?_getD, List.getElem?_eq_getElem h1, List.getElem?_eq_getElem h2] using this

/-- KEY: for a valid index, the cell a `keepdims` reduction accumulates an element into is the cell
    broadcasting reads its scale from (`elements_per_scale = None` path of `_get_scale_mean`) -/
theorem zeroAxes_eq_bcast (shape axes : List ℕ) (i : ℕ) (h : i < prodL shape) :
    zeroAxes axes (unravel shape i) = bcastIdx (keepShape shape axes) (unravel shape i) := by
  have hl := unravel_length shape i
  apply ext_getD
  · simp [zeroAxes, bcastIdx]
  · intro d hd
    rw [zeroAxes_length, hl] at hd
    rw [zeroAxes_getD _ _ _ (by rw [hl]; exact hd), bcastIdx_getD _ _ _ (by rw [hl]; exact hd),
      keepShape_getD _ _ _ hd]
    by_cases hc : d ∈ axes
    · simp [hc]
    · simp only [hc, if_false]
      by_cases h1 : shape.getD d 0 = 1
      · have := unravel_lt shape i h d hd
        rw [h1] at this
        rw [if_pos h1]; omega
      · rw [if_neg h1]

/-- two indices fall into the same cell of a `keepdims` reduction over `axes` iff they agree on every
    axis that is NOT reduced -/
theorem zeroAxes_eq_iff (axes idx idx' : List ℕ) (hl : idx.length = idx'.length) :
    zeroAxes axes idx = zeroAxes axes idx' ↔
      ∀ d, d < idx.length → d ∉ axes → idx.getD d 0 = idx'.getD d 0 := by
  constructor
  · intro h d hd hc
    have h1 := zeroAxes_getD axes idx d hd
    have h2 := zeroAxes_getD axes idx' d (hl ▸ hd)
    rw [h] at h1
    rw [h1] at h2
    rw [if_neg hc, if_neg hc] at h2
    exact h2
  · intro h
    apply ext_getD
    · simp [zeroAxes, hl]
    · intro d hd
      rw [zeroAxes_length] at hd
      rw [zeroAxes_getD _ _ _ hd, zeroAxes_getD _ _ _ (hl ▸ hd)]
      by_cases hc : d ∈ axes
      · simp [hc]
      · simp only [hc, if_false]
        exact h d hd hc

/-! ### which axes `_get_scaling_axis` reduces -/

/-- the axes that KEEP their own scale (the documented meaning of `scale_axis`) -/
def keptAxis (chLast : Bool) (sa : AxisSpec) (len d : ℕ) : Prop :=
  match sa with
  | .many l => d ∈ l
  | .one a => d = a
  | .none => if chLast then d + 1 = len else d = 0

/-- for every axis `d < len`: `d` is reduced iff it is not a kept axis — for every rank, both data
    formats, `scale_axis` None / int / list -/
theorem scalingAxis_spec (chLast : Bool) (sa : AxisSpec) (len d : ℕ) (hd : d < len) :
    d ∈ scalingAxis chLast sa len ↔ ¬ keptAxis chLast sa len d := by
  unfold scalingAxis keptAxis
  cases sa with
  | many l => simp [hd]
  | one a =>
    simp only [List.mem_append, List.mem_range, List.mem_filter, decide_eq_true_eq]
    omega
  | none =>
    cases chLast
    · simp only [Bool.false_eq_true, if_false, List.mem_filter, List.mem_range, decide_eq_true_eq]
      omega
    · simp only [if_true, List.mem_range]
      omega

/-! ### groups -/

/-- scales produced by mapping a group statistic over consumer keys are constant on equal keys -/
theorem map_const_on_key {α β : Type} (f : α → β) (ks : List α) (i j : ℕ) (hi : i < ks.length)
    (hj : j < ks.length) (h : ks[i] = ks[j]) : (ks.map f)[i]'(by simpa using hi) = (ks.map f)[j]'(by simpa using hj) := by
  simp [h]

end QKV.Tn
