/- QKV.Lemmas.LayersConcrete — facts about the scalar cores of the concrete layer model (C11) -/
import Mathlib.Tactic
import QKV.Model.LayersConcrete
namespace QKV.Layers

theorem sumN_mul_left (n : ℕ) (c : ℚ) (f : ℕ → ℚ) : sumN n (fun i => c * f i) = c * sumN n f := by
  unfold sumN
  induction (List.range n) with
  | nil => simp
  | cons a t ih => simp [List.sum_cons, ih, mul_add]

theorem sumN_congr (n : ℕ) (f g : ℕ → ℚ) (h : ∀ i, i < n → f i = g i) : sumN n f = sumN n g := by
  unfold sumN
  congr 1
  apply List.map_congr_left
  intro i hi
  exact h i (List.mem_range.mp hi)

theorem sumN_one (f : ℕ → ℚ) : sumN 1 f = f 0 := by simp [sumN]

theorem rd_mul_left (n before : ℕ) (c : ℚ) (f : ℕ → ℚ) (i : ℕ) :
    rd n before (fun t => c * f t) i = c * rd n before f i := by
  unfold rd; split <;> simp

theorem rd_inside (n : ℕ) (f : ℕ → ℚ) (i : ℕ) (h : i < n) : rd n 0 f i = f i := by
  unfold rd; simp [h]

theorem sumPoolAt_mul_left (h w ph pw sh sw bh bw : ℕ) (c : ℚ) (x : ℕ → ℕ → ℚ) (i j : ℕ) :
    sumPoolAt h w ph pw sh sw bh bw (fun r q => c * x r q) i j =
      c * sumPoolAt h w ph pw sh sw bh bw x i j := by
  unfold sumPoolAt
  simp only [rd_mul_left, sumN_mul_left]

theorem cntValid_inside (n p start : ℕ) (h : start + p ≤ n) : cntValid n 0 p start = p := by
  unfold cntValid
  rw [List.filter_eq_self.mpr]
  · simp
  · intro a ha
    have := List.mem_range.mp ha
    simp; omega

theorem sumPoolAt_inside (h w ph pw sh sw : ℕ) (x : ℕ → ℕ → ℚ) (i j : ℕ)
    (hi : i * sh + ph ≤ h) (hj : j * sw + pw ≤ w) :
    sumPoolAt h w ph pw sh sw 0 0 x i j =
      sumN ph fun a => sumN pw fun b => x (i * sh + a) (j * sw + b) := by
  unfold sumPoolAt
  apply sumN_congr; intro a ha
  apply sumN_congr; intro b hb
  rw [rd_inside _ _ _ (by omega), rd_inside _ _ _ (by omega)]


/-! ### average pooling -/

theorem avgPoolAt_mul_left (h w ph pw sh sw bh bw : ℕ) (c : ℚ) (x : ℕ → ℕ → ℚ) (i j : ℕ) :
    avgPoolAt h w ph pw sh sw bh bw (fun r q => c * x r q) i j =
      c * avgPoolAt h w ph pw sh sw bh bw x i j := by
  unfold avgPoolAt
  rw [sumPoolAt_mul_left, mul_div_assoc]

theorem avgPoolAt_inside (h w ph pw sh sw : ℕ) (x : ℕ → ℕ → ℚ) (i j : ℕ)
    (hi : i * sh + ph ≤ h) (hj : j * sw + pw ≤ w) :
    avgPoolAt h w ph pw sh sw 0 0 x i j =
      sumPoolAt h w ph pw sh sw 0 0 x i j / ((ph * pw : ℕ) : ℚ) := by
  unfold avgPoolAt
  rw [cntValid_inside h ph (i * sh) hi, cntValid_inside w pw (j * sw) hj]

/-! ### output lengths -/

theorem kext_pos (k d : ℕ) : 1 ≤ kext k d := by unfold kext; omega

theorem convOutLen_causal (n k s d : ℕ) (hs : 1 ≤ s) :
    convOutLen .valid (n + (kext k d - 1)) k s d = convOutLen .causal n k s d := by
  unfold convOutLen
  have := kext_pos k d
  simp only
  congr 1
  omega

theorem convOutLen_same_stride1 (n k d : ℕ) : convOutLen .same n k 1 d = n := by
  unfold convOutLen; simp

theorem convOutLen_valid_stride1 (n k d : ℕ) (h : kext k d ≤ n) :
    convOutLen .valid n k 1 d + kext k d = n + 1 := by
  unfold convOutLen; simp; omega

/-- the last window of a `same` convolution stays inside the padded signal:
    zeros in front + signal + zeros behind cover `(out − 1)·s + extent` -/
theorem same_window_fits (n k s d : ℕ) (hn : 1 ≤ n) (hs : 1 ≤ s) :
    2 * padBefore .same n k s d ≤ (convOutLen .same n k s d - 1) * s + kext k d - n ∧
    (convOutLen .same n k s d - 1) * s < n := by
  constructor
  · simp only [padBefore]; omega
  · unfold convOutLen
    simp only
    have h1 : (n + s - 1) / s * s ≤ n + s - 1 := Nat.div_mul_le_self _ _
    have h2 : 1 ≤ (n + s - 1) / s := by
      rw [Nat.le_div_iff_mul_le (by omega)]; omega
    have : ((n + s - 1) / s - 1) * s = (n + s - 1) / s * s - s := by
      rw [Nat.sub_mul]; simp
    omega

/-! ### a 1×1 convolution is a dot product -/

theorem conv1dAt_pointwise (n cg fpg : ℕ) (x : ℕ → ℕ → ℚ) (w : ℕ → ℕ → ℕ → ℚ) (o f : ℕ)
    (ho : o < n) (hf : f < fpg) :
    conv1dAt n 1 1 1 0 cg fpg x w o f = dotAt cg (x o) (w 0) f := by
  unfold conv1dAt dotAt
  rw [sumN_one]
  apply sumN_congr; intro ci _
  have : f / fpg = 0 := Nat.div_eq_of_lt hf
  simp [rd, this, ho]

theorem conv2dAt_pointwise (h w cg fpg : ℕ) (x : ℕ → ℕ → ℕ → ℚ) (ker : ℕ → ℕ → ℕ → ℕ → ℚ)
    (oi oj f : ℕ) (hi : oi < h) (hj : oj < w) (hf : f < fpg) :
    conv2dAt h w 1 1 1 1 1 1 0 0 cg fpg x ker oi oj f = dotAt cg (x oi oj) (ker 0 0) f := by
  unfold conv2dAt dotAt
  rw [sumN_one, sumN_one]
  apply sumN_congr; intro ci _
  have : f / fpg = 0 := Nat.div_eq_of_lt hf
  simp [rd, this, hi, hj]

/-- depthwise with depth multiplier 1 then pointwise = one dense convolution whose kernel is the
    product (the algebra behind `separable_conv2d`), stated for one output element and a 1×1
    pointwise kernel: the pointwise stage is a dot over the depthwise channels -/
theorem separable_pointwise_stage (c : ℕ) (dwOut : ℕ → ℚ) (pk : ℕ → ℕ → ℚ) (f : ℕ) :
    dotAt c dwOut pk f = sumN c fun ch => dwOut ch * pk ch f := rfl

/-! ### global pooling -/

theorem meanHWAt_eq (h w : ℕ) (x : ℕ → ℕ → ℚ) :
    meanHWAt h w x = sumHWAt h w x * (1 / ((h * w : ℕ) : ℚ)) := by
  unfold meanHWAt; rw [mul_one_div]

/-! ### element-wise quantizers commute with reshapes -/

theorem apply_elementwise (q : QSpec) (f : ℚ → ℚ) (h : q.scalarFn = some f) (t : Tensor) :
    q.apply t = t.map f := by
  cases q <;> simp_all [QSpec.apply, QSpec.scalarFn]

theorem elementwise_commutes_expandDims (q : QSpec) (f : ℚ → ℚ) (h : q.scalarFn = some f)
    (ax : ℕ) (t : Tensor) :
    q.apply (op1C (.expandDims ax) t) = op1C (.expandDims ax) (q.apply t) := by
  rw [apply_elementwise q f h, apply_elementwise q f h]
  simp [op1C, Tensor.reshape, Tensor.map]

/-! ### per-call quantities: the pool area of QGlobalAveragePooling2D, the global data-format switch -/

/-- the reciprocal pool area is a function of the shape of the tensor of THIS call -/
theorem recipAreaC_last (x : Tensor) (b h w c : ℕ) (hs : x.shape = [b, h, w, c]) (hp : 0 < h * w) :
    recipAreaC .channelsLast x = { Tensor.scalar (1 / ((h * w : ℕ) : ℚ)) with ok := x.ok } := by
  have : h * w ≠ 0 := hp.ne'
  simp [recipAreaC, areaHW, hs, this]

theorem recipAreaC_first (x : Tensor) (b h w c : ℕ) (hs : x.shape = [b, c, h, w]) (hp : 0 < h * w) :
    recipAreaC .channelsFirst x = { Tensor.scalar (1 / ((h * w : ℕ) : ℚ)) with ok := x.ok } := by
  have : h * w ≠ 0 := hp.ne'
  simp [recipAreaC, areaHW, hs, this]

/-- on rank-2 tensors (everything a recurrent cell adds a bias to) `K.bias_add` is the same function
    under both image data formats: axis 1 IS the last axis -/
theorem biasAddC_rank2 (x bias : Tensor) (b n : ℕ) (hs : x.shape = [b, n]) :
    biasAddC .channelsFirst x bias = biasAddC .channelsLast x bias := by
  unfold biasAddC
  simp [hs]

end QKV.Layers
