/-
  QKV.Lemmas.Rewrite — frame lemmas for the model_quantize rewriting model.

  `Eff ks ts l₀ l` : layer `l` differs from `l₀` at most in the top-level keys `ts`, in the
  `config` entry, and inside `config` at most in the keys `ks`.  Every primitive edit of the
  model has an `Eff` lemma; the branches are walked through with a small
  weakest-precondition calculus (`Ok`).
-/
import QKV.Model.Rewrite
namespace QKV.Rewrite

/-! ## dict facts -/

theorem dget_dset_same (d : Dict) (k : String) (v : PyVal) : dget (dset d k v) k = some v := by
  induction d with
  | nil => simp [dset, dget]
  | cons p r ih =>
    obtain ⟨k', v'⟩ := p
    by_cases h : k' = k
    · simp [dset, dget, h]
    · simp [dset, dget, h, ih]

theorem dget_dset_ne (d : Dict) {k k' : String} (v : PyVal) (h : k' ≠ k) :
    dget (dset d k v) k' = dget d k' := by
  induction d with
  | nil => simp [dset, dget, Ne.symm h]
  | cons p r ih =>
    obtain ⟨k'', v''⟩ := p
    by_cases h1 : k'' = k
    · subst h1
      simp [dset, dget, Ne.symm h]
    · by_cases h2 : k'' = k'
      · subst h2
        simp [dset, dget, h]
      · simp [dset, dget, h1, h2, ih]

theorem dget_derase_same (d : Dict) (k : String) : dget (derase d k) k = none := by
  induction d with
  | nil => simp [derase, dget]
  | cons p r ih =>
    obtain ⟨k', v'⟩ := p
    by_cases h : k' = k
    · simp [derase, h, ih]
    · simp [derase, dget, h, ih]

theorem dget_derase_ne (d : Dict) {k k' : String} (h : k' ≠ k) :
    dget (derase d k) k' = dget d k' := by
  induction d with
  | nil => simp [derase, dget]
  | cons p r ih =>
    obtain ⟨k'', v''⟩ := p
    by_cases h1 : k'' = k
    · subst h1
      simp [derase, dget, ih, Ne.symm h]
    · by_cases h2 : k'' = k'
      · subst h2
        simp [derase, dget, h]
      · simp [derase, dget, h1, h2, ih]

/-! ## `Ok m Q` : if `m` returns normally, its value satisfies `Q` -/

def Ok {α : Type} (m : R α) (Q : α → Prop) : Prop := ∀ a, m = .ok a → Q a

theorem Ok_pure {α : Type} {Q : α → Prop} {a : α} (h : Q a) : Ok (pure a : R α) Q := by
  intro b hb
  cases hb
  exact h

theorem Ok_throw {α : Type} {Q : α → Prop} {e : Err} : Ok (throw e : R α) Q := by
  intro b hb
  cases hb

theorem Ok_bind {α β : Type} {m : R α} {f : α → R β} {Q : β → Prop}
    (h : Ok m (fun a => Ok (f a) Q)) : Ok (m >>= f) Q := by
  intro b hb
  cases hm : m with
  | error e => rw [hm] at hb; cases hb
  | ok a => rw [hm] at hb; exact h a hm b hb

theorem Ok_conseq {α : Type} {m : R α} {P Q : α → Prop} (h : Ok m P) (hpq : ∀ a, P a → Q a) :
    Ok m Q := fun a ha => hpq a (h a ha)

theorem Ok_any {α : Type} {m : R α} {Q : α → Prop} (h : ∀ a, Q a) : Ok m Q := fun a _ => h a

theorem Ok_of_eq {α : Type} {m : R α} {Q : α → Prop} {a : α} (h : Ok m Q) (e : m = .ok a) : Q a := h a e

theorem bind_ok {α β : Type} {m : R α} {f : α → R β} {b : β} (h : (m >>= f) = .ok b) :
    ∃ a, m = .ok a ∧ f a = .ok b := by
  cases hm : m with
  | error e => rw [hm] at h; cases h
  | ok a => rw [hm] at h; exact ⟨a, rfl, h⟩

/-! ## record view -/

@[simp] theorem pget_dict (d : Dict) (k : String) : pget (.dict d) k = dget d k := rfl

theorem sub_ok {v x : PyVal} {k : String} (h : sub v k = .ok x) : pget v k = some x := by
  unfold sub at h
  split at h
  · rename_i d
    split at h
    · rename_i y hy
      cases h
      simpa using hy
    · cases h
  · cases h

theorem sub_of_pget {v x : PyVal} {k : String} (h : pget v k = some x) : sub v k = .ok x := by
  cases v with
  | dict d => simp only [pget_dict] at h; simp [sub, h]; rfl
  | _ => simp [pget] at h

theorem setItem_ok {v v' x : PyVal} {k : String} (h : setItem v k x = .ok v') :
    pget v' k = some x ∧ ∀ k', k' ≠ k → pget v' k' = pget v k' := by
  unfold setItem at h
  split at h
  · rename_i d
    cases h
    exact ⟨dget_dset_same d k x, fun k' hk => dget_dset_ne d x hk⟩
  · cases h

theorem delItem_ok {v v' : PyVal} {k : String} (h : delItem v k = .ok v') :
    pget v' k = none ∧ ∀ k', k' ≠ k → pget v' k' = pget v k' := by
  unfold delItem at h
  split at h
  · rename_i d
    split at h
    · cases h
      exact ⟨dget_derase_same d k, fun k' hk => dget_derase_ne d hk⟩
    · cases h
  · cases h

/-! ## the frame relation -/

structure Eff (ks ts : List String) (l₀ l : PyVal) : Prop where
  top : ∀ k, k ∉ ts → k ≠ "config" → pget l k = pget l₀ k
  cfg : ∀ k, k ∉ ks → cfgGet l k = cfgGet l₀ k

theorem Eff.refl (ks ts : List String) (l : PyVal) : Eff ks ts l l := ⟨fun _ _ _ => rfl, fun _ _ => rfl⟩

theorem Eff.mono {ks ts ks' ts' : List String} {l₀ l : PyVal} (h : Eff ks ts l₀ l)
    (hk : ∀ k, k ∈ ks → k ∈ ks') (ht : ∀ k, k ∈ ts → k ∈ ts') : Eff ks' ts' l₀ l :=
  ⟨fun k hk' hc => h.top k (fun hm => hk' (ht k hm)) hc, fun k hk' => h.cfg k (fun hm => hk' (hk k hm))⟩

theorem Eff.trans {ks ts : List String} {l₀ l₁ l₂ : PyVal} (h₁ : Eff ks ts l₀ l₁) (h₂ : Eff ks ts l₁ l₂) :
    Eff ks ts l₀ l₂ :=
  ⟨fun k hk hc => (h₂.top k hk hc).trans (h₁.top k hk hc), fun k hk => (h₂.cfg k hk).trans (h₁.cfg k hk)⟩

/-- one `layer["config"][k] = x` -/
theorem setCfg_spec {l l' x : PyVal} {k : String} (h : setCfg l k x = .ok l') :
    cfgGet l' k = some x ∧ (∀ k', k' ≠ k → cfgGet l' k' = cfgGet l k') ∧
    (∀ k', k' ≠ "config" → pget l' k' = pget l k') := by
  unfold setCfg at h
  obtain ⟨c, hc, h⟩ := bind_ok h
  obtain ⟨c', hc', h⟩ := bind_ok h
  have h1 := sub_ok hc
  have h2 := setItem_ok hc'
  have h3 := setItem_ok h
  refine ⟨?_, ?_, ?_⟩
  · simp [cfgGet, h3.1, h2.1]
  · intro k' hk
    simp [cfgGet, h3.1, h1, h2.2 k' hk]
  · intro k' hk
    exact h3.2 k' hk

theorem delCfg_spec {l l' : PyVal} {k : String} (h : delCfg l k = .ok l') :
    cfgGet l' k = none ∧ (∀ k', k' ≠ k → cfgGet l' k' = cfgGet l k') ∧
    (∀ k', k' ≠ "config" → pget l' k' = pget l k') := by
  unfold delCfg at h
  obtain ⟨c, hc, h⟩ := bind_ok h
  obtain ⟨c', hc', h⟩ := bind_ok h
  have h1 := sub_ok hc
  have h2 := delItem_ok hc'
  have h3 := setItem_ok h
  refine ⟨?_, ?_, ?_⟩
  · simp [cfgGet, h3.1, h2.1]
  · intro k' hk
    simp [cfgGet, h3.1, h1, h2.2 k' hk]
  · intro k' hk
    exact h3.2 k' hk

theorem setCls_spec {l l' : PyVal} {q : String} (h : setCls l q = .ok l') :
    clsOf l' = some (.str q) ∧ (∀ k', k' ≠ "class_name" → pget l' k' = pget l k') := by
  unfold setCls at h
  exact setItem_ok h

theorem cfgGet_of_top {l l' : PyVal} (h : pget l' "config" = pget l "config") (k : String) :
    cfgGet l' k = cfgGet l k := by simp [cfgGet, h]

/-! ### `Ok`-style frame steps: the invariant `Eff ks ts l₀ ·` survives each primitive -/

theorem Ok_setCfg {ks ts : List String} {l₀ l x : PyVal} {k : String} (hI : Eff ks ts l₀ l) (hk : k ∈ ks) :
    Ok (setCfg l k x) (fun l' => Eff ks ts l₀ l') := by
  intro l' h
  obtain ⟨_, h2, h3⟩ := setCfg_spec h
  refine hI.trans ⟨fun k' _ hc => h3 k' hc, fun k' hk' => h2 k' ?_⟩
  intro e
  exact hk' (e ▸ hk)

theorem Ok_delCfg {ks ts : List String} {l₀ l : PyVal} {k : String} (hI : Eff ks ts l₀ l) (hk : k ∈ ks) :
    Ok (delCfg l k) (fun l' => Eff ks ts l₀ l') := by
  intro l' h
  obtain ⟨_, h2, h3⟩ := delCfg_spec h
  refine hI.trans ⟨fun k' _ hc => h3 k' hc, fun k' hk' => h2 k' ?_⟩
  intro e
  exact hk' (e ▸ hk)

theorem Ok_setCls {ks ts : List String} {l₀ l : PyVal} {q : String} (hI : Eff ks ts l₀ l)
    (hk : "class_name" ∈ ts) : Ok (setCls l q) (fun l' => Eff ks ts l₀ l') := by
  intro l' h
  obtain ⟨_, h2⟩ := setCls_spec h
  refine hI.trans ⟨fun k' hk' _ => h2 k' ?_, fun k' _ => cfgGet_of_top (h2 "config" (by decide)) k'⟩
  intro e
  exact hk' (e ▸ hk)

theorem Ok_setItem_top {ks ts : List String} {l₀ l x : PyVal} {k : String} (hI : Eff ks ts l₀ l)
    (hk : k ∈ ts) (hc : k ≠ "config") : Ok (setItem l k x) (fun l' => Eff ks ts l₀ l') := by
  intro l' h
  obtain ⟨_, h2⟩ := setItem_ok h
  refine hI.trans ⟨fun k' hk' _ => h2 k' ?_, fun k' _ => cfgGet_of_top (h2 "config" (Ne.symm hc)) k'⟩
  intro e
  exact hk' (e ▸ hk)

theorem popReg_spec {l l' reg : PyVal} (h : popReg l = .ok (l', reg)) :
    pget l' "registered_name" = none ∧ (∀ k', k' ≠ "registered_name" → pget l' k' = pget l k') ∧
    reg = (pget l "registered_name").getD .none := by
  unfold popReg at h
  split at h
  · rename_i d
    cases h
    exact ⟨dget_derase_same d _, fun k' hk => dget_derase_ne d hk, rfl⟩
  · cases h

theorem Ok_popReg {ks ts : List String} {l₀ l : PyVal} (hI : Eff ks ts l₀ l)
    (hk : "registered_name" ∈ ts) : Ok (popReg l) (fun r => Eff ks ts l₀ r.1) := by
  intro r h
  obtain ⟨l', reg⟩ := r
  obtain ⟨_, h2, _⟩ := popReg_spec h
  refine hI.trans ⟨fun k' hk' _ => h2 k' ?_, fun k' _ => cfgGet_of_top (h2 "config" (by decide)) k'⟩
  intro e
  exact hk' (e ▸ hk)

/-- `quantize_activation` only ever writes the key `activation` -/
theorem quantizeActivation_spec {c c' : PyVal} {bits : String} (h : quantizeActivation c bits = .ok c') :
    ∀ k, k ≠ "activation" → pget c' k = pget c k := by
  intro k hk
  unfold quantizeActivation at h
  split at h
  · rename_i d
    split at h
    · cases h; rfl
    · cases h; rfl
    · split at h
      · cases h; rfl
      · split at h
        · cases h; exact dget_dset_ne d _ hk
        · split at h
          · cases h; exact dget_dset_ne d _ hk
          · split at h
            · cases h; exact dget_dset_ne d _ hk
            · cases h; rfl
    · cases h; rfl
  · cases h

theorem quantActIn_spec {l l' : PyVal} {bits : String} (h : quantActIn l bits = .ok l') :
    (∀ k', k' ≠ "activation" → cfgGet l' k' = cfgGet l k') ∧
    (∀ k', k' ≠ "config" → pget l' k' = pget l k') := by
  unfold quantActIn at h
  obtain ⟨c, hc, h⟩ := bind_ok h
  obtain ⟨c', hc', h⟩ := bind_ok h
  have h1 := sub_ok hc
  have h2 := quantizeActivation_spec hc'
  have h3 := setItem_ok h
  refine ⟨?_, ?_⟩
  · intro k' hk
    simp [cfgGet, h3.1, h1, h2 k' hk]
  · intro k' hk
    exact h3.2 k' hk

theorem Ok_quantActIn {ks ts : List String} {l₀ l : PyVal} {bits : String} (hI : Eff ks ts l₀ l)
    (hk : "activation" ∈ ks) : Ok (quantActIn l bits) (fun l' => Eff ks ts l₀ l') := by
  intro l' h
  obtain ⟨h2, h3⟩ := quantActIn_spec h
  refine hI.trans ⟨fun k' _ hc => h3 k' hc, fun k' hk' => h2 k' ?_⟩
  intro e
  exact hk' (e ▸ hk)


/-! ## walking through the branches -/

/-- one step of the walk: peel a bind whose head is a primitive edit (keeping the invariant) or
    any other computation (whose value is irrelevant for the frame) -/
macro "wp_step" : tactic => `(tactic| first
  | exact Ok_throw
  | (apply Ok_pure; first | assumption | exact ⟨by assumption, rfl⟩)
  | (refine Ok_bind (Ok_conseq (Ok_setCfg (by assumption) (by simp)) (fun _ _ => ?_)))
  | (refine Ok_bind (Ok_conseq (Ok_delCfg (by assumption) (by simp)) (fun _ _ => ?_)))
  | (refine Ok_bind (Ok_conseq (Ok_setCls (by assumption) (by simp)) (fun _ _ => ?_)))
  | (refine Ok_bind (Ok_conseq (Ok_quantActIn (by assumption) (by simp)) (fun _ _ => ?_)))
  | (refine Ok_conseq (Ok_setCfg (by assumption) (by simp)) (fun _ h => h))
  | (refine Ok_conseq (Ok_delCfg (by assumption) (by simp)) (fun _ h => h))
  | (refine Ok_conseq (Ok_setCls (by assumption) (by simp)) (fun _ h => h))
  | (refine Ok_conseq (Ok_quantActIn (by assumption) (by simp)) (fun _ h => h))
  | (refine Ok_conseq (Ok_setItem_top (by assumption) (by simp) (by decide)) (fun _ h => h)))

macro "wp_any" : tactic => `(tactic| (refine Ok_bind (Ok_any (fun _ => ?_))))

theorem Ok_actStep {ks ts : List String} {l₀ l : PyVal} {look : Look} {qn bits : String}
    (hI : Eff ks ts l₀ l) (hk : "activation" ∈ ks) :
    Ok (actStep look qn bits l) (fun l' => Eff ks ts l₀ l') := by
  unfold actStep
  wp_any
  split
  · exact Ok_setCfg hI hk
  · exact Ok_quantActIn hI hk

theorem Ok_rnnRegistered {ks ts : List String} {l₀ l : PyVal} {qn : String}
    (hI : Eff ks ts l₀ l) (hk : "registered_name" ∈ ts) :
    Ok (rnnRegistered qn l) (fun l' => Eff ks ts l₀ l') := by
  unfold rnnRegistered
  refine Ok_bind (Ok_conseq (Ok_popReg hI hk) (fun r hr => ?_))
  obtain ⟨l1, reg⟩ := r
  dsimp only
  split
  · exact Ok_setItem_top hr hk (by decide)
  · exact Ok_pure hr

theorem Ok_foldPrep {ks ts : List String} {l₀ l : PyVal} {look : Look} {qn : String}
    (hI : Eff ks ts l₀ l) (h1 : "use_bias" ∈ ks) (h2 : "folding_mode" ∈ ks) (h3 : "ema_freeze_delay" ∈ ks) :
    Ok (foldPrep look qn l) (fun l' => Eff ks ts l₀ l') := by
  unfold foldPrep
  refine Ok_bind (Ok_conseq (Ok_setCfg hI h1) (fun l1 hl1 => ?_))
  wp_any
  refine Ok_bind (Ok_conseq (Ok_setCfg hl1 h2) (fun l2 hl2 => ?_))
  wp_any
  exact Ok_setCfg hl2 h3

theorem Ok_convApply {ks ts : List String} {l₀ l kq bq : PyVal} {look : Look} {bits kk qn : String}
    (hI : Eff ks ts l₀ l) (h0 : "class_name" ∈ ts) (h1 : kk ∈ ks) (h2 : "bias_quantizer" ∈ ks)
    (h3 : "activation" ∈ ks) :
    Ok (convApply look bits kk qn kq bq l) (fun l' => Eff ks ts l₀ l') := by
  unfold convApply
  refine Ok_bind (Ok_conseq (Ok_setCls hI h0) (fun l1 hl1 => ?_))
  refine Ok_bind (Ok_conseq (Ok_setCfg hl1 h1) (fun l2 hl2 => ?_))
  refine Ok_bind (Ok_conseq (Ok_setCfg hl2 h2) (fun l3 hl3 => ?_))
  exact Ok_actStep hl3 h3

theorem Ok_recActStep {ks ts : List String} {l₀ l : PyVal} {look : Look} {cn qn : String}
    (hI : Eff ks ts l₀ l) (h6 : "recurrent_activation" ∈ ks) :
    Ok (recActStep look cn qn l) (fun l' => Eff ks ts l₀ l') := by
  unfold recActStep
  split
  · wp_any
    split
    · exact Ok_setCfg hI h6
    · exact Ok_pure hI
  · exact Ok_pure hI

theorem Ok_rnnApply {ks ts : List String} {l₀ l kq rq bq sq : PyVal} {look : Look} {bits cn qn : String}
    (hI : Eff ks ts l₀ l) (h0 : "class_name" ∈ ts) (h0' : "registered_name" ∈ ts)
    (h1 : "kernel_quantizer" ∈ ks) (h2 : "recurrent_quantizer" ∈ ks) (h3 : "bias_quantizer" ∈ ks)
    (h4 : "state_quantizer" ∈ ks) (h5 : "activation" ∈ ks) (h6 : "recurrent_activation" ∈ ks) :
    Ok (rnnApply look bits cn qn kq rq bq sq l) (fun l' => Eff ks ts l₀ l') := by
  unfold rnnApply
  refine Ok_bind (Ok_conseq (Ok_setCfg hI h1) (fun l1 hl1 => ?_))
  refine Ok_bind (Ok_conseq (Ok_setCfg hl1 h2) (fun l2 hl2 => ?_))
  refine Ok_bind (Ok_conseq (Ok_setCfg hl2 h3) (fun l3 hl3 => ?_))
  refine Ok_bind (Ok_conseq (Ok_setCfg hl3 h4) (fun l4 hl4 => ?_))
  refine Ok_bind (Ok_conseq (Ok_actStep hl4 h5) (fun l5 hl5 => ?_))
  refine Ok_bind (Ok_conseq (Ok_recActStep hl5 h6) (fun l6 hl6 => ?_))
  refine Ok_bind (Ok_conseq (Ok_setCls hl6 h0) (fun l7 hl7 => ?_))
  exact Ok_rnnRegistered hl7 h0'

theorem Ok_quantizeRnn {ks ts : List String} {l₀ l : PyVal} {look : Look} {bits : String}
    (hI : Eff ks ts l₀ l) (h0 : "class_name" ∈ ts) (h0' : "registered_name" ∈ ts)
    (h1 : "kernel_quantizer" ∈ ks) (h2 : "recurrent_quantizer" ∈ ks) (h3 : "bias_quantizer" ∈ ks)
    (h4 : "state_quantizer" ∈ ks) (h5 : "activation" ∈ ks) (h6 : "recurrent_activation" ∈ ks) :
    Ok (quantizeRnn look bits l) (fun l' => Eff ks ts l₀ l') := by
  unfold quantizeRnn
  wp_any; wp_any; wp_any; wp_any; wp_any; wp_any; wp_any; wp_any
  split
  · exact Ok_pure hI
  · exact Ok_rnnApply hI h0 h0' h1 h2 h3 h4 h5 h6

/-- the keys any branch may write inside `config` -/
def allKeys : List String :=
  ["kernel_quantizer", "depthwise_quantizer", "pointwise_quantizer", "bias_quantizer", "activation", "use_bias", "folding_mode",
   "ema_freeze_delay", "recurrent_quantizer", "state_quantizer", "recurrent_activation", "layer",
   "backward_layer", "total_bits", "max_value", "negative_slope", "threshold", "alpha",
   "gamma_quantizer", "beta_quantizer", "mean_quantizer", "variance_quantizer", "average_quantizer"]

/-- the top-level keys any branch may write -/
def topKeys : List String := ["class_name", "registered_name"]

theorem Ok_convBranch {ks ts : List String} {l : PyVal} {F : Flags} {look : Look} {kk fn pn : String} {cf : Bool}
    (h0 : "class_name" ∈ ts) (h1 : kk ∈ ks) (h2 : "bias_quantizer" ∈ ks) (h3 : "activation" ∈ ks)
    (h4 : "use_bias" ∈ ks) (h5 : "folding_mode" ∈ ks) (h6 : "ema_freeze_delay" ∈ ks) :
    Ok (convBranch F look kk cf fn pn l) (fun r => Eff ks ts l r.1) := by
  unfold convBranch
  wp_any
  refine Ok_bind (Ok_conseq (?_ : Ok _ (fun lq => Eff ks ts l lq.1)) (fun lq hlq => ?_))
  · unfold foldStep
    split
    · refine Ok_bind (Ok_conseq (Ok_foldPrep (Eff.refl ks ts l) h4 h5 h6) (fun l1 hl1 => ?_))
      exact Ok_pure hl1
    · exact Ok_pure (Eff.refl ks ts l)
  · wp_any; wp_any; wp_any; wp_any; wp_any
    split
    · exact Ok_pure hlq
    · refine Ok_bind (Ok_conseq (Ok_convApply hlq h0 h1 h2 h3) (fun l1 hl1 => ?_))
      exact Ok_pure hl1


theorem Ok_bidirBackward {ks ts : List String} {l₀ l : PyVal} {look : Look} {bits : String}
    (hI : Eff ks ts l₀ l) (h1 : "backward_layer" ∈ ks) :
    Ok (bidirBackward look bits l) (fun l' => Eff ks ts l₀ l') := by
  unfold bidirBackward
  wp_any
  split
  · split
    · wp_any
      exact Ok_setCfg hI h1
    · exact Ok_pure hI
  · exact Ok_throw

theorem Ok_bidirApply {ks ts : List String} {l : PyVal} {F : Flags} {look : Look}
    (h0 : "class_name" ∈ ts) (h1 : "layer" ∈ ks) (h2 : "backward_layer" ∈ ks) :
    Ok (bidirApply F look l) (fun l' => Eff ks ts l l') := by
  unfold bidirApply
  wp_any; wp_any; wp_any
  refine Ok_bind (Ok_conseq (Ok_setCfg (Eff.refl ks ts l) h1) (fun l1 hl1 => ?_))
  refine Ok_bind (Ok_conseq (Ok_bidirBackward hl1 h2) (fun l2 hl2 => ?_))
  exact Ok_setCls hl2 h0

theorem Ok_bidirBranch {ks ts : List String} {l : PyVal} {F : Flags} {look : Look} {st : Option String}
    (h0 : "class_name" ∈ ts) (h1 : "layer" ∈ ks) (h2 : "backward_layer" ∈ ks) :
    Ok (bidirBranch F look st l) (fun r => Eff ks ts l r.1) := by
  unfold bidirBranch
  wp_any
  split
  · exact Ok_pure (Eff.refl ks ts l)
  · refine Ok_bind (Ok_conseq (Ok_bidirApply h0 h1 h2) (fun l1 hl1 => ?_))
    exact Ok_pure hl1

theorem Ok_sepApply {ks ts : List String} {l₀ l dq pq bq : PyVal} {look : Look} {bits qn : String}
    (hI : Eff ks ts l₀ l) (h0 : "class_name" ∈ ts) (h1 : "depthwise_quantizer" ∈ ks)
    (h1' : "pointwise_quantizer" ∈ ks) (h2 : "bias_quantizer" ∈ ks) (h3 : "activation" ∈ ks) :
    Ok (sepApply look bits qn dq pq bq l) (fun l' => Eff ks ts l₀ l') := by
  unfold sepApply
  refine Ok_bind (Ok_conseq (Ok_setCls hI h0) (fun l1 hl1 => ?_))
  refine Ok_bind (Ok_conseq (Ok_setCfg hl1 h1) (fun l2 hl2 => ?_))
  refine Ok_bind (Ok_conseq (Ok_setCfg hl2 h1') (fun l3 hl3 => ?_))
  refine Ok_bind (Ok_conseq (Ok_setCfg hl3 h2) (fun l4 hl4 => ?_))
  exact Ok_actStep hl4 h3

theorem Ok_sepBranch {ks ts : List String} {l : PyVal} {F : Flags} {look : Look} {cn : String}
    (h0 : "class_name" ∈ ts) (h1 : "depthwise_quantizer" ∈ ks) (h1' : "pointwise_quantizer" ∈ ks)
    (h2 : "bias_quantizer" ∈ ks) (h3 : "activation" ∈ ks) :
    Ok (sepBranch F look cn l) (fun r => Eff ks ts l r.1) := by
  unfold sepBranch
  wp_any; wp_any; wp_any; wp_any; wp_any
  split
  · exact Ok_pure (Eff.refl ks ts l)
  · refine Ok_bind (Ok_conseq (Ok_sepApply (Eff.refl ks ts l) h0 h1 h1' h2 h3) (fun l1 hl1 => ?_))
    exact Ok_pure hl1

theorem Ok_adaptiveApply {ks ts : List String} {l₀ l q : PyVal}
    (hI : Eff ks ts l₀ l) (h1 : "total_bits" ∈ ks) (h2 : "activation" ∈ ks) :
    Ok (adaptiveApply q l) (fun l' => Eff ks ts l₀ l') := by
  unfold adaptiveApply
  split
  · split
    · exact Ok_throw
    · wp_any
      refine Ok_bind (Ok_conseq (Ok_setCfg hI h1) (fun l1 hl1 => ?_))
      exact Ok_setCfg hl1 h2
  · exact Ok_throw

theorem Ok_activationApply {ks ts : List String} {l₀ l q : PyVal} {F : Flags} {isAd : Bool}
    (hI : Eff ks ts l₀ l) (h0 : "class_name" ∈ ts) (h1 : "total_bits" ∈ ks) (h2 : "activation" ∈ ks) :
    Ok (activationApply F q isAd l) (fun l' => Eff ks ts l₀ l') := by
  unfold activationApply
  refine Ok_bind (Ok_conseq (Ok_setCls hI h0) (fun l1 hl1 => ?_))
  wp_any
  split
  · split
    · exact Ok_adaptiveApply hl1 h1 h2
    · exact Ok_setCfg hl1 h2
  · exact Ok_quantActIn hl1 h2

theorem Ok_activationBranch {ks ts : List String} {l : PyVal} {F : Flags} {look : Look} {st : Option String}
    (h0 : "class_name" ∈ ts) (h1 : "total_bits" ∈ ks) (h2 : "activation" ∈ ks) :
    Ok (activationBranch F look st l) (fun r => Eff ks ts l r.1) := by
  unfold activationBranch
  wp_any
  split
  · exact Ok_pure (Eff.refl ks ts l)
  · wp_any
    split
    · refine Ok_bind (Ok_conseq (Ok_activationApply (Eff.refl ks ts l) h0 h1 h2) (fun l1 hl1 => ?_))
      exact Ok_pure hl1
    · exact Ok_pure (Eff.refl ks ts l)

theorem Ok_reluDelete {ks ts : List String} {l₀ l : PyVal}
    (hI : Eff ks ts l₀ l) (h1 : "alpha" ∈ ks) (h2 : "max_value" ∈ ks) (h3 : "negative_slope" ∈ ks)
    (h4 : "threshold" ∈ ks) {cn : String} : Ok (reluDelete cn l) (fun l' => Eff ks ts l₀ l') := by
  unfold reluDelete
  split
  · exact Ok_delCfg hI h1
  split
  · refine Ok_bind (Ok_conseq (Ok_delCfg hI h2) (fun l1 hl1 => ?_))
    refine Ok_bind (Ok_conseq (Ok_delCfg hl1 h1) (fun l2 hl2 => ?_))
    exact Ok_delCfg hl2 h4
  · refine Ok_bind (Ok_conseq (Ok_delCfg hI h2) (fun l1 hl1 => ?_))
    refine Ok_bind (Ok_conseq (Ok_delCfg hl1 h3) (fun l2 hl2 => ?_))
    exact Ok_delCfg hl2 h4

theorem Ok_reluApply {ks ts : List String} {l₀ l q : PyVal} {F : Flags} {qn cn : String}
    (hI : Eff ks ts l₀ l) (h0 : "class_name" ∈ ts) (h1 : "alpha" ∈ ks) (h2 : "max_value" ∈ ks)
    (h3 : "negative_slope" ∈ ks) (h4 : "threshold" ∈ ks) (h5 : "activation" ∈ ks) :
    Ok (reluApply F q qn cn l) (fun l' => Eff ks ts l₀ l') := by
  unfold reluApply
  refine Ok_bind (Ok_conseq (Ok_setCls hI h0) (fun l1 hl1 => ?_))
  refine Ok_bind (Ok_conseq (Ok_reluDelete hl1 h1 h2 h3 h4) (fun l2 hl2 => ?_))
  wp_any
  split
  · exact Ok_setCfg hl2 h5
  · exact Ok_quantActIn hl2 h5

theorem Ok_reluBranch {ks ts : List String} {l : PyVal} {F : Flags} {look : Look} {cn : String}
    {st : Option String}
    (h0 : "class_name" ∈ ts) (h1 : "alpha" ∈ ks) (h2 : "max_value" ∈ ks)
    (h3 : "negative_slope" ∈ ks) (h4 : "threshold" ∈ ks) (h5 : "activation" ∈ ks) :
    Ok (reluBranch F look cn l st) (fun r => Eff ks ts l r.1) := by
  unfold reluBranch
  wp_any
  split
  · exact Ok_pure (Eff.refl ks ts l)
  · wp_any; wp_any; wp_any
    unfold reluFinish
    split
    · refine Ok_bind (Ok_conseq (Ok_reluApply (Eff.refl ks ts l) h0 h1 h2 h3 h4 h5) (fun l1 hl1 => ?_))
      exact Ok_pure hl1
    · exact Ok_pure (Eff.refl ks ts l)

theorem Ok_bnApply {ks ts : List String} {l₀ l : PyVal} {look : Look}
    (hI : Eff ks ts l₀ l) (h0 : "class_name" ∈ ts) (h1 : "gamma_quantizer" ∈ ks) (h2 : "beta_quantizer" ∈ ks)
    (h3 : "mean_quantizer" ∈ ks) (h4 : "variance_quantizer" ∈ ks) :
    Ok (bnApply look l) (fun l' => Eff ks ts l₀ l') := by
  unfold bnApply
  refine Ok_bind (Ok_conseq (Ok_setCls hI h0) (fun l1 hl1 => ?_))
  wp_any; wp_any; wp_any; wp_any
  refine Ok_bind (Ok_conseq (Ok_setCfg hl1 h1) (fun l2 hl2 => ?_))
  refine Ok_bind (Ok_conseq (Ok_setCfg hl2 h2) (fun l3 hl3 => ?_))
  refine Ok_bind (Ok_conseq (Ok_setCfg hl3 h3) (fun l4 hl4 => ?_))
  exact Ok_setCfg hl4 h4

theorem Ok_bnBranch {ks ts : List String} {l : PyVal} {look : Look} {bnIn : R Bool} {st : Option String}
    (h0 : "class_name" ∈ ts) (h1 : "gamma_quantizer" ∈ ks) (h2 : "beta_quantizer" ∈ ks)
    (h3 : "mean_quantizer" ∈ ks) (h4 : "variance_quantizer" ∈ ks) :
    Ok (bnBranch look bnIn st l) (fun r => Eff ks ts l r.1) := by
  unfold bnBranch
  wp_any
  split
  · refine Ok_bind (Ok_conseq (Ok_bnApply (Eff.refl ks ts l) h0 h1 h2 h3 h4) (fun l1 hl1 => ?_))
    exact Ok_pure hl1
  · exact Ok_pure (Eff.refl ks ts l)

theorem Ok_poolApply {ks ts : List String} {l₀ l aq : PyVal} {F : Flags} {look : Look} {qn : String}
    (hI : Eff ks ts l₀ l) (h0 : "class_name" ∈ ts) (h1 : "average_quantizer" ∈ ks) (h2 : "activation" ∈ ks) :
    Ok (poolApply F look qn aq l) (fun l' => Eff ks ts l₀ l') := by
  unfold poolApply
  refine Ok_bind (Ok_conseq (Ok_setCls hI h0) (fun l1 hl1 => ?_))
  refine Ok_bind (Ok_conseq (Ok_setCfg hl1 h1) (fun l2 hl2 => ?_))
  exact Ok_actStep hl2 h2

theorem Ok_poolBranch {ks ts : List String} {l : PyVal} {F : Flags} {look : Look} {cn : String}
    (h0 : "class_name" ∈ ts) (h1 : "average_quantizer" ∈ ks) (h2 : "activation" ∈ ks) :
    Ok (poolBranch F look cn l) (fun r => Eff ks ts l r.1) := by
  unfold poolBranch
  wp_any
  split
  · exact Ok_pure (Eff.refl ks ts l)
  · refine Ok_bind (Ok_conseq (Ok_poolApply (Eff.refl ks ts l) h0 h1 h2) (fun l1 hl1 => ?_))
    exact Ok_pure hl1

/-- every branch stays inside the global write set -/
theorem Ok_branch {l : PyVal} {F : Flags} {look : Look} {bnIn : R Bool} {st : Option String} :
    Ok (branch F look bnIn st l) (fun r => Eff allKeys topKeys l r.1) := by
  unfold branch
  wp_any; wp_any
  split
  · split
    · exact Ok_convBranch (by decide) (by decide) (by decide) (by decide) (by decide) (by decide) (by decide)
    · split
      · exact Ok_convBranch (by decide) (by decide) (by decide) (by decide) (by decide) (by decide) (by decide)
      · split
        · exact Ok_sepBranch (by decide) (by decide) (by decide) (by decide) (by decide)
        split
        · refine Ok_bind (Ok_conseq (Ok_quantizeRnn (Eff.refl allKeys topKeys l) (by decide) (by decide)
            (by decide) (by decide) (by decide) (by decide) (by decide) (by decide)) (fun l1 hl1 => ?_))
          exact Ok_pure hl1
        · split
          · exact Ok_bidirBranch (by decide) (by decide) (by decide)
          · split
            · exact Ok_activationBranch (by decide) (by decide) (by decide)
            · split
              · exact Ok_reluBranch (by decide) (by decide) (by decide) (by decide) (by decide) (by decide)
              · split
                · exact Ok_bnBranch (by decide) (by decide) (by decide) (by decide) (by decide)
                · split
                  · exact Ok_poolBranch (by decide) (by decide) (by decide)
                  · exact Ok_pure (Eff.refl _ _ l)
  · exact Ok_pure (Eff.refl _ _ l)

theorem Ok_fixRegistered {ks ts : List String} {l₀ l : PyVal} {st : Option String}
    (hI : Eff ks ts l₀ l) (hk : "registered_name" ∈ ts) :
    Ok (fixRegistered l st) (fun l' => Eff ks ts l₀ l') := by
  unfold fixRegistered
  refine Ok_bind (Ok_conseq (Ok_popReg hI hk) (fun r hr => ?_))
  obtain ⟨l1, reg⟩ := r
  dsimp only
  split
  · split
    · exact Ok_setItem_top hr hk (by decide)
    · exact Ok_setItem_top hr hk (by decide)
  · exact Ok_pure hr

/-- FRAME of one loop iteration, whatever the lookups return -/
theorem Ok_stepCore {l : PyVal} {F : Flags} {look : Look} {bnIn : R Bool} {st : Option String} :
    Ok (stepCore F look bnIn st l) (fun r => Eff allKeys topKeys l r.1) := by
  unfold stepCore
  refine Ok_bind (Ok_conseq Ok_branch (fun r hr => ?_))
  obtain ⟨l1, st1, fin⟩ := r
  dsimp only
  split
  · refine Ok_bind (Ok_conseq (Ok_fixRegistered hr (by decide)) (fun l2 hl2 => ?_))
    exact Ok_pure hl2
  · exact Ok_pure hr

end QKV.Rewrite
