/-
  QKV.Lemmas.Estimator — the per-channel bound of `analyze_accumulator` and `ceil(log2 ·)`.
-/
import QKV.Lemmas.Pow2
import QKV.Model.Estimator
namespace QKV

theorem posPart_nonneg (x : ℚ) : 0 ≤ posPart x := by unfold posPart; split <;> linarith
theorem negPart_nonpos (x : ℚ) : negPart x ≤ 0 := by unfold negPart; split <;> linarith
theorem le_posPart (x : ℚ) : x ≤ posPart x := by unfold posPart; split <;> linarith
theorem negPart_le (x : ℚ) : negPart x ≤ x := by unfold negPart; split <;> linarith
theorem posPart_add_negPart (x : ℚ) : posPart x + negPart x = x := by
  unfold posPart negPart; split <;> split <;> linarith

theorem sumPos_nonneg (ws : List ℚ) : 0 ≤ sumPos ws := by
  unfold sumPos
  induction ws with
  | nil => simp
  | cons a t ih => simp only [List.map_cons, List.sum_cons]; have := posPart_nonneg a; linarith

theorem sumNeg_nonpos (ws : List ℚ) : sumNeg ws ≤ 0 := by
  unfold sumNeg
  induction ws with
  | nil => simp
  | cons a t ih => simp only [List.map_cons, List.sum_cons]; have := negPart_nonpos a; linarith

@[simp] theorem sumPos_cons (a : ℚ) (t : List ℚ) : sumPos (a :: t) = posPart a + sumPos t := by
  simp [sumPos]
@[simp] theorem sumNeg_cons (a : ℚ) (t : List ℚ) : sumNeg (a :: t) = negPart a + sumNeg t := by
  simp [sumNeg]

/-- one term: `w·x` between the estimator's per-weight extremes when `M ≤ x ≤ P`, `M ≤ 0 ≤ P` -/
theorem term_bounds {w x P M : ℚ} (hP : 0 ≤ P) (hM : M ≤ 0) (h1 : M ≤ x) (h2 : x ≤ P) :
    negPart w * P + posPart w * M ≤ w * x ∧ w * x ≤ posPart w * P + negPart w * M := by
  unfold posPart negPart
  rcases lt_trichotomy w 0 with h | h | h
  · have h' : ¬ (0 < w) := by linarith
    simp only [h, h', if_true, if_false]
    constructor <;> nlinarith
  · subst h; simp
  · have h' : ¬ (w < 0) := by linarith
    simp only [h, h', if_true, if_false]
    constructor <;> nlinarith

/-- the weights-only part of the bound, by induction over the weight list -/
theorem dot_bounds (ws xs : List ℚ) {P M : ℚ} (hP : 0 ≤ P) (hM : M ≤ 0)
    (hx : ∀ x ∈ xs, M ≤ x ∧ x ≤ P) :
    sumNeg ws * P + sumPos ws * M ≤ dot ws xs ∧ dot ws xs ≤ sumPos ws * P + sumNeg ws * M := by
  induction ws generalizing xs with
  | nil => simp [dot, sumPos, sumNeg]
  | cons w ws ih =>
    cases xs with
    | nil =>
      have h1 := sumPos_nonneg (w :: ws)
      have h2 := sumNeg_nonpos (w :: ws)
      simp only [dot]
      constructor <;> nlinarith
    | cons x xs =>
      have hx0 := hx x (by simp)
      have ih' := ih xs (fun y hy => hx y (by simp [hy]))
      have ht := term_bounds (w := w) hP hM hx0.1 hx0.2
      simp only [dot, sumPos_cons, sumNeg_cons]
      constructor <;> nlinarith [ih'.1, ih'.2, ht.1, ht.2]

/-- one term against the range AS STATED (no sign condition on the endpoints) -/
theorem term_bounds_endpoint {w x P M : ℚ} (h1 : M ≤ x) (h2 : x ≤ P) :
    negPart w * P + posPart w * M ≤ w * x ∧ w * x ≤ posPart w * P + negPart w * M := by
  unfold posPart negPart
  rcases lt_trichotomy w 0 with h | h | h
  · have h' : ¬ (0 < w) := by linarith
    simp only [h, h', if_true, if_false]
    constructor <;> nlinarith
  · subst h; simp
  · have h' : ¬ (w < 0) := by linarith
    simp only [h, h', if_true, if_false]
    constructor <;> nlinarith

/-- the weights-only part of the ENDPOINT bound: every tap reads a real input element
    (`ws.length ≤ xs.length`, no padded zero) inside `[M, P]` -/
theorem dot_bounds_endpoint (ws xs : List ℚ) {P M : ℚ} (hlen : ws.length ≤ xs.length)
    (hx : ∀ x ∈ xs, M ≤ x ∧ x ≤ P) :
    sumNeg ws * P + sumPos ws * M ≤ dot ws xs ∧ dot ws xs ≤ sumPos ws * P + sumNeg ws * M := by
  induction ws generalizing xs with
  | nil => simp [dot, sumPos, sumNeg]
  | cons w ws ih =>
    cases xs with
    | nil => simp at hlen
    | cons x xs =>
      have hx0 := hx x (by simp)
      have ih' := ih xs (by simpa using hlen) (fun y hy => hx y (by simp [hy]))
      have ht := term_bounds_endpoint (w := w) hx0.1 hx0.2
      simp only [dot, sumPos_cons, sumNeg_cons]
      constructor <;> nlinarith [ih'.1, ih'.2, ht.1, ht.2]

/-- `max(n1, n0) ≥ 0`: `n1 + n0 = (npp − nnn)·(x⁺ − x⁻) ≥ 0`, so `log2` never sees a negative
    number and the only failure of `int(ceil(log2 ·))` is `log2 0` (OverflowError) -/
theorem chanBound_nonneg (ws : List ℚ) (b xmin xmax : ℚ) : 0 ≤ chanBound ws b xmin xmax := by
  have hA := sumPos_nonneg ws
  have hB := sumNeg_nonpos ws
  have hP := posPart_nonneg xmax
  have hM := negPart_nonpos xmin
  have hs : 0 ≤ estN1 ws b xmin xmax + estN0 ws b xmin xmax := by
    unfold estN1 estN0 estNpp estNnn
    nlinarith [mul_nonneg (sub_nonneg.2 (le_trans hB hA)) (sub_nonneg.2 (le_trans hM hP))]
  show 0 ≤ if estN0 ws b xmin xmax < estN1 ws b xmin xmax
    then estN1 ws b xmin xmax else estN0 ws b xmin xmax
  split <;> linarith

/-- `q ≤ 2^ceil(log2 q)` for every positive rational -/
theorem le_pow2_ceilLog2Rat {q : ℚ} (hq : 0 < q) : q ≤ pow2 (ceilLog2Rat q) := by
  have hnum : 0 < q.num := Rat.num_pos.mpr hq
  obtain ⟨n, hn⟩ : ∃ n : ℕ, q.num = (n : ℤ) := ⟨q.num.toNat, by omega⟩
  have hn0 : 0 < n := by omega
  have hd0 : 0 < q.den := q.den_pos
  have hqv : q = (n : ℚ) / (q.den : ℚ) := by
    have h := Rat.num_div_den q
    rw [hn, Int.cast_natCast] at h
    exact h.symm
  have hdq : (0 : ℚ) < (q.den : ℚ) := by exact_mod_cast hd0
  rw [ceilLog2Rat_of q n q.den hn rfl]
  split
  · -- q ≥ 1
    set c := (n + q.den - 1) / q.den with hc
    have h1 : n ≤ c * q.den := by
      have e1 := Nat.div_add_mod (n + q.den - 1) q.den
      have e2 := Nat.mod_lt (n + q.den - 1) hd0
      rw [Nat.mul_comm] at e1
      rw [← hc] at e1
      generalize c * q.den = P at e1 ⊢
      omega
    have h2 := le_two_pow_clog2 c
    rw [pow2_natCast, hqv, div_le_iff₀ hdq]
    have : n ≤ 2 ^ clog2 c * q.den := le_trans h1 (Nat.mul_le_mul_right _ h2)
    exact_mod_cast this
  · -- q < 1
    rename_i hlt
    push Not at hlt
    set f := q.den / n with hf
    have hf0 : f ≠ 0 := by
      have : 1 ≤ q.den / n := (Nat.one_le_div_iff hn0).2 hlt.le
      omega
    have h1 : 2 ^ f.log2 ≤ f := Nat.log2_self_le hf0
    have h2 : f * n ≤ q.den := Nat.div_mul_le_self q.den n
    have h3 : 2 ^ f.log2 * n ≤ q.den := le_trans (Nat.mul_le_mul_right _ h1) h2
    have hp : pow2 (-(f.log2 : ℤ)) = 1 / ((2 ^ f.log2 : ℕ) : ℚ) := by
      rw [pow2_eq_zpow, zpow_neg, zpow_natCast]; push_cast; ring
    rw [hp, hqv, div_le_div_iff₀ hdq (by positivity)]
    have : ((2 ^ f.log2 * n : ℕ) : ℚ) ≤ (q.den : ℚ) := by exact_mod_cast h3
    push_cast at this ⊢
    linarith

/-- every element of a list is at most `listMax` -/
theorem le_listMax {l : List ℚ} {v : ℚ} (h : v ∈ l) : v ≤ listMax l := by
  unfold listMax
  have key : ∀ (l : List ℚ) (a : ℚ), a ≤ l.foldl (fun a b => if a < b then b else a) a ∧
      ∀ v ∈ l, v ≤ l.foldl (fun a b => if a < b then b else a) a := by
    intro l
    induction l with
    | nil => intro a; simp
    | cons b t ih =>
      intro a
      simp only [List.foldl_cons]
      obtain ⟨h1, h2⟩ := ih (if a < b then b else a)
      refine ⟨le_trans (by split <;> linarith) h1, ?_⟩
      intro v hv
      rcases List.mem_cons.1 hv with rfl | hv
      · exact le_trans (by split <;> linarith) h1
      · exact h2 v hv
  exact (key l _).2 v h

/-- every element of a list is at least `listMin` -/
theorem listMin_le {l : List ℚ} {v : ℚ} (h : v ∈ l) : listMin l ≤ v := by
  unfold listMin
  have key : ∀ (l : List ℚ) (a : ℚ), l.foldl (fun a b => if b < a then b else a) a ≤ a ∧
      ∀ v ∈ l, l.foldl (fun a b => if b < a then b else a) a ≤ v := by
    intro l
    induction l with
    | nil => intro a; simp
    | cons b t ih =>
      intro a
      simp only [List.foldl_cons]
      obtain ⟨h1, h2⟩ := ih (if b < a then b else a)
      refine ⟨le_trans h1 (by split <;> linarith), ?_⟩
      intro v hv
      rcases List.mem_cons.1 hv with rfl | hv
      · exact le_trans h1 (by split <;> linarith)
      · exact h2 v hv
  exact (key l _).2 v h

end QKV
