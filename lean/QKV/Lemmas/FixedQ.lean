/-
  QKV.Lemmas.FixedQ — the class models of Model/FixedQ.lean as instances of `sq`.
-/
import QKV.Lemmas.Round
import QKV.Lemmas.Fixed
namespace QKV

theorem twoPow_eq_tp (n : ℤ) : twoPow n = tp n := rfl

theorem BitsCfg.step_pos (c : BitsCfg) : 0 < c.step := pow2_pos _
theorem ReluCfg.step_pos (c : ReluCfg) : 0 < c.step := pow2_pos _

theorem BitsCfg.lo_le_hi (c : BitsCfg) : c.lo ≤ c.hi := by
  unfold BitsCfg.lo BitsCfg.hi
  have := tp_pos c.ub
  rw [twoPow_eq_tp]
  split <;> (try split) <;> omega

theorem ReluCfg.zero_le_hi (c : ReluCfg) : (0 : ℤ) ≤ c.hi := by
  unfold ReluCfg.hi; have := tp_pos c.nsb; rw [twoPow_eq_tp]; omega

theorem LinCfg.lo_le_hi (c : LinCfg) : c.lo ≤ c.hi := by
  unfold LinCfg.lo LinCfg.hi
  have := tp_pos c.ub
  rw [twoPow_eq_tp]
  split <;> (try split) <;> omega

/-- `quantized_bits` with at least one magnitude bit is the scaled quantizer -/
theorem qbits_eq_sq (t : Tie) (c : BitsCfg) (h : 0 < c.ub) (x : ℚ) :
    qbits t c x = sq t c.step c.lo c.hi c.gain x := by
  unfold qbits sq; rw [if_pos h]

/-- plain `quantized_relu` is the scaled quantizer on codes `0 … 2^bits − 1` -/
theorem qrelu_plain_eq_sq (t : Tie) (c : ReluCfg) (h : c.slopeLog = none) (x : ℚ) :
    qrelu t c x = sq t c.step 0 c.hi 1 x := by
  unfold qrelu sq; simp only [h]; ring

/-- clip-then-round equals round-then-clip for integer bounds -/
theorem round_clip_eq_rc (t : Tie) (s : ℚ) {lo hi : ℤ} (h : lo ≤ hi) :
    roundTie t (if s < (lo : ℚ) then (lo : ℚ) else if (hi : ℚ) < s then (hi : ℚ) else s)
      = rc t s lo hi := by
  split
  · rename_i h1; rw [roundTie_int, rc_sat_lo t h h1.le]
  · split
    · rename_i h1 h2; rw [roundTie_int, rc_sat_hi t h h2.le]
    · rename_i h1 h2
      push Not at h1 h2
      rw [rc_inrange t h1 h2]

theorem qlinear_eq_sq (t : Tie) (c : LinCfg) (h : c.signFn = false) (x : ℚ) :
    qlinear t c x = ((rc t (x / c.qs) c.lo c.hi : ℤ) : ℚ) * c.qs := by
  unfold qlinear
  simp only [h, Bool.false_eq_true, if_false]
  rw [round_clip_eq_rc t _ c.lo_le_hi]

/-! ### the trailing `relu_upper_bound` pass -/

theorem clampTo_le (b : Option ℚ) (y : ℚ) : clampTo b y ≤ y := by
  unfold clampTo
  cases b with
  | none => exact le_rfl
  | some u => simp only; split <;> linarith

theorem clampTo_le_bound (u y : ℚ) : clampTo (some u) y ≤ u := by
  unfold clampTo; simp only; split <;> linarith

theorem clampTo_mono (b : Option ℚ) {y y' : ℚ} (h : y ≤ y') : clampTo b y ≤ clampTo b y' := by
  unfold clampTo
  cases b with
  | none => exact h
  | some u => simp only; split <;> split <;> linarith

theorem clampTo_of_le {u y : ℚ} (h : y ≤ u) : clampTo (some u) y = y := by
  unfold clampTo; simp only; rw [if_pos h]

/-- clamping a lattice point at a lattice point gives a lattice point -/
theorem clampTo_lattice {s : ℚ} (hs : 0 < s) (k j : ℤ) :
    clampTo (some ((j : ℚ) * s)) ((k : ℚ) * s) = ((min k j : ℤ) : ℚ) * s := by
  unfold clampTo
  simp only
  by_cases h : k ≤ j
  · have : (k : ℚ) * s ≤ (j : ℚ) * s := by
      have : (k : ℚ) ≤ (j : ℚ) := by exact_mod_cast h
      nlinarith
    rw [if_pos this, min_eq_left h]
  · push Not at h
    have : ¬ (k : ℚ) * s ≤ (j : ℚ) * s := by
      have : (j : ℚ) < (k : ℚ) := by exact_mod_cast h
      intro hc; nlinarith
    rw [if_neg this, min_eq_right h.le]

theorem ReluCfg.clamp_of_qclip {c : ReluCfg} (h : c.qclip = true) : c.clamp = none := by
  unfold ReluCfg.clamp; rw [if_pos h]

theorem ReluCfg.clamp_of_no_upper {c : ReluCfg} (h : c.upper = none) : c.clamp = none := by
  unfold ReluCfg.clamp; rw [h]; split <;> rfl

/-- every given bound clamps (since the fix of C02-relu-upper-zero also `relu_upper_bound = 0.0`) -/
theorem ReluCfg.clamp_of_upper {c : ReluCfg} {u : ℚ} (hq : c.qclip = false) (h : c.upper = some u) :
    c.clamp = some u := by
  unfold ReluCfg.clamp; rw [hq, h]; rfl

theorem ReluCfg.clamp_some {c : ReluCfg} {u : ℚ} (h : c.clamp = some u) :
    c.qclip = false ∧ c.upper = some u := by
  unfold ReluCfg.clamp at h
  split at h
  · cases h
  · rename_i hq
    exact ⟨by simpa using hq, h⟩

theorem qreluU_of_clamp_none (t : Tie) {c : ReluCfg} (h : c.clamp = none) (x : ℚ) :
    qreluU t c x = qrelu t c x := by
  unfold qreluU clampTo; rw [h]

/-- the bound `0.0` of a plain ReLU (clamps since the fix of C02-relu-upper-zero): every output is `0` -/
theorem qreluU_zero_bound (t : Tie) (c : ReluCfg) (h : c.slopeLog = none) (hq : c.qclip = false)
    (hu : c.upper = some 0) (x : ℚ) : qreluU t c x = 0 := by
  obtain ⟨k, h1, _, hk⟩ := sq_lattice t c.step 1 x c.zero_le_hi
  rw [← qrelu_plain_eq_sq t c h, one_mul] at hk
  unfold qreluU
  rw [ReluCfg.clamp_of_upper hq hu]
  unfold clampTo
  simp only
  split
  · rename_i hle
    rw [hk] at hle ⊢
    have : (0 : ℚ) ≤ (k : ℚ) := by exact_mod_cast h1
    exact le_antisymm hle (mul_nonneg this c.step_pos.le)
  · rfl

/-- plain ReLU with an on-grid (or no) active upper bound stays on the lattice -/
theorem qreluU_plain_lattice (t : Tie) (c : ReluCfg) (h : c.slopeLog = none)
    (hc : ∀ u, c.clamp = some u → ∃ j : ℤ, 0 ≤ j ∧ u = (j : ℚ) * c.step) (x : ℚ) :
    ∃ k : ℤ, 0 ≤ k ∧ k ≤ c.hi ∧ qreluU t c x = (k : ℚ) * c.step := by
  obtain ⟨k, h1, h2, hk⟩ := sq_lattice t c.step 1 x c.zero_le_hi
  rw [← qrelu_plain_eq_sq t c h, one_mul] at hk
  cases hcl : c.clamp with
  | none => exact ⟨k, h1, h2, by rw [qreluU_of_clamp_none t hcl, hk]⟩
  | some u =>
    obtain ⟨j, hj, rfl⟩ := hc u hcl
    refine ⟨min k j, le_min h1 hj, le_trans (min_le_left _ _) h2, ?_⟩
    unfold qreluU
    rw [hcl, hk, clampTo_lattice c.step_pos]

/-- `m * step = 2^integer` -/
theorem ReluCfg.m_step (c : ReluCfg) (hn : 0 ≤ c.nsb) : ((tp c.nsb : ℤ) : ℚ) * c.step = pow2 c.integer := by
  unfold ReluCfg.step
  rw [tp_cast hn, ← pow2_add]; congr 1; ring

theorem rclip_mono {v v' lo hi : ℚ} (h : v ≤ v') (hlh : lo ≤ hi) : rclip v lo hi ≤ rclip v' lo hi := by
  unfold rclip
  split <;> split <;> (try split) <;> (try split) <;> linarith

theorem rclip_bounds {v lo hi : ℚ} (hlh : lo ≤ hi) : lo ≤ rclip v lo hi ∧ rclip v lo hi ≤ hi := by
  unfold rclip
  split
  · exact ⟨le_rfl, hlh⟩
  · split
    · exact ⟨hlh, le_rfl⟩
    · constructor <;> linarith

/-- clipping towards an interval that contains `w` does not move away from `w` -/
theorem rclip_dist {v w lo hi : ℚ} (h1 : lo ≤ w) (h2 : w ≤ hi) : |rclip v lo hi - w| ≤ |v - w| := by
  unfold rclip
  split
  · rw [abs_of_nonpos (by linarith), abs_of_nonpos (by linarith)]; linarith
  · split
    · rw [abs_of_nonneg (by linarith), abs_of_nonneg (by linarith)]; linarith
    · exact le_rfl

/-! ### per-channel scales -/

theorem LinCfg.chan_signFn (c : LinCfg) (a : ℚ) : (c.chan a).signFn = c.signFn := rfl
theorem LinCfg.chan_lo (c : LinCfg) (a : ℚ) : (c.chan a).lo = c.lo := rfl
theorem LinCfg.chan_hi (c : LinCfg) (a : ℚ) : (c.chan a).hi = c.hi := rfl
theorem LinCfg.chan_codes (c : LinCfg) (a : ℚ) : (c.chan a).codes = c.codes := rfl
theorem LinCfg.chan_qs (c : LinCfg) (a : ℚ) : (c.chan a).qs = a * pow2 (c.integer - c.ub) := rfl

theorem LinCfg.chan_qs_pos (c : LinCfg) {a : ℚ} (ha : 0 < a) : 0 < (c.chan a).qs := by
  rw [LinCfg.chan_qs]; exact mul_pos ha (pow2_pos _)

theorem LinCfg.lo_le_zero (c : LinCfg) : c.lo ≤ 0 := by
  unfold LinCfg.lo
  have := tp_pos c.ub
  rw [twoPow_eq_tp]
  split <;> (try split) <;> omega

theorem LinCfg.zero_le_hi (c : LinCfg) : 0 ≤ c.hi := by
  unfold LinCfg.hi; have := tp_pos c.ub; rw [twoPow_eq_tp]; omega

/-- the codes `range()` lists are exactly the codes of the format -/
theorem LinCfg.mem_codes (c : LinCfg) (k : ℤ) : k ∈ c.codes ↔ c.lo ≤ k ∧ k ≤ c.hi := by
  have h1 := c.lo_le_zero
  have h2 := c.zero_le_hi
  unfold LinCfg.codes
  simp only [List.mem_append, List.mem_map, List.mem_range]
  constructor
  · rintro (⟨i, hi, rfl⟩ | ⟨i, hi, rfl⟩)
    · have : (i : ℤ) < c.hi + 1 := by
        have : (i : ℤ) < ((c.hi + 1).toNat : ℤ) := by exact_mod_cast hi
        rwa [Int.toNat_of_nonneg (by omega)] at this
      omega
    · have : (i : ℤ) < - c.lo := by
        have : (i : ℤ) < ((- c.lo).toNat : ℤ) := by exact_mod_cast hi
        rwa [Int.toNat_of_nonneg (by omega)] at this
      omega
  · rintro ⟨hl, hh⟩
    by_cases hk : 0 ≤ k
    · left
      refine ⟨k.toNat, ?_, Int.toNat_of_nonneg hk⟩
      have : ((k.toNat : ℕ) : ℤ) < (((c.hi + 1).toNat : ℕ) : ℤ) := by
        rw [Int.toNat_of_nonneg hk, Int.toNat_of_nonneg (by omega)]; omega
      exact_mod_cast this
    · right
      refine ⟨(k - c.lo).toNat, ?_, ?_⟩
      · have : (((k - c.lo).toNat : ℕ) : ℤ) < (((- c.lo).toNat : ℕ) : ℤ) := by
          rw [Int.toNat_of_nonneg (by omega), Int.toNat_of_nonneg (by omega)]; omega
        exact_mod_cast this
      · rw [Int.toNat_of_nonneg (by omega)]; ring

theorem qlinearRange_eq_codes (c : LinCfg) (h : c.signFn = false) :
    qlinearRange c = c.codes.map fun (k : ℤ) => (k : ℚ) * c.qs := by
  unfold qlinearRange LinCfg.codes
  simp only [h, Bool.false_eq_true, if_false, List.map_append, List.map_map]
  rfl

/-- element `j` of the output row is channel `j`'s scalar quantizer -/
theorem qlinearPC_getElem (t : Tie) (c : LinCfg) (as row : List ℚ) (j : ℕ) (hj : j < as.length)
    (hr : j < row.length) :
    (qlinearPC t c as row)[j]'(by simp [qlinearPC]; omega) = qlinear t (c.chan as[j]) row[j] := by
  simp [qlinearPC]

theorem qbitsPC_getElem (t : Tie) (c : BitsCfg) (as row : List ℚ) (j : ℕ) (hj : j < as.length)
    (hr : j < row.length) :
    (qbitsPC t c as row)[j]'(by simp [qbitsPC]; omega) = qbits t (c.chan as[j]) row[j] := by
  simp [qbitsPC]

theorem lmax_ge_aux (l : List ℚ) (m : ℚ) :
    m ≤ l.foldl (fun m a => if m < a then a else m) m ∧
    ∀ a ∈ l, a ≤ l.foldl (fun m a => if m < a then a else m) m := by
  induction l generalizing m with
  | nil => simp
  | cons b l ih =>
    simp only [List.foldl_cons, List.mem_cons]
    obtain ⟨h1, h2⟩ := ih (if m < b then b else m)
    refine ⟨le_trans ?_ h1, ?_⟩
    · split <;> linarith
    · rintro a (rfl | ha)
      · refine le_trans ?_ h1; split <;> linarith
      · exact h2 a ha

/-- `lmax` (= `K.max` of the scale tensor) dominates every entry -/
theorem le_lmax {l : List ℚ} {a : ℚ} (h : a ∈ l) : a ≤ lmax l := (lmax_ge_aux l _).2 a h

/-! ### the rounding step as a parameter; `use_stochastic_rounding` × learning phase
    (strengthening round, seed C02-7) -/

theorem qbitsR_roundTie (t : Tie) (c : BitsCfg) (x : ℚ) : qbitsR (roundTie t) c x = qbits t c x := rfl
theorem qreluR_roundTie (t : Tie) (c : ReluCfg) (x : ℚ) :
    qreluR (roundTie t) (roundTie t) c x = qrelu t c x := rfl
theorem qreluUR_roundTie (t : Tie) (c : ReluCfg) (x : ℚ) :
    qreluUR (roundTie t) (roundTie t) c x = qreluU t c x := rfl
theorem qreluSigUR_roundTie (t : Tie) (c : ReluCfg) (s : ℚ) :
    qreluSigUR (roundTie t) (roundTie t) c s = qreluSigU t c s := rfl
theorem qlinearR_roundTie (t : Tie) (c : LinCfg) (x : ℚ) : qlinearR (roundTie t) c x = qlinear t c x := rfl
theorem qtanhPR_roundTie (t : Tie) (bits : ℤ) (sym : Bool) (p : ℚ) :
    qtanhPR (roundTie t) bits sym p = qtanhP t bits sym p := rfl
theorem qsigmoidPR_roundTie (t : Tie) (bits : ℤ) (sym : Bool) (p : ℚ) :
    qsigmoidPR (roundTie t) bits sym p = qsigmoidP t bits sym p := rfl

/-- learning phase off: `_round_through` is `tf.round`, whatever the flag and the draw -/
theorem roundThroughI_infer (t : Tie) (stoch : Bool) (u : ℚ) : roundThroughI t stoch false u = roundTie t := by
  funext x; cases stoch <;> rfl

/-- flag off: `_round_through` is `tf.round`, whatever the phase and the draw -/
theorem roundThroughI_noflag (t : Tie) (phase : Bool) (u : ℚ) : roundThroughI t false phase u = roundTie t := by
  funext x; rfl

/-- the round mode is deterministic: flag off or learning phase off -/
def RoundMode.Det (r : RoundMode) : Prop := r.stoch = false ∨ r.phase = false

theorem RoundMode.rho_det (t : Tie) {r : RoundMode} (h : r.Det) : r.rho t = roundTie t := by
  unfold RoundMode.rho
  rcases h with h | h <;> rw [h]
  · exact roundThroughI_noflag t _ _
  · exact roundThroughI_infer t _ _

theorem RoundMode.rho2_det (t : Tie) {r : RoundMode} (h : r.Det) : r.rho2 t = roundTie t := by
  unfold RoundMode.rho2
  rcases h with h | h <;> rw [h]
  · exact roundThroughI_noflag t _ _
  · exact roundThroughI_infer t _ _

/-- a rounding step that returns one of the two integers adjacent to its argument -/
def Adjacent (ρ : ℚ → ℤ) : Prop := ∀ x : ℚ, ⌊x⌋ ≤ ρ x ∧ ρ x ≤ ⌈x⌉

theorem roundTie_adjacent (t : Tie) : Adjacent (roundTie t) := by
  intro x
  have hfc : ⌈x⌉ ≤ ⌊x⌋ + 1 := Int.ceil_le_floor_add_one x
  have hfl : ⌊x⌋ ≤ ⌈x⌉ := Int.floor_le_ceil x
  rcases roundTie_cases t x with h | h
  · rw [h]; exact ⟨le_refl _, hfl⟩
  · have e : x.floor = ⌊x⌋ := rfl
    rw [h, e]
    refine ⟨by omega, ?_⟩
    -- `roundTie = floor + 1` happens only when `x` is not an integer
    by_contra hc
    have hceil : ⌈x⌉ = ⌊x⌋ := by omega
    have hx : x = (⌊x⌋ : ℚ) := by
      have h1 := Int.floor_le x
      have h2 := Int.le_ceil x
      rw [hceil] at h2
      exact le_antisymm h2 h1
    have := roundTie_int t ⌊x⌋
    rw [← hx] at this
    rw [this] at h
    omega

theorem stochRound1_cases (x u : ℚ) : stochRound1 x u = ⌊x⌋ ∨ stochRound1 x u = ⌈x⌉ := by
  unfold stochRound1
  split
  · left; rfl
  · right
    have : (-x).floor = ⌊-x⌋ := rfl
    rw [this, Int.floor_neg]; simp

theorem stochRound1_adjacent (u : ℚ) : Adjacent (fun x => stochRound1 x u) := by
  intro x
  have hfl : ⌊x⌋ ≤ ⌈x⌉ := Int.floor_le_ceil x
  rcases stochRound1_cases x u with h | h <;> simp only [h] <;> omega

/-- `_round_through` returns an adjacent integer under EVERY flag, phase and draw -/
theorem roundThroughI_adjacent (t : Tie) (stoch phase : Bool) (u : ℚ) : Adjacent (roundThroughI t stoch phase u) := by
  intro x
  unfold roundThroughI
  cases stoch <;> cases phase <;> simp only [if_true, if_false, Bool.false_eq_true]
  · exact roundTie_adjacent t x
  · exact roundTie_adjacent t x
  · exact roundTie_adjacent t x
  · exact stochRound1_adjacent u x

theorem RoundMode.rho_adjacent (t : Tie) (r : RoundMode) : Adjacent (r.rho t) := roundThroughI_adjacent _ _ _ _
theorem RoundMode.rho2_adjacent (t : Tie) (r : RoundMode) : Adjacent (r.rho2 t) := roundThroughI_adjacent _ _ _ _

/-- an adjacent rounding of a value between two integers stays between them -/
theorem Adjacent.mem {ρ : ℚ → ℤ} (h : Adjacent ρ) {x : ℚ} {lo hi : ℤ} (h1 : (lo : ℚ) ≤ x) (h2 : x ≤ (hi : ℚ)) :
    lo ≤ ρ x ∧ ρ x ≤ hi := by
  obtain ⟨a, b⟩ := h x
  exact ⟨le_trans (Int.le_floor.mpr h1) a, le_trans b (Int.ceil_le.mpr h2)⟩

/-- … and is less than one away from it -/
theorem Adjacent.err {ρ : ℚ → ℤ} (h : Adjacent ρ) (x : ℚ) : |((ρ x : ℤ) : ℚ) - x| < 1 := by
  obtain ⟨a, b⟩ := h x
  have a' : ((⌊x⌋ : ℤ) : ℚ) ≤ (ρ x : ℚ) := by exact_mod_cast a
  have b' : (ρ x : ℚ) ≤ ((⌈x⌉ : ℤ) : ℚ) := by exact_mod_cast b
  have h1 := Int.sub_one_lt_floor x
  have h2 := Int.ceil_lt_add_one x
  rw [abs_lt]; constructor <;> linarith

end QKV
